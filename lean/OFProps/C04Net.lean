import OFProps.C04NetInv
import OFProps.C04NetTee
set_option linter.unusedSimpArgs false
/-!
# C04 at network level — a stalled consumer stalls every publisher feeding it (`OFModel/Zmq/Net.lean`)

The pair-level theorem (`C04Pair.lean`) covers the position *sole consumer*.  Here, on the closed network of filter nodes
(each node = the real `ZMQSender` + `ZMQReceiver` automata + the `MQ` hand-over + the `loop_once` pending state):

* `C04_net_chain_stall_bounded` — position *consumer behind relays*.  Chain `0 → 1 → … → L-1` of ANY length, any process
  functions such that every relay answers every set with a dict (it may rename / add / remove topics, answer `{}`, use a
  callable — it never drops a set; a relay that drops sets is a consumer of its own and legitimately keeps its publisher
  going), topic names non-empty (`ProcOK`), any state reachable without restarts, any node `K` that makes no further `recv`
  (every other node - and `K`'s own `send` - may step arbitrarily often, in any order, at ANY clock readings: no time
  hypothesis).  Then node `j < K` publishes at most `1 + 2 (K - 1 - j)` further frame sets, however long the stall lasts:
  1 for the publisher next to the stalled node, +2 per relay in between (one set pending in its loop, one prefetched in its
  SUB queue).  The bound is attained (kernel-evaluated example below; by the real code: harness/ofverif/netstall.py).
* `C04_net_chain_one_block_queued`, `C04_net_chain_waits_for_consumer` — bounded buffering as an invariant: in every such
  state every SUB queue holds wire messages of at most ONE frame set its node has not returned yet (the next one), and while
  it does, no request of that node is queued at its publisher.
* `C04_net_chain_lockstep` — the invariant behind both (`ChainLock`, `OFProps/C04NetInv.lean`).  The bound is a corollary:
  publisher `j` is never more than `2 (K - j)` ids ahead of what `K` has returned and never behind it (`lock_window`), and a
  publish moves `min_send_id` by exactly one (`step_count`).
* `C04_net_tee_stall_bounded_partial` — position *one of several consumers*.  ANY topology, any process functions, any state
  (no reachability needed) in which node `u` tracks consumer `B` as a synchronised client (`TeePre`, decidable form
  `teePreCheck`), any continuation in which `B` makes no `recv` and `u`'s clock readings stay within one connection time-out
  of `B`'s last request (`TeeStall`): `u` publishes AT MOST ONE further frame set, however live its other consumers are.
  Partial: "tracked" and "no CLOSE of `B` queued" are hypotheses on the state, not derived from reachability.
* kernel-evaluated: both chain bounds attained over 200 steps; the stall ends when the consumer polls again (example, not a
  theorem); NEGATIVE witnesses: a relay with an `outputs_timeout` (gives the blocked frame up after 2 attempts, `stepDrop`)
  lets the source publish 26 / 51 sets in 200 / 400 steps; a consumer not tracked yet, or silent beyond the connection
  time-out, does not hold a tee's publisher (48 / 41 sets).
Not proved: a general resume theorem at network level (only the example; pair level: `C04_pair_resumes`); chains with restarts
(the ids are then not in lock-step: fast-forwards and discarded sets appear; the pair theorem covers restarts for one edge);
nodes with several upstreams on the path to the stalled consumer.
-/
namespace OF.Net
open OF

/-- a wire message that belongs to a published frame set (topic message or heartbeat), as opposed to HELLO / CLOSE -/
def isData (w : Recv.Wire) : Bool := decide (0 ≤ w.mid)

/-- did this event put a frame set of node `j` on the wire?  (every publish includes the `//` heartbeat, which every
subscription lets through) -/
def publishesAt (j : Nat) : Ev → Obs → Bool
  | .nodeSend i _, .sent outs => i == j && (outs.filterMap (wireOf j)).any isData
  | _, _ => false

/-- number of frame sets node `j` publishes along the schedule `evs` from `st` -/
def pubCount (tp : Topo) (proc : Proc) (j : Nat) : St → List Ev → Nat
  | _, [] => 0
  | st, e :: es => (if publishesAt j e (step tp proc st e).2 then 1 else 0) + pubCount tp proc j (step tp proc st e).1 es

/-- `prev_id` of the receiver of node `i`: the id of the last frame set it returned -/
def prevOf (nodes : List Node) (i : Nat) : Int := ((nodes[i]?).map (·.con.prevId)).getD 0

/-! ## a publish moves `min_send_id` by exactly one -/

theorem isData_hello (u : Nat) : isData (helloW u) = false := by
  simp [isData, helloW, OF.Facts.MSG_ID_HELLO]

theorem send_count (L base i : Nat) (nd b : Node) (p : Pending) (t : Int) (hn : NodeLock L i nd) (hp : nd.pending = some p)
    (hL : i + 1 < L) (he : EdgeLock nd b) (hnames : ∀ d, dictOf p.res = some d → ∀ x ∈ d, x.1 ≠ "") :
    (afterSend nd p (Send.send0 nd.pub nd.sendState (payloadOf base p.res) false [0] t)).pub.minSendId =
      nd.pub.minSendId +
        (if ((Send.send0 nd.pub nd.sendState (payloadOf base p.res) false [0] t).2.filterMap (wireOf i)).any isData then 1 else 0) := by
  rcases he with ⟨qa, s, old, blk, hqa, hsrcs, hq, hold, hreq, hcase⟩
  have hstate : Send.send0 nd.pub nd.sendState (payloadOf base p.res) false [0] t =
      Send.send0 nd.pub none (payloadOf base p.res) false [0] t := by
    by_cases hi0 : i = 0
    · rw [(hn.src hi0).2]
    · have ⟨h1, _, h3⟩ := hn.pend p hp (by omega)
      rw [h1, ← (h3 hL).1]
      exact send0_own_state nd.pub _ t hqa.inCall
  rw [hstate, payloadOf_eq]
  have hge : b.con.prevId + 1 ≤ nd.pub.minSendId := by
    rcases hcase with ⟨_, h⟩ | ⟨_, h, _⟩ <;> omega
  have hlow : ∀ r ∈ qa, ReqLow nd.pub.minSendId r := fun r hr => ⟨(hreq r hr).1, by have := (hreq r hr).2; omega⟩
  have hl := send0_lock i nd.pub qa ((dictOf p.res).map (relabel base)) t hqa hlow (relabel_names_ne base p.res hnames)
  generalize Send.send0 nd.pub none (Send.Payload.deferred ((dictOf p.res).map (relabel base))) false [0] t = r at hl ⊢
  have hpub : (afterSend nd p r).pub = r.1 := by unfold afterSend; split <;> rfl
  rw [hpub]
  rcases hl.out with ⟨ts, _, hmin, hblk, _⟩ | ⟨hmin, hws, _⟩
  · have hany : (r.2.filterMap (wireOf i)).any isData = true := by
      cases hw : r.2.filterMap (wireOf i) with
      | nil => exact absurd hw hblk.ne
      | cons w ws =>
        have := (hblk.mid w (by rw [hw]; exact List.mem_cons_self ..)).1
        have hpos := hqa.minpos
        simp [isData, this, hpos]
    rw [hany, hmin]; rfl
  · have hany : (r.2.filterMap (wireOf i)).any isData = false := by
      rw [List.any_eq_false]
      intro w hw
      rw [hws w hw, isData_hello]; simp
    rw [hany, hmin]; simp

theorem step_count (L : Nat) (tp : Topo) (hc : IsChain tp L) (proc : Proc) (st : St) (j : Nat) (e : Ev) (hinv : NetInv tp st)
    (h : ChainLock L st) (hne : isRestart e = false) :
    msOf (step tp proc st e).1.nodes j = msOf st.nodes j + (if publishesAt j e (step tp proc st e).2 then 1 else 0) := by
  cases e with
  | restart i g => cases hne
  | nodeRecv i =>
    have hno : ∀ o, publishesAt j (.nodeRecv i) o = false := fun o => rfl
    rw [hno]
    simp only [step, stepRecv, Bool.false_eq_true, ↓reduceIte, Int.add_zero]
    cases hn : st.nodes[i]? with
    | none => rfl
    | some nd =>
      simp only
      split
      · rfl
      · split
        · simp only [recvSource]
          rw [msOf_set_same st.nodes i nd (processed proc i nd []) j hn rfl]
        · simp only [recvRelay]
          rw [msOf_deliverReqs, msOf_set_same st.nodes i nd (afterRecv proc st.tbl i nd _) j hn (by rw [afterRecv_pub])]
  | nodeSend i t =>
    have hstep : step tp proc st (.nodeSend i t) = stepSend tp st i t := rfl
    rw [hstep]
    cases hn : st.nodes[i]? with
    | none =>
      have hs : stepSend tp st i t = (st, .noop) := by unfold stepSend; simp only [hn]
      rw [hs]; simp [publishesAt]
    | some nd =>
      have hiL : i < L := by rw [← h.len]; exact (List.getElem?_eq_some_iff.mp hn).1
      cases hpend : nd.pending with
      | none =>
        have hs : stepSend tp st i t = (st, .noop) := by unfold stepSend; simp only [hn, hpend]
        rw [hs]; simp [publishesAt]
      | some p =>
        cases hreach : Loop.reachesSender (tp.hasOut i) p.res with
        | false =>
          have hs : stepSend tp st i t = sendSkip st i nd := by
            unfold stepSend; simp only [hn, hpend, hreach, Bool.false_eq_true, ↓reduceIte]
          rw [hs]
          simp only [sendSkip]
          rw [msOf_set_same st.nodes i nd { nd with pending := none } j hn rfl]
          simp [publishesAt]
        | true =>
          have hs : stepSend tp st i t = sendReal tp st i nd p t := by
            unfold stepSend; simp only [hn, hpend, hreach, ↓reduceIte]
          rw [hs]
          simp only [sendReal]
          have hout : tp.hasOut i = true := by
            cases ho : tp.hasOut i with
            | true => rfl
            | false =>
              rw [ho] at hreach
              cases hres : p.res <;> rw [hres] at hreach <;> simp [Loop.reachesSender] at hreach
          have hL : i + 1 < L := by rw [hc.out i] at hout; simpa using hout
          rw [msOf_deliverWires, msOf_set st.nodes i nd _ j hn]
          by_cases hij : i = j
          · subst hij
            cases hb : st.nodes[i + 1]? with
            | none =>
              exfalso
              have : st.nodes.length ≤ i + 1 := List.getElem?_eq_none_iff.mp hb
              rw [h.len] at this; omega
            | some b =>
              have hnames : ∀ d, dictOf p.res = some d → ∀ x ∈ d, x.1 ≠ "" :=
                fun d hd => (hinv.nodes i nd hn).pendTopics p d hpend hd
              have := send_count L st.tbl.length i nd b p t (h.node i nd hn) hpend hL (h.edge i nd b hn hb) hnames
              have hold : msOf st.nodes i = nd.pub.minSendId := by unfold msOf; rw [hn]; rfl
              simp only [↓reduceIte, publishesAt, beq_self_eq_true, Bool.true_and, hold]
              exact this
          · have hji : (i == j) = false := by simpa using hij
            simp [hij, publishesAt, hji]

theorem prevOf_deliverReqs (tp : Topo) (nodes : List Node) (j gen : Nat) (outs : List Recv.Out) (i : Nat) :
    prevOf (deliverReqs tp nodes j gen outs) i = prevOf nodes i := by
  unfold prevOf; rw [deliverReqs_get]
  cases nodes[i]? with
  | none => rfl
  | some nd => rfl

theorem prevOf_deliverWires (tp : Topo) (nodes : List Node) (p : Nat) (ws : List Recv.Wire) (i : Nat) :
    prevOf (deliverWires tp nodes p ws) i = prevOf nodes i := by
  unfold prevOf; rw [deliverWires_get]
  cases nodes[i]? with
  | none => rfl
  | some nd => rfl

theorem prevOf_set (nodes : List Node) (j : Nat) (nd nd' : Node) (i : Nat) (hj : nodes[j]? = some nd)
    (hp : j = i → nd'.con.prevId = nd.con.prevId) : prevOf (nodes.set j nd') i = prevOf nodes i := by
  unfold prevOf
  rw [List.getElem?_set]
  by_cases hji : j = i
  · subst hji
    have hlen : j < nodes.length := (List.getElem?_eq_some_iff.mp hj).1
    simp only [hlen, ↓reduceIte, Option.map_some, Option.getD_some, hj, hp rfl]
  · simp only [hji, ↓reduceIte]

/-- only a node's own `recv` (or its restart) moves its `prev_id` -/
theorem prevOf_step (tp : Topo) (proc : Proc) (st : St) (K : Nat) (e : Ev) (hne : isRestart e = false) (hK : e ≠ .nodeRecv K) :
    prevOf (step tp proc st e).1.nodes K = prevOf st.nodes K := by
  cases e with
  | restart i g => cases hne
  | nodeRecv i =>
    have hiK : i ≠ K := fun hc => hK (by rw [hc])
    simp only [step, stepRecv]
    cases hn : st.nodes[i]? with
    | none => rfl
    | some nd =>
      simp only
      split
      · rfl
      · split
        · simp only [recvSource]
          exact prevOf_set st.nodes i nd _ K hn (fun hc => absurd hc hiK)
        · simp only [recvRelay]
          rw [prevOf_deliverReqs]
          exact prevOf_set st.nodes i nd _ K hn (fun hc => absurd hc hiK)
  | nodeSend i t =>
    simp only [step, stepSend]
    cases hn : st.nodes[i]? with
    | none => rfl
    | some nd =>
      simp only
      cases hpend : nd.pending with
      | none => rfl
      | some p =>
        simp only
        split
        · simp only [sendReal]
          rw [prevOf_deliverWires]
          exact prevOf_set st.nodes i nd _ K hn (fun _ => by rw [afterSend_con])
        · simp only [sendSkip]
          exact prevOf_set st.nodes i nd _ K hn (fun _ => rfl)

/-! ## the window: how far a publisher can be ahead of a consumer further down -/

theorem node_get (L : Nat) (st : St) (h : ChainLock L st) (i : Nat) (hi : i < L) : ∃ nd, st.nodes[i]? = some nd := by
  cases hn : st.nodes[i]? with
  | some nd => exact ⟨nd, rfl⟩
  | none =>
    exfalso
    have : st.nodes.length ≤ i := List.getElem?_eq_none_iff.mp hn
    rw [h.len] at this; omega

/-- **the window**: publisher `j` has published at least everything node `j + d + 1` has returned, and at most
`2 (d + 1)` frame sets more -/
theorem lock_window (L : Nat) (st : St) (h : ChainLock L st) : ∀ (d j : Nat), j + d + 1 < L →
    prevOf st.nodes (j + d + 1) + 1 ≤ msOf st.nodes j ∧ msOf st.nodes j ≤ prevOf st.nodes (j + d + 1) + 2 * ((d : Int) + 1) := by
  intro d
  induction d with
  | zero =>
    intro j hj
    rcases node_get L st h j (by omega) with ⟨a, ha⟩
    rcases node_get L st h (j + 1) (by omega) with ⟨b, hb⟩
    rcases h.edge j a b ha hb with ⟨_, _, _, _, _, _, _, _, _, hcase⟩
    have e1 : msOf st.nodes j = a.pub.minSendId := by unfold msOf; rw [ha]; rfl
    have e2 : prevOf st.nodes (j + 0 + 1) = b.con.prevId := by unfold prevOf; rw [show j + 0 + 1 = j + 1 from rfl, hb]; rfl
    rw [e1, e2]
    rcases hcase with ⟨_, hm⟩ | ⟨_, hm, _⟩ <;> constructor <;> omega
  | succ d ih =>
    intro j hj
    have hK : j + (d + 1) + 1 = (j + 1) + d + 1 := by omega
    rw [hK]
    have ⟨i1, i2⟩ := ih (j + 1) (by omega)
    rcases node_get L st h j (by omega) with ⟨a, ha⟩
    rcases node_get L st h (j + 1) (by omega) with ⟨b, hb⟩
    rcases h.edge j a b ha hb with ⟨_, _, _, _, _, _, _, _, _, hcase⟩
    have hnb := h.node (j + 1) b hb
    have e1 : msOf st.nodes j = a.pub.minSendId := by unfold msOf; rw [ha]; rfl
    have e3 : msOf st.nodes (j + 1) = b.pub.minSendId := by unfold msOf; rw [hb]; rfl
    rw [e3] at i1 i2
    rw [e1]
    have hrel : b.con.prevId ≤ b.pub.minSendId ∧ b.pub.minSendId ≤ b.con.prevId + 1 := by
      cases hp : b.pending with
      | none =>
        have := (hnb.idle hp (by omega)).2 (by omega)
        omega
      | some p =>
        have := ((hnb.pend p hp (by omega)).2.2 (by omega)).1
        omega
    have hcast : ((d + 1 : Nat) : Int) = (d : Int) + 1 := by simp
    rw [hcast]
    rcases hcase with ⟨_, hm⟩ | ⟨_, hm, _⟩ <;> constructor <;> omega

/-! ## runs -/

theorem reachNR_run (tp : Topo) (proc : Proc) : ∀ (evs : List Ev) (st : St), ReachNR tp proc st →
    (∀ e ∈ evs, isRestart e = false) → ReachNR tp proc (run tp proc st evs).1 := by
  intro evs
  induction evs with
  | nil => intro st h _; exact h
  | cons e es ih =>
    intro st h hne
    exact ih _ (.step e (hne e (List.mem_cons_self ..)) h) (fun x hx => hne x (List.mem_cons_of_mem _ hx))

/-- the number of frame sets `j` publishes along a schedule is the distance its `min_send_id` moves -/
theorem run_count (L : Nat) (tp : Topo) (hc : IsChain tp L) (proc : Proc) (hp : ProcOK proc) (hf : Fwd L proc) (j : Nat) :
    ∀ (evs : List Ev) (st : St), ReachNR tp proc st → (∀ e ∈ evs, isRestart e = false) →
    msOf (run tp proc st evs).1.nodes j = msOf st.nodes j + (pubCount tp proc j st evs : Nat) := by
  intro evs
  induction evs with
  | nil => intro st _ _; simp [run, pubCount]
  | cons e es ih =>
    intro st h hne
    have he := hne e (List.mem_cons_self ..)
    have hinv := C01_net_inv_reachable tp proc hp st (reachNR_reachable tp proc st h)
    have hlock := chainLock_reachNR L tp hc proc hp hf st h
    have h1 := step_count L tp hc proc st j e hinv hlock he
    have h2 := ih _ (.step e he h) (fun x hx => hne x (List.mem_cons_of_mem _ hx))
    show msOf (run tp proc (step tp proc st e).1 es).1.nodes j = _
    rw [h2, h1]
    simp only [pubCount]
    split <;> simp <;> omega

theorem prevOf_run (tp : Topo) (proc : Proc) (K : Nat) : ∀ (evs : List Ev) (st : St),
    (∀ e ∈ evs, isRestart e = false ∧ e ≠ .nodeRecv K) → prevOf (run tp proc st evs).1.nodes K = prevOf st.nodes K := by
  intro evs
  induction evs with
  | nil => intro st _; rfl
  | cons e es ih =>
    intro st hs
    have he := hs e (List.mem_cons_self ..)
    show prevOf (run tp proc (step tp proc st e).1 es).1.nodes K = _
    rw [ih _ (fun x hx => hs x (List.mem_cons_of_mem _ hx)), prevOf_step tp proc st K e he.1 he.2]

/-! ## the theorems -/

/-- a continuation in which node `K` is stalled: it makes no `recv` call (and nobody is restarted); every other node - and
`K`'s own `send` - may step arbitrarily often, in any order, at any clock readings -/
def StalledAt (K : Nat) (evs : List Ev) : Prop := ∀ e ∈ evs, isRestart e = false ∧ e ≠ .nodeRecv K

/-- **C04 (the invariant behind the network-level statements)**: every state a chain of forwarding filters reaches without
restarts is in lock-step (`ChainLock`) -/
theorem C04_net_chain_lockstep (L : Nat) (proc : Proc) (hp : ProcOK proc) (hf : Fwd L proc) (st : St)
    (hr : ReachNR (chainTopo L) proc st) : ChainLock L st :=
  chainLock_reachNR L (chainTopo L) (isChain_chainTopo L) proc hp hf st hr

/-- **C04 (a stalled consumer stalls every publisher feeding it, through any number of relays)**: chain `0 → … → L-1`, every
relay forwards (`Fwd`), topic names non-empty (`ProcOK`); from EVERY state reachable without restarts, over EVERY continuation
in which node `K` makes no `recv` call — however long, whatever the other nodes do, at any clock readings — node `j < K`
publishes at most `1 + 2 (K - 1 - j)` further frame sets: ONE for the publisher next to the stalled node, two more per relay
in between. -/
theorem C04_net_chain_stall_bounded (L : Nat) (proc : Proc) (hp : ProcOK proc) (hf : Fwd L proc) (st : St)
    (hr : ReachNR (chainTopo L) proc st) (K : Nat) (hK : K < L) (evs : List Ev) (hs : StalledAt K evs) (j : Nat) (hj : j < K) :
    pubCount (chainTopo L) proc j st evs ≤ 1 + 2 * (K - 1 - j) := by
  have hc := isChain_chainTopo L
  have hne : ∀ e ∈ evs, isRestart e = false := fun e he => (hs e he).1
  obtain ⟨d, rfl⟩ : ∃ d, K = j + d + 1 := ⟨K - 1 - j, by omega⟩
  have h0 := chainLock_reachNR L _ hc proc hp hf st hr
  have h1 := chainLock_reachNR L _ hc proc hp hf _ (reachNR_run _ proc evs st hr hne)
  have w0 := (lock_window L st h0 d j hK).1
  have w1 := (lock_window L _ h1 d j hK).2
  rw [prevOf_run _ proc (j + d + 1) evs st hs, run_count L _ hc proc hp hf j evs st hr hne] at w1
  have : j + d + 1 - 1 - j = d := by omega
  rw [this]
  omega

/-- the same, for the sink of the chain and every publisher upstream: the constants `1, 3, 5, …` counted from the sink -/
theorem C04_net_chain_sink_stall_bounded (L : Nat) (proc : Proc) (hp : ProcOK proc) (hf : Fwd L proc) (st : St)
    (hr : ReachNR (chainTopo L) proc st) (hL : 2 ≤ L) (evs : List Ev) (hs : StalledAt (L - 1) evs) (j : Nat) (hj : j < L - 1) :
    pubCount (chainTopo L) proc j st evs ≤ 1 + 2 * (L - 2 - j) := by
  have := C04_net_chain_stall_bounded L proc hp hf st hr (L - 1) (by omega) evs hs j hj
  have e : L - 1 - 1 - j = L - 2 - j := by omega
  rw [e] at this; exact this

/-- **C04 (bounded buffering, as an invariant)**: in every such state - in particular at every moment of a stall of any
length - every wire message queued at any SUB socket that its node could still adopt (id above its `prev_id`) belongs to
ONE frame set: the next one.  The number of frame sets queued towards a consumer never grows with the length of the run. -/
theorem C04_net_chain_one_block_queued (L : Nat) (proc : Proc) (hp : ProcOK proc) (hf : Fwd L proc) (st : St)
    (hr : ReachNR (chainTopo L) proc st) (i : Nat) (nd : Node) (hi : st.nodes[i]? = some nd) :
    ∀ s ∈ nd.con.srcs, ∀ w ∈ s.queue, nd.con.prevId < w.mid → w.mid = nd.con.prevId + 1 := by
  have h := chainLock_reachNR L _ (isChain_chainTopo L) proc hp hf st hr
  intro s hs w hw hlt
  cases i with
  | zero =>
    rw [((h.node 0 nd hi).src rfl).1] at hs; cases hs
  | succ u =>
    have hiL : u + 1 < L := by rw [← h.len]; exact (List.getElem?_eq_some_iff.mp hi).1
    rcases node_get L st h u (by omega) with ⟨a, ha⟩
    rcases h.edge u a nd ha hi with ⟨_, s', old, blk, _, hsrcs, hq, hold, _, hcase⟩
    rw [hsrcs] at hs
    simp only [List.mem_singleton] at hs
    subst hs
    rw [hq] at hw
    rcases List.mem_append.mp hw with hw | hw
    · exfalso
      rcases hold w hw with ⟨_, h2 | ⟨_, h3⟩⟩
      · have := (h.node (u + 1) nd hi).con (by omega)
        rcases this with ⟨s2, hs2⟩
        have := hs2.idle.prev
        have hh : OF.Facts.MSG_ID_HELLO = -4 := rfl
        omega
      · omega
    · rcases hcase with ⟨hb, _⟩ | ⟨hb, _, _⟩
      · rw [hb] at hw; cases hw
      · exact (hb.mid w hw).1

/-- … and while that frame set is queued, no request of the consumer is queued at its publisher: the publisher cannot
publish again before the consumer has taken the set -/
theorem C04_net_chain_waits_for_consumer (L : Nat) (proc : Proc) (hp : ProcOK proc) (hf : Fwd L proc) (st : St)
    (hr : ReachNR (chainTopo L) proc st) (u : Nat) (a b : Node) (ha : st.nodes[u]? = some a) (hb : st.nodes[u + 1]? = some b)
    (hw : ∃ s ∈ b.con.srcs, ∃ w ∈ s.queue, b.con.prevId < w.mid) : a.pub.queues = [[]] := by
  have h := chainLock_reachNR L _ (isChain_chainTopo L) proc hp hf st hr
  rcases h.edge u a b ha hb with ⟨qa, s', old, blk, hqa, hsrcs, hq, hold, _, hcase⟩
  rcases hw with ⟨s, hs, w, hw, hlt⟩
  rw [hsrcs] at hs
  simp only [List.mem_singleton] at hs
  subst hs
  rcases hcase with ⟨hb0, _⟩ | ⟨_, _, hq0⟩
  · exfalso
    rw [hq, hb0, List.append_nil] at hw
    rcases hold w hw with ⟨_, h2 | ⟨_, h3⟩⟩
    · rcases (h.node (u + 1) b hb).con (by omega) with ⟨s2, hs2⟩
      have := hs2.idle.prev
      have hh : OF.Facts.MSG_ID_HELLO = -4 := rfl
      omega
    · omega
  · rw [hqa.queues, hq0]

/-! ## one of several consumers stalls -/

/-- what one event (no restart) does to the publisher of node `u` (`nd` before, `nd'` after): requests of the receiving node
are appended to its queue, or nothing happens to it, or it is the `send` of `u` itself -/
def PubCase (tp : Topo) (proc : Proc) (st : St) (e : Ev) (u : Nat) (nd nd' : Node) : Prop :=
  (∃ i rs, e = .nodeRecv i ∧ nd'.pub = pushReqs nd.pub rs ∧ (∀ r ∈ rs, ∃ g j, keyOf r = cidOf i ++ uidOf g j) ∧
      publishesAt u e (step tp proc st e).2 = false) ∨
  (nd'.pub = nd.pub ∧ publishesAt u e (step tp proc st e).2 = false) ∨
  (∃ (t : Int) (p : Pending), e = .nodeSend u t ∧
      nd'.pub = (Send.send0 nd.pub nd.sendState (payloadOf st.tbl.length p.res) false [0] t).1 ∧
      publishesAt u e (step tp proc st e).2 =
        ((Send.send0 nd.pub nd.sendState (payloadOf st.tbl.length p.res) false [0] t).2.filterMap (wireOf u)).any isData)

theorem step_pub_cases (tp : Topo) (proc : Proc) (st : St) (e : Ev) (u : Nat) (nd : Node) (hu : st.nodes[u]? = some nd)
    (hne : isRestart e = false) :
    ∃ nd', (step tp proc st e).1.nodes[u]? = some nd' ∧ PubCase tp proc st e u nd nd' := by
  unfold PubCase
  cases e with
  | restart i g => cases hne
  | nodeRecv i =>
    have hno : ∀ o, publishesAt u (.nodeRecv i) o = false := fun o => rfl
    have hstep : step tp proc st (.nodeRecv i) = stepRecv tp proc st i := rfl
    rw [hstep]
    have hsame : (stepRecv tp proc st i).1 = st →
        ∃ nd', (stepRecv tp proc st i).1.nodes[u]? = some nd' ∧ PubCase tp proc st (.nodeRecv i) u nd nd' :=
      fun h => ⟨nd, by rw [h]; exact hu, Or.inr (Or.inl ⟨rfl, hno _⟩)⟩
    unfold PubCase at hsame
    rw [hstep] at hsame
    cases hn : st.nodes[i]? with
    | none => exact hsame (by unfold stepRecv; simp only [hn])
    | some ni =>
      cases hpend : ni.pending with
      | some p => exact hsame (by unfold stepRecv; simp only [hn, hpend, Option.isSome_some, ↓reduceIte])
      | none =>
        cases hsrc : ni.con.srcs.isEmpty with
        | true =>
          have hst : (stepRecv tp proc st i).1 = { st with nodes := st.nodes.set i (processed proc i ni []) } := by
            unfold stepRecv; simp only [hn, hpend, Option.isSome_none, Bool.false_eq_true, ↓reduceIte, hsrc, recvSource]
          rw [hst]
          simp only [List.getElem?_set]
          by_cases hiu : i = u
          · subst hiu
            have hlt : i < st.nodes.length := (List.getElem?_eq_some_iff.mp hn).1
            rw [hn] at hu; cases hu
            exact ⟨processed proc i nd [], by simp [hlt], Or.inr (Or.inl ⟨rfl, hno _⟩)⟩
          · exact ⟨nd, by simp [hiu, hu], Or.inr (Or.inl ⟨rfl, hno _⟩)⟩
        | false =>
          refine ⟨recvF tp proc st i ni u nd, by rw [stepRecv_relay_get tp proc st i ni hn hpend hsrc, hu]; rfl, Or.inl ⟨i, (Recv.call0 ni.con ni.recvState (List.range ni.con.srcs.length)).2.filterMap (reqOf i ni.gen (tp.upsOf i) u), rfl, ?_, ?_, hno _⟩⟩
          · by_cases hui : u = i
            · subst hui
              rw [hn] at hu; cases hu
              simp only [recvF, ↓reduceIte, afterRecv_pub]
            · simp only [recvF, hui, ↓reduceIte]
          · intro r hr
            rw [List.mem_filterMap] at hr
            rcases hr with ⟨o, _, hor⟩
            cases o with
            | req j mid eph new =>
              simp only [reqOf] at hor
              split at hor
              · simp only [Option.some.injEq] at hor
                subst hor
                exact ⟨ni.gen, j, rfl⟩
              · cases hor
            | oob _ _ => cases hor
            | ret _ _ _ => cases hor
            | retNone => cases hor
            | dupTopic _ => cases hor
  | nodeSend i t =>
    have hstep : step tp proc st (.nodeSend i t) = stepSend tp st i t := rfl
    rw [hstep]
    cases hn : st.nodes[i]? with
    | none =>
      have hs : stepSend tp st i t = (st, .noop) := by unfold stepSend; simp only [hn]
      rw [hs]; exact ⟨nd, hu, Or.inr (Or.inl ⟨rfl, by simp [publishesAt]⟩)⟩
    | some ni =>
      cases hpend : ni.pending with
      | none =>
        have hs : stepSend tp st i t = (st, .noop) := by unfold stepSend; simp only [hn, hpend]
        rw [hs]; exact ⟨nd, hu, Or.inr (Or.inl ⟨rfl, by simp [publishesAt]⟩)⟩
      | some p =>
        cases hreach : Loop.reachesSender (tp.hasOut i) p.res with
        | false =>
          have hs : stepSend tp st i t = sendSkip st i ni := by
            unfold stepSend; simp only [hn, hpend, hreach, Bool.false_eq_true, ↓reduceIte]
          rw [hs]
          simp only [sendSkip, List.getElem?_set]
          by_cases hiu : i = u
          · subst hiu
            have hlt : i < st.nodes.length := (List.getElem?_eq_some_iff.mp hn).1
            rw [hn] at hu; cases hu
            exact ⟨{ nd with pending := none }, by simp [hlt], Or.inr (Or.inl ⟨rfl, by simp [publishesAt]⟩)⟩
          · exact ⟨nd, by simp [hiu, hu], Or.inr (Or.inl ⟨rfl, by simp [publishesAt]⟩)⟩
        | true =>
          have hs : stepSend tp st i t = sendReal tp st i ni p t := by
            unfold stepSend; simp only [hn, hpend, hreach, ↓reduceIte]
          have hget := stepSend_real_get tp st i ni p t hn hpend hreach u
          rw [hs] at hget
          rw [hs]
          refine ⟨sendF tp st i ni p t u nd, by rw [hget, hu]; rfl, ?_⟩
          by_cases hiu : i = u
          · subst hiu
            rw [hn] at hu; cases hu
            refine Or.inr (Or.inr ⟨t, p, rfl, ?_, ?_⟩)
            · simp only [sendF, ↓reduceIte]
              unfold afterSend; split <;> rfl
            · simp only [sendReal, publishesAt, beq_self_eq_true, Bool.true_and]
          · have hui : ¬ u = i := fun e => hiu e.symm
            have hb : (i == u) = false := by simpa using hiu
            exact Or.inr (Or.inl ⟨by simp only [sendF, hui, ↓reduceIte], by simp only [sendReal, publishesAt, hb, Bool.false_and]⟩)

open OF.Pair (PubIdle) in
/-- node `u` tracks the client `fid` as a synchronised client, heard at or after `lo`; none of that client's requests still
queued at `u` is special (CLOSE) or ephemeral -/
def TeePre (st : St) (u : Nat) (fid : String) (lo : Int) : Prop :=
  ∃ nd q, st.nodes[u]? = some nd ∧ PubIdle nd.pub q ∧ Tracked nd.pub.clients fid lo ∧
    ∀ r ∈ q, keyOf r = fid → r.eph = 0 ∧ ¬ r.mid ≤ OF.Facts.MSG_ID_SPECIAL

open OF.Pair (PubIdle) in
/-- … its flag is down and none of its requests is queued: it holds the publisher -/
def TeePost (st : St) (u : Nat) (fid : String) (lo : Int) : Prop :=
  ∃ nd q, st.nodes[u]? = some nd ∧ PubIdle nd.pub q ∧ Holding nd.pub.clients fid lo ∧ ∀ r ∈ q, keyOf r ≠ fid

/-- a continuation in which node `B` is stalled (no `recv`, nobody restarted) and every clock reading of `u`'s `send`
calls lies within one connection time-out above `lo` -/
def TeeStall (u B : Nat) (lo : Int) (evs : List Ev) : Prop :=
  ∀ e ∈ evs, isRestart e = false ∧ e ≠ .nodeRecv B ∧ ∀ t, e = .nodeSend u t → lo ≤ t ∧ t - OF.Facts.ZMQ_CONN_TIMEOUT ≤ lo

theorem noData_of_pubMids_nil (u : Nat) (outs : List Send.Out) (h : Send.pubMids outs = []) :
    (outs.filterMap (wireOf u)).any isData = false := by
  rw [List.any_eq_false]
  intro w hw
  rw [List.mem_filterMap] at hw
  rcases hw with ⟨o, ho, hwo⟩
  cases o with
  | pub out f mid ts bal body =>
    exfalso
    have : mid ∈ Send.pubMids outs := (Send.mem_pubMids _ _).mpr ⟨out, f, ts, bal, body, ho⟩
    rw [h] at this; cases this
  | hello out =>
    simp only [wireOf, Option.some.injEq] at hwo
    rw [← hwo]; simp [isData, OF.Facts.MSG_ID_HELLO]
  | oob b => cases hwo
  | evaluated => cases hwo
  | ret n => cases hwo
  | retNone => cases hwo

theorem tee_post_step (tp : Topo) (proc : Proc) (st : St) (u B g jj : Nat) (lo : Int) (e : Ev)
    (h : TeePost st u (cidOf B ++ uidOf g jj) lo) (hne : isRestart e = false) (hB : e ≠ .nodeRecv B)
    (ht : ∀ t, e = .nodeSend u t → lo ≤ t ∧ t - OF.Facts.ZMQ_CONN_TIMEOUT ≤ lo) :
    TeePost (step tp proc st e).1 u (cidOf B ++ uidOf g jj) lo ∧ publishesAt u e (step tp proc st e).2 = false := by
  rcases h with ⟨nd, q, hu, hq, hH, hk⟩
  rcases step_pub_cases tp proc st e u nd hu hne with ⟨nd', hu', hc⟩
  rcases hc with ⟨i, rs, rfl, hp, hrs, hno⟩ | ⟨hp, hno⟩ | ⟨t, p, rfl, hp, hno⟩
  · refine ⟨⟨nd', q ++ rs, hu', by rw [hp]; exact Pair.pubIdle_pushReqs nd.pub q rs hq, by rw [hp]; exact hH, ?_⟩, hno⟩
    intro r hr
    rcases List.mem_append.mp hr with hr | hr
    · exact hk r hr
    · rcases hrs r hr with ⟨g2, j2, e2⟩
      rw [e2]
      exact key_ne i B g2 j2 g jj (fun hc => hB (by rw [hc]))
  · exact ⟨⟨nd', q, hu', by rw [hp]; exact hq, by rw [hp]; exact hH, hk⟩, hno⟩
  · have ⟨⟨q', h1, pre, h2⟩, h3, h4⟩ := send0_holding nd.pub q nd.sendState (payloadOf st.tbl.length p.res) t _ lo hq hH hk (ht t rfl).2
    refine ⟨⟨nd', q', hu', by rw [hp]; exact h1, by rw [hp]; exact h3, ?_⟩, by rw [hno]; exact noData_of_pubMids_nil u _ h4⟩
    intro r hr
    exact hk r (by rw [h2]; exact List.mem_append_right _ hr)

theorem tee_pre_step (tp : Topo) (proc : Proc) (st : St) (u B g jj : Nat) (lo : Int) (e : Ev)
    (h : TeePre st u (cidOf B ++ uidOf g jj) lo) (hne : isRestart e = false) (hB : e ≠ .nodeRecv B)
    (ht : ∀ t, e = .nodeSend u t → lo ≤ t ∧ t - OF.Facts.ZMQ_CONN_TIMEOUT ≤ lo) :
    (TeePre (step tp proc st e).1 u (cidOf B ++ uidOf g jj) lo ∧ publishesAt u e (step tp proc st e).2 = false) ∨
    TeePost (step tp proc st e).1 u (cidOf B ++ uidOf g jj) lo := by
  rcases h with ⟨nd, q, hu, hq, hT, hk⟩
  rcases step_pub_cases tp proc st e u nd hu hne with ⟨nd', hu', hc⟩
  rcases hc with ⟨i, rs, rfl, hp, hrs, hno⟩ | ⟨hp, hno⟩ | ⟨t, p, rfl, hp, hno⟩
  · left
    refine ⟨⟨nd', q ++ rs, hu', by rw [hp]; exact Pair.pubIdle_pushReqs nd.pub q rs hq, by rw [hp]; exact hT, ?_⟩, hno⟩
    intro r hr hkey
    rcases List.mem_append.mp hr with hr | hr
    · exact hk r hr hkey
    · exfalso
      rcases hrs r hr with ⟨g2, j2, e2⟩
      rw [e2] at hkey
      exact key_ne i B g2 j2 g jj (fun hc => hB (by rw [hc])) hkey
  · left
    exact ⟨⟨nd', q, hu', by rw [hp]; exact hq, by rw [hp]; exact hT, hk⟩, hno⟩
  · have ⟨q', h1, ⟨pre, h2⟩, h3, h4⟩ := send0_tracked nd.pub q nd.sendState (payloadOf st.tbl.length p.res) t _ lo hq hT hk
      (ht t rfl).2 (ht t rfl).1
    by_cases hpm : Send.pubMids (Send.send0 nd.pub nd.sendState (payloadOf st.tbl.length p.res) false [0] t).2 = []
    · left
      refine ⟨⟨nd', q', hu', by rw [hp]; exact h1, by rw [hp]; exact h3, ?_⟩, by rw [hno]; exact noData_of_pubMids_nil u _ hpm⟩
      intro r hr
      exact hk r (by rw [h2]; exact List.mem_append_right _ hr)
    · right
      have ⟨h5, h6⟩ := h4 hpm
      subst h5
      exact ⟨nd', [], hu', by rw [hp]; exact h1, by rw [hp]; exact h6, fun r hr => by cases hr⟩

theorem tee_post_run (tp : Topo) (proc : Proc) (u B g jj : Nat) (lo : Int) : ∀ (evs : List Ev) (st : St),
    TeePost st u (cidOf B ++ uidOf g jj) lo → TeeStall u B lo evs → pubCount tp proc u st evs = 0 := by
  intro evs
  induction evs with
  | nil => intro st _ _; rfl
  | cons e es ih =>
    intro st h hs
    have ⟨h1, h2, h3⟩ := hs e (List.mem_cons_self ..)
    have ⟨a, b⟩ := tee_post_step tp proc st u B g jj lo e h h1 h2 h3
    simp only [pubCount, b, Bool.false_eq_true, ↓reduceIte, Nat.zero_add]
    exact ih _ a (fun x hx => hs x (List.mem_cons_of_mem _ hx))

/-- **C04 (one of several consumers stalls)**: ANY topology, any process functions, any node `u` with any number of
consumers, any state in which `u` tracks consumer `B` (source `jj` of incarnation `g`) as a synchronised client and none of
`B`'s queued requests is a CLOSE; over every continuation in which `B` makes no `recv` call - the other consumers of `u` may
be as live and fast as they like - and the clock readings of `u`'s `send` calls stay within one connection time-out of `B`'s
last request, `u` publishes AT MOST ONE further frame set: it waits for ALL tracked synchronised clients. -/
theorem C04_net_tee_stall_bounded_partial (tp : Topo) (proc : Proc) (u B g jj : Nat) (lo : Int) : ∀ (evs : List Ev) (st : St),
    TeePre st u (cidOf B ++ uidOf g jj) lo → TeeStall u B lo evs → pubCount tp proc u st evs ≤ 1 := by
  intro evs
  induction evs with
  | nil => intro st _ _; exact Nat.zero_le _
  | cons e es ih =>
    intro st h hs
    have ⟨h1, h2, h3⟩ := hs e (List.mem_cons_self ..)
    have hs' : TeeStall u B lo es := fun x hx => hs x (List.mem_cons_of_mem _ hx)
    rcases tee_pre_step tp proc st u B g jj lo e h h1 h2 h3 with ⟨a, b⟩ | a
    · simp only [pubCount, b, Bool.false_eq_true, ↓reduceIte, Nat.zero_add]
      exact ih _ a hs'
    · simp only [pubCount]
      rw [tee_post_run tp proc u B g jj lo es _ a hs']
      split <;> omega

/-! ### the hypothesis `TeePre`, as a computation -/

/-- `TeePre`, decidable form -/
def teePreCheck (st : St) (u : Nat) (fid : String) (lo : Int) : Bool :=
  match st.nodes[u]? with
  | none => false
  | some nd =>
    match nd.pub.queues with
    | [q] =>
      !nd.pub.balance && nd.pub.required.isEmpty && !nd.pub.inCall && decide (0 ≤ nd.pub.minSendId) &&
      nd.pub.clients.any (fun x => x.1 == fid) &&
      nd.pub.clients.all (fun x => x.1 != fid || (decide (lo ≤ x.2.tLast) && x.2.eph == 0)) &&
      q.all (fun r => keyOf r != fid || (r.eph == 0 && decide (¬ r.mid ≤ OF.Facts.MSG_ID_SPECIAL)))
    | _ => false

theorem teePre_of_check (st : St) (u : Nat) (fid : String) (lo : Int) (h : teePreCheck st u fid lo = true) : TeePre st u fid lo := by
  unfold teePreCheck at h
  cases hn : st.nodes[u]? with
  | none => rw [hn] at h; cases h
  | some nd =>
    rw [hn] at h
    simp only at h
    cases hq : nd.pub.queues with
    | nil => rw [hq] at h; cases h
    | cons q rest =>
      cases rest with
      | cons _ _ => rw [hq] at h; cases h
      | nil =>
        rw [hq] at h
        simp only [Bool.and_eq_true, Bool.not_eq_true', List.isEmpty_iff, decide_eq_true_eq, List.any_eq_true, beq_iff_eq,
          List.all_eq_true, Bool.or_eq_true, bne_iff_ne, ne_eq] at h
        rcases h with ⟨⟨⟨⟨⟨⟨h1, h2⟩, h3⟩, h4⟩, ⟨x, hx, hxk⟩⟩, h6⟩, h7⟩
        refine ⟨nd, q, hn, ⟨hq, h1, h2, h3, h4⟩, ⟨⟨x.2, by rw [← hxk]; exact hx⟩, ?_⟩, ?_⟩
        · intro c hc
          rcases h6 (fid, c) hc with h | h
          · exact absurd rfl h
          · exact h
        · intro r hr hk
          rcases h7 r hr with h | h
          · exact absurd hk h
          · exact h

/-! ## non-vacuity and negative witnesses (kernel-evaluated) -/

/-- source publishes `{main: n}`, everybody else passes on what it is handed -/
def chProc : Proc := fun i n h => if i = 0 then .now (.dict [("main", n)]) else .now (.dict h)

theorem chProc_ok : ProcOK chProc := by
  intro i n h d hh hd x hx
  unfold chProc at hd
  by_cases hi : i = 0
  · simp only [hi, ↓reduceIte, Loop.processFrames, Loop.normPlain, dictOf, Option.some.injEq] at hd
    subst hd
    simp only [List.mem_singleton] at hx
    subst hx; simp
  · simp only [hi, ↓reduceIte, Loop.processFrames, Loop.normPlain, dictOf, Option.some.injEq] at hd
    subst hd
    exact hh x hx

theorem chProc_fwd (L : Nat) : Fwd L chProc := by
  intro i n h hi _
  have : ¬ i = 0 := by omega
  simp [chProc, this, Loop.processFrames, Loop.normPlain, dictOf]

/-- one fair round of a 3-node network at clock reading `t` -/
def chRound (t : Int) : List Ev := [.nodeRecv 0, .nodeSend 0 t, .nodeRecv 1, .nodeSend 1 t, .nodeRecv 2, .nodeSend 2 t]

/-- `n` fair rounds from the initial state (handshakes, then frames flow) -/
def chPrefix (n : Nat) : List Ev := ((List.range n).map fun k => chRound (1000 + 100 * (k : Nat))).flatten

/-- `n` rounds in which node 2 takes no step at all: nodes 0 and 1 `send` and `recv` in turn -/
def chStall (n : Nat) (t : Int) : List Ev := (List.replicate n [Ev.nodeSend 0 t, .nodeRecv 0, .nodeSend 1 t, .nodeRecv 1]).flatten

/-- the sets handed to `process()` of node `K` along a run -/
def setsHanded (K : Nat) : List Ev → List Obs → Nat
  | .nodeRecv i :: es, .rcvd _ (some _) _ :: os => (if i = K then 1 else 0) + setsHanded K es os
  | _ :: es, _ :: os => setsHanded K es os
  | _, _ => 0

theorem chPrefix_reach (tp : Topo) (n : Nat) : ReachNR tp chProc (run tp chProc (init tp) (chPrefix n)).1 := by
  apply reachNR_run tp chProc _ _ .init
  intro e he
  simp only [chPrefix, List.mem_flatten, List.mem_map, List.mem_range] at he
  rcases he with ⟨l, ⟨k, _, rfl⟩, he⟩
  simp only [chRound, List.mem_cons, List.mem_nil_iff, or_false] at he
  rcases he with rfl | rfl | rfl | rfl | rfl | rfl <;> rfl

/-- chain `S → F → K`: after 5 fair rounds `K` has been handed 2 frame sets; then it stalls; in 200 further steps of `S` and
`F` (50 round-robin rounds) `F` publishes exactly 1 and `S` exactly 3 = `1 + 2·1` further sets: both bounds of
`C04_net_chain_stall_bounded` are attained -/
example : setsHanded 2 (chPrefix 5) (run (chainTopo 3) chProc (init (chainTopo 3)) (chPrefix 5)).2 = 2 ∧
    (chStall 50 2000).length = 200 ∧
    pubCount (chainTopo 3) chProc 1 (run (chainTopo 3) chProc (init (chainTopo 3)) (chPrefix 5)).1 (chStall 50 2000) = 1 ∧
    pubCount (chainTopo 3) chProc 0 (run (chainTopo 3) chProc (init (chainTopo 3)) (chPrefix 5)).1 (chStall 50 2000) = 3 := by
  decide +kernel

/-- the theorem applies to it -/
example : pubCount (chainTopo 3) chProc 0 (run (chainTopo 3) chProc (init (chainTopo 3)) (chPrefix 5)).1 (chStall 50 2000) ≤ 3 :=
  C04_net_chain_stall_bounded 3 chProc chProc_ok (chProc_fwd 3) _ (chPrefix_reach _ 5) 2 (by decide) (chStall 50 2000)
    (by
      intro e he
      simp only [chStall, List.mem_flatten, List.mem_replicate] at he
      rcases he with ⟨l, ⟨_, rfl⟩, he⟩
      simp only [List.mem_cons, List.mem_nil_iff, or_false] at he
      rcases he with rfl | rfl | rfl | rfl <;> exact ⟨rfl, by simp⟩)
    0 (by decide)

/-- the stall ends when the consumer takes frames again: after the 200 steps above nothing more is published by the source
in 3 fair rounds without `K` … but with `K` polling again, the back-pressure is released hop by hop and in the fourth fair
round the source publishes again -/
example : pubCount (chainTopo 3) chProc 0
      (run (chainTopo 3) chProc (init (chainTopo 3)) (chPrefix 5 ++ chStall 50 2000)).1 (chStall 3 2100) = 0 ∧
    pubCount (chainTopo 3) chProc 0
      (run (chainTopo 3) chProc (init (chainTopo 3)) (chPrefix 5 ++ chStall 50 2000)).1 (List.replicate 4 (chRound 2100)).flatten = 1 := by
  decide +kernel

/-! ### why the relay's loop matters: `outputs_timeout` -/

def pendingAt (st : St) (r : Nat) : Bool := ((st.nodes[r]?).map (·.pending.isSome)).getD false

/-- `loop_once` gives the blocked frame up: the pending result of node `r` is dropped -/
def dropPending (st : St) (r : Nat) : St :=
  { st with nodes := st.nodes.mapIdx fun i nd => if i = r then { nd with pending := none } else nd }

/-- the network step when node `r` runs with an `outputs_timeout` of `k` poll intervals: after `k` consecutive failed `send`
attempts it gives the frame up and goes back to `recv` (the second component counts the failed attempts) -/
def stepDrop (tp : Topo) (proc : Proc) (r k : Nat) (s : St × Nat) (e : Ev) : (St × Nat) × Obs :=
  match e with
  | .nodeSend i _ =>
    if i = r ∧ pendingAt (step tp proc s.1 e).1 r = true then
      (if k ≤ s.2 + 1 then (dropPending (step tp proc s.1 e).1 r, 0) else ((step tp proc s.1 e).1, s.2 + 1), (step tp proc s.1 e).2)
    else (((step tp proc s.1 e).1, if i = r then 0 else s.2), (step tp proc s.1 e).2)
  | _ => (((step tp proc s.1 e).1, s.2), (step tp proc s.1 e).2)

def pubCountDrop (tp : Topo) (proc : Proc) (r k j : Nat) : St × Nat → List Ev → Nat
  | _, [] => 0
  | s, e :: es => (if publishesAt j e (stepDrop tp proc r k s e).2 then 1 else 0) + pubCountDrop tp proc r k j (stepDrop tp proc r k s e).1 es

/-- NEGATIVE witness: the same chain, the same stall, but the relay `F` gives a blocked frame up after 2 failed attempts (an
`outputs_timeout`): the source is not held any more - 26 sets in the same 200 steps, 51 in 400 (the relay drops them all) -/
example : pubCountDrop (chainTopo 3) chProc 1 2 0 ((run (chainTopo 3) chProc (init (chainTopo 3)) (chPrefix 5)).1, 0) (chStall 50 2000) = 26 ∧
    pubCountDrop (chainTopo 3) chProc 1 2 0 ((run (chainTopo 3) chProc (init (chainTopo 3)) (chPrefix 5)).1, 0) (chStall 100 2000) = 51 := by
  decide +kernel

/-! ### one of several consumers -/

/-- `S → A`, `S → B` -/
def teeTopo : Topo := { ups := [[], [0], [0]] }

/-- `n` rounds in which `B` = node 2 takes no step: `S` sends and polls, `A` polls and sends -/
def teeStall (n : Nat) (t : Int) : List Ev := (List.replicate n [Ev.nodeSend 0 t, .nodeRecv 0, .nodeRecv 1, .nodeSend 1 t]).flatten

/-- after 5 fair rounds `S` tracks `B`; `B` stalls, `A` stays live: in 100 rounds (400 steps) `S` publishes ONE more set (the hypothesis
`TeePre` of the theorem holds in that state, the clock readings stay inside the window) -/
example : teePreCheck (run teeTopo chProc (init teeTopo) (chPrefix 5)).1 0 (cidOf 2 ++ uidOf 0 0) 1400 = true ∧
    pubCount teeTopo chProc 0 (run teeTopo chProc (init teeTopo) (chPrefix 5)).1 (teeStall 100 2000) = 1 := by
  decide +kernel

/-- the theorem applies to it -/
example : pubCount teeTopo chProc 0 (run teeTopo chProc (init teeTopo) (chPrefix 5)).1 (teeStall 100 2000) ≤ 1 :=
  C04_net_tee_stall_bounded_partial teeTopo chProc 0 2 0 0 1400 _ _ (teePre_of_check _ _ _ _ (by decide +kernel))
    (by
      intro e he
      simp only [teeStall, List.mem_flatten, List.mem_replicate] at he
      rcases he with ⟨l, ⟨_, rfl⟩, he⟩
      simp only [List.mem_cons, List.mem_nil_iff, or_false] at he
      rcases he with rfl | rfl | rfl | rfl
      · exact ⟨rfl, by simp, fun t ht => by cases ht; decide⟩
      · exact ⟨rfl, by simp, fun t ht => by cases ht⟩
      · exact ⟨rfl, by simp, fun t ht => by cases ht⟩
      · exact ⟨rfl, by simp, fun t ht => by cases ht⟩)

/-- NEGATIVE witnesses for the two hypotheses: a consumer the publisher does not track yet does not hold it (48 sets in 50
rounds), and neither does one that has been silent for the connection time-out (41 sets: evicted after the clock jumps) -/
example : teePreCheck (run teeTopo chProc (init teeTopo) (chPrefix 0)).1 0 (cidOf 2 ++ uidOf 0 0) 1000 = false ∧
    pubCount teeTopo chProc 0 (run teeTopo chProc (init teeTopo) (chPrefix 0)).1 (teeStall 50 2000) = 48 ∧
    pubCount teeTopo chProc 0 (run teeTopo chProc (init teeTopo) (chPrefix 5)).1 (teeStall 10 2000 ++ teeStall 40 9000) = 41 := by
  decide +kernel

end OF.Net
