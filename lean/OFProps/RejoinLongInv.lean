import OFProps.C03RejoinSkip
/-!
# RejoinLongInv — the tee-rejoin whose branches are CHAINS of relays: topology, specification (C03 stage C, §11.3j)

`rejoinLongTopo b L` (`b ≥ 1` branches, each a chain of `L ≥ 1` relays), branch-major numbering:
* node `0` the source;
* branch `jj < b` = the relays `jj * L + 1 → jj * L + 2 → … → (jj + 1) * L`: the first one subscribed to the source, every other one to its
  predecessor (`ups (x + 1) = if x % L = 0 then [0] else [x]`);
* the join `J = b * L + 1` subscribed to the LAST relay `(jj + 1) * L` of every branch, in branch order.
`rejoinLongTopo b 1 = rejoinTopo b` (`rjl_one`).
-/
namespace OF.Net
open OF.Recv (Topic)

def rejoinLongTopo (b L : Nat) : Topo :=
  { ups := [] :: ((List.range (b * L)).map (fun x => if x % L = 0 then [0] else [x]) ++ [(List.range b).map fun jj => (jj + 1) * L]) }

/-- the relays of branch `jj`, in the order the frames pass them -/
def branchNodes (L jj : Nat) : List Nat := (List.range L).map fun k => jj * L + k + 1

/-- the block a chain of relays `is` finally publishes for the published block `x` of the node above them (every relay called on the
visible part of what its predecessor published, `process_frames` normalisation, call counter `c`); `none` as soon as one relay makes
no dict -/
def alongOut (proc : Proc) (c : Nat) : List Nat → HSet → Option HSet
  | [], x => some x
  | i :: is, x =>
    match dictOf (Loop.processFrames (proc i c (visB x).2)) with
    | none => none
    | some d => alongOut proc c is (x.1, d)

/-- the set the join is handed for the source block `x`: none unless EVERY branch delivers it -/
def joinSetLong (proc : Proc) (b L : Nat) (x : HSet) : Option HSet :=
  if (List.range b).all (fun jj => (alongOut proc x.1.toNat (branchNodes L jj) x).isSome) then
    some (x.1, (List.range b).flatMap fun jj => (visB ((alongOut proc x.1.toNat (branchNodes L jj) x).getD (x.1, []))).2)
  else none

/-- the sets handed to the join when the source produces frames `0 … N-1`: the frames EVERY branch delivers -/
def rejoinSpecLong (proc : Proc) (b L N : Nat) : List HSet := (srcBlocks proc N).filterMap (joinSetLong proc b L)

/-- no relay of a branch depends on its call counter -/
def RelayCntFree (proc : Proc) (b L : Nat) : Prop :=
  ∀ i, 1 ≤ i → i ≤ b * L → ∀ (n m : Nat) (h : List (Topic × Nat)), proc i n h = proc i m h

/-- every topic the LAST relay of branch `owner t` publishes is its own -/
def OwnedLast (proc : Proc) (b L : Nat) (owner : Topic → Nat) : Prop :=
  ∀ jj n h d, jj < b → dictOf (Loop.processFrames (proc ((jj + 1) * L) n h)) = some d → ∀ x ∈ d, owner x.1 = jj

end OF.Net
