import OFModel.Zmq.NetEph
import OFProps.C06StarEdge
import OFProps.ChainSendEph
import OFProps.NetEphStrip
set_option linter.unusedSimpArgs false
/-!
# Listener requests only hasten a due publish (sender-level lemmas for `OFProps/C05NetHasten.lean`)

One `send(callable, state, 0)` of a publisher with one bound output, not balanced, nothing required, run twice from the SAME state: once
on its PULL queue `q` (synchronised AND listener requests, any ids), once on `q.filter keepReq` (the listener requests erased).
* `drain_foldE` — the drain of a queue that may hold listener requests (special ids, ids ahead) is a fold of `hstepE` over the queue
  (`drain_fold` of `C06StarEdge.lean` generalised: CLOSE deletes, OOB / other special ids do nothing, everything else as before);
* `fold_rel` — the two folds in lock-step keep the relation `RelT`: the synchronised entries of the table with listeners are entries of
  the table without; listener entries are ephemeral; **if `do_send` is up without the listener requests it is up with them**, every
  live entry has asked or is ephemeral, and a live synchronised entry exists (so the table is not empty);
* `send0_hasten` — hence: if the listener-free call publishes the block, the call with the listener requests publishes the same block
  (same wire messages, same return value, same `min_send_id`).
Hypothesis `HS` (handshake): a synchronised client whose handshake request (`new`) is queued is not registered and has only handshake
requests queued.  Without it the statement is false — kernel-evaluated counter-example `hasten_needs_handshake` below: a registered
client silent beyond the time-out asks with `new`; a listener request evicts it first, so its request is answered with HELLO only.
-/
namespace OF.Net.Eph
open OF OF.Send OF.Net
open OF.Pair (PubIdle PubBusy popped entryOf needsHello)

/-! ## keys of listeners and of nodes -/

/-- a client-table key (`cid ++ uid`) of a listener -/
def isLKey (fid : String) : Bool := fid.startsWith "E"

theorem listener_key (r : Req) (h : isListenerCid r.cid = true) : isLKey (Pair.fidOf r) = true := by
  unfold isListenerCid at h
  unfold isLKey Pair.fidOf
  rw [String.startsWith_string_iff] at h ⊢
  rw [String.toList_append]
  exact List.IsPrefix.trans h (List.prefix_append _ _)

theorem node_key (i : Nat) (uid : String) : isLKey (cidOf i ++ uid) = false := by
  unfold isLKey cidOf
  rw [String.startsWith_string_eq_false_iff]
  simp only [String.toList_append]
  intro hc
  rcases hc with ⟨rest, hr⟩
  have e1 : ("N" : String).toList = ['N'] := by decide
  have e2 : ("E" : String).toList = ['E'] := by decide
  rw [e1, e2] at hr
  simp at hr

/-! ## the drain as a fold, listener requests included -/

/-- one queued request handled by `poll_recv`: special ids first (CLOSE deletes the entry, OOB and the others change nothing) -/
def hstepE (t : Int) (s : DAcc) (r : Req) : DAcc :=
  if r.mid ≤ OF.Facts.MSG_ID_SPECIAL then
    (if r.mid = OF.Facts.MSG_ID_CLOSE then (cdel s.1 (Pair.fidOf r), s.2.1, s.2.2) else s)
  else hstep t s r

/-- no fast-forward: below the id of the call, or ephemeral -/
def ReqNoFf (m : Int) (r : Req) : Prop := r.mid < m ∨ r.eph ≠ 0

theorem onReq_normalE (st : Send.St) (r : Req) (t : Int) (hd : ¬ r.mid ≤ OF.Facts.MSG_ID_SPECIAL)
    (hn : needsHello st r = false) (hnf : ReqNoFf st.msgId r) (hb : st.balance = false) (hr : st.required = []) :
    onReq st 0 r t =
      ({ st with clients := (evalClients false (t - OF.Facts.ZMQ_CONN_TIMEOUT) (cset st.clients (Pair.fidOf r) (entryOf r t))
                    (cset st.clients (Pair.fidOf r) (entryOf r t), true, [])).1,
                 doSend := (evalClients false (t - OF.Facts.ZMQ_CONN_TIMEOUT) (cset st.clients (Pair.fidOf r) (entryOf r t))
                    (cset st.clients (Pair.fidOf r) (entryOf r t), true, [])).2.1,
                 outputs := (evalClients false (t - OF.Facts.ZMQ_CONN_TIMEOUT) (cset st.clients (Pair.fidOf r) (entryOf r t))
                    (cset st.clients (Pair.fidOf r) (entryOf r t), true, [])).2.2 }, [], .normal) := by
  unfold needsHello Pair.fidOf at hn
  have hnge : ¬ (r.mid ≥ st.msgId ∧ r.eph = 0) := by
    intro h
    rcases hnf with h1 | h1
    · omega
    · exact h1 h.2
  unfold onReq
  simp only [hd, ↓reduceIte, hn, Bool.false_eq_true, hnge, hb, hr, List.all_nil, Bool.false_and, Pair.fidOf, entryOf]

/-- one request of the drain: the call goes on, nothing but an OOB notification comes out, and table / `do_send` / `do_hello` move by
`hstepE` -/
theorem onReq_stepE (st : Send.St) (q : List Req) (r : Req) (t : Int) (h : PubBusy st q) (hr : ReqNoFf st.msgId r) :
    PubBusy (onReq st 0 r t).1 q ∧ (onReq st 0 r t).1.payload = st.payload ∧ (onReq st 0 r t).1.msgId = st.msgId ∧
    (onReq st 0 r t).1.minSendId = st.minSendId ∧ (onReq st 0 r t).1.balanced = st.balanced ∧
    (onReq st 0 r t).2.2 ≠ .ffwd ∧
    ((onReq st 0 r t).1.clients, (onReq st 0 r t).1.doSend, (onReq st 0 r t).1.doHello) =
      hstepE t (st.clients, st.doSend, st.doHello) r := by
  by_cases hsp : r.mid ≤ OF.Facts.MSG_ID_SPECIAL
  · have hb : PubBusy st q := h
    unfold onReq hstepE
    simp only [hsp, ↓reduceIte]
    by_cases h1 : r.mid = OF.Facts.MSG_ID_OOB
    · have h2 : ¬ r.mid = OF.Facts.MSG_ID_CLOSE := by rw [h1]; decide
      rw [if_pos h1, if_neg h2]
      exact ⟨⟨hb.queues, hb.balance, hb.required, hb.inCall, hb.push, hb.minpos, hb.msgpos⟩, rfl, rfl, rfl, rfl, by simp, rfl⟩
    · rw [if_neg h1]
      by_cases h2 : r.mid = OF.Facts.MSG_ID_CLOSE
      · rw [if_pos h2, if_pos h2]
        exact ⟨⟨hb.queues, hb.balance, hb.required, hb.inCall, hb.push, hb.minpos, hb.msgpos⟩, rfl, rfl, rfl, rfl, by simp, rfl⟩
      · rw [if_neg h2, if_neg h2]
        exact ⟨⟨hb.queues, hb.balance, hb.required, hb.inCall, hb.push, hb.minpos, hb.msgpos⟩, rfl, rfl, rfl, rfl, by simp, rfl⟩
  · have hE : hstepE t (st.clients, st.doSend, st.doHello) r = hstep t (st.clients, st.doSend, st.doHello) r := by
      unfold hstepE; simp only [hsp, ↓reduceIte]
    rw [hE]
    by_cases hne : needsHello st r = true
    · rw [Pair.onReq_newconn st r t hsp hne]
      have hn : normalReq st.clients r = false := by
        have := needsHello_normalReq st r
        rw [hne] at this
        cases hx : normalReq st.clients r with
        | false => rfl
        | true => rw [hx] at this; cases this
      refine ⟨⟨h.queues, h.balance, h.required, h.inCall, h.push, h.minpos, h.msgpos⟩, rfl, rfl, rfl, rfl, by simp, ?_⟩
      simp only [hstep, hn, Bool.false_eq_true, ↓reduceIte]
    · have hne' : needsHello st r = false := by simpa using hne
      rw [onReq_normalE st r t hsp hne' hr h.balance h.required]
      have hn : normalReq st.clients r = true := by
        have := needsHello_normalReq st r
        rw [hne'] at this
        cases hx : normalReq st.clients r with
        | true => rfl
        | false => rw [hx] at this; cases this
      refine ⟨⟨h.queues, h.balance, h.required, h.inCall, h.push, h.minpos, h.msgpos⟩, rfl, rfl, rfl, rfl, by simp, ?_⟩
      simp only [hstep, hn, ↓reduceIte, regT]
      rw [(C05_decision_formula _ _ _ true).1]
      simp only [Bool.true_and]

/-- **the drain is the fold**, listener requests (special ids, ids ahead) included -/
theorem drain_foldE : ∀ (q : List Req) (stb : Send.St) (t : Int), PubBusy stb q → (∀ r ∈ q, ReqNoFf stb.msgId r) →
    PubBusy (drain (q.length + 1) stb [0] t).1 [] ∧ (drain (q.length + 1) stb [0] t).1.payload = stb.payload ∧
    (drain (q.length + 1) stb [0] t).1.msgId = stb.msgId ∧ (drain (q.length + 1) stb [0] t).1.minSendId = stb.minSendId ∧
    (drain (q.length + 1) stb [0] t).1.balanced = stb.balanced ∧
    ((drain (q.length + 1) stb [0] t).1.clients, (drain (q.length + 1) stb [0] t).1.doSend, (drain (q.length + 1) stb [0] t).1.doHello) =
      q.foldl (hstepE t) (stb.clients, stb.doSend, stb.doHello) := by
  intro q
  induction q with
  | nil =>
    intro stb t hb _
    simp only [List.length_nil, Nat.zero_add]
    rw [Pair.drain_nil 0 stb t hb]
    exact ⟨hb, rfl, rfl, rfl, rfl, rfl⟩
  | cons r q' ih =>
    intro stb t hb hq
    have hlow := hq r (List.mem_cons_self ..)
    have hp := Pair.popped_busy stb r q' hb
    have hlk := onReq_stepE (popped stb q') q' r t hp hlow
    rw [List.length_cons, Pair.drain_cons (q'.length + 1) stb r q' t hb, Pair.stepHandle_cons stb r q' t hb]
    simp only [hlk.2.2.2.2.2.1, ↓reduceIte]
    have hq1 : ∀ x ∈ q', ReqNoFf (onReq (popped stb q') 0 r t).1.msgId x := by
      intro x hx; rw [hlk.2.2.1]; exact hq x (List.mem_cons_of_mem _ hx)
    have := ih _ t hlk.1 hq1
    refine ⟨this.1, by rw [this.2.1, hlk.2.1]; rfl, by rw [this.2.2.1, hlk.2.2.1]; rfl, by rw [this.2.2.2.1, hlk.2.2.2.1]; rfl,
      by rw [this.2.2.2.2.1, hlk.2.2.2.2.1]; rfl, ?_⟩
    rw [this.2.2.2.2.2, List.foldl_cons, hlk.2.2.2.2.2.2]
    rfl

/-! ## the two runs in lock-step -/

/-- `s` = (table, `do_send`, `do_hello`) of the run WITH the listener requests, `s0` of the run without -/
structure RelT (tMin : Int) (s s0 : DAcc) : Prop where
  ku : KeysND s.1
  ku0 : KeysND s0.1
  le : ∀ x ∈ s.1, isLKey x.1 = true → x.2.eph ≠ 0
  sub : ∀ x ∈ s.1, isLKey x.1 = false → x ∈ s0.1
  dec : s0.2.1 = true → s.2.1 = true ∧ (∀ x ∈ s.1, ¬ x.2.tLast < tMin → x.2.requested = true ∨ x.2.eph ≠ 0) ∧
    ∃ x ∈ s.1, ¬ x.2.tLast < tMin ∧ isLKey x.1 = false

theorem hstepE_keysND (t : Int) (s : DAcc) (r : Req) (h : KeysND s.1) : KeysND (hstepE t s r).1 := by
  unfold hstepE
  split
  · split
    · exact keysND_sublist _ _ List.filter_sublist h
    · exact h
  · exact hstep_keysND t s r h

theorem hstepE_mem (t : Int) (s : DAcc) (r : Req) (x : String × Client) (hx : x ∈ (hstepE t s r).1) :
    x ∈ s.1 ∨ (x = (Pair.fidOf r, entryOf r t) ∧ ¬ r.mid ≤ OF.Facts.MSG_ID_SPECIAL) := by
  unfold hstepE at hx
  split at hx
  · split at hx
    · exact Or.inl ((mem_cdel _ _ _).mp hx).1
    · exact Or.inl hx
  · rename_i hsp
    rcases hstep_mem t s r x hx with h1 | h1
    · exact Or.inl h1.1
    · exact Or.inr ⟨h1, hsp⟩

theorem live_entry (r : Req) (t : Int) : ¬ (entryOf r t).tLast < t - OF.Facts.ZMQ_CONN_TIMEOUT := by
  have : OF.Facts.ZMQ_CONN_TIMEOUT = 5000 := rfl
  rw [entryOf_tLast, this]; omega

theorem clientOK_of (tMin : Int) (c : Client) (h : ¬ c.tLast < tMin → c.requested = true ∨ c.eph ≠ 0) : clientOK tMin c = true := by
  unfold clientOK
  by_cases hl : c.tLast < tMin
  · simp [hl]
  · rcases h hl with h1 | h1
    · simp [h1]
    · have : (c.eph != 0) = true := by simpa using h1
      simp [this]

theorem of_clientOK (tMin : Int) (c : Client) (h : clientOK tMin c = true) (hl : ¬ c.tLast < tMin) : c.requested = true ∨ c.eph ≠ 0 := by
  unfold clientOK at h
  simp only [hl, decide_false, Bool.false_or, Bool.or_eq_true, bne_iff_ne, ne_eq] at h
  exact h

/-- membership in the table after a request that got past the handshake test: the registered table, minus the silent entries -/
theorem hstep_normal_mem (t : Int) (s : DAcc) (r : Req) (hn : normalReq s.1 r = true) (hku : KeysND s.1) (x : String × Client) :
    x ∈ (hstep t s r).1 ↔ x ∈ regT s.1 r t ∧ ¬ x.2.tLast < t - OF.Facts.ZMQ_CONN_TIMEOUT := by
  rw [hstep_normal t s r hn]
  constructor
  · intro hx
    have ⟨h1, h2⟩ := evalClients_mem _ _ _ _ x hx
    exact ⟨h1, fun hl => h2 x h1 hl rfl⟩
  · intro ⟨h1, h2⟩
    exact evalClients_survives _ _ _ (keysND_cset _ _ _ hku) x h1 h2

/-- **a listener request, handled by the run with listeners only** -/
theorem rel_listener (t : Int) (s s0 : DAcc) (r : Req) (h : RelT (t - OF.Facts.ZMQ_CONN_TIMEOUT) s s0) (hl : IsListenerReq r) :
    RelT (t - OF.Facts.ZMQ_CONN_TIMEOUT) (hstepE t s r) s0 := by
  have hkey : isLKey (Pair.fidOf r) = true := listener_key r hl.2
  by_cases hsp : r.mid ≤ OF.Facts.MSG_ID_SPECIAL
  · by_cases hcl : r.mid = OF.Facts.MSG_ID_CLOSE
    · have e : hstepE t s r = (cdel s.1 (Pair.fidOf r), s.2.1, s.2.2) := by unfold hstepE; rw [if_pos hsp, if_pos hcl]
      rw [e]
      refine ⟨keysND_sublist _ _ List.filter_sublist h.ku, h.ku0, ?_, ?_, ?_⟩
      · intro x hx; exact h.le x ((mem_cdel _ _ _).mp hx).1
      · intro x hx; exact h.sub x ((mem_cdel _ _ _).mp hx).1
      · intro hd
        have ⟨d1, d2, y, hy, hy1, hy2⟩ := h.dec hd
        refine ⟨d1, fun x hx => d2 x ((mem_cdel _ _ _).mp hx).1, y, ?_, hy1, hy2⟩
        rw [mem_cdel]
        refine ⟨hy, ?_⟩
        intro e; rw [e, hkey] at hy2; cases hy2
    · have e : hstepE t s r = s := by unfold hstepE; rw [if_pos hsp, if_neg hcl]
      rw [e]; exact h
  · have e : hstepE t s r = hstep t s r := by unfold hstepE; simp only [hsp, ↓reduceIte]
    rw [e]
    cases hn : normalReq s.1 r with
    | false =>
      rw [hstep_newconn t s r hn]
      exact ⟨h.ku, h.ku0, h.le, h.sub, h.dec⟩
    | true =>
      have hmem := hstep_normal_mem t s r hn h.ku
      have hreg : ∀ x ∈ regT s.1 r t, x ∈ s.1 ∨ x = (Pair.fidOf r, entryOf r t) := fun x hx => Pair.mem_cset _ _ _ x hx
      refine ⟨hstep_keysND t s r h.ku, h.ku0, ?_, ?_, ?_⟩
      · intro x hx hk
        rcases hreg x ((hmem x).mp hx).1 with h1 | h1
        · exact h.le x h1 hk
        · rw [h1]; exact hl.1
      · intro x hx hk
        rcases hreg x ((hmem x).mp hx).1 with h1 | h1
        · exact h.sub x h1 hk
        · rw [h1] at hk; rw [hkey] at hk; cases hk
      · intro hd
        have ⟨d1, d2, y, hy, hy1, hy2⟩ := h.dec hd
        have hall : ∀ x ∈ regT s.1 r t, ¬ x.2.tLast < t - OF.Facts.ZMQ_CONN_TIMEOUT → x.2.requested = true ∨ x.2.eph ≠ 0 := by
          intro x hx hlx
          rcases hreg x hx with h1 | h1
          · exact d2 x h1 hlx
          · rw [h1]; exact Or.inl rfl
        refine ⟨?_, ?_, y, ?_, hy1, hy2⟩
        · rw [hstep_normal t s r hn]
          simp only
          rw [List.all_eq_true]
          intro x hx
          exact clientOK_of _ _ (hall x hx)
        · intro x hx hlx
          exact hall x ((hmem x).mp hx).1 hlx
        · rw [hmem]
          refine ⟨mem_cset_of_ne _ _ _ y hy ?_, hy1⟩
          intro e; rw [e, hkey] at hy2; cases hy2

/-- **a synchronised request, handled by both runs** -/
theorem rel_sync (t : Int) (s s0 : DAcc) (r : Req) (h : RelT (t - OF.Facts.ZMQ_CONN_TIMEOUT) s s0)
    (hkey : isLKey (Pair.fidOf r) = false) (hsp : ¬ r.mid ≤ OF.Facts.MSG_ID_SPECIAL)
    (hnew : r.new = true → ∀ x ∈ s0.1, x.1 ≠ Pair.fidOf r) :
    RelT (t - OF.Facts.ZMQ_CONN_TIMEOUT) (hstepE t s r) (hstepE t s0 r) := by
  have e : hstepE t s r = hstep t s r := by unfold hstepE; simp only [hsp, ↓reduceIte]
  have e0 : hstepE t s0 r = hstep t s0 r := by unfold hstepE; simp only [hsp, ↓reduceIte]
  rw [e, e0]
  cases hnw : r.new with
  | true =>
    -- a handshake request of an unregistered client, in both runs
    have h0 : normalReq s0.1 r = false := by
      unfold normalReq
      rw [hnw]
      simp only [Bool.not_true, Bool.or_false]
      rw [List.any_eq_false]
      intro x hx
      have := hnew hnw x hx
      simpa using this
    have h1 : normalReq s.1 r = false := by
      unfold normalReq
      rw [hnw]
      simp only [Bool.not_true, Bool.or_false]
      rw [List.any_eq_false]
      intro x hx
      have hk : ¬ x.1 = Pair.fidOf r := by
        intro ek
        have hx0 := h.sub x hx (by rw [ek]; exact hkey)
        exact hnew hnw x hx0 ek
      simpa using hk
    rw [hstep_newconn t s r h1, hstep_newconn t s0 r h0]
    exact ⟨h.ku, h.ku0, h.le, h.sub, h.dec⟩
  | false =>
    have h0 : normalReq s0.1 r = true := by unfold normalReq; rw [hnw]; simp
    have h1 : normalReq s.1 r = true := by unfold normalReq; rw [hnw]; simp
    have hmem := hstep_normal_mem t s r h1 h.ku
    have hmem0 := hstep_normal_mem t s0 r h0 h.ku0
    have hreg : ∀ x ∈ regT s.1 r t, (x ∈ s.1 ∧ x.1 ≠ Pair.fidOf r) ∨ x = (Pair.fidOf r, entryOf r t) := by
      intro x hx
      by_cases hk : x.1 = Pair.fidOf r
      · exact Or.inr (Pair.cset_key _ _ _ x hx hk)
      · rcases Pair.mem_cset _ _ _ x hx with h2 | h2
        · exact Or.inl ⟨h2, hk⟩
        · exact Or.inr h2
    have hself0 : (Pair.fidOf r, entryOf r t) ∈ regT s0.1 r t := mem_cset_self _ _ _
    refine ⟨hstep_keysND t s r h.ku, hstep_keysND t s0 r h.ku0, ?_, ?_, ?_⟩
    · intro x hx hk
      rcases hreg x ((hmem x).mp hx).1 with h2 | h2
      · exact h.le x h2.1 hk
      · rw [h2] at hk; rw [hkey] at hk; cases hk
    · intro x hx hk
      have ⟨hx1, hx2⟩ := (hmem x).mp hx
      rw [hmem0]
      refine ⟨?_, hx2⟩
      rcases hreg x hx1 with h2 | h2
      · exact mem_cset_of_ne _ _ _ x (h.sub x h2.1 hk) h2.2
      · rw [h2]; exact hself0
    · intro hd
      rw [hstep_normal t s0 r h0] at hd
      simp only at hd
      rw [List.all_eq_true] at hd
      have hall : ∀ x ∈ regT s.1 r t, ¬ x.2.tLast < t - OF.Facts.ZMQ_CONN_TIMEOUT → x.2.requested = true ∨ x.2.eph ≠ 0 := by
        intro x hx hlx
        rcases hreg x hx with h2 | h2
        · cases hk : isLKey x.1 with
          | true => exact Or.inr (h.le x h2.1 hk)
          | false =>
            have hx0 : x ∈ regT s0.1 r t := mem_cset_of_ne _ _ _ x (h.sub x h2.1 hk) h2.2
            exact of_clientOK _ _ (hd x hx0) hlx
        · rw [h2]; exact Or.inl rfl
      refine ⟨?_, ?_, (Pair.fidOf r, entryOf r t), ?_, live_entry r t, hkey⟩
      · rw [hstep_normal t s r h1]
        simp only
        rw [List.all_eq_true]
        intro x hx
        exact clientOK_of _ _ (hall x hx)
      · intro x hx hlx
        exact hall x ((hmem x).mp hx).1 hlx
      · rw [hmem]
        exact ⟨mem_cset_self _ _ _, live_entry r t⟩

/-- **handshake hypothesis**: a synchronised client whose handshake request (`new`) is queued is not registered (in the table `T`) and
has only handshake requests queued -/
def HS (T : Clients) (q : List Req) : Prop :=
  (∀ r ∈ q, keepReq r = true → r.new = true → ∀ x ∈ T, x.1 ≠ Pair.fidOf r) ∧
  (∀ r ∈ q, ∀ r' ∈ q, keepReq r = true → keepReq r' = true → r.new = true → Pair.fidOf r' = Pair.fidOf r → r'.new = true)

/-- every queued request is a listener request, or an ordinary request (not a special id) of a client with a node key -/
def QClass (q : List Req) : Prop :=
  ∀ r ∈ q, IsListenerReq r ∨ (keepReq r = true ∧ isLKey (Pair.fidOf r) = false ∧ ¬ r.mid ≤ OF.Facts.MSG_ID_SPECIAL)

theorem hs_tail_listener (T : Clients) (r : Req) (q : List Req) (h : HS T (r :: q)) : HS T q :=
  ⟨fun x hx => h.1 x (List.mem_cons_of_mem _ hx), fun x hx y hy => h.2 x (List.mem_cons_of_mem _ hx) y (List.mem_cons_of_mem _ hy)⟩

theorem hs_tail_sync (t : Int) (s0 : DAcc) (r : Req) (q : List Req) (h : HS s0.1 (r :: q)) (hk : keepReq r = true)
    (hsp : ¬ r.mid ≤ OF.Facts.MSG_ID_SPECIAL) : HS (hstepE t s0 r).1 q := by
  have e0 : hstepE t s0 r = hstep t s0 r := by unfold hstepE; simp only [hsp, ↓reduceIte]
  rw [e0]
  refine ⟨?_, fun x hx y hy => h.2 x (List.mem_cons_of_mem _ hx) y (List.mem_cons_of_mem _ hy)⟩
  intro x hx hkx hnx y hy
  have hbase := h.1 x (List.mem_cons_of_mem _ hx) hkx hnx
  rcases hstep_mem t s0 r y hy with h1 | h1
  · exact hbase y h1.1
  · -- `y` was registered by `r`: then `r` got past the handshake test
    intro ek
    have hfid : Pair.fidOf r = Pair.fidOf x := by rw [h1] at ek; exact ek
    have hrn : r.new = true := h.2 x (List.mem_cons_of_mem _ hx) r (List.mem_cons_self ..) hkx hk hnx hfid
    have hnot := h.1 r (List.mem_cons_self ..) hk hrn
    have hn : normalReq s0.1 r = false := by
      unfold normalReq
      rw [hrn]
      simp only [Bool.not_true, Bool.or_false]
      rw [List.any_eq_false]
      intro z hz
      have := hnot z hz
      simpa using this
    rw [hstep_newconn t s0 r hn] at hy
    exact hbase y hy ek

/-- **the two drains in lock-step** -/
theorem fold_rel (t : Int) : ∀ (q : List Req) (s s0 : DAcc), RelT (t - OF.Facts.ZMQ_CONN_TIMEOUT) s s0 → QClass q → HS s0.1 q →
    RelT (t - OF.Facts.ZMQ_CONN_TIMEOUT) (q.foldl (hstepE t) s) ((q.filter keepReq).foldl (hstepE t) s0) := by
  intro q
  induction q with
  | nil => intro s s0 h _ _; exact h
  | cons r q' ih =>
    intro s s0 h hc hs
    have hc' : QClass q' := fun x hx => hc x (List.mem_cons_of_mem _ hx)
    rcases hc r (List.mem_cons_self ..) with hl | ⟨hk, hkey, hsp⟩
    · have hkf : keepReq r = false := by
        unfold keepReq; rw [(isListenerReq_iff r).mpr hl]; rfl
      rw [List.foldl_cons, List.filter_cons]
      simp only [hkf, Bool.false_eq_true, ↓reduceIte]
      exact ih _ _ (rel_listener t s s0 r h hl) hc' (hs_tail_listener _ r q' hs)
    · rw [List.foldl_cons, List.filter_cons]
      simp only [hk, ↓reduceIte, List.foldl_cons]
      refine ih _ _ (rel_sync t s s0 r h hkey hsp ?_) hc' (hs_tail_sync t s0 r q' hs hk hsp)
      intro hn
      exact hs.1 r (List.mem_cons_self ..) hk hn

end OF.Net.Eph
