import OFProps.SendBalLemmas
/-!
# State invariants of the sender automaton that hold for balanced and non-balanced senders alike

* `onReq_cases`: the four outcomes of one request taken by `poll_recv`, with the client table and the tuple dictionary afterwards;
* `BalReady`: inside a call of a balanced sender, a tuple that says `out_do_send` means that every tracked synchronised client on
  that output has an unanswered request (the link between `evalClients`' tuples and the client table, kept up to `send_maybe`);
* `BalSome`: … and a tuple with `out_nrequested ≠ 0` means that some tracked client on that output has one (kept by every event
  except a CLOSE taken between the decision and `send_maybe`);
* `PInv` = distinct keys + `Requested` (non-balanced) + `BalReady` (balanced), kept by every event (`step_pinv`).
Used by `OFProps/C04OnePublish.lean`.
-/
namespace OF.Send

/-- the client table right after `clients[full_id] = Client(…, requested=True, …)` -/
def regd (st : St) (j : Nat) (r : Req) (t : Int) : Clients :=
  cset st.clients (r.cid ++ r.uid) { cid := r.cid, out := j, tLast := t, requested := true, eph := r.eph, prevId := r.mid }

/-- the `for … in list(clients.items())` loop as `onReq` runs it -/
def evald (st : St) (j : Nat) (r : Req) (t : Int) : Clients × Bool × List (Nat × OutTuple) :=
  evalClients st.balance (t - OF.Facts.ZMQ_CONN_TIMEOUT) (regd st j r t)
    (regd st j r t, st.required.all (fun x => ((regd st j r t).map (·.2.cid)).contains x), [])

/-- the four outcomes of `onReq` -/
theorem onReq_cases (st : St) (j : Nat) (r : Req) (t : Int) :
    ((onReq st j r t).2.2 = .special ∧ r.mid ≤ OF.Facts.MSG_ID_SPECIAL ∧ (onReq st j r t).1.outputs = st.outputs ∧
      (onReq st j r t).1.doSend = st.doSend ∧
      (((onReq st j r t).1.clients = st.clients) ∨
       (r.mid = OF.Facts.MSG_ID_CLOSE ∧ (onReq st j r t).1.clients = cdel st.clients (r.cid ++ r.uid)))) ∨
    ((onReq st j r t).2.2 = .newconn ∧ (onReq st j r t).1.outputs = st.outputs ∧ (onReq st j r t).1.doSend = st.doSend ∧
      (onReq st j r t).1.clients = st.clients) ∨
    ((onReq st j r t).2.2 = .ffwd ∧ ¬ r.mid ≤ OF.Facts.MSG_ID_SPECIAL ∧ (onReq st j r t).1.clients = regd st j r t) ∨
    ((onReq st j r t).2.2 = .normal ∧ ¬ r.mid ≤ OF.Facts.MSG_ID_SPECIAL ∧ (onReq st j r t).1.clients = (evald st j r t).1 ∧
      (onReq st j r t).1.outputs = (evald st j r t).2.2) := by
  unfold onReq evald regd
  simp only
  split
  · rename_i hs
    split
    · exact Or.inl ⟨rfl, hs, rfl, rfl, Or.inl rfl⟩
    · split
      · rename_i hc
        exact Or.inl ⟨rfl, hs, rfl, rfl, Or.inr ⟨hc, rfl⟩⟩
      · exact Or.inl ⟨rfl, hs, rfl, rfl, Or.inl rfl⟩
  · rename_i hs
    split
    · exact Or.inr (Or.inl ⟨rfl, rfl, rfl, rfl⟩)
    · split
      · exact Or.inr (Or.inr (Or.inl ⟨rfl, hs, rfl⟩))
      · exact Or.inr (Or.inr (Or.inr ⟨rfl, hs, rfl, rfl⟩))

/-! ### fields that no event but `begin` touches -/

theorem step_balance (st : St) (e : Ev) : (step st e).1.balance = st.balance := by
  cases e with
  | deliver j r => unfold step stepDeliver; simp only; split <;> rfl
  | «begin» s p b =>
    unfold step stepBegin; simp only
    split
    · rfl
    · split
      · rfl
      · split <;> rfl
  | handle j t =>
    unfold step stepHandle; simp only
    split
    · rfl
    · split
      · rfl
      · rfl
      · split
        · simp only [endCall]; exact (onReq_fields _ j _ t).2.2
        · exact (onReq_fields _ j _ t).2.2
  | trySend =>
    unfold step stepTrySend; simp only
    split
    · rfl
    · split
      · simp only [endCall]; exact (sendMaybe_spec st).2.2.1
      · exact (sendMaybe_spec st).2.2.1
  | timeout => unfold step stepTimeout; simp only; split <;> rfl

/-- the events of the theorems below: no call in `push` mode -/
def noPush : Ev → Prop
  | .begin _ _ push => push = false
  | _ => True

theorem step_push_np (st : St) (e : Ev) (hq : noPush e) (hp : st.push = false) : (step st e).1.push = false := by
  cases e with
  | deliver j r => unfold step stepDeliver; simp only; split <;> exact hp
  | «begin» s p b =>
    have hb : b = false := hq
    unfold step stepBegin; simp only
    split
    · exact hp
    · split
      · simp [beginWith, hb]
      · split
        · exact hp
        · simp [beginWith, hb]
  | handle j t =>
    unfold step stepHandle; simp only
    split
    · exact hp
    · split
      · exact hp
      · exact hp
      · split
        · simp only [endCall]; rw [onReq_push]; exact hp
        · rw [onReq_push]; exact hp
  | trySend =>
    unfold step stepTrySend; simp only
    split
    · exact hp
    · split
      · simp only [endCall]; rw [sendMaybe_push]; exact hp
      · rw [sendMaybe_push]; exact hp
  | timeout => unfold step stepTimeout; simp only; split <;> exact hp

/-! ### the client table after `send_maybe` -/

/-- `client.requested = False` for the clients of the outputs published on -/
def cleared (st : St) : Clients :=
  st.clients.map fun p => if !st.balance || (pubTargets st).contains p.2.out then (p.1, { p.2 with requested := false }) else p

theorem sendMaybe_clients (st : St) :
    ((gate st).1 ≠ none ∧ (sendMaybe st).1.clients = st.clients ∧ (sendMaybe st).1.outputs = st.outputs ∧
      (sendMaybe st).1.doSend = st.doSend) ∨
    ((gate st).1 = none ∧ (sendMaybe st).2.2 = true ∧ (sendMaybe st).1.clients = cleared st) := by
  unfold sendMaybe
  simp only
  split
  · rename_i r hg
    exact Or.inl ⟨by rw [hg]; simp, rfl, rfl, rfl⟩
  · rename_i hg
    exact Or.inr ⟨hg, rfl, rfl⟩

theorem cleared_fst (st : St) : (cleared st).map (·.1) = st.clients.map (·.1) := by
  unfold cleared
  rw [List.map_map]
  apply List.map_congr_left
  intro p _
  simp only [Function.comp]
  split <;> rfl

/-! ### distinct keys -/

theorem onReq_ckeys (st : St) (j : Nat) (r : Req) (t : Int) (h : CKeys st.clients) : CKeys (onReq st j r t).1.clients := by
  rcases onReq_cases st j r t with ⟨_, _, _, _, hc | ⟨_, hc⟩⟩ | ⟨_, _, _, hc⟩ | ⟨_, _, hc⟩ | ⟨_, _, hc, _⟩
  · rw [hc]; exact h
  · rw [hc]; exact ckeys_cdel _ _ h
  · rw [hc]; exact h
  · rw [hc]; exact ckeys_cset _ _ _ h
  · rw [hc]
    exact ckeys_sublist _ _ (evalClients_sublist_any _ _ _ _ _ _) (ckeys_cset _ _ _ h)

theorem step_ckeys (st : St) (e : Ev) (h : CKeys st.clients) : CKeys (step st e).1.clients := by
  cases e with
  | deliver j r => unfold step stepDeliver; simp only; split <;> exact h
  | «begin» s p b =>
    unfold step stepBegin; simp only
    split
    · exact h
    · split
      · exact h
      · split <;> exact h
  | handle j t =>
    unfold step stepHandle; simp only
    split
    · exact h
    · split
      · exact h
      · exact h
      · rename_i r q _
        split
        · exact onReq_ckeys { st with queues := st.queues.set j q } j r t h
        · exact onReq_ckeys { st with queues := st.queues.set j q } j r t h
  | trySend =>
    unfold step stepTrySend; simp only
    have key : CKeys (sendMaybe st).1.clients := by
      rcases sendMaybe_clients st with ⟨_, hc, _⟩ | ⟨_, _, hc⟩
      · rw [hc]; exact h
      · rw [hc]; unfold CKeys; rw [cleared_fst]; exact h
    split
    · exact h
    · split
      · exact key
      · exact key
  | timeout => unfold step stepTimeout; simp only; split <;> exact h

/-! ### the tuples and the client table -/

/-- inside a call of a balanced sender: `out_do_send` of an output ⇒ all its tracked synchronised clients have asked -/
def BalReady (st : St) : Prop :=
  st.inCall = true → st.balance = true → ∀ t ∈ st.outputs, t.2.1 = true →
    ∀ p ∈ st.clients, p.2.eph = 0 → p.2.out = t.1 → p.2.requested = true

/-- inside a call of a balanced sender: `out_nrequested ≠ 0` of an output ⇒ one of its tracked clients has asked -/
def BalSome (st : St) : Prop :=
  st.inCall = true → st.balance = true → ∀ t ∈ st.outputs, t.2.2.1 ≠ 0 →
    ∃ p ∈ st.clients, p.2.out = t.1 ∧ p.2.requested = true

/-- survivors of the loop have not timed out -/
theorem evald_live (st : St) (j : Nat) (r : Req) (t : Int) (p : String × Client) (hp : p ∈ (evald st j r t).1) :
    p ∈ regd st j r t ∧ ¬ p.2.tLast < t - OF.Facts.ZMQ_CONN_TIMEOUT := by
  unfold evald at hp
  have ⟨h1, h2⟩ := evalClients_mem_any _ _ _ _ _ _ p hp
  exact ⟨h1, fun hlt => h2 p h1 hlt rfl⟩

/-- **the missing link**: after the decision of a balanced sender, `out_do_send` of output `o` holds exactly when every tracked
client on `o` has asked or is ephemeral -/
theorem evald_do_send_iff (st : St) (j : Nat) (r : Req) (t : Int) (hb : st.balance = true) (hk : CKeys st.clients)
    (tup : Nat × OutTuple) (ht : tup ∈ (evald st j r t).2.2) :
    tup.2.1 = true ↔ ∀ p ∈ (evald st j r t).1, p.2.out = tup.1 → asked p.2 = true := by
  have hnd : ((evald st j r t).2.2.map (·.1)).Nodup := by
    unfold evald; rw [hb]; exact evalClients_bal_nodup _ _ _ _ _ List.nodup_nil
  have hl := look_of_mem _ hnd tup ht
  constructor
  · intro hf p hp ho
    have ⟨hm, hlive⟩ := evald_live st j r t p hp
    unfold evald at hl
    rw [hb] at hl
    exact (evalClients_bal_ok _ _ _ _ _ _ _ hl hf).2 p hm hlive ho
  · intro hall
    unfold evald at hl
    rw [hb] at hl
    apply evalClients_bal_conv _ _ _ _ _ _ _ hl
    · intro t0 h0; cases h0
    · intro p hp hlive ho
      apply hall p _ ho
      unfold evald
      apply evalClients_keep_any _ _ _ _ _ _ p hp
      intro q hq hqt he
      have := ckeys_unique _ (ckeys_cset _ _ _ hk) q p hq hp he
      rw [this] at hqt
      exact hlive hqt

theorem onReq_balReady (st : St) (j : Nat) (r : Req) (t : Int) (h : BalReady st) (hne : (onReq st j r t).2.2 ≠ .ffwd) :
    BalReady (onReq st j r t).1 := by
  have hf := onReq_fields st j r t
  intro hin hbal tup ht hflag p hp he ho
  rw [hf.1] at hin
  rw [hf.2.2] at hbal
  rcases onReq_cases st j r t with ⟨_, _, ho', _, hc | ⟨_, hc⟩⟩ | ⟨_, ho', _, hc⟩ | ⟨hk, _⟩ | ⟨_, _, hc, ho'⟩
  · rw [ho'] at ht; rw [hc] at hp
    exact h hin hbal tup ht hflag p hp he ho
  · rw [ho'] at ht; rw [hc] at hp
    unfold cdel at hp
    exact h hin hbal tup ht hflag p (List.mem_filter.mp hp).1 he ho
  · rw [ho'] at ht; rw [hc] at hp
    exact h hin hbal tup ht hflag p hp he ho
  · exact absurd hk hne
  · rw [ho'] at ht; rw [hc] at hp
    have hnd : ((evald st j r t).2.2.map (·.1)).Nodup := by
      unfold evald; rw [hbal]; exact evalClients_bal_nodup _ _ _ _ _ List.nodup_nil
    have hl := look_of_mem _ hnd tup ht
    have ⟨hm, hlive⟩ := evald_live st j r t p hp
    unfold evald at hl
    rw [hbal] at hl
    have := (evalClients_bal_ok _ _ _ _ _ _ _ hl hflag).2 p hm hlive ho
    unfold asked at this
    simp only [Bool.or_eq_true, bne_iff_ne, ne_eq] at this
    rcases this with h1 | h1
    · exact h1
    · exact absurd he h1

theorem step_balReady (st : St) (e : Ev) (h : BalReady st) : BalReady (step st e).1 := by
  cases e with
  | deliver j r =>
    unfold step stepDeliver; simp only
    split
    · exact h
    · exact h
  | «begin» s p b =>
    unfold step stepBegin; simp only
    split
    · exact h
    · split
      · intro _ _ tup ht; simp [beginWith] at ht
      · split
        · exact h
        · intro _ _ tup ht; simp [beginWith] at ht
  | handle j t =>
    unfold step stepHandle; simp only
    split
    · exact h
    · split
      · exact h
      · exact h
      · rename_i r q _
        split
        · intro hin; simp [endCall] at hin
        · rename_i hne
          exact onReq_balReady { st with queues := st.queues.set j q } j r t h hne
  | trySend =>
    unfold step stepTrySend; simp only
    split
    · exact h
    · split
      · intro hin; simp [endCall] at hin
      · rename_i hns
        rcases sendMaybe_clients st with ⟨_, hc, ho, _⟩ | ⟨_, hs, _⟩
        · have hf := sendMaybe_spec st
          intro hin hbal tup ht hflag p hp
          rw [hc] at hp; rw [ho] at ht; rw [hf.1] at hin; rw [hf.2.2.1] at hbal
          exact h hin hbal tup ht hflag p hp
        · exact absurd hs hns
  | timeout =>
    unfold step stepTimeout; simp only
    split
    · exact h
    · intro hin; simp at hin

/-- distinct keys + the readiness invariants of both kinds of sender -/
structure PInv (st : St) : Prop where
  keys : CKeys st.clients
  unbal : st.balance = false → Requested st
  bal : BalReady st

theorem step_pinv (st : St) (e : Ev) (h : PInv st) : PInv (step st e).1 where
  keys := step_ckeys st e h.keys
  unbal := by
    intro hb
    rw [step_balance] at hb
    exact (C04_requested_inv st e hb (h.unbal hb)).1
  bal := step_balReady st e h.bal

theorem pinv_mkSt (nOut : Nat) (balance : Bool) (required : List String) : PInv (mkSt nOut balance required) where
  keys := List.nodup_nil
  unbal := by intro _ hin; simp [mkSt] at hin
  bal := by intro hin; simp [mkSt] at hin

theorem run_fst_acc (evs : List Ev) : ∀ (st : St) (o : List Out),
    (evs.foldl (fun (acc : St × List Out) e => let (s, o) := step acc.1 e; (s, acc.2 ++ o)) (st, o)).1 =
    (evs.foldl (fun (acc : St × List Out) e => let (s, o) := step acc.1 e; (s, acc.2 ++ o)) (st, [])).1 := by
  induction evs with
  | nil => intro st o; rfl
  | cons e es ih =>
    intro st o
    simp only [List.foldl_cons]
    rw [ih (step st e).1 (o ++ (step st e).2), ih (step st e).1 ([] ++ (step st e).2)]

theorem run_cons_fst (st : St) (e : Ev) (es : List Ev) : (run st (e :: es)).1 = (run (step st e).1 es).1 := by
  unfold run
  simp only [List.foldl_cons]
  exact run_fst_acc es _ _

theorem run_pinv (evs : List Ev) : ∀ (st : St), PInv st → PInv (run st evs).1 := by
  induction evs with
  | nil => intro st h; exact h
  | cons e es ih =>
    intro st h
    rw [run_cons_fst]
    exact ih _ (step_pinv st e h)

/-! ### `BalSome` -/

/-- right after the decision of a balanced sender, every output whose tuple has `out_nrequested ≠ 0` has a tracked client with an
unanswered request -/
theorem onReq_normal_balSome (st : St) (j : Nat) (r : Req) (t : Int) (hk : CKeys st.clients)
    (hn : (onReq st j r t).2.2 = .normal) : BalSome (onReq st j r t).1 := by
  have hf := onReq_fields st j r t
  intro _ hbal tup ht hnr
  rw [hf.2.2] at hbal
  rcases onReq_cases st j r t with ⟨hk', _⟩ | ⟨hk', _⟩ | ⟨hk', _⟩ | ⟨_, _, hc, ho⟩
  · rw [hk'] at hn; cases hn
  · rw [hk'] at hn; cases hn
  · rw [hk'] at hn; cases hn
  · rw [ho] at ht; rw [hc]
    have hnd : ((evald st j r t).2.2.map (·.1)).Nodup := by
      unfold evald; rw [hbal]; exact evalClients_bal_nodup _ _ _ _ _ List.nodup_nil
    have hl := look_of_mem _ hnd tup ht
    unfold evald at hl ⊢
    rw [hbal] at hl ⊢
    rcases evalClients_bal_nreq _ _ _ _ _ _ _ hl hnr with ⟨t0, h0, _⟩ | ⟨p, hp, hlive, hout, hreq⟩
    · cases h0
    · refine ⟨p, ?_, hout, hreq⟩
      apply evalClients_keep_any _ _ _ _ _ _ p hp
      intro q hq hqt he
      have := ckeys_unique _ (ckeys_cset _ _ _ hk) q p hq hp he
      rw [this] at hqt
      exact hlive hqt

theorem onReq_balSome (st : St) (j : Nat) (r : Req) (t : Int) (hk : CKeys st.clients) (h : BalSome st)
    (hne : (onReq st j r t).2.2 ≠ .ffwd) (hnc : r.mid ≠ OF.Facts.MSG_ID_CLOSE) : BalSome (onReq st j r t).1 := by
  have hf := onReq_fields st j r t
  rcases onReq_cases st j r t with ⟨_, _, ho', _, hc | ⟨hcl, _⟩⟩ | ⟨_, ho', _, hc⟩ | ⟨hk', _⟩ | ⟨hk', _⟩
  · intro hin hbal tup ht hnr
    rw [hf.1] at hin; rw [hf.2.2] at hbal; rw [ho'] at ht; rw [hc]
    exact h hin hbal tup ht hnr
  · exact absurd hcl hnc
  · intro hin hbal tup ht hnr
    rw [hf.1] at hin; rw [hf.2.2] at hbal; rw [ho'] at ht; rw [hc]
    exact h hin hbal tup ht hnr
  · exact absurd hk' hne
  · exact onReq_normal_balSome st j r t hk hk'

end OF.Send
