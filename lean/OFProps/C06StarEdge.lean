import OFProps.C06NetEdge
import OFProps.C04NetTee
set_option linter.unusedSimpArgs false
/-!
# A publisher with SEVERAL consumers, liveness side (helper lemmas for `OFProps/C06Star.lean`)

`send(callable, None, 0)` of a publisher with one bound output and ANY number of clients, all queued requests ordinary requests for
ids below the id of the call (no fast-forward, nothing special): the drain is a fold of `hstep` over the queue
(`drain_fold`) - a request of an unknown client that says `new` only raises `do_hello`; every other request registers its client
(`requested`, `t_last = t`), evicts everybody silent for longer than the connection time-out and re-evaluates `do_send` =
"everybody in the table who is not evicted now has asked" (`C05_decision_formula`).  From the fold:
* `fold_prov`     - where an entry of the final table comes from: untouched (no request of its key was handled), or registered now;
* `fold_newconn`  - only handshake requests: table and decision untouched, `do_hello` raised;
* `fold_decide`   - **when the frame set IS published**: some request gets past the handshake test, and every client whose flag is
                    down has a request queued or is silent beyond the time-out;
* `send0_fold`    - the whole call in terms of the fold (publish / time-out with or without HELLO).
-/
namespace OF.Net
open OF OF.Send
open OF.Pair (PubIdle PubBusy popped entryOf needsHello)

/-- what the drain computes: client table, `do_send`, `do_hello` -/
abbrev DAcc := Clients × Bool × Bool

/-- the request gets past the handshake test: its client is tracked, or it does not say `new` -/
def normalReq (cl : Clients) (r : Req) : Bool := cl.any (·.1 == Pair.fidOf r) || !r.new

/-- the table after the registration of the client of `r` -/
def regT (cl : Clients) (r : Req) (t : Int) : Clients := cset cl (Pair.fidOf r) (entryOf r t)

/-- one queued request handled by `poll_recv` -/
def hstep (t : Int) (s : DAcc) (r : Req) : DAcc :=
  if normalReq s.1 r then
    ((evalClients false (t - OF.Facts.ZMQ_CONN_TIMEOUT) (regT s.1 r t) (regT s.1 r t, true, [])).1,
     (regT s.1 r t).all (fun p => clientOK (t - OF.Facts.ZMQ_CONN_TIMEOUT) p.2), s.2.2)
  else (s.1, s.2.1, true)

theorem needsHello_normalReq (st : Send.St) (r : Req) : needsHello st r = !normalReq st.clients r := by
  unfold needsHello normalReq
  cases st.clients.any (·.1 == Pair.fidOf r) <;> cases r.new <;> rfl

/-- **the drain is the fold** -/
theorem drain_fold : ∀ (q : List Req) (stb : Send.St) (t : Int), PubBusy stb q → (∀ r ∈ q, ReqLow stb.msgId r) →
    PubBusy (drain (q.length + 1) stb [0] t).1 [] ∧ (drain (q.length + 1) stb [0] t).1.payload = stb.payload ∧
    (drain (q.length + 1) stb [0] t).1.msgId = stb.msgId ∧ (drain (q.length + 1) stb [0] t).1.minSendId = stb.minSendId ∧
    (drain (q.length + 1) stb [0] t).1.balanced = stb.balanced ∧ (drain (q.length + 1) stb [0] t).2 = [] ∧
    ((drain (q.length + 1) stb [0] t).1.clients, (drain (q.length + 1) stb [0] t).1.doSend, (drain (q.length + 1) stb [0] t).1.doHello) =
      q.foldl (hstep t) (stb.clients, stb.doSend, stb.doHello) := by
  intro q
  induction q with
  | nil =>
    intro stb t hb _
    simp only [List.length_nil, Nat.zero_add]
    rw [Pair.drain_nil 0 stb t hb]
    exact ⟨hb, rfl, rfl, rfl, rfl, rfl, rfl⟩
  | cons r q' ih =>
    intro stb t hb hq
    have hlow := hq r (List.mem_cons_self ..)
    have hp := Pair.popped_busy stb r q' hb
    have hdr : ¬ r.mid ≤ OF.Facts.MSG_ID_SPECIAL := by
      have : OF.Facts.MSG_ID_SPECIAL = -2 := rfl
      have := hlow.1; omega
    have hlk := onReq_lock (popped stb q') q' r t hp hlow
    rw [List.length_cons, Pair.drain_cons (q'.length + 1) stb r q' t hb, Pair.stepHandle_cons stb r q' t hb]
    simp only [hlk.2.2.2.2.2.2, ↓reduceIte, hlk.2.2.2.2.2.1, List.nil_append]
    have hq1 : ∀ x ∈ q', ReqLow (onReq (popped stb q') 0 r t).1.msgId x := by
      intro x hx; rw [hlk.2.2.1]; exact hq x (List.mem_cons_of_mem _ hx)
    have := ih _ t hlk.1 hq1
    refine ⟨this.1, by rw [this.2.1, hlk.2.1]; rfl, by rw [this.2.2.1, hlk.2.2.1]; rfl, by rw [this.2.2.2.1, hlk.2.2.2.1]; rfl,
      by rw [this.2.2.2.2.1, hlk.2.2.2.2.1]; rfl, this.2.2.2.2.2.1, ?_⟩
    rw [this.2.2.2.2.2.2, List.foldl_cons]
    congr 1
    have hcl : (popped stb q').clients = stb.clients := rfl
    by_cases hne : needsHello (popped stb q') r = true
    · rw [Pair.onReq_newconn (popped stb q') r t hdr hne]
      have hn : normalReq stb.clients r = false := by
        have := needsHello_normalReq (popped stb q') r
        rw [hne, hcl] at this
        cases hx : normalReq stb.clients r with
        | false => rfl
        | true => rw [hx] at this; cases this
      simp only [hstep, hn, Bool.false_eq_true, ↓reduceIte, popped]
    · have hne' : needsHello (popped stb q') r = false := by simpa using hne
      have hlt : r.mid < (popped stb q').msgId := hlow.2
      rw [Pair.onReq_normal (popped stb q') r t hdr hne' hlt hp.balance hp.required]
      have hn : normalReq stb.clients r = true := by
        have := needsHello_normalReq (popped stb q') r
        rw [hne', hcl] at this
        cases hx : normalReq stb.clients r with
        | true => rfl
        | false => rw [hx] at this; cases this
      simp only [hstep, hn, ↓reduceIte, popped, regT]
      rw [(C05_decision_formula _ _ _ true).1]
      simp only [Bool.true_and]

/-! ### the client table: keys stay distinct -/

/-- the keys of the client table are pairwise different -/
def KeysND (cl : Clients) : Prop := (cl.map (·.1)).Nodup

theorem cset_keys (d : Clients) (k : String) (v : Client) :
    (cset d k v).map (·.1) = if d.any (·.1 == k) then d.map (·.1) else d.map (·.1) ++ [k] := by
  unfold cset
  split
  · rw [List.map_map]
    apply List.map_congr_left
    intro p _
    simp only [Function.comp]
    split
    · rename_i h; exact (beq_iff_eq.mp h).symm
    · rfl
  · simp

theorem keysND_cset (d : Clients) (k : String) (v : Client) (h : KeysND d) : KeysND (cset d k v) := by
  unfold KeysND
  rw [cset_keys]
  split
  · exact h
  · rename_i hn
    rw [List.nodup_append]
    refine ⟨h, by simp, ?_⟩
    intro a ha b hb
    simp only [List.mem_singleton] at hb
    subst hb
    intro e; subst e
    apply hn
    rw [List.mem_map] at ha
    rcases ha with ⟨x, hx, hk⟩
    rw [List.any_eq_true]
    exact ⟨x, hx, by simp [hk]⟩

theorem evalClients_sublist (tMin : Int) : ∀ (cl acc : Clients) (ds : Bool),
    (evalClients false tMin cl (acc, ds, [])).1.Sublist acc := by
  intro cl
  induction cl with
  | nil => intro acc ds; unfold evalClients; exact List.Sublist.refl _
  | cons x xs ih =>
    intro acc ds
    rcases x with ⟨fid, c⟩
    unfold evalClients
    by_cases h1 : c.tLast < tMin
    · simp only [h1, ↓reduceIte]
      exact (ih (cdel acc fid) ds).trans (List.filter_sublist)
    · simp only [h1, ↓reduceIte, Bool.false_eq_true]
      split
      · exact ih acc false
      · exact ih acc ds

theorem keysND_sublist (a b : Clients) (h : a.Sublist b) (hb : KeysND b) : KeysND a :=
  List.Nodup.sublist (h.map _) hb

/-- in a table with distinct keys, the entry under a key is unique -/
theorem keysND_unique (cl : Clients) (h : KeysND cl) (x y : String × Client) (hx : x ∈ cl) (hy : y ∈ cl) (hk : x.1 = y.1) : x = y := by
  induction cl with
  | nil => cases hx
  | cons z zs ih =>
    have hnd : z.1 ∉ zs.map (·.1) ∧ KeysND zs := by
      unfold KeysND at h ⊢
      simpa using h
    rcases List.mem_cons.mp hx with rfl | hx'
    · rcases List.mem_cons.mp hy with rfl | hy'
      · rfl
      · exfalso; apply hnd.1; rw [hk]; exact List.mem_map_of_mem hy'
    · rcases List.mem_cons.mp hy with rfl | hy'
      · exfalso; apply hnd.1; rw [← hk]; exact List.mem_map_of_mem hx'
      · exact ih hnd.2 hx' hy'

/-- with distinct keys the eviction loop keeps exactly the entries that are not silent beyond the time-out -/
theorem evalClients_survives (tMin : Int) (cl : Clients) (ds : Bool) (h : KeysND cl) (x : String × Client) (hx : x ∈ cl)
    (hl : ¬ x.2.tLast < tMin) : x ∈ (evalClients false tMin cl (cl, ds, [])).1 := by
  apply Pair.evalClients_keep tMin cl cl ds x hx
  intro y hy hlt heq
  have := keysND_unique cl h y x hy hx heq
  rw [this] at hlt
  exact hl hlt

/-! ### the fold -/

theorem hstep_newconn (t : Int) (s : DAcc) (r : Req) (h : normalReq s.1 r = false) : hstep t s r = (s.1, s.2.1, true) := by
  simp only [hstep, h, Bool.false_eq_true, ↓reduceIte]

theorem hstep_normal (t : Int) (s : DAcc) (r : Req) (h : normalReq s.1 r = true) :
    hstep t s r = ((evalClients false (t - OF.Facts.ZMQ_CONN_TIMEOUT) (regT s.1 r t) (regT s.1 r t, true, [])).1,
      (regT s.1 r t).all (fun p => clientOK (t - OF.Facts.ZMQ_CONN_TIMEOUT) p.2), s.2.2) := by
  simp only [hstep, h, ↓reduceIte]

theorem normalReq_false_key (cl : Clients) (r : Req) (h : normalReq cl r = false) : ∀ x ∈ cl, x.1 ≠ Pair.fidOf r := by
  intro x hx he
  unfold normalReq at h
  have : cl.any (·.1 == Pair.fidOf r) = true := by
    rw [List.any_eq_true]; exact ⟨x, hx, by simp [he]⟩
  rw [this] at h; cases h

/-- entries of the table after one handled request -/
theorem hstep_mem (t : Int) (s : DAcc) (r : Req) (x : String × Client) (hx : x ∈ (hstep t s r).1) :
    (x ∈ s.1 ∧ x.1 ≠ Pair.fidOf r) ∨ x = (Pair.fidOf r, entryOf r t) := by
  cases hn : normalReq s.1 r with
  | false =>
    rw [hstep_newconn t s r hn] at hx
    exact Or.inl ⟨hx, normalReq_false_key s.1 r hn x hx⟩
  | true =>
    rw [hstep_normal t s r hn] at hx
    have hm := (evalClients_mem _ _ _ _ x hx).1
    by_cases hk : x.1 = Pair.fidOf r
    · exact Or.inr (Pair.cset_key _ _ _ x hm hk)
    · rcases Pair.mem_cset _ _ _ x hm with h1 | h1
      · exact Or.inl ⟨h1, hk⟩
      · exact Or.inr h1

theorem hstep_keysND (t : Int) (s : DAcc) (r : Req) (h : KeysND s.1) : KeysND (hstep t s r).1 := by
  cases hn : normalReq s.1 r with
  | false => rw [hstep_newconn t s r hn]; exact h
  | true =>
    rw [hstep_normal t s r hn]
    exact keysND_sublist _ _ (evalClients_sublist _ _ _ _) (keysND_cset _ _ _ h)

theorem fold_keysND (t : Int) : ∀ (q : List Req) (s : DAcc), KeysND s.1 → KeysND (q.foldl (hstep t) s).1 := by
  intro q
  induction q with
  | nil => intro s h; exact h
  | cons r q' ih => intro s h; exact ih _ (hstep_keysND t s r h)

/-- **where an entry of the final table comes from**: it was there before and no request of its key was handled, or it was
registered by a request of its key in this call (`requested`, `t_last = t`) -/
theorem fold_prov (t : Int) : ∀ (q : List Req) (s : DAcc) (x : String × Client), x ∈ (q.foldl (hstep t) s).1 →
    (x ∈ s.1 ∧ ∀ r ∈ q, Pair.fidOf r ≠ x.1) ∨ (∃ r ∈ q, Pair.fidOf r = x.1 ∧ x.2 = entryOf r t) := by
  intro q
  induction q with
  | nil => intro s x hx; exact Or.inl ⟨hx, by intro r hr; cases hr⟩
  | cons r q' ih =>
    intro s x hx
    rw [List.foldl_cons] at hx
    rcases ih _ x hx with ⟨h1, h2⟩ | ⟨r', hr', h1, h2⟩
    · rcases hstep_mem t s r x h1 with ⟨h3, h4⟩ | h3
      · left
        refine ⟨h3, ?_⟩
        intro r' hr'
        rcases List.mem_cons.mp hr' with rfl | hr'
        · exact fun e => h4 e.symm
        · exact h2 r' hr'
      · right
        exact ⟨r, List.mem_cons_self .., by rw [h3], by rw [h3]⟩
    · right
      exact ⟨r', List.mem_cons_of_mem _ hr', h1, h2⟩

/-- only handshake requests queued: table and decision stay, `do_hello` is raised if anything was queued -/
theorem fold_newconn (t : Int) : ∀ (q : List Req) (s : DAcc), (∀ r ∈ q, normalReq s.1 r = false) →
    q.foldl (hstep t) s = (s.1, s.2.1, s.2.2 || !q.isEmpty) := by
  intro q
  induction q with
  | nil => intro s _; simp
  | cons r q' ih =>
    intro s h
    rw [List.foldl_cons, hstep_newconn t s r (h r (List.mem_cons_self ..))]
    rw [ih (s.1, s.2.1, true) (fun x hx => h x (List.mem_cons_of_mem _ hx))]
    simp

/-- the decision is only raised by a request that gets past the handshake test -/
theorem fold_doSend_false (t : Int) (q : List Req) (s : DAcc) (h : ∀ r ∈ q, normalReq s.1 r = false) :
    (q.foldl (hstep t) s).2.1 = s.2.1 := by
  rw [fold_newconn t q s h]

theorem entryOf_requested (r : Req) (t : Int) : (entryOf r t).requested = true := rfl
theorem entryOf_tLast (r : Req) (t : Int) : (entryOf r t).tLast = t := rfl
theorem entryOf_eph (r : Req) (t : Int) : (entryOf r t).eph = r.eph := rfl

/-- **when the set is published**: some queued request gets past the handshake test, and every client whose flag is down has a
request queued or is silent beyond the connection time-out ⇒ after the drain `do_send` is up and the table is not empty -/
theorem fold_decide (t : Int) : ∀ (q : List Req) (s : DAcc), KeysND s.1 →
    (∃ r ∈ q, normalReq s.1 r = true) →
    (∀ x ∈ s.1, x.2.requested = false → (∃ r ∈ q, Pair.fidOf r = x.1) ∨ x.2.tLast < t - OF.Facts.ZMQ_CONN_TIMEOUT) →
    (q.foldl (hstep t) s).2.1 = true ∧ (q.foldl (hstep t) s).1 ≠ [] := by
  intro q
  induction q with
  | nil => intro s _ h _; rcases h with ⟨r, hr, _⟩; cases hr
  | cons r q' ih =>
    intro s hnd hex hH
    rw [List.foldl_cons]
    cases hn : normalReq s.1 r with
    | false =>
      rw [hstep_newconn t s r hn]
      apply ih (s.1, s.2.1, true) hnd
      · rcases hex with ⟨r', hr', hn'⟩
        rcases List.mem_cons.mp hr' with rfl | hr'
        · rw [hn] at hn'; cases hn'
        · exact ⟨r', hr', hn'⟩
      · intro x hx hreq
        rcases hH x hx hreq with ⟨r', hr', hk⟩ | hlt
        · rcases List.mem_cons.mp hr' with rfl | hr'
          · exact absurd hk.symm (normalReq_false_key s.1 _ hn x hx)
          · exact Or.inl ⟨r', hr', hk⟩
        · exact Or.inr hlt
    | true =>
      rw [hstep_normal t s r hn]
      have hndT : KeysND (regT s.1 r t) := keysND_cset _ _ _ hnd
      have hto := Pair.conn_timeout_nonneg
      -- an entry of the registered table whose flag is down was there before, under another key
      have hbad : ∀ x ∈ regT s.1 r t, x.2.requested = false → x ∈ s.1 ∧ x.1 ≠ Pair.fidOf r := by
        intro x hx hreq
        by_cases hk : x.1 = Pair.fidOf r
        · have := Pair.cset_key _ _ _ x hx hk
          rw [this] at hreq; cases hreq
        · rcases Pair.mem_cset _ _ _ x hx with h1 | h1
          · exact ⟨h1, hk⟩
          · rw [h1] at hk; exact absurd rfl hk
      by_cases hex' : ∃ r' ∈ q', normalReq (evalClients false (t - OF.Facts.ZMQ_CONN_TIMEOUT) (regT s.1 r t) (regT s.1 r t, true, [])).1 r' = true
      · apply ih _ (keysND_sublist _ _ (evalClients_sublist _ _ _ _) hndT) hex'
        intro x hx hreq
        have hm := (evalClients_mem _ _ _ _ x hx).1
        have ⟨h1, h2⟩ := hbad x hm hreq
        rcases hH x h1 hreq with ⟨r', hr', hk⟩ | hlt
        · rcases List.mem_cons.mp hr' with rfl | hr'
          · exact absurd hk.symm h2
          · exact Or.inl ⟨r', hr', hk⟩
        · exact Or.inr hlt
      · have hall : ∀ r' ∈ q', normalReq (evalClients false (t - OF.Facts.ZMQ_CONN_TIMEOUT) (regT s.1 r t) (regT s.1 r t, true, [])).1 r' = false := by
          intro r' hr'
          cases hx : normalReq (evalClients false (t - OF.Facts.ZMQ_CONN_TIMEOUT) (regT s.1 r t) (regT s.1 r t, true, [])).1 r' with
          | false => rfl
          | true => exact absurd ⟨r', hr', hx⟩ hex'
        rw [fold_newconn t q' _ hall]
        simp only
        constructor
        · rw [List.all_eq_true]
          intro x hx
          unfold clientOK
          by_cases hlt : x.2.tLast < t - OF.Facts.ZMQ_CONN_TIMEOUT
          · simp [hlt]
          · cases hreq : x.2.requested with
            | true => simp
            | false =>
              exfalso
              have ⟨h1, h2⟩ := hbad x hx hreq
              rcases hH x h1 hreq with ⟨r', hr', hk⟩ | hlt'
              · rcases List.mem_cons.mp hr' with rfl | hr'
                · exact h2 hk.symm
                · have hsurv := evalClients_survives _ _ true hndT x hx hlt
                  have := normalReq_false_key _ r' (hall r' hr') x hsurv
                  exact this hk.symm
              · exact hlt hlt'
        · intro he
          have hin : (Pair.fidOf r, entryOf r t) ∈ regT s.1 r t := mem_cset_self _ _ _
          have := evalClients_survives _ _ true hndT _ hin (by show ¬ t < t - OF.Facts.ZMQ_CONN_TIMEOUT; omega)
          rw [he] at this; cases this

/-- a key of the final table was there before, or a request of that key that does not say `new` was queued -/
theorem fold_keys (t : Int) : ∀ (q : List Req) (s : DAcc) (x : String × Client), x ∈ (q.foldl (hstep t) s).1 →
    (∃ y ∈ s.1, y.1 = x.1) ∨ (∃ r ∈ q, Pair.fidOf r = x.1 ∧ r.new = false) := by
  intro q
  induction q with
  | nil => intro s x hx; exact Or.inl ⟨x, hx, rfl⟩
  | cons r q' ih =>
    intro s x hx
    rw [List.foldl_cons] at hx
    rcases ih _ x hx with ⟨y, hy, hk⟩ | ⟨r', hr', h1, h2⟩
    · rcases hstep_mem t s r y hy with ⟨h3, _⟩ | h3
      · exact Or.inl ⟨y, h3, hk⟩
      · -- registered by `r`: then `r` got past the handshake test
        have hn : normalReq s.1 r = true := by
          cases hx' : normalReq s.1 r with
          | true => rfl
          | false =>
            exfalso
            rw [hstep_newconn t s r hx'] at hy
            have := normalReq_false_key s.1 r hx' y hy
            rw [h3] at this; exact this rfl
        unfold normalReq at hn
        have hkey : Pair.fidOf r = x.1 := by rw [← hk, h3]
        cases hany : s.1.any (·.1 == Pair.fidOf r) with
        | true =>
          rw [List.any_eq_true] at hany
          rcases hany with ⟨z, hz, hzk⟩
          exact Or.inl ⟨z, hz, by rw [← hkey]; simpa using hzk⟩
        | false =>
          rw [hany] at hn
          right
          exact ⟨r, List.mem_cons_self .., hkey, by simpa using hn⟩
    · exact Or.inr ⟨r', List.mem_cons_of_mem _ hr', h1, h2⟩

/-- `do_hello` was not raised: every queued request got past the handshake test when it was handled - its key was in the table
from the start, or a request of that key that does not say `new` is queued -/
theorem fold_nohello (t : Int) : ∀ (q : List Req) (s : DAcc), (q.foldl (hstep t) s).2.2 = false →
    s.2.2 = false ∧ ∀ r ∈ q, (∃ y ∈ s.1, y.1 = Pair.fidOf r) ∨ (∃ r' ∈ q, Pair.fidOf r' = Pair.fidOf r ∧ r'.new = false) := by
  intro q
  induction q with
  | nil => intro s h; exact ⟨h, by intro r hr; cases hr⟩
  | cons r q' ih =>
    intro s h
    rw [List.foldl_cons] at h
    have ⟨h1, h2⟩ := ih _ h
    have hn : normalReq s.1 r = true := by
      cases hx : normalReq s.1 r with
      | true => rfl
      | false => rw [hstep_newconn t s r hx] at h1; cases h1
    have hs2 : s.2.2 = false := by rw [hstep_normal t s r hn] at h1; exact h1
    -- what getting past the test means for `r`
    have hr0 : (∃ y ∈ s.1, y.1 = Pair.fidOf r) ∨ r.new = false := by
      unfold normalReq at hn
      cases hany : s.1.any (·.1 == Pair.fidOf r) with
      | true =>
        rw [List.any_eq_true] at hany
        rcases hany with ⟨z, hz, hzk⟩
        exact Or.inl ⟨z, hz, by simpa using hzk⟩
      | false => rw [hany] at hn; exact Or.inr (by simpa using hn)
    refine ⟨hs2, ?_⟩
    intro r'' hr''
    rcases List.mem_cons.mp hr'' with rfl | hr''
    · rcases hr0 with h3 | h3
      · exact Or.inl h3
      · exact Or.inr ⟨r'', List.mem_cons_self .., rfl, h3⟩
    · rcases h2 r'' hr'' with ⟨y, hy, hk⟩ | ⟨r', hr', h3, h4⟩
      · rcases hstep_mem t s r y hy with ⟨h5, _⟩ | h5
        · exact Or.inl ⟨y, h5, hk⟩
        · have hkey : Pair.fidOf r = Pair.fidOf r'' := by rw [← hk, h5]
          rcases hr0 with ⟨z, hz, hzk⟩ | h6
          · exact Or.inl ⟨z, hz, by rw [hzk, hkey]⟩
          · exact Or.inr ⟨r, List.mem_cons_self .., hkey, h6⟩
      · exact Or.inr ⟨r', List.mem_cons_of_mem _ hr', h3, h4⟩

/-! ### the whole call -/

/-- the client table after a publish: every flag is down -/
def clearReq (cl : Clients) : Clients := cl.map fun x => (x.1, { x.2 with requested := false })

theorem publish_clients (st : Send.St) (ts : List (String × Nat)) (hb : st.balance = false) :
    (publish st ts).1.clients = clearReq st.clients := by
  unfold publish clearReq
  simp only [hb, Bool.not_false, Bool.true_or, ↓reduceIte]

theorem sendMaybe_closed (st : Send.St) (h1 : (!st.doSend || st.clients.isEmpty) = true) (h2 : st.push = false) :
    sendMaybe st = ({ st with doHello := false }, helloOuts st (some false), false) := by
  have hg : gate st = (some false, st.payload, []) := by simp [gate, h1, h2]
  unfold sendMaybe
  simp only [hg, List.nil_append]

/-- **one `send(callable, None, 0)` in terms of the fold over the request queue**: the frame set is published iff after the drain
`do_send` is up and the table is not empty (then every flag goes down); otherwise the call times out, the table is what the drain
left, and HELLO goes out if `do_hello` was raised.  The request queue is empty afterwards in both cases. -/
theorem send0_fold (u : Nat) (p : Send.St) (q : List Req) (ts : List (String × Nat)) (t : Int)
    (h : PubIdle p q) (hq : ∀ r ∈ q, ReqLow p.minSendId r) :
    PubIdle (send0 p none (.deferred (some ts)) false [0] t).1 [] ∧
    (if (q.foldl (hstep t) (p.clients, false, false)).2.1 = true ∧ (q.foldl (hstep t) (p.clients, false, false)).1 ≠ [] then
      (send0 p none (.deferred (some ts)) false [0] t).1.minSendId = p.minSendId + 1 ∧
      (send0 p none (.deferred (some ts)) false [0] t).1.clients = clearReq (q.foldl (hstep t) (p.clients, false, false)).1
     else
      (send0 p none (.deferred (some ts)) false [0] t).1.minSendId = p.minSendId ∧
      (send0 p none (.deferred (some ts)) false [0] t).1.clients = (q.foldl (hstep t) (p.clients, false, false)).1 ∧
      ((q.foldl (hstep t) (p.clients, false, false)).2.2 = true →
        helloW u ∈ (send0 p none (.deferred (some ts)) false [0] t).2.filterMap (wireOf u))) := by
  have hb := Pair.beginPub_busy p q (.deferred (some ts)) h
  have hd := drain_fold q (Pair.beginPub p (.deferred (some ts))) t hb hq
  have hf0 : ((Pair.beginPub p (.deferred (some ts))).clients, (Pair.beginPub p (.deferred (some ts))).doSend,
      (Pair.beginPub p (.deferred (some ts))).doHello) = (p.clients, false, false) := rfl
  rw [hf0] at hd
  rw [Pair.send0_unfold p q _ t h]
  generalize drain (q.length + 1) (Pair.beginPub p (.deferred (some ts))) [0] t = d at hd ⊢
  generalize q.foldl (hstep t) (p.clients, false, false) = f at hd ⊢
  rcases hd with ⟨k1, kpay, kmsg, kmin, _, kout, kf⟩
  have kpay' : d.1.payload = .deferred (some ts) := kpay
  have kmsg' : d.1.msgId = p.minSendId := kmsg
  have kmin' : d.1.minSendId = p.minSendId := kmin
  have kcl : d.1.clients = f.1 := congrArg (·.1) kf
  have kds : d.1.doSend = f.2.1 := congrArg (·.2.1) kf
  have kdh : d.1.doHello = f.2.2 := congrArg (·.2.2) kf
  simp only [k1.inCall, Bool.true_eq_false, ↓reduceIte]
  by_cases hc : f.2.1 = true ∧ f.1 ≠ []
  · rw [if_pos hc]
    have hne : d.1.clients.isEmpty = false := by
      rw [kcl]
      cases hx : f.1 with
      | nil => exact absurd hx hc.2
      | cons _ _ => rfl
    have kdo : d.1.doSend = true := by rw [kds]; exact hc.1
    have hg : gate d.1 = (none, .topics ts, [.evaluated]) := by
      unfold gate
      simp only [kdo, hne, Bool.not_true, Bool.or_self, Bool.false_and, Bool.false_eq_true, ↓reduceIte, kpay']
    have hsm : sendMaybe d.1 = ((publish { d.1 with doHello := false, payload := .topics ts } ts).1,
        [.evaluated] ++ helloOuts d.1 none ++ (publish { d.1 with doHello := false, payload := .topics ts } ts).2, true) := by
      unfold sendMaybe
      simp only [hg, payloadTopics]
    rw [hsm]
    simp only [↓reduceIte]
    have ⟨T, hT, _⟩ := Pair.exists_stale d.1.clients t
    have hpg := Pair.publish_general { d.1 with doHello := false, payload := .topics ts } [] T ts k1.queues k1.balance k1.required
      k1.msgpos hT
    refine ⟨⟨hpg.1, hpg.2.1, hpg.2.2.1, rfl, hpg.2.2.2.2.1⟩, ?_, ?_⟩
    · show (publish { d.1 with doHello := false, payload := .topics ts } ts).1.minSendId = p.minSendId + 1
      unfold publish; simp only; rw [kmsg']
    · show (publish { d.1 with doHello := false, payload := .topics ts } ts).1.clients = clearReq f.1
      rw [publish_clients { d.1 with doHello := false, payload := .topics ts } ts k1.balance]
      show clearReq d.1.clients = clearReq f.1
      rw [kcl]
  · rw [if_neg hc]
    have hclosed : (!d.1.doSend || d.1.clients.isEmpty) = true := by
      rw [kds, kcl]
      cases h1 : f.2.1 with
      | false => rfl
      | true =>
        cases h2 : f.1 with
        | nil => rfl
        | cons a b => exact absurd ⟨h1, by rw [h2]; exact List.cons_ne_nil _ _⟩ hc
    rw [sendMaybe_closed d.1 hclosed k1.push]
    simp only [Bool.false_eq_true, ↓reduceIte]
    refine ⟨⟨k1.queues, k1.balance, k1.required, rfl, k1.minpos⟩, kmin', kcl, ?_⟩
    intro hh
    have hdh : d.1.doHello = true := by rw [kdh]; exact hh
    rw [List.mem_filterMap]
    refine ⟨.hello 0, ?_, rfl⟩
    rw [List.mem_append, List.mem_append]
    left; right
    simp [helloOuts, hdh, Pair.allOuts_single _ [] k1.queues]

end OF.Net

namespace OF.Chain
open OF OF.Recv
open OF.Pair (Busy Idle Done SrcShape ConStatic KeysNodup)
open OF.Net (blockWires helloW visible)

theorem chanQ_nonempty (p : Nat) {prev : Int} {q : List Wire} {bs : List Blk} (h : ChanQ p prev q bs) (hb : bs ≠ []) : q ≠ [] := by
  cases h with
  | nil => exact absurd rfl hb
  | skip _ _ => exact List.cons_ne_nil _ _
  | @blk _ k ts q0 bs0 _ _ _ =>
    intro he
    have := congrArg List.length he
    simp [blockWires] at this

/-- `call0_chain` with the `new` flag of the request made precise: with no block queued the request says `new` exactly if
nothing was queued and nothing had been heard before (`conn` afterwards = `conn` before or something was queued) -/
theorem call0_chain_conn (p : Nat) (c : Recv.St) (s : Src) (state : Option Int) (q : List Wire) (bs : List Blk)
    (h : Rest c s) (hq : s.queue = q) (hc : ChanQ p c.prevId q bs) (hst : ∀ k, state = some k → k ≤ c.prevId + 1) :
    (bs = [] ∧ ∃ c1 s1, call0 c state [0] = (c1, [.req 0 c.prevId 0 (!s1.conn), .retNone]) ∧ Rest c1 s1 ∧
        c1.prevId = c.prevId ∧ s1.queue = [] ∧ s1.conn = (s.conn || !q.isEmpty)) ∨
    (∃ k ts bs' c1 s1 q', bs = (k, ts) :: bs' ∧ BlkOK ts ∧ c.prevId < k ∧
        call0 c state [0] = (c1, [.req 0 k 0 false, .ret k 0 (visData k ts)]) ∧ Rest c1 s1 ∧ c1.prevId = k ∧
        s1.queue = q' ∧ ChanQ p k q' bs' ∧ s1.conn = true ∧ q ≠ []) := by
  rw [call0_state c state [0] hst, Pair.call0_unfold c s h.idle]
  have hbusy := Pair.beginSt_busy c s h.idle
  have hlen : q.length < s.queue.length + 1 := by rw [hq]; omega
  rcases recvOnce0_chan p hc (s.queue.length + 1) (Pair.beginSt c) s hbusy h.empty rfl hq hlen with
    ⟨e0, s1, e1, b1, r1, q1, c1, c2⟩ | ⟨k, ts, bs', s1, q', e0, hbk, hlt, e1, a1, q1, ch⟩
  · left
    rw [e1]
    simp only [Bool.false_eq_true, ↓reduceIte, List.nil_append]
    refine ⟨e0, Pair.timeoutSt { Pair.beginSt c with srcs := [s1] }, s1, ?_,
      ⟨⟨rfl, b1.shape, ⟨b1.static.dead, b1.static.balance, b1.static.lowLat⟩, b1.reg, b1.notAll, b1.keys,
      rfl, ?_⟩, r1⟩, ?_, q1, ?_⟩
    · rw [Pair.requests_single _ s1 rfl b1.shape.eph]
      simp [Pair.beginSt, Pair.timeoutSt]
    · simp only [Pair.timeoutSt, Pair.beginSt]; have := h.idle.prev; omega
    · simp only [Pair.timeoutSt, Pair.beginSt]; omega
    · by_cases hqe : q = []
      · rw [c2 hqe, hqe]; simp
      · rw [c1 hqe]
        cases q with
        | nil => exact absurd rfl hqe
        | cons _ _ => simp
  · right
    rw [e1]
    simp only [↓reduceIte, List.nil_append]
    rw [finish_asm _ s1 k ts a1 hbk rfl]
    refine ⟨k, ts, bs', _, { s1 with recvd := none, reg := true }, q', e0, hbk, hlt, rfl, ?_, rfl, q1, ch, a1.conn, ?_⟩
    · refine ⟨⟨rfl, ⟨a1.shape.eph, a1.shape.subAll, a1.shape.star, a1.shape.subs⟩,
        ⟨a1.static.dead, a1.static.balance, a1.static.lowLat⟩, rfl, rfl, (by intro l hl; cases hl), rfl, ?_⟩, rfl⟩
      have := h.idle.prev; simp only; omega
    · exact chanQ_nonempty p hc (by rw [e0]; exact List.cons_ne_nil _ _)

end OF.Chain
