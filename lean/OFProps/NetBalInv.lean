import OFModel.Zmq.NetBal
import OFProps.NetBalBase
import OFProps.NetBalRecv
import OFProps.NetBalSend
import OFProps.NetLossyLog
set_option linter.unusedSimpArgs false
/-!
# The invariant of the balanced network `S → W_1 … W_b → J` (helper file of `OFProps/C07NetBal.lean`)

## The log
`runLog b proc st evs` is a function of the OBSERVATIONS of a run (`logOf`): for every `nodeSend` the wire messages it put on a PUB
socket (`PubRec`: node, output, id, frame, payload CONTENT read from the ghost table), for every `nodeRecv` that handed a set to
`process()` the id and the frames (`HandRec`: node, id, `HFrame`s = topic, id, content, ghost origin).

## The invariant `Inv b proc st L` (state `st` reached with log `L`)
* `base`  — `Base b st` (`NetBalBase.lean`): every node satisfies `Net.NodeInv`;
* `nodeW` — every receiver satisfies `RInv` w.r.t. a delivery history whose DATA messages are all in the log: published by the upstream
  node that source is connected to, on the output the node sits on, same id, same frame, same content (`WGood`); `Inv2` (balanced
  receiver: one holder); the receiver is balanced or has at most one source;
* `nodeS` — every id a node has published so far is below its sender's `min_send_id`;
* `nodeH` — every id a node was handed so far is at most its receiver's `prev_id`; `count` = number of sets handed; a pending result is
  `process` applied to the LAST handed set and will be sent under that set's id (`MQ.send_state`);
* `split` — the splitter's sender is balanced and is always called with `state = None`;
* `log`   — `LogOK`: what the theorems of `C07NetBal.lean` are read off.

`inv_step`: preserved by every event but a restart; `inv_run`: holds along every restart-free schedule from the initial state.
-/
namespace OF.NetBal
open OF.Net
open OF.Recv (Src Wire Msg Recvd Topic)

/-! ## the log -/

/-- a wire message put on a PUB socket -/
structure PubRec where
  node    : Nat
  out     : Nat
  mid     : Int
  frame0  : String
  content : Nat
deriving Repr, DecidableEq

/-- a set handed to `process()` -/
structure HandRec where
  node   : Nat
  id     : Int
  frames : List HFrame
deriving Repr, DecidableEq

structure Log where
  pubs  : List PubRec
  hands : List HandRec
deriving Repr

def Log.app (a c : Log) : Log := { pubs := a.pubs ++ c.pubs, hands := a.hands ++ c.hands }

def Log.empty : Log := { pubs := [], hands := [] }

def pubRecOf (tbl : List Entry) (i : Nat) : Send.Out → Option PubRec
  | .pub o f mid _ _ body => some { node := i, out := o, mid := mid, frame0 := f, content := contentOf tbl body }
  | _ => none

/-- the wire messages among the outputs of one `MQ.send` of node `i` (contents w.r.t. the ghost table AFTER the event) -/
def pubRecs (tbl : List Entry) (i : Nat) (outs : List Send.Out) : List PubRec := outs.filterMap (pubRecOf tbl i)

/-- what one event adds to the log — a function of the event and its observation -/
def logOf (tbl : List Entry) : Ev → Obs → Log
  | .nodeSend i _, .sent outs => { pubs := pubRecs tbl i outs, hands := [] }
  | .nodeRecv i, .rcvd _ (some id) (some frames) => { pubs := [], hands := [{ node := i, id := id, frames := frames }] }
  | _, _ => Log.empty

/-- the log of a run -/
def runLog (b : Nat) (proc : Proc) : St → List Ev → Log
  | _, [] => Log.empty
  | st, e :: es => (logOf (step b proc st e).1.tbl e (step b proc st e).2).app (runLog b proc (step b proc st e).1 es)

/-- the sets handed to node `i`, in order -/
def handsOf (i : Nat) (L : Log) : List HandRec := L.hands.filter fun h => h.node == i

/-- the wire messages node `i` published, in order -/
def pubsOf (i : Nat) (L : Log) : List PubRec := L.pubs.filter fun r => r.node == i

theorem handsOf_app (i : Nat) (a c : Log) : handsOf i (a.app c) = handsOf i a ++ handsOf i c := by
  simp [handsOf, Log.app]

theorem pubsOf_app (i : Nat) (a c : Log) : pubsOf i (a.app c) = pubsOf i a ++ pubsOf i c := by
  simp [pubsOf, Log.app]

theorem app_empty (a : Log) : a.app Log.empty = a := by
  simp [Log.app, Log.empty]

theorem app_assoc (a c d : Log) : (a.app c).app d = a.app (c.app d) := by
  simp [Log.app]

/-! ## what the theorems are read off -/

/-- the id of a handed set is the id of a wire message (topic message or heartbeat) an upstream node put on the output this node sits
on; the frames of the set come from the wire messages of ONE upstream node (source `j`), put on that output under the id of the set;
the ghost origin consists of source frames published under that id -/
def HandOK (b : Nat) (L : Log) (h : HandRec) : Prop :=
  (∃ (j u : Nat) (r : PubRec), ((topo b).upsOf h.node)[j]? = some u ∧ r ∈ L.pubs ∧ r.node = u ∧ r.out = outOf h.node u ∧ r.mid = h.id) ∧
  ∃ j : Nat, ∀ f ∈ h.frames, f.mid = h.id ∧ f.topic ≠ "" ∧
    (∀ o ∈ f.orig, o.mid = h.id ∧ o.node < b + 2 ∧ (topo b).upsOf o.node = []) ∧
    ∃ (u : Nat) (r : PubRec), ((topo b).upsOf h.node)[j]? = some u ∧ r ∈ L.pubs ∧ r.node = u ∧ r.out = outOf h.node u ∧ r.mid = h.id ∧
      r.frame0 ≠ "//" ∧ Recv.decodeTopic r.frame0 = f.topic ∧ r.content = f.content

/-- a wire message of a worker: sent under the id of a set the worker was handed (its `n`-th), and — unless it is the heartbeat — it
is one topic of what `process` made of that set -/
def PubOK (proc : Proc) (L : Log) (r : PubRec) : Prop :=
  ∃ n h, (handsOf r.node L)[n]? = some h ∧ h.id = r.mid ∧
    (r.frame0 = "//" ∨
      ∃ d, dictOf (Loop.processFrames (proc r.node n (h.frames.map fun f => (f.topic, f.content)))) = some d ∧
        ∃ tc ∈ d, r.frame0 = Send.frame0 tc.1 ∧ r.content = tc.2)

structure LogOK (b : Nat) (proc : Proc) (L : Log) : Prop where
  sOne : ∀ r1 ∈ L.pubs, ∀ r2 ∈ L.pubs, r1.node = 0 → r2.node = 0 → r1.mid = r2.mid → r1.out = r2.out
  handOK : ∀ h ∈ L.hands, HandOK b L h
  pubOK : ∀ r ∈ L.pubs, 1 ≤ r.node → r.node ≤ b → PubOK proc L r
  pubsMono : ∀ i, ((pubsOf i L).map (·.mid)).Pairwise (· ≤ ·)
  handsInc : ∀ i, ((handsOf i L).map (·.id)).Pairwise (· < ·)

theorem handOK_mono (b : Nat) (L L' : Log) (h : HandRec) (hp : ∀ r ∈ L.pubs, r ∈ L'.pubs) (hk : HandOK b L h) : HandOK b L' h := by
  rcases hk with ⟨⟨j0, u0, r0, b1, b2, b3⟩, j, hall⟩
  refine ⟨⟨j0, u0, r0, b1, hp r0 b2, b3⟩, j, ?_⟩
  intro f hf
  have ⟨a1, a2, a3, u, r, a4, a5, a6⟩ := hall f hf
  exact ⟨a1, a2, a3, u, r, a4, hp r a5, a6⟩

theorem pubOK_mono (proc : Proc) (L A : Log) (r : PubRec) (hk : PubOK proc L r) : PubOK proc (L.app A) r := by
  rcases hk with ⟨n, h, a1, a2⟩
  refine ⟨n, h, ?_, a2⟩
  rw [handsOf_app]
  have hn : n < (handsOf r.node L).length := (List.getElem?_eq_some_iff.mp a1).1
  rw [List.getElem?_append_left hn]
  exact a1

/-! ## per-node parts of the invariant -/

/-- a wire message of the delivery history of source `j` of node `i`: unless it is a HELLO, it is in the log — published by the upstream
node that source is connected to, on the output node `i` sits on -/
def WGood (b : Nat) (tbl : List Entry) (L : Log) (i j : Nat) (w : Wire) : Prop :=
  "" ∉ w.topics ∧ w.body < tbl.length ∧
  ((w.frame0 ≠ "//" ∨ w.mid ≠ OF.Facts.MSG_ID_HELLO) → ∃ u, ((topo b).upsOf i)[j]? = some u ∧
    ({ node := u, out := outOf i u, mid := w.mid, frame0 := w.frame0, content := contentOf tbl w.body } : PubRec) ∈ L.pubs)

structure NodeW (b : Nat) (tbl : List Entry) (L : Log) (i : Nat) (nd : Node) : Prop where
  hist : ∃ hist, RInv nd.con hist ∧ IdSeen nd.con hist ∧ ∀ j w, w ∈ hist j → WGood b tbl L i j w
  inv2 : Recv.Inv2 nd.con
  bal : nd.con.balance = true ∨ nd.con.srcs.length ≤ 1
  rstateN : ∀ k, nd.recvState = some k → k ≤ nd.con.prevId + 1 ∨ AllNone nd.con
  pendNone : nd.pending.isSome = true → AllNone nd.con

structure NodeS (L : Log) (i : Nat) (nd : Node) : Prop where
  pubLt : ∀ r ∈ L.pubs, r.node = i → r.mid < nd.pub.minSendId

structure NodeH (proc : Proc) (L : Log) (i : Nat) (nd : Node) : Prop where
  handLe : ∀ h ∈ L.hands, h.node = i → h.id ≤ nd.con.prevId
  count : nd.con.srcs ≠ [] → nd.count = (handsOf i L).length
  pend : nd.con.srcs ≠ [] → ∀ p, nd.pending = some p → ∃ h, (handsOf i L).getLast? = some h ∧
    (∃ bal, nd.sendState = some (h.id, bal)) ∧
    p.res = Loop.processFrames (proc i (nd.count - 1) (h.frames.map fun f => (f.topic, f.content)))

structure Inv (b : Nat) (proc : Proc) (st : St) (L : Log) : Prop where
  base : Base b st
  nodeW : ∀ i nd, st.nodes[i]? = some nd → NodeW b st.tbl L i nd
  nodeS : ∀ i nd, st.nodes[i]? = some nd → NodeS L i nd
  nodeH : ∀ i nd, st.nodes[i]? = some nd → NodeH proc L i nd
  split : ∀ nd, st.nodes[0]? = some nd → nd.pub.balance = true ∧ nd.sendState = none
  log : LogOK b proc L

/-! ## monotonicity: the log and the ghost table only grow -/

theorem contentOf_append (tbl es : List Entry) (x : Nat) (h : x < tbl.length) : contentOf (tbl ++ es) x = contentOf tbl x := by
  unfold contentOf; rw [List.getElem?_append_left h]

theorem wGood_mono (b : Nat) (tbl es : List Entry) (L A : Log) (i j : Nat) (w : Wire) (h : WGood b tbl L i j w) :
    WGood b (tbl ++ es) (L.app A) i j w := by
  refine ⟨h.1, by rw [List.length_append]; have := h.2.1; omega, ?_⟩
  intro hf
  rcases h.2.2 hf with ⟨u, hu, hm⟩
  refine ⟨u, hu, ?_⟩
  rw [contentOf_append tbl es _ h.2.1]
  simp only [Log.app, List.mem_append]
  left; exact hm

theorem nodeW_mono (b : Nat) (tbl es : List Entry) (L A : Log) (i : Nat) (nd : Node) (h : NodeW b tbl L i nd) :
    NodeW b (tbl ++ es) (L.app A) i nd := by
  rcases h.hist with ⟨hist, h1, h1', h2⟩
  exact { h with hist := ⟨hist, h1, h1', fun j w hw => wGood_mono b tbl es L A i j w (h2 j w hw)⟩ }

theorem nodeW_mono_log (b : Nat) (tbl : List Entry) (L A : Log) (i : Nat) (nd : Node) (h : NodeW b tbl L i nd) :
    NodeW b tbl (L.app A) i nd := by
  have := nodeW_mono b tbl [] L A i nd h
  rw [List.append_nil] at this
  exact this

theorem nodeW_pushReqsAt (b : Nat) (tbl : List Entry) (L : Log) (i : Nat) (nd : Node) (q : Nat) (rs : List Send.Req)
    (h : NodeW b tbl L i nd) : NodeW b tbl L i { nd with pub := pushReqsAt nd.pub q rs } :=
  { h with inv2 := h.inv2 }

/-! ## the five kinds of steps -/

theorem pending_none_of (nd : Node) (h : ¬ nd.pending.isSome = true) : nd.pending = none := by
  cases hc : nd.pending with
  | none => rfl
  | some x => rw [hc] at h; simp at h

/-- the five kinds of steps -/
theorem step_cases (b : Nat) (proc : Proc) (st : St) (e : Ev) (hne : e.isRestart = false) :
    (step b proc st e = (st, .noop)) ∨
    (∃ i nd, e = .nodeRecv i ∧ st.nodes[i]? = some nd ∧ nd.pending = none ∧ nd.con.srcs = [] ∧
      step b proc st e = recvSource proc st i nd) ∨
    (∃ i nd, e = .nodeRecv i ∧ st.nodes[i]? = some nd ∧ nd.pending = none ∧ nd.con.srcs ≠ [] ∧
      step b proc st e = recvRelay b proc st i nd) ∨
    (∃ i t nd p, e = .nodeSend i t ∧ st.nodes[i]? = some nd ∧ nd.pending = some p ∧
      step b proc st e = sendSkip st i nd) ∨
    (∃ i t nd p, e = .nodeSend i t ∧ st.nodes[i]? = some nd ∧ nd.pending = some p ∧
      Loop.reachesSender ((topo b).hasOut i) p.res = true ∧ step b proc st e = sendReal b st i nd p t) := by
  cases e with
  | nodeRecv i =>
    simp only [step, stepRecv]
    cases hn : st.nodes[i]? with
    | none => left; rfl
    | some nd =>
      simp only
      by_cases hp : nd.pending.isSome = true
      · left; simp [hp]
      · have hpn := pending_none_of nd hp
        simp only [hp, Bool.false_eq_true, ↓reduceIte]
        by_cases hs : nd.con.srcs.isEmpty = true
        · right; left
          simp only [hs, ↓reduceIte]
          exact ⟨i, nd, rfl, hn, hpn, by simpa using hs, rfl⟩
        · right; right; left
          simp only [hs, Bool.false_eq_true, ↓reduceIte]
          exact ⟨i, nd, rfl, hn, hpn, by simpa using hs, rfl⟩
  | nodeSend i t =>
    simp only [step, stepSend]
    cases hn : st.nodes[i]? with
    | none => left; rfl
    | some nd =>
      simp only
      cases hp : nd.pending with
      | none => left; rfl
      | some p =>
        simp only
        by_cases hr : Loop.reachesSender ((topo b).hasOut i) p.res = true
        · right; right; right; right
          simp only [hr, ↓reduceIte]
          exact ⟨i, t, nd, p, rfl, hn, hp, hr, rfl⟩
        · right; right; right; left
          simp only [hr, Bool.false_eq_true, ↓reduceIte]
          exact ⟨i, t, nd, p, rfl, hn, hp, rfl⟩
  | restart i g => cases hne
/-- what a `nodeRecv` adds to the log -/
def recvLog (tbl : List Entry) (i : Nat) (outs : List Recv.Out) : Log :=
  match retOf outs with
  | none => Log.empty
  | some (id, _, data) => { pubs := [], hands := [{ node := i, id := id, frames := data.map (hframe tbl) }] }

theorem logOf_recvObs (tbl tbl' : List Entry) (i : Nat) (outs : List Recv.Out) :
    logOf tbl' (.nodeRecv i) (recvObs tbl outs) = recvLog tbl i outs := by
  unfold recvObs recvLog
  cases hr : retOf outs with
  | none => rfl
  | some x => rcases x with ⟨id, bal, data⟩; rfl

theorem logOf_noop (tbl : List Entry) (e : Ev) : logOf tbl e .noop = Log.empty := by
  cases e <;> rfl

theorem recvLog_pubs (tbl : List Entry) (i : Nat) (outs : List Recv.Out) : (recvLog tbl i outs).pubs = [] := by
  unfold recvLog; split <;> rfl

theorem afterRecv_pub (proc : Proc) (tbl : List Entry) (i : Nat) (nd : Node) (r : Recv.St × List Recv.Out) :
    (afterRecv proc tbl i nd r).pub = nd.pub := by
  unfold afterRecv; split <;> rfl

theorem afterRecv_none (proc : Proc) (tbl : List Entry) (i : Nat) (nd : Node) (r : Recv.St × List Recv.Out)
    (h : retOf r.2 = none) : afterRecv proc tbl i nd r = { nd with con := r.1 } := by
  unfold afterRecv; rw [h]

theorem afterRecv_some (proc : Proc) (tbl : List Entry) (i : Nat) (nd : Node) (r : Recv.St × List Recv.Out)
    (id : Int) (bal : Nat) (data : List (Topic × Msg)) (h : retOf r.2 = some (id, bal, data)) :
    afterRecv proc tbl i nd r =
      processed proc i { nd with con := r.1, sendState := some (id, bal), recvState := none } (data.map (hframe tbl)) := by
  unfold afterRecv; rw [h]

theorem pairwise_snoc {α : Type} (R : α → α → Prop) (l : List α) (x : α) (h : l.Pairwise R) (hx : ∀ y ∈ l, R y x) :
    (l ++ [x]).Pairwise R := by
  rw [List.pairwise_append]
  exact ⟨h, List.pairwise_singleton R x, by intro a ha c hc; simp only [List.mem_singleton] at hc; subst hc; exact hx a ha⟩


theorem srcs_ne_of_ephs (a c : List Src) (h : ephs a = ephs c) (hc : c ≠ []) : a ≠ [] := by
  intro ha
  have := srcs_length_of_ephs a c h
  rw [ha] at this
  cases c with
  | nil => exact hc rfl
  | cons x xs => simp at this

/-- `nodeRecv i` of a node with upstreams, nothing pending -/
theorem inv_recvRelay (b : Nat) (proc : Proc) (hp : ProcOK proc) (st : St) (L : Log) (i : Nat) (nd : Node)
    (h : Inv b proc st L) (hn : st.nodes[i]? = some nd) (hpn : nd.pending = none) (hs : nd.con.srcs ≠ [])
    (hbase : Base b (recvRelay b proc st i nd).1) :
    Inv b proc (recvRelay b proc st i nd).1
      (L.app (recvLog st.tbl i (Recv.call0 nd.con nd.recvState (List.range nd.con.srcs.length)).2)) := by
  have hnd := h.base.nodes i nd hn
  have hW := h.nodeW i nd hn
  have hH := h.nodeH i nd hn
  rcases hW.hist with ⟨hist, h1, h1', h2⟩
  have hh : HistOK hist := fun j w hw => (h2 j w hw).1
  generalize hprio : List.range nd.con.srcs.length = prio at *
  have hlen1 : nd.con.balance = true ∨ nd.con.srcs.length = 1 := by
    rcases hW.bal with hb | hb
    · left; exact hb
    · right
      cases hc : nd.con.srcs with
      | nil => exact absurd hc hs
      | cons x xs => rw [hc] at hb; simp at hb ⊢; exact hb
  have ⟨f1, f2, f3, f4, f5, f6⟩ := call0_facts nd.con hist nd.recvState prio h1 hh hnd.conIdle hnd.rstate
  have ⟨g1, g2⟩ := call0_one nd.con hist nd.recvState prio h1 hh hnd.conIdle hnd.rstate hW.inv2 hlen1
  have ⟨k1, k2⟩ := Lossy.call0_ids nd.con nd.recvState prio hnd.conIdle
  have hset := (nodeInv_afterRecv (topo b) proc hp st.tbl i nd prio hnd hpn).2
  have hbal := call0_balance nd.con nd.recvState prio
  have ⟨q1, q2, q3, q4⟩ := call0_idSeen nd.con hist nd.recvState prio h1 hh hnd.conIdle hW.rstateN h1'
  generalize hr : Recv.call0 nd.con nd.recvState prio = r at *
  -- the new node
  have hcon : (afterRecv proc st.tbl i nd r).con = r.1 := Lossy.afterRecv_con proc st.tbl i nd r
  have hpub : (afterRecv proc st.tbl i nd r).pub = nd.pub := afterRecv_pub proc st.tbl i nd r
  have hsrcs' : r.1.srcs ≠ [] := srcs_ne_of_ephs _ _ f6 hs
  have hApubs : (recvLog st.tbl i r.2).pubs = [] := recvLog_pubs st.tbl i r.2
  have hpubs : (L.app (recvLog st.tbl i r.2)).pubs = L.pubs := by simp only [Log.app, hApubs, List.append_nil]
  -- hands of the other nodes are not touched
  have hother : ∀ u, u ≠ i → handsOf u (L.app (recvLog st.tbl i r.2)) = handsOf u L := by
    intro u hu
    rw [handsOf_app]
    unfold recvLog
    split
    · simp [handsOf, Log.empty]
    · have : ¬ i = u := fun hc => hu hc.symm
      simp [handsOf, this]
  have hhands_mem : ∀ x ∈ (L.app (recvLog st.tbl i r.2)).hands, x ∈ L.hands ∨
      (∃ id bal data, retOf r.2 = some (id, bal, data) ∧ x = { node := i, id := id, frames := data.map (hframe st.tbl) }) := by
    intro x hx
    simp only [Log.app, List.mem_append] at hx
    rcases hx with hx | hx
    · left; exact hx
    · right
      unfold recvLog at hx
      split at hx
      · simp [Log.empty] at hx
      · rename_i id bal data hret
        simp only [List.mem_singleton] at hx
        exact ⟨id, bal, data, hret, hx⟩
  unfold recvRelay at hbase ⊢
  simp only [hprio, hr] at hbase ⊢
  refine ⟨hbase, ?_, ?_, ?_, ?_, ?_⟩
  · -- nodeW
    apply forall_deliverReqs (fun u x => NodeW b st.tbl (L.app (recvLog st.tbl i r.2)) u x) b st.nodes i nd.gen r.2 nd _ hn
    · intro u x hu _; exact nodeW_mono_log b st.tbl L _ u x (h.nodeW u x hu)
    · refine ⟨⟨hist, by rw [hcon]; exact f1, by rw [hcon]; exact q1, fun j w hw => ?_⟩, by rw [hcon]; exact g1, ?_, ?_, ?_⟩
      · have := wGood_mono b st.tbl [] L (recvLog st.tbl i r.2) i j w (h2 j w hw)
        rw [List.append_nil] at this; exact this
      · rw [hcon, hbal, srcs_length_of_ephs _ _ f6]; exact hW.bal
      · rw [hcon]
        cases hret : retOf r.2 with
        | none => rw [afterRecv_none proc st.tbl i nd r hret]; exact q3
        | some x =>
          rcases x with ⟨id, bal, data⟩
          rw [afterRecv_some proc st.tbl i nd r id bal data hret]
          intro k hk; simp only [processed] at hk; cases hk
      · rw [hcon]
        cases hret : retOf r.2 with
        | none => rw [afterRecv_none proc st.tbl i nd r hret]; intro hc; simp only [hpn] at hc; cases hc
        | some x =>
          rcases x with ⟨id, bal, data⟩
          intro _
          have hmem := retOf_mem _ id bal data hret
          exact q4 (by intro he; have := mem_ret_retIds _ id bal data hmem; rw [he] at this; cases this)
    · intro u x q rs hx; exact nodeW_pushReqsAt b st.tbl _ u x q rs hx
  · -- nodeS
    apply forall_deliverReqs (fun u x => NodeS (L.app (recvLog st.tbl i r.2)) u x) b st.nodes i nd.gen r.2 nd _ hn
    · intro u x hu _
      refine ⟨?_⟩
      intro rr hrr; rw [hpubs] at hrr; exact (h.nodeS u x hu).pubLt rr hrr
    · refine ⟨?_⟩
      intro rr hrr; rw [hpubs] at hrr; rw [hpub]; exact (h.nodeS i nd hn).pubLt rr hrr
    · intro u x q rs hx
      exact ⟨hx.pubLt⟩
  · -- nodeH
    apply forall_deliverReqs (fun u x => NodeH proc (L.app (recvLog st.tbl i r.2)) u x) b st.nodes i nd.gen r.2 nd _ hn
    · intro u x hu hui
      have hx := h.nodeH u x hu
      refine ⟨?_, ?_, ?_⟩
      · intro y hy hyu
        rcases hhands_mem y hy with hy | ⟨id, bal, data, _, rfl⟩
        · exact hx.handLe y hy hyu
        · exact absurd hyu.symm hui
      · rw [hother u hui]; exact hx.count
      · rw [hother u hui]; exact hx.pend
    · -- the acting node
      cases hret : retOf r.2 with
      | none =>
        rw [afterRecv_none proc st.tbl i nd r hret]
        have hA : recvLog st.tbl i r.2 = Log.empty := by unfold recvLog; rw [hret]
        rw [hA, app_empty]
        refine ⟨?_, ?_, ?_⟩
        · intro y hy hyi; exact Int.le_trans (hH.handLe y hy hyi) k1
        · intro _; exact hH.count hs
        · intro _ p hpd; simp only [hpn] at hpd; cases hpd
      | some x =>
        rcases x with ⟨id, bal, data⟩
        rw [afterRecv_some proc st.tbl i nd r id bal data hret]
        have hA : recvLog st.tbl i r.2 = { pubs := [], hands := [{ node := i, id := id, frames := data.map (hframe st.tbl) }] } := by
          unfold recvLog; rw [hret]
        have hmem := retOf_mem _ id bal data hret
        have hid := k2 id (mem_ret_retIds _ id bal data hmem)
        have hho : handsOf i (L.app (recvLog st.tbl i r.2)) =
            handsOf i L ++ [{ node := i, id := id, frames := data.map (hframe st.tbl) }] := by
          rw [handsOf_app, hA]; simp [handsOf]
        refine ⟨?_, ?_, ?_⟩
        · intro y hy hyi
          simp only [processed]
          rcases hhands_mem y hy with hy | ⟨id', bal', data', hret', rfl⟩
          · exact Int.le_trans (hH.handLe y hy hyi) k1
          · rw [hret] at hret'; cases hret'; exact hid.2
        · intro _
          rw [hho]
          simp only [processed, List.length_append, List.length_singleton]
          rw [hH.count hs]
        · intro _ p hpd
          rw [hho]
          refine ⟨_, List.getLast?_concat .., ⟨bal, rfl⟩, ?_⟩
          simp only [processed, Option.some.injEq] at hpd
          subst hpd
          simp only [processed, Nat.add_sub_cancel, List.map_map]
    · intro u x q rs hx
      exact ⟨hx.handLe, hx.count, hx.pend⟩
  · -- split
    intro nd0 h0
    by_cases hi0 : i = 0
    · subst hi0
      exfalso
      have := hnd.shape
      rw [upsOf_zero] at this
      simp only [List.map_nil, ephs, List.map_eq_nil_iff] at this
      exact hs this
    · have hP := forall_deliverReqs (fun u x => u = 0 → x.pub.balance = true ∧ x.sendState = none) b st.nodes i nd.gen r.2 nd
        (afterRecv proc st.tbl i nd r) hn (fun u x hu _ hu0 => h.split x (hu0 ▸ hu)) (fun hc => absurd hc hi0)
        (fun u x q rs hx hu0 => hx hu0)
      exact hP 0 nd0 h0 rfl
  · -- log
    refine ⟨?_, ?_, ?_, ?_, ?_⟩
    · intro r1 hr1 r2 hr2; rw [hpubs] at hr1 hr2; exact h.log.sOne r1 hr1 r2 hr2
    · intro y hy
      rcases hhands_mem y hy with hy | ⟨id, bal, data, hret, rfl⟩
      · exact handOK_mono b L _ y (by intro rr hrr; rw [hpubs]; exact hrr) (h.log.handOK y hy)
      · have hmem := retOf_mem _ id bal data hret
        have hone := g2 _ hmem
        rcases hone with ⟨j, hall⟩
        have hidw : ∃ (j u : Nat) (r' : PubRec), ((topo b).upsOf i)[j]? = some u ∧ r' ∈ (L.app (recvLog st.tbl i r.2)).pubs ∧ r'.node = u ∧
            r'.out = outOf i u ∧ r'.mid = id := by
          rcases q2 id bal data hmem with ⟨j0, w0, hw0, hm0, hs0⟩
          have hnh : w0.mid ≠ OF.Facts.MSG_ID_HELLO := by
            simp only [OF.Facts.MSG_ID_SPECIAL, OF.Facts.MSG_ID_HELLO] at hs0 ⊢; omega
          rcases (h2 j0 w0 hw0).2.2 (Or.inr hnh) with ⟨u0, hu0, hm⟩
          exact ⟨j0, u0, _, hu0, by rw [hpubs]; exact hm, rfl, rfl, hm0⟩
        refine ⟨hidw, j, ?_⟩
        intro f hf
        simp only [List.mem_map] at hf
        rcases hf with ⟨p, hpd, rfl⟩
        have ⟨a1, a2, w, a3, a4, a5, a6, a7⟩ := hall p hpd
        have ⟨s1, s2, _, _, _⟩ := hset id bal data hret p hpd
        have hwg := h2 j w a3
        rcases hwg.2.2 (Or.inl a6) with ⟨u, hu, hm⟩
        have horig : ∀ o ∈ (hframe st.tbl p).orig, o.mid = id ∧ o.node < b + 2 ∧ (topo b).upsOf o.node = [] := by
          intro o ho
          have := s2 o ho
          rw [topo_n] at this
          exact this
        have hcont : contentOf st.tbl w.body = (hframe st.tbl p).content := by simp only [hframe, a5]
        exact ⟨a1, a2, horig,
          u, { node := u, out := outOf i u, mid := w.mid, frame0 := w.frame0, content := contentOf st.tbl w.body },
          hu, by rw [hpubs]; exact hm, rfl, rfl, a4, a6, a7, hcont⟩
    · intro rr hrr h1' h2'
      rw [hpubs] at hrr
      exact pubOK_mono proc L _ rr (h.log.pubOK rr hrr h1' h2')
    · intro u
      rw [pubsOf_app]
      have : pubsOf u (recvLog st.tbl i r.2) = [] := by simp [pubsOf, hApubs]
      rw [this, List.append_nil]
      exact h.log.pubsMono u
    · intro u
      by_cases hui : u = i
      · subst hui
        cases hret : retOf r.2 with
        | none =>
          have hA : recvLog st.tbl u r.2 = Log.empty := by unfold recvLog; rw [hret]
          rw [hA, app_empty]; exact h.log.handsInc u
        | some x =>
          rcases x with ⟨id, bal, data⟩
          have hA : recvLog st.tbl u r.2 = { pubs := [], hands := [{ node := u, id := id, frames := data.map (hframe st.tbl) }] } := by
            unfold recvLog; rw [hret]
          have hmem := retOf_mem _ id bal data hret
          have hid := k2 id (mem_ret_retIds _ id bal data hmem)
          rw [handsOf_app, hA]
          have : handsOf u { pubs := [], hands := [{ node := u, id := id, frames := data.map (hframe st.tbl) }] } =
              [{ node := u, id := id, frames := data.map (hframe st.tbl) }] := by simp [handsOf]
          rw [this, List.map_append]
          apply pairwise_snoc _ _ _ (h.log.handsInc u)
          intro y hy
          rw [List.mem_map] at hy
          rcases hy with ⟨z, hz, rfl⟩
          have hz' : z ∈ L.hands ∧ z.node = u := by
            simp only [handsOf, List.mem_filter, beq_iff_eq] at hz; exact hz
          have := hH.handLe z hz'.1 hz'.2
          show z.id < id
          omega
      · rw [hother u hui]; exact h.log.handsInc u

/-- `nodeRecv` of the source node: `process()` is called on `{}`; nothing is logged -/
theorem inv_recvSource (b : Nat) (proc : Proc) (st : St) (L : Log) (i : Nat) (nd : Node)
    (h : Inv b proc st L) (hn : st.nodes[i]? = some nd) (hs : nd.con.srcs = [])
    (hbase : Base b (recvSource proc st i nd).1) : Inv b proc (recvSource proc st i nd).1 L := by
  unfold recvSource at hbase ⊢
  refine ⟨hbase, ?_, ?_, ?_, ?_, h.log⟩
  · apply forall_set (fun u x => NodeW b st.tbl L u x) st.nodes i nd _ hn (fun u x hu _ => h.nodeW u x hu)
    have := h.nodeW i nd hn
    exact ⟨this.hist, this.inv2, this.bal, this.rstateN, fun _ j s hj => by simp only [processed, hs] at hj; cases hj⟩
  · apply forall_set (fun u x => NodeS L u x) st.nodes i nd _ hn (fun u x hu _ => h.nodeS u x hu)
    exact ⟨(h.nodeS i nd hn).pubLt⟩
  · apply forall_set (fun u x => NodeH proc L u x) st.nodes i nd _ hn (fun u x hu _ => h.nodeH u x hu)
    refine ⟨(h.nodeH i nd hn).handLe, ?_, ?_⟩
    · intro hc; exact absurd hs hc
    · intro hc; exact absurd hs hc
  · intro nd0 h0
    have hP := forall_set (fun u x => u = 0 → x.pub.balance = true ∧ x.sendState = none) st.nodes i nd
      (processed proc i nd []) hn (fun u x hu _ hu0 => h.split x (hu0 ▸ hu)) (fun hc => h.split nd (hc ▸ hn))
    exact hP 0 nd0 h0 rfl

/-- `nodeSend` of a node that has no sender, or whose `process()` returned `None`: the pending result is dropped; nothing is logged -/
theorem inv_sendSkip (b : Nat) (proc : Proc) (st : St) (L : Log) (i : Nat) (nd : Node)
    (h : Inv b proc st L) (hn : st.nodes[i]? = some nd)
    (hbase : Base b (sendSkip st i nd).1) : Inv b proc (sendSkip st i nd).1 L := by
  unfold sendSkip at hbase ⊢
  refine ⟨hbase, ?_, ?_, ?_, ?_, h.log⟩
  · apply forall_set (fun u x => NodeW b st.tbl L u x) st.nodes i nd _ hn (fun u x hu _ => h.nodeW u x hu)
    have := h.nodeW i nd hn
    exact ⟨this.hist, this.inv2, this.bal, this.rstateN, fun hc => by cases hc⟩
  · apply forall_set (fun u x => NodeS L u x) st.nodes i nd _ hn (fun u x hu _ => h.nodeS u x hu)
    exact ⟨(h.nodeS i nd hn).pubLt⟩
  · apply forall_set (fun u x => NodeH proc L u x) st.nodes i nd _ hn (fun u x hu _ => h.nodeH u x hu)
    refine ⟨(h.nodeH i nd hn).handLe, (h.nodeH i nd hn).count, ?_⟩
    intro _ p hpd; cases hpd
  · intro nd0 h0
    have hP := forall_set (fun u x => u = 0 → x.pub.balance = true ∧ x.sendState = none) st.nodes i nd
      { nd with pending := none } hn (fun u x hu _ hu0 => h.split x (hu0 ▸ hu)) (fun hc => h.split nd (hc ▸ hn))
    exact hP 0 nd0 h0 rfl

theorem logOf_sendSkip (tbl : List Entry) (i : Nat) (t : Int) : logOf tbl (.nodeSend i t) (.sent []) = Log.empty := rfl

theorem logOf_recvSource (tbl : List Entry) (i : Nat) : logOf tbl (.nodeRecv i) (.rcvd [] none (some [])) = Log.empty := rfl

theorem mem_pubRecs (tbl : List Entry) (i : Nat) (outs : List Send.Out) (rr : PubRec) (h : rr ∈ pubRecs tbl i outs) :
    ∃ o f mid ts bal body, Send.Out.pub o f mid ts bal body ∈ outs ∧
      rr = { node := i, out := o, mid := mid, frame0 := f, content := contentOf tbl body } := by
  unfold pubRecs at h
  rw [List.mem_filterMap] at h
  rcases h with ⟨x, hx, hv⟩
  cases x with
  | pub o f mid ts bal body =>
    simp only [pubRecOf, Option.some.injEq] at hv
    exact ⟨o, f, mid, ts, bal, body, hx, hv.symm⟩
  | hello o => cases hv
  | oob b => cases hv
  | evaluated => cases hv
  | ret n => cases hv
  | retNone => cases hv

theorem pubRecs_mem (tbl : List Entry) (i : Nat) (outs : List Send.Out) (o : Nat) (f : String) (mid : Int) (ts : List String)
    (bal body : Nat) (h : Send.Out.pub o f mid ts bal body ∈ outs) :
    ({ node := i, out := o, mid := mid, frame0 := f, content := contentOf tbl body } : PubRec) ∈ pubRecs tbl i outs := by
  unfold pubRecs
  rw [List.mem_filterMap]
  exact ⟨_, h, rfl⟩

theorem relabel_mem : ∀ (d : List (Topic × Nat)) (base : Nat) (x : String × Nat), x ∈ relabel base d →
    ∃ k c, d[k]? = some (x.1, c) ∧ x.2 = base + k := by
  intro d
  induction d with
  | nil => intro base x hx; cases hx
  | cons q rest ih =>
    intro base x hx
    simp only [relabel, List.mem_cons] at hx
    rcases hx with hx | hx
    · subst hx
      exact ⟨0, q.2, rfl, rfl⟩
    · rcases ih (base + 1) x hx with ⟨k, c, h1, h2⟩
      exact ⟨k + 1, c, by simpa using h1, by omega⟩

theorem contentOf_entries (tbl : List Entry) (d : List (Topic × Nat)) (o : List Org) (k : Nat) (t : Topic) (c : Nat)
    (h : d[k]? = some (t, c)) :
    contentOf (tbl ++ d.map fun q => ({ content := q.2, orig := o } : Entry)) (tbl.length + k) = c := by
  unfold contentOf
  rw [List.getElem?_append_right (Nat.le_add_right _ _), Nat.add_sub_cancel_left, List.getElem?_map, h]
  rfl

theorem afterSend_cases (nd : Node) (p : Pending) (r : Send.St × List Send.Out) :
    (afterSend nd p r).pub = r.1 ∧ (afterSend nd p r).con = nd.con ∧ (afterSend nd p r).count = nd.count ∧
    (((afterSend nd p r).pending = none ∧ (afterSend nd p r).sendState = none) ∨
     ((afterSend nd p r).pending = nd.pending ∧ (afterSend nd p r).sendState = nd.sendState ∧
      (afterSend nd p r).recvState = nd.recvState)) := by
  unfold afterSend
  split
  · exact ⟨rfl, rfl, rfl, Or.inl ⟨rfl, rfl⟩⟩
  · exact ⟨rfl, rfl, rfl, Or.inr ⟨rfl, rfl, rfl⟩⟩

theorem plList_payloadOf (base : Nat) (res : Loop.Sendable Nat) (x : String × Nat) (h : x ∈ plList (payloadOf base res)) :
    ∃ d, dictOf res = some d ∧ x ∈ relabel base d := by
  unfold payloadOf at h
  cases hd : dictOf res with
  | none => rw [hd] at h; simp [plList] at h
  | some d => rw [hd] at h; simp only [Option.map_some, plList] at h; exact ⟨d, rfl, h⟩

theorem getLast?_getElem? {α : Type} (l : List α) (x : α) (h : l.getLast? = some x) : l[l.length - 1]? = some x := by
  rw [List.getLast?_eq_getElem?] at h; exact h

theorem pairwise_const {α : Type} (R : α → α → Prop) (l : List α) (h : ∀ x ∈ l, ∀ y ∈ l, R x y) : l.Pairwise R := by
  induction l with
  | nil => exact List.Pairwise.nil
  | cons a rest ih =>
    refine List.Pairwise.cons ?_ (ih ?_)
    · intro y hy; exact h a (List.mem_cons_self ..) y (List.mem_cons_of_mem _ hy)
    · intro x hx y hy; exact h x (List.mem_cons_of_mem _ hx) y (List.mem_cons_of_mem _ hy)

/-- what a `nodeSend` that reaches the sender adds to the log -/
def sendLog (tbl : List Entry) (i : Nat) (outs : List Send.Out) : Log := { pubs := pubRecs tbl i outs, hands := [] }

theorem handsOf_sendLog (u : Nat) (L : Log) (tbl : List Entry) (i : Nat) (outs : List Send.Out) :
    handsOf u (L.app (sendLog tbl i outs)) = handsOf u L := by
  rw [handsOf_app]; simp [handsOf, sendLog]

theorem pushWires_prevId (c : Recv.St) (ups : List Nat) (p : Nat) (ws : List Wire) : (pushWires c ups p ws).prevId = c.prevId := rfl

theorem pushWires_balance (c : Recv.St) (ups : List Nat) (p : Nat) (ws : List Wire) : (pushWires c ups p ws).balance = c.balance := rfl

theorem pushWires_length (c : Recv.St) (ups : List Nat) (p : Nat) (ws : List Wire) : (pushWires c ups p ws).srcs.length = c.srcs.length := by
  simp [pushWires]

/-- `nodeSend i t` that reaches the sender -/
theorem inv_sendReal (b : Nat) (proc : Proc) (st : St) (L : Log) (i : Nat) (nd : Node) (p : Pending) (t : Int)
    (h : Inv b proc st L) (hn : st.nodes[i]? = some nd) (hpend : nd.pending = some p)
    (hbase : Base b (sendReal b st i nd p t).1) :
    Inv b proc (sendReal b st i nd p t).1
      (L.app (sendLog (sendReal b st i nd p t).1.tbl i
        (Send.send0 nd.pub nd.sendState (payloadOf st.tbl.length p.res) false (sendPrio nd) t).2)) := by
  have hnd := h.base.nodes i nd hn
  have hi : i < (topo b).n := by rw [topo_n, ← h.base.len]; exact (List.getElem?_eq_some_iff.mp hn).1
  have hS := h.nodeS i nd hn
  have hH := h.nodeH i nd hn
  have hgood := send0_pubs nd.pub nd.sendState (payloadOf st.tbl.length p.res) false (sendPrio nd) t hnd.pubIdle
  have hfresh := send0_fresh nd.pub nd.sendState (payloadOf st.tbl.length p.res) false (sendPrio nd) t hnd.pubIdle
  have hfull := send0_pub_full nd.pub nd.sendState (payloadOf st.tbl.length p.res) false (sendPrio nd) t hnd.pubIdle
  have hone := send0_one_out nd.pub nd.sendState (payloadOf st.tbl.length p.res) false (sendPrio nd) t hnd.pubIdle
  have hbal := send0_balance nd.pub nd.sendState (payloadOf st.tbl.length p.res) false (sendPrio nd) t
  have hwires := sendReal_wires_prio (topo b) st.tbl i nd p (sendPrio nd) t hnd hpend hi h.base.tbl
  generalize hr : Send.send0 nd.pub nd.sendState (payloadOf st.tbl.length p.res) false (sendPrio nd) t = r at *
  have ⟨c1, c2, c3, c4⟩ := afterSend_cases nd p r
  unfold sendReal at hbase ⊢
  simp only [hr] at hbase ⊢
  generalize htbl : st.tbl ++ entriesOf p.res (sendOrigin i nd p) = tbl' at *
  -- the new log entries
  have hnew : ∀ rr ∈ (sendLog tbl' i r.2).pubs, ∃ o f mid ts bal body, Send.Out.pub o f mid ts bal body ∈ r.2 ∧
      rr = { node := i, out := o, mid := mid, frame0 := f, content := contentOf tbl' body } := fun rr hrr => mem_pubRecs tbl' i r.2 rr hrr
  have hnewmid : ∀ rr ∈ (sendLog tbl' i r.2).pubs, rr.node = i ∧ rr.mid = callId nd.pub nd.sendState ∧
      nd.pub.minSendId ≤ rr.mid ∧ rr.mid < r.1.minSendId := by
    intro rr hrr
    rcases hnew rr hrr with ⟨o, f, mid, ts, bal, body, hx, rfl⟩
    have hm : mid ∈ Send.pubMids r.2 := (Send.mem_pubMids r.2 mid).mpr ⟨o, f, ts, bal, body, hx⟩
    exact ⟨rfl, (hgood _ hx).1, hfresh.2 mid hm⟩
  have hmem : ∀ rr, rr ∈ (L.app (sendLog tbl' i r.2)).pubs ↔ rr ∈ L.pubs ∨ rr ∈ (sendLog tbl' i r.2).pubs := by
    intro rr; simp only [Log.app, List.mem_append]
  refine ⟨hbase, ?_, ?_, ?_, ?_, ?_⟩
  · -- nodeW
    apply forall_deliverWires (fun u x => NodeW b tbl' (L.app (sendLog tbl' i r.2)) u x) b st.nodes i r.2 nd _ hn
    · intro u x hu _
      rw [← htbl]; exact nodeW_mono b st.tbl _ L _ u x (h.nodeW u x hu)
    · have := nodeW_mono b st.tbl (entriesOf p.res (sendOrigin i nd p)) L (sendLog tbl' i r.2) i nd (h.nodeW i nd hn)
      rw [htbl] at this
      have hall : AllNone nd.con := this.pendNone (by rw [hpend]; rfl)
      refine ⟨by rw [c2]; exact this.hist, by rw [c2]; exact this.inv2, by rw [c2]; exact this.bal, ?_, ?_⟩
      · rw [c2]
        rcases c4 with ⟨_, _⟩ | ⟨_, _, c7⟩
        · intro k _; right; exact hall
        · rw [c7]; exact this.rstateN
      · rw [c2]; intro _; exact hall
    · intro u x hx
      rcases hx.hist with ⟨hist, h1, h1', h2⟩
      refine ⟨⟨histPush hist ((topo b).upsOf u) i (r.2.filterMap (wireAt i (outOf u i))),
        Lossy.rinv_pushWires x.con _ i _ hist h1, pushWires_idSeen _ _ _ _ _ h1', ?_⟩, pushWires_inv2 _ _ _ _ hx.inv2, ?_, ?_, ?_⟩
      · intro j w hjw
        unfold histPush at hjw
        split at hjw
        · rename_i hu
          rw [List.mem_append] at hjw
          rcases hjw with hjw | hjw
          · exact h2 j w hjw
          · rw [List.mem_filterMap] at hjw
            rcases hjw with ⟨o, ho, hwo⟩
            have hok : WireOK (topo b) tbl' w := by
              apply hwires
              rw [List.mem_filterMap]
              exact ⟨o, ho, wireAt_wireOf i _ o w hwo⟩
            refine ⟨hok.2.1, hok.1, ?_⟩
            intro hf
            refine ⟨i, hu, ?_⟩
            rw [hmem]; right
            cases o with
            | pub out f mid ts bal body =>
              simp only [wireAt] at hwo
              split at hwo
              · rename_i hc
                simp only [Option.some.injEq] at hwo
                subst hwo
                simp only
                rw [← hc.1]
                exact pubRecs_mem tbl' i r.2 out f mid ts bal body ho
              · cases hwo
            | hello out =>
              simp only [wireAt] at hwo
              split at hwo
              · simp only [Option.some.injEq] at hwo; subst hwo
                rcases hf with hf | hf
                · exact absurd rfl hf
                · exact absurd rfl hf
              · cases hwo
            | oob x => cases hwo
            | evaluated => cases hwo
            | ret n => cases hwo
            | retNone => cases hwo
        · exact h2 j w hjw
      · rw [pushWires_balance, pushWires_length]; exact hx.bal
      · intro k hk
        rcases hx.rstateN k hk with h3 | h3
        · left; exact h3
        · right; exact pushWires_allNone _ _ _ _ h3
      · intro hc; exact pushWires_allNone _ _ _ _ (hx.pendNone hc)
  · -- nodeS
    apply forall_deliverWires (fun u x => NodeS (L.app (sendLog tbl' i r.2)) u x) b st.nodes i r.2 nd _ hn
    · intro u x hu hui
      refine ⟨?_⟩
      intro rr hrr hru
      rcases (hmem rr).mp hrr with hrr | hrr
      · exact (h.nodeS u x hu).pubLt rr hrr hru
      · exact absurd ((hnewmid rr hrr).1.symm.trans hru).symm hui
    · refine ⟨?_⟩
      intro rr hrr hru
      rw [c1]
      rcases (hmem rr).mp hrr with hrr | hrr
      · have := hS.pubLt rr hrr hru; have := hfresh.1; omega
      · exact (hnewmid rr hrr).2.2.2
    · intro u x hx; exact ⟨hx.pubLt⟩
  · -- nodeH
    apply forall_deliverWires (fun u x => NodeH proc (L.app (sendLog tbl' i r.2)) u x) b st.nodes i r.2 nd _ hn
    · intro u x hu _
      have hx := h.nodeH u x hu
      refine ⟨?_, ?_, ?_⟩
      · intro y hy; simp only [Log.app, sendLog, List.append_nil] at hy; exact hx.handLe y hy
      · rw [handsOf_sendLog]; exact hx.count
      · rw [handsOf_sendLog]; exact hx.pend
    · refine ⟨?_, ?_, ?_⟩
      · intro y hy; simp only [Log.app, sendLog, List.append_nil] at hy; rw [c2]; exact hH.handLe y hy
      · rw [handsOf_sendLog, c2, c3]; exact hH.count
      · rw [handsOf_sendLog, c2, c3]
        intro hsn q hq
        rcases c4 with ⟨c5, _⟩ | ⟨c5, c6, _⟩
        · rw [c5] at hq; cases hq
        · rw [c5] at hq; rw [c6]; exact hH.pend hsn q hq
    · intro u x hx
      refine ⟨?_, ?_, ?_⟩
      · intro y hy hyu; rw [pushWires_prevId]; exact hx.handLe y hy hyu
      · intro hsn; exact hx.count (by intro hc; apply hsn; have := pushWires_length x.con ((topo b).upsOf u) i (r.2.filterMap (wireAt i (outOf u i))); rw [hc] at this; simpa using this)
      · intro hsn; exact hx.pend (by intro hc; apply hsn; have := pushWires_length x.con ((topo b).upsOf u) i (r.2.filterMap (wireAt i (outOf u i))); rw [hc] at this; simpa using this)
  · -- split
    intro nd0 h0
    have hP := forall_deliverWires (fun u x => u = 0 → x.pub.balance = true ∧ x.sendState = none) b st.nodes i r.2 nd
      (afterSend nd p r) hn (fun u x hu _ hu0 => h.split x (hu0 ▸ hu))
      (fun hc => by
        have ⟨s1, s2⟩ := h.split nd (hc ▸ hn)
        refine ⟨by rw [c1, hbal]; exact s1, ?_⟩
        rcases c4 with ⟨_, c6⟩ | ⟨_, c6, _⟩
        · exact c6
        · rw [c6]; exact s2)
      (fun u x hx hu0 => hx hu0)
    exact hP 0 nd0 h0 rfl
  · -- log
    refine ⟨?_, ?_, ?_, ?_, ?_⟩
    · -- one output per id at the splitter
      intro r1 hr1 r2 hr2 hn1 hn2 hmid
      rcases (hmem r1).mp hr1 with g1 | g1 <;> rcases (hmem r2).mp hr2 with g2 | g2
      · exact h.log.sOne r1 g1 r2 g2 hn1 hn2 hmid
      · exfalso
        have ⟨a1, a2, a3, _⟩ := hnewmid r2 g2
        have hi0 : i = 0 := a1.symm.trans hn2
        have := (h.nodeS i nd hn).pubLt r1 g1 (hn1.trans hi0.symm)
        omega
      · exfalso
        have ⟨a1, a2, a3, _⟩ := hnewmid r1 g1
        have hi0 : i = 0 := a1.symm.trans hn1
        have := (h.nodeS i nd hn).pubLt r2 g2 (hn2.trans hi0.symm)
        omega
      · have hi0 : i = 0 := (hnewmid r1 g1).1.symm.trans hn1
        rcases hnew r1 g1 with ⟨o, f, mid, ts, bal, body, hx, rfl⟩
        rcases hnew r2 g2 with ⟨o', f', mid', ts', bal', body', hx', rfl⟩
        exact hone (h.split nd (hi0 ▸ hn)).1 _ _ _ _ _ _ _ _ _ _ _ _ hx hx'
    · intro y hy
      simp only [Log.app, sendLog, List.append_nil] at hy
      exact handOK_mono b L _ y (fun rr hrr => (hmem rr).mpr (Or.inl hrr)) (h.log.handOK y hy)
    · -- a worker publishes what `process` made of the last handed set, under its id
      intro rr hrr h1' h2'
      rcases (hmem rr).mp hrr with hrr | hrr
      · exact pubOK_mono proc L _ rr (h.log.pubOK rr hrr h1' h2')
      · have hri := (hnewmid rr hrr).1
        rw [hri] at h1' h2'
        have hsn : nd.con.srcs ≠ [] := by
          have := hnd.shape
          rw [upsOf_worker b i h1' h2'] at this
          intro hc; rw [hc] at this; simp [ephs] at this
        rcases hH.pend hsn p hpend with ⟨hd, hlast, ⟨bl, hss⟩, hres⟩
        have hcnt := hH.count hsn
        rcases hnew rr hrr with ⟨o, f, mid, ts, bal, body, hx, rfl⟩
        have hmid : mid = hd.id := by
          have := (hgood _ hx).1
          rw [this]; simp only [callId, hss]
        refine ⟨nd.count - 1, hd, ?_, hmid.symm, ?_⟩
        · simp only
          rw [handsOf_sendLog, hcnt]
          exact getLast?_getElem? _ _ hlast
        · rcases hfull with ⟨_, _, hall⟩
          rcases (hall _ _ _ _ _ _ hx).2 with ⟨e1, _⟩ | ⟨tb, htb, e1, e2⟩
          · left; exact e1
          · right
            rcases plList_payloadOf st.tbl.length p.res tb htb with ⟨d, hd1, hd2⟩
            rcases relabel_mem d st.tbl.length tb hd2 with ⟨k, c, hk1, hk2⟩
            refine ⟨d, by simp only; rw [← hres]; exact hd1, (tb.1, c), List.mem_of_getElem? hk1, e1, ?_⟩
            simp only
            rw [e2, hk2, ← htbl]
            have hent : entriesOf p.res (sendOrigin i nd p) = d.map fun q => ({ content := q.2, orig := sendOrigin i nd p } : Entry) := by
              simp only [entriesOf, hd1, Option.getD_some]
            rw [hent]
            exact contentOf_entries st.tbl d _ k tb.1 c hk1
    · -- published ids never go down
      intro u
      rw [pubsOf_app, List.map_append, List.pairwise_append]
      refine ⟨h.log.pubsMono u, ?_, ?_⟩
      · apply pairwise_const
        intro x hx y hy
        rw [List.mem_map] at hx hy
        rcases hx with ⟨x', hx', rfl⟩
        rcases hy with ⟨y', hy', rfl⟩
        have hx'' : x' ∈ (sendLog tbl' i r.2).pubs := by simp only [pubsOf, List.mem_filter] at hx'; exact hx'.1
        have hy'' : y' ∈ (sendLog tbl' i r.2).pubs := by simp only [pubsOf, List.mem_filter] at hy'; exact hy'.1
        rw [(hnewmid x' hx'').2.1, (hnewmid y' hy'').2.1]
        exact Int.le_refl _
      · intro x hx y hy
        rw [List.mem_map] at hx hy
        rcases hx with ⟨x', hx', rfl⟩
        rcases hy with ⟨y', hy', rfl⟩
        have hx'' : x' ∈ L.pubs ∧ x'.node = u := by simp only [pubsOf, List.mem_filter, beq_iff_eq] at hx'; exact hx'
        have hy'' : y' ∈ (sendLog tbl' i r.2).pubs ∧ y'.node = u := by simp only [pubsOf, List.mem_filter, beq_iff_eq] at hy'; exact hy'
        have ⟨a1, _, a3, _⟩ := hnewmid y' hy''.1
        have hui : u = i := hy''.2.symm.trans a1
        subst hui
        have := hS.pubLt x' hx''.1 hx''.2
        omega
    · intro u; rw [handsOf_sendLog]; exact h.log.handsInc u

/-! ## the initial state, one step, a whole run -/

theorem nodeW_fresh (b : Nat) (ll : Nat → Bool) (tbl : List Entry) (L : Log) (i : Nat) (hi : i < b + 2) : NodeW b tbl L i (freshNode b ll i) := by
  have hfresh : Recv.FreshSrcs (((topo b).upsOf i).map fun _ => Recv.mkSrc 0 none) := by
    intro j s hj l hl
    rw [List.getElem?_map] at hj
    cases hu : ((topo b).upsOf i)[j]? with
    | none => rw [hu] at hj; cases hj
    | some u => rw [hu] at hj; cases hj; exact Recv.mkSrc_fresh 0 none l hl
  refine ⟨⟨fun _ => [], ⟨?_, ?_, ?_, ?_⟩, ?_, ?_⟩, ?_, ?_, (by intro k hk; cases hk), (by intro hc; cases hc)⟩
  · exact Recv.fresh_inv _ _ _ hfresh
  · apply Recv.prov_fresh _ _ _ hfresh
    intro s hs
    rw [List.mem_map] at hs
    rcases hs with ⟨u, _, rfl⟩; rfl
  · intro e he
    simp only [freshNode, Recv.mkSt, ephs, List.map_map, List.mem_map] at he
    rcases he with ⟨u, _, rfl⟩; rfl
  · intro j s hj l hl
    exact nel_noFrames l (hfresh j s hj l hl)
  · apply idSeen_fresh
    intro s hs
    rw [List.mem_map] at hs
    rcases hs with ⟨u, _, rfl⟩; rfl
  · intro j w hw; cases hw
  · exact Recv.fresh_inv2 _ _ _ hfresh
  · simp only [freshNode, Recv.mkSt, List.length_map]
    rcases node_cases b i with h0 | ⟨h1, h2⟩ | h3 | h4
    · right; subst h0; rw [upsOf_zero]; simp
    · right; rw [upsOf_worker b i h1 h2]; simp
    · left; subst h3; simp
    · omega

theorem inv_init (b : Nat) (ll : Nat → Bool) (proc : Proc) : Inv b proc (init b ll) Log.empty := by
  refine ⟨base_init b ll, ?_, ?_, ?_, ?_, ?_⟩
  · intro u nd hu
    have ⟨hlt, e⟩ := init_get b ll u nd hu
    subst e
    exact nodeW_fresh b ll _ _ u hlt
  · intro u nd _
    exact ⟨by intro r hr; cases hr⟩
  · intro u nd hu
    have ⟨_, e⟩ := init_get b ll u nd hu
    subst e
    refine ⟨(by intro y hy; cases hy), ?_, ?_⟩
    · intro _; rfl
    · intro _ p hp; cases hp
  · intro nd hu
    have ⟨_, e⟩ := init_get b ll 0 nd hu
    subst e
    exact ⟨rfl, rfl⟩
  · refine ⟨?_, ?_, ?_, ?_, ?_⟩
    · intro r hr; cases hr
    · intro y hy; cases hy
    · intro r hr; cases hr
    · intro u; exact List.Pairwise.nil
    · intro u; exact List.Pairwise.nil

/-- **the invariant is preserved by every event**; the log grows by what the event's observation shows -/
theorem inv_step (b : Nat) (proc : Proc) (hp : ProcOK proc) (st : St) (L : Log) (e : Ev) (hne : e.isRestart = false)
    (h : Inv b proc st L) :
    Inv b proc (step b proc st e).1 (L.app (logOf (step b proc st e).1.tbl e (step b proc st e).2)) := by
  have hb := base_step b proc hp st e hne h.base
  rcases step_cases b proc st e hne with hc | ⟨i, nd, he, hn, hpn, hs, hc⟩ | ⟨i, nd, he, hn, hpn, hs, hc⟩ |
      ⟨i, t, nd, p, he, hn, hpd, hc⟩ | ⟨i, t, nd, p, he, hn, hpd, _, hc⟩
  · rw [hc]; simp only [logOf_noop, app_empty]; exact h
  · subst he
    rw [hc] at hb ⊢
    have : logOf (recvSource proc st i nd).1.tbl (.nodeRecv i) (recvSource proc st i nd).2 = Log.empty := rfl
    rw [this, app_empty]
    exact inv_recvSource b proc st L i nd h hn hs hb
  · subst he
    rw [hc] at hb ⊢
    have : logOf (recvRelay b proc st i nd).1.tbl (.nodeRecv i) (recvRelay b proc st i nd).2 =
        recvLog st.tbl i (Recv.call0 nd.con nd.recvState (List.range nd.con.srcs.length)).2 := by
      unfold recvRelay; exact logOf_recvObs _ _ _ _
    rw [this]
    exact inv_recvRelay b proc hp st L i nd h hn hpn hs hb
  · subst he
    rw [hc] at hb ⊢
    have : logOf (sendSkip st i nd).1.tbl (.nodeSend i t) (sendSkip st i nd).2 = Log.empty := rfl
    rw [this, app_empty]
    exact inv_sendSkip b proc st L i nd h hn hb
  · subst he
    rw [hc] at hb ⊢
    exact inv_sendReal b proc st L i nd p t h hn hpd hb

theorem run_nil (b : Nat) (proc : Proc) (st : St) : run b proc st [] = (st, []) := rfl

theorem run_cons (b : Nat) (proc : Proc) (st : St) (e : Ev) (es : List Ev) :
    run b proc st (e :: es) = ((run b proc (step b proc st e).1 es).1, (step b proc st e).2 :: (run b proc (step b proc st e).1 es).2) := rfl

/-- **the invariant along every restart-free schedule** -/
theorem inv_run (b : Nat) (proc : Proc) (hp : ProcOK proc) : ∀ (evs : List Ev) (st : St) (L : Log),
    (∀ e ∈ evs, e.isRestart = false) → Inv b proc st L →
    Inv b proc (run b proc st evs).1 (L.app (runLog b proc st evs)) := by
  intro evs
  induction evs with
  | nil => intro st L _ h; simp only [run_nil, runLog, app_empty]; exact h
  | cons e es ih =>
    intro st L hnr h
    rw [run_cons]
    simp only [runLog]
    rw [← app_assoc]
    exact ih _ _ (fun x hx => hnr x (List.mem_cons_of_mem _ hx)) (inv_step b proc hp st L e (hnr e (List.mem_cons_self ..)) h)

theorem empty_app (a : Log) : Log.empty.app a = a := by
  simp [Log.app, Log.empty]

/-- every restart-free run from the initial state: the invariant holds of the final state and the log of the run -/
theorem inv_of_run (b : Nat) (ll : Nat → Bool) (proc : Proc) (hp : ProcOK proc) (evs : List Ev)
    (hnr : ∀ e ∈ evs, e.isRestart = false) :
    Inv b proc (run b proc (init b ll) evs).1 (runLog b proc (init b ll) evs) := by
  have := inv_run b proc hp evs (init b ll) Log.empty hnr (inv_init b ll proc)
  rw [empty_app] at this
  exact this

end OF.NetBal
