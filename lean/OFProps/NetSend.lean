import OFModel.Zmq.Net
import OFProps.SendLemmas
set_option linter.unusedSimpArgs false
/-!
# Sender side of the closed network (helper lemmas for `OFProps/C01Net.lean`)

One whole `send(payload, state, timeout=0)` (`Send.send0`) of ANY sender state that is not inside a call:
* the call is over afterwards (`send0_inCall`);
* every wire message it puts on a PUB socket carries the id of the call — `state.msg_id`, or the sender's own counter —
  the topic list of the payload, and as payload identity one of the payload's identities or `0` (the heartbeat)
  (`send0_pubs`).  This is `C03_id_carry` for a whole call, extended to topic list and payload.
-/
namespace OF.Net
open OF.Send (Payload Req Client)

/-- the dict a payload stands for -/
def plList : Payload → List (String × Nat)
  | .topics ts => ts
  | .deferred (some ts) => ts
  | .deferred none => []

/-- a published wire message of the call with id `k` and dict `L` -/
def PubGood (k : Int) (L : List (String × Nat)) : Send.Out → Prop
  | .pub _ f mid ts _ body => mid = k ∧ ts = L.map (·.1) ∧ ((body = 0 ∧ f = "//") ∨ body ∈ L.map (·.2))
  | _ => True

/-- the call in progress sends under id `k` the dict `L` -/
def CP (st : Send.St) (k : Int) (L : List (String × Nat)) : Prop := st.msgId = k ∧ plList st.payload = L

theorem onReq_keeps (st : Send.St) (j : Nat) (r : Req) (t : Int) :
    (Send.onReq st j r t).1.msgId = st.msgId ∧ (Send.onReq st j r t).1.payload = st.payload ∧
    ∀ o ∈ (Send.onReq st j r t).2.1, ∃ b, o = .oob b := by
  unfold Send.onReq
  simp only
  split
  · split
    · exact ⟨rfl, rfl, (by intro o ho; simp only [List.mem_singleton] at ho; exact ⟨_, ho⟩)⟩
    · split <;> exact ⟨rfl, rfl, (by intro o ho; cases ho)⟩
  · split
    · exact ⟨rfl, rfl, (by intro o ho; cases ho)⟩
    · split <;> exact ⟨rfl, rfl, (by intro o ho; cases ho)⟩

theorem handle_good (st : Send.St) (j : Nat) (t : Int) (k : Int) (L : List (String × Nat)) (h : CP st k L) :
    CP (Send.step st (.handle j t)).1 k L ∧ ∀ o ∈ (Send.step st (.handle j t)).2, PubGood k L o := by
  unfold Send.step Send.stepHandle
  simp only
  split
  · exact ⟨h, (by intro o ho; cases ho)⟩
  · split
    · exact ⟨h, (by intro o ho; cases ho)⟩
    · exact ⟨h, (by intro o ho; cases ho)⟩
    · rename_i r q _
      have ⟨a, b, c⟩ := onReq_keeps { st with queues := st.queues.set j q } j r t
      have hcp : CP (Send.onReq { st with queues := st.queues.set j q } j r t).1 k L := by
        unfold CP; rw [a, b]; exact h
      split
      · refine ⟨(by unfold Send.endCall; exact hcp), ?_⟩
        intro o ho
        rw [List.mem_append] at ho
        rcases ho with ho | ho
        · rcases c o ho with ⟨b', rfl⟩; trivial
        · unfold Send.endCall at ho; simp only [List.mem_singleton] at ho; subst ho; trivial
      · refine ⟨hcp, ?_⟩
        intro o ho
        rcases c o ho with ⟨b', rfl⟩; trivial

theorem publish_good (st : Send.St) (ts : List (String × Nat)) :
    ∀ o ∈ (Send.publish st ts).2, PubGood st.msgId ts o := by
  intro o ho
  unfold Send.publish at ho
  simp only [List.mem_append] at ho
  rcases ho with h | h
  · rw [List.mem_flatMap] at h
    rcases h with ⟨⟨t, b⟩, htb, h2⟩
    rw [List.mem_map] at h2
    rcases h2 with ⟨_, _, rfl⟩
    exact ⟨rfl, rfl, Or.inr (List.mem_map.mpr ⟨(t, b), htb, rfl⟩)⟩
  · rw [List.mem_map] at h
    rcases h with ⟨_, _, rfl⟩
    exact ⟨rfl, rfl, Or.inl ⟨rfl, rfl⟩⟩

theorem sendMaybe_good (st : Send.St) (k : Int) (L : List (String × Nat)) (h : CP st k L) :
    CP (Send.sendMaybe st).1 k L ∧ ∀ o ∈ (Send.sendMaybe st).2.1, PubGood k L o := by
  have hgate : plList (Send.gate st).2.1 = L ∧ (∀ o ∈ (Send.gate st).2.2, o = .evaluated) ∧
      ((Send.gate st).1 = none → Send.payloadTopics (Send.gate st).2.1 = L) := by
    unfold Send.gate
    split
    · exact ⟨h.2, (by intro o ho; cases ho), (by intro hc; cases hc)⟩
    · split
      · rename_i ts hp
        refine ⟨h.2, (by intro o ho; cases ho), ?_⟩
        intro _; have := h.2; rw [hp] at this; simp only [hp, Send.payloadTopics]; exact this
      · rename_i hp
        exact ⟨(by have := h.2; rw [hp] at this; exact this), (by intro o ho; simp only [List.mem_singleton] at ho; exact ho),
          (by intro hc; cases hc)⟩
      · rename_i ts hp
        refine ⟨(by have := h.2; rw [hp] at this; exact this), (by intro o ho; simp only [List.mem_singleton] at ho; exact ho), ?_⟩
        intro _; have := h.2; rw [hp] at this; exact this
  have hhello : ∀ r, ∀ o ∈ Send.helloOuts st r, PubGood k L o := by
    intro r o ho
    unfold Send.helloOuts at ho
    split at ho
    · rw [List.mem_map] at ho; rcases ho with ⟨_, _, rfl⟩; trivial
    · cases ho
  unfold Send.sendMaybe
  simp only
  split
  · rename_i r hg
    refine ⟨⟨h.1, hgate.1⟩, ?_⟩
    intro o ho
    rw [List.mem_append] at ho
    rcases ho with ho | ho
    · rw [hgate.2.1 o ho]; trivial
    · exact hhello _ o ho
  · rename_i hg
    have hts := hgate.2.2 hg
    refine ⟨?_, ?_⟩
    · unfold Send.publish CP; simp only; exact ⟨h.1, hgate.1⟩
    · intro o ho
      rw [List.mem_append, List.mem_append] at ho
      rcases ho with (ho | ho) | ho
      · rw [hgate.2.1 o ho]; trivial
      · exact hhello _ o ho
      · have := publish_good { st with doHello := false, payload := (Send.gate st).2.1 } (Send.payloadTopics (Send.gate st).2.1) o ho
        rw [hts] at this
        simp only at this
        rw [h.1] at this
        exact this

theorem trySend_good (st : Send.St) (k : Int) (L : List (String × Nat)) (h : CP st k L) :
    CP (Send.step st .trySend).1 k L ∧ ∀ o ∈ (Send.step st .trySend).2, PubGood k L o := by
  have ⟨a, b⟩ := sendMaybe_good st k L h
  unfold Send.step Send.stepTrySend
  simp only
  split
  · exact ⟨h, (by intro o ho; cases ho)⟩
  · split
    · refine ⟨(by unfold Send.endCall; exact a), ?_⟩
      intro o ho
      rw [List.mem_append] at ho
      rcases ho with ho | ho
      · exact b o ho
      · unfold Send.endCall at ho; simp only [List.mem_singleton] at ho; subst ho; trivial
    · exact ⟨a, b⟩

theorem timeout_good (st : Send.St) (k : Int) (L : List (String × Nat)) :
    ∀ o ∈ (Send.step st .timeout).2, PubGood k L o := by
  intro o ho
  unfold Send.step Send.stepTimeout at ho
  simp only at ho
  split at ho
  · cases ho
  · simp only [List.mem_singleton] at ho; subst ho; trivial

theorem drain_good : ∀ (f : Nat) (st : Send.St) (prio : List Nat) (t : Int) (k : Int) (L : List (String × Nat)), CP st k L →
    CP (Send.drain f st prio t).1 k L ∧ ∀ o ∈ (Send.drain f st prio t).2, PubGood k L o := by
  intro f
  induction f with
  | zero => intro st prio t k L h; exact ⟨h, (by intro o ho; cases ho)⟩
  | succ f ih =>
    intro st prio t k L h
    unfold Send.drain
    split
    · exact ⟨h, (by intro o ho; cases ho)⟩
    · split
      · exact ⟨h, (by intro o ho; cases ho)⟩
      · rename_i j _
        have ⟨a, b⟩ := handle_good st j t k L h
        cases hs : Send.step st (.handle j t) with
        | mk st' o =>
          rw [hs] at a b
          have ⟨a2, b2⟩ := ih st' prio t k L a
          simp only
          refine ⟨a2, ?_⟩
          intro x hx
          rw [List.mem_append] at hx
          rcases hx with hx | hx
          · exact b x hx
          · exact b2 x hx

/-- the id a call sends under -/
def callId (st : Send.St) : Option (Int × Nat) → Int
  | none => st.minSendId
  | some (k, _) => k

/-- **every wire message of one `send(payload, state, 0)` carries the id of the call, the payload's topic list, and one of
the payload's identities (or 0: the heartbeat)** -/
theorem send0_pubs (st : Send.St) (state : Option (Int × Nat)) (pl : Payload) (push : Bool) (prio : List Nat) (t : Int)
    (hin : st.inCall = false) :
    ∀ o ∈ (Send.send0 st state pl push prio t).2, PubGood (callId st state) (plList pl) o := by
  have hbeg : (∀ o ∈ (Send.step st (.begin state pl push)).2, PubGood (callId st state) (plList pl) o) ∧
      ((Send.step st (.begin state pl push)).1.inCall = true → CP (Send.step st (.begin state pl push)).1 (callId st state) (plList pl)) := by
    unfold Send.step Send.stepBegin
    simp only [hin, Bool.false_eq_true, ↓reduceIte]
    cases state with
    | none => exact ⟨(by intro o ho; cases ho), fun _ => ⟨rfl, rfl⟩⟩
    | some kb =>
      rcases kb with ⟨k, b⟩
      simp only
      split
      · refine ⟨(by intro o ho; simp only [List.mem_singleton] at ho; subst ho; trivial), ?_⟩
        intro hc; rw [hin] at hc; cases hc
      · exact ⟨(by intro o ho; cases ho), fun _ => ⟨rfl, rfl⟩⟩
  unfold Send.send0
  cases h0 : Send.step st (.begin state pl push) with
  | mk st0 o0 =>
    rw [h0] at hbeg
    simp only at hbeg ⊢
    split
    · exact hbeg.1
    · rename_i hc0
      have hcp0 := hbeg.2 (by simpa using hc0)
      have ⟨hcp1, g1⟩ := drain_good (Send.totalQueued st0 + 1) st0 prio t _ _ hcp0
      cases h1 : Send.drain (Send.totalQueued st0 + 1) st0 prio t with
      | mk st1 o1 =>
        rw [h1] at hcp1 g1
        simp only at hcp1 g1 ⊢
        have g01 : ∀ o ∈ o0 ++ o1, PubGood (callId st state) (plList pl) o := by
          intro o ho; rw [List.mem_append] at ho
          rcases ho with ho | ho
          · exact hbeg.1 o ho
          · exact g1 o ho
        split
        · exact g01
        · have ⟨hcp2, g2⟩ := trySend_good st1 _ _ hcp1
          cases h2 : Send.step st1 .trySend with
          | mk st2 o2 =>
            rw [h2] at hcp2 g2
            simp only at hcp2 g2 ⊢
            have g012 : ∀ o ∈ o0 ++ o1 ++ o2, PubGood (callId st state) (plList pl) o := by
              intro o ho; rw [List.mem_append] at ho
              rcases ho with ho | ho
              · exact g01 o ho
              · exact g2 o ho
            split
            · exact g012
            · cases h3 : Send.step st2 .timeout with
              | mk st3 o3 =>
                simp only
                intro o ho; rw [List.mem_append] at ho
                rcases ho with ho | ho
                · exact g012 o ho
                · have := timeout_good st2 (callId st state) (plList pl) o
                  rw [h3] at this
                  exact this ho

/-- after `send(…, timeout=0)` the sender is not inside a call -/
theorem send0_inCall (st : Send.St) (state : Option (Int × Nat)) (pl : Payload) (push : Bool) (prio : List Nat) (t : Int) :
    (Send.send0 st state pl push prio t).1.inCall = false := by
  unfold Send.send0
  cases h0 : Send.step st (.begin state pl push) with
  | mk st0 o0 =>
    simp only
    split
    · rename_i h; simpa using h
    · cases h1 : Send.drain (Send.totalQueued st0 + 1) st0 prio t with
      | mk st1 o1 =>
        simp only
        split
        · rename_i h; simpa using h
        · cases h2 : Send.step st1 .trySend with
          | mk st2 o2 =>
            simp only
            split
            · rename_i h; simpa using h
            · rename_i h
              have hi : st2.inCall = true := by simpa using h
              simp only [Send.step, Send.stepTimeout, hi, not_true_eq_false, ↓reduceIte]

/-! ## `send0` as a run of the sender event machine -/

theorem srun_foldl (evs : List Send.Ev) : ∀ (st : Send.St) (o : List Send.Out),
    evs.foldl (fun (acc : Send.St × List Send.Out) e => let (s, o) := Send.step acc.1 e; (s, acc.2 ++ o)) (st, o) =
      ((Send.run st evs).1, o ++ (Send.run st evs).2) := by
  induction evs with
  | nil => intro st o; simp [Send.run]
  | cons e es ih =>
    intro st o
    simp only [List.foldl_cons, Send.run]
    rw [ih, ih (Send.step st e).1 ([] ++ (Send.step st e).2)]
    simp [List.append_assoc]

theorem srun_cons (st : Send.St) (e : Send.Ev) (es : List Send.Ev) :
    Send.run st (e :: es) = ((Send.run (Send.step st e).1 es).1, (Send.step st e).2 ++ (Send.run (Send.step st e).1 es).2) := by
  simp only [Send.run, List.foldl_cons]
  rw [srun_foldl]
  simp [Send.run]

theorem srun_nil (st : Send.St) : Send.run st [] = (st, []) := rfl

theorem srun_append (st : Send.St) (a b : List Send.Ev) :
    Send.run st (a ++ b) = ((Send.run (Send.run st a).1 b).1, (Send.run st a).2 ++ (Send.run (Send.run st a).1 b).2) := by
  induction a generalizing st with
  | nil => simp [srun_nil]
  | cons e es ih => rw [List.cons_append, srun_cons, ih, srun_cons]; simp [List.append_assoc]

/-- `while res := poll_recv(0): pass` is a run of `handle` events -/
theorem drain_as_run : ∀ (f : Nat) (st : Send.St) (prio : List Nat) (t : Int), ∃ evs, Send.drain f st prio t = Send.run st evs := by
  intro f
  induction f with
  | zero => intro st prio t; exact ⟨[], rfl⟩
  | succ f ih =>
    intro st prio t
    unfold Send.drain
    split
    · exact ⟨[], rfl⟩
    · split
      · exact ⟨[], rfl⟩
      · rename_i j _
        cases hs : Send.step st (.handle j t) with
        | mk st' o =>
          have ⟨evs, h⟩ := ih st' prio t
          refine ⟨.handle j t :: evs, ?_⟩
          simp only
          rw [srun_cons, hs, ← h]

/-- **one `send(payload, state, timeout=0)` of any sender is a run of the sender event machine** (`begin, handle*, trySend,
timeout`, cut where the call ends), so the sender theorems for arbitrary event sequences (`step_pub`,
`C02_sender_ids_increasing`, `C03_id_carry`, …) apply to every node of the closed network -/
theorem send0_as_run (st : Send.St) (state : Option (Int × Nat)) (pl : Payload) (push : Bool) (prio : List Nat) (t : Int) :
    ∃ evs, Send.send0 st state pl push prio t = Send.run st evs := by
  unfold Send.send0
  cases h0 : Send.step st (.begin state pl push) with
  | mk st0 o0 =>
    simp only
    split
    · refine ⟨[.begin state pl push], ?_⟩
      rw [srun_cons, h0, srun_nil]; simp
    · have ⟨ev1, h1⟩ := drain_as_run (Send.totalQueued st0 + 1) st0 prio t
      cases hd : Send.drain (Send.totalQueued st0 + 1) st0 prio t with
      | mk st1 o1 =>
        rw [hd] at h1
        simp only
        split
        · refine ⟨.begin state pl push :: ev1, ?_⟩
          rw [srun_cons, h0, ← h1]
        · cases h2 : Send.step st1 .trySend with
          | mk st2 o2 =>
            simp only
            split
            · refine ⟨.begin state pl push :: (ev1 ++ [.trySend]), ?_⟩
              rw [srun_cons, h0, srun_append, ← h1, srun_cons, h2, srun_nil]; simp
            · cases h3 : Send.step st2 .timeout with
              | mk st3 o3 =>
                simp only
                refine ⟨.begin state pl push :: (ev1 ++ [.trySend, .timeout]), ?_⟩
                rw [srun_cons, h0, srun_append, ← h1, srun_cons, h2, srun_cons, h3, srun_nil]; simp

/-- over any run of sender events: `min_send_id` never decreases and every published id lies between its value before
and its value after (run form of `step_pub`) -/
theorem run_pub : ∀ (evs : List Send.Ev) (st : Send.St), Send.SInv st →
    Send.SInv (Send.run st evs).1 ∧ st.minSendId ≤ (Send.run st evs).1.minSendId ∧
    ∀ x ∈ Send.pubMids (Send.run st evs).2, st.minSendId ≤ x ∧ x < (Send.run st evs).1.minSendId := by
  intro evs
  induction evs with
  | nil => intro st h; exact ⟨h, Int.le_refl _, by intro x hx; cases hx⟩
  | cons e es ih =>
    intro st h
    have ⟨h1, h2, h3, _⟩ := Send.step_pub st e h
    have ⟨i1, i2, i3⟩ := ih _ h1
    rw [srun_cons]
    refine ⟨i1, Int.le_trans h2 i2, ?_⟩
    intro x hx
    simp only at hx
    rw [Send.pubMids_append, List.mem_append] at hx
    rcases hx with hx | hx
    · have := h3 x hx; simp only; omega
    · have := i3 x hx; simp only; omega

/-- one whole `send(…, 0)`: ids published lie in `[min_send_id before, min_send_id after)` -/
theorem send0_fresh (st : Send.St) (state : Option (Int × Nat)) (pl : Payload) (push : Bool) (prio : List Nat) (t : Int)
    (hin : st.inCall = false) :
    st.minSendId ≤ (Send.send0 st state pl push prio t).1.minSendId ∧
    ∀ x ∈ Send.pubMids (Send.send0 st state pl push prio t).2,
      st.minSendId ≤ x ∧ x < (Send.send0 st state pl push prio t).1.minSendId := by
  have ⟨evs, h⟩ := send0_as_run st state pl push prio t
  rw [h]
  have := run_pub evs st (by intro hc; rw [hin] at hc; cases hc)
  exact ⟨this.2.1, this.2.2⟩

end OF.Net
