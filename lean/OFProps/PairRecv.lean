import OFModel.Zmq.Pair
import OFProps.RecvMono
set_option linter.unusedSimpArgs false
/-!
# Consumer side of the closed pair (helper lemmas for `OFProps/C06Live.lean`)

`Recv.call0 c none [0]` analysed for the consumer of `OFModel/Zmq/Pair.lean`: a single synchronised all-topics source.
-/
namespace OF.Pair
open OF OF.Recv

/-- keys of a buffer are distinct -/
def KeysNodup (r : Option Recvd) : Prop := ∀ l, r = some l → (l.map (·.1)).Nodup

/-- static shape of the source: synchronised, subscribed to all (non-hidden) topics -/
structure SrcShape (s : Src) : Prop where
  eph : s.eph = 0
  subAll : s.subAll = true
  star : s.star = false
  subs : s.subs = []

/-- fields of the consumer that never change -/
structure ConStatic (c : Recv.St) : Prop where
  dead : c.dead = false
  balance : c.balance = false
  lowLat : c.lowLat = false

/-- the consumer between two `recv` calls: one registered source with an incomplete (possibly empty) buffer -/
structure Idle (c : Recv.St) (s : Src) : Prop where
  srcs : c.srcs = [s]
  shape : SrcShape s
  static : ConStatic c
  reg : s.reg = true
  notAll : gotAll s = false
  keys : KeysNodup s.recvd
  inCall : c.inCall = false
  prev : -1 ≤ c.prevId

/-- the consumer inside a call, before a poll -/
structure Busy (c : Recv.St) (s : Src) : Prop where
  srcs : c.srcs = [s]
  shape : SrcShape s
  static : ConStatic c
  reg : s.reg = true
  notAll : gotAll s = false
  keys : KeysNodup s.recvd
  inCall : c.inCall = true
  prev : -1 ≤ c.prevId
  mono : c.prevId + 1 ≤ c.minRecvId

/-- the consumer inside a call with a complete set (about to return) -/
structure Done (c : Recv.St) (s : Src) : Prop where
  srcs : c.srcs = [s]
  shape : SrcShape s
  static : ConStatic c
  reg : s.reg = false
  all : gotAll s = true
  keys : KeysNodup s.recvd
  inCall : c.inCall = true
  prev : -1 ≤ c.prevId
  mono : c.prevId + 1 ≤ c.minRecvId

/-! ### small facts -/

theorem got_all_iff (s : Src) : got s = .all ↔ gotAll s = true := by
  unfold got gotAll
  cases s.recvd with
  | none => simp
  | some l =>
    simp only
    constructor
    · intro h
      split at h
      · rename_i h0
        rw [List.all_eq_true]
        intro p hp
        cases hv : p.2 with
        | some _ => rfl
        | none =>
          have : p ∈ l.filter (fun p => p.2.isNone) := List.mem_filter.mpr ⟨hp, by simp [hv]⟩
          rw [List.length_eq_zero_iff.mp h0] at this
          cases this
      · split at h <;> cases h
    · intro h
      have : (l.filter (fun p => p.2.isNone)) = [] := by
        rw [List.filter_eq_nil_iff]
        intro p hp
        have := (List.all_eq_true.mp h) p hp
        cases hv : p.2 with
        | some _ => simp
        | none => rw [hv] at this; cases this
      simp [this]

theorem returnCond_single (c : Recv.St) (s : Src) (hs : c.srcs = [s]) (he : s.eph = 0) (hb : c.balance = false)
    (hr : s.reg = !gotAll s) : returnCond c = gotAll s := by
  unfold returnCond pending
  rw [hs]
  cases hg : gotAll s with
  | true =>
    have h1 : got s = .all := (got_all_iff s).mpr hg
    have h2 : s.reg = false := by rw [hr, hg]; rfl
    simp [scanGot, h1, h2]
  | false =>
    have h1 : got s ≠ .all := fun h => by rw [(got_all_iff s).mp h] at hg; cases hg
    cases hgs : got s with
    | all => exact absurd hgs h1
    | some => simp [scanGot, hgs]
    | none => simp [scanGot, hgs, he, hb]

theorem requests_single (c : Recv.St) (s : Src) (hs : c.srcs = [s]) (he : s.eph = 0) (k : Int) :
    requests c k = [.req 0 k 0 (!s.conn)] := by
  unfold requests
  rw [hs]
  simp [he]

/-! ### buffers keep distinct keys; the result dict can always be assembled -/

theorem dset_keys (d : Recvd) (k : Topic) (v : Option Msg) :
    (dset d k v).map (·.1) = if d.any (·.1 == k) then d.map (·.1) else d.map (·.1) ++ [k] := by
  unfold dset
  split
  · rw [List.map_map]
    apply List.map_congr_left
    intro p _
    simp only [Function.comp]
    split
    · rename_i h; exact (beq_iff_eq.mp h).symm
    · rfl
  · simp

theorem dset_nodup (d : Recvd) (k : Topic) (v : Option Msg) (h : (d.map (·.1)).Nodup) :
    ((dset d k v).map (·.1)).Nodup := by
  rw [dset_keys]
  split
  · exact h
  · rename_i hk
    rw [List.nodup_append]
    refine ⟨h, by simp, ?_⟩
    intro a ha b hb
    simp only [List.mem_singleton] at hb
    subst hb
    intro heq
    subst heq
    apply hk
    rw [List.any_eq_true]
    rw [List.mem_map] at ha
    rcases ha with ⟨p, hp, rfl⟩
    exact ⟨p, hp, by simp⟩

theorem initRecvd_nodup (s : Src) (m : Msg) (topics : List Topic) : ((initRecvd s m topics).map (·.1)).Nodup := by
  unfold initRecvd
  generalize (topics.filter _) = ts
  suffices h : ∀ (d : Recvd), (d.map (·.1)).Nodup →
      ((ts.foldl (fun d t => dset d t (if t == m.topic then some m else none)) d).map (·.1)).Nodup from
    h [] List.nodup_nil
  induction ts with
  | nil => intro d hd; simpa using hd
  | cons t ts ih =>
    intro d hd
    simp only [List.foldl_cons]
    exact ih _ (dset_nodup _ _ _ hd)


theorem assemble_ok : ∀ (xs acc : List (Topic × Msg)), (xs.map (·.1)).Nodup →
    (∀ x ∈ xs, ∀ a ∈ acc, a.1 ≠ x.1) → assemble xs acc = .inr (acc ++ xs) := by
  intro xs
  induction xs with
  | nil => intro acc _ _; simp [assemble]
  | cons x xs ih =>
    intro acc hn hd
    rcases x with ⟨t, m⟩
    unfold assemble
    have h1 : acc.any (·.1 == t) = false := by
      rw [List.any_eq_false]
      intro a ha
      have := hd (t, m) (List.mem_cons_self ..) a ha
      simpa using this
    simp only [h1, Bool.false_eq_true, ↓reduceIte]
    rw [List.map_cons, List.nodup_cons] at hn
    rw [ih (acc ++ [(t, m)]) hn.2]
    · simp
    · intro y hy a ha
      rw [List.mem_append] at ha
      rcases ha with ha | ha
      · exact hd y (List.mem_cons_of_mem _ hy) a ha
      · simp only [List.mem_singleton] at ha
        subst ha
        intro heq
        apply hn.1
        simp only at heq
        rw [heq]
        exact List.mem_map.mpr ⟨y, hy, rfl⟩

theorem srcFrames_keys (s : Src) (hs : s.subs = []) (hk : KeysNodup s.recvd) :
    ((srcFrames s).map (·.1)).Nodup := by
  unfold srcFrames
  cases hr : s.recvd with
  | none => simp
  | some l =>
    simp only
    have hl := hk l hr
    rw [hs]
    clear hr hk
    induction l with
    | nil => simp
    | cons p ps ih =>
      rcases p with ⟨t, v⟩
      rw [List.map_cons, List.nodup_cons] at hl
      cases v with
      | none => simpa [List.filterMap_cons] using ih hl.2
      | some m =>
        simp only [List.filterMap_cons, List.find?_nil, Option.map_none, Option.getD_none, Option.map_some,
          List.map_cons, List.nodup_cons]
        refine ⟨?_, ih hl.2⟩
        intro hmem
        apply hl.1
        rw [List.mem_map] at hmem ⊢
        rcases hmem with ⟨⟨t', m'⟩, h1, h2⟩
        rw [List.mem_filterMap] at h1
        rcases h1 with ⟨⟨t'', v''⟩, h3, h4⟩
        cases v'' with
        | none => simp at h4
        | some m'' =>
          simp only [List.find?_nil, Option.map_none, Option.getD_none, Option.map_some, Option.some.injEq, Prod.mk.injEq] at h4
          exact ⟨(t'', some m''), h3, by simp only at h2 ⊢; rw [h4.1]; exact h2⟩

/-! ### one take, one `recv_once(0)` -/

theorem processMsg_keys (s : Src) (m : Msg) (topics : List Topic) (k : Int) (hsub : s.subAll = true)
    (hk : KeysNodup s.recvd) : KeysNodup (processMsg s m topics k).2 := by
  intro l hl
  unfold processMsg at hl
  split at hl
  · exact hk l hl
  · split at hl
    · cases hl; exact initRecvd_nodup s m topics
    · rename_i l0 hl0
      split at hl
      · cases hl
        split
        · exact dset_nodup _ _ _ (hk l0 hl0)
        · exact hk l0 hl0
      · cases hl
        unfold newRecvWith recvdNew
        simp only [hsub, ↓reduceIte]
        exact initRecvd_nodup s m topics

theorem gotAll_congr (s t : Src) (h : s.recvd = t.recvd) : gotAll s = gotAll t := by
  unfold gotAll; rw [h]

theorem processMsg_older_lt (s : Src) (m : Msg) (topics : List Topic) (k : Int)
    (h : (processMsg s m topics k).1 = .older) : m.mid < k := by
  rcases processMsg_cases s m topics k with ⟨_, h1⟩ | ⟨h1, _⟩ | ⟨h1, _⟩
  · exact h1
  · rw [h1] at h; cases h
  · rw [h1] at h; cases h

theorem storeRecvd_spec (s : Src) (r : Option Recvd) (topics : List Topic) (hsub : s.subAll = true) (hreg : s.reg = true) :
    (storeRecvd s r topics).recvd = r ∧ (storeRecvd s r topics).reg = !gotAll (storeRecvd s r topics) ∧
    (storeRecvd s r topics).queue = s.queue ∧ (storeRecvd s r topics).conn = s.conn ∧
    (storeRecvd s r topics).eph = s.eph ∧ (storeRecvd s r topics).subAll = s.subAll ∧
    (storeRecvd s r topics).star = s.star ∧ (storeRecvd s r topics).subs = s.subs := by
  have hp : r.map (fun r => prune s r topics) = r := by
    cases r with
    | none => rfl
    | some l => simp [prune, hsub]
  unfold storeRecvd
  simp only [hp]
  split
  · rename_i hg
    refine ⟨rfl, ?_, rfl, rfl, rfl, rfl, rfl, rfl⟩
    rw [gotAll_congr { s with recvd := r, reg := false } { s with recvd := r } rfl, hg]; rfl
  · rename_i hg
    refine ⟨rfl, ?_, rfl, rfl, rfl, rfl, rfl, rfl⟩
    simp only [Bool.not_eq_true] at hg
    show s.reg = !gotAll { s with recvd := r }
    rw [hg]; exact hreg


/-- outputs that are neither a returned set nor a request -/
def Quiet (os : List Recv.Out) : Prop := retIds os = [] ∧ ∀ u, os.filterMap (reqOf u) = []

theorem quiet_nil : Quiet [] := ⟨rfl, fun _ => rfl⟩

theorem quiet_append (a b : List Recv.Out) (ha : Quiet a) (hb : Quiet b) : Quiet (a ++ b) := by
  refine ⟨by rw [retIds_append, ha.1, hb.1]; rfl, ?_⟩
  intro u; rw [List.filterMap_append, ha.2 u, hb.2 u]; rfl

/-- what one take leaves behind -/
structure Took (c c1 : Recv.St) (w : Wire) (rest : List Wire) (s1 : Src) : Prop where
  srcs : c1.srcs = [s1]
  shape : SrcShape s1
  static : ConStatic c1
  queue : s1.queue = rest
  reg : s1.reg = !gotAll s1
  keys : KeysNodup s1.recvd
  conn : s1.conn = decide (w.mid ≠ OF.Facts.MSG_ID_CLOSE)
  inCall : c1.inCall = true
  prev : c1.prevId = c.prevId
  mono : c.minRecvId ≤ c1.minRecvId
  ge : OF.Facts.MSG_ID_SPECIAL < w.mid → w.mid ≤ c1.minRecvId
  val : c1.minRecvId = c.minRecvId ∨ c1.minRecvId = w.mid
  fresh : gotAll s1 = true → c1.minRecvId = w.mid

theorem onTake_busy (c : Recv.St) (s : Src) (w : Wire) (rest : List Wire) (h : Busy c s) (hq : s.queue = w :: rest) :
    (∃ s1, Took c (onTake c 0).1 w rest s1) ∧ Quiet (onTake c 0).2.1 := by
  have hs0 : c.srcs[0]? = some s := by rw [h.srcs]; rfl
  unfold onTake
  simp only [hs0, hq]
  have hbal : (if s.eph = 0 then w.bal else 0) = w.bal := by simp [h.shape.eph]
  rw [hbal]
  generalize hst1 : (if w.bal ≠ 0 then { c with balanced := w.bal } else c) = c1
  have e : c1.srcs = c.srcs ∧ c1.prevId = c.prevId ∧ c1.inCall = c.inCall ∧ c1.dead = c.dead ∧
      c1.minRecvId = c.minRecvId ∧ c1.balance = c.balance ∧ c1.lowLat = c.lowLat := by
    subst hst1; by_cases hb : w.bal ≠ 0 <;> simp [hb]
  have hreg0 : ∀ (cn : Bool) (mi : Int), ({ s with queue := rest, conn := cn, minId := mi } : Src).reg =
      !gotAll { s with queue := rest, conn := cn, minId := mi } := by
    intro cn mi
    have hg : gotAll ({ s with queue := rest, conn := cn, minId := mi } : Src) = false :=
      (gotAll_congr _ s rfl).trans h.notAll
    rw [hg]; exact h.reg
  have hna0 : ∀ (cn : Bool) (mi : Int), gotAll ({ s with queue := rest, conn := cn, minId := mi } : Src) = true →
      c.minRecvId = w.mid := by
    intro cn mi hgt
    have hg : gotAll ({ s with queue := rest, conn := cn, minId := mi } : Src) = false :=
      (gotAll_congr _ s rfl).trans h.notAll
    rw [hg] at hgt; cases hgt
  rcases e with ⟨e1, e2, e3, e4, e5, e6, e7⟩
  have hset : ∀ x : Src, c1.srcs.set 0 x = [x] := by intro x; rw [e1, h.srcs]; rfl
  have hstat : ∀ (x : List Src) (k : Int), ConStatic { c1 with srcs := x, minRecvId := k } := by
    intro x k; exact ⟨by simp only; rw [e4]; exact h.static.dead, by simp only; rw [e6]; exact h.static.balance,
      by simp only; rw [e7]; exact h.static.lowLat⟩
  have hshape : SrcShape { s with queue := rest, conn := true } := ⟨h.shape.eph, h.shape.subAll, h.shape.star, h.shape.subs⟩
  split
  · -- special
    rename_i hsp
    unfold takeSpecial
    split
    · rename_i hoob
      refine ⟨⟨_, hset _, hshape, hstat _ _, rfl, ?_, h.keys, ?_, by simp only; rw [e3]; exact h.inCall, e2, by simp only; omega,
        fun hh => absurd hsp (by omega), Or.inl e5, fun hg => by simp only; rw [e5]; exact hna0 _ _ hg⟩, rfl, fun _ => rfl⟩
      · exact hreg0 _ _
      · simp only; rw [hoob]; decide
    · split
      · rename_i hcl
        refine ⟨⟨_, hset _, ⟨h.shape.eph, h.shape.subAll, h.shape.star, h.shape.subs⟩, hstat _ _, rfl, ?_, h.keys, ?_,
          by simp only; rw [e3]; exact h.inCall, e2, by simp only; omega, fun hh => absurd hsp (by omega), Or.inl e5,
          fun hg => by simp only; rw [e5]; exact hna0 _ _ hg⟩, rfl, fun _ => rfl⟩
        · exact hreg0 _ _
        · simp only; rw [hcl]; decide
      · rename_i hoob hcl
        refine ⟨⟨_, hset _, hshape, hstat _ _, rfl, ?_, h.keys, ?_, by simp only; rw [e3]; exact h.inCall, e2, by simp only; omega,
          fun hh => absurd hsp (by omega), Or.inl e5, fun hg => by simp only; rw [e5]; exact hna0 _ _ hg⟩, rfl, fun _ => rfl⟩
        · exact hreg0 _ _
        · simp only; simp [hcl]
  · rename_i hdata
    have hncl : w.mid ≠ OF.Facts.MSG_ID_CLOSE := by
      intro hc; apply hdata; rw [hc]; decide
    split
    · rename_i hne; exact absurd h.shape.eph hne
    unfold takeSync
    split
    · -- older
      rename_i r0 heq0
      have hlt : w.mid < c1.minRecvId := processMsg_older_lt _ _ _ _ (by rw [heq0])
      refine ⟨⟨_, hset _, hshape, hstat _ _, rfl, ?_, h.keys, ?_, by simp only; rw [e3]; exact h.inCall, e2, by simp only; omega,
        fun _ => by simp only; omega, Or.inl e5, fun hg => by simp only; rw [e5]; exact hna0 _ _ hg⟩, rfl, fun _ => rfl⟩
      · exact hreg0 _ _
      · simp only; simp [hncl]
    · rename_i x res r hno heq
      have hge : c1.minRecvId ≤ w.mid := processMsg_not_older _ _ _ _ (by rw [heq]; exact fun hh => hno hh)
      have hk : KeysNodup r := by
        have := processMsg_keys { s with queue := rest, conn := true }
          { mid := w.mid, topic := effTopic s.subAll s.subs (decodeTopic w.frame0), body := w.body, src := 0 }
          w.topics c1.minRecvId h.shape.subAll h.keys
        rw [heq] at this; exact this
      have hst := storeRecvd_spec { s with queue := rest, conn := true } r w.topics h.shape.subAll h.reg
      unfold syncApply
      simp only [e6, h.static.balance, Bool.false_eq_true, not_false_eq_true, and_true, false_and, ↓reduceIte, Bool.false_and]
      have hreset : ∀ x : Src, resetOthers [x] 0 = [x] := by intro x; simp [resetOthers]
      rw [hset]
      have hsrcs : (if res = PM.newer then resetOthers [storeRecvd { s with queue := rest, conn := true } r w.topics] 0
          else [storeRecvd { s with queue := rest, conn := true } r w.topics]) =
          [storeRecvd { s with queue := rest, conn := true } r w.topics] := by
        split
        · exact hreset _
        · rfl
      rw [hsrcs]
      refine ⟨⟨_, rfl, ⟨by rw [hst.2.2.2.2.1]; exact h.shape.eph, by rw [hst.2.2.2.2.2.1]; exact h.shape.subAll,
          by rw [hst.2.2.2.2.2.2.1]; exact h.shape.star, by rw [hst.2.2.2.2.2.2.2]; exact h.shape.subs⟩,
          ⟨by simp only; rw [e4]; exact h.static.dead, rfl, by simp only; rw [e7]; exact h.static.lowLat⟩,
          hst.2.2.1, hst.2.1, by rw [hst.1]; exact hk, ?_, by simp only; rw [e3]; exact h.inCall, e2, by simp only; omega,
          fun _ => Int.le_refl _, Or.inr rfl, fun _ => rfl⟩,
          rfl, fun _ => rfl⟩
      rw [hst.2.2.2.1]; simp [hncl]


theorem takeBatch_single (c : Recv.St) (s : Src) (h : Busy c s) :
    takeBatch c [0] = ((onTake c 0).1, (onTake c 0).2.1) := by
  have hs0 : c.srcs[0]? = some s := by rw [h.srcs]; rfl
  have hd : ¬ (c.dead = true ∨ ¬ c.inCall = true) := by
    rw [h.static.dead, h.inCall]; simp
  have hstep : Recv.step c (.take 0) = ((onTake c 0).1, (onTake c 0).2.1) := by
    simp only [Recv.step, stepTake, hd, ↓reduceIte, hs0, h.reg]
  unfold takeBatch
  simp only [hs0, hstep, h.reg, Bool.true_and, takeBatch, List.append_nil]
  split <;> rfl

theorem pollReady_single (c : Recv.St) (s : Src) (hs : c.srcs = [s]) (hr : s.reg = true) :
    pollReady c [0] = if s.queue = [] then [] else [0] := by
  unfold pollReady
  have hs0 : c.srcs[0]? = some s := by rw [hs]; rfl
  cases hq : s.queue with
  | nil => simp [hs0, hq, hr]
  | cons w q => simp [hs0, hq, hr]

theorem recvOnce0_nil (f : Nat) (c : Recv.St) (s : Src) (h : Busy c s) (hq : s.queue = []) :
    recvOnce0 (f + 1) c [0] = (c, [], false) := by
  unfold recvOnce0
  rw [pollReady_single c s h.srcs h.reg]
  simp [hq]

theorem recvOnce0_cons (f : Nat) (c : Recv.St) (s : Src) (w : Wire) (rest : List Wire) (h : Busy c s)
    (hq : s.queue = w :: rest) :
    recvOnce0 (f + 1) c [0] =
      if returnCond (onTake c 0).1 then ((onTake c 0).1, (onTake c 0).2.1, true)
      else ((recvOnce0 f (onTake c 0).1 [0]).1, (onTake c 0).2.1 ++ (recvOnce0 f (onTake c 0).1 [0]).2.1,
            (recvOnce0 f (onTake c 0).1 [0]).2.2) := by
  rw [recvOnce0]
  rw [pollReady_single c s h.srcs h.reg]
  simp only [hq, reduceCtorEq, ↓reduceIte, takeBatch_single c s h]


theorem took_next (c c1 : Recv.St) (s s1 : Src) (w : Wire) (rest : List Wire) (h : Busy c s) (ht : Took c c1 w rest s1) :
    returnCond c1 = gotAll s1 ∧ (gotAll s1 = true → Done c1 s1) ∧ (gotAll s1 = false → Busy c1 s1) := by
  refine ⟨returnCond_single c1 s1 ht.srcs ht.shape.eph ht.static.balance ht.reg, ?_, ?_⟩
  · intro hg
    exact ⟨ht.srcs, ht.shape, ht.static, by rw [ht.reg, hg]; rfl, hg, ht.keys, ht.inCall, by rw [ht.prev]; exact h.prev,
      by rw [ht.prev]; have := h.mono; have := ht.mono; omega⟩
  · intro hg
    exact ⟨ht.srcs, ht.shape, ht.static, by rw [ht.reg, hg]; rfl, hg, ht.keys, ht.inCall, by rw [ht.prev]; exact h.prev,
      by rw [ht.prev]; have := h.mono; have := ht.mono; omega⟩

/-- `recv_once(0)` on the single source: it stops with a complete set, or with an empty queue -/
theorem recvOnce0_spec : ∀ (f : Nat) (c : Recv.St) (s : Src), Busy c s → s.queue.length < f →
    Quiet (recvOnce0 f c [0]).2.1 ∧
    (recvOnce0 f c [0]).1.prevId = c.prevId ∧ c.minRecvId ≤ (recvOnce0 f c [0]).1.minRecvId ∧
    ∃ s', (∃ pre, s.queue = pre ++ s'.queue) ∧
      (((recvOnce0 f c [0]).2.2 = true ∧ Done (recvOnce0 f c [0]).1 s' ∧
        ∃ w ∈ s.queue, (recvOnce0 f c [0]).1.minRecvId = w.mid) ∨
       ((recvOnce0 f c [0]).2.2 = false ∧ Busy (recvOnce0 f c [0]).1 s' ∧ s'.queue = [] ∧
        ((∀ w ∈ s.queue, w.mid ≠ OF.Facts.MSG_ID_CLOSE) → s.queue ≠ [] → s'.conn = true) ∧
        (∀ w ∈ s.queue, OF.Facts.MSG_ID_SPECIAL < w.mid → w.mid ≤ (recvOnce0 f c [0]).1.minRecvId) ∧
        ((recvOnce0 f c [0]).1.minRecvId = c.minRecvId ∨ ∃ w ∈ s.queue, (recvOnce0 f c [0]).1.minRecvId = w.mid))) := by
  intro f
  induction f with
  | zero => intro c s _ hl; omega
  | succ f ih =>
    intro c s h hl
    cases hq : s.queue with
    | nil =>
      rw [recvOnce0_nil f c s h hq]
      exact ⟨quiet_nil, rfl, Int.le_refl _, s, ⟨[], by simp [hq]⟩, Or.inr ⟨rfl, h, hq, fun _ hne => absurd rfl hne,
        (fun _ hw => by cases hw), Or.inl rfl⟩⟩
    | cons w rest =>
      rw [recvOnce0_cons f c s w rest h hq]
      have ⟨⟨s1, ht⟩, hquiet⟩ := onTake_busy c s w rest h hq
      have ⟨hrc, hdone, hbusy⟩ := took_next c _ s s1 w rest h ht
      rw [hrc]
      cases hg : gotAll s1 with
      | true =>
        simp only [↓reduceIte]
        exact ⟨hquiet, ht.prev, ht.mono, s1, ⟨[w], by rw [ht.queue]; rfl⟩, Or.inl ⟨trivial, hdone hg, w, List.mem_cons_self .., ht.fresh hg⟩⟩
      | false =>
        simp only [Bool.false_eq_true, ↓reduceIte]
        have hb := hbusy hg
        have hl1 : s1.queue.length < f := by rw [ht.queue]; rw [hq] at hl; simp at hl; omega
        have ⟨q1, q2, q3, s', ⟨pre, hpre⟩, hres⟩ := ih _ s1 hb hl1
        refine ⟨quiet_append _ _ hquiet q1, by rw [q2, ht.prev], by have := ht.mono; omega, s',
          ⟨w :: pre, by rw [← ht.queue, hpre]; rfl⟩, ?_⟩
        rcases hres with ⟨r1, r2, x, hx, hxe⟩ | ⟨r1, r2, r3, r4, r5, r6⟩
        · exact Or.inl ⟨r1, r2, x, List.mem_cons_of_mem _ (by rw [← ht.queue]; exact hx), hxe⟩
        · refine Or.inr ⟨r1, r2, r3, ?conn, ?ge, ?val⟩
          case ge =>
            intro x hx hsp
            rcases List.mem_cons.mp hx with rfl | hx'
            · have := ht.ge hsp; omega
            · exact r5 x (by rw [ht.queue]; exact hx') hsp
          case val =>
            rcases r6 with r6 | ⟨x, hx, r6⟩
            · rcases ht.val with hv | hv
              · left; omega
              · right; exact ⟨w, List.mem_cons_self .., by omega⟩
            · right; exact ⟨x, List.mem_cons_of_mem _ (by rw [← ht.queue]; exact hx), r6⟩
          intro hall _
          cases hrest : rest with
          | nil =>
            -- nothing more was taken: s' is s1
            have hq1 : s1.queue = [] := by rw [ht.queue, hrest]
            have heq := recvOnce0_nil (f - 1) _ s1 hb hq1
            have hf : f - 1 + 1 = f := by omega
            rw [hf] at heq
            have hsrc : [s'] = [s1] := by rw [← r2.srcs, heq]; exact ht.srcs
            have : s' = s1 := by simpa using hsrc
            rw [this, ht.conn]
            simpa using hall w (List.mem_cons_self ..)
          | cons w2 r2' =>
            apply r4
            · intro x hx; rw [ht.queue] at hx; exact hall x (List.mem_cons_of_mem _ hx)
            · rw [ht.queue, hrest]; simp

/-! ### one whole `recv(None, 0)` -/

/-- the consumer right after the entry of `recv(None, 0)` -/
def beginSt (c : Recv.St) : Recv.St := { c with inCall := true, minRecvId := c.prevId + 1, balanced := 0 }

theorem beginSt_busy (c : Recv.St) (s : Src) (h : Idle c s) : Busy (beginSt c) s :=
  ⟨h.srcs, h.shape, ⟨h.static.dead, h.static.balance, h.static.lowLat⟩, h.reg, h.notAll, h.keys, rfl, h.prev,
    Int.le_refl _⟩

/-- the time-out exit of `recv(None, 0)` -/
def timeoutSt (c : Recv.St) : Recv.St := { c with inCall := false, prevId := c.minRecvId - 1 }

theorem call0_unfold (c : Recv.St) (s : Src) (h : Idle c s) :
    call0 c none [0] =
      if (recvOnce0 (s.queue.length + 1) (beginSt c) [0]).2.2 = true then
        ((finish (recvOnce0 (s.queue.length + 1) (beginSt c) [0]).1).1,
         (recvOnce0 (s.queue.length + 1) (beginSt c) [0]).2.1 ++ (finish (recvOnce0 (s.queue.length + 1) (beginSt c) [0]).1).2)
      else
        (timeoutSt (recvOnce0 (s.queue.length + 1) (beginSt c) [0]).1,
         (recvOnce0 (s.queue.length + 1) (beginSt c) [0]).2.1 ++
           requests (recvOnce0 (s.queue.length + 1) (beginSt c) [0]).1
             ((recvOnce0 (s.queue.length + 1) (beginSt c) [0]).1.minRecvId - 1) ++ [.retNone]) := by
  have hg : ¬ (c.dead = true ∨ c.inCall = true) := by rw [h.static.dead, h.inCall]; simp
  have hb : Recv.step c (.begin none) = (beginSt c, []) := by
    simp only [Recv.step, stepBegin, hg, ↓reduceIte, beginId, beginSt]
  have hf : totalQueued (beginSt c) + 1 = s.queue.length + 1 := by
    simp [totalQueued, beginSt, h.srcs]
  unfold call0
  simp only [hg, ↓reduceIte, hb, hf]
  have hbusy := beginSt_busy c s h
  have hspec := recvOnce0_spec (s.queue.length + 1) (beginSt c) s hbusy (by omega)
  generalize recvOnce0 (s.queue.length + 1) (beginSt c) [0] = r at hspec ⊢
  rcases r with ⟨c1, o1, g⟩
  simp only
  cases g with
  | true => simp
  | false =>
    simp only [Bool.false_eq_true, ↓reduceIte]
    rcases hspec with ⟨_, _, _, s', _, hres⟩
    rcases hres with ⟨hc, _⟩ | ⟨_, hb1, _, _⟩
    · cases hc
    · have hg1 : ¬ (c1.dead = true ∨ ¬ c1.inCall = true) := by
        have h1 : c1.dead = false := hb1.static.dead
        have h2 : c1.inCall = true := hb1.inCall
        rw [h1, h2]; simp
      simp only [Recv.step, stepRequest, stepTimeout, hg1, ↓reduceIte, timeoutSt, List.append_assoc]


theorem retIds_quiet_ret (o : List Recv.Out) (pre : List Recv.Out) (id : Int) (b : Nat) (d : List (Topic × Msg))
    (ho : Quiet o) (hp : retIds pre = []) : retIds (o ++ (pre ++ [Recv.Out.ret id b d])) = [id] := by
  rw [retIds_append, retIds_append, ho.1, hp]; rfl

/-- the `if got_all:` block on a complete single-source set -/
theorem finish_done (c : Recv.St) (s : Src) (h : Done c s) :
    ∃ data pre, retIds pre = [] ∧ (∀ u, ∀ r ∈ pre.filterMap (reqOf u), r.mid = c.minRecvId) ∧
      finish c = ({ c with prevId := c.minRecvId, srcs := [{ s with recvd := none, reg := true }], inCall := false },
                  pre ++ [.ret c.minRecvId c.balanced data]) := by
  have hkeys := srcFrames_keys s h.shape.subs h.keys
  have hasm : assemble (c.srcs.flatMap srcFrames) [] = .inr (srcFrames s) := by
    rw [h.srcs]
    simp only [List.flatMap_cons, List.flatMap_nil, List.append_nil]
    rw [assemble_ok _ [] hkeys (by intro _ _ a ha; cases ha)]; rfl
  refine ⟨srcFrames s, (if !c.lowLat && c.balanced ≠ 1 then requests c c.minRecvId else []), ?_, ?_, ?_⟩
  · split
    · exact retIds_requests _ _
    · rfl
  · intro u r hr
    split at hr
    · rw [requests_single c s h.srcs h.shape.eph] at hr
      simp only [List.filterMap_cons, reqOf, List.filterMap_nil, List.mem_singleton] at hr
      rw [hr]
    · cases hr
  · unfold finish
    simp only [hasm]
    have hnew : newRecvAll c.srcs = [{ s with recvd := none, reg := true }] := by
      rw [h.srcs]; simp [newRecvAll, recvdNew, h.shape.subAll]
    rw [hnew]


/-- the request consumer incarnation `u` pushes for id `mid` -/
def reqFor (u : String) (mid : Int) (new : Bool) : Send.Req :=
  { cid := CID, uid := u, mid := mid, eph := 0, new := new, body := 0 }

/-- **one `recv(None, 0)` of the pair's consumer, whatever is queued**: it returns a set with a new id, or it
empties its queue, pushes exactly one request (for its `prev_id`, `new` iff it has not heard) and times out. -/
theorem call0_spec (c : Recv.St) (s : Src) (h : Idle c s) :
    ∃ s', Idle (call0 c none [0]).1 s' ∧ (∃ pre, s.queue = pre ++ s'.queue) ∧
      c.prevId ≤ (call0 c none [0]).1.prevId ∧
      ((∃ id, retIds (call0 c none [0]).2 = [id] ∧ c.prevId < id ∧ (call0 c none [0]).1.prevId = id ∧
          (∃ w ∈ s.queue, id = w.mid) ∧ (∀ u, ∀ r ∈ (call0 c none [0]).2.filterMap (reqOf u), r.mid = id)) ∨
       (retIds (call0 c none [0]).2 = [] ∧ s'.queue = [] ∧
        (∀ u, (call0 c none [0]).2.filterMap (reqOf u) = [reqFor u (call0 c none [0]).1.prevId (!s'.conn)]) ∧
        ((∀ w ∈ s.queue, w.mid ≠ OF.Facts.MSG_ID_CLOSE) → s.queue ≠ [] → s'.conn = true) ∧
        (∀ w ∈ s.queue, OF.Facts.MSG_ID_SPECIAL < w.mid → w.mid - 1 ≤ (call0 c none [0]).1.prevId) ∧
        ((call0 c none [0]).1.prevId = c.prevId ∨ ∃ w ∈ s.queue, (call0 c none [0]).1.prevId = w.mid - 1))) := by
  rw [call0_unfold c s h]
  have hbusy := beginSt_busy c s h
  have hspec := recvOnce0_spec (s.queue.length + 1) (beginSt c) s hbusy (by omega)
  generalize recvOnce0 (s.queue.length + 1) (beginSt c) [0] = r at hspec ⊢
  rcases r with ⟨c1, o1, g⟩
  simp only at hspec ⊢
  rcases hspec with ⟨hq, hprev, hmono, s', hpre, hres⟩
  have hp0 : (beginSt c).prevId = c.prevId := rfl
  have hm0 : (beginSt c).minRecvId = c.prevId + 1 := rfl
  rcases hres with ⟨hg, hd, wd, hwd, hwde⟩ | ⟨hg, hb, hempty, hconn, hge, hval⟩
  · subst hg
    simp only [↓reduceIte]
    have ⟨data, pre, hpre0, hpre1, hfin⟩ := finish_done c1 s' hd
    rw [hfin]
    simp only
    refine ⟨{ s' with recvd := none, reg := true }, ?_, hpre, by omega, Or.inl ⟨c1.minRecvId, retIds_quiet_ret _ _ _ _ _ hq hpre0, by omega, rfl,
      ⟨wd, hwd, hwde⟩, ?_⟩⟩
    rotate_left
    · intro u r hr
      rw [List.filterMap_append, hq.2 u, List.nil_append, List.filterMap_append, List.mem_append] at hr
      rcases hr with hr | hr
      · exact hpre1 u r hr
      · simp [reqOf] at hr
    exact ⟨rfl, ⟨hd.shape.eph, hd.shape.subAll, hd.shape.star, hd.shape.subs⟩,
      ⟨hd.static.dead, hd.static.balance, hd.static.lowLat⟩, rfl, rfl, (by intro l hl; cases hl), rfl,
      (by simp only; have := h.prev; omega)⟩
  · subst hg
    simp only [Bool.false_eq_true, ↓reduceIte]
    refine ⟨s', ?_, hpre, by simp only [timeoutSt]; omega, Or.inr ⟨?_, hempty, ?_, hconn, ?_, ?_⟩⟩
    · exact ⟨hb.srcs, hb.shape, ⟨hb.static.dead, hb.static.balance, hb.static.lowLat⟩, hb.reg, hb.notAll, hb.keys, rfl,
        by simp only [timeoutSt]; have := h.prev; omega⟩
    · rw [retIds_append, retIds_append, hq.1, retIds_requests]; rfl
    · intro u
      rw [List.filterMap_append, List.filterMap_append, hq.2 u, requests_single c1 s' hb.srcs hb.shape.eph]
      simp [reqOf, reqFor, timeoutSt]
    · intro w hw hsp
      have := hge w hw hsp
      simp only [timeoutSt]; omega
    · rcases hval with hv | ⟨w, hw, hv⟩
      · left; simp only [timeoutSt]; omega
      · right; exact ⟨w, hw, by simp only [timeoutSt]; omega⟩

/-- nothing queued: the call pushes one request for `prev_id` and times out; nothing else changes -/
theorem call0_empty (c : Recv.St) (s : Src) (h : Idle c s) (hq : s.queue = []) :
    (call0 c none [0]).1.srcs = [s] ∧ (call0 c none [0]).1.prevId = c.prevId ∧ Idle (call0 c none [0]).1 s ∧
    (call0 c none [0]).2 = [.req 0 c.prevId 0 (!s.conn), .retNone] := by
  have hb := beginSt_busy c s h
  rw [call0_unfold c s h, hq]
  simp only [List.length_nil, Nat.zero_add]
  rw [recvOnce0_nil 0 (beginSt c) s hb hq]
  simp only [Bool.false_eq_true, ↓reduceIte, List.nil_append]
  have hr := requests_single (beginSt c) s hb.srcs hb.shape.eph ((beginSt c).minRecvId - 1)
  rw [hr]
  have hp : (timeoutSt (beginSt c)).prevId = c.prevId := by simp only [timeoutSt, beginSt]; omega
  refine ⟨h.srcs, hp, ⟨h.srcs, h.shape, ⟨h.static.dead, h.static.balance, h.static.lowLat⟩, h.reg, h.notAll, h.keys, rfl,
    by rw [hp]; exact h.prev⟩, ?_⟩
  have : (beginSt c).minRecvId - 1 = c.prevId := by simp only [beginSt]; omega
  rw [this]; rfl


/-- the wire messages of a publish of `{'main': [b]}` under id `n` -/
def mainWire (n : Int) (b : Nat) : Wire := { frame0 := "/main/", sid := SID, mid := n, topics := ["main"], bal := 0, body := b }
def hbWire (n : Int) : Wire := { frame0 := "//", sid := SID, mid := n, topics := ["main"], bal := 0, body := 0 }
def helloWire : Wire := { frame0 := "//", sid := SID, mid := OF.Facts.MSG_ID_HELLO, topics := [], bal := 0, body := 0 }

theorem decode_main : decodeTopic "/main/" = "main" := by decide
theorem main_not_hidden : ("main" : String).startsWith "_" = false := by decide +kernel

theorem initRecvd_main (s : Src) (m : Msg) (hs : s.star = false) (hm : m.topic = "main") :
    initRecvd s m ["main"] = [("main", some m)] := by
  unfold initRecvd
  simp [main_not_hidden, hs, hm, dset]

/-- a strictly newer `main` message completes the set at once -/
theorem onTake_newer_main (c : Recv.St) (s : Src) (n : Int) (b : Nat) (rest : List Wire) (h : Busy c s)
    (hq : s.queue = mainWire n b :: rest) (hn : c.minRecvId < n) :
    ∃ s1, (onTake c 0).1.srcs = [s1] ∧ gotAll s1 = true := by
  have hs0 : c.srcs[0]? = some s := by rw [h.srcs]; rfl
  have hpos : ¬ n ≤ OF.Facts.MSG_ID_SPECIAL := by
    have := h.mono; have := h.prev
    have : OF.Facts.MSG_ID_SPECIAL = -2 := rfl
    omega
  have hset : ∀ x : Src, c.srcs.set 0 x = [x] := by intro x; rw [h.srcs]; rfl
  have htopic : effTopic s.subAll s.subs (decodeTopic "/main/") = "main" := by
    rw [decode_main]; simp [effTopic, h.shape.subAll]
  unfold onTake
  simp only [hs0, hq, mainWire, hpos, ↓reduceIte, htopic]
  have hbal : (if s.eph = 0 then 0 else 0) = 0 := by simp
  simp only [hbal, ne_eq, not_true_eq_false, ↓reduceIte]
  split
  · rename_i hne; exact absurd h.shape.eph hne
  · have hpm : (processMsg { s with queue := rest, conn := true } { mid := n, topic := "main", body := b, src := 0 } ["main"] c.minRecvId) =
        (.newer, some [("main", some { mid := n, topic := "main", body := b, src := 0 })]) := by
      unfold processMsg
      have h1 : ¬ n < c.minRecvId := by omega
      have h2 : n > c.minRecvId := by omega
      have h3 : ¬ n = c.minRecvId := by omega
      simp only [h1, ↓reduceIte]
      cases hr : s.recvd with
      | none => simp [h2]; exact initRecvd_main _ _ h.shape.star rfl
      | some l => simp [h3, newRecvWith, recvdNew, h.shape.subAll]; exact initRecvd_main _ _ h.shape.star rfl
    unfold takeSync
    rw [hpm]
    simp only [syncApply, hset, h.static.balance]
    have hreset : ∀ x : Src, resetOthers [x] 0 = [x] := by intro x; simp [resetOthers]
    simp only [hreset, Bool.false_eq_true, not_false_eq_true, and_true, false_and, ↓reduceIte]
    refine ⟨_, rfl, ?_⟩
    have hst := storeRecvd_spec { s with queue := rest, conn := true }
      (some [("main", some { mid := n, topic := "main", body := b, src := 0 })]) ["main"] h.shape.subAll h.reg
    rw [gotAll, hst.1]
    simp


/-- a queued `main` message with an id beyond the expected one is returned by the very next call -/
theorem call0_newer (c : Recv.St) (s : Src) (n : Int) (b : Nat) (rest : List Wire) (h : Idle c s)
    (hq : s.queue = mainWire n b :: rest) (hn : c.prevId + 1 < n) :
    retIds (call0 c none [0]).2 = [n] ∧ (call0 c none [0]).1.prevId = n := by
  have hb := beginSt_busy c s h
  have hm0 : (beginSt c).minRecvId = c.prevId + 1 := rfl
  have ⟨⟨s1, ht⟩, hquiet⟩ := onTake_busy (beginSt c) s _ rest hb hq
  have ⟨s1', hs1, hg⟩ := onTake_newer_main (beginSt c) s n b rest hb hq (by rw [hm0]; exact hn)
  have hs1eq : s1' = s1 := by
    have : [s1'] = [s1] := by rw [← hs1, ht.srcs]
    simpa using this
  subst hs1eq
  have ⟨hrc, hdone, _⟩ := took_next (beginSt c) _ s s1' _ rest hb ht
  have hmin : (onTake (beginSt c) 0).1.minRecvId = n := by
    have h1 := ht.ge (by show OF.Facts.MSG_ID_SPECIAL < n; have := h.prev; have : OF.Facts.MSG_ID_SPECIAL = -2 := rfl; omega)
    have h1' : n ≤ (onTake (beginSt c) 0).1.minRecvId := h1
    rcases ht.val with hv | hv
    · rw [hm0] at hv; omega
    · exact hv
  rw [call0_unfold c s h, hq]
  simp only [List.length_cons]
  rw [recvOnce0_cons _ (beginSt c) s _ rest hb hq, hrc, hg]
  simp only [↓reduceIte]
  have ⟨data, pre, hpre0, _, hfin⟩ := finish_done _ s1' (hdone hg)
  rw [hfin]
  simp only
  exact ⟨by rw [retIds_quiet_ret _ _ _ _ _ hquiet hpre0, hmin], hmin⟩

end OF.Pair
