import OFProps.JoinMultiDefs
/-!
# Join completeness for multi-topic blocks: the invariant `MInv` and its preservation

Relative to the frontier `F = expected st` every source is in one of two modes:
* *idle*: buffer empty (`recvd_new`), registered, nothing of an id `≥ F` consumed yet; the head of its remaining
  stream may be the unconsumed tail of a block of an id `< F` (it will be dropped as "older");
* *assembling `F`*: it has consumed a prefix `done` of its block of id `F`, its dict has exactly the subscribed topics
  of the block as keys, holds exactly the subscribed topic messages among `done` (all of id `F`), and it is out of the
  poller iff the dict is complete.  The rest of the block (`todo`) is next in its stream.
-/
namespace OF.Recv

/-- a stored frame of source `j` for key `t` of the block of id `F` -/
def FrameOK (p : PubSpec) (j : Nat) (F : Int) (t : Topic) (m : Msg) : Prop :=
  m.mid = F ∧ m.topic = t ∧ m.src = j ∧ ∃ w ∈ p.wires, w.mid = F ∧ p.eff w = t ∧ w.body = m.body

/-- mode of one source; `rem` = queued ++ not yet delivered -/
def MSrcOK (p : PubSpec) (j : Nat) (F : Int) (s : Src) (rem : List Wire) : Prop :=
  rem <:+ p.wires ∧
  ∃ (pre rest : List Int) (ws : List Wire), p.ids = pre ++ rest ∧ MStream p rest ws ∧
    ( (∃ tail, rem = tail ++ ws ∧ (∀ w ∈ tail, w.mid < F ∧ 0 ≤ w.mid ∧ w.bal = 0) ∧
        s.recvd = recvdNew s ∧ s.reg = true ∧ ∀ c ∈ pre, c < F) ∨
      (∃ (pre' : List Int) (done todo : List Wire) (g : Topic → Option Msg),
        pre = pre' ++ [F] ∧ (∀ c ∈ pre', c < F) ∧ BlkAbs p F (done ++ todo) ∧ rem = todo ++ ws ∧
        s.recvd = some (p.keys.map fun t => (t, g t)) ∧
        (∀ t ∈ p.keys, (g t).isSome = true ↔ t ∈ done.map p.eff) ∧
        (∀ t m, g t = some m → FrameOK p j F t m) ∧
        s.reg = !gotAll s) )

def MInv (sp : List PubSpec) (n : NSt) : Prop :=
  n.st.dead = false →
  n.st.balance = false ∧ n.st.srcs.length = sp.length ∧
  ∀ (j : Nat) (s : Src), n.st.srcs[j]? = some s →
    ∃ p fut, sp[j]? = some p ∧ n.future[j]? = some fut ∧ MPlain p s ∧ MSrcOK p j (expected n.st) s (s.queue ++ fut)

/-! ### small facts -/

theorem mstream_cons_inv {p : PubSpec} {k : Int} {ks : List Int} {ws : List Wire} (h : MStream p (k :: ks) ws) :
    ∃ b ws', ws = b ++ ws' ∧ IsBlock p k b ∧ MStream p ks ws' := by
  cases h with
  | cons h1 h2 => exact ⟨_, _, rfl, h1, h2⟩

theorem mstream_nil_inv {p : PubSpec} {ws : List Wire} (h : MStream p [] ws) : ws = [] := by
  cases h; rfl

theorem isBlock_ne_nil {p : PubSpec} {k : Int} {b : List Wire} (h : IsBlock p k b) : b ≠ [] := by
  rcases h.shape with ⟨tm, hh, rfl, _⟩
  simp

theorem gotAll_map (s : Src) (ks : List Topic) (g : Topic → Option Msg) (h : s.recvd = some (ks.map fun t => (t, g t))) :
    gotAll s = true ↔ ∀ t ∈ ks, (g t).isSome = true := by
  unfold gotAll
  rw [h]
  simp only [List.all_map, List.all_eq_true, Function.comp_apply]

theorem gotAll_congr (s s' : Src) (h : s'.recvd = s.recvd) : gotAll s' = gotAll s := by
  unfold gotAll; rw [h]

/-- `MSrcOK` only reads `recvd`, `reg` and the subscription of the source -/
theorem MSrcOK_congr (p : PubSpec) (j : Nat) (F : Int) (s s' : Src) (rem : List Wire)
    (h1 : s'.recvd = s.recvd) (h2 : s'.reg = s.reg) (hn : recvdNew s' = recvdNew s) :
    MSrcOK p j F s rem → MSrcOK p j F s' rem := by
  rintro ⟨hsuf, pre, rest, ws, e1, e2, h⟩
  refine ⟨hsuf, pre, rest, ws, e1, e2, ?_⟩
  rw [h1, h2, hn, gotAll_congr s s' h1]; exact h

/-- raising the frontier keeps idle sources idle; a source that was assembling the old frontier id and is reset becomes
idle, the rest of its block is now older -/
theorem MSrcOK_reset (p : PubSpec) (hp : PubOK p) (j : Nat) (F F' : Int) (s s' : Src) (rem : List Wire) (hF : F < F')
    (hr : s'.recvd = recvdNew s') (hg : s'.reg = true) : MSrcOK p j F s rem → MSrcOK p j F' s' rem := by
  rintro ⟨hsuf, pre, rest, ws, e1, e2, h⟩
  refine ⟨hsuf, pre, rest, ws, e1, e2, ?_⟩
  rcases h with ⟨tail, h1, h2, _, _, h5⟩ | ⟨pre', done, todo, g, h1, h2, h3, h4, _, _, _, _⟩
  · left
    refine ⟨tail, h1, ?_, hr, hg, fun c hc => by have := h5 c hc; omega⟩
    intro w hw
    have := h2 w hw
    exact ⟨by omega, this.2.1, this.2.2⟩
  · left
    have hFin : F ∈ p.ids := by rw [e1, h1]; simp
    have hF0 := hp.nonneg F hFin
    refine ⟨todo, h4, ?_, hr, hg, ?_⟩
    · intro w hw
      have := h3.1 w (List.mem_append_right _ hw)
      exact ⟨by omega, by omega, this.2.2⟩
    · intro c hc
      rw [h1, List.mem_append] at hc
      rcases hc with hc | hc
      · have := h2 c hc; omega
      · simp only [List.mem_singleton] at hc; omega

/-- transfer principle: if every source of the new state comes from the source at the same index and its mode carries
over, the invariant carries over -/
theorem MInv_of (sp : List PubSpec) (n n' : NSt) (hd : n'.st.dead = n.st.dead) (hb : n'.st.balance = n.st.balance)
    (hlen : n'.st.srcs.length = n.st.srcs.length)
    (hsrc : n.st.dead = false → n.st.balance = false →
      ∀ (j : Nat) (s' : Src), n'.st.srcs[j]? = some s' → ∃ s, n.st.srcs[j]? = some s ∧
        (∀ p, MPlain p s → MPlain p s') ∧
        ∀ fut, n.future[j]? = some fut → ∃ fut', n'.future[j]? = some fut' ∧
          ∀ p, sp[j]? = some p → MPlain p s →
            MSrcOK p j (expected n.st) s (s.queue ++ fut) → MSrcOK p j (expected n'.st) s' (s'.queue ++ fut')) :
    MInv sp n → MInv sp n' := by
  intro h hd'
  rw [hd] at hd'
  have ⟨h1, h2, h3⟩ := h hd'
  refine ⟨hb ▸ h1, hlen ▸ h2, ?_⟩
  intro j s' hj
  rcases hsrc hd' h1 j s' hj with ⟨s, hs, hp, hf⟩
  rcases h3 j s hs with ⟨p, fut, e1, e3, e4, e5⟩
  rcases hf fut e3 with ⟨fut', e3', hok⟩
  exact ⟨p, fut', e1, e3', hp p e4, hok p e1 e4 e5⟩

/-! ### events that do not touch the sources' buffers -/

theorem deliverNext_MInv (sp : List PubSpec) (n : NSt) (j : Nat) (h : MInv sp n) : MInv sp (nDeliver n j).1 := by
  unfold nDeliver
  cases hf : n.future[j]? with
  | none => exact h
  | some fl =>
    cases fl with
    | nil => exact h
    | cons w rest =>
      simp only
      unfold stepDeliver
      cases hs : n.st.srcs[j]? with
      | none =>
        simp only
        refine MInv_of sp n _ rfl rfl rfl ?_ h
        intro _ _ a s' ha
        refine ⟨s', ha, fun _ h => h, ?_⟩
        intro fut hfut
        have haj : a ≠ j := by intro e; rw [e, hs] at ha; cases ha
        refine ⟨fut, by simp only; rw [List.getElem?_set_ne (fun e => haj e.symm)]; exact hfut, ?_⟩
        intro p _ _ hok; exact hok
      | some s =>
        simp only
        refine MInv_of sp n _ rfl rfl (by simp) ?_ h
        intro _ _ a s' ha
        simp only [List.getElem?_set] at ha
        by_cases haj : j = a
        · subst haj
          have hlen : j < n.st.srcs.length := (List.getElem?_eq_some_iff.mp hs).1
          simp only [hlen, ↓reduceIte, Option.some.injEq] at ha
          subst ha
          refine ⟨s, hs, fun p hp => MPlain_congr p s _ rfl rfl rfl rfl hp, ?_⟩
          intro fut hfut
          rw [hf] at hfut; cases hfut
          have hlen2 : j < n.future.length := (List.getElem?_eq_some_iff.mp hf).1
          refine ⟨rest, by simp only [List.getElem?_set, hlen2, ↓reduceIte], ?_⟩
          intro p _ _ hok
          have : (s.queue ++ [w]) ++ rest = s.queue ++ (w :: rest) := by simp
          simp only
          rw [this]
          exact MSrcOK_congr p j _ s _ _ rfl rfl rfl hok
        · simp only [haj, ↓reduceIte] at ha
          refine ⟨s', ha, fun _ h => h, ?_⟩
          intro fut hfut
          refine ⟨fut, by simp only; rw [List.getElem?_set_ne haj]; exact hfut, ?_⟩
          intro p _ _ hok; exact hok

theorem same_srcs_MInv (sp : List PubSpec) (n : NSt) (st' : St) (hsr : st'.srcs = n.st.srcs) (hd : st'.dead = n.st.dead)
    (hb : st'.balance = n.st.balance) (he : n.st.dead = false → expected st' = expected n.st) (h : MInv sp n) :
    MInv sp { n with st := st' } := by
  refine MInv_of sp n _ hd hb (by simp only; rw [hsr]) ?_ h
  intro hdd _ a s' ha
  simp only at ha; rw [hsr] at ha
  refine ⟨s', ha, fun _ h => h, ?_⟩
  intro fut hfut
  refine ⟨fut, hfut, ?_⟩
  intro p _ _ hok
  simp only; rw [he hdd]; exact hok

theorem begin_MInv (sp : List PubSpec) (n : NSt) (h : MInv sp n) : MInv sp (nRecv n (.begin none)).1 := by
  unfold nRecv step
  simp only
  refine same_srcs_MInv sp n _ ?_ ?_ ?_ ?_ h
  · unfold stepBegin; split <;> rfl
  · unfold stepBegin; split <;> rfl
  · unfold stepBegin; split <;> rfl
  · intro hd; exact expected_begin_none n.st hd

theorem request_MInv (sp : List PubSpec) (n : NSt) (h : MInv sp n) : MInv sp (nRecv n .request).1 := by
  unfold nRecv step
  simp only
  refine same_srcs_MInv sp n _ ?_ ?_ ?_ ?_ h
  · unfold stepRequest; split <;> rfl
  · unfold stepRequest; split <;> rfl
  · unfold stepRequest; split <;> rfl
  · intro _; unfold stepRequest; split <;> rfl

theorem timeout_MInv (sp : List PubSpec) (n : NSt) (h : MInv sp n) : MInv sp (nRecv n .timeout).1 := by
  unfold nRecv step
  simp only
  refine same_srcs_MInv sp n _ ?_ ?_ ?_ ?_ h
  · unfold stepTimeout; split <;> rfl
  · unfold stepTimeout; split <;> rfl
  · unfold stepTimeout; split <;> rfl
  · intro hd
    by_cases hc : n.st.inCall = true
    · exact C01_timeout_keeps_id n.st hd hc
    · unfold stepTimeout; simp [hc]

/-! ### what the head of a registered source's remaining stream can be -/

theorem mem_of_suffix_cons {w : Wire} {r l : List Wire} (h : (w :: r) <:+ l) : w ∈ l := by
  rcases h with ⟨t, rfl⟩; simp

theorem suffix_of_cons {w : Wire} {r l : List Wire} (h : (w :: r) <:+ l) : r <:+ l :=
  List.IsSuffix.trans (List.suffix_cons w r) h

theorem mtake_src (p : PubSpec) (hp : PubOK p) (j : Nat) (F : Int) (s : Src) (w : Wire) (r : List Wire)
    (hok : MSrcOK p j F s (w :: r)) (hreg : s.reg = true) :
    0 ≤ w.mid ∧ w.bal = 0 ∧
    ( (w.mid < F ∧ s.recvd = recvdNew s ∧
        ∀ s' : Src, s'.recvd = recvdNew s' → s'.reg = true → MSrcOK p j F s' r) ∨
      (F ≤ w.mid ∧ w.topics = p.ts ∧ (p.eff w = "" ∨ p.eff w ∈ p.keys) ∧ s.recvd = recvdNew s ∧ w.mid ∈ p.ids ∧
        (∀ c ∈ p.ids, F ≤ c → c < w.mid → False) ∧
        ∀ (s' : Src) (m : Msg), m.mid = w.mid → m.topic = p.eff w → m.src = j → m.body = w.body →
          s'.recvd = some (p.keys.map fun t => (t, if t = m.topic then some m else none)) →
          s'.reg = !gotAll s' → MSrcOK p j w.mid s' r) ∨
      (w.mid = F ∧ w.topics = p.ts ∧ (p.eff w = "" ∨ p.eff w ∈ p.keys) ∧
        ∃ g : Topic → Option Msg, s.recvd = some (p.keys.map fun t => (t, g t)) ∧
        ∀ (s' : Src) (m : Msg), m.mid = w.mid → m.topic = p.eff w → m.src = j → m.body = w.body →
          s'.recvd = some (p.keys.map fun t => (t, if t = m.topic then some m else g t)) →
          s'.reg = !gotAll s' → MSrcOK p j F s' r) ) := by
  rcases hok with ⟨hsuf, pre, rest, ws, e1, e2, h⟩
  have hwin : w ∈ p.wires := mem_of_suffix_cons hsuf
  have hsuf' : r <:+ p.wires := suffix_of_cons hsuf
  rcases h with ⟨tail, h1, h2, h3, _, h5⟩ | ⟨pre', done, todo, g, h1, h2, h3, h4, h5, h6, h7, h8⟩
  · -- idle
    cases tail with
    | cons w' tail' =>
      -- rest of an older block
      simp only [List.cons_append, List.cons.injEq] at h1
      rcases h1 with ⟨rfl, rfl⟩
      have hw := h2 w (List.mem_cons_self ..)
      refine ⟨hw.2.1, hw.2.2, Or.inl ⟨hw.1, h3, ?_⟩⟩
      intro s' hr hg
      exact ⟨hsuf', pre, rest, ws, e1, e2,
        Or.inl ⟨tail', rfl, fun x hx => h2 x (List.mem_cons_of_mem _ hx), hr, hg, h5⟩⟩
    | nil =>
      simp only [List.nil_append] at h1
      cases rest with
      | nil => rw [mstream_nil_inv e2] at h1; cases h1
      | cons k rest' =>
        rcases mstream_cons_inv e2 with ⟨b, ws', e3, hblk, hst⟩
        have habs := hblk.abs
        cases b with
        | nil => exact absurd rfl (isBlock_ne_nil hblk)
        | cons w0 b' =>
          rw [e3] at h1
          simp only [List.cons_append, List.cons.injEq] at h1
          rcases h1 with ⟨rfl, rfl⟩
          have hw := habs.1 w (List.mem_cons_self ..)
          have hkin : k ∈ p.ids := by rw [e1]; simp
          have hk0 := hp.nonneg k hkin
          refine ⟨by omega, hw.2.2, ?_⟩
          by_cases hlt : k < F
          · -- a whole block older than the frontier starts: its head is dropped
            left
            refine ⟨by omega, h3, ?_⟩
            intro s' hr hg
            refine ⟨hsuf', pre ++ [k], rest', ws', by rw [e1]; simp, hst, Or.inl ⟨b', rfl, ?_, hr, hg, ?_⟩⟩
            · intro x hx
              have := habs.1 x (List.mem_cons_of_mem _ hx)
              exact ⟨by omega, by omega, this.2.2⟩
            · intro c hc
              rw [List.mem_append] at hc
              rcases hc with hc | hc
              · exact h5 c hc
              · simp only [List.mem_singleton] at hc; omega
          · -- first message of a block that is not older: the source starts assembling that id
            right; left
            refine ⟨by omega, hw.2.1, habs.2.1 w (List.mem_cons_self ..), h3, by rw [hw.1]; exact hkin, ?_, ?_⟩
            · intro c hc hFc hck
              rw [hw.1] at hck
              have : c ∈ pre := sorted_before pre rest' k c (e1 ▸ hp.sorted) (e1 ▸ hc) hck
              have := h5 c this
              omega
            · intro s' m hm1 hm2 hm3 hm4 hr hg
              rw [hw.1]
              refine ⟨hsuf', pre ++ [k], rest', ws', by rw [e1]; simp, hst,
                Or.inr ⟨pre, [w], b', fun t => if t = m.topic then some m else none, rfl, ?_, habs, rfl, hr, ?_, ?_, hg⟩⟩
              · intro c hc; have := h5 c hc; omega
              · intro t _
                rw [hm2]
                by_cases e : t = p.eff w <;> simp [e]
              · intro t m' hm'
                by_cases e : t = m.topic
                · simp only [e, ↓reduceIte, Option.some.injEq] at hm'
                  subst hm'
                  exact ⟨by rw [hm1, hw.1], e.symm, hm3, w, hwin, hw.1, by rw [e, hm2], hm4.symm⟩
                · simp [e] at hm'
  · -- assembling F, not complete: the head is the next message of the block
    have hnot : gotAll s = false := by
      rw [hreg] at h8
      cases hc : gotAll s with
      | false => rfl
      | true => rw [hc] at h8; cases h8
    have hex : ∃ t ∈ p.keys, t ∉ done.map p.eff := by
      apply Classical.byContradiction
      intro hcon
      have : gotAll s = true := by
        rw [gotAll_map s p.keys g h5]
        intro t ht
        rw [h6 t ht]
        apply Classical.byContradiction
        intro hn
        exact hcon ⟨t, ht, hn⟩
      rw [this] at hnot; cases hnot
    rcases hex with ⟨t0, ht0, hnd⟩
    rcases h3.2.2 t0 ht0 with ⟨w1, hw1, hew1⟩
    have hw1t : w1 ∈ todo := by
      rcases List.mem_append.mp hw1 with hh | hh
      · exact absurd (List.mem_map.mpr ⟨w1, hh, hew1⟩) hnd
      · exact hh
    cases todo with
    | nil => cases hw1t
    | cons w0 todo' =>
      simp only [List.cons_append, List.cons.injEq] at h4
      rcases h4 with ⟨rfl, rfl⟩
      have hwb : w ∈ done ++ w :: todo' := by simp
      have hw := h3.1 w hwb
      have hFin : F ∈ p.ids := by rw [e1, h1]; simp
      have hF0 := hp.nonneg F hFin
      refine ⟨by omega, hw.2.2, Or.inr (Or.inr ⟨hw.1, hw.2.1, h3.2.1 w hwb, g, h5, ?_⟩)⟩
      intro s' m hm1 hm2 hm3 hm4 hr hg
      refine ⟨hsuf', pre, rest, ws, e1, e2,
        Or.inr ⟨pre', done ++ [w], todo', fun t => if t = m.topic then some m else g t, h1, h2, ?_, rfl, hr, ?_, ?_, hg⟩⟩
      · have : (done ++ [w]) ++ todo' = done ++ w :: todo' := by simp
        rw [this]; exact h3
      · intro t ht
        rw [hm2]
        by_cases e : t = p.eff w
        · simp [e]
        · simp only [e, ↓reduceIte, h6 t ht, List.map_append, List.map_cons, List.map_nil, List.mem_append,
            List.mem_singleton, or_false]
      · intro t m' hm'
        by_cases e : t = m.topic
        · simp only [e, ↓reduceIte, Option.some.injEq] at hm'
          subst hm'
          exact ⟨by rw [hm1, hw.1], e.symm, hm3, w, hwin, hw.1, by rw [e, hm2], hm4.symm⟩
        · simp only [e, ↓reduceIte] at hm'
          exact h7 t m' hm'

/-! ### the source after `storeRecvd` -/

theorem storeRecvd_after (s : Src) (r : Option Recvd) (ts : List Topic) (L : Recvd)
    (hL : r.map (fun r => prune s r ts) = some L) (hreg : s.reg = true) :
    (storeRecvd s r ts).recvd = some L ∧ (storeRecvd s r ts).reg = !gotAll (storeRecvd s r ts) ∧
    (storeRecvd s r ts).eph = s.eph ∧ (storeRecvd s r ts).subAll = s.subAll ∧ (storeRecvd s r ts).star = s.star ∧
    (storeRecvd s r ts).subs = s.subs ∧ (storeRecvd s r ts).queue = s.queue := by
  unfold storeRecvd
  simp only [hL]
  split
  · rename_i hc
    refine ⟨rfl, ?_, rfl, rfl, rfl, rfl, rfl⟩
    have : gotAll { s with recvd := some L, reg := false } = gotAll { s with recvd := some L } := rfl
    rw [this, hc]; rfl
  · rename_i hc
    refine ⟨rfl, ?_, rfl, rfl, rfl, rfl, rfl⟩
    have hc' : gotAll { s with recvd := some L } = false := by simpa using hc
    rw [hc']; exact hreg

/-! ### take -/

theorem take_MInv (sp : List PubSpec) (hsp : ∀ p ∈ sp, PubOK p) (n : NSt) (i : Nat) (h : MInv sp n) :
    MInv sp (nRecv n (.take i)).1 := by
  unfold nRecv step stepTake
  simp only
  by_cases hg : n.st.dead = true ∨ ¬ n.st.inCall = true
  · simp only [hg, ↓reduceIte]; exact h
  · simp only [hg, ↓reduceIte]
    have hd : n.st.dead = false := by
      cases hc : n.st.dead with
      | false => rfl
      | true => exact absurd (Or.inl hc) hg
    have hin : n.st.inCall = true := by
      cases hc : n.st.inCall with
      | true => rfl
      | false => exact absurd (Or.inr (by simp [hc])) hg
    have hexp : expected n.st = n.st.minRecvId := by unfold expected; simp [hin]
    cases hs : n.st.srcs[i]? with
    | none => exact h
    | some s0 =>
      simp only
      cases hreg : s0.reg with
      | false => simp only [Bool.false_eq_true, ↓reduceIte]; exact h
      | true =>
      simp only [↓reduceIte]
      have ⟨hbal, _, hall⟩ := h hd
      rcases hall i s0 hs with ⟨p, fut, ep, ef, hp, hok⟩
      have hpo : PubOK p := hsp p (List.mem_of_getElem? ep)
      cases hq : s0.queue with
      | nil => rw [onTake_empty n.st i s0 hs hq]; exact h
      | cons w q =>
        rw [hq] at hok
        have hok' : MSrcOK p i (expected n.st) s0 (w :: (q ++ fut)) := by simpa using hok
        have hlen : i < n.st.srcs.length := (List.getElem?_eq_some_iff.mp hs).1
        have hexp' : ∀ srcs, expected { n.st with srcs := srcs, minRecvId := w.mid } = w.mid := by
          intro srcs; unfold expected; simp [hin]
        -- the source with its head message removed
        have hp1 : MPlain p { s0 with queue := q, conn := true } := MPlain_congr p s0 _ rfl rfl rfl rfl hp
        -- common part of the two "not older" cases: the shape of the new state and how the invariant carries over
        have notOlder : ∀ (L : Recvd), n.st.minRecvId ≤ w.mid → w.topics = p.ts →
            ((processMsg { s0 with queue := q, conn := true } (takenMsg s0 i w) p.ts n.st.minRecvId).2).map
              (fun r => prune { s0 with queue := q, conn := true } r p.ts) = some L →
            (∀ s' : Src, s'.recvd = some L → s'.reg = !gotAll s' → MSrcOK p i w.mid s' (q ++ fut)) →
            MInv sp { n with st := (onTake n.st i).1 } := by
          intro L hge htop hL hnext
          have ⟨h0, hb0, _⟩ := mtake_src p hpo i (expected n.st) s0 w (q ++ fut) hok' hreg
          rw [onTake_sync n.st i s0 w q hs hq hp.1 h0 hge hb0 hbal, htop]
          have ⟨f1, f2, f3, f4, f5, f6, f7⟩ := storeRecvd_after { s0 with queue := q, conn := true }
            (processMsg { s0 with queue := q, conn := true } (takenMsg s0 i w) p.ts n.st.minRecvId).2 p.ts L hL hreg
          generalize storeRecvd { s0 with queue := q, conn := true }
            (processMsg { s0 with queue := q, conn := true } (takenMsg s0 i w) p.ts n.st.minRecvId).2 p.ts = sNew at f1 f2 f3 f4 f5 f6 f7
          have hown : MSrcOK p i w.mid sNew (sNew.queue ++ fut) := by
            rw [f7]; exact hnext sNew f1 f2
          by_cases hnew : n.st.minRecvId < w.mid
          · -- newer: adoption, the others are reset
            simp only [hnew, ↓reduceIte]
            refine MInv_of sp n _ rfl rfl (by simp [resetOthers]) ?_ h
            intro _ _ a s' ha
            simp only at ha
            rw [resetOthers_get, List.getElem?_set] at ha
            by_cases hia : i = a
            · subst hia
              simp only [hlen, ↓reduceIte, Option.map_some, ne_eq, not_true_eq_false, false_and, Option.some.injEq] at ha
              subst ha
              refine ⟨s0, hs, fun p' hp' => MPlain_congr p' s0 _ f3 f4 f5 f6 hp', ?_⟩
              intro fut' hfut'
              rw [ef] at hfut'; cases hfut'
              refine ⟨fut, ef, ?_⟩
              intro p' ep' _ _
              rw [ep] at ep'; cases ep'
              simp only
              rw [hexp']
              exact hown
            · simp only [hia, ↓reduceIte] at ha
              cases h0a : n.st.srcs[a]? with
              | none => rw [h0a] at ha; cases ha
              | some sa =>
                rw [h0a] at ha
                simp only [Option.map_some, Option.some.injEq] at ha
                refine ⟨sa, rfl, ?_, ?_⟩
                · intro p' hpa
                  subst ha
                  split
                  · exact MPlain_congr p' sa _ rfl rfl rfl rfl hpa
                  · exact hpa
                · intro fut' hfut'
                  refine ⟨fut', hfut', ?_⟩
                  intro p' ep' hpa hoka
                  have hcond : a ≠ i ∧ sa.eph = 0 := ⟨fun e => hia e.symm, hpa.1⟩
                  simp only [hcond, ne_eq, not_false_eq_true, and_self, ↓reduceIte] at ha
                  subst ha
                  simp only
                  rw [hexp']
                  exact MSrcOK_reset p' (hsp p' (List.mem_of_getElem? ep')) a (expected n.st) w.mid sa _ _
                    (by rw [hexp]; exact hnew) rfl rfl hoka
          · -- same id
            have hsame : w.mid = n.st.minRecvId := by omega
            simp only [hnew, ↓reduceIte]
            refine MInv_of sp n _ rfl rfl (by simp) ?_ h
            intro _ _ a s' ha
            simp only [List.getElem?_set] at ha
            by_cases hia : i = a
            · subst hia
              simp only [hlen, ↓reduceIte, Option.some.injEq] at ha
              subst ha
              refine ⟨s0, hs, fun p' hp' => MPlain_congr p' s0 _ f3 f4 f5 f6 hp', ?_⟩
              intro fut' hfut'
              rw [ef] at hfut'; cases hfut'
              refine ⟨fut, ef, ?_⟩
              intro p' ep' _ _
              rw [ep] at ep'; cases ep'
              simp only
              rw [hexp']
              exact hown
            · simp only [hia, ↓reduceIte] at ha
              refine ⟨s', ha, fun _ h => h, ?_⟩
              intro fut' hfut'
              refine ⟨fut', hfut', ?_⟩
              intro p' _ _ hoka
              simp only
              rw [hexp', hsame, ← hexp]
              exact hoka
        have hmt : (takenMsg s0 i w).topic = p.eff w := by
          unfold takenMsg PubSpec.eff; simp only; rw [hp.2.1, hp.2.2.2]
        rcases mtake_src p hpo i (expected n.st) s0 w (q ++ fut) hok' hreg with
          ⟨h0, hb0, ⟨hlt, hr0, hnext⟩ | ⟨hge, htop, hkey, hr0, _, _, hnext⟩ | ⟨heq, htop, hkey, g, hr0, hnext⟩⟩
        · -- older: dropped
          rw [onTake_older n.st i s0 w q hs hq hp.1 h0 (hexp ▸ hlt) hb0]
          refine MInv_of sp n _ rfl rfl (by simp) ?_ h
          intro _ _ a s' ha
          simp only [List.getElem?_set] at ha
          by_cases hia : i = a
          · subst hia
            simp only [hlen, ↓reduceIte, Option.some.injEq] at ha
            subst ha
            refine ⟨s0, hs, fun p' hp' => MPlain_congr p' s0 _ rfl rfl rfl rfl hp', ?_⟩
            intro fut' hfut'
            rw [ef] at hfut'; cases hfut'
            refine ⟨fut, ef, ?_⟩
            intro p' ep' _ _
            rw [ep] at ep'; cases ep'
            simp only
            exact hnext _ hr0 hreg
          · simp only [hia, ↓reduceIte] at ha
            refine ⟨s', ha, fun _ h => h, ?_⟩
            intro fut' hfut'
            exact ⟨fut', hfut', fun p' _ _ hok' => hok'⟩
        · -- first message of a block that is not older
          have hge' : n.st.minRecvId ≤ w.mid := hexp ▸ hge
          refine notOlder _ hge' htop
            (first_recvd p hpo { s0 with queue := q, conn := true } hp1 hr0 (takenMsg s0 i w) n.st.minRecvId hge'
              (hmt ▸ hkey)) ?_
          intro s' hr hg
          exact hnext s' (takenMsg s0 i w) rfl hmt rfl rfl hr hg
        · -- next message of the block being assembled
          have hge' : n.st.minRecvId ≤ w.mid := by rw [heq, hexp]; exact Int.le_refl _
          have hnb := notOlder _ hge' htop
            (next_recvd p hpo { s0 with queue := q, conn := true } hp1 g hr0 (takenMsg s0 i w) n.st.minRecvId
              (by show w.mid = _; rw [heq, hexp]) (hmt ▸ hkey))
          apply hnb
          intro s' hr hg
          rw [heq]
          exact hnext s' (takenMsg s0 i w) rfl hmt rfl rfl hr hg

/-! ### check / finish -/

theorem check_MInv (sp : List PubSpec) (hsp : ∀ p ∈ sp, PubOK p) (n : NSt) (h : MInv sp n) :
    MInv sp (nRecv n .check).1 := by
  unfold nRecv step stepCheck
  simp only
  by_cases hg : n.st.dead = true ∨ ¬ n.st.inCall = true
  · simp only [hg, ↓reduceIte]; exact h
  · simp only [hg, ↓reduceIte]
    have hin : n.st.inCall = true := by
      cases hc : n.st.inCall with
      | true => rfl
      | false => exact absurd (Or.inr (by simp [hc])) hg
    have hexp : expected n.st = n.st.minRecvId := by unfold expected; simp [hin]
    cases hrc : returnCond n.st with
    | false => simp only [Bool.false_eq_true, ↓reduceIte]; exact h
    | true =>
    simp only [↓reduceIte]
    unfold finish
    simp only
    split
    · intro hd'; simp at hd'
    · refine MInv_of sp n _ rfl rfl (by simp [newRecvAll]) ?_ h
      intro _ _ a s' ha
      simp only at ha
      rw [newRecvAll_get'] at ha
      cases h0a : n.st.srcs[a]? with
      | none => rw [h0a] at ha; cases ha
      | some sa =>
        rw [h0a] at ha
        simp only [Option.map_some, Option.some.injEq] at ha
        subst ha
        refine ⟨sa, rfl, fun p hp => MPlain_congr p sa _ rfl rfl rfl rfl hp, ?_⟩
        intro fut' hfut'
        refine ⟨fut', hfut', ?_⟩
        intro p' ep' hpa hoka
        have hexp' : expected { n.st with prevId := n.st.minRecvId, srcs := newRecvAll n.st.srcs, inCall := false } = n.st.minRecvId + 1 := by
          unfold expected; simp
        simp only
        rw [hexp']
        exact MSrcOK_reset p' (hsp p' (List.mem_of_getElem? ep')) a (expected n.st) _ sa _ _ (by rw [hexp]; omega) rfl rfl hoka

/-- **the multi-topic join invariant is preserved by every admissible network/receiver event** -/
theorem nstep_MInv (sp : List PubSpec) (hsp : ∀ p ∈ sp, PubOK p) (n : NSt) (e : NEv) (ha : NAdm e) (h : MInv sp n) :
    MInv sp (nstep n e).1 := by
  cases e with
  | deliverNext j => exact deliverNext_MInv sp n j h
  | recv e =>
    unfold nstep
    cases e with
    | deliver i w => exact absurd ha (by simp [NAdm])
    | «begin» state =>
      cases state with
      | none => exact begin_MInv sp n h
      | some k => exact absurd ha (by simp [NAdm])
    | take i => exact take_MInv sp hsp n i h
    | check => exact check_MInv sp hsp n h
    | request => exact request_MInv sp n h
    | timeout => exact timeout_MInv sp n h

end OF.Recv
