import OFProps.C06ChainRecover
set_option linter.unusedSimpArgs false
set_option linter.unusedVariables false
/-!
# C06 — the 3-node chain with restarts heals with a `pass` RELAY too

`FwdMain` (`C06ChainRestartInv.lean`) asks the relay to answer EVERY handed set with a one-frame `main` result; a `pass` relay
(`process = lambda frames: frames`, the behaviour the tie `net_chainrestart_campaign` runs in 4 of 5 trials) only does so when it is
handed a one-frame `main` set.  `FwdPass proc`: the source answers every call with a one-frame `main` result, the relay answers
every one-frame `main` set with one (dict, lone frame or callable).  Then every data message that ever reaches the relay's SUB
socket names exactly the topic `main` (`MainBuf`: queued wires and the partial receive buffer), so every set the relay is handed is
a one-frame `main` set: `RShapeM` = the shape invariant + `MainBuf` of the relay's receiver is an invariant of EVERY event
(restarts included), and the recovery proof of `C06ChainRecover.lean` — generic in the invariant (`InvOK`) — applies:
* `C06_net_chain3_pass_invariant`, `C06_net_chain3_recovers_pass` (+ `_at`), `C06_net_chain3_relay_resupplied_pass`,
  `C06_net_chain3_keeps_recovering_pass`.
`FwdMain proc → FwdPass proc` (`fwdPass_of_fwdMain`): these subsume the `FwdMain` theorems on reachable states.
-/
namespace OF.Net
open OF
open OF.Pair (PubIdle PubBusy Idle Busy Done Stale OthersStale)

/-! ## what the source puts on the wire names the topic `main` only -/

/-- a data message names exactly the topic `main` and is its frame or the heartbeat -/
def MainWire (w : Recv.Wire) : Prop :=
  OF.Facts.MSG_ID_SPECIAL < w.mid → w.topics = ["main"] ∧ (w.frame0 = "/main/" ∨ w.frame0 = "//")

def MainQ (q : List Recv.Wire) : Prop := ∀ w ∈ q, MainWire w

theorem mainQ_nil : MainQ [] := by intro w hw; cases hw

theorem mainQ_append (a b : List Recv.Wire) (ha : MainQ a) (hb : MainQ b) : MainQ (a ++ b) := by
  intro w hw
  rcases List.mem_append.mp hw with h | h
  · exact ha w h
  · exact hb w h

theorem mainWire_close (p : Nat) : MainWire (closeWire p) := by
  intro h
  have h' : OF.Facts.MSG_ID_SPECIAL < OF.Facts.MSG_ID_CLOSE := h
  exact absurd h' (by decide)

open OF.Send in
theorem onReq_nowires (u : Nat) (st : Send.St) (j : Nat) (r : Req) (t : Int) : (onReq st j r t).2.1.filterMap (wireOf u) = [] := by
  unfold onReq
  simp only
  split
  · split
    · rfl
    · split <;> rfl
  · split
    · rfl
    · split <;> rfl

open OF.Send in
theorem drain_nowires (u : Nat) : ∀ (f : Nat) (st : Send.St) (q : List Req) (t : Int), PubBusy st q → q.length < f →
    (drain f st [0] t).2.filterMap (wireOf u) = [] := by
  intro f
  induction f with
  | zero => intro st q t _ hl; omega
  | succ f ih =>
    intro st q t h hl
    cases q with
    | nil => rw [Pair.drain_nil f st t h]; rfl
    | cons r q' =>
      rw [Pair.drain_cons f st r q' t h, Pair.stepHandle_cons st r q' t h]
      have hp := Pair.popped_busy st r q' h
      have ⟨T, hT, ht⟩ := Pair.exists_stale (Pair.popped st q').clients t
      have ⟨g1, _, _, _, _⟩ := Pair.onReq_general (Pair.popped st q') q' r t T hp hT ht
      have hnw := onReq_nowires u (Pair.popped st q') 0 r t
      split
      · simp only [endCall]
        rw [Pair.drain_ended _ _ _ rfl]
        simp only [List.append_nil, List.filterMap_append, hnw]
        rfl
      · have hl' : q'.length < f := by simp at hl; omega
        simp only [List.filterMap_append, hnw, List.nil_append]
        exact ih _ q' t g1 hl'

open OF.Send in
theorem publish_mainwires (u : Nat) (st : Send.St) (b : Nat) :
    ∀ w ∈ (publish st [("main", b)]).2.filterMap (wireOf u), w.topics = ["main"] ∧ (w.frame0 = "/main/" ∨ w.frame0 = "//") := by
  intro w hw
  rw [List.mem_filterMap] at hw
  rcases hw with ⟨o, ho, hwo⟩
  unfold publish at ho
  simp only [List.flatMap_cons, List.flatMap_nil, List.append_nil, List.map_cons, List.map_nil, List.mem_append, List.mem_map] at ho
  rcases ho with ⟨x, _, rfl⟩ | ⟨x, _, rfl⟩
  · simp only [wireOf, Pair.frame0_main, Pair.slash_main, ↓reduceIte, Option.some.injEq] at hwo
    rw [← hwo]; exact ⟨rfl, Or.inl rfl⟩
  · simp only [wireOf, Pair.slash_hb, ↓reduceIte, Option.some.injEq] at hwo
    rw [← hwo]; exact ⟨rfl, Or.inr rfl⟩

open OF.Send in
theorem hello_mainwires (u : Nat) (st : Send.St) (ret : Option Bool) : MainQ ((helloOuts st ret).filterMap (wireOf u)) := by
  intro w hw
  rw [List.mem_filterMap] at hw
  rcases hw with ⟨o, ho, hwo⟩
  unfold helloOuts at ho
  split at ho
  · rw [List.mem_map] at ho
    rcases ho with ⟨x, _, rfl⟩
    simp only [wireOf, Option.some.injEq] at hwo
    rw [← hwo]
    intro h
    have h' : OF.Facts.MSG_ID_SPECIAL < OF.Facts.MSG_ID_HELLO := h
    exact absurd h' (by decide)
  · cases ho

open OF.Send in
theorem sendMaybe_mainwires (u : Nat) (st : Send.St) (b : Nat) (hp : st.payload = mainPl b) (hb : st.balance = false) :
    MainQ ((sendMaybe st).2.1.filterMap (wireOf u)) := by
  rcases sendMaybe_deferred st (some [("main", b)]) hp hb with e | ⟨e, _⟩ | ⟨ts, e1, e⟩
  · rw [e]; exact hello_mainwires u st _
  · cases e
  · rw [e]
    have : ts = [("main", b)] := by simpa using e1.symm
    subst this
    intro w hw
    simp only [List.filterMap_append, List.filterMap_cons, List.filterMap_nil, wireOf, List.nil_append] at hw
    intro _
    exact publish_mainwires u _ b w hw

open OF.Send in
/-- **one whole `send` of a one-frame `main` result, whatever is queued**: every data message put on the wire names `main` only -/
theorem send0_mainwires (u : Nat) (p : Send.St) (q : List Req) (state : Option (Int × Nat)) (b : Nat) (t : Int)
    (h : PubIdle p q) (hk : p.minSendId ≤ (callKey p state).1) :
    MainQ ((send0 p state (mainPl b) false [0] t).2.filterMap (wireOf u)) := by
  have ⟨hbusy, heq⟩ := send0_unfold_gen p q state (mainPl b) t h hk
  rw [heq]
  have hnw := drain_nowires u (q.length + 1) _ q t hbusy (by omega)
  have ⟨T, hT, ht⟩ := Pair.exists_stale p.clients t
  have ⟨_, _, d3⟩ := Pair.drain_spec (q.length + 1) _ q t T hbusy hT ht (by omega)
  split
  · rw [hnw]; exact mainQ_nil
  · rename_i hin
    rcases d3 with ⟨d3, d4⟩ | ⟨q', d3, _⟩
    · have hpay : (drain (q.length + 1) (beginWith p (callKey p state).1 (callKey p state).2 (mainPl b) false) [0] t).1.payload =
          mainPl b := by rw [d4]; rfl
      have hm := sendMaybe_mainwires u _ b hpay d3.balance
      split
      · simp only [List.filterMap_append, hnw, List.nil_append, List.filterMap_cons, List.filterMap_nil, wireOf, List.append_nil]
        exact hm
      · simp only [List.filterMap_append, hnw, List.nil_append, List.filterMap_cons, List.filterMap_nil, wireOf, List.append_nil]
        exact hm
    · exact absurd d3.inCall hin

/-! ## the receiver: a buffer that names `main` only hands out one-frame `main` sets -/

def MainRecvd (r : Option Recv.Recvd) : Prop := ∀ l, r = some l → l.map (·.1) = ["main"]

/-- queued wires and the partial buffer of every source name the topic `main` only -/
def MainBuf (c : Recv.St) : Prop := ∀ s ∈ c.srcs, MainQ s.queue ∧ MainRecvd s.recvd

theorem mainRecvd_none : MainRecvd none := by intro l hl; cases hl

theorem mainBuf_pushWires (c : Recv.St) (ups : List Nat) (p : Nat) (ws : List Recv.Wire) (h : MainBuf c) (hw : MainQ ws) :
    MainBuf (pushWires c ups p ws) := by
  intro s hs
  simp only [pushWires, List.mem_mapIdx] at hs
  rcases hs with ⟨j, hj, rfl⟩
  have := h c.srcs[j] (List.getElem_mem hj)
  split
  · exact ⟨mainQ_append _ _ this.1 hw, this.2⟩
  · exact this

theorem initRecvd_main_keys (s : Recv.Src) (m : Recv.Msg) (hs : s.star = false) :
    (Recv.initRecvd s m ["main"]).map (·.1) = ["main"] := by
  unfold Recv.initRecvd
  simp [Pair.main_not_hidden, hs, Recv.dset]

theorem any_main_of_keys (l : Recv.Recvd) (h : l.map (·.1) = ["main"]) : l.any (·.1 == "main") = true := by
  cases l with
  | nil => cases h
  | cons x xs =>
    simp only [List.map_cons, List.cons.injEq] at h
    simp [h.1]

theorem processMsg_main (s : Recv.Src) (m : Recv.Msg) (k : Int) (hsub : s.subAll = true) (hstar : s.star = false)
    (ht : m.topic = "main" ∨ m.topic = "") (hr : MainRecvd s.recvd) : MainRecvd (Recv.processMsg s m ["main"] k).2 := by
  intro l hl
  unfold Recv.processMsg at hl
  split at hl
  · exact hr l hl
  · split at hl
    · cases hl; exact initRecvd_main_keys s m hstar
    · rename_i l0 hl0
      split at hl
      · cases hl
        split
        · rename_i hne
          have htm : m.topic = "main" := by
            rcases ht with h | h
            · exact h
            · exact absurd h hne
          rw [Pair.dset_keys, htm, any_main_of_keys l0 (hr l0 hl0)]
          simp only [↓reduceIte]
          exact hr l0 hl0
        · exact hr l0 hl0
      · cases hl
        unfold Recv.newRecvWith Recv.recvdNew
        simp only [hsub, ↓reduceIte]
        exact initRecvd_main_keys s m hstar

/-- one take keeps the buffer `main`-only -/
theorem onTake_main (c : Recv.St) (s : Recv.Src) (w : Recv.Wire) (rest : List Recv.Wire) (h : Busy c s) (hq : s.queue = w :: rest)
    (hw : MainWire w) (hr : MainRecvd s.recvd) :
    ∃ s1, (Recv.onTake c 0).1.srcs = [s1] ∧ s1.queue = rest ∧ MainRecvd s1.recvd := by
  have hs0 : c.srcs[0]? = some s := by rw [h.srcs]; rfl
  unfold Recv.onTake
  simp only [hs0, hq]
  have hbal : (if s.eph = 0 then w.bal else 0) = w.bal := by simp [h.shape.eph]
  rw [hbal]
  generalize hst1 : (if w.bal ≠ 0 then { c with balanced := w.bal } else c) = c1
  have e : c1.srcs = c.srcs ∧ c1.balance = c.balance := by
    subst hst1; by_cases hb : w.bal ≠ 0 <;> simp [hb]
  rcases e with ⟨e1, e6⟩
  have hset : ∀ x : Recv.Src, c1.srcs.set 0 x = [x] := by intro x; rw [e1, h.srcs]; rfl
  split
  · -- special
    unfold Recv.takeSpecial
    split
    · exact ⟨_, hset _, rfl, hr⟩
    · split
      · exact ⟨_, hset _, rfl, hr⟩
      · exact ⟨_, hset _, rfl, hr⟩
  · rename_i hdata
    have hsp : OF.Facts.MSG_ID_SPECIAL < w.mid := by omega
    have ⟨htop, hfr⟩ := hw hsp
    split
    · rename_i hne; exact absurd h.shape.eph hne
    unfold Recv.takeSync
    rw [htop]
    have httopic : Recv.effTopic s.subAll s.subs (Recv.decodeTopic w.frame0) = "main" ∨
        Recv.effTopic s.subAll s.subs (Recv.decodeTopic w.frame0) = "" := by
      rcases hfr with hf | hf
      · left; rw [hf, Pair.decode_main]; simp [Recv.effTopic, h.shape.subAll]
      · right; rw [hf, decode_hb]; simp [Recv.effTopic]
    have hpm := processMsg_main { s with queue := rest, conn := true }
      { mid := w.mid, topic := Recv.effTopic s.subAll s.subs (Recv.decodeTopic w.frame0), body := w.body, src := 0 }
      c1.minRecvId h.shape.subAll h.shape.star httopic hr
    split
    · exact ⟨_, hset _, rfl, hr⟩
    · rename_i x res r hno heq
      rw [heq] at hpm
      have hst := Pair.storeRecvd_spec { s with queue := rest, conn := true } r ["main"] h.shape.subAll h.reg
      unfold Recv.syncApply
      simp only [e6, h.static.balance, Bool.false_eq_true, not_false_eq_true, and_true, false_and, ↓reduceIte, Bool.false_and]
      have hreset : ∀ x : Recv.Src, Recv.resetOthers [x] 0 = [x] := by intro x; simp [Recv.resetOthers]
      rw [hset]
      have hsrcs : (if res = Recv.PM.newer then Recv.resetOthers [Recv.storeRecvd { s with queue := rest, conn := true } r ["main"]] 0
          else [Recv.storeRecvd { s with queue := rest, conn := true } r ["main"]]) =
          [Recv.storeRecvd { s with queue := rest, conn := true } r ["main"]] := by
        split
        · exact hreset _
        · rfl
      rw [hsrcs]
      exact ⟨_, rfl, hst.2.2.1, by rw [hst.1]; exact hpm⟩

/-- `recv_once(0)` keeps the buffer `main`-only -/
theorem recvOnce0_main : ∀ (f : Nat) (c : Recv.St) (s : Recv.Src), Busy c s → s.queue.length < f → MainQ s.queue →
    MainRecvd s.recvd →
    ∃ s', (Recv.recvOnce0 f c [0]).1.srcs = [s'] ∧ MainQ s'.queue ∧ MainRecvd s'.recvd := by
  intro f
  induction f with
  | zero => intro c s _ hl; omega
  | succ f ih =>
    intro c s h hl hmq hmr
    cases hq : s.queue with
    | nil =>
      rw [Pair.recvOnce0_nil f c s h hq]
      exact ⟨s, h.srcs, hmq, hmr⟩
    | cons w rest =>
      rw [Pair.recvOnce0_cons f c s w rest h hq]
      have ⟨⟨s1, ht⟩, _⟩ := Pair.onTake_busy c s w rest h hq
      have ⟨hrc, _, hbusy⟩ := Pair.took_next c _ s s1 w rest h ht
      have hwm : MainWire w := hmq w (by rw [hq]; exact List.mem_cons_self ..)
      have hrest : MainQ rest := fun x hx => hmq x (by rw [hq]; exact List.mem_cons_of_mem _ hx)
      have ⟨s1', a1, a2, a3⟩ := onTake_main c s w rest h hq hwm hmr
      have hs1 : s1' = s1 := by
        have : [s1'] = [s1] := by rw [← a1, ht.srcs]
        simpa using this
      subst hs1
      rw [hrc]
      cases hg : Recv.gotAll s1' with
      | true =>
        simp only [↓reduceIte]
        exact ⟨s1', a1, by rw [a2]; exact hrest, a3⟩
      | false =>
        simp only [Bool.false_eq_true, ↓reduceIte]
        have hl1 : s1'.queue.length < f := by rw [a2]; rw [hq] at hl; simp at hl; omega
        exact ih _ s1' (hbusy hg) hl1 (by rw [a2]; exact hrest) a3

theorem srcFrames_main (s : Recv.Src) (hsubs : s.subs = []) (hg : Recv.gotAll s = true) (hr : MainRecvd s.recvd) :
    (Recv.srcFrames s).map (·.1) = ["main"] := by
  unfold Recv.gotAll at hg
  unfold Recv.srcFrames
  cases hrec : s.recvd with
  | none => rw [hrec] at hg; cases hg
  | some l =>
    rw [hrec] at hg
    have hk := hr l hrec
    simp only at hg ⊢
    cases l with
    | nil => cases hk
    | cons x xs =>
      simp only [List.map_cons, List.cons.injEq, List.map_eq_nil_iff] at hk
      rcases hk with ⟨hx, hxs⟩
      subst hxs
      rcases x with ⟨t, v⟩
      simp only at hx
      subst hx
      cases v with
      | none => simp at hg
      | some m => simp [hsubs]

/-- **one whole `recv(state, 0)`**: the buffer stays `main`-only and a returned set is a one-frame `main` set -/
theorem call0_main (c : Recv.St) (s : Recv.Src) (state : Option Int) (h : Idle c s) (hmq : MainQ s.queue) (hmr : MainRecvd s.recvd) :
    MainBuf (Recv.call0 c state [0]).1 ∧
    ∀ id bal data, retOf (Recv.call0 c state [0]).2 = some (id, bal, data) → data.map (·.1) = ["main"] := by
  rw [call0_unfold_state c s state h]
  have hbusy := beginSt_busy c s state h
  have hspec := Pair.recvOnce0_spec (s.queue.length + 1) (beginSt c state) s hbusy (by omega)
  have hmain := recvOnce0_main (s.queue.length + 1) (beginSt c state) s hbusy (by omega) hmq hmr
  generalize Recv.recvOnce0 (s.queue.length + 1) (beginSt c state) [0] = r at hspec hmain ⊢
  rcases r with ⟨c1, o1, g⟩
  simp only at hspec hmain ⊢
  rcases hspec with ⟨hq, _, _, s', _, hres⟩
  rcases hmain with ⟨sm, m1, m2, m3⟩
  rcases hres with ⟨hg, hd, _⟩ | ⟨hg, hb, hempty, _⟩
  · subst hg
    simp only [↓reduceIte]
    have hsm : sm = s' := by
      have : [sm] = [s'] := by rw [← m1, hd.srcs]
      simpa using this
    subst hsm
    have hkeys := Pair.srcFrames_keys sm hd.shape.subs hd.keys
    have hasm : Recv.assemble (c1.srcs.flatMap Recv.srcFrames) [] = .inr (Recv.srcFrames sm) := by
      rw [hd.srcs]
      simp only [List.flatMap_cons, List.flatMap_nil, List.append_nil]
      rw [Pair.assemble_ok _ [] hkeys (by intro _ _ a ha; cases ha)]; rfl
    have hnew : Recv.newRecvAll c1.srcs = [{ sm with recvd := none, reg := true }] := by
      rw [hd.srcs]; simp [Recv.newRecvAll, Recv.recvdNew, hd.shape.subAll]
    have hfin : Recv.finish c1 =
        ({ c1 with prevId := c1.minRecvId, srcs := [{ sm with recvd := none, reg := true }], inCall := false },
         (if !c1.lowLat && c1.balanced ≠ 1 then Recv.requests c1 c1.minRecvId else []) ++
           [.ret c1.minRecvId c1.balanced (Recv.srcFrames sm)]) := by
      unfold Recv.finish
      simp only [hasm, hnew]
    rw [hfin]
    refine ⟨?_, ?_⟩
    · intro x hx
      simp only [List.mem_singleton] at hx
      subst hx
      exact ⟨m2, mainRecvd_none⟩
    · intro id bal data hret
      simp only at hret
      rw [retOf_noReqRet _ _ (noReqRet_of_quiet _ hq)] at hret
      have hd2 : data = Recv.srcFrames sm := by
        split at hret
        · rw [Pair.requests_single c1 sm hd.srcs hd.shape.eph] at hret
          simp only [List.cons_append, List.nil_append, retOf, Option.some.injEq, Prod.mk.injEq] at hret
          exact hret.2.2.symm
        · simp only [List.nil_append, retOf, Option.some.injEq, Prod.mk.injEq] at hret
          exact hret.2.2.symm
      rw [hd2]
      exact srcFrames_main sm hd.shape.subs hd.all m3
  · subst hg
    simp only [Bool.false_eq_true, ↓reduceIte]
    refine ⟨?_, ?_⟩
    · intro x hx
      have : (Pair.timeoutSt c1).srcs = c1.srcs := rfl
      rw [this, m1] at hx
      simp only [List.mem_singleton] at hx
      subst hx
      exact ⟨m2, m3⟩
    · intro id bal data hret
      rw [Pair.requests_single c1 s' hb.srcs hb.shape.eph] at hret
      simp only [List.append_assoc, List.cons_append, List.nil_append] at hret
      rw [retOf_timeout_case _ _ _ (noReqRet_of_quiet _ hq)] at hret
      cases hret

/-! ## the invariant: shapes + the relay's receiver is `main`-only -/

/-- the source answers every call with a one-frame `main` result; the relay answers every one-frame `main` set with a one-frame
`main` result (dict, lone frame or callable) — a `pass` relay does -/
structure FwdPass (proc : Proc) : Prop where
  src : ∀ n h, ∃ b, dictOf (Loop.processFrames (proc 0 n h)) = some [("main", b)]
  relay : ∀ n x, ∃ b, dictOf (Loop.processFrames (proc 1 n [("main", x)])) = some [("main", b)]

theorem fwdPass_of_fwdMain (proc : Proc) (hf : FwdMain proc) : FwdPass proc :=
  ⟨fun n h => hf 0 n h (by omega), fun n x => hf 1 n _ (by omega)⟩

/-- the shape invariant + every data message in the relay's SUB queue / partial buffer names the topic `main` only -/
def RShapeM (st : St) : Prop := ∃ n0 n1 n2, st.nodes = [n0, n1, n2] ∧ N0 n0 ∧ N1 n1 ∧ N2 n2 ∧ MainBuf n1.con

theorem rshape_of_M (st : St) (h : RShapeM st) : RShape st := by
  rcases h with ⟨n0, n1, n2, hn, h0, h1, h2, _⟩
  exact ⟨n0, n1, n2, hn, h0, h1, h2⟩

theorem n0_processedP (proc : Proc) (hp : FwdPass proc) (nd : Node) (h : N0 nd) : N0 (processed proc 0 nd []) := by
  refine ⟨h.srcs, h.pub, h.sstate, ?_⟩
  intro p hp'
  simp only [processed, Option.some.injEq] at hp'
  subst hp'
  exact hp.src nd.count _

theorem afterRecv_con (proc : Proc) (tbl : List Entry) (i : Nat) (nd : Node) (r : Recv.St × List Recv.Out) :
    (afterRecv proc tbl i nd r).con = r.1 := by
  unfold afterRecv; split <;> rfl

theorem n1_afterRecvP (proc : Proc) (hp : FwdPass proc) (tbl : List Entry) (nd : Node) (h : N1 nd) (hpn : nd.pending = none)
    (hm : MainBuf nd.con) :
    N1 (afterRecv proc tbl 1 nd (Recv.call0 nd.con nd.recvState [0])) ∧
    MainBuf (afterRecv proc tbl 1 nd (Recv.call0 nd.con nd.recvState [0])).con := by
  rcases h.con with ⟨s, hs⟩
  have hms := hm s (by rw [hs.srcs]; exact List.mem_singleton.mpr rfl)
  have ⟨hmb, hdat⟩ := call0_main nd.con s nd.recvState hs hms.1 hms.2
  refine ⟨?_, by rw [afterRecv_con]; exact hmb⟩
  have ⟨s', ho⟩ := call0_gen nd.con s nd.recvState hs
  have hfree := h.free hpn
  generalize Recv.call0 nd.con nd.recvState [0] = R at ho hdat
  rcases ho.out with ⟨o1, pre, id, bal, data, h1, h2, h3, h4, h5, _⟩ | ⟨o1, h1, h2, _⟩
  · have hr : retOf R.2 = some (id, bal, data) := by rw [h2]; exact retOf_ret_case _ _ _ _ _ _ h1 h3
    have hd := hdat id bal data hr
    unfold afterRecv
    rw [hr]
    refine ⟨⟨s', ho.idle⟩, h.pub, ?_, ?_, ?_⟩
    · intro p hp'
      simp only [processed, Option.some.injEq] at hp'
      subst hp'
      simp only
      cases data with
      | nil => cases hd
      | cons x xs =>
        simp only [List.map_cons, List.cons.injEq, List.map_eq_nil_iff] at hd
        rcases hd with ⟨hx, hxs⟩
        subst hxs
        simp only [List.map_cons, List.map_nil, hframe, hx]
        exact hp.relay _ _
    · intro p' _
      exact ⟨id, bal, rfl, by show nd.pub.minSendId ≤ id; unfold floorOf at hfree; omega⟩
    · intro hc; simp [processed] at hc
  · have hr : retOf R.2 = none := by rw [h2]; exact retOf_timeout_case _ _ _ h1
    unfold afterRecv
    rw [hr]
    refine ⟨⟨s', ho.idle⟩, h.pub, h.main, h.held, ?_⟩
    intro _
    have := beginId_mono nd.con R.1 nd.recvState ho.floor
    show nd.pub.minSendId ≤ Recv.beginId R.1 nd.recvState
    unfold floorOf at hfree; omega

theorem rshapeM_recv (proc : Proc) (hp : FwdPass proc) (st : St) (i : Nat) (h : RShapeM st) : RShapeM (stepRecv T3 proc st i).1 := by
  rcases h with ⟨n0, n1, n2, hn, h0, h1, h2, hm⟩
  unfold stepRecv
  match i with
  | 0 =>
    simp only [hn, List.getElem?_cons_zero]
    split
    · exact ⟨n0, n1, n2, hn, h0, h1, h2, hm⟩
    · simp only [h0.srcs, List.isEmpty_nil, ↓reduceIte, recvSource, hn, List.set_cons_zero]
      exact ⟨_, n1, n2, rfl, n0_processedP proc hp n0 h0, h1, h2, hm⟩
  | 1 =>
    simp only [hn, List.getElem?_cons_succ, List.getElem?_cons_zero]
    rcases h1.con with ⟨s, hs⟩
    split
    · exact ⟨n0, n1, n2, hn, h0, h1, h2, hm⟩
    · rename_i hpn
      have hp' : n1.pending = none := by
        cases hx : n1.pending with
        | none => rfl
        | some _ => rw [hx] at hpn; exact absurd rfl hpn
      simp only [isEmpty_single _ s hs.srcs, Bool.false_eq_true, ↓reduceIte, recvRelay, hn, range_single _ s hs.srcs,
        List.set_cons_succ, List.set_cons_zero, deliverReqs, List.mapIdx_cons, List.mapIdx_nil]
      have ⟨a1, a2⟩ := n1_afterRecvP proc hp st.tbl n1 h1 hp' hm
      refine ⟨_, _, _, rfl, ?_, ?_, ?_, a2⟩
      · have := n0_push n0 h0 [] 0 [] ((Recv.call0 n1.con n1.recvState [0]).2.filterMap (reqOf 1 n1.gen (T3.upsOf 1) 0))
        rw [pushWires_nil] at this; exact this
      · have := n1_push _ a1 0 0 []
          ((Recv.call0 n1.con n1.recvState [0]).2.filterMap (reqOf 1 n1.gen (T3.upsOf 1) (0 + 1)))
        rw [pushWires_nil] at this; exact this
      · have := n2_push n2 h2 0 0 [] ((Recv.call0 n1.con n1.recvState [0]).2.filterMap (reqOf 1 n1.gen (T3.upsOf 1) (0 + 1 + 1)))
        rw [pushWires_nil] at this; exact this
  | 2 =>
    simp only [hn, List.getElem?_cons_succ, List.getElem?_cons_zero]
    rcases h2.con with ⟨s, hs⟩
    split
    · exact ⟨n0, n1, n2, hn, h0, h1, h2, hm⟩
    · simp only [isEmpty_single _ s hs.srcs, Bool.false_eq_true, ↓reduceIte, recvRelay, hn, range_single _ s hs.srcs,
        List.set_cons_succ, List.set_cons_zero, deliverReqs, List.mapIdx_cons, List.mapIdx_nil]
      refine ⟨_, _, _, rfl, ?_, ?_, ?_, hm⟩
      · have := n0_push n0 h0 [] 0 [] ((Recv.call0 n2.con n2.recvState [0]).2.filterMap (reqOf 2 n2.gen (T3.upsOf 2) 0))
        rw [pushWires_nil] at this; exact this
      · have := n1_push n1 h1 0 0 [] ((Recv.call0 n2.con n2.recvState [0]).2.filterMap (reqOf 2 n2.gen (T3.upsOf 2) (0 + 1)))
        rw [pushWires_nil] at this; exact this
      · have := n2_push _ (n2_afterRecv proc st.tbl n2 h2) 0 0 []
          ((Recv.call0 n2.con n2.recvState [0]).2.filterMap (reqOf 2 n2.gen (T3.upsOf 2) (0 + 1 + 1)))
        rw [pushWires_nil] at this; exact this
  | k + 3 =>
    simp only [hn, List.getElem?_cons_succ, List.getElem?_nil]
    exact ⟨n0, n1, n2, hn, h0, h1, h2, hm⟩

theorem rshapeM_send (proc : Proc) (st : St) (i : Nat) (t : Int) (h : RShapeM st) : RShapeM (stepSend T3 st i t).1 := by
  rcases h with ⟨n0, n1, n2, hn, h0, h1, h2, hm⟩
  unfold stepSend
  match i with
  | 0 =>
    simp only [hn, List.getElem?_cons_zero]
    split
    · exact ⟨n0, n1, n2, hn, h0, h1, h2, hm⟩
    · rename_i p hp
      have ⟨b, hb⟩ := h0.main p hp
      rcases h0.pub with ⟨q, hq⟩
      have hw : MainQ ((Send.send0 n0.pub n0.sendState (payloadOf st.tbl.length p.res) false [0] t).2.filterMap (wireOf 0)) := by
        rw [payloadOf_main _ p.res b hb]
        exact send0_mainwires 0 n0.pub q n0.sendState _ t hq (by rw [h0.sstate]; exact Int.le_refl _)
      simp only [reaches_main _ _ b hb, t3_out0, ↓reduceIte, sendReal, hn, List.set_cons_zero, deliverWires, List.mapIdx_cons,
        List.mapIdx_nil]
      refine ⟨_, _, _, rfl, ?_, ?_, ?_, mainBuf_pushWires _ _ _ _ hm hw⟩
      · have := n0_push _ (n0_afterSend n0 p st.tbl.length t h0 hp) (T3.upsOf 0) 0
          ((Send.send0 n0.pub n0.sendState (payloadOf st.tbl.length p.res) false [0] t).2.filterMap (wireOf 0)) []
        rw [pushReqs_nil] at this; exact this
      · have := n1_push n1 h1 0 0 ((Send.send0 n0.pub n0.sendState (payloadOf st.tbl.length p.res) false [0] t).2.filterMap (wireOf 0)) []
        rw [pushReqs_nil] at this
        rw [t3_ups1]; exact this
      · have := n2_push n2 h2 1 0 ((Send.send0 n0.pub n0.sendState (payloadOf st.tbl.length p.res) false [0] t).2.filterMap (wireOf 0)) []
        rw [pushReqs_nil] at this
        rw [t3_ups2]; exact this
  | 1 =>
    simp only [hn, List.getElem?_cons_succ, List.getElem?_cons_zero]
    split
    · exact ⟨n0, n1, n2, hn, h0, h1, h2, hm⟩
    · rename_i p hp
      have ⟨b, hb⟩ := h1.main p hp
      rcases h1.pub with ⟨q, hq⟩
      have ⟨a, bl, hss, hle⟩ := h1.held p hp
      have hw : MainQ ((Send.send0 n1.pub n1.sendState (payloadOf st.tbl.length p.res) false [0] t).2.filterMap (wireOf 1)) := by
        rw [payloadOf_main _ p.res b hb]
        exact send0_mainwires 1 n1.pub q n1.sendState _ t hq (by rw [hss]; exact hle)
      simp only [reaches_main _ _ b hb, t3_out1, ↓reduceIte, sendReal, hn, List.set_cons_succ, List.set_cons_zero, deliverWires,
        List.mapIdx_cons, List.mapIdx_nil]
      refine ⟨_, _, _, rfl, ?_, ?_, ?_, mainBuf_pushWires _ _ _ _ (by rw [afterSend_con]; exact hm) hw⟩
      · have := n0_push n0 h0 (T3.upsOf 0) 1
          ((Send.send0 n1.pub n1.sendState (payloadOf st.tbl.length p.res) false [0] t).2.filterMap (wireOf 1)) []
        rw [pushReqs_nil] at this; exact this
      · have := n1_push _ (n1_afterSend n1 p st.tbl.length t h1 hp) 0 1
          ((Send.send0 n1.pub n1.sendState (payloadOf st.tbl.length p.res) false [0] t).2.filterMap (wireOf 1)) []
        rw [pushReqs_nil] at this
        rw [t3_ups1]; exact this
      · have := n2_push n2 h2 1 1 ((Send.send0 n1.pub n1.sendState (payloadOf st.tbl.length p.res) false [0] t).2.filterMap (wireOf 1)) []
        rw [pushReqs_nil] at this
        rw [t3_ups2]; exact this
  | 2 =>
    simp only [hn, List.getElem?_cons_succ, List.getElem?_cons_zero]
    split
    · exact ⟨n0, n1, n2, hn, h0, h1, h2, hm⟩
    · rename_i p hp
      have hr : Loop.reachesSender (T3.hasOut 2) p.res = false := by rw [t3_out2]; cases p.res <;> rfl
      simp only [hr, Bool.false_eq_true, ↓reduceIte, sendSkip, hn, List.set_cons_succ, List.set_cons_zero]
      exact ⟨n0, n1, _, rfl, h0, h1, ⟨h2.con, h2.rstate⟩, hm⟩
  | k + 3 =>
    simp only [hn, List.getElem?_cons_succ, List.getElem?_nil]
    exact ⟨n0, n1, n2, hn, h0, h1, h2, hm⟩

theorem mainQ_closeIf (c : Bool) (p : Nat) : MainQ (if c = true then [closeWire p] else []) := by
  split
  · intro w hw
    simp only [List.mem_singleton] at hw
    rw [hw]; exact mainWire_close p
  · exact mainQ_nil

theorem mainBuf_fresh (g : Nat) : MainBuf (freshNode T3 1 g).con := by
  intro s hs
  have hc : (freshNode T3 1 g).con = Recv.mkSt [Recv.mkSrc 0 none] false false := by simp [freshNode, t3_ups1]
  rw [hc] at hs
  simp only [Recv.mkSt, List.mem_singleton] at hs
  subst hs
  exact ⟨mainQ_nil, mainRecvd_none⟩

theorem rshapeM_restart (st : St) (i : Nat) (g : Bool) (h : RShapeM st) : RShapeM (stepRestart T3 st i g).1 := by
  rcases h with ⟨n0, n1, n2, hn, h0, h1, h2, hm⟩
  unfold stepRestart
  match i with
  | 0 =>
    simp only [hn, List.getElem?_cons_zero, List.set_cons_zero, deliverReqs, deliverWires, List.mapIdx_cons, List.mapIdx_nil]
    exact ⟨_, _, _, rfl, n0_push _ (n0_fresh _) _ _ _ _, by rw [t3_ups1]; exact n1_push _ h1 _ _ _ _,
      by rw [t3_ups2]; exact n2_push _ h2 _ _ _ _, mainBuf_pushWires _ _ _ _ hm (mainQ_closeIf _ _)⟩
  | 1 =>
    simp only [hn, List.getElem?_cons_succ, List.getElem?_cons_zero, List.set_cons_succ, List.set_cons_zero, deliverReqs,
      deliverWires, List.mapIdx_cons, List.mapIdx_nil]
    exact ⟨_, _, _, rfl, n0_push _ h0 _ _ _ _, by rw [t3_ups1]; exact n1_push _ (n1_fresh _) _ _ _ _,
      by rw [t3_ups2]; exact n2_push _ h2 _ _ _ _, mainBuf_pushWires _ _ _ _ (mainBuf_fresh _) (mainQ_closeIf _ _)⟩
  | 2 =>
    simp only [hn, List.getElem?_cons_succ, List.getElem?_cons_zero, List.set_cons_succ, List.set_cons_zero, deliverReqs,
      deliverWires, List.mapIdx_cons, List.mapIdx_nil]
    exact ⟨_, _, _, rfl, n0_push _ h0 _ _ _ _, by rw [t3_ups1]; exact n1_push _ h1 _ _ _ _,
      by rw [t3_ups2]; exact n2_push _ (n2_fresh _) _ _ _ _, mainBuf_pushWires _ _ _ _ hm (mainQ_closeIf _ _)⟩
  | k + 3 =>
    simp only [hn, List.getElem?_cons_succ, List.getElem?_nil]
    exact ⟨n0, n1, n2, hn, h0, h1, h2, hm⟩

theorem rshapeM_init : RShapeM (init T3) :=
  ⟨_, _, _, rfl, n0_fresh 0, n1_fresh 0, n2_fresh 0, mainBuf_fresh 0⟩

theorem rshapeM_step (proc : Proc) (hp : FwdPass proc) (st : St) (e : Ev) (h : RShapeM st) : RShapeM (step T3 proc st e).1 := by
  cases e with
  | nodeRecv i => exact rshapeM_recv proc hp st i h
  | nodeSend i t => exact rshapeM_send proc st i t h
  | restart i g => exact rshapeM_restart st i g h

theorem rshapeM_reachable (proc : Proc) (hp : FwdPass proc) (st : St) (h : Reachable T3 proc st) : RShapeM st := by
  induction h with
  | init => exact rshapeM_init
  | step e _ ih => exact rshapeM_step proc hp _ e ih

theorem invOK_rshapeM (proc : Proc) (hp : FwdPass proc) : InvOK proc RShapeM :=
  ⟨rshape_of_M, fun st e h => rshapeM_step proc hp st e h⟩

/-! ## the theorems -/

/-- **C06 (the invariant with a `pass` relay)**: shapes + "every data message in the relay's SUB queue and partial buffer names the
topic `main` only" hold initially, are kept by every event (restarts included) and so hold in every reachable state. -/
theorem C06_net_chain3_pass_invariant (proc : Proc) (hp : FwdPass proc) :
    RShapeM (init T3) ∧ (∀ st e, RShapeM st → RShapeM (step T3 proc st e).1) ∧ ∀ st, Reachable T3 proc st → RShapeM st :=
  ⟨rshapeM_init, rshapeM_step proc hp, rshapeM_reachable proc hp⟩

/-- **C06 (3-node chain with restarts, `pass` relay — counts and clock readings as parameters)** -/
theorem C06_net_chain3_recovers_pass_at (proc : Proc) (hp : FwdPass proc) (st : St) (hr : Reachable T3 proc st) (c0 c1 : Nat)
    (t1 t2 t3 : Int) (hc0 : reqLen st 0 ≤ c0) (hc1 : reqLen st 1 ≤ c1)
    (h2 : lastHeardAt st 0 t1 + OF.Facts.ZMQ_CONN_TIMEOUT < t2) (h3 : lastHeardAt st 1 t2 + OF.Facts.ZMQ_CONN_TIMEOUT < t3) :
    ∃ id ∈ returnedBy T3 proc 2 st (heal3 c0 c1 t1 t2 t3), prevOf st.nodes 2 < id :=
  heal3_from_inv proc (invOK_rshapeM proc hp) st (rshapeM_reachable proc hp st hr) c0 c1 t1 t2 t3 hc0 hc1 h2 h3

/-- **C06 (a 3-node chain heals after ANY history, restarts included — also with a `pass` relay)**: from EVERY state reachable by
ANY schedule of `recv` / `send` calls at any clock readings and restarts (graceful or crash) of ANY of the three nodes, the healing
schedule `healOf st t1` hands the SINK a new frame set, provided the source answers every call with a one-frame `main` result and
the relay answers every one-frame `main` set with one (`FwdPass`: `pass`, lone-frame and callable relays included). -/
theorem C06_net_chain3_recovers_pass (proc : Proc) (hp : FwdPass proc) (st : St) (hr : Reachable T3 proc st) (t1 : Int) :
    ∃ id ∈ returnedBy T3 proc 2 st (healOf st t1), prevOf st.nodes 2 < id := by
  unfold healOf
  apply C06_net_chain3_recovers_pass_at proc hp st hr _ _ _ _ _ (Nat.le_refl _) (Nat.le_refl _)
  · unfold healT2; omega
  · unfold healT3; omega

/-- **C06 (phase (a) with a `pass` relay)** -/
theorem C06_net_chain3_relay_resupplied_pass (proc : Proc) (hp : FwdPass proc) (st : St) (hr : Reachable T3 proc st) (t1 t2 : Int)
    (h2 : lastHeardAt st 0 t1 + OF.Facts.ZMQ_CONN_TIMEOUT < t2) :
    pendingAt (run T3 proc st ([Ev.nodeSend 2 t1] ++ pullU (reqLen st 0) t1 t2)).1 1 = true :=
  relay_resupplied_inv proc (invOK_rshapeM proc hp) st (rshapeM_reachable proc hp st hr) t1 t2 h2

/-- **C06 (the chain keeps recovering, `pass` relay)** -/
theorem C06_net_chain3_keeps_recovering_pass (proc : Proc) (hp : FwdPass proc) : ∀ (k : Nat) (st : St), Reachable T3 proc st →
    ∀ t1 : Int, k ≤ (returnedBy T3 proc 2 st (healN proc k st t1)).length := by
  intro k
  induction k with
  | zero => intro st _ t1; exact Nat.zero_le _
  | succ k ih =>
    intro st hr t1
    have ⟨id, hid, _⟩ := C06_net_chain3_recovers_pass proc hp st hr t1
    have h1 : 1 ≤ (returnedBy T3 proc 2 st (healOf st t1)).length := List.length_pos_of_mem hid
    have h2 := ih _ (reachable_run3 proc (healOf st t1) st hr) (healT3 st t1)
    show k + 1 ≤ (returnedBy T3 proc 2 st (healOf st t1 ++ healN proc k (run T3 proc st (healOf st t1)).1 (healT3 st t1))).length
    rw [returnedBy_append, List.length_append]
    omega

/-! ## non-vacuity (kernel-evaluated) -/

/-- source: one `main` frame per call; relay and sink: `pass` (the handed set as it is) -/
def passProc : Proc := fun i n h => if i = 0 then .now (.dict [("main", n)]) else .now (.dict h)

theorem passProc_fwdPass : FwdPass passProc :=
  ⟨fun n h => ⟨n, by simp [passProc, Loop.processFrames, Loop.normPlain, dictOf]⟩,
   fun n x => ⟨x, by simp [passProc, Loop.processFrames, Loop.normPlain, dictOf]⟩⟩

/-- a `pass` relay is NOT `FwdMain`: handed nothing it answers `{}` -/
example : ¬ FwdMain passProc := by
  intro h
  have ⟨b, hb⟩ := h 1 0 [] (by omega)
  simp [passProc, Loop.processFrames, Loop.normPlain, dictOf] at hb

def stAfterP (pre : List Ev) : St := (run T3 passProc (init T3) pre).1

example : ∃ id ∈ returnedBy T3 passProc 2 (stAfterP exSinkCrash) (healOf (stAfterP exSinkCrash) 1351),
    prevOf (stAfterP exSinkCrash).nodes 2 < id :=
  C06_net_chain3_recovers_pass passProc passProc_fwdPass _ (reachable_run3 passProc exSinkCrash _ Reachable.init) 1351

/-- the three crash scenarios found on the REAL objects, with `pass` relay and sink: served with the waits, not without -/
example : returnedBy T3 passProc 2 (stAfterP exSinkCrash) (healOf (stAfterP exSinkCrash) 1351) = [1] ∧
    returnedBy T3 passProc 2 (stAfterP exRelayCrash) (healOf (stAfterP exRelayCrash) 7502) = [1] ∧
    returnedBy T3 passProc 2 (stAfterP exBothCrash) (healOf (stAfterP exBothCrash) 1403) = [1] ∧
    returnedBy T3 passProc 2 (stAfterP exRelayCrash)
      (heal3 (reqLen (stAfterP exRelayCrash) 0) (reqLen (stAfterP exRelayCrash) 1) 7502 7502 7502) = [] := by
  decide +kernel

end OF.Net
