import OFModel.Zmq.NetEph
import OFProps.NetEphStrip
import OFProps.ChainSendEph
set_option linter.unusedSimpArgs false
/-!
# The chain invariant of C03 stage C survives arbitrary listeners (helper lemmas for `OFProps/C05Net.lean`)

Invariant with listeners: `Good proc L (stripX X)` — the invariant `Good` of `C03Net.lean` for the state with every queued LISTENER
request erased, i.e. `PubInv` with "every queued NON-LISTENER request names an id at or below the last published one".  Nothing is
said about client tables (listener entries come and go, synchronised entries may be evicted) — the invariant of C03 never needed them.

* a listener request arrives: the stripped state does not change (`stripSt_ephPush`);
* `nodeRecv`: commutes with stripping (`lstep_recv_strip`), so `good_stepRecv` applies verbatim;
* `nodeSend`: `goodE_sendReal` — the step lemma of `C03Net.lean` re-proved from `send0_chain_eph` (the publisher DOES read the
  listener requests: they are drained, may register / refresh / evict / delete table entries, may re-evaluate `do_send` — and the call
  still ends in one of the three outcomes time-out / callable → `None` / exactly the block under the id received).
-/
namespace OF.Net.Eph
open OF.Net
open OF.Chain (Blk ChanQ BlkOK Rest visData vis)
open OF.Recv (Src Wire Msg Topic)

/-! ## runs with the log of what every `process()` was handed -/

def elstep (tp : Topo) (proc : Proc) (X : LSt) : EEv → LSt
  | .base e => lstep tp proc X e
  | .ephReq p r => { st := ephPush tp X.st p r, log := X.log }

def elrun (tp : Topo) (proc : Proc) (X : LSt) : List EEv → LSt
  | [] => X
  | e :: es => elrun tp proc (elstep tp proc X e) es

def isRestartE : EEv → Bool
  | .base e => isRestart e
  | .ephReq _ _ => false

/-! ## queued requests, stripped and not -/

theorem strip_reqs (p : Send.St) (Q : Send.Req → Prop) (h : ∀ q ∈ (stripPub p).queues, ∀ r ∈ q, Q r) :
    ∀ q ∈ p.queues, ∀ x ∈ q, keepReq x = true → Q x := by
  intro q hq x hx hk
  refine h (q.filter keepReq) ?_ x (List.mem_filter.mpr ⟨hx, hk⟩)
  simp only [stripPub, List.mem_map]
  exact ⟨q, hq, rfl⟩

theorem strip_reqs_back (p : Send.St) (Q : Send.Req → Prop) (h : ∀ q ∈ p.queues, ∀ x ∈ q, keepReq x = true → Q x) :
    ∀ q ∈ (stripPub p).queues, ∀ r ∈ q, Q r := by
  intro q hq r hr
  simp only [stripPub, List.mem_map] at hq
  rcases hq with ⟨q0, hq0, rfl⟩
  have := List.mem_filter.mp hr
  exact h q0 hq0 r this.1 this.2

theorem not_keep_eph (x : Send.Req) (h : ¬ keepReq x = true) : x.eph ≠ 0 := by
  have : isListenerReq x = true := by
    unfold keepReq at h; simpa using h
  exact ((isListenerReq_iff x).mp this).1

theorem sendId_strip (nd : Node) : sendId (stripNode nd) = sendId nd := rfl

theorem pendOf_strip (nd : Node) : pendOf (stripNode nd) = pendOf nd := rfl

/-- the outcome of one `MQ.send` of a publisher whose STRIPPED state satisfies `PubInv` -/
theorem send_outcome_eph (proc : Proc) (X : LSt) (j : Nat) (t : Int) (nd : Node) (p : Pending) (pub : List HSet)
    (hpub : PubInv proc (stripX X) j (stripNode nd) pub) (hG : NodeG j (stripNode nd)) (hpend : nd.pending = some p) :
    SendOutE (fun r => keepReq r = true → r.mid ≤ lastId pub) j nd.pub (sendId nd) ((dictOf p.res).map (relabel X.st.tbl.length))
      (Send.send0 nd.pub nd.sendState (.deferred ((dictOf p.res).map (relabel X.st.tbl.length))) false [0] t) ∧ 0 ≤ sendId nd := by
  have hpis : (stripNode nd).pending.isSome = true := by show nd.pending.isSome = true; rw [hpend]; rfl
  have hs : nd.sendState = none ∨ ∃ k', nd.sendState = some (k', 0) := by
    by_cases hj0 : j = 0
    · left; exact (hG.src hj0).2
    · right; exact ⟨_, (hG.relay (by omega) hpis).1⟩
  have hsid0 : 0 ≤ sendId nd := by
    by_cases hj0 : j = 0
    · have : sendId nd = nd.pub.minSendId := by unfold sendId; rw [show nd.sendState = none from (hG.src hj0).2]
      rw [this, show nd.pub.minSendId = lastId pub + 1 from hpub.minSend]; have := lastId_ge_neg1 pub hpub.inc; omega
    · have ⟨e, h0⟩ := hG.relay (by omega) hpis
      have : sendId nd = nd.con.prevId := by unfold sendId; rw [show nd.sendState = some (nd.con.prevId, 0) from e]
      rw [this]; exact h0
  have hlast : lastId pub < sendId nd := by
    rcases lastId_mem_or pub with e | ⟨b, hb, e⟩
    · omega
    · rw [e]; exact hpub.strict hpis b hb
  have hnq : nd.pub.queues.length = 1 := by
    have := hpub.nq
    simpa [stripNode, stripPub] using this
  have hout := send0_chain_eph (fun r => keepReq r = true → r.mid ≤ lastId pub) j nd.pub nd.sendState
    ((dictOf p.res).map (relabel X.st.tbl.length)) t
    hpub.idle hpub.bal hnq hs (by rw [callId_sendId, show nd.pub.minSendId = lastId pub + 1 from hpub.minSend]; omega)
    (by
      intro q hq x hx
      rw [callId_sendId]
      have hk := strip_reqs nd.pub (fun r => r.mid ≤ lastId pub) hpub.reqs q hq x hx
      refine ⟨?_, hk⟩
      by_cases hkeep : keepReq x = true
      · left; have := hk hkeep; omega
      · right; exact not_keep_eph x hkeep)
  rw [callId_sendId] at hout
  exact ⟨hout, hsid0⟩

/-! ## `nodeSend` with listener requests in the queue -/

theorem stripX_get (X : LSt) (u : Nat) (nd : Node) (h : X.st.nodes[u]? = some nd) : (stripX X).st.nodes[u]? = some (stripNode nd) := by
  show (stripSt X.st).nodes[u]? = _
  rw [stripSt_get, h]; rfl

theorem stripX_sendReal (tp : Topo) (X : LSt) (j : Nat) (nd : Node) (p : Pending) (t : Int) :
    stripX { st := (sendReal tp X.st j nd p t).1, log := X.log } =
      { st := { nodes := deliverWires tp ((stripX X).st.nodes.set j
                  (stripNode (afterSend nd p (Send.send0 nd.pub nd.sendState (payloadOf X.st.tbl.length p.res) false [0] t)))) j
                  ((Send.send0 nd.pub nd.sendState (payloadOf X.st.tbl.length p.res) false [0] t).2.filterMap (wireOf j)),
                tbl := (stripX X).st.tbl ++ entriesOf p.res (sendOrigin j nd p) },
        log := (stripX X).log } := by
  simp only [stripX, stripSt, sendReal]
  rw [sendReal_strip_nodes]
  rfl

theorem goodE_sendReal (proc : Proc) (L : Nat) (X : LSt) (j : Nat) (t : Int) (nd C : Node) (p : Pending)
    (h : Good proc L (stripX X)) (hn : X.st.nodes[j]? = some nd) (hpend : nd.pending = some p) (hC : X.st.nodes[j + 1]? = some C) :
    Good proc L (stripX { st := (sendReal (chainTopo L) X.st j nd p t).1, log := X.log }) := by
  have hnS := stripX_get X j nd hn
  have hCS := stripX_get X (j + 1) C hC
  have hjL : j < L := by rw [← h.len]; exact (List.getElem?_eq_some_iff.mp hnS).1
  rcases h.edge j _ _ hnS hCS with ⟨pub, bsW, s, hpub, hcon⟩
  have hG := h.node j _ hnS
  have hpis : (stripNode nd).pending.isSome = true := by show nd.pending.isSome = true; rw [hpend]; rfl
  have hpendS : (stripNode nd).pending = some p := hpend
  have ⟨hout, hsid0⟩ := send_outcome_eph proc X j t nd p pub hpub hG hpend
  rw [stripX_sendReal]
  have hpay : payloadOf X.st.tbl.length p.res = .deferred ((dictOf p.res).map (relabel X.st.tbl.length)) := rfl
  simp only [hpay]
  generalize hr : Send.send0 nd.pub nd.sendState (.deferred ((dictOf p.res).map (relabel X.st.tbl.length))) false [0] t = r at hout
  rcases hout with ⟨o1, o2, o3, o4, hcase⟩
  have o3S : (stripPub r.1).queues.length = 1 := by simpa [stripPub] using o3
  have o4S : ∀ q ∈ (stripPub r.1).queues, ∀ x ∈ q, x.mid ≤ lastId pub :=
    strip_reqs_back r.1 (fun x => x.mid ≤ lastId pub) (fun q hq x hx hk => (o4 q hq x hx).2 hk)
  have hlen' : ∀ (nd' : Node) (ws : List Wire), (deliverWires (chainTopo L) ((stripX X).st.nodes.set j nd') j ws).length = L := by
    intro nd' ws; simp only [deliverWires, List.length_mapIdx, List.length_set]; exact h.len
  have hlook := send_lookup L (stripX X).st.nodes j (stripNode (afterSend nd p r)) (stripNode C) (r.2.filterMap (wireOf j)) h.len hjL hCS
  have hsrcs : ∀ ws, ((pushWires (stripNode C).con [j] j ws).srcs = [] ↔ (stripNode C).con.srcs = []) := by
    intro ws
    rw [(rest_push (stripNode C).con s j ws hcon.rest).1, hcon.rest.idle.srcs]; simp
  have hprevC : ∀ ws, (pushWires (stripNode C).con [j] j ws).prevId = (stripNode C).con.prevId := fun ws => rfl
  rcases hcase with ⟨m1, m2, m3, m4⟩ | ⟨hrn, m1, m2, m3, m4⟩ | ⟨ts, hrs, m1, m2, m3, m4⟩
  · -- time-out: nothing published
    have haft : afterSend nd p r = { nd with pub := r.1 } := by unfold afterSend; rw [m2]
    rw [haft] at hlook ⊢
    refine good_send_gen proc L (stripX X) j (stripNode nd) (stripNode C) _ _ pub bsW _ _ _ h hnS hCS (hlen' _ _) hlook ?_
      (conInv_hellos (stripX X) j (stripNode C) pub bsW s _ _ _ hcon m4) (nodeG_frame j (stripNode nd) _ hG rfl rfl rfl rfl)
      rfl rfl rfl rfl rfl rfl rfl (hprevC _) (hsrcs _)
    exact pubInv_frame proc (stripX X) _ j (stripNode nd) (stripNode { nd with pub := r.1 }) pub hpub rfl rfl rfl rfl
      (o1.trans hpub.idle.symm) (o2.trans hpub.bal.symm) m1 o3S o4S
  · -- the callable returned None: nothing published, the loop is free again
    have hd : dictOf p.res = none := by
      cases hdd : dictOf p.res with
      | none => rfl
      | some d => rw [hdd] at hrn; cases hrn
    have haft : afterSend nd p r = { nd with pub := r.1, pending := none, sendState := none, recvState := none } := by
      unfold afterSend; rw [m2]; simp only [m3, hd, Option.isNone_none, Bool.and_self, ↓reduceIte]
    rw [haft] at hlook ⊢
    refine good_send_gen proc L (stripX X) j (stripNode nd) (stripNode C) _ _ pub bsW _ _ _ h hnS hCS (hlen' _ _) hlook ?_
      (conInv_hellos (stripX X) j (stripNode C) pub bsW s _ _ _ hcon m4) ?_ rfl rfl rfl rfl rfl rfl rfl (hprevC _) (hsrcs _)
    · refine ⟨?_, hpub.inc, o1, o2, o3S, m1.trans hpub.minSend, o4S, (by intro hc; cases hc), (by intro q d hq; cases hq)⟩
      have := hpub.prod
      rw [pendOf_nodict (stripNode nd) p hpendS hd] at this
      simp only [prodOf, stripNode] at this ⊢
      rw [this]; rfl
    · exact ⟨fun h0 => ⟨(hG.src h0).1, rfl⟩, (by intro _ hc; cases hc), (by intro _ k hk; cases hk)⟩
  · -- the block is published
    have hd : ∃ d, dictOf p.res = some d ∧ ts = relabel X.st.tbl.length d := by
      cases hdd : dictOf p.res with
      | none => rw [hdd] at hrs; cases hrs
      | some d => rw [hdd] at hrs; simp only [Option.map_some, Option.some.injEq] at hrs; exact ⟨d, rfl, hrs.symm⟩
    rcases hd with ⟨d, hd, rfl⟩
    have haft : afterSend nd p r = { nd with pub := r.1, pending := none, sendState := none, recvState := some (sendId nd + 1) } := by
      unfold afterSend; rw [m2]; simp only [m3, hd, Option.isNone_some, Bool.and_false, Bool.false_eq_true, ↓reduceIte]
    have hent : entriesOf p.res (sendOrigin j nd p) = d.map fun q => ({ content := q.2, orig := sendOrigin j nd p } : Entry) := by
      simp only [entriesOf, hd, Option.getD_some]
    rw [haft] at hlook ⊢
    rw [m4] at hlook ⊢
    rw [hent]
    have hnames := hpub.names p d hpendS hd
    refine good_send_gen proc L (stripX X) j (stripNode nd) (stripNode C) _ _ (pub ++ [(sendId nd, d)])
      (bsW ++ [(sendId nd, relabel X.st.tbl.length d)]) _ _ _ h hnS hCS (hlen' _ _) hlook ?_
      (conInv_block (stripX X) j (stripNode C) pub bsW s (sendId nd) d _ _ hcon hpub.inc (hpub.strict hpis) hsid0 hnames) ?_
      rfl rfl rfl rfl rfl rfl rfl (hprevC _) (hsrcs _)
    · refine ⟨?_, idsInc_snoc pub _ hpub.inc (hpub.strict hpis) hsid0, o1, o2, o3S, (by show r.1.minSendId = _; rw [m1, lastId_snoc]), ?_,
        (by intro hc; cases hc), (by intro q d' hq; cases hq)⟩
      · have := hpub.prod
        rw [pendOf_some (stripNode nd) p d hpendS hd, sendId_strip] at this
        simp only [prodOf, stripNode] at this ⊢
        rw [this]; simp [pendOf]
      · intro q hq x hx
        rw [lastId_snoc]
        have := o4S q hq x hx
        have hlast : lastId pub < sendId nd := by
          rcases lastId_mem_or pub with e | ⟨b, hb, e⟩
          · omega
          · rw [e]; exact hpub.strict hpis b hb
        simp only; omega
    · refine ⟨fun h0 => ⟨(hG.src h0).1, rfl⟩, (by intro _ hc; cases hc), ?_⟩
      intro h0 k hk
      simp only [stripNode, Option.some.injEq] at hk
      have ⟨e, _⟩ := hG.relay h0 hpis
      have : sendId nd = nd.con.prevId := by unfold sendId; rw [show nd.sendState = some (nd.con.prevId, 0) from e]
      simp only [stripNode]; omega

theorem goodE_stepSend (proc : Proc) (L : Nat) (X : LSt) (j : Nat) (t : Int) (h : Good proc L (stripX X)) :
    Good proc L (stripX (lstep (chainTopo L) proc X (.nodeSend j t))) := by
  unfold lstep
  simp only [step, stepSend, logUpd]
  cases hn : X.st.nodes[j]? with
  | none => exact h
  | some nd =>
    simp only
    cases hpend : nd.pending with
    | none => exact h
    | some p =>
      simp only
      have hnS := stripX_get X j nd hn
      have hjL : j < L := by rw [← h.len]; exact (List.getElem?_eq_some_iff.mp hnS).1
      by_cases hr : Loop.reachesSender ((chainTopo L).hasOut j) p.res = true
      · simp only [hr, ↓reduceIte]
        have hout : (chainTopo L).hasOut j = true := by
          cases hres : p.res with
          | none => rw [hres] at hr; simp [Loop.reachesSender] at hr
          | dict d => rw [hres] at hr; simpa [Loop.reachesSender] using hr
          | deferred r => rw [hres] at hr; simpa [Loop.reachesSender] using hr
        rw [chain_hasOut] at hout
        have hL : j + 1 < L := by simpa using hout
        have hlenX : X.st.nodes.length = L := by
          have := h.len
          simpa [stripX, stripSt] using this
        have hLn : j + 1 < X.st.nodes.length := by rw [hlenX]; exact hL
        have hC : X.st.nodes[j + 1]? = some X.st.nodes[j + 1] := List.getElem?_eq_getElem hLn
        exact goodE_sendReal proc L X j t nd _ p h hn hpend hC
      · have hr' : Loop.reachesSender ((chainTopo L).hasOut j) p.res = false := by simpa using hr
        simp only [hr', Bool.false_eq_true, ↓reduceIte]
        have := good_sendSkip proc L (stripX X) j (stripNode nd) p h hnS hpend hr'
        have e : stripX { st := (sendSkip X.st j nd).1, log := X.log } =
            { st := { (stripX X).st with nodes := (stripX X).st.nodes.set j { stripNode nd with pending := none } }, log := (stripX X).log } := by
          simp only [stripX, sendSkip, stripSt, List.map_set]
          rfl
        rw [e]; exact this

/-- **the chain invariant (on the stripped state) holds along every restart-free run with any listener requests** -/
theorem goodE_estep (proc : Proc) (hp : ProcNames proc) (L : Nat) (X : LSt) (e : EEv) (h : Good proc L (stripX X))
    (hok : EvOK e) (hnr : isRestartE e = false) : Good proc L (stripX (elstep (chainTopo L) proc X e)) := by
  cases e with
  | base e =>
    cases e with
    | nodeRecv j =>
      simp only [elstep]
      rw [← lstep_recv_strip]
      exact good_stepRecv proc hp L (stripX X) j h
    | nodeSend j t => exact goodE_stepSend proc L X j t h
    | restart j g => simp [isRestartE, isRestart] at hnr
  | ephReq p r =>
    simp only [elstep, stripX]
    rw [stripSt_ephPush _ _ _ _ hok]
    exact h

theorem goodE_elrun (proc : Proc) (hp : ProcNames proc) (L : Nat) : ∀ (evs : List EEv) (X : LSt), Good proc L (stripX X) →
    (∀ e ∈ evs, EvOK e) → (∀ e ∈ evs, isRestartE e = false) → Good proc L (stripX (elrun (chainTopo L) proc X evs)) := by
  intro evs
  induction evs with
  | nil => intro X h _ _; exact h
  | cons e es ih =>
    intro X h hok hnr
    exact ih _ (goodE_estep proc hp L X e h (hok e (List.mem_cons_self ..)) (hnr e (List.mem_cons_self ..)))
      (fun x hx => hok x (List.mem_cons_of_mem _ hx)) (fun x hx => hnr x (List.mem_cons_of_mem _ hx))

theorem stripX_linit (tp : Topo) : stripX (linit tp) = linit tp := by
  simp only [stripX, linit, stripSt, init, List.map_map]
  congr 2

end OF.Net.Eph
