import OFProps.C04
/-!
# C04 — the potential argument, as a counting theorem over whole runs

`phi st fid = [some entry of client fid has requested] + #requests of fid still queued on the PULL sockets`.
For a non-balanced sender that is never called in `push` mode:
* `C04_phi_step`: no event other than the arrival of a new request of `fid` increases `phi`;
* `C04_phi_publish`: a publish while `fid` is a tracked synchronised client lowers it by at least one;
* `C04_bounded_publishes`: along any event sequence in which no request of `fid` arrives, the number of publishes made
  while `fid` is tracked as a synchronised client is at most `phi` at the start — the stalled consumer's bound.
-/
namespace OF.Send

def fidOf (r : Req) : String := r.cid ++ r.uid

def qcount (fid : String) (q : List Req) : Nat := (q.filter (fun r => fidOf r == fid)).length

def queued (st : St) (fid : String) : Nat := (st.queues.map (qcount fid)).sum

def flagged (cl : Clients) (fid : String) : Bool := cl.any (fun p => p.1 == fid && p.2.requested)

def flag (st : St) (fid : String) : Nat := if flagged st.clients fid then 1 else 0

def phi (st : St) (fid : String) : Nat := flag st fid + queued st fid

/-! ### list facts -/

theorem sum_set (f : List Req → Nat) : ∀ (l : List (List Req)) (j : Nat) (q q' : List Req), l[j]? = some q →
    ((l.set j q').map f).sum + f q = (l.map f).sum + f q' := by
  intro l
  induction l with
  | nil => intro j q q' h; cases h
  | cons x xs ih =>
    intro j q q' h
    cases j with
    | zero =>
      simp only [List.getElem?_cons_zero, Option.some.injEq] at h
      subst h
      simp only [List.set_cons_zero, List.map_cons, List.sum_cons]; omega
    | succ j =>
      simp only [List.getElem?_cons_succ] at h
      have := ih j q q' h
      simp only [List.set_cons_succ, List.map_cons, List.sum_cons]; omega

theorem flagged_sub (cl cl' : Clients) (fid : String) (h : ∀ p ∈ cl', p ∈ cl) :
    flagged cl' fid = true → flagged cl fid = true := by
  unfold flagged
  simp only [List.any_eq_true]
  rintro ⟨p, hp, hc⟩
  exact ⟨p, h p hp, hc⟩

theorem flagged_cset_other (cl : Clients) (fid fid' : String) (c : Client) (hne : fid' ≠ fid) :
    flagged (cset cl fid' c) fid = flagged cl fid := by
  unfold flagged cset
  split
  · rw [List.any_map]
    congr 1
    funext p
    simp only [Function.comp]
    by_cases hp : (p.1 == fid') = true
    · have hp' : p.1 = fid' := by simpa using hp
      have h1 : (p.1 == fid) = false := by rw [hp']; simpa using hne
      have h2 : (fid' == fid) = false := by simpa using hne
      simp [hp, h1, h2]
    · simp [hp]
  · rw [List.any_append]
    have h2 : (fid' == fid) = false := by simpa using hne
    simp [h2]

theorem flag_le_one (st : St) (fid : String) : flag st fid ≤ 1 := by unfold flag; split <;> omega

theorem flag_mono (st st' : St) (fid : String) (h : flagged st'.clients fid = true → flagged st.clients fid = true) :
    flag st' fid ≤ flag st fid := by
  unfold flag
  by_cases h' : flagged st'.clients fid = true
  · simp [h', h h']
  · simp [h']

/-! ### one request handled -/

theorem onReq_flag (st : St) (j : Nat) (r : Req) (t : Int) (fid : String) (hb : st.balance = false) :
    flag (onReq st j r t).1 fid ≤ flag st fid + (if fidOf r == fid then 1 else 0) := by
  by_cases hf : (fidOf r == fid) = true
  · simp only [hf, ↓reduceIte]; have := flag_le_one (onReq st j r t).1 fid; omega
  · simp only [hf, Bool.false_eq_true, ↓reduceIte, Nat.add_zero]
    have hne : r.cid ++ r.uid ≠ fid := by simpa [fidOf] using hf
    apply flag_mono
    unfold onReq
    simp only
    split
    · split
      · exact id
      · split
        · exact flagged_sub _ _ fid (fun p hp => (List.mem_filter.mp hp).1)
        · exact id
    · split
      · exact id
      · split
        · simp only; rw [flagged_cset_other _ _ _ _ hne]; exact id
        · simp only [hb, Bool.false_and, Bool.false_eq_true, ↓reduceIte]
          intro h
          have := flagged_sub _ _ fid (fun p hp => (evalClients_mem _ _ _ _ p hp).1) h
          rw [flagged_cset_other _ _ _ _ hne] at this
          exact this

theorem onReq_queues (st : St) (j : Nat) (r : Req) (t : Int) : (onReq st j r t).1.queues = st.queues := by
  unfold onReq
  simp only
  split
  · split
    · rfl
    · split <;> rfl
  · split
    · rfl
    · split <;> rfl

/-! ### the potential never increases without a new request of `fid` -/

def notFrom (fid : String) : Ev → Prop
  | .deliver _ r => fidOf r ≠ fid
  | _ => True

theorem publish_flag (st : St) (ts : List (String × Nat)) (fid : String) (hb : st.balance = false) :
    flagged (publish st ts).1.clients fid = false := by
  unfold publish flagged
  simp only [hb, Bool.not_false, Bool.true_or, ↓reduceIte]
  rw [List.any_eq_false]
  intro p hp
  rw [List.mem_map] at hp
  rcases hp with ⟨⟨f, c⟩, _, rfl⟩
  simp

theorem sendMaybe_flag (st : St) (fid : String) (hb : st.balance = false) :
    flag (sendMaybe st).1 fid ≤ flag st fid ∧ (sendMaybe st).1.queues = st.queues ∧
    ((gate st).1 = none → flag (sendMaybe st).1 fid = 0) := by
  unfold sendMaybe
  simp only
  split
  · rename_i r hg
    exact ⟨Nat.le_refl _, rfl, fun h => by rw [hg] at h; cases h⟩
  · have hp := publish_flag { st with doHello := false, payload := (gate st).2.1 } (payloadTopics (gate st).2.1) fid hb
    refine ⟨?_, rfl, fun _ => ?_⟩
    · unfold flag; simp only; rw [hp]; simp
    · unfold flag; simp only; rw [hp]; simp

/-- **C04 (the potential is non-increasing)** -/
theorem C04_phi_step (st : St) (e : Ev) (fid : String) (hb : st.balance = false) (hn : notFrom fid e) :
    phi (step st e).1 fid ≤ phi st fid := by
  unfold phi
  cases e with
  | deliver j r =>
    unfold step stepDeliver; simp only
    split
    · exact Nat.le_refl _
    · rename_i q hq
      have hne : (fidOf r == fid) = false := by simpa [notFrom] using hn
      have hs := sum_set (qcount fid) st.queues j q (q ++ [r]) hq
      have hq' : qcount fid (q ++ [r]) = qcount fid q := by
        unfold qcount; rw [List.filter_append]; simp [hne]
      have hfl : flag { st with queues := st.queues.set j (q ++ [r]) } fid = flag st fid := rfl
      have : queued { st with queues := st.queues.set j (q ++ [r]) } fid = queued st fid := by
        unfold queued; simp only; omega
      dsimp only
      omega
  | «begin» s p b =>
    unfold step stepBegin; simp only
    split
    · exact Nat.le_refl _
    · split
      · exact Nat.le_refl _
      · split <;> exact Nat.le_refl _
  | handle j t =>
    unfold step stepHandle; simp only
    split
    · exact Nat.le_refl _
    · split
      · exact Nat.le_refl _
      · exact Nat.le_refl _
      · rename_i r q hq
        have hs := sum_set (qcount fid) st.queues j (r :: q) q hq
        have hq' : qcount fid (r :: q) = qcount fid q + (if fidOf r == fid then 1 else 0) := by
          unfold qcount; rw [List.filter_cons]; split <;> simp
        have hfl := onReq_flag { st with queues := st.queues.set j q } j r t fid hb
        have hqs := onReq_queues { st with queues := st.queues.set j q } j r t
        have hflag0 : flag { st with queues := st.queues.set j q } fid = flag st fid := rfl
        have key : ∀ st' : St, st'.clients = (onReq { st with queues := st.queues.set j q } j r t).1.clients →
            st'.queues = (onReq { st with queues := st.queues.set j q } j r t).1.queues →
            flag st' fid + queued st' fid ≤ flag st fid + queued st fid := by
          intro st' hc hq2
          have h1 : flag st' fid = flag (onReq { st with queues := st.queues.set j q } j r t).1 fid := by
            unfold flag; rw [hc]
          have h2 : queued st' fid = ((st.queues.set j q).map (qcount fid)).sum := by
            unfold queued; rw [hq2, hqs]
          have h3 : queued st fid = (st.queues.map (qcount fid)).sum := rfl
          omega
        split
        · exact key _ rfl rfl
        · exact key _ rfl rfl
  | trySend =>
    unfold step stepTrySend; simp only
    split
    · exact Nat.le_refl _
    · have ⟨h1, h2, _⟩ := sendMaybe_flag st fid hb
      have : queued (sendMaybe st).1 fid = queued st fid := by unfold queued; rw [h2]
      split
      · have e1 : flag (endCall (sendMaybe st).1).1 fid = flag (sendMaybe st).1 fid := rfl
        have e2 : queued (endCall (sendMaybe st).1).1 fid = queued (sendMaybe st).1 fid := rfl
        dsimp only
        omega
      · dsimp only
        omega
  | timeout =>
    unfold step stepTimeout; simp only
    split <;> exact Nat.le_refl _

end OF.Send

namespace OF.Send

/-- `fid` is tracked as a synchronised client -/
def tracked (st : St) (fid : String) : Bool := st.clients.any (fun p => p.1 == fid && p.2.eph == 0)

/-- this event is a `send_maybe` that gets past the gate, i.e. a publish -/
def publishes (st : St) : Ev → Bool
  | .trySend => st.inCall && (gate st).1.isNone
  | _ => false

/-- **C04 (a publish pays one unit of potential for every tracked synchronised client)** -/
theorem C04_phi_publish (st : St) (fid : String) (hb : st.balance = false) (hp : st.push = false) (hr : Requested st)
    (hpub : publishes st .trySend = true) (ht : tracked st fid = true) :
    phi (step st .trySend).1 fid + 1 ≤ phi st fid := by
  simp only [publishes, Bool.and_eq_true, Option.isNone_iff_eq_none] at hpub
  have hin := hpub.1
  have hg := hpub.2
  have ⟨hall, _, _⟩ := C04_publish_consumes st hin hb hp hr hg
  have hflag : flag st fid = 1 := by
    unfold flag flagged
    unfold tracked at ht
    rw [List.any_eq_true] at ht
    rcases ht with ⟨p, hpm, hc⟩
    simp only [Bool.and_eq_true, beq_iff_eq] at hc
    have : (st.clients.any fun p => p.1 == fid && p.2.requested) = true := by
      rw [List.any_eq_true]
      exact ⟨p, hpm, by simp [hc.1, hall p hpm hc.2]⟩
    simp [this]
  have ⟨_, h2, h3⟩ := sendMaybe_flag st fid hb
  have hsent : (sendMaybe st).2.2 = true := by
    unfold sendMaybe; simp only [hg]
  unfold phi step stepTrySend
  simp only [hin, not_true_eq_false, ↓reduceIte, hsent]
  have e1 : flag (endCall (sendMaybe st).1).1 fid = flag (sendMaybe st).1 fid := rfl
  have e2 : queued (endCall (sendMaybe st).1).1 fid = queued st fid := by
    show queued (sendMaybe st).1 fid = queued st fid
    unfold queued; rw [h2]
  have := h3 hg
  omega

def pubCount (fid : String) : St → List Ev → Nat
  | _, [] => 0
  | st, e :: es => (if publishes st e && tracked st fid then 1 else 0) + pubCount fid (step st e).1 es

/-- the events of the counting theorem: no request of `fid` arrives, no call in `push` mode -/
def quiet (fid : String) : Ev → Prop
  | .deliver _ r => fidOf r ≠ fid
  | .begin _ _ push => push = false
  | _ => True

theorem onReq_push (st : St) (j : Nat) (r : Req) (t : Int) : (onReq st j r t).1.push = st.push := by
  unfold onReq
  simp only
  split
  · split
    · rfl
    · split <;> rfl
  · split
    · rfl
    · split <;> rfl

theorem sendMaybe_push (st : St) : (sendMaybe st).1.push = st.push := by
  unfold sendMaybe; simp only; split
  · rfl
  · unfold publish; rfl

theorem step_push (st : St) (e : Ev) (fid : String) (hq : quiet fid e) (hp : st.push = false) : (step st e).1.push = false := by
  cases e with
  | deliver j r => unfold step stepDeliver; simp only; split <;> exact hp
  | «begin» s p b =>
    have hb : b = false := hq
    unfold step stepBegin; simp only
    split
    · exact hp
    · split
      · simp [beginWith, hb]
      · split
        · exact hp
        · simp [beginWith, hb]
  | handle j t =>
    unfold step stepHandle; simp only
    split
    · exact hp
    · split
      · exact hp
      · exact hp
      · split
        · simp only [endCall]; rw [onReq_push]; exact hp
        · rw [onReq_push]; exact hp
  | trySend =>
    unfold step stepTrySend; simp only
    split
    · exact hp
    · split
      · simp only [endCall]; rw [sendMaybe_push]; exact hp
      · rw [sendMaybe_push]; exact hp
  | timeout => unfold step stepTimeout; simp only; split <;> exact hp

/-- **C04 (bounded buffering)**: after the last request of a synchronised client `fid` has arrived, a non-balanced sender
publishes - while `fid` is still tracked - at most `phi` further blocks: `[requested] + #its requests still queued`,
however many `send` calls, time-outs, requests of other clients and evictions follow -/
theorem C04_bounded_publishes (fid : String) (evs : List Ev) : ∀ (st : St), st.balance = false → st.push = false →
    Requested st → (∀ e ∈ evs, quiet fid e) → pubCount fid st evs ≤ phi st fid := by
  induction evs with
  | nil => intro st _ _ _ _; exact Nat.zero_le _
  | cons e es ih =>
    intro st hb hp hr hq
    have hqe := hq e (List.mem_cons_self ..)
    have hnf : notFrom fid e := by
      cases e with
      | deliver j r => exact hqe
      | _ => trivial
    have ⟨hr', hb'⟩ := C04_requested_inv st e hb hr
    have hp' := step_push st e fid hqe hp
    have hrest := ih (step st e).1 hb' hp' hr' (fun x hx => hq x (List.mem_cons_of_mem _ hx))
    unfold pubCount
    by_cases hc : (publishes st e && tracked st fid) = true
    · simp only [hc, ↓reduceIte]
      simp only [Bool.and_eq_true] at hc
      cases e with
      | trySend =>
        have := C04_phi_publish st fid hb hp hr hc.1 hc.2
        omega
      | deliver j r => simp [publishes] at hc
      | «begin» s p b => simp [publishes] at hc
      | handle j t => simp [publishes] at hc
      | timeout => simp [publishes] at hc
    · simp only [hc, Bool.false_eq_true, ↓reduceIte, Nat.zero_add]
      have := C04_phi_step st e fid hb hnf
      omega

/-- non-vacuity: the consumer asked once and then stalls: the bound is 1, and one publish is what happens -/
example :
    let st0 := (run (mkSt 1 false []) [.deliver 0 ⟨"A", "a", -1, 0, false, 0⟩, .begin none (.topics [("main", 1)]) false, .handle 0 1000, .trySend,
                                      .deliver 0 ⟨"A", "a", 0, 0, false, 0⟩]).1
    phi st0 "Aa" = 1 ∧
    pubCount "Aa" st0 [.begin none (.topics [("main", 2)]) false, .handle 0 1001, .trySend,
                        .begin none (.topics [("main", 3)]) false, .trySend, .timeout,
                        .begin none (.topics [("main", 3)]) false, .trySend, .timeout] = 1 := by decide +kernel

end OF.Send
