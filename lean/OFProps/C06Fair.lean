import OFProps.PairFair
set_option linter.unusedSimpArgs false
/-!
# C06 — fairness is enough: the closed pair heals under ANY schedule that keeps calling both sides

`C06_pair_recovers_const` exhibits ONE healing schedule.  Here no scheduler cooperation is assumed:
* `C06_pair_fair_heals` — from every reachable state, for EVERY list of `send` / `recv` calls `evs1 ++ evs2` (any
  interleaving, any bursts and repetitions of either side) such that `evs1` (clock readings ≤ `T`, any payloads) contains
  at least 3 `send`s and `evs2` (clock readings ≥ `t2 > T + ZMQ_CONN_TIMEOUT`, the publisher sending a frame on `main`)
  contains at least 5 alternations "a `send`, later a `recv`" (`alts`, counted greedily), `recv` returns a new frame set
  somewhere in the run.  `T` bounds the clock readings in the publisher's client table.
* `C06_pair_fair_heals_after_quiet` — with nothing queued at the publisher `evs1` is not needed.
Proof: `Flushing` (first phase; the two-value invariant `Tight.two` limits the fast-forwards, `Tight.quiet` keeps the
consumer's `prev_id` still while old requests are queued), then `Base` (only the current consumer's requests, carrying its
`prev_id`, are queued; everybody else in the client table is stale at `t2`) with two modes `AfterR` / `AfterS` and the measure
`stageR` ≤ 3: a `send` after a poll moves to `AfterS` (HELLO in flight / fast-forwarded / frame set in flight), further `send`s
keep it, the next poll returns a frame set or lands in `AfterR` at a strictly lower stage, further polls never raise it
(`afterR_send`, `afterS_send`, `afterS_recv`, `afterR_recv`, `fair_modes`).  `send` on a queue holding any number of
copies of the consumer's request is analysed in `PairFair.lean` (`send0_own_hello`, `send0_own_ffwd`, `send0_own_publish`).
The 5 = 1 (until the consumer has polled once in the second phase) + 4 (stages).  Restarts during the continuation are not
part of the statement; since the state after a restart is reachable again, the theorem applies afresh from there (the
count restarts, with `T` re-read).
Not proved: that the first phase is necessary (exploration on the real classes with `evs1` omitted and the same `t2`
found no failing schedule: dead incarnations' requests that get registered at `t2` never coincide with a wasted publish in
reachable states, but showing that needs invariants about incarnations and about the block structure of the wire channel);
a steady-state throughput statement (`no_livelock`: a new id every c alternations for ever).
-/
namespace OF.Pair
open OF

/-- a call of the healing phase: a `recv`, or a `send` of a frame on topic `main` at a clock reading of at least `t2` -/
def LateCall (t2 : Int) (e : Ev) : Prop := e = .recvCall ∨ ∃ b t, e = .sendCall (mainPayload b) t ∧ t2 ≤ t

/-- number of alternations "a `send`, later a `recv`" in a schedule, counted greedily; `w` = a `send` has been seen
since the last counted `recv`.  Extra calls of either side in between change nothing. -/
def alts : Bool → List Ev → Nat
  | _, [] => 0
  | w, e :: es =>
    match e with
    | .sendCall _ _ => alts true es
    | .recvCall => if w then alts false es + 1 else alts false es
    | _ => alts w es

/-- somewhere in the run `recv` returns a frame set with an id above the consumer's `prev_id` at the start -/
def Heals (st : St) (evs : List Ev) : Prop := ∃ id ∈ returned (run st evs).2, st.con.prevId < id

theorem heals_now (st : St) (e : Ev) (es : List Ev) (h : ∃ id ∈ obsRets (step st e).2, st.con.prevId < id) :
    Heals st (e :: es) := by
  rcases h with ⟨id, hid, hlt⟩
  refine ⟨id, ?_, hlt⟩
  simp only [run, returned, List.flatMap_cons]
  exact List.mem_append_left _ hid

theorem heals_later (st : St) (e : Ev) (es : List Ev) (hle : st.con.prevId ≤ (step st e).1.con.prevId)
    (h : Heals (step st e).1 es) : Heals st (e :: es) := by
  rcases h with ⟨id, hid, hlt⟩
  refine ⟨id, ?_, by omega⟩
  simp only [run, returned, List.flatMap_cons]
  exact List.mem_append_right _ hid

/-- the two modes, by induction over any schedule of late calls -/
theorem fair_modes (t2 : Int) : ∀ (evs : List Ev) (st : St), (∀ e ∈ evs, LateCall t2 e) →
    (AfterR st t2 → stageR st + 1 ≤ alts false evs → Heals st evs) ∧
    (∀ k, AfterS st t2 k → k + 1 ≤ alts true evs → Heals st evs) := by
  intro evs
  induction evs with
  | nil =>
    intro st _
    exact ⟨fun _ h => by simp [alts] at h, fun k _ h => by simp [alts] at h⟩
  | cons e es ih =>
    intro st hl
    have hl' : ∀ x ∈ es, LateCall t2 x := fun x hx => hl x (List.mem_cons_of_mem _ hx)
    rcases hl e (List.mem_cons_self ..) with rfl | ⟨b, t, rfl, ht⟩
    · -- the consumer polls
      refine ⟨?_, ?_⟩
      · intro hA hk
        have hk' : stageR st + 1 ≤ alts false es := by simpa [alts] using hk
        have ⟨h1, h2⟩ := afterR_recv st t2 hA
        rcases h2 with hs | ⟨hA', hle⟩
        · exact heals_now st _ es hs
        · exact heals_later st _ es h1 ((ih _ hl').1 hA' (by omega))
      · intro k hS hk
        have hk' : k ≤ alts false es := by simp only [alts, ↓reduceIte] at hk; omega
        have ⟨h1, h2⟩ := afterS_recv st t2 k hS
        rcases h2 with hs | ⟨hA', hlt⟩
        · exact heals_now st _ es hs
        · exact heals_later st _ es h1 ((ih _ hl').1 hA' (by omega))
    · -- the publisher is called
      refine ⟨?_, ?_⟩
      · intro hA hk
        have hk' : stageR st + 1 ≤ alts true es := by simpa [alts] using hk
        exact heals_later st _ es (Int.le_refl _) ((ih _ hl').2 _ (afterR_send st t2 t b hA ht) hk')
      · intro k hS hk
        have hk' : k + 1 ≤ alts true es := by simpa [alts] using hk
        exact heals_later st _ es (Int.le_refl _) ((ih _ hl').2 _ (afterS_send st t2 t b k hS ht) hk')

/-- from a `Base` state five alternations suffice (the first one only guarantees that the consumer has polled) -/
theorem fair_from_base (t2 : Int) : ∀ (evs : List Ev) (st : St) (w : Bool) (s : Recv.Src) (q : List Send.Req),
    (∀ e ∈ evs, LateCall t2 e) → Base st t2 s q → 5 ≤ alts w evs → Heals st evs := by
  intro evs
  induction evs with
  | nil => intro st w s q _ _ h; simp [alts] at h
  | cons e es ih =>
    intro st w s q hl hb hk
    have hl' : ∀ x ∈ es, LateCall t2 x := fun x hx => hl x (List.mem_cons_of_mem _ hx)
    rcases hl e (List.mem_cons_self ..) with rfl | ⟨b, t, rfl, ht⟩
    · have hk' : 4 ≤ alts false es := by
        simp only [alts] at hk
        split at hk <;> omega
      have ⟨h1, h2⟩ := base_recv_afterR st t2 s q hb
      rcases h2 with hs | hA
      · exact heals_now st _ es hs
      · have := stageR_le (step st .recvCall).1
        exact heals_later st _ es h1 ((fair_modes t2 es _ hl').1 hA (by omega))
    · have hk' : 5 ≤ alts true es := by simpa [alts] using hk
      have ⟨s', q', hb'⟩ := base_send st t2 t b s q hb ht
      exact heals_later st _ es (Int.le_refl _) (ih _ true s' q' hl' hb' hk')


/-! ## first phase: what was queued before is consumed by three `send`s, whatever the consumer does meanwhile -/

/-- a call of the first phase: a `recv`, or a `send` (any payload) at a clock reading of at most `T` -/
def EarlyCall (T : Int) (e : Ev) : Prop := e = .recvCall ∨ ∃ p t, e = .sendCall p t ∧ t ≤ T

def sendCount : List Ev → Nat
  | [] => 0
  | .sendCall _ _ :: es => sendCount es + 1
  | _ :: es => sendCount es

/-- first phase: `rem` = what is left of the requests that were queued at the start (anybody's), `ownl` = requests the
current consumer has pushed since; while `rem` is not empty the fast-forwardable ids stay among the two values `a`, `b` -/
structure Flushing (st : St) (T : Int) (s : Recv.Src) (rem ownl : List Send.Req) (a b : Int) : Prop where
  reach : Reachable st
  con : Idle st.con s
  pub : PubIdle st.pub (rem ++ ownl)
  own : ∀ r ∈ ownl, ∃ nw, r = reqFor (uidOf st.gen) st.con.prevId nw
  stale : Stale T st.pub.clients
  two : rem ≠ [] → (∀ r ∈ rem ++ ownl, st.pub.minSendId ≤ r.mid → r.mid = a ∨ r.mid = b) ∧
          (st.pub.minSendId ≤ st.con.prevId → st.con.prevId = a ∨ st.con.prevId = b)

theorem flush_recv (st : St) (T : Int) (s : Recv.Src) (rem ownl : List Send.Req) (a b : Int) (h : Flushing st T s rem ownl a b) :
    st.con.prevId ≤ (step st .recvCall).1.con.prevId ∧
    ((∃ id ∈ obsRets (step st .recvCall).2, st.con.prevId < id) ∨
     ∃ s' ownl', Flushing (step st .recvCall).1 T s' rem ownl' a b) := by
  have ⟨g1, g2, g3, g4, g5⟩ := recvStep_spec st s (rem ++ ownl) h.con h.pub
  refine ⟨g4, ?_⟩
  rcases g5 with hs | ⟨s', i1, _, i3, _, i5⟩
  · exact Or.inl hs
  · right
    -- if the consumer's prev_id moved, an adoptable message was in flight, so nothing was queued
    have hmove : (step st .recvCall).1.con.prevId ≠ st.con.prevId → rem = [] ∧ ownl = [] := by
      intro hne
      rcases i5 with e | ⟨w, hw, e⟩
      · exact absurd e hne
      · rcases tight_reachable st h.reach with ⟨s1, q1, ht⟩
        have ⟨e1, e2⟩ := tight_align st s s1 _ q1 ht h.con h.pub
        subst e1 e2
        have := ht.quiet ⟨w, hw, by omega⟩
        exact List.append_eq_nil_iff.mp this
    refine ⟨s', ownl ++ [curReq (step st .recvCall).1 s'], Reachable.step st _ h.reach, i1, by rw [← List.append_assoc]; exact i3, ?_, ?_, ?_⟩
    · intro r hr
      rw [List.mem_append] at hr
      rcases hr with hr | hr
      · by_cases hpe : (step st .recvCall).1.con.prevId = st.con.prevId
        · rcases h.own r hr with ⟨nw, rfl⟩
          exact ⟨nw, by rw [g1, hpe]⟩
        · rw [(hmove hpe).2] at hr; cases hr
      · simp only [List.mem_singleton] at hr
        exact ⟨_, by rw [hr]; rfl⟩
    · rw [g2]; exact h.stale
    · intro hrem
      have hpe : (step st .recvCall).1.con.prevId = st.con.prevId := by
        by_cases hpe : (step st .recvCall).1.con.prevId = st.con.prevId
        · exact hpe
        · exact absurd (hmove hpe).1 hrem
      have ⟨t1, t2⟩ := h.two hrem
      rw [g3, hpe]
      refine ⟨?_, t2⟩
      intro r hr hle
      rw [← List.append_assoc, List.mem_append] at hr
      rcases hr with hr | hr
      · exact t1 r hr hle
      · simp only [List.mem_singleton] at hr
        rw [hr] at hle ⊢
        simp only [curReq, reqFor] at hle ⊢
        rw [hpe] at hle ⊢
        exact t2 hle


theorem flush_send (st : St) (T : Int) (s : Recv.Src) (rem ownl : List Send.Req) (a b : Int) (payload : Send.Payload) (t : Int)
    (h : Flushing st T s rem ownl a b) (ht : t ≤ T) :
    ∃ s' rem' ownl', Flushing (step st (.sendCall payload t)).1 T s' rem' ownl' a b ∧
      (rem' = [] ∨ (rem ≠ [] ∧ cnt a b (step st (.sendCall payload t)).1.pub.minSendId < cnt a b st.pub.minSendId)) := by
  have ⟨q', f1, ⟨pre, f2⟩, f3, f4, _, f6⟩ := send0_facts st.pub (rem ++ ownl) payload t T h.pub h.stale ht
  have hc := idle_pushWires st.con s ((Send.send0 st.pub none payload false [0] t).2.filterMap wireOf) h.con
  have hn : (step st (.sendCall payload t)).1.pub.minSendId = (Send.send0 st.pub none payload false [0] t).1.minSendId := rfl
  rcases List.append_eq_append_iff.mp f2 with ⟨a', _, e2⟩ | ⟨c', e1, e2⟩
  · -- everything that was left of the old requests has been consumed
    refine ⟨_, [], q', ⟨Reachable.step st _ h.reach, hc, (by rw [List.nil_append]; exact f1), ?_, f4, fun hne => absurd rfl hne⟩, Or.inl rfl⟩
    intro r hr
    exact h.own r (by rw [e2]; exact List.mem_append_right _ hr)
  · subst e2
    refine ⟨_, c', ownl, ⟨Reachable.step st _ h.reach, hc, f1, h.own, f4, ?_⟩, ?_⟩
    · intro hne
      have hrem : rem ≠ [] := by rw [e1]; intro hh; exact hne (List.append_eq_nil_iff.mp hh).2
      have ⟨t1, t2⟩ := h.two hrem
      rw [hn]
      refine ⟨?_, fun hle => t2 (by show st.pub.minSendId ≤ st.con.prevId; have : (step st (.sendCall payload t)).1.con.prevId = st.con.prevId := rfl; omega)⟩
      intro r hr hle
      refine t1 r ?_ (by omega)
      rw [e1, List.append_assoc]; exact List.mem_append_right _ hr
    · rcases f6 with ⟨e, _⟩ | ⟨r, hr, g1, _, g2, _⟩
      · exact Or.inl (List.append_eq_nil_iff.mp e).1
      · by_cases hrem : rem = []
        · left
          rw [hrem] at e1
          exact (List.append_eq_nil_iff.mp e1.symm).2
        · right
          have ⟨t1, _⟩ := h.two hrem
          rw [hn, g2]
          exact ⟨hrem, cnt_ffwd a b st.pub.minSendId r.mid (t1 r hr g1) g1⟩

/-- the first phase: three `send`s anywhere among any number of polls leave only the current consumer's requests queued -/
theorem flush_phase (T : Int) : ∀ (evs : List Ev) (st : St) (s : Recv.Src) (rem ownl : List Send.Req) (a b : Int),
    Flushing st T s rem ownl a b → (∀ e ∈ evs, EarlyCall T e) →
    (rem = [] ∨ cnt a b st.pub.minSendId < sendCount evs) →
    Heals st evs ∨ (st.con.prevId ≤ (run st evs).1.con.prevId ∧ ∃ s' ownl', Flushing (run st evs).1 T s' [] ownl' a b) := by
  intro evs
  induction evs with
  | nil =>
    intro st s rem ownl a b h _ hm
    right
    rcases hm with hm | hm
    · subst hm; exact ⟨Int.le_refl _, s, ownl, h⟩
    · simp [sendCount] at hm
  | cons e es ih =>
    intro st s rem ownl a b h hl hm
    have hl' : ∀ x ∈ es, EarlyCall T x := fun x hx => hl x (List.mem_cons_of_mem _ hx)
    rcases hl e (List.mem_cons_self ..) with rfl | ⟨payload, t, rfl, ht⟩
    · have ⟨h1, h2⟩ := flush_recv st T s rem ownl a b h
      rcases h2 with hs | ⟨s', ownl', h'⟩
      · exact Or.inl (heals_now st _ es hs)
      · have hn : (step st .recvCall).1.pub.minSendId = st.pub.minSendId := rfl
        rcases ih _ s' rem ownl' a b h' hl' (by rw [hn]; simpa [sendCount] using hm) with hh | ⟨hle, hf⟩
        · exact Or.inl (heals_later st _ es h1 hh)
        · exact Or.inr ⟨by show st.con.prevId ≤ (run (step st .recvCall).1 es).1.con.prevId; omega, hf⟩
    · have ⟨s', rem', ownl', h', hdec⟩ := flush_send st T s rem ownl a b payload t h ht
      have hm' : rem' = [] ∨ cnt a b (step st (.sendCall payload t)).1.pub.minSendId < sendCount es := by
        rcases hdec with e | ⟨hrem, e⟩
        · exact Or.inl e
        · rcases hm with hm | hm
          · exact absurd hm hrem
          · right; simp only [sendCount] at hm; omega
      rcases ih _ s' rem' ownl' a b h' hl' hm' with hh | ⟨hle, hf⟩
      · exact Or.inl (heals_later st _ es (Int.le_refl _) hh)
      · exact Or.inr ⟨hle, hf⟩


theorem heals_append_left (st : St) (a b : List Ev) (h : Heals st a) : Heals st (a ++ b) := by
  rcases h with ⟨id, hid, hlt⟩
  exact ⟨id, by rw [run_append, returned_append]; exact List.mem_append_left _ hid, hlt⟩

theorem heals_append_right (st : St) (a b : List Ev) (hle : st.con.prevId ≤ (run st a).1.con.prevId)
    (h : Heals (run st a).1 b) : Heals st (a ++ b) := by
  rcases h with ⟨id, hid, hlt⟩
  exact ⟨id, by rw [run_append, returned_append]; exact List.mem_append_right _ hid, by omega⟩

/-- **C06 (fairness is enough)**: from EVERY reachable state of the pair, under ANY schedule of `send` / `recv` calls
(no scheduler cooperation: any interleaving, any number of extra calls of either side anywhere) of the form
`evs1 ++ evs2` where
* `evs1` — calls at clock readings up to some `T` (any payloads) — contains at least THREE `send`s, and
* `evs2` — calls at clock readings of at least `t2 > T + ZMQ_CONN_TIMEOUT`, the publisher having a frame on topic `main`
  each time — contains at least FIVE alternations "a `send`, later a `recv`",
the consumer's `recv` returns, somewhere in the run, a frame set with an id above everything this incarnation returned
before.  `T` only has to bound the clock readings the publisher's client table remembers. -/
theorem C06_pair_fair_heals (st : St) (hr : Reachable st) (evs1 evs2 : List Ev) (T t2 : Int)
    (hT : ∀ x ∈ st.pub.clients, x.2.tLast ≤ T) (h1 : ∀ e ∈ evs1, EarlyCall T e) (hc1 : 3 ≤ sendCount evs1)
    (ht : T + OF.Facts.ZMQ_CONN_TIMEOUT < t2) (h2 : ∀ e ∈ evs2, LateCall t2 e) (hc2 : 5 ≤ alts false evs2) :
    Heals st (evs1 ++ evs2) := by
  rcases tight_reachable st hr with ⟨s, q, htt⟩
  rcases htt.two with ⟨a, b, two1, two2⟩
  have hfl : Flushing st T s q [] a b :=
    ⟨hr, htt.con, (by rw [List.append_nil]; exact htt.pub), (fun r hr => by cases hr), hT,
      fun _ => ⟨(by rw [List.append_nil]; exact two1), two2⟩⟩
  rcases flush_phase T evs1 st s q [] a b hfl h1 (Or.inr (by have := cnt_le a b st.pub.minSendId; omega)) with hh | ⟨hle, s', ownl', hf⟩
  · exact heals_append_left st evs1 evs2 hh
  · apply heals_append_right st evs1 evs2 hle
    have hb : Base (run st evs1).1 t2 s' ownl' := by
      refine ⟨hf.reach, hf.con, by have := hf.pub; rwa [List.nil_append] at this, hf.own, ?_⟩
      intro x hx _
      have := hf.stale x hx
      omega
    exact fair_from_base t2 evs2 _ false s' ownl' h2 hb hc2

/-- with nothing queued at the publisher the first phase is not needed -/
theorem C06_pair_fair_heals_after_quiet (st : St) (hr : Reachable st) (evs2 : List Ev) (t2 : Int)
    (hq : reqChan st = []) (hT : ∀ x ∈ st.pub.clients, x.2.tLast + OF.Facts.ZMQ_CONN_TIMEOUT < t2)
    (h2 : ∀ e ∈ evs2, LateCall t2 e) (hc2 : 5 ≤ alts false evs2) : Heals st evs2 := by
  rcases shape_reachable st hr with ⟨⟨s, hc⟩, ⟨q, hp⟩⟩
  have hq' : q = [] := by rw [← reqChan_single st q hp.queues]; exact hq
  subst hq'
  have hb : Base st t2 s [] := ⟨hr, hc, hp, (fun r hr => by cases hr), fun x hx _ => by have := hT x hx; omega⟩
  exact fair_from_base t2 evs2 st false s [] h2 hb hc2


/-! ### non-vacuity (kernel-evaluated) -/

/-- an irregular schedule after the consumer crash of `exConsumerRestart`: three `send`s among five polls at clock reading
1300; later, at clock readings from 6400 on, bursts of either side with five alternations -/
def exFair1 : List Ev :=
  [.recvCall, .sendCall (mainPayload 20) 1300, .recvCall, .recvCall, .sendCall (mainPayload 21) 1300, .recvCall,
   .sendCall (mainPayload 22) 1300, .recvCall]
def exFair2 : List Ev :=
  [.sendCall (mainPayload 30) 6400, .sendCall (mainPayload 31) 6400, .recvCall, .recvCall, .recvCall,
   .sendCall (mainPayload 32) 6500, .recvCall, .sendCall (mainPayload 33) 6500, .sendCall (mainPayload 34) 6600, .recvCall,
   .recvCall, .sendCall (mainPayload 35) 6600, .recvCall, .sendCall (mainPayload 36) 7000, .recvCall]

example : sendCount exFair1 = 3 ∧ alts false exFair2 = 5 ∧
    returned (run (run init exConsumerRestart).1 exFair1).2 = [] ∧
    returned (run (run init exConsumerRestart).1 (exFair1 ++ exFair2)).2 = [3, 4, 5, 6, 7] := by decide +kernel

end OF.Pair
