import OFModel.Zmq.Sender
/-! Helper lemmas about the sender automaton (C02, C04, C05, C07). -/
namespace OF.Send

/-- inside a call the id being sent is not below the next id that may be sent -/
def SInv (st : St) : Prop := st.inCall = true → st.minSendId ≤ st.msgId

/-- ids of the wire messages (`topic` messages and heartbeats) among some outputs -/
def pubMids (os : List Out) : List Int :=
  os.filterMap fun o => match o with | .pub _ _ mid _ _ _ => some mid | _ => none

theorem pubMids_append (a b : List Out) : pubMids (a ++ b) = pubMids a ++ pubMids b := by
  unfold pubMids; rw [List.filterMap_append]

theorem mem_pubMids (os : List Out) (x : Int) : x ∈ pubMids os ↔ ∃ o f ts bal b, Out.pub o f x ts bal b ∈ os := by
  unfold pubMids
  rw [List.mem_filterMap]
  constructor
  · rintro ⟨o, ho, hx⟩
    cases o with
    | pub out f mid ts bal b => simp only [Option.some.injEq] at hx; subst hx; exact ⟨out, f, ts, bal, b, ho⟩
    | _ => cases hx
  · rintro ⟨o, f, ts, bal, b, h⟩
    exact ⟨_, h, rfl⟩

/-- `onReq` publishes nothing -/
theorem onReq_pubMids (st : St) (j : Nat) (r : Req) (t : Int) : pubMids (onReq st j r t).2.1 = [] := by
  unfold onReq
  simp only
  split
  · split
    · rfl
    · split <;> rfl
  · split
    · rfl
    · split <;> rfl

/-- `onReq` either leaves `min_send_id` alone, or fast-forwards it beyond the id being sent -/
theorem onReq_min (st : St) (j : Nat) (r : Req) (t : Int) :
    ((onReq st j r t).2.2 ≠ .ffwd ∧ (onReq st j r t).1.minSendId = st.minSendId) ∨
    ((onReq st j r t).2.2 = .ffwd ∧ st.msgId + 1 ≤ (onReq st j r t).1.minSendId) := by
  unfold onReq
  simp only
  split
  · split
    · left; exact ⟨by simp, rfl⟩
    · split <;> (left; exact ⟨by simp, rfl⟩)
  · split
    · left; exact ⟨by simp, rfl⟩
    · split
      · rename_i h; right; exact ⟨rfl, by simp only; omega⟩
      · left; exact ⟨by simp, rfl⟩

theorem onReq_fields (st : St) (j : Nat) (r : Req) (t : Int) :
    (onReq st j r t).1.inCall = st.inCall ∧ (onReq st j r t).1.msgId = st.msgId ∧
    (onReq st j r t).1.balance = st.balance := by
  unfold onReq
  simp only
  split
  · split
    · exact ⟨rfl, rfl, rfl⟩
    · split <;> exact ⟨rfl, rfl, rfl⟩
  · split
    · exact ⟨rfl, rfl, rfl⟩
    · split <;> exact ⟨rfl, rfl, rfl⟩

theorem gate_pubMids (st : St) : pubMids (gate st).2.2 = [] := by
  unfold gate
  split
  · rfl
  · split <;> rfl

theorem hello_pubMids (st : St) (ret : Option Bool) : pubMids (helloOuts st ret) = [] := by
  unfold helloOuts
  split
  · unfold pubMids; rw [List.filterMap_eq_nil_iff]
    intro o ho; rw [List.mem_map] at ho; rcases ho with ⟨_, _, rfl⟩; rfl
  · rfl

theorem publish_spec (st : St) (ts : List (String × Nat)) :
    (publish st ts).1.inCall = st.inCall ∧ (publish st ts).1.msgId = st.msgId ∧
    (publish st ts).1.minSendId = st.msgId + 1 ∧ (publish st ts).1.balance = st.balance ∧
    ∀ x ∈ pubMids (publish st ts).2, x = st.msgId := by
  unfold publish
  refine ⟨rfl, rfl, rfl, rfl, ?_⟩
  intro x hx
  rw [mem_pubMids] at hx
  rcases hx with ⟨o, f, ts', bal, b, h⟩
  simp only [List.mem_append] at h
  rcases h with h | h
  · rw [List.mem_flatMap] at h
    rcases h with ⟨⟨t, b'⟩, _, h2⟩
    rw [List.mem_map] at h2
    rcases h2 with ⟨_, _, h3⟩
    cases h3; rfl
  · rw [List.mem_map] at h
    rcases h with ⟨_, _, h3⟩
    cases h3; rfl

/-- what `send_maybe` publishes carries the id of the call, and publishing moves `min_send_id` just past it -/
theorem sendMaybe_spec (st : St) :
    (sendMaybe st).1.inCall = st.inCall ∧ (sendMaybe st).1.msgId = st.msgId ∧
    (sendMaybe st).1.balance = st.balance ∧
    (∀ x ∈ pubMids (sendMaybe st).2.1, x = st.msgId) ∧
    ((pubMids (sendMaybe st).2.1 = [] ∧ (sendMaybe st).1.minSendId = st.minSendId) ∨
     ((sendMaybe st).2.2 = true ∧ (sendMaybe st).1.minSendId = st.msgId + 1)) := by
  unfold sendMaybe
  simp only
  split
  · refine ⟨rfl, rfl, rfl, ?_, Or.inl ⟨?_, rfl⟩⟩
    · intro x hx; rw [pubMids_append, gate_pubMids, hello_pubMids] at hx; cases hx
    · rw [pubMids_append, gate_pubMids, hello_pubMids]; rfl
  · have hp := publish_spec { st with doHello := false, payload := (gate st).2.1 } (payloadTopics (gate st).2.1)
    refine ⟨hp.1, hp.2.1, hp.2.2.2.1, ?_, Or.inr ⟨rfl, hp.2.2.1⟩⟩
    intro x hx
    rw [pubMids_append, pubMids_append, gate_pubMids, hello_pubMids] at hx
    exact hp.2.2.2.2 x (by simpa using hx)

/-- one event: `SInv` kept, `min_send_id` never decreases, and whatever is published lies in
`[min_send_id before, min_send_id after)` -/
theorem step_pub (st : St) (e : Ev) (h : SInv st) :
    SInv (step st e).1 ∧ st.minSendId ≤ (step st e).1.minSendId ∧
    (∀ x ∈ pubMids (step st e).2, st.minSendId ≤ x ∧ x < (step st e).1.minSendId) ∧
    (∀ x ∈ pubMids (step st e).2, ∀ y ∈ pubMids (step st e).2, x = y) := by
  have nopub : ∀ (st' : St), SInv st' → st.minSendId ≤ st'.minSendId →
      SInv st' ∧ st.minSendId ≤ st'.minSendId ∧
      (∀ x ∈ pubMids ([] : List Out), st.minSendId ≤ x ∧ x < st'.minSendId) ∧
      (∀ x ∈ pubMids ([] : List Out), ∀ y ∈ pubMids ([] : List Out), x = y) := by
    intro st' h1 h2
    refine ⟨h1, h2, ?_, ?_⟩
    · intro x hx; cases hx
    · intro x hx; cases hx
  cases e with
  | deliver j r =>
    unfold step stepDeliver; simp only
    split
    · exact nopub st h (Int.le_refl _)
    · exact nopub _ h (Int.le_refl _)
  | «begin» state payload push =>
    unfold step stepBegin; simp only
    split
    · exact nopub st h (Int.le_refl _)
    · split
      · exact nopub _ (by intro _; exact Int.le_refl _) (Int.le_refl _)
      · split
        · refine ⟨h, Int.le_refl _, ?_, ?_⟩
          · intro x hx; simp [pubMids] at hx
          · intro x hx; simp [pubMids] at hx
        · rename_i hk
          exact nopub _ (by intro _; simp only [beginWith]; omega) (Int.le_refl _)
  | handle j t =>
    unfold step stepHandle; simp only
    split
    · exact nopub st h (Int.le_refl _)
    · rename_i hin
      have hin' : st.inCall = true := by simpa using hin
      split
      · exact nopub st h (Int.le_refl _)
      · exact nopub st h (Int.le_refl _)
      · rename_i r q _
        have hf := onReq_fields { st with queues := st.queues.set j q } j r t
        have hm := onReq_min { st with queues := st.queues.set j q } j r t
        have hp := onReq_pubMids { st with queues := st.queues.set j q } j r t
        have hmsg := h hin'
        split
        · rename_i hff
          rcases hm with ⟨hne, _⟩ | ⟨_, hge⟩
          · exact absurd hff hne
          · simp only at hge
            refine ⟨by intro hc; simp [endCall] at hc, by simp only [endCall]; omega, ?_, ?_⟩
            · intro x hx; simp only [endCall] at hx; rw [pubMids_append, hp] at hx; simp [pubMids] at hx
            · intro x hx; simp only [endCall] at hx; rw [pubMids_append, hp] at hx; simp [pubMids] at hx
        · rename_i hff
          rcases hm with ⟨_, heq⟩ | ⟨hff', _⟩
          · simp only at heq
            refine ⟨?_, (by simp only; omega), ?_, ?_⟩
            · intro _; simp only; rw [heq, hf.2.1]; exact hmsg
            · intro x hx; rw [hp] at hx; cases hx
            · intro x hx; rw [hp] at hx; cases hx
          · exact absurd hff' hff
  | trySend =>
    unfold step stepTrySend; simp only
    split
    · exact nopub st h (Int.le_refl _)
    · rename_i hin
      have hin' : st.inCall = true := by simpa using hin
      have hmsg := h hin'
      have ⟨s1, s2, _, s3, s4⟩ := sendMaybe_spec st
      split
      · simp only [endCall]
        rcases s4 with ⟨hnil, hmin⟩ | ⟨_, hmin⟩
        · refine ⟨by intro hc; simp at hc, by omega, ?_, ?_⟩
          · intro x hx; rw [pubMids_append, hnil] at hx; simp [pubMids] at hx
          · intro x hx; rw [pubMids_append, hnil] at hx; simp [pubMids] at hx
        · refine ⟨by intro hc; simp at hc, by omega, ?_, ?_⟩
          · intro x hx
            rw [pubMids_append] at hx
            have : x ∈ pubMids (sendMaybe st).2.1 := by simpa [pubMids] using hx
            have := s3 x this; omega
          · intro x hx y hy
            rw [pubMids_append] at hx hy
            have hx' : x ∈ pubMids (sendMaybe st).2.1 := by simpa [pubMids] using hx
            have hy' : y ∈ pubMids (sendMaybe st).2.1 := by simpa [pubMids] using hy
            rw [s3 x hx', s3 y hy']
      · rename_i hsent
        rcases s4 with ⟨hnil, hmin⟩ | ⟨hs, _⟩
        · refine ⟨?_, (by simp only; omega), ?_, ?_⟩
          · intro _; simp only; rw [hmin, s2]; exact hmsg
          · intro x hx; rw [hnil] at hx; cases hx
          · intro x hx; rw [hnil] at hx; cases hx
        · exact absurd hs hsent
  | timeout =>
    unfold step stepTimeout; simp only
    split
    · exact nopub st h (Int.le_refl _)
    · refine ⟨by intro hc; simp at hc, Int.le_refl _, ?_, ?_⟩
      · intro x hx; simp [pubMids] at hx
      · intro x hx; simp [pubMids] at hx

end OF.Send
