import OFProps.RejoinLongTopo
set_option linter.unusedSimpArgs false
set_option linter.unusedVariables false
/-!
# RejoinLongNoSkip — the invariant of the tee-rejoin with branches of `L` relays when NO relay skips (C03 stage C, §11.3j)

Topology `rejoinLongTopo b L`.  Invariant `GoodL` = `GoodR` of `C03Rejoin.lean` with every relay a chain relay:
* `PubInv` for the source and EVERY relay `1 … b * L` (`pubF u` = what node `u` has published); in particular every queued request names an
  id the publisher has published — no request ever reaches the fast-forward path of `Send.send0` (`send_outcome_gen` has three outcomes only);
* `ConInv` on EVERY edge `parL L j → j` of the tree part (as in `C03Tree.lean`);
* `IdsIdx (pubF u)`: the `n`-th block a relay publishes has id `n` (`NoSkipLong`);
* `JInvL` for the join: `KInv` (`RejoinRecv.lean`) over the LAST relays `lastL L jj` of the branches.
-/
namespace OF.Net
open OF.Chain (Blk ChanQ BlkOK Rest visData vis KInv Mode ConsecFrom headTs visDataJ)
open OF.Recv (Src Wire Msg Topic)

/-- NO relay of any branch returns `None` (neither directly nor as the value of a callable; `{}` is allowed) -/
def NoSkipLong (proc : Proc) (b L : Nat) : Prop :=
  ∀ i n h, 1 ≤ i → i ≤ b * L → ∃ d, dictOf (Loop.processFrames (proc i n h)) = some d

/-- the sets the join has been handed: set `n` = the `n`-th blocks of the LAST relays of all branches, visible topics, in branch order -/
def joinLogL (b L : Nat) (pubF : Nat → List HSet) (c : Nat) : List HSet :=
  (List.range c).map fun (n : Nat) =>
    (((n : Nat) : Int), (List.range b).flatMap fun jj => (visB (((pubF (lastL L jj))[n]?).getD (0, []))).2)

structure JInvL (b L : Nat) (owner : Topic → Nat) (X : LSt) (J : Node) (pubF : Nat → List HSet) (bss : Nat → List Blk) : Prop where
  kinv : KInv (lastsL b L) owner J.con (J.con.prevId + 1) bss
  idle : J.con.inCall = false
  cnt : J.con.prevId + 1 = (J.count : Int)
  link : ∀ jj, jj < b → (pubF (lastL L jj)).drop J.count = (bss jj).map (cblk X.st.tbl)
  bodies : ∀ jj, jj < b → ∀ blk ∈ bss jj, ∀ x ∈ blk.2, x.2 < X.st.tbl.length
  le : ∀ jj, jj < b → J.count ≤ (pubF (lastL L jj)).length
  log : X.log (b * L + 1) = joinLogL b L pubF J.count

structure GoodLW (proc : Proc) (b L : Nat) (owner : Topic → Nat) (X : LSt) (pubF : Nat → List HSet) (bss : Nat → List Blk) : Prop where
  len : X.st.nodes.length = b * L + 2
  tbl : 0 < X.st.tbl.length
  node : ∀ (i : Nat) (nd : Node), X.st.nodes[i]? = some nd → NodeG i nd
  pubs : ∀ (u : Nat) (P : Node), u ≤ b * L → X.st.nodes[u]? = some P → PubInv proc X u P (pubF u)
  cons : ∀ (j : Nat) (C : Node), 1 ≤ j → j ≤ b * L → X.st.nodes[j]? = some C →
    ∃ bsW s, ConInv (atC X j) (parL L j) C (pubF (parL L j)) bsW s
  idx : ∀ (u : Nat), 1 ≤ u → u ≤ b * L → IdsIdx (pubF u)
  join : ∀ (J : Node), X.st.nodes[b * L + 1]? = some J → JInvL b L owner X J pubF bss

def GoodL (proc : Proc) (b L : Nat) (owner : Topic → Nat) (X : LSt) : Prop := ∃ pubF bss, GoodLW proc b L owner X pubF bss

theorem jinvL_frame (b L : Nat) (owner : Topic → Nat) (X X' : LSt) (J J' : Node) (pubF : Nat → List HSet) (bss : Nat → List Blk)
    (es : List Entry) (h : JInvL b L owner X J pubF bss) (htbl : X'.st.tbl = X.st.tbl ++ es) (hlog : X'.log (b * L + 1) = X.log (b * L + 1))
    (hcon : J'.con = J.con) (hcount : J'.count = J.count) : JInvL b L owner X' J' pubF bss := by
  refine ⟨by rw [hcon]; exact h.kinv, by rw [hcon]; exact h.idle, by rw [hcon, hcount]; exact h.cnt, ?_, ?_,
    by rw [hcount]; exact h.le, by rw [hlog, hcount]; exact h.log⟩
  · intro jj hjj
    rw [hcount, h.link jj hjj, htbl]
    apply List.map_congr_left
    intro blk hblk
    exact (cblk_append X.st.tbl es blk (h.bodies jj hjj blk hblk)).symm
  · intro jj hjj blk hblk x hx
    rw [htbl, List.length_append]
    have := h.bodies jj hjj blk hblk x hx
    omega

theorem rl_init_get (b L : Nat) (i : Nat) (nd : Node) (h : (linit (rejoinLongTopo b L)).st.nodes[i]? = some nd) :
    i < b * L + 2 ∧ nd = freshNode (rejoinLongTopo b L) i 0 := by
  simp only [linit, init, List.getElem?_map, rl_n] at h
  cases hr : (List.range (b * L + 2))[i]? with
  | none => rw [hr] at h; cases h
  | some v =>
    rw [hr] at h
    have := List.getElem?_eq_some_iff.mp hr
    rcases this with ⟨hl, he⟩
    simp only [List.getElem_range] at he
    simp only [List.length_range] at hl
    subst he
    simp only [Option.map_some, Option.some.injEq] at h
    exact ⟨hl, h.symm⟩

theorem goodL_init (proc : Proc) (b L : Nat) (owner : Topic → Nat) :
    GoodLW proc b L owner (linit (rejoinLongTopo b L)) (fun _ => []) (fun _ => []) := by
  refine ⟨by simp [linit, init, rl_n], by simp [linit, init], ?_, ?_, ?_, fun _ _ _ => idsIdx_nil, ?_⟩
  · intro i nd hi
    rcases rl_init_get b L i nd hi with ⟨hl, rfl⟩
    refine ⟨?_, (by intro _ hc; cases hc), (by intro _ k hk; cases hk)⟩
    intro h0; subst h0
    simp [freshNode, rl_ups0, Recv.mkSt]
  · intro u P _ hP
    rcases rl_init_get b L u P hP with ⟨_, rfl⟩
    refine ⟨?_, idsInc_nil, rfl, rfl, rfl, rfl, ?_, (by intro hc; cases hc), (by intro p d hp; cases hp)⟩
    · simp only [prodOf, freshNode, pendOf, List.append_nil]
      split
      · rfl
      · rfl
    · intro q hq r hr
      simp [freshNode, Send.mkSt] at hq
      subst hq; cases hr
  · intro j C h1 h2 hC
    rcases rl_init_get b L j C hC with ⟨_, rfl⟩
    have hups := rl_upsRelay b L j h1 h2
    refine ⟨[], Recv.mkSrc 0 none, ⟨⟨?_, ⟨rfl, rfl, rfl, rfl⟩, ⟨rfl, rfl, rfl⟩, rfl, rfl, (by intro l hl; cases hl), rfl,
      (by simp [freshNode, Recv.mkSt, OF.Facts.MSG_ID_INITIAL_PREV])⟩, rfl⟩,
      ChanQ.nil _, (by intro b hb; cases hb), rfl, rfl, Nat.le_refl _, rfl⟩
    simp [freshNode, hups, Recv.mkSt]
  · intro J hJ
    rcases rl_init_get b L (b * L + 1) J hJ with ⟨_, rfl⟩
    have hsrcs : (freshNode (rejoinLongTopo b L) (b * L + 1) 0).con.srcs = (List.range b).map fun _ => Recv.mkSrc 0 none := by
      simp [freshNode, rl_upsJ, lastsL, Recv.mkSt, List.map_map]
    have hget : ∀ (j : Nat) (s : Src), (freshNode (rejoinLongTopo b L) (b * L + 1) 0).con.srcs[j]? = some s → j < b ∧ s = Recv.mkSrc 0 none := by
      intro j s hs
      rw [hsrcs, List.getElem?_map] at hs
      cases hr : (List.range b)[j]? with
      | none => rw [hr] at hs; cases hs
      | some v =>
        rw [hr] at hs
        have := (List.getElem?_eq_some_iff.mp hr).1
        simp only [List.length_range] at this
        simp only [Option.map_some, Option.some.injEq] at hs
        exact ⟨this, hs.symm⟩
    refine ⟨⟨⟨rfl, rfl, rfl, ?_⟩, by rw [hsrcs]; simp [lastsL], by simp [freshNode, Recv.mkSt, OF.Facts.MSG_ID_INITIAL_PREV], ?_,
      (by intro j blk hb; cases hb)⟩, rfl, by simp [freshNode, Recv.mkSt, OF.Facts.MSG_ID_INITIAL_PREV], ?_,
      (by intro jj _ blk hb; cases hb), (by intro jj _; exact Nat.le_refl _), rfl⟩
    · intro j s hs
      rcases hget j s hs with ⟨_, rfl⟩
      exact ⟨rfl, rfl, rfl, rfl⟩
    · intro j s hs
      rcases hget j s hs with ⟨hjb, rfl⟩
      refine ⟨lastL L j, lastsL_get b L j hjb, (by intro n blk hb; simp at hb), Mode.idle rfl rfl (ChanQ.nil _)⟩
    · intro jj _; rfl

/-! ## generic re-assembly after a `nodeRecv` -/

theorem goodL_recv_gen (proc : Proc) (b L : Nat) (owner : Topic → Nat) (X : LSt) (c : Nat) (nd' : Node) (rs : Nat → List Send.Req)
    (log' : Nat → List HSet) (nodes' : List Node) (pubF : Nat → List HSet) (bss bss' : Nat → List Blk)
    (h : GoodLW proc b L owner X pubF bss) (hlen : nodes'.length = b * L + 2)
    (hlook : ∀ (x : Nat), nodes'[x]? = if x = c then some nd'
        else (X.st.nodes[x]?).map fun P => { P with pub := pushReqs P.pub (rs x) })
    (hrs : ∀ x, x ≤ b * L → ∀ r ∈ rs x, r.mid ≤ lastId (pubF x))
    (hlog : ∀ x, x ≠ c → log' x = X.log x)
    (hG : NodeG c nd')
    (hpubC : c ≤ b * L → PubInv proc { st := { X.st with nodes := nodes' }, log := log' } c nd' (pubF c))
    (hconC : 1 ≤ c → c ≤ b * L →
      ∃ bsW s, ConInv (atC { st := { X.st with nodes := nodes' }, log := log' } c) (parL L c) nd' (pubF (parL L c)) bsW s)
    (hJ : c = b * L + 1 → JInvL b L owner { st := { X.st with nodes := nodes' }, log := log' } nd' pubF bss')
    (hbss : c ≠ b * L + 1 → bss' = bss) :
    GoodLW proc b L owner { st := { X.st with nodes := nodes' }, log := log' } pubF bss' := by
  have hother : ∀ (x : Nat) (n' : Node), x ≠ c → nodes'[x]? = some n' →
      ∃ P, X.st.nodes[x]? = some P ∧ n' = { P with pub := pushReqs P.pub (rs x) } := by
    intro x n' hx hn
    rw [hlook] at hn
    simp only [hx, ↓reduceIte] at hn
    cases hP : X.st.nodes[x]? with
    | none => rw [hP] at hn; cases hn
    | some P =>
      rw [hP] at hn
      simp only [Option.map_some, Option.some.injEq] at hn
      exact ⟨P, rfl, hn.symm⟩
  have hself : ∀ (n' : Node), nodes'[c]? = some n' → n' = nd' := by
    intro n' hn
    rw [hlook] at hn
    simp only [↓reduceIte, Option.some.injEq] at hn
    exact hn.symm
  refine ⟨hlen, h.tbl, ?_, ?_, ?_, h.idx, ?_⟩
  · intro x n' hx
    by_cases hxc : x = c
    · subst hxc; rw [hself n' hx]; exact hG
    · rcases hother x n' hxc hx with ⟨P, hP, rfl⟩
      exact nodeG_frame x P _ (h.node x P hP) rfl rfl rfl rfl
  · intro u P' hub hu
    by_cases hxc : u = c
    · subst hxc; rw [hself P' hu]; exact hpubC hub
    · rcases hother u P' hxc hu with ⟨P, hP, rfl⟩
      exact pubInv_pushReqs proc X _ u P (pubF u) (rs u) (h.pubs u P hub hP) (hlog u hxc) (hrs u hub)
  · intro j C' h1 h2 hC'
    by_cases hxc : j = c
    · subst hxc; rw [hself C' hC']; exact hconC h1 h2
    · rcases hother j C' hxc hC' with ⟨P, hP, rfl⟩
      rcases h.cons j P h1 h2 hP with ⟨bsW, s, hc⟩
      exact ⟨bsW, s, conInv_frame _ _ (parL L j) P _ (pubF (parL L j)) bsW s [] hc (by simp [atC])
        (by simp only [atC]; exact hlog j hxc) rfl rfl⟩
  · intro J' hJ'
    by_cases hxc : b * L + 1 = c
    · subst hxc; rw [hself J' hJ']; exact hJ rfl
    · rcases hother (b * L + 1) J' hxc hJ' with ⟨P, hP, rfl⟩
      rw [hbss (fun e => hxc e.symm)]
      exact jinvL_frame b L owner X _ P _ pubF bss [] (h.join P hP) (by simp) (hlog (b * L + 1) hxc) rfl rfl

theorem goodL_eta (proc : Proc) (b L : Nat) (owner : Topic → Nat) (X : LSt) (h : GoodL proc b L owner X) :
    GoodL proc b L owner { st := X.st, log := X.log } := by
  cases X; exact h

theorem goodL_recvSource (proc : Proc) (hp : ProcNames proc) (b L : Nat) (owner : Topic → Nat) (X : LSt) (nd : Node)
    (pubF : Nat → List HSet) (bss : Nat → List Blk) (h : GoodLW proc b L owner X pubF bss)
    (hn : X.st.nodes[0]? = some nd) (hpend : nd.pending = none) :
    GoodLW proc b L owner { st := { X.st with nodes := X.st.nodes.set 0 (processed proc 0 nd []) }, log := X.log } pubF bss := by
  have hG := h.node 0 nd hn
  refine goodL_recv_gen proc b L owner X 0 (processed proc 0 nd []) (fun _ => []) X.log _ pubF bss bss h
    (by simp only [List.length_set]; exact h.len) ?_ (by intro x _ r hr; cases hr) (fun _ _ => rfl) ?_ ?_
    (by intro hc; omega) (by intro hc; omega) (fun _ => rfl)
  · intro x
    rw [List.getElem?_set]
    have h0 : 0 < X.st.nodes.length := (List.getElem?_eq_some_iff.mp hn).1
    by_cases hx : x = 0
    · subst hx; simp [h0]
    · have : ¬ 0 = x := fun e => hx e.symm
      simp only [this, hx, ↓reduceIte]
      cases X.st.nodes[x]? with
      | none => rfl
      | some P => simp only [Option.map_some, pushReqs_nil]
  · exact ⟨fun _ => hG.src rfl, fun hc => absurd hc (by omega), fun hc => absurd hc (by omega)⟩
  · intro _
    exact pubInv_after_src proc hp X _ nd (pubF 0) (h.pubs 0 nd (by omega) hn) hpend (hG.src rfl).2

/-! ## `nodeRecv` of a relay: an ordinary chain relay towards its own upstream `parL L j` -/

theorem goodL_recvRelay (proc : Proc) (hp : ProcNames proc) (b L : Nat) (hL : 1 ≤ L) (owner : Topic → Nat) (X : LSt) (j : Nat) (nd : Node)
    (pubF : Nat → List HSet) (bss : Nat → List Blk) (h : GoodLW proc b L owner X pubF bss) (h1 : 1 ≤ j) (h2 : j ≤ b * L)
    (hn : X.st.nodes[j]? = some nd) (hpn : nd.pending = none) :
    GoodLW proc b L owner (LSt.mk (recvRelay (rejoinLongTopo b L) proc X.st j nd).1
      (logUpd X.log (.nodeRecv j) (recvRelay (rejoinLongTopo b L) proc X.st j nd).2)) pubF bss := by
  have hult : parL L j < j := parL_lt L j h1
  generalize hu : parL L j = u at hult
  have huL : u < X.st.nodes.length := by rw [h.len]; omega
  have hP : X.st.nodes[u]? = some X.st.nodes[u] := List.getElem?_eq_getElem huL
  generalize X.st.nodes[u] = P at hP
  have hpubU := h.pubs u P (by omega) hP
  rcases h.cons j nd h1 h2 hn with ⟨bsW, s, hcon⟩
  rw [hu] at hcon
  have hups : (rejoinLongTopo b L).upsOf j = [u] := by rw [rl_upsRelay b L j h1 h2, hu]
  have hsrcs : nd.con.srcs = [s] := hcon.rest.idle.srcs
  have hprio : List.range nd.con.srcs.length = [0] := by rw [hsrcs]; rfl
  have hG := h.node j nd hn
  have hst : ∀ k, nd.recvState = some k → k ≤ nd.con.prevId + 1 := hG.recvSt (by omega)
  have ⟨hlinc, hllen, hle⟩ := con_log_inc (atC X j) u nd (pubF u) bsW s hcon hpubU.inc
  have hjlen : j < X.st.nodes.length := (List.getElem?_eq_some_iff.mp hn).1
  have hmid : ∀ (outs : List Recv.Out) (m : Int), m ≤ lastId (pubF u) →
      (∀ o ∈ outs, o = .retNone ∨ (∃ k' bal data, o = .ret k' bal data) ∨ ∃ i e n, o = .req i m e n) →
      ∀ x, x ≤ b * L → ∀ r ∈ outs.filterMap (reqOf j nd.gen [u] x), r.mid ≤ lastId (pubF x) := by
    intro outs m hm ho x _ r hr
    rw [List.mem_filterMap] at hr
    rcases hr with ⟨o, hoo, hro⟩
    rcases reqOf_some _ _ _ _ _ _ hro with ⟨k', e, n, rfl, hk'⟩
    have hx0 : x = u := by
      cases k' with
      | zero => simpa using hk'.symm
      | succ k' => simp at hk'
    subst hx0
    rcases ho _ hoo with hc | ⟨_, _, _, hc⟩ | ⟨_, _, _, hc⟩
    · cases hc
    · cases hc
    · cases hc; exact hm
  unfold recvRelay
  rw [hprio]
  rcases OF.Chain.call0_chain u nd.con s nd.recvState s.queue bsW hcon.rest rfl hcon.chan hst with
    ⟨hb0, c1, s1, e1, hrest, hprev, hq1, _⟩ | ⟨k, ts, bs', c1, s1, q', hb0, hbk, hlt, e1, hrest, hprev, hq1, hch, _⟩
  · rw [e1]
    have hret : retOf [Recv.Out.req 0 nd.con.prevId 0 (!s1.conn), Recv.Out.retNone] = none := rfl
    simp only [afterRecv, recvObs, hret, logUpd]
    subst hb0
    refine goodL_recv_gen proc b L owner X j { nd with con := c1 } _ X.log _ pubF bss bss h
      (by simp only [deliverReqs, List.length_mapIdx, List.length_set]; exact h.len)
      (fun x => recv_lookupR (rejoinLongTopo b L) X.st.nodes j nd.gen _ _ (rl_noself b L j hL) hjlen x)
      ?_ (fun _ _ => rfl) ?_ ?_ ?_ (by intro hc; omega) (fun _ => rfl)
    · rw [hups]
      refine hmid _ nd.con.prevId hle ?_
      intro o ho
      simp only [List.mem_cons, List.mem_nil_iff, or_false] at ho
      rcases ho with rfl | rfl
      · exact Or.inr (Or.inr ⟨_, _, _, rfl⟩)
      · exact Or.inl rfl
    · refine ⟨fun hc => absurd hc (by omega), ?_, ?_⟩
      · intro _ hc; simp only [hpn] at hc; cases hc
      · intro h0 k hk
        simp only at hk ⊢
        rw [hprev]; exact hG.recvSt h0 k hk
    · intro _
      exact pubInv_frame proc X _ j nd _ (pubF j) (h.pubs j nd h2 hn) rfl rfl rfl rfl rfl rfl rfl (h.pubs j nd h2 hn).nq
        (h.pubs j nd h2 hn).reqs
    · intro _ _
      rw [hu]
      refine ⟨[], s1, hrest, ?_, (by intro b hb; cases hb), hcon.queued, hcon.handed, hcon.cnt,
        (by show c1.prevId = _; rw [hprev]; exact hcon.prev)⟩
      simp only; rw [hq1]; exact ChanQ.nil _
  · rw [e1]
    have hret : retOf [Recv.Out.req 0 k 0 false, Recv.Out.ret k 0 (visData k ts)] = some (k, 0, visData k ts) := rfl
    subst hb0
    simp only [afterRecv, recvObs, hret, logUpd]
    have hlogeq : (fun x => if x = j then X.log x ++ [(k, ((visData k ts).map (hframe X.st.tbl)).map fun f => (f.topic, f.content))] else X.log x) =
        fun x => if x = j then X.log j ++ [visB (cblk X.st.tbl (k, ts))] else X.log x := by
      funext x
      by_cases hx : x = j
      · subst hx; simp only [↓reduceIte]; rw [handed_contents]; rfl
      · simp only [hx, ↓reduceIte]
    rw [hlogeq]
    have hkpub : cblk X.st.tbl (k, ts) ∈ pubF u := by
      have : cblk X.st.tbl (k, ts) ∈ (pubF u).drop nd.count := by
        rw [hcon.queued]; exact List.mem_map_of_mem (f := cblk X.st.tbl) (List.mem_cons_self ..)
      exact List.mem_of_mem_drop this
    have hk0 : 0 ≤ k := by have := hcon.rest.idle.prev; omega
    refine goodL_recv_gen proc b L owner X j
      (processed proc j { nd with con := c1, sendState := some (k, 0), recvState := none } ((visData k ts).map (hframe X.st.tbl)))
      _ (fun x => if x = j then X.log j ++ [visB (cblk X.st.tbl (k, ts))] else X.log x) _ pubF bss bss h
      (by simp only [deliverReqs, List.length_mapIdx, List.length_set]; exact h.len)
      (fun x => recv_lookupR (rejoinLongTopo b L) X.st.nodes j nd.gen _ _ (rl_noself b L j hL) hjlen x)
      ?_ (fun x hx => by simp only [hx, ↓reduceIte]) ?_ ?_ ?_ (by intro hc; omega) (fun _ => rfl)
    · rw [hups]
      refine hmid _ k (lastId_ge (pubF u) hpubU.inc _ hkpub) ?_
      intro o ho
      simp only [List.mem_cons, List.mem_nil_iff, or_false] at ho
      rcases ho with rfl | rfl
      · exact Or.inr (Or.inr ⟨_, _, _, rfl⟩)
      · exact Or.inr (Or.inl ⟨_, _, _, rfl⟩)
    · refine ⟨fun hc => absurd hc (by omega), ?_, ?_⟩
      · intro _ _
        exact ⟨by simp only [processed, hprev], by simp only [processed, hprev]; exact hk0⟩
      · intro _ k' hk'
        simp only [processed] at hk'; cases hk'
    · intro _
      exact pubInv_after_set proc hp X _ j nd c1 k ts (pubF j) (by omega) hpn (h.pubs j nd h2 hn) hbk (by simp only [↓reduceIte])
        hllen hlinc (by have := hcon.prev; simp only [atC] at this; omega)
    · intro _ _
      rw [hu]
      exact ⟨bs', s1, conInv_after_set proc (atC X j) _ u j nd c1 s1 k ts bs' q' (pubF u) s _ hcon hrest hprev hq1 hch rfl
        (by simp only [atC, ↓reduceIte])⟩

/-! ## `nodeRecv` of the join -/

theorem joinLogL_succ (b L : Nat) (pubF : Nat → List HSet) (c : Nat) :
    joinLogL b L pubF (c + 1) = joinLogL b L pubF c ++
      [((c : Int), (List.range b).flatMap fun jj => (visB (((pubF (lastL L jj))[c]?).getD (0, []))).2)] := by
  simp only [joinLogL, List.range_succ, List.map_append, List.map_cons, List.map_nil]

theorem goodL_recvJoin (proc : Proc) (b L : Nat) (hL : 1 ≤ L) (owner : Topic → Nat) (X : LSt) (nd : Node)
    (pubF : Nat → List HSet) (bss : Nat → List Blk) (h : GoodLW proc b L owner X pubF bss)
    (hn : X.st.nodes[b * L + 1]? = some nd) (hpn : nd.pending = none) :
    ∃ bss', GoodLW proc b L owner (LSt.mk (recvRelay (rejoinLongTopo b L) proc X.st (b * L + 1) nd).1
      (logUpd X.log (.nodeRecv (b * L + 1)) (recvRelay (rejoinLongTopo b L) proc X.st (b * L + 1) nd).2)) pubF bss' := by
  have hJ := h.join nd hn
  have hG := h.node (b * L + 1) nd hn
  have hst : ∀ k, nd.recvState = some k → k ≤ nd.con.prevId + 1 := hG.recvSt (by omega)
  have hjlen : b * L + 1 < X.st.nodes.length := (List.getElem?_eq_some_iff.mp hn).1
  have hslen : nd.con.srcs.length = b := by rw [hJ.kinv.len]; exact lastsL_length b L
  have hlast : ∀ jj, jj < b → lastId (pubF (lastL L jj)) + 1 = ((pubF (lastL L jj)).length : Int) :=
    fun jj hjj => lastId_idx _ (h.idx _ (lastL_pos L jj hL) (lastL_le b L jj hjj))
  have hmid : ∀ (outs : List Recv.Out) (m : Int), (∀ jj, jj < b → m ≤ lastId (pubF (lastL L jj))) →
      (∀ o ∈ outs, o = .retNone ∨ (∃ k' bal data, o = .ret k' bal data) ∨ ∃ i e n, o = .req i m e n) →
      ∀ x, x ≤ b * L → ∀ r ∈ outs.filterMap (reqOf (b * L + 1) nd.gen ((rejoinLongTopo b L).upsOf (b * L + 1)) x), r.mid ≤ lastId (pubF x) := by
    intro outs m hm ho x _ r hr
    rw [List.mem_filterMap] at hr
    rcases hr with ⟨o, hoo, hro⟩
    rcases reqOf_some _ _ _ _ _ _ hro with ⟨k', e, n, rfl, hk'⟩
    rw [rl_upsJ] at hk'
    have ⟨hk1, hk2⟩ := lastsL_some b L k' x hk'
    subst hk2
    rcases ho _ hoo with hc | ⟨_, _, _, hc⟩ | ⟨_, _, _, hc⟩
    · cases hc
    · cases hc
    · cases hc; exact hm k' hk1
  unfold recvRelay
  have hcase := OF.Chain.call0_join (lastsL b L) owner nd.con nd.recvState (List.range nd.con.srcs.length) bss
    hJ.kinv hJ.idle hst
  generalize hr : Recv.call0 nd.con nd.recvState (List.range nd.con.srcs.length) = r at hcase
  rcases hcase with ⟨hret, hk, hin, hprev, houts⟩ | ⟨reqs, houts, hreqs, hne, hk, hin, hprev⟩
  · refine ⟨bss, ?_⟩
    simp only [afterRecv, recvObs, hret, logUpd]
    refine goodL_recv_gen proc b L owner X (b * L + 1) { nd with con := r.1 } _ X.log _ pubF bss bss h
      (by simp only [deliverReqs, List.length_mapIdx, List.length_set]; exact h.len)
      (fun x => recv_lookupR (rejoinLongTopo b L) X.st.nodes (b * L + 1) nd.gen _ _ (rl_noself b L (b * L + 1) hL) hjlen x)
      ?_ (fun _ _ => rfl) ?_ (by intro hc; omega) (by intro _ hc; omega) ?_ (fun hc => absurd rfl hc)
    · refine hmid _ nd.con.prevId ?_ ?_
      · intro jj hjj
        have := hlast jj hjj
        have h3 := hJ.le jj hjj
        have h4 := hJ.cnt
        omega
      · intro o ho
        rcases houts o ho with rfl | hc
        · exact Or.inl rfl
        · exact Or.inr (Or.inr hc)
    · refine ⟨fun hc => absurd hc (by omega), ?_, ?_⟩
      · intro _ hc; simp only [hpn] at hc; cases hc
      · intro h0 k hk'
        simp only at hk' ⊢
        rw [hprev]; exact hG.recvSt h0 k hk'
    · intro _
      refine ⟨?_, hin, ?_, hJ.link, hJ.bodies, hJ.le, hJ.log⟩
      · show KInv _ owner r.1 (r.1.prevId + 1) bss
        rw [hprev]; exact hk
      · show r.1.prevId + 1 = (nd.count : Int)
        rw [hprev]; exact hJ.cnt
  · refine ⟨fun j => (bss j).tail, ?_⟩
    have hret : retOf r.2 = some (nd.con.prevId + 1, 0,
        (List.range nd.con.srcs.length).flatMap fun j => visDataJ j (nd.con.prevId + 1) (headTs (bss j))) := by
      rw [houts]; exact retOf_reqs _ _ _ _ reqs hreqs
    have hlt : ∀ jj, jj < b → nd.count < (pubF (lastL L jj)).length ∧
        ∃ blk bs', bss jj = blk :: bs' ∧ (pubF (lastL L jj))[nd.count]? = some (cblk X.st.tbl blk) := by
      intro jj hjj
      rcases hne jj (by omega) with ⟨blk, bs', e⟩
      have hl := hJ.link jj hjj
      rw [e, List.map_cons] at hl
      have hget : (pubF (lastL L jj))[nd.count]? = some (cblk X.st.tbl blk) := by
        have := congrArg List.head? hl
        rw [List.head?_drop] at this
        simpa using this
      exact ⟨(List.getElem?_eq_some_iff.mp hget).1, blk, bs', e, hget⟩
    have hcontents : (((List.range nd.con.srcs.length).flatMap fun j => visDataJ j (nd.con.prevId + 1) (headTs (bss j))).map
        (hframe X.st.tbl)).map (fun f => (f.topic, f.content)) =
        (List.range b).flatMap fun jj => (visB (((pubF (lastL L jj))[nd.count]?).getD (0, []))).2 := by
      rw [hslen, List.map_flatMap, List.map_flatMap]
      apply flatMap_congr_mem
      intro jj hjj
      rw [List.mem_range] at hjj
      rcases hlt jj hjj with ⟨_, blk, bs', e, hget⟩
      rw [hget, e, handed_contentsJ]
      rfl
    simp only [afterRecv, recvObs, hret, logUpd]
    refine goodL_recv_gen proc b L owner X (b * L + 1) _ _ _ _ pubF bss (fun j => (bss j).tail) h
      (by simp only [deliverReqs, List.length_mapIdx, List.length_set]; exact h.len)
      (fun x => recv_lookupR (rejoinLongTopo b L) X.st.nodes (b * L + 1) nd.gen _ _ (rl_noself b L (b * L + 1) hL) hjlen x)
      ?_ (fun x hx => by simp only [hx, ↓reduceIte]) ?_ (by intro hc; omega) (by intro _ hc; omega) ?_ (fun hc => absurd rfl hc)
    · refine hmid _ (nd.con.prevId + 1) ?_ ?_
      · intro jj hjj
        have := hlast jj hjj
        have h3 := (hlt jj hjj).1
        have h4 := hJ.cnt
        omega
      · intro o ho
        rw [houts, List.mem_append] at ho
        rcases ho with ho | ho
        · exact Or.inr (Or.inr (hreqs o ho))
        · simp only [List.mem_singleton] at ho
          exact Or.inr (Or.inl ⟨_, _, _, ho⟩)
    · refine ⟨fun hc => absurd hc (by omega), ?_, ?_⟩
      · intro _ _
        have := hJ.kinv.nonneg
        exact ⟨by simp only [processed, hprev], by simp only [processed, hprev]; exact this⟩
      · intro _ k' hk'
        simp only [processed] at hk'; cases hk'
    · intro _
      refine ⟨?_, hin, ?_, ?_, ?_, ?_, ?_⟩
      · show KInv _ owner r.1 (r.1.prevId + 1) _
        rw [hprev]; exact hk
      · show r.1.prevId + 1 = ((nd.count + 1 : Nat) : Int)
        rw [hprev]; have := hJ.cnt; omega
      · intro jj hjj
        show (pubF (lastL L jj)).drop (nd.count + 1) = _
        rw [← List.tail_drop, hJ.link jj hjj, List.map_tail]
      · intro jj hjj blk hblk
        exact hJ.bodies jj hjj blk (List.mem_of_mem_tail hblk)
      · intro jj hjj
        show nd.count + 1 ≤ _
        have := (hlt jj hjj).1; omega
      · show (if b * L + 1 = b * L + 1 then _ else _) = joinLogL b L pubF (nd.count + 1)
        simp only [↓reduceIte]
        rw [joinLogL_succ, hJ.log, hcontents]
        congr 3
        have := hJ.cnt; omega

theorem goodL_stepRecv (proc : Proc) (hp : ProcNames proc) (b L : Nat) (hb : 1 ≤ b) (hL : 1 ≤ L) (owner : Topic → Nat) (X : LSt) (j : Nat)
    (h : GoodL proc b L owner X) : GoodL proc b L owner (lstep (rejoinLongTopo b L) proc X (.nodeRecv j)) := by
  rcases h with ⟨pubF, bss, hw⟩
  unfold lstep
  simp only [step, stepRecv]
  cases hn : X.st.nodes[j]? with
  | none => exact goodL_eta proc b L owner X ⟨pubF, bss, hw⟩
  | some nd =>
    simp only
    have hjL : j < b * L + 2 := by rw [← hw.len]; exact (List.getElem?_eq_some_iff.mp hn).1
    by_cases hpend : nd.pending.isSome = true
    · simp only [hpend, ↓reduceIte]
      exact goodL_eta proc b L owner X ⟨pubF, bss, hw⟩
    · have hpn : nd.pending = none := by
        cases hc : nd.pending with
        | none => rfl
        | some x => rw [hc] at hpend; simp at hpend
      simp only [hpend, Bool.false_eq_true, ↓reduceIte]
      by_cases hj0 : j = 0
      · subst hj0
        have hsrc : nd.con.srcs.isEmpty = true := by rw [((hw.node 0 nd hn).src rfl).1]; rfl
        simp only [hsrc, ↓reduceIte, recvSource, logUpd]
        exact ⟨pubF, bss, goodL_recvSource proc hp b L owner X nd pubF bss hw hn hpn⟩
      · by_cases hjb : j ≤ b * L
        · rcases hw.cons j nd (by omega) hjb hn with ⟨bsW, s, hcon⟩
          have hne : nd.con.srcs.isEmpty = false := by rw [hcon.rest.idle.srcs]; rfl
          simp only [hne, Bool.false_eq_true, ↓reduceIte]
          exact ⟨pubF, bss, goodL_recvRelay proc hp b L hL owner X j nd pubF bss hw (by omega) hjb hn hpn⟩
        · have hjJ : j = b * L + 1 := by omega
          subst hjJ
          have hlen : nd.con.srcs.length = b := by rw [(hw.join nd hn).kinv.len]; exact lastsL_length b L
          have hne : nd.con.srcs.isEmpty = false := by
            cases hs : nd.con.srcs with
            | nil => rw [hs] at hlen; simp at hlen; omega
            | cons a l => rfl
          simp only [hne, Bool.false_eq_true, ↓reduceIte]
          rcases goodL_recvJoin proc b L hL owner X nd pubF bss hw hn hpn with ⟨bss', hw'⟩
          exact ⟨pubF, bss', hw'⟩

/-! ## `nodeSend`: what reaches whom -/

theorem pushWires_joinL (c : Recv.St) (b L jj : Nat) (hL : 1 ≤ L) (ws : List Wire) (s : Src) (hjj : jj < b) (hs : c.srcs[jj]? = some s) :
    pushWires c (lastsL b L) (lastL L jj) ws = { c with srcs := c.srcs.set jj { s with queue := s.queue ++ ws } } := by
  have hlen : jj < c.srcs.length := (List.getElem?_eq_some_iff.mp hs).1
  have : (c.srcs.mapIdx fun k s0 => if (lastsL b L)[k]? = some (lastL L jj) then { s0 with queue := s0.queue ++ ws } else s0) =
      c.srcs.set jj { s with queue := s.queue ++ ws } := by
    apply List.ext_getElem?
    intro k
    rw [List.getElem?_mapIdx, List.getElem?_set]
    by_cases hk : jj = k
    · subst hk
      simp only [hs, Option.map_some, lastsL_get b L jj hjj, ↓reduceIte, hlen]
    · have hu : ¬ (lastsL b L)[k]? = some (lastL L jj) := by
        intro hc
        have := lastsL_some b L k _ hc
        exact hk (lastL_inj L jj k hL this.2)
      simp only [hk, ↓reduceIte]
      cases c.srcs[k]? with
      | none => rfl
      | some s0 => simp only [Option.map_some, hu, ↓reduceIte]
  cases c
  simp only [pushWires] at this ⊢
  rw [this]

theorem joinLogL_congr (b L : Nat) (pubF pubF' : Nat → List HSet) (c : Nat) (h : ∀ jj, jj < b → pubF' (lastL L jj) = pubF (lastL L jj)) :
    joinLogL b L pubF' c = joinLogL b L pubF c := by
  unfold joinLogL
  apply List.map_congr_left
  intro n _
  congr 1
  apply flatMap_congr_mem
  intro jj hjj
  rw [List.mem_range] at hjj
  rw [h jj hjj]

theorem jinvL_congr_pub (b L : Nat) (owner : Topic → Nat) (X : LSt) (J : Node) (pubF pubF' : Nat → List HSet) (bss : Nat → List Blk)
    (h : JInvL b L owner X J pubF bss) (he : ∀ jj, jj < b → pubF' (lastL L jj) = pubF (lastL L jj)) : JInvL b L owner X J pubF' bss :=
  ⟨h.kinv, h.idle, h.cnt, fun jj hjj => by rw [he jj hjj]; exact h.link jj hjj, h.bodies,
    fun jj hjj => by rw [he jj hjj]; exact h.le jj hjj, by rw [joinLogL_congr b L pubF pubF' J.count he]; exact h.log⟩

theorem send_lookupL (b L : Nat) (hL : 1 ≤ L) (nodes : List Node) (j : Nat) (nd' : Node) (ws : List Wire) (hj : j < nodes.length) (x : Nat) :
    (deliverWires (rejoinLongTopo b L) (nodes.set j nd') j ws)[x]? =
      if x = j then some nd' else (nodes[x]?).map fun C => { C with con := pushWires C.con ((rejoinLongTopo b L).upsOf x) j ws } := by
  rw [deliverWires_get, List.getElem?_set]
  by_cases hx : x = j
  · subst hx
    simp only [↓reduceIte, hj, Option.map_some, pushWires_noop nd'.con _ x ws (rl_noself b L x hL)]
  · have : ¬ j = x := fun e => hx e.symm
    simp only [this, hx, ↓reduceIte]

/-- generic re-assembly after publisher `j ≤ b * L` ran `send`: its consumers are the relay `j + 1` (when `j` is not the last relay of its branch;
for the source: the first relays of all branches) and the join (when `j` is the last relay of a branch) -/
theorem goodL_send_gen (proc : Proc) (b L : Nat) (hL : 1 ≤ L) (owner : Topic → Nat) (X : LSt) (j : Nat) (nd nd' : Node) (es : List Entry)
    (ws : List Wire) (nodes' : List Node) (pubF pubF' : Nat → List HSet) (bss bss' : Nat → List Blk)
    (h : GoodLW proc b L owner X pubF bss) (hn : X.st.nodes[j]? = some nd) (hjb : j ≤ b * L) (hlen : nodes'.length = b * L + 2)
    (hlook : ∀ (x : Nat), nodes'[x]? = if x = j then some nd'
        else (X.st.nodes[x]?).map fun C => { C with con := pushWires C.con ((rejoinLongTopo b L).upsOf x) j ws })
    (hG : NodeG j nd') (hcon_nd : nd'.con = nd.con) (hcount_nd : nd'.count = nd.count)
    (hpubF : ∀ u, u ≠ j → pubF' u = pubF u)
    (hpubJ : PubInv proc { st := { nodes := nodes', tbl := X.st.tbl ++ es }, log := X.log } j nd' (pubF' j))
    (hcons : ∀ (x : Nat) (C : Node), 1 ≤ x → x ≤ b * L → parL L x = j → X.st.nodes[x]? = some C →
      ∃ bsW s, ConInv (atC { st := { nodes := nodes', tbl := X.st.tbl ++ es }, log := X.log } x) j
        { C with con := pushWires C.con [j] j ws } (pubF' j) bsW s)
    (hidx : 1 ≤ j → IdsIdx (pubF' j))
    (hjoin : ∀ jj, jj < b → j = lastL L jj → ∀ (J : Node), X.st.nodes[b * L + 1]? = some J →
      JInvL b L owner { st := { nodes := nodes', tbl := X.st.tbl ++ es }, log := X.log }
        { J with con := pushWires J.con (lastsL b L) j ws } pubF' bss')
    (hbss : (∀ jj, jj < b → j ≠ lastL L jj) → bss' = bss) :
    GoodLW proc b L owner { st := { nodes := nodes', tbl := X.st.tbl ++ es }, log := X.log } pubF' bss' := by
  have hother : ∀ (x : Nat) (n' : Node), x ≠ j → nodes'[x]? = some n' →
      ∃ C, X.st.nodes[x]? = some C ∧ n' = { C with con := pushWires C.con ((rejoinLongTopo b L).upsOf x) j ws } := by
    intro x n' hx hn'
    rw [hlook] at hn'
    simp only [hx, ↓reduceIte] at hn'
    cases hP : X.st.nodes[x]? with
    | none => rw [hP] at hn'; cases hn'
    | some P =>
      rw [hP] at hn'
      simp only [Option.map_some, Option.some.injEq] at hn'
      exact ⟨P, rfl, hn'.symm⟩
  have hself : ∀ (n' : Node), nodes'[j]? = some n' → n' = nd' := by
    intro n' hn'
    rw [hlook] at hn'
    simp only [↓reduceIte, Option.some.injEq] at hn'
    exact hn'.symm
  refine ⟨hlen, by simp only [List.length_append]; have := h.tbl; omega, ?_, ?_, ?_, ?_, ?_⟩
  · intro x n' hx
    by_cases hxj : x = j
    · subst hxj; rw [hself n' hx]; exact hG
    · rcases hother x n' hxj hx with ⟨C, hC, rfl⟩
      by_cases hx0 : x = 0
      · subst hx0
        rw [rl_ups0, pushWires_noop C.con [] j ws (by intro k; simp)]
        exact h.node 0 C hC
      · exact nodeG_push x C _ _ _ (h.node x C hC) (by omega)
  · intro u P' hub hu
    by_cases hxj : u = j
    · subst hxj; rw [hself P' hu]; exact hpubJ
    · rcases hother u P' hxj hu with ⟨C, hC, rfl⟩
      rw [hpubF u hxj]
      have hp := h.pubs u C hub hC
      exact pubInv_frame proc X _ u C _ (pubF u) hp rfl rfl rfl rfl rfl rfl rfl hp.nq hp.reqs
  · intro x C' h1 h2 hC'
    have hplt := parL_lt L x h1
    by_cases hxj : x = j
    · subst hxj
      rw [hself C' hC', hpubF (parL L x) (by omega)]
      rcases h.cons x nd h1 h2 hn with ⟨bsW, s, hc⟩
      exact ⟨bsW, s, conInv_frame _ _ (parL L x) nd nd' (pubF (parL L x)) bsW s es hc rfl rfl hcon_nd hcount_nd⟩
    · rcases hother x C' hxj hC' with ⟨C, hC, rfl⟩
      rw [rl_upsRelay b L x h1 h2]
      by_cases hpj : parL L x = j
      · rw [hpj]
        exact hcons x C h1 h2 hpj hC
      · rw [hpubF (parL L x) hpj, pushWires_noop C.con [parL L x] j ws (by
          intro k
          cases k with
          | zero => simp; exact hpj
          | succ k => simp)]
        rcases h.cons x C h1 h2 hC with ⟨bsW, s, hc⟩
        exact ⟨bsW, s, conInv_frame _ _ (parL L x) C C (pubF (parL L x)) bsW s es hc rfl rfl rfl rfl⟩
  · intro u hu1 hu2
    by_cases hxj : u = j
    · subst hxj; exact hidx hu1
    · rw [hpubF u hxj]; exact h.idx u hu1 hu2
  · intro J' hJ'
    rcases hother (b * L + 1) J' (by omega) hJ' with ⟨J, hJ, rfl⟩
    rw [rl_upsJ]
    by_cases hlast : ∃ jj, jj < b ∧ j = lastL L jj
    · rcases hlast with ⟨jj, hjj, e⟩
      exact hjoin jj hjj e J hJ
    · have hnl : ∀ jj, jj < b → j ≠ lastL L jj := fun jj hjj e => hlast ⟨jj, hjj, e⟩
      rw [hbss hnl, pushWires_noop J.con _ j ws (by
        intro k hc
        have := lastsL_some b L k j hc
        exact hnl k this.1 this.2)]
      refine jinvL_congr_pub b L owner _ J pubF pubF' bss ?_ (fun jj hjj => hpubF (lastL L jj) (fun e => hnl jj hjj e.symm))
      exact jinvL_frame b L owner X _ J J pubF bss es (h.join J hJ) rfl rfl rfl rfl

/-! ## the join when the last relay of a branch publishes -/

theorem jinvL_src (b L : Nat) (owner : Topic → Nat) (X : LSt) (J : Node) (pubF : Nat → List HSet) (bss : Nat → List Blk)
    (h : JInvL b L owner X J pubF bss) (jj : Nat) (hjj : jj < b) :
    ∃ s, J.con.srcs[jj]? = some s ∧ OF.Pair.SrcShape s := by
  have hlen : J.con.srcs.length = b := by rw [h.kinv.len]; exact lastsL_length b L
  have hs : J.con.srcs[jj]? = some J.con.srcs[jj] := List.getElem?_eq_getElem (by omega)
  exact ⟨_, hs, h.kinv.static.shape _ _ hs⟩

/-- the join after the last relay of branch `jj` put at most a HELLO on the wire -/
theorem jinvL_hellos (b L : Nat) (hL : 1 ≤ L) (owner : Topic → Nat) (X : LSt) (J : Node) (pubF : Nat → List HSet) (bss : Nat → List Blk)
    (jj : Nat) (ws : List Wire) (es : List Entry) (nodes' : List Node) (h : JInvL b L owner X J pubF bss) (hjj : jj < b)
    (hw : Hellos (lastL L jj) ws) :
    JInvL b L owner { st := { nodes := nodes', tbl := X.st.tbl ++ es }, log := X.log }
      { J with con := pushWires J.con (lastsL b L) (lastL L jj) ws } pubF bss := by
  rcases jinvL_src b L owner X J pubF bss h jj hjj with ⟨s, hs, hsh⟩
  have hu := lastsL_get b L jj hjj
  rw [pushWires_joinL J.con b L jj hL ws s hjj hs]
  have hk : KInv (lastsL b L) owner { J.con with srcs := J.con.srcs.set jj { s with queue := s.queue ++ ws } }
      (J.con.prevId + 1) bss := by
    refine OF.Chain.kinv_set _ owner J.con _ _ bss jj s _ h.kinv hs rfl rfl rfl rfl ⟨hsh.eph, hsh.subAll, hsh.star, hsh.subs⟩ ?_
    intro p hp hm
    rw [hu] at hp
    simp only [Option.some.injEq] at hp
    subst hp
    exact OF.Chain.mode_push_hello (lastL L jj) jj _ s _ ws hw hm
  have hJ2 : JInvL b L owner X { J with con := { J.con with srcs := J.con.srcs.set jj { s with queue := s.queue ++ ws } } } pubF bss :=
    ⟨hk, h.idle, h.cnt, h.link, h.bodies, h.le, h.log⟩
  exact jinvL_frame b L owner X _ _ _ pubF bss es hJ2 rfl rfl rfl rfl

theorem joinLogL_congr_lt (b L : Nat) (pubF pubF' : Nat → List HSet) (c : Nat)
    (h : ∀ jj, jj < b → ∀ n, n < c → (pubF' (lastL L jj))[n]? = (pubF (lastL L jj))[n]?) : joinLogL b L pubF' c = joinLogL b L pubF c := by
  unfold joinLogL
  apply List.map_congr_left
  intro n hn
  rw [List.mem_range] at hn
  congr 1
  apply flatMap_congr_mem
  intro jj hjj
  rw [List.mem_range] at hjj
  rw [h jj hjj n hn]

/-- the join after the last relay `j` of branch `jj` put the block `(k, d)` on the wire, `k` = the number of blocks it had published -/
theorem jinvL_block (b L : Nat) (hL : 1 ≤ L) (owner : Topic → Nat) (X : LSt) (J : Node) (pubF : Nat → List HSet) (bss : Nat → List Blk)
    (jj : Nat) (k : Int) (d : List (Topic × Nat)) (o : List Org) (nodes' : List Node) (h : JInvL b L owner X J pubF bss)
    (hjj : jj < b) (hk : k = ((pubF (lastL L jj)).length : Int)) (hnames : NamesOK d) (hown : ∀ x ∈ d, owner x.1 = jj) :
    JInvL b L owner { st := { nodes := nodes', tbl := X.st.tbl ++ d.map fun q => ({ content := q.2, orig := o } : Entry) }, log := X.log }
      { J with con := pushWires J.con (lastsL b L) (lastL L jj) (blockWires (lastL L jj) k (relabel X.st.tbl.length d)) }
      (fun u => if u = lastL L jj then pubF (lastL L jj) ++ [(k, d)] else pubF u)
      (fun i => if i = jj then bss jj ++ [(k, relabel X.st.tbl.length d)] else bss i) := by
  rcases jinvL_src b L owner X J pubF bss h jj hjj with ⟨s, hs, hsh⟩
  have hu := lastsL_get b L jj hjj
  rw [pushWires_joinL J.con b L jj hL _ s hjj hs]
  have hle := h.le jj hjj
  have hlink := h.link jj hjj
  have hbl : ((bss jj).length : Int) = ((pubF (lastL L jj)).length : Int) - (J.count : Int) := by
    have := congrArg List.length hlink
    rw [List.length_drop, List.length_map] at this
    omega
  have hkF : k = J.con.prevId + 1 + ((bss jj).length : Int) := by rw [hbl, h.cnt, hk]; omega
  have hinj : ∀ i, lastL L i = lastL L jj ↔ i = jj := fun i => ⟨fun e => lastL_inj L i jj hL e, fun e => by rw [e]⟩
  refine ⟨?_, h.idle, h.cnt, ?_, ?_, ?_, ?_⟩
  · refine kinv_push _ owner J.con _ _ bss jj s _ _ h.kinv hs rfl rfl rfl rfl ⟨hsh.eph, hsh.subAll, hsh.star, hsh.subs⟩
      (fun hc => OF.Chain.consec_snoc _ _ k _ hc hkF) ?_ ?_
    · intro p hp hc hm
      rw [hu] at hp
      simp only [Option.some.injEq] at hp
      subst hp
      exact OF.Chain.mode_push_block (lastL L jj) jj _ s _ k _ (blkOK_relabel d _ hnames) hc hkF hm
    · intro blk hblk x hx
      rw [List.mem_append] at hblk
      rcases hblk with hblk | hblk
      · exact h.kinv.own jj blk hblk x hx
      · simp only [List.mem_singleton] at hblk
        subst hblk
        have := (relabel_spec d X.st.tbl.length x hx).2.2
        rw [List.mem_map] at this
        rcases this with ⟨y, hy, e⟩
        have := hown y hy
        rw [← e]; exact this
  · intro i hi
    simp only
    by_cases hi' : i = jj
    · subst hi'
      simp only [↓reduceIte]
      rw [List.drop_append_of_le_length hle, hlink, List.map_append]
      congr 1
      · apply List.map_congr_left
        intro blk hblk
        rw [cblk_append _ _ blk (h.bodies i hi blk hblk)]
      · simp only [List.map_cons, List.map_nil, cblk]
        have := relabel_content o d X.st.tbl []
        simp only [List.append_nil] at this
        rw [this]
    · have : ¬ lastL L i = lastL L jj := fun e => hi' ((hinj i).mp e)
      simp only [this, hi', ↓reduceIte]
      rw [h.link i hi]
      apply List.map_congr_left
      intro blk hblk
      rw [cblk_append _ _ blk (h.bodies i hi blk hblk)]
  · intro i hi blk hblk x hx
    simp only [List.length_append, List.length_map]
    by_cases hi' : i = jj
    · subst hi'
      simp only [↓reduceIte] at hblk
      rw [List.mem_append] at hblk
      rcases hblk with hblk | hblk
      · have := h.bodies i hi blk hblk x hx; omega
      · simp only [List.mem_singleton] at hblk
        subst hblk
        have := (relabel_spec d X.st.tbl.length x hx).2.1
        omega
    · simp only [hi', ↓reduceIte] at hblk
      have := h.bodies i hi blk hblk x hx; omega
  · intro i hi
    simp only
    by_cases hi' : i = jj
    · subst hi'
      simp only [↓reduceIte, List.length_append, List.length_cons, List.length_nil]
      omega
    · have : ¬ lastL L i = lastL L jj := fun e => hi' ((hinj i).mp e)
      simp only [this, ↓reduceIte]
      exact h.le i hi
  · show X.log (b * L + 1) = _
    rw [h.log]
    symm
    apply joinLogL_congr_lt
    intro i hi n hn
    have hn' : n < J.count := hn
    by_cases hi' : i = jj
    · subst hi'
      simp only [↓reduceIte]
      rw [List.getElem?_append_left (by omega)]
    · have : ¬ lastL L i = lastL L jj := fun e => hi' ((hinj i).mp e)
      simp only [this, ↓reduceIte]

/-! ## `nodeSend` -/

/-- the source's `n`-th block has id `n` -/
theorem goodL_idx0 (proc : Proc) (b L : Nat) (owner : Topic → Nat) (X : LSt) (pubF : Nat → List HSet) (bss : Nat → List Blk)
    (h : GoodLW proc b L owner X pubF bss) : IdsIdx (pubF 0) := by
  have h0L : 0 < X.st.nodes.length := by rw [h.len]; omega
  have hP : X.st.nodes[0]? = some X.st.nodes[0] := List.getElem?_eq_getElem h0L
  generalize X.st.nodes[0] = P at hP
  have hp0 := (h.pubs 0 P (by omega) hP).prod
  simp only [prodOf, ↓reduceIte] at hp0
  exact idsIdx_left _ _ (by rw [← hp0]; exact srcBlocks_idx proc P.count)

theorem goodL_idxAll (proc : Proc) (b L : Nat) (owner : Topic → Nat) (X : LSt) (pubF : Nat → List HSet) (bss : Nat → List Blk)
    (h : GoodLW proc b L owner X pubF bss) (u : Nat) (hu : u ≤ b * L) : IdsIdx (pubF u) := by
  by_cases h0 : u = 0
  · subst h0; exact goodL_idx0 proc b L owner X pubF bss h
  · exact h.idx u (by omega) hu

/-- a relay that never skips publishes (and holds) its `n`-th block under the id `n` -/
theorem relay_ids (proc : Proc) (b L : Nat) (hns : NoSkipLong proc b L) (owner : Topic → Nat) (X : LSt) (pubF : Nat → List HSet)
    (bss : Nat → List Blk) (h : GoodLW proc b L owner X pubF bss) (j : Nat) (nd : Node) (h1 : 1 ≤ j) (h2 : j ≤ b * L)
    (hn : X.st.nodes[j]? = some nd) : IdsIdx (pubF j ++ pendOf nd) := by
  have hplt := parL_lt L j h1
  have hidx0 : IdsIdx (pubF (parL L j)) := goodL_idxAll proc b L owner X pubF bss h (parL L j) (by omega)
  rcases h.cons j nd h1 h2 hn with ⟨bsW, s, hcon⟩
  have hlog : X.log j = ((pubF (parL L j)).take nd.count).map visB := hcon.handed
  have hpj := (h.pubs j nd h2 hn).prod
  have hj0 : ¬ j = 0 := by omega
  simp only [prodOf, hj0, ↓reduceIte] at hpj
  rw [← hpj]
  intro m y hy
  have := throughFrom_idx proc j (fun n hh => hns j n hh h1 h2) (X.log j) 0 0
    (fun m' x' hx' => by
      have := idsIdx_map_visB _ (idsIdx_take _ nd.count hidx0) m' x' (by rw [← hlog]; exact hx')
      omega) m y hy
  omega

theorem goodL_sendReal (proc : Proc) (b L : Nat) (hL : 1 ≤ L) (hns : NoSkipLong proc b L) (owner : Topic → Nat)
    (hown : OwnedLast proc b L owner) (X : LSt)
    (j : Nat) (t : Int) (nd : Node) (p : Pending) (pubF : Nat → List HSet) (bss : Nat → List Blk)
    (h : GoodLW proc b L owner X pubF bss) (hn : X.st.nodes[j]? = some nd) (hpend : nd.pending = some p) (hjb : j ≤ b * L) :
    ∃ pubF' bss', GoodLW proc b L owner (LSt.mk (sendReal (rejoinLongTopo b L) X.st j nd p t).1 X.log) pubF' bss' := by
  have hjL : j < X.st.nodes.length := (List.getElem?_eq_some_iff.mp hn).1
  have hpub := h.pubs j nd hjb hn
  have hG := h.node j nd hn
  have hpis : nd.pending.isSome = true := by rw [hpend]; rfl
  have ⟨hout, hsid0⟩ := send_outcome_gen proc X j t nd p (pubF j) hpub hG hpend
  have hpay : payloadOf X.st.tbl.length p.res = .deferred ((dictOf p.res).map (relabel X.st.tbl.length)) := rfl
  unfold sendReal
  simp only [hpay]
  generalize hr : Send.send0 nd.pub nd.sendState (.deferred ((dictOf p.res).map (relabel X.st.tbl.length))) false [0] t = r at hout
  rcases hout with ⟨o1, o2, o3, o4, hcase⟩
  have hlen' : ∀ (nd' : Node) (ws : List Wire), (deliverWires (rejoinLongTopo b L) (X.st.nodes.set j nd') j ws).length = b * L + 2 := by
    intro nd' ws; simp only [deliverWires, List.length_mapIdx, List.length_set]; exact h.len
  have hlook := fun nd' ws => send_lookupL b L hL X.st.nodes j nd' ws hjL
  -- what the consumers see when at most a HELLO went out
  have hconsH : ∀ (ws : List Wire) (es : List Entry) (nodes' : List Node), Hellos j ws →
      ∀ (x : Nat) (C : Node), 1 ≤ x → x ≤ b * L → parL L x = j → X.st.nodes[x]? = some C →
      ∃ bsW s, ConInv (atC { st := { nodes := nodes', tbl := X.st.tbl ++ es }, log := X.log } x) j
        { C with con := pushWires C.con [j] j ws } (pubF j) bsW s := by
    intro ws es nodes' hw x C hx1 hx2 hpx hC
    rcases h.cons x C hx1 hx2 hC with ⟨bsW, s, hc⟩
    rw [hpx] at hc
    exact ⟨bsW, _, conInv_hellos (atC X x) j C (pubF j) bsW s _ _ _ hc hw⟩
  have hjoinH : ∀ (ws : List Wire) (es : List Entry) (nodes' : List Node), Hellos j ws →
      ∀ jj, jj < b → j = lastL L jj → ∀ (J : Node), X.st.nodes[b * L + 1]? = some J →
      JInvL b L owner { st := { nodes := nodes', tbl := X.st.tbl ++ es }, log := X.log }
        { J with con := pushWires J.con (lastsL b L) j ws } pubF bss := by
    intro ws es nodes' hw jj hjj e J hJ
    subst e
    exact jinvL_hellos b L hL owner X J pubF bss jj _ _ _ (h.join J hJ) hjj hw
  rcases hcase with ⟨m1, m2, m3, m4⟩ | ⟨hrn, m1, m2, m3, m4⟩ | ⟨ts, hrs, m1, m2, m3, m4⟩
  · -- time-out
    have haft : afterSend nd p r = { nd with pub := r.1 } := by unfold afterSend; rw [m2]
    rw [haft]
    refine ⟨pubF, bss, goodL_send_gen proc b L hL owner X j nd _ _ _ _ pubF pubF bss bss h hn hjb (hlen' _ _) (hlook _ _)
      (nodeG_frame j nd _ hG rfl rfl rfl rfl) rfl rfl (fun _ _ => rfl) ?_ (hconsH _ _ _ m4) (fun h1 => h.idx j h1 hjb)
      (hjoinH _ _ _ m4) (fun _ => rfl)⟩
    exact pubInv_frame proc X _ j nd { nd with pub := r.1 } (pubF j) hpub rfl rfl rfl rfl (o1.trans hpub.idle.symm)
      (o2.trans hpub.bal.symm) m1 o3 (fun q hq x hx => (o4 q hq x hx).2)
  · -- the callable returned None
    have hd : dictOf p.res = none := by
      cases hdd : dictOf p.res with
      | none => rfl
      | some d => rw [hdd] at hrn; cases hrn
    have haft : afterSend nd p r = { nd with pub := r.1, pending := none, sendState := none, recvState := none } := by
      unfold afterSend; rw [m2]; simp only [m3, hd, Option.isNone_none, Bool.and_self, ↓reduceIte]
    rw [haft]
    refine ⟨pubF, bss, goodL_send_gen proc b L hL owner X j nd _ _ _ _ pubF pubF bss bss h hn hjb (hlen' _ _) (hlook _ _)
      ⟨fun h0 => ⟨(hG.src h0).1, rfl⟩, (by intro _ hc; cases hc), (by intro _ k hk; cases hk)⟩ rfl rfl (fun _ _ => rfl) ?_
      (hconsH _ _ _ m4) (fun h1 => h.idx j h1 hjb) (hjoinH _ _ _ m4) (fun _ => rfl)⟩
    refine ⟨?_, hpub.inc, o1, o2, o3, m1.trans hpub.minSend, fun q hq x hx => (o4 q hq x hx).2, (by intro hc; cases hc),
      (by intro q d hq; cases hq)⟩
    have := hpub.prod
    rw [pendOf_nodict nd p hpend hd] at this
    simp only [prodOf] at this ⊢
    rw [this]; rfl
  · -- the block is published
    have hd : ∃ d, dictOf p.res = some d ∧ ts = relabel X.st.tbl.length d := by
      cases hdd : dictOf p.res with
      | none => rw [hdd] at hrs; cases hrs
      | some d => rw [hdd] at hrs; simp only [Option.map_some, Option.some.injEq] at hrs; exact ⟨d, rfl, hrs.symm⟩
    rcases hd with ⟨d, hd, rfl⟩
    have haft : afterSend nd p r = { nd with pub := r.1, pending := none, sendState := none, recvState := some (sendId nd + 1) } := by
      unfold afterSend; rw [m2]; simp only [m3, hd, Option.isNone_some, Bool.and_false, Bool.false_eq_true, ↓reduceIte]
    have hent : entriesOf p.res (sendOrigin j nd p) = d.map fun q => ({ content := q.2, orig := sendOrigin j nd p } : Entry) := by
      simp only [entriesOf, hd, Option.getD_some]
    rw [haft, m4, hent]
    have hnames := hpub.names p d hpend hd
    have hGn : NodeG j { nd with pub := r.1, pending := none, sendState := none, recvState := some (sendId nd + 1) } := by
      refine ⟨fun h0 => ⟨(hG.src h0).1, rfl⟩, (by intro _ hc; cases hc), ?_⟩
      intro h0 k hk
      simp only [Option.some.injEq] at hk
      have ⟨e, _⟩ := hG.relay h0 hpis
      have : sendId nd = nd.con.prevId := by unfold sendId; rw [e]
      simp only; omega
    have hpubN : ∀ (nodes' : List Node), PubInv proc
        { st := { nodes := nodes', tbl := X.st.tbl ++ d.map fun q => ({ content := q.2, orig := sendOrigin j nd p } : Entry) }, log := X.log }
        j { nd with pub := r.1, pending := none, sendState := none, recvState := some (sendId nd + 1) } (pubF j ++ [(sendId nd, d)]) := by
      intro nodes'
      refine ⟨?_, idsInc_snoc (pubF j) _ hpub.inc (hpub.strict hpis) hsid0, o1, o2, o3, (by rw [m1, lastId_snoc]), ?_,
        (by intro hc; cases hc), (by intro q d' hq; cases hq)⟩
      · have := hpub.prod
        rw [pendOf_some nd p d hpend hd] at this
        simp only [prodOf] at this ⊢
        rw [this]; simp [pendOf]
      · intro q hq x hx
        rw [lastId_snoc]
        have := (o4 q hq x hx).1; simp only; omega
    -- the consumer relays of `j` (none when `j` is the last relay of its branch)
    have hconsB : ∀ (nodes' : List Node) (x : Nat) (C : Node), 1 ≤ x → x ≤ b * L → parL L x = j → X.st.nodes[x]? = some C →
        ∃ bsW s, ConInv (atC { st := { nodes := nodes', tbl := X.st.tbl ++ d.map fun q => ({ content := q.2, orig := sendOrigin j nd p } : Entry) }, log := X.log } x) j
          { C with con := pushWires C.con [j] j (blockWires j (sendId nd) (relabel X.st.tbl.length d)) }
          ((fun u => if u = j then pubF j ++ [(sendId nd, d)] else pubF u) j) bsW s := by
      intro nodes' x C hx1 hx2 hpx hC
      rcases h.cons x C hx1 hx2 hC with ⟨bsW, s, hc⟩
      rw [hpx] at hc
      simp only [↓reduceIte]
      exact ⟨_, _, conInv_block (atC X x) j C (pubF j) bsW s (sendId nd) d _ _ hc hpub.inc (hpub.strict hpis) hsid0 hnames⟩
    have hidxN : 1 ≤ j → IdsIdx ((fun u => if u = j then pubF j ++ [(sendId nd, d)] else pubF u) j) := by
      intro h1
      have hsid : sendId nd = ((pubF j).length : Int) :=
        pendOf_sendId nd p d (pubF j) hpend hd (relay_ids proc b L hns owner X pubF bss h j nd h1 hjb hn)
      simp only [↓reduceIte]
      exact idsIdx_snoc _ _ (h.idx j h1 hjb) hsid
    by_cases hlast : ∃ jj, jj < b ∧ j = lastL L jj
    · rcases hlast with ⟨jj, hjj, e⟩
      have h1 : 1 ≤ j := by rw [e]; exact lastL_pos L jj hL
      have hsid : sendId nd = ((pubF j).length : Int) :=
        pendOf_sendId nd p d (pubF j) hpend hd (relay_ids proc b L hns owner X pubF bss h j nd h1 hjb hn)
      have hdp : ∃ n hh, dictOf (Loop.processFrames (proc j n hh)) = some d := by
        have hpr := hpub.prod
        rw [pendOf_some nd p d hpend hd] at hpr
        have hmem : (sendId nd, d) ∈ prodOf proc X j nd := by rw [hpr]; simp
        have hj0 : ¬ j = 0 := by omega
        simp only [prodOf, hj0, ↓reduceIte] at hmem
        exact throughFrom_dict proc j _ 0 _ hmem
      rcases hdp with ⟨n, hh, hdn⟩
      refine ⟨fun u => if u = j then pubF j ++ [(sendId nd, d)] else pubF u,
        fun i => if i = jj then bss jj ++ [(sendId nd, relabel X.st.tbl.length d)] else bss i,
        goodL_send_gen proc b L hL owner X j nd _ _ _ _ pubF _ bss _ h hn hjb (hlen' _ _) (hlook _ _) hGn rfl rfl
          (fun u hu => by simp only [hu, ↓reduceIte]) (by simp only [↓reduceIte]; exact hpubN _) (hconsB _) hidxN ?_ ?_⟩
      · intro jj' hjj' e' J hJ
        have hjeq : jj' = jj := lastL_inj L jj' jj hL (by rw [← e, ← e'])
        subst hjeq
        subst e
        have hown' : ∀ x ∈ d, owner x.1 = jj' := by
          intro x hx
          exact hown jj' n hh d hjj hdn x hx
        exact jinvL_block b L hL owner X J pubF bss jj' (sendId nd) d _ _ (h.join J hJ) hjj hsid hnames hown'
      · intro hc
        exact absurd e (hc jj hjj)
    · have hnl : ∀ jj, jj < b → j ≠ lastL L jj := fun jj hjj e => hlast ⟨jj, hjj, e⟩
      refine ⟨fun u => if u = j then pubF j ++ [(sendId nd, d)] else pubF u, bss,
        goodL_send_gen proc b L hL owner X j nd _ _ _ _ pubF _ bss bss h hn hjb (hlen' _ _) (hlook _ _) hGn rfl rfl
          (fun u hu => by simp only [hu, ↓reduceIte]) (by simp only [↓reduceIte]; exact hpubN _) (hconsB _) hidxN ?_ (fun _ => rfl)⟩
      intro jj hjj e
      exact absurd e (hnl jj hjj)

theorem goodL_sendSkip (proc : Proc) (b L : Nat) (hb : 1 ≤ b) (hL : 1 ≤ L) (owner : Topic → Nat) (X : LSt) (j : Nat) (nd : Node) (p : Pending)
    (pubF : Nat → List HSet) (bss : Nat → List Blk) (h : GoodLW proc b L owner X pubF bss)
    (hn : X.st.nodes[j]? = some nd) (hpend : nd.pending = some p)
    (hno : Loop.reachesSender ((rejoinLongTopo b L).hasOut j) p.res = false) :
    GoodLW proc b L owner { st := { X.st with nodes := X.st.nodes.set j { nd with pending := none } }, log := X.log } pubF bss := by
  have hjL : j < X.st.nodes.length := (List.getElem?_eq_some_iff.mp hn).1
  have hG := h.node j nd hn
  refine goodL_recv_gen proc b L owner X j { nd with pending := none } (fun _ => []) X.log _ pubF bss bss h
    (by simp only [List.length_set]; exact h.len) ?_ (by intro x _ r hr; cases hr) (fun _ _ => rfl)
    ⟨hG.src, (by intro _ hc; cases hc), hG.recvSt⟩ ?_ ?_ ?_ (fun _ => rfl)
  · intro x
    rw [List.getElem?_set]
    by_cases hx : x = j
    · subst hx; simp [hjL]
    · have : ¬ j = x := fun e => hx e.symm
      simp only [this, hx, ↓reduceIte]
      cases X.st.nodes[x]? with
      | none => rfl
      | some P => simp only [Option.map_some, pushReqs_nil]
  · intro hjb
    have hpub := h.pubs j nd hjb hn
    have hd : dictOf p.res = none := by
      rw [rl_hasOut b L j hb hL] at hno
      simp only [hjb, decide_true] at hno
      cases hres : p.res with
      | none => rfl
      | dict d => rw [hres] at hno; simp [Loop.reachesSender] at hno
      | deferred r => rw [hres] at hno; simp [Loop.reachesSender] at hno
    refine ⟨?_, hpub.inc, hpub.idle, hpub.bal, hpub.nq, hpub.minSend, hpub.reqs, (by intro hc; cases hc), (by intro q d hq; cases hq)⟩
    have := hpub.prod
    rw [pendOf_nodict nd p hpend hd] at this
    simp only [prodOf] at this ⊢
    rw [this]; rfl
  · intro h1 h2
    rcases h.cons j nd h1 h2 hn with ⟨bsW, s, hc⟩
    exact ⟨bsW, s, conInv_frame _ _ (parL L j) nd _ (pubF (parL L j)) bsW s [] hc (by simp [atC]) rfl rfl rfl⟩
  · intro hjJ
    subst hjJ
    exact jinvL_frame b L owner X _ nd _ pubF bss [] (h.join nd hn) (by simp) rfl rfl rfl

theorem goodL_stepSend (proc : Proc) (b L : Nat) (hb : 1 ≤ b) (hL : 1 ≤ L) (hns : NoSkipLong proc b L) (owner : Topic → Nat)
    (hown : OwnedLast proc b L owner)
    (X : LSt) (j : Nat) (t : Int) (h : GoodL proc b L owner X) : GoodL proc b L owner (lstep (rejoinLongTopo b L) proc X (.nodeSend j t)) := by
  rcases h with ⟨pubF, bss, hw⟩
  unfold lstep
  simp only [step, stepSend, logUpd]
  cases hn : X.st.nodes[j]? with
  | none => exact goodL_eta proc b L owner X ⟨pubF, bss, hw⟩
  | some nd =>
    simp only
    cases hpend : nd.pending with
    | none => exact goodL_eta proc b L owner X ⟨pubF, bss, hw⟩
    | some p =>
      simp only
      by_cases hr : Loop.reachesSender ((rejoinLongTopo b L).hasOut j) p.res = true
      · simp only [hr, ↓reduceIte]
        have hout : (rejoinLongTopo b L).hasOut j = true := by
          cases hres : p.res with
          | none => rw [hres] at hr; simp [Loop.reachesSender] at hr
          | dict d => rw [hres] at hr; simpa [Loop.reachesSender] using hr
          | deferred r => rw [hres] at hr; simpa [Loop.reachesSender] using hr
        rw [rl_hasOut b L j hb hL] at hout
        exact goodL_sendReal proc b L hL hns owner hown X j t nd p pubF bss hw hn hpend (by simpa using hout)
      · have hr' : Loop.reachesSender ((rejoinLongTopo b L).hasOut j) p.res = false := by simpa using hr
        simp only [hr', Bool.false_eq_true, ↓reduceIte, sendSkip]
        exact ⟨pubF, bss, goodL_sendSkip proc b L hb hL owner X j nd p pubF bss hw hn hpend hr'⟩

theorem goodL_lrun (proc : Proc) (hp : ProcNames proc) (b L : Nat) (hb : 1 ≤ b) (hL : 1 ≤ L) (hns : NoSkipLong proc b L) (owner : Topic → Nat)
    (hown : OwnedLast proc b L owner) : ∀ (evs : List Ev) (X : LSt),
    GoodL proc b L owner X → (∀ e ∈ evs, isRestart e = false) → GoodL proc b L owner (lrun (rejoinLongTopo b L) proc X evs) := by
  intro evs
  induction evs with
  | nil => intro X h _; exact h
  | cons e es ih =>
    intro X h hnr
    apply ih _ _ (fun x hx => hnr x (List.mem_cons_of_mem _ hx))
    cases e with
    | nodeRecv j => exact goodL_stepRecv proc hp b L hb hL owner X j h
    | nodeSend j t => exact goodL_stepSend proc b L hb hL hns owner hown X j t h
    | restart j g => have := hnr _ (List.mem_cons_self ..); simp [isRestart] at this

end OF.Net
