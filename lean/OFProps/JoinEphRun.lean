import OFProps.JoinEphInv
import OFProps.C02Once
/-!
# A join with ephemeral side sources — what a run returns (helpers for `OFProps/C05JoinEph.lean`)

`rets o` (`OFProps/C02Once.lean`): the returned (id, set) pairs among the outputs `o`.  `rets_nstep`: one admissible event returns nothing, or it is a
`check` of a live receiver whose return condition holds and it returns exactly one set: the frontier id with the concatenation
of the sources' buffers in source order.  `filter_flatten_tag`: if every frame of part `i` is tagged with source `i`, the frames
tagged `j` of the concatenation are part `j`.  `sorted_prefix`: two strictly increasing lists with the same members below two
bounds are prefix-related.
-/
namespace OF.Recv

theorem retIds_eq_rets (o : List Out) : retIds o = (rets o).map (·.1) := (rets_ids o).symm

theorem rets_nil_of_retIds (o : List Out) (h : retIds o = []) : rets o = [] := by
  rw [retIds_eq_rets] at h
  exact List.map_eq_nil_iff.mp h

theorem mem_rets (o : List Out) (id : Int) (data : List (Topic × Msg)) :
    (id, data) ∈ rets o ↔ ∃ bal, Out.ret id bal data ∈ o := by
  unfold rets
  rw [List.mem_filterMap]
  constructor
  · rintro ⟨x, hx, hv⟩
    cases x with
    | ret id' bal data' =>
      simp only [Option.some.injEq, Prod.mk.injEq] at hv
      rcases hv with ⟨rfl, rfl⟩
      exact ⟨bal, hx⟩
    | oob _ _ => cases hv
    | req _ _ _ _ => cases hv
    | retNone => cases hv
    | dupTopic _ => cases hv
  · rintro ⟨bal, hx⟩
    exact ⟨_, hx, rfl⟩

/-- **one admissible event returns at most one set, and only a `check` of a live receiver whose return condition holds returns
one**: the frontier id with the concatenation of the buffers of all sources, in source order -/
theorem rets_nstep (n : NSt) (e : NEv) (ha : NAdm e) :
    rets (nstep n e).2 = [] ∨
    (e = .recv .check ∧ n.st.dead = false ∧ n.st.inCall = true ∧ returnCond n.st = true ∧ (nstep n e).1.st.dead = false ∧
      rets (nstep n e).2 = [(n.st.minRecvId, (n.st.srcs.map srcFrames).flatten)]) := by
  cases e with
  | deliverNext j =>
    left
    show rets (nDeliver n j).2 = []
    unfold nDeliver; split <;> rfl
  | recv e =>
    show rets (nRecv n e).2 = [] ∨ _
    cases e with
    | deliver i w => exact absurd ha (by simp [NAdm])
    | «begin» state =>
      left
      show rets (stepBegin n.st state).2 = []
      unfold stepBegin; split <;> rfl
    | take i =>
      left
      apply rets_nil_of_retIds
      show retIds (stepTake n.st i).2 = []
      unfold stepTake
      split
      · rfl
      · split
        · rfl
        · split
          · exact (onTake_mono n.st i).2.2.2.2
          · rfl
    | request =>
      left
      apply rets_nil_of_retIds
      show retIds (stepRequest n.st).2 = []
      unfold stepRequest; split
      · rfl
      · exact retIds_requests _ _
    | timeout =>
      left
      show rets (stepTimeout n.st).2 = []
      unfold stepTimeout; split
      · rfl
      · rfl
    | check =>
      show rets (stepCheck n.st).2 = [] ∨ (_ ∧ _ ∧ _ ∧ _ ∧ (stepCheck n.st).1.dead = false ∧ rets (stepCheck n.st).2 = _)
      unfold stepCheck
      by_cases hg : n.st.dead = true ∨ ¬ n.st.inCall = true
      · left; simp only [hg, ↓reduceIte]; rfl
      · simp only [hg, ↓reduceIte]
        have ⟨hd, hin⟩ := live_of_not n.st hg
        cases hrc : returnCond n.st with
        | false => left; simp only [Bool.false_eq_true, ↓reduceIte]; rfl
        | true =>
          simp only [↓reduceIte]
          unfold finish
          simp only
          have hreq : rets (if (!n.st.lowLat && decide (n.st.balanced ≠ 1)) = true then requests n.st n.st.minRecvId else []) = [] := by
            apply rets_nil_of_retIds
            split
            · exact retIds_requests _ _
            · rfl
          split
          · left
            rw [rets_append, hreq]; rfl
          · rename_i data hdata
            right
            have hd' := assemble_inr _ _ _ hdata
            simp only [List.nil_append] at hd'
            refine ⟨trivial, hd, hin, trivial, hd, ?_⟩
            rw [rets_append, hreq, hd', List.flatMap_def]
            rfl

/-- after a dupTopic error nothing is ever returned again -/
theorem rets_dead (n : NSt) (e : NEv) (ha : NAdm e) (hd : n.st.dead = true) : rets (nstep n e).2 = [] := by
  rcases rets_nstep n e ha with h | ⟨_, h, _⟩
  · exact h
  · rw [hd] at h; cases h

/-- no event adds or removes a source -/
theorem nstep_len (n : NSt) (e : NEv) : (nstep n e).1.st.srcs.length = n.st.srcs.length := by
  have key : ∀ (st : St) (ev : Ev), (step st ev).1.srcs.length = st.srcs.length := by
    intro st ev
    have := congrArg List.length (OF.Net.ephs_step st ev)
    simpa [OF.Net.ephs] using this
  cases e with
  | deliverNext j =>
    show (nDeliver n j).1.st.srcs.length = _
    unfold nDeliver
    split
    · rename_i w rest _
      exact key n.st (.deliver j w)
    · rfl
  | recv e => exact key n.st e

/-! ### frames tagged with their source -/

theorem filter_flatten_tag_off : ∀ (parts : List (List (Topic × Msg))) (off : Nat),
    (∀ (i : Nat) (part : List (Topic × Msg)), parts[i]? = some part → ∀ x ∈ part, x.2.src = off + i) →
    ∀ j, off ≤ j → parts.flatten.filter (fun x => x.2.src == j) = (parts[j - off]?).getD [] := by
  intro parts
  induction parts with
  | nil => intro off _ j _; simp
  | cons part rest ih =>
    intro off htag j hj
    rw [List.flatten_cons, List.filter_append]
    have h0 := htag 0 part rfl
    have hrest : ∀ (i : Nat) (pt : List (Topic × Msg)), rest[i]? = some pt → ∀ x ∈ pt, x.2.src = (off + 1) + i := by
      intro i pt hi x hx
      have := htag (i + 1) pt (by simpa using hi) x hx
      omega
    by_cases e : j = off
    · subst e
      have h1 : part.filter (fun x => x.2.src == j) = part := by
        rw [List.filter_eq_self]
        intro x hx
        have := h0 x hx
        simp only [Nat.add_zero] at this
        simp [this]
      have h2 : rest.flatten.filter (fun x => x.2.src == j) = [] := by
        rw [List.filter_eq_nil_iff]
        intro x hx
        rcases List.mem_flatten.mp hx with ⟨pt, hpt, hx'⟩
        rcases List.getElem?_of_mem hpt with ⟨i, hi⟩
        have := hrest i pt hi x hx'
        simp only [beq_iff_eq]
        omega
      rw [h1, h2]
      simp
    · have h1 : part.filter (fun x => x.2.src == j) = [] := by
        rw [List.filter_eq_nil_iff]
        intro x hx
        have := h0 x hx
        simp only [beq_iff_eq]
        omega
      rw [h1, List.nil_append, ih (off + 1) hrest j (by omega)]
      have : j - off = (j - (off + 1)) + 1 := by omega
      rw [this, List.getElem?_cons_succ]

/-- if every frame of part `i` carries the tag `i`, the frames tagged `j` of the concatenation are exactly part `j` -/
theorem filter_flatten_tag (parts : List (List (Topic × Msg)))
    (htag : ∀ (i : Nat) (part : List (Topic × Msg)), parts[i]? = some part → ∀ x ∈ part, x.2.src = i) (j : Nat) :
    parts.flatten.filter (fun x => x.2.src == j) = (parts[j]?).getD [] := by
  have := filter_flatten_tag_off parts 0 (by intro i part hi x hx; rw [htag i part hi x hx]; omega) j (Nat.zero_le _)
  simpa using this

/-! ### strictly increasing lists -/

/-- two strictly increasing lists, the first holding exactly the members of the second below a bound: a prefix -/
theorem sorted_prefix (E : Int) : ∀ (l2 l1 : List Int), l1.Pairwise (· < ·) → l2.Pairwise (· < ·) →
    (∀ c, c ∈ l1 ↔ c ∈ l2 ∧ c < E) → l1 <+: l2 := by
  intro l2
  induction l2 with
  | nil =>
    intro l1 _ _ h
    cases l1 with
    | nil => exact List.prefix_refl _
    | cons y t => exact absurd ((h y).mp (List.mem_cons_self ..)).1 (by simp)
  | cons x t ih =>
    intro l1 h1 h2 h
    rw [List.pairwise_cons] at h2
    by_cases hx : x < E
    · cases l1 with
      | nil => exact absurd ((h x).mpr ⟨List.mem_cons_self .., hx⟩) (by simp)
      | cons y t1 =>
        rw [List.pairwise_cons] at h1
        have hy := (h y).mp (List.mem_cons_self ..)
        have hxin := (h x).mpr ⟨List.mem_cons_self .., hx⟩
        have hyx : y = x := by
          rcases List.mem_cons.mp hy.1 with e | e
          · exact e
          · rcases List.mem_cons.mp hxin with e' | e'
            · exact e'.symm
            · have a := h2.1 y e
              have b := h1.1 x e'
              omega
        subst hyx
        have := ih t1 h1.2 h2.2 (by
          intro c
          constructor
          · intro hc
            have hc' := (h c).mp (List.mem_cons_of_mem _ hc)
            have hlt := h1.1 c hc
            rcases List.mem_cons.mp hc'.1 with e | e
            · omega
            · exact ⟨e, hc'.2⟩
          · rintro ⟨hc, hcE⟩
            have hc' := (h c).mpr ⟨List.mem_cons_of_mem _ hc, hcE⟩
            have hlt := h2.1 c hc
            rcases List.mem_cons.mp hc' with e | e
            · omega
            · exact e)
        exact (List.prefix_cons_inj y).mpr this
    · cases l1 with
      | nil => exact List.nil_prefix
      | cons y t1 =>
        exfalso
        have hy := (h y).mp (List.mem_cons_self ..)
        rcases List.mem_cons.mp hy.1 with e | e
        · omega
        · have := h2.1 y e; omega

/-! ### the run invariant of the synchronised part -/

/-- invariant of a whole run (synchronised part) -/
def ERunOK (sp : List ESpec) (F0 : Int) (acc : NSt × List Out) : Prop :=
  SInv sp acc.1 ∧
  (∀ id bal data, Out.ret id bal data ∈ acc.2 → ERetOK sp id data) ∧
  (∀ id ∈ retIds acc.2, ECommon sp id ∧ F0 ≤ id) ∧
  (retIds acc.2).Pairwise (· < ·) ∧
  (acc.1.st.dead = false → F0 ≤ expected acc.1.st ∧ (∀ id ∈ retIds acc.2, id < expected acc.1.st) ∧
    ∀ c, ECommon sp c → F0 ≤ c → c < expected acc.1.st → c ∈ retIds acc.2)

theorem retIds_dead (n : NSt) (e : NEv) (ha : NAdm e) (hd : n.st.dead = true) : retIds (nstep n e).2 = [] := by
  rw [retIds_eq_rets, rets_dead n e ha hd]; rfl

theorem erunOK_step (sp : List ESpec) (hsp : SyncOK sp) (F0 : Int) (acc : NSt × List Out) (e : NEv) (ha : NAdm e)
    (h : ERunOK sp F0 acc) : ERunOK sp F0 ((nstep acc.1 e).1, acc.2 ++ (nstep acc.1 e).2) := by
  rcases h with ⟨hJ, hS0, hS1, hP, hS2⟩
  have hJ' := nstep_SInv sp hsp acc.1 e ha hJ
  have hF := nstep_efrontier sp hsp acc.1 e ha hJ
  by_cases hdead : acc.1.st.dead = true
  · -- nothing is returned any more
    have ho := retIds_dead acc.1 e ha hdead
    have hd' := dead_stays acc.1 e hdead
    refine ⟨hJ', ?_, ?_, ?_, ?_⟩
    · intro id bal data hmem
      rw [List.mem_append] at hmem
      rcases hmem with hmem | hmem
      · exact hS0 id bal data hmem
      · have := mem_retIds _ _ _ _ hmem
        rw [ho] at this; cases this
    · intro id hid
      rw [retIds_append, ho, List.append_nil] at hid
      exact hS1 id hid
    · simp only; rw [retIds_append, ho, List.append_nil]; exact hP
    · intro hc; simp only at hc; rw [hd'] at hc; cases hc
  have hd0 : acc.1.st.dead = false := by simpa using hdead
  have ⟨hF0, hlt, hS2'⟩ := hS2 hd0
  refine ⟨hJ', ?_, ?_, ?_, ?_⟩
  · intro id bal data hmem
    rw [List.mem_append] at hmem
    rcases hmem with hmem | hmem
    · exact hS0 id bal data hmem
    · have hid := mem_retIds _ _ _ _ hmem
      rcases hF with ⟨_, ho⟩ | ⟨ho, _, _⟩ | ⟨_, _, _, hc⟩
      · rw [ho] at hid; cases hid
      · rw [ho] at hid; cases hid
      · exact hc id bal data hmem
  · intro id hid
    rw [retIds_append, List.mem_append] at hid
    rcases hid with hid | hid
    · exact hS1 id hid
    · rcases hF with ⟨_, ho⟩ | ⟨ho, _, _⟩ | ⟨ho, _, hc, _⟩
      · rw [ho] at hid; cases hid
      · rw [ho] at hid; cases hid
      · rw [ho] at hid; simp only [List.mem_singleton] at hid; rw [hid]; exact ⟨hc, hF0⟩
  · simp only
    rw [retIds_append, List.pairwise_append]
    refine ⟨hP, ?_, ?_⟩
    · rcases hF with ⟨_, ho⟩ | ⟨ho, _, _⟩ | ⟨ho, _, _, _⟩
      · rw [ho]; exact List.Pairwise.nil
      · rw [ho]; exact List.Pairwise.nil
      · rw [ho]; exact List.pairwise_singleton _ _
    · intro a ha' b hb
      rcases hF with ⟨_, ho⟩ | ⟨ho, _, _⟩ | ⟨ho, _, _, _⟩
      · rw [ho] at hb; cases hb
      · rw [ho] at hb; cases hb
      · rw [ho] at hb; simp only [List.mem_singleton] at hb; rw [hb]; exact hlt a ha'
  · intro hd'
    rcases hF with ⟨hdead', _⟩ | ⟨ho, hle, hgap⟩ | ⟨ho, heq, hc, _⟩
    · simp only at hd'; rw [hdead'] at hd'; cases hd'
    · refine ⟨by simp only; omega, ?_, ?_⟩
      · intro id hid
        rw [retIds_append, ho, List.append_nil] at hid
        have := hlt id hid
        simp only; omega
      · intro c hc h0 hltc
        rw [retIds_append, List.mem_append]
        by_cases hcl : c < expected acc.1.st
        · left; exact hS2' c hc h0 hcl
        · exact absurd hltc (fun hlt' => hgap c hc (by omega) hlt')
    · refine ⟨by simp only; omega, ?_, ?_⟩
      · intro id hid
        rw [retIds_append, ho, List.mem_append] at hid
        simp only
        rcases hid with hid | hid
        · have := hlt id hid; omega
        · simp only [List.mem_singleton] at hid; omega
      · intro c hcc h0 hltc
        simp only at hltc
        rw [retIds_append, List.mem_append]
        by_cases hcl : c < expected acc.1.st
        · left; exact hS2' c hcc h0 hcl
        · right; rw [ho]; simp only [List.mem_singleton]; omega

theorem erunOK_run (sp : List ESpec) (hsp : SyncOK sp) (n0 : NSt) (h0 : SInv sp n0) (evs : List NEv)
    (hadm : ∀ e ∈ evs, NAdm e) : ERunOK sp (expected n0.st) (nrun n0 evs) := by
  have key : ∀ (evs : List NEv) (acc : NSt × List Out), (∀ e ∈ evs, NAdm e) → ERunOK sp (expected n0.st) acc →
      ERunOK sp (expected n0.st)
        (evs.foldl (fun (acc : NSt × List Out) e => ((nstep acc.1 e).1, acc.2 ++ (nstep acc.1 e).2)) acc) := by
    intro evs
    induction evs with
    | nil => intro acc _ h; exact h
    | cons e es ih =>
      intro acc hadm h
      simp only [List.foldl_cons]
      exact ih _ (fun x hx => hadm x (List.mem_cons_of_mem _ hx))
        (erunOK_step sp hsp _ acc e (hadm e (List.mem_cons_self ..)) h)
  have hinit : ERunOK sp (expected n0.st) (n0, []) := by
    refine ⟨h0, ?_, ?_, List.Pairwise.nil, ?_⟩
    · intro id bal data hmem; cases hmem
    · intro id hid; cases hid
    · intro _
      refine ⟨Int.le_refl _, ?_, ?_⟩
      · intro id hid; cases hid
      · intro c _ h1 h2
        simp only at h2
        omega
  exact key evs (n0, []) hadm hinit


end OF.Recv
