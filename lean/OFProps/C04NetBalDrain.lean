import OFProps.C04NetBalPhi
set_option linter.unusedSimpArgs false
/-!
# The drain of a `send(…, timeout=0)` call empties every polled PULL queue (helper lemmas for `OFProps/C04NetBalQueued.lean`)

Sender level, any number of bound outputs, balanced or not.
* `step_qlen`, `send0_qlen` — no event changes the NUMBER of PULL queues;
* `drain_done` — with enough fuel (`send0` gives `totalQueued + 1`) a drain that leaves the call open stops because the poll finds nothing:
  every polled queue is empty;
* `send0_trackAny` — a BALANCED sender that tracks `fid` as a synchronised client of a polled output `o`, ANY number of (ordinary) requests
  of `fid` queued on `o`: it still tracks `fid` afterwards; if the call puts something on output `o`, then afterwards the flag of `fid` is down
  AND no request of `fid` is queued any more (the drain of that very call took them all before `send_maybe` ran): the sender is held.
-/
namespace OF.Send
open OF.Net (keyOf)

/-! ### the number of queues -/

theorem step_qlen (st : St) (e : Ev) : (step st e).1.queues.length = st.queues.length := by
  cases e with
  | deliver j r =>
    unfold step stepDeliver; simp only
    split
    · rfl
    · simp only [List.length_set]
  | «begin» s p b =>
    unfold step stepBegin; simp only
    split
    · rfl
    · split
      · rfl
      · split <;> rfl
  | handle j t =>
    unfold step stepHandle; simp only
    split
    · rfl
    · split
      · rfl
      · rfl
      · split
        · show (onReq _ j _ t).1.queues.length = _
          rw [onReq_queues]; simp only [List.length_set]
        · rw [onReq_queues]; simp only [List.length_set]
  | trySend =>
    unfold step stepTrySend; simp only
    split
    · rfl
    · split
      · show (sendMaybe st).1.queues.length = _
        rw [sendMaybe_queues]
      · rw [sendMaybe_queues]
  | timeout =>
    unfold step stepTimeout; simp only
    split <;> rfl

theorem send0_qlen (st : St) (state : Option (Int × Nat)) (pl : Payload) (push : Bool) (prio : List Nat) (t : Int) :
    (send0 st state pl push prio t).1.queues.length = st.queues.length := by
  have h0 : (step st (.begin state pl push)).1.queues.length = st.queues.length := step_qlen _ _
  have h1 : (afterDrain st state pl push prio t).queues.length = st.queues.length := by
    unfold afterDrain
    exact drain_ind_t (fun s => s.queues.length = st.queues.length) t (fun s j hs => by rw [step_qlen]; exact hs) _ _ prio h0
  rcases send0_final_cases st state pl push prio t with h | h | h | h
  · rw [h]; exact h0
  · rw [h]; exact h1
  · rw [h, step_qlen]; exact h1
  · rw [h, step_qlen, step_qlen]; exact h1

/-! ### the poll -/

theorem pollPick_some (st : St) (prio : List Nat) (j : Nat) (h : pollPick st prio = some j) : ∃ r q, st.queues[j]? = some (r :: q) := by
  unfold pollPick at h
  have hm := List.mem_of_getLast? h
  rw [List.mem_filter] at hm
  have h2 := hm.2
  cases hq : st.queues[j]? with
  | none => rw [hq] at h2; cases h2
  | some l =>
    cases l with
    | nil => rw [hq] at h2; cases h2
    | cons r q => exact ⟨r, q, rfl⟩

theorem pollPick_none (st : St) (prio : List Nat) (h : pollPick st prio = none) (j : Nat) (hj : j ∈ prio) (r : Req) (q : List Req) :
    st.queues[j]? ≠ some (r :: q) := by
  intro hq
  unfold pollPick at h
  rw [List.getLast?_eq_none_iff, List.filter_eq_nil_iff] at h
  have := h j hj
  rw [hq] at this
  exact this rfl

/-! ### the fuel suffices -/

theorem handle_totalQueued (st : St) (j : Nat) (t : Int) (r : Req) (q : List Req) (hin : st.inCall = true)
    (hq : st.queues[j]? = some (r :: q)) : totalQueued (step st (.handle j t)).1 + 1 = totalQueued st := by
  have hs := sum_set List.length st.queues j (r :: q) q hq
  have hqs : (step st (.handle j t)).1.queues = st.queues.set j q := by
    unfold step stepHandle
    simp only [hin, not_true_eq_false, ↓reduceIte, hq]
    split
    · show (onReq _ j r t).1.queues = _
      rw [onReq_queues]
    · rw [onReq_queues]
  unfold totalQueued
  rw [hqs]
  simp only [List.length_cons] at hs
  omega

theorem drain_done (prio : List Nat) (t : Int) : ∀ (fuel : Nat) (st : St), totalQueued st < fuel →
    (drain fuel st prio t).1.inCall = true → pollPick (drain fuel st prio t).1 prio = none := by
  intro fuel
  induction fuel with
  | zero => intro st h _; omega
  | succ n ih =>
    intro st hf hin
    rw [drain_succ] at hin ⊢
    by_cases hc : st.inCall = true
    · simp only [hc, not_true_eq_false, ↓reduceIte] at hin ⊢
      cases hp : pollPick st prio with
      | none => simp only [hp]
      | some j =>
        simp only [hp] at hin ⊢
        rcases pollPick_some st prio j hp with ⟨r, q, hq⟩
        have := handle_totalQueued st j t r q hc hq
        exact ih _ (by omega) hin
    · simp only [hc, not_false_eq_true, ↓reduceIte] at hin
      exact absurd hin hc

/-! ### a balanced sender, a tracked client with any number of queued requests -/

/-- the four places a `send(…, timeout=0)` call can end, with what is known about the drain -/
theorem send0_final_cases_in (st : St) (state : Option (Int × Nat)) (pl : Payload) (push : Bool) (prio : List Nat) (t : Int) :
    (send0 st state pl push prio t = ((step st (.begin state pl push)).1, (step st (.begin state pl push)).2)) ∨
    (send0 st state pl push prio t = ((afterDrain st state pl push prio t),
      (step st (.begin state pl push)).2 ++
        (drain (totalQueued (step st (.begin state pl push)).1 + 1) (step st (.begin state pl push)).1 prio t).2)) ∨
    ((afterDrain st state pl push prio t).inCall = true ∧
      ((send0 st state pl push prio t).1 = (step (afterDrain st state pl push prio t) .trySend).1 ∨
       (send0 st state pl push prio t).1 = (step (step (afterDrain st state pl push prio t) .trySend).1 .timeout).1)) := by
  rw [send0_eq]
  unfold afterDrain
  simp only
  split
  · exact Or.inl rfl
  · split
    · exact Or.inr (Or.inl rfl)
    · rename_i hd
      have hd' : (drain (totalQueued (step st (.begin state pl push)).1 + 1) (step st (.begin state pl push)).1 prio t).1.inCall = true := by
        simpa using hd
      split
      · exact Or.inr (Or.inr ⟨hd', Or.inl rfl⟩)
      · exact Or.inr (Or.inr ⟨hd', Or.inr rfl⟩)

theorem step_trySend_queues (st : St) : (step st .trySend).1.queues = st.queues := by
  unfold step stepTrySend; simp only
  split
  · rfl
  · split
    · show (sendMaybe st).1.queues = _
      rw [sendMaybe_queues]
    · rw [sendMaybe_queues]

theorem step_timeout_queues (st : St) : (step st .timeout).1.queues = st.queues := by
  unfold step stepTimeout; simp only
  split <;> rfl

/-- **a balanced sender that tracks the client on a polled output `o`, any number of its requests queued**: it still tracks it after the
call; if the call puts something on output `o`, the client's flag is down afterwards and NONE of its requests is queued any more -/
theorem send0_trackAny (st : St) (hP : PInv st) (hb : st.balance = true) (fid : String) (o : Nat) (lo : Int)
    (state : Option (Int × Nat)) (pl : Payload) (push : Bool) (prio : List Nat) (t : Int) (ho : o ∈ prio)
    (hT : TrackOn st.clients fid o lo) (hq : QAll (GoodReq fid o) st) (ht : t - OF.Facts.ZMQ_CONN_TIMEOUT ≤ lo) (hlo : lo ≤ t) :
    TrackOn (send0 st state pl push prio t).1.clients fid o lo ∧ QAll (GoodReq fid o) (send0 st state pl push prio t).1 ∧
    ((∃ x ∈ (send0 st state pl push prio t).2, isPubOn o x = true) →
      HoldOn (send0 st state pl push prio t).1.clients fid o lo ∧ QAll (fun _ r => keyOf r ≠ fid) (send0 st state pl push prio t).1) := by
  have hg := send0_gen (fun cl => TrackOn cl fid o lo) (GoodReq fid o) (fun t' => t' - OF.Facts.ZMQ_CONN_TIMEOUT ≤ lo ∧ lo ≤ t')
    (fun s j r t' hT' hc hR => onReq_trackOn s j r t' fid o lo hc hR hT'.1 hT'.2)
    (fun s hc => trackOn_cleared s fid o lo hc) st state pl push prio t ⟨ht, hlo⟩ hT hq
  refine ⟨hg.2.1, hg.2.2, ?_⟩
  rintro ⟨x, hx, hpx⟩
  have ⟨_, hcl⟩ := C07_send0_publish_needs_all_asked st hP hb state pl push prio t o x hx hpx
  refine ⟨by rw [hcl]; exact trackOn_clearedOn _ fid o lo hg.1.1, ?_⟩
  have hnb := nopub_of_ne st (.begin state pl push) o (by intro hh; cases hh)
  have hnd := drain_nopub o (totalQueued (step st (.begin state pl push)).1 + 1) (step st (.begin state pl push)).1 prio t
  have contra : ∀ y, isPubOn o y = false → y = x → False := by
    intro y hy he; rw [he, hpx] at hy; cases hy
  rcases send0_final_cases_in st state pl push prio t with h | h | ⟨hin, h⟩
  · rw [h] at hx
    exact (contra x (hnb x hx) rfl).elim
  · rw [h] at hx
    rcases List.mem_append.mp hx with h1 | h1
    · exact (contra x (hnb x h1) rfl).elim
    · exact (contra x (hnd x h1) rfl).elim
  · -- the drain left the call open: every polled queue is empty
    have hdone : pollPick (afterDrain st state pl push prio t) prio = none := by
      unfold afterDrain at hin ⊢
      exact drain_done prio t _ _ (Nat.lt_succ_self _) hin
    have hqa : QAll (fun _ r => keyOf r ≠ fid) (afterDrain st state pl push prio t) := by
      intro j q hj r hr hk
      have hgood := hg.1.2 j q hj r hr hk
      cases q with
      | nil => cases hr
      | cons r0 q0 =>
        rw [hgood.1] at hj
        exact pollPick_none _ prio hdone o ho r0 q0 hj
    rcases h with h | h
    · exact qall_same _ _ _ hqa (by rw [h, step_trySend_queues])
    · exact qall_same _ _ _ hqa (by rw [h, step_timeout_queues, step_trySend_queues])

end OF.Send
