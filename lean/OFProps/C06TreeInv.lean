import OFProps.C04TreeInv
import OFProps.C06StarSem
import OFProps.C06TreeMeasure
set_option linter.unusedSimpArgs false
set_option linter.unusedVariables false
/-!
# Trees of filters, liveness side: sender-level lemmas and invariants (helper for `OFProps/C06Tree.lean`)

* `send0_fold_gen` - `send(callable, state, 0)` of a publisher with one bound output and ANY number of clients in terms of the fold
  `hstep` over its request queue (`C06StarEdge.lean`), for ANY `state` at or above `min_send_id` (a relay passes the id of the set it
  was handed): the set is published under the id of the call iff the drain leaves `do_send` up and a non-empty table;
* `fold_keep` - a table entry nobody asks for and that is not past the time-out survives the drain (the publisher keeps waiting
  for it);
* `tree_recv_shape2` - `recv` of an idle node of a tree with the `new` flag of the request made precise;
* control plane of a tree: `TreeKeys` (every queued request and every table entry of node `u` belongs to a CHILD of `u`, keys
  distinct, an inner node holds a dict) and `TreeHeard` (who is tracked, or has a request queued that does not say `new`, has heard
  from its parent) - in every state reachable without restarts (`tree_inv3`).
-/
namespace OF.Net
open OF OF.Send
open OF.Pair (PubIdle PubBusy popped entryOf needsHello)
open OF.Chain (Blk ChanQ BlkOK Rest visData)

/-! ## the sender: any `state` -/

/-- **one `send(callable, state, 0)` in terms of the fold over the request queue**, for any `state` whose id is at or above
`min_send_id`: published under the id of the call iff after the drain `do_send` is up and the table is not empty -/
theorem send0_fold_gen (u : Nat) (p : Send.St) (q : List Req) (state : Option (Int × Nat)) (ts : List (String × Nat)) (t : Int)
    (h : PubIdle p q) (hk : p.minSendId ≤ (callKey p state).1) (hq : ∀ r ∈ q, ReqLow (callKey p state).1 r) :
    PubIdle (send0 p state (.deferred (some ts)) false [0] t).1 [] ∧
    (if (q.foldl (hstep t) (p.clients, false, false)).2.1 = true ∧ (q.foldl (hstep t) (p.clients, false, false)).1 ≠ [] then
      (send0 p state (.deferred (some ts)) false [0] t).1.minSendId = (callKey p state).1 + 1 ∧
      (send0 p state (.deferred (some ts)) false [0] t).1.clients = clearReq (q.foldl (hstep t) (p.clients, false, false)).1
     else
      (send0 p state (.deferred (some ts)) false [0] t).1.minSendId = p.minSendId ∧
      (send0 p state (.deferred (some ts)) false [0] t).1.clients = (q.foldl (hstep t) (p.clients, false, false)).1 ∧
      ((q.foldl (hstep t) (p.clients, false, false)).2.2 = true →
        helloW u ∈ (send0 p state (.deferred (some ts)) false [0] t).2.filterMap (wireOf u))) := by
  have ⟨hb, heq⟩ := send0_unfold_gen p q state (.deferred (some ts)) t h hk
  have hd := drain_fold q (beginWith p (callKey p state).1 (callKey p state).2 (.deferred (some ts)) false) t hb hq
  have hf0 : ((beginWith p (callKey p state).1 (callKey p state).2 (.deferred (some ts)) false).clients,
      (beginWith p (callKey p state).1 (callKey p state).2 (.deferred (some ts)) false).doSend,
      (beginWith p (callKey p state).1 (callKey p state).2 (.deferred (some ts)) false).doHello) = (p.clients, false, false) := rfl
  rw [hf0] at hd
  rw [heq]
  generalize drain (q.length + 1) (beginWith p (callKey p state).1 (callKey p state).2 (.deferred (some ts)) false) [0] t = d at hd ⊢
  generalize q.foldl (hstep t) (p.clients, false, false) = f at hd ⊢
  rcases hd with ⟨k1, kpay, kmsg, kmin, _, kout, kf⟩
  have kpay' : d.1.payload = .deferred (some ts) := kpay
  have kmsg' : d.1.msgId = (callKey p state).1 := kmsg
  have kmin' : d.1.minSendId = p.minSendId := kmin
  have kcl : d.1.clients = f.1 := congrArg (·.1) kf
  have kds : d.1.doSend = f.2.1 := congrArg (·.2.1) kf
  have kdh : d.1.doHello = f.2.2 := congrArg (·.2.2) kf
  simp only [k1.inCall, Bool.true_eq_false, ↓reduceIte]
  by_cases hc : f.2.1 = true ∧ f.1 ≠ []
  · rw [if_pos hc]
    have hne : d.1.clients.isEmpty = false := by
      rw [kcl]
      cases hx : f.1 with
      | nil => exact absurd hx hc.2
      | cons _ _ => rfl
    have kdo : d.1.doSend = true := by rw [kds]; exact hc.1
    have hg : gate d.1 = (none, .topics ts, [.evaluated]) := by
      unfold gate
      simp only [kdo, hne, Bool.not_true, Bool.or_self, Bool.false_and, Bool.false_eq_true, ↓reduceIte, kpay']
    have hsm : sendMaybe d.1 = ((publish { d.1 with doHello := false, payload := .topics ts } ts).1,
        [.evaluated] ++ helloOuts d.1 none ++ (publish { d.1 with doHello := false, payload := .topics ts } ts).2, true) := by
      unfold sendMaybe
      simp only [hg, payloadTopics]
    rw [hsm]
    simp only [↓reduceIte]
    have ⟨T, hT, _⟩ := Pair.exists_stale d.1.clients t
    have hpg := Pair.publish_general { d.1 with doHello := false, payload := .topics ts } [] T ts k1.queues k1.balance k1.required
      k1.msgpos hT
    refine ⟨⟨hpg.1, hpg.2.1, hpg.2.2.1, rfl, hpg.2.2.2.2.1⟩, ?_, ?_⟩
    · show (publish { d.1 with doHello := false, payload := .topics ts } ts).1.minSendId = (callKey p state).1 + 1
      unfold publish; simp only; rw [kmsg']
    · show (publish { d.1 with doHello := false, payload := .topics ts } ts).1.clients = clearReq f.1
      rw [publish_clients { d.1 with doHello := false, payload := .topics ts } ts k1.balance]
      show clearReq d.1.clients = clearReq f.1
      rw [kcl]
  · rw [if_neg hc]
    have hclosed : (!d.1.doSend || d.1.clients.isEmpty) = true := by
      rw [kds, kcl]
      cases h1 : f.2.1 with
      | false => rfl
      | true =>
        cases h2 : f.1 with
        | nil => rfl
        | cons a b => exact absurd ⟨h1, by rw [h2]; exact List.cons_ne_nil _ _⟩ hc
    rw [sendMaybe_closed d.1 hclosed k1.push]
    simp only [Bool.false_eq_true, ↓reduceIte]
    refine ⟨⟨k1.queues, k1.balance, k1.required, rfl, k1.minpos⟩, kmin', kcl, ?_⟩
    intro hh
    have hdh : d.1.doHello = true := by rw [kdh]; exact hh
    rw [List.mem_filterMap]
    refine ⟨.hello 0, ?_, rfl⟩
    rw [List.mem_append, List.mem_append]
    left; right
    simp [helloOuts, hdh, Pair.allOuts_single _ [] k1.queues]

/-- **an entry nobody asks for and that is not past the time-out survives the drain** -/
theorem fold_keep (t : Int) : ∀ (q : List Req) (s : DAcc) (x : String × Client), KeysND s.1 → x ∈ s.1 →
    (∀ r ∈ q, Pair.fidOf r ≠ x.1) → ¬ x.2.tLast < t - OF.Facts.ZMQ_CONN_TIMEOUT → x ∈ (q.foldl (hstep t) s).1 := by
  intro q
  induction q with
  | nil => intro s x _ hx _ _; exact hx
  | cons r q' ih =>
    intro s x hnd hx hno hlt
    rw [List.foldl_cons]
    have hno' : ∀ r' ∈ q', Pair.fidOf r' ≠ x.1 := fun r' hr' => hno r' (List.mem_cons_of_mem _ hr')
    cases hn : normalReq s.1 r with
    | false =>
      rw [hstep_newconn t s r hn]
      exact ih _ x hnd hx hno' hlt
    | true =>
      rw [hstep_normal t s r hn]
      have hndT : KeysND (regT s.1 r t) := keysND_cset _ _ _ hnd
      have hxT : x ∈ regT s.1 r t := mem_cset_of_ne _ _ _ x hx (fun e => hno r (List.mem_cons_self ..) e.symm)
      have hsurv := evalClients_survives (t - OF.Facts.ZMQ_CONN_TIMEOUT) (regT s.1 r t) true hndT x hxT hlt
      exact ih _ x (keysND_sublist _ _ (evalClients_sublist _ _ _ _) hndT) hsurv hno' hlt

/-- with only handshake requests queued the table is untouched -/
theorem fold_table_same (t : Int) (q : List Req) (s : DAcc) (h : ∀ r ∈ q, normalReq s.1 r = false) :
    (q.foldl (hstep t) s).1 = s.1 := by
  rw [fold_newconn t q s h]


/-! ## the events of a tree, as changes of the node list -/

/-- every inner node answers every call with a dict (directly, as a lone frame, or through a callable): it never skips a set; the
source (if it has a consumer) always has a next frame -/
def FwdTree (par : List Nat) (proc : Proc) : Prop :=
  ∀ u, u ∈ par → ∀ n h, (dictOf (Loop.processFrames (proc u n h))).isSome = true

theorem callKey_sendId (nd : Node) : (callKey nd.pub nd.sendState).1 = sendId nd := by
  unfold callKey sendId
  cases nd.sendState with
  | none => rfl
  | some kb => rfl

/-- **`recv` of an idle node `idx + 1` (parent `u`)**, with the `new` flag of the request: it says `new` exactly if nothing was
queued and nothing had been heard -/
theorem tree_recv_shape2 (par : List Nat) (hpar : ParOK par) (proc : Proc) (st : St) (idx u : Nat) (hpu : par[idx]? = some u)
    (P C : Node) (s : Recv.Src) (bsW : List Blk) (hd : TEdge st u (idx + 1) P C s bsW) (hp : C.pending = none) :
    ∃ (rq : Send.Req) (C' : Node) (s' : Recv.Src),
      (∀ x, (stepRecv (treeTopo par) proc st (idx + 1)).1.nodes[x]? =
          if x = u then some { P with pub := pushReqs P.pub [rq] } else if x = idx + 1 then some C' else st.nodes[x]?) ∧
      rq.cid = cidOf (idx + 1) ∧ rq.uid = uidOf C.gen 0 ∧ rq.eph = 0 ∧ -1 ≤ rq.mid ∧ rq.mid < P.pub.minSendId ∧ rq.new = !s'.conn ∧
      C'.gen = C.gen ∧ C.con.srcs = [s] ∧ C'.con.srcs = [s'] ∧ C'.pub = C.pub ∧ s'.conn = (s.conn || !s.queue.isEmpty) ∧
      (¬ C.con.prevId + 1 < P.pub.minSendId → C'.con.prevId = C.con.prevId ∧ C'.pending = none ∧ s'.queue = []) ∧
      (C.con.prevId + 1 < P.pub.minSendId → C.con.prevId < C'.con.prevId ∧ C'.con.prevId < P.pub.minSendId ∧
        (∃ h o, C'.pending = some { res := Loop.processFrames (proc (idx + 1) C.count h), orig := o }) ∧ s.queue ≠ [] ∧ s'.conn = true) ∧
      retAt (idx + 1) (.nodeRecv (idx + 1)) (stepRecv (treeTopo par) proc st (idx + 1)).2 =
        (if C.con.prevId + 1 < P.pub.minSendId then [C'.con.prevId] else []) := by
  have hC := hd.nC
  have hrest := hd.rest
  have hsrcs : C.con.srcs = [s] := hrest.idle.srcs
  have hne : C.con.srcs.isEmpty = false := by rw [hsrcs]; rfl
  have hprio : List.range C.con.srcs.length = [0] := by rw [hsrcs]; rfl
  have hups : (treeTopo par).upsOf (idx + 1) = [u] := (tree_ups_iff par idx u).mpr hpu
  have hule : u ≤ idx := hpar idx u hpu
  have hil : idx + 1 < st.nodes.length := (List.getElem?_eq_some_iff.mp hC).1
  have hprev := hrest.idle.prev
  have hst : (stepRecv (treeTopo par) proc st (idx + 1)).1 =
      { st with nodes := (deliverReqs (treeTopo par) (st.nodes.set (idx + 1) (afterRecv proc st.tbl (idx + 1) C (Recv.call0 C.con C.recvState [0])))
          (idx + 1) C.gen (Recv.call0 C.con C.recvState [0]).2) } := by
    unfold stepRecv
    simp only [hC, hp, Option.isSome_none, Bool.false_eq_true, ↓reduceIte, hne, recvRelay, hprio]
  have hobs : (stepRecv (treeTopo par) proc st (idx + 1)).2 = recvObs st.tbl (Recv.call0 C.con C.recvState [0]).2 := by
    unfold stepRecv
    simp only [hC, hp, Option.isSome_none, Bool.false_eq_true, ↓reduceIte, hne, recvRelay, hprio]
  rw [hst, hobs]
  rcases OF.Chain.call0_chain_conn u C.con s C.recvState s.queue bsW hrest rfl hd.chan hd.rs with
    ⟨hb0, c1, s1, e1, hr1, hp1, hq1, hc1⟩ | ⟨k, ts, bs', c1, s1, q', hb0, hbk, hk, e1, hr1, hp1, hq1, hch, hc1, hqne⟩
  · have hnb : ¬ C.con.prevId + 1 < P.pub.minSendId := hd.iff.mp hb0
    rw [e1]
    have hret : retOf [Recv.Out.req 0 C.con.prevId 0 (!s1.conn), Recv.Out.retNone] = none := rfl
    have haft : afterRecv proc st.tbl (idx + 1) C (c1, [Recv.Out.req 0 C.con.prevId 0 (!s1.conn), Recv.Out.retNone]) = { C with con := c1 } := by
      unfold afterRecv; rw [hret]
    rw [haft]
    refine ⟨{ cid := cidOf (idx + 1), uid := uidOf C.gen 0, mid := C.con.prevId, eph := 0, new := !s1.conn, body := 0 }, { C with con := c1 }, s1,
      ?_, rfl, rfl, rfl, hprev, hd.lt, rfl, rfl, hsrcs, hr1.idle.srcs, rfl, hc1, ?_, ?_, ?_⟩
    · intro x
      exact relay_lookupT (treeTopo par) st.nodes (idx + 1) C.gen u P _ _ _ hups (by omega) hd.nP hil (by simp [reqOf]) x
    · intro _; exact ⟨hp1, hp, hq1⟩
    · intro hc; exact absurd hc hnb
    · rw [if_neg hnb]; rfl
  · have hbh : C.con.prevId + 1 < P.pub.minSendId := by
      by_cases hc : C.con.prevId + 1 < P.pub.minSendId
      · exact hc
      · have := hd.iff.mpr hc; rw [this] at hb0; cases hb0
    rw [e1]
    have hret : retOf [Recv.Out.req 0 k 0 false, Recv.Out.ret k 0 (visData k ts)] = some (k, 0, visData k ts) := rfl
    have haft : afterRecv proc st.tbl (idx + 1) C (c1, [Recv.Out.req 0 k 0 false, Recv.Out.ret k 0 (visData k ts)]) =
        processed proc (idx + 1) { C with con := c1, sendState := some (k, 0), recvState := none } ((visData k ts).map (hframe st.tbl)) := by
      unfold afterRecv; rw [hret]
    rw [haft]
    have hkM : k < P.pub.minSendId := hd.ids (k, ts) (by rw [hb0]; exact List.mem_cons_self ..)
    refine ⟨{ cid := cidOf (idx + 1), uid := uidOf C.gen 0, mid := k, eph := 0, new := false, body := 0 },
      processed proc (idx + 1) { C with con := c1, sendState := some (k, 0), recvState := none } ((visData k ts).map (hframe st.tbl)), s1,
      ?_, rfl, rfl, rfl, by simp only; omega, hkM, by simp only [hc1]; rfl, rfl, hsrcs, hr1.idle.srcs, rfl, ?_, ?_, ?_, ?_⟩
    · intro x
      exact relay_lookupT (treeTopo par) st.nodes (idx + 1) C.gen u P _ _ _ hups (by omega) hd.nP hil (by simp [reqOf]) x
    · rw [hc1]
      cases hs : s.queue with
      | nil => exact absurd hs hqne
      | cons _ _ => simp
    · intro hc; exact absurd hbh hc
    · intro _
      exact ⟨by simp only [processed, hp1]; exact hk, by simp only [processed, hp1]; exact hkM, ⟨_, _, rfl⟩, hqne, hc1⟩
    · rw [if_pos hbh]
      simp only [recvObs, hret, retAt, ↓reduceIte, processed, hp1]

/-- `recv` of the idle source: `process()` is called, the result is held -/
theorem tree_rootrecv_shape (par : List Nat) (proc : Proc) (st : St) (nd0 : Node) (h0 : st.nodes[0]? = some nd0)
    (hsrc : nd0.con.srcs = []) (hp : nd0.pending = none) :
    ∀ x, (stepRecv (treeTopo par) proc st 0).1.nodes[x]? = if x = 0 then some (processed proc 0 nd0 []) else st.nodes[x]? := by
  have hsrc' : nd0.con.srcs.isEmpty = true := by rw [hsrc]; rfl
  have hst : (stepRecv (treeTopo par) proc st 0).1 = { st with nodes := st.nodes.set 0 (processed proc 0 nd0 []) } := by
    unfold stepRecv; simp only [h0, hp, Option.isSome_none, Bool.false_eq_true, ↓reduceIte, hsrc', recvSource]
  rw [hst]
  intro x
  exact set_get st.nodes 0 nd0 _ h0 x

/-- `send` of a leaf: what it holds is dropped at once, nothing else changes -/
theorem tree_leafsend_shape (par : List Nat) (st : St) (i : Nat) (hleaf : i ∉ par) (t : Int) (C : Node) (hC : st.nodes[i]? = some C) :
    ∀ x, (stepSend (treeTopo par) st i t).1.nodes[x]? = if x = i then some { C with pending := none } else st.nodes[x]? := by
  cases hpend : C.pending with
  | none =>
    have hst : (stepSend (treeTopo par) st i t).1 = st := by unfold stepSend; simp only [hC, hpend]
    rw [hst]
    intro x
    by_cases hx : x = i
    · subst hx; simp only [↓reduceIte, hC]
      congr 1; cases C; simp only at hpend; subst hpend; rfl
    · simp only [hx, ↓reduceIte]
  | some p =>
    have hout : (treeTopo par).hasOut i = false := by
      rw [tree_hasOut]
      cases hx : par.contains i with
      | false => rfl
      | true => exact absurd (by simpa using hx) hleaf
    have hreach : Loop.reachesSender ((treeTopo par).hasOut i) p.res = false := by
      rw [hout]; cases p.res <;> rfl
    have hst : (stepSend (treeTopo par) st i t).1 = { st with nodes := st.nodes.set i { C with pending := none } } := by
      unfold stepSend; simp only [hC, hpend, hreach, Bool.false_eq_true, ↓reduceIte, sendSkip]
    rw [hst]
    intro x
    exact set_get st.nodes i C _ hC x

theorem tree_hasOut_inner (par : List Nat) (u : Nat) (hu : u ∈ par) : (treeTopo par).hasOut u = true := by
  rw [tree_hasOut]; simpa using hu

/-- `send` of an inner node `u` holding the dict `p`: one `send0`; what it puts on the wire reaches every child -/
theorem tree_innersend_shape (par : List Nat) (hpar : ParOK par) (st : St) (u : Nat) (hu : u ∈ par) (nd : Node)
    (hn : st.nodes[u]? = some nd) (t : Int) (p : Pending) (hp : nd.pending = some p) (hdict : (dictOf p.res).isSome = true) :
    ∀ x, (stepSend (treeTopo par) st u t).1.nodes[x]? =
      if x = u then some (afterSend nd p (Send.send0 nd.pub nd.sendState (payloadOf st.tbl.length p.res) false [0] t))
      else if (treeTopo par).upsOf x = [u] then (st.nodes[x]?).map fun C =>
        { C with con := pushWires C.con [u] u ((Send.send0 nd.pub nd.sendState (payloadOf st.tbl.length p.res) false [0] t).2.filterMap (wireOf u)) }
      else st.nodes[x]? := by
  have hreach : Loop.reachesSender ((treeTopo par).hasOut u) p.res = true := by
    rw [reaches_of_dict _ _ hdict, tree_hasOut_inner par u hu]
  have hul : u < st.nodes.length := (List.getElem?_eq_some_iff.mp hn).1
  intro x
  unfold stepSend
  simp only [hn, hp, hreach, ↓reduceIte, sendReal]
  rw [send_lookupT par hpar st.nodes u _ _ hul x]

theorem upsOf_iff_paOf (par : List Nat) (x u : Nat) : (treeTopo par).upsOf x = [u] ↔ paOf par x = some u := by
  cases x with
  | zero => rw [tree_upsOf_zero]; simp [paOf]
  | succ idx => exact tree_ups_iff par idx u

/-- what is used of the data-plane invariant for the publisher side of an inner node -/
structure TPub (nd : Node) (q : List Send.Req) : Prop where
  idle : PubIdle nd.pub q
  reqs : ∀ r ∈ q, r.eph = 0 ∧ -1 ≤ r.mid ∧ r.mid < nd.pub.minSendId
  sid : nd.pending.isSome = true → nd.pub.minSendId ≤ sendId nd

theorem tree_pub_facts (proc : Proc) (par : List Nat) (X : LSt) (hg : GoodT proc par X) (ho : TreeOwn X.st) (u : Nat) (hu : u ∈ par)
    (nd : Node) (hn : X.st.nodes[u]? = some nd) : ∃ q, TPub nd q := by
  rcases (ho u nd hn).pub with ⟨q, hq, hqr⟩
  rcases hg.pubs u nd hn hu with ⟨pub, hpub, _⟩
  have hqm : q ∈ nd.pub.queues := by rw [hq.queues]; exact List.mem_singleton.mpr rfl
  refine ⟨q, hq, ?_, ?_⟩
  · intro r hr
    have h1 := hqr r hr
    have h2 := hpub.reqs q hqm r hr
    have h3 := hpub.minSend
    exact ⟨h1.1, h1.2, by omega⟩
  · intro hp
    cases hpend : nd.pending with
    | none => rw [hpend] at hp; cases hp
    | some p => exact (tree_send_outcome proc par X hg u nd p 0 hn hpend hu).2.1

/-- **one `send` of an inner node holding a dict**, in terms of the fold `f` over its request queue `q`: the set is published
(`min_send_id` moves past the id of the call, every flag down, the block reaches the wire, nothing held any more), or the call
times out (the table is what the drain left, the result is still held, HELLO goes out if `do_hello` was raised) -/
theorem tree_send_fold (proc : Proc) (par : List Nat) (X : LSt) (hg : GoodT proc par X) (u : Nat) (hu : u ∈ par) (nd : Node)
    (hn : X.st.nodes[u]? = some nd) (t : Int) (p : Pending) (hp : nd.pending = some p) (hdict : (dictOf p.res).isSome = true)
    (q : List Send.Req) (hq : TPub nd q) :
    PubIdle (Send.send0 nd.pub nd.sendState (payloadOf X.st.tbl.length p.res) false [0] t).1 [] ∧
    (((q.foldl (hstep t) (nd.pub.clients, false, false)).2.1 = true ∧ (q.foldl (hstep t) (nd.pub.clients, false, false)).1 ≠ [] ∧
      nd.pub.minSendId < (Send.send0 nd.pub nd.sendState (payloadOf X.st.tbl.length p.res) false [0] t).1.minSendId ∧
      (Send.send0 nd.pub nd.sendState (payloadOf X.st.tbl.length p.res) false [0] t).1.clients =
        clearReq (q.foldl (hstep t) (nd.pub.clients, false, false)).1 ∧
      (afterSend nd p (Send.send0 nd.pub nd.sendState (payloadOf X.st.tbl.length p.res) false [0] t)).pending = none ∧
      (Send.send0 nd.pub nd.sendState (payloadOf X.st.tbl.length p.res) false [0] t).2.filterMap (wireOf u) ≠ []) ∨
     (¬ ((q.foldl (hstep t) (nd.pub.clients, false, false)).2.1 = true ∧ (q.foldl (hstep t) (nd.pub.clients, false, false)).1 ≠ []) ∧
      (Send.send0 nd.pub nd.sendState (payloadOf X.st.tbl.length p.res) false [0] t).1.minSendId = nd.pub.minSendId ∧
      (Send.send0 nd.pub nd.sendState (payloadOf X.st.tbl.length p.res) false [0] t).1.clients =
        (q.foldl (hstep t) (nd.pub.clients, false, false)).1 ∧
      (afterSend nd p (Send.send0 nd.pub nd.sendState (payloadOf X.st.tbl.length p.res) false [0] t)).pending = some p ∧
      ((q.foldl (hstep t) (nd.pub.clients, false, false)).2.2 = true →
        (Send.send0 nd.pub nd.sendState (payloadOf X.st.tbl.length p.res) false [0] t).2.filterMap (wireOf u) ≠ []))) := by
  obtain ⟨d, hdd⟩ : ∃ d, dictOf p.res = some d := by
    cases hx : dictOf p.res with
    | none => rw [hx] at hdict; cases hdict
    | some d => exact ⟨d, rfl⟩
  have hout := tree_send_outcome proc par X hg u nd p t hn hp hu
  have hpay : payloadOf X.st.tbl.length p.res = .deferred (some (relabel X.st.tbl.length d)) := by
    rw [payloadOf_eq, hdd]; rfl
  rw [hpay] at hout ⊢
  have hsid : nd.pub.minSendId ≤ sendId nd := hout.2.1
  have hk : nd.pub.minSendId ≤ (callKey nd.pub nd.sendState).1 := by rw [callKey_sendId]; exact hsid
  have hlow : ∀ r ∈ q, ReqLow (callKey nd.pub nd.sendState).1 r := by
    intro r hr
    have := hq.reqs r hr
    rw [callKey_sendId]
    exact ⟨this.2.1, by omega⟩
  have hf := send0_fold_gen u nd.pub q nd.sendState (relabel X.st.tbl.length d) t hq.idle hk hlow
  rw [callKey_sendId] at hf
  generalize Send.send0 nd.pub nd.sendState (.deferred (some (relabel X.st.tbl.length d))) false [0] t = R at hf hout ⊢
  generalize q.foldl (hstep t) (nd.pub.clients, false, false) = f at hf ⊢
  refine ⟨hf.1, ?_⟩
  rcases hout with ⟨hs0, _, hcase⟩
  by_cases hc : f.2.1 = true ∧ f.1 ≠ []
  · have h2 := hf.2
    rw [if_pos hc] at h2
    left
    rcases hcase with ⟨m1, _, _⟩ | ⟨m0, _, _⟩ | ⟨d', _, _, m1, m2, m4⟩
    · rw [h2.1] at m1; omega
    · rw [hdd] at m0; cases m0
    · refine ⟨hc.1, hc.2, by rw [h2.1]; omega, h2.2, ?_, ?_⟩
      · rw [afterSend_pending, m2]
      · rw [m4]; simp [blockWires]
  · have h2 := hf.2
    rw [if_neg hc] at h2
    right
    rcases hcase with ⟨m1, m2, _⟩ | ⟨m0, _, _⟩ | ⟨d', _, _, m1, _⟩
    · refine ⟨hc, h2.1, h2.2.1, ?_, ?_⟩
      · rw [afterSend_pending, m2]; exact hp
      · intro hh
        have := h2.2.2 hh
        intro he
        rw [he] at this; cases this
    · rw [hdd] at m0; cases m0
    · rw [h2.1] at m1; omega


/-! ## control plane: whom a node serves -/

/-- node `u` between two calls: every queued request and every table entry belongs to a CHILD of `u` (first incarnation), table
keys distinct; an inner node holds a dict -/
structure TNodeKeys (par : List Nat) (u : Nat) (nd : Node) : Prop where
  reqs : ∀ q ∈ nd.pub.queues, ∀ r ∈ q, ∃ j, paOf par j = some u ∧ Pair.fidOf r = fidC j
  clients : ∀ x ∈ nd.pub.clients, x.2.eph = 0 ∧ ∃ j, paOf par j = some u ∧ x.1 = fidC j
  knd : KeysND nd.pub.clients
  dict : u ∈ par → ∀ p, nd.pending = some p → (dictOf p.res).isSome = true

def TreeKeys (par : List Nat) (st : St) : Prop := ∀ (u : Nat) (nd : Node), st.nodes[u]? = some nd → TNodeKeys par u nd

theorem tnodeKeys_congr (par : List Nat) (u : Nat) (nd nd' : Node) (hp : nd'.pub = nd.pub) (hpe : nd'.pending = nd.pending)
    (h : TNodeKeys par u nd) : TNodeKeys par u nd' := by
  rcases h with ⟨h1, h2, h3, h4⟩
  exact ⟨by rw [hp]; exact h1, by rw [hp]; exact h2, by rw [hp]; exact h3, by rw [hpe]; exact h4⟩

theorem treeKeys_init (par : List Nat) : TreeKeys par (init (treeTopo par)) := by
  intro u nd hnd
  have ⟨_, e⟩ := init_get _ _ _ hnd
  subst e
  refine ⟨?_, (by intro x hx; cases hx), List.nodup_nil, (by intro _ p hp; cases hp)⟩
  intro q hq r hr
  simp only [freshNode, Send.mkSt, List.replicate, List.mem_singleton] at hq
  subst hq; cases hr

theorem treeKeys_step (par : List Nat) (hpar : ParOK par) (proc : Proc) (hf : FwdTree par proc) (X : LSt) (hg : GoodT proc par X)
    (ho : TreeOwn X.st) (h : TreeKeys par X.st) (e : Ev) (hne : isRestart e = false) :
    TreeKeys par (step (treeTopo par) proc X.st e).1 := by
  cases e with
  | restart i g => cases hne
  | nodeRecv i =>
    show TreeKeys par (stepRecv (treeTopo par) proc X.st i).1
    cases hC : X.st.nodes[i]? with
    | none =>
      have : (stepRecv (treeTopo par) proc X.st i).1 = X.st := by unfold stepRecv; simp only [hC]
      rw [this]; exact h
    | some C =>
      cases hpend : C.pending with
      | some p =>
        have : (stepRecv (treeTopo par) proc X.st i).1 = X.st := by
          unfold stepRecv; simp only [hC, hpend, Option.isSome_some, ↓reduceIte]
        rw [this]; exact h
      | none =>
        cases hsrc : C.con.srcs.isEmpty with
        | true =>
          have hst : (stepRecv (treeTopo par) proc X.st i).1 = { X.st with nodes := X.st.nodes.set i (processed proc i C []) } := by
            unfold stepRecv; simp only [hC, hpend, Option.isSome_none, Bool.false_eq_true, ↓reduceIte, hsrc, recvSource]
          rw [hst]
          intro x nd hnd
          simp only at hnd
          rw [set_get _ _ _ _ hC] at hnd
          by_cases hx : x = i
          · simp only [hx, ↓reduceIte, Option.some.injEq] at hnd
            subst hnd; subst hx
            have hk := h x C hC
            refine ⟨hk.reqs, hk.clients, hk.knd, ?_⟩
            intro hin p hp
            simp only [processed, Option.some.injEq] at hp
            rw [← hp]; exact hf x hin _ _
          · simp only [hx, ↓reduceIte] at hnd
            exact h x nd hnd
        | false =>
          have hiL : i < par.length + 1 := by rw [← hg.len]; exact (List.getElem?_eq_some_iff.mp hC).1
          have hi0 : i ≠ 0 := by
            intro h0; subst h0
            rw [((hg.node 0 C hC).src rfl).1] at hsrc; cases hsrc
          obtain ⟨idx, rfl⟩ : ∃ idx, i = idx + 1 := ⟨i - 1, by omega⟩
          have hidx : idx < par.length := by omega
          have hpu : par[idx]? = some par[idx] := List.getElem?_eq_getElem hidx
          generalize par[idx] = u at hpu
          rcases tree_edge_facts proc par X hg idx u hpu hpar with ⟨P, C0, s, bsW, hd⟩
          have : C0 = C := by have := hd.nC; rw [hC] at this; exact (Option.some.inj this).symm
          subst this
          obtain ⟨rq, C', s', hsh, r1, r2, _, _, _, _, g1, _, _, g3, _, hcaught, hbehind, _⟩ :=
            tree_recv_shape2 par hpar proc X.st idx u hpu P C0 s bsW hd hpend
          have hgen := (ho (idx + 1) C0 hC).gen
          have hkey : Pair.fidOf rq = fidC (idx + 1) := by simp only [Pair.fidOf, fidC, r1, r2, hgen]
          intro x nd hnd
          rw [hsh x] at hnd
          by_cases hxu : x = u
          · simp only [hxu, ↓reduceIte, Option.some.injEq] at hnd
            subst hnd; subst hxu
            have hk := h x P hd.nP
            refine ⟨?_, hk.clients, hk.knd, hk.dict⟩
            intro q' hq' r hr
            rcases pushReqs_mem P.pub [rq] q' hq' with ⟨q0, hq0, rfl⟩
            rcases List.mem_append.mp hr with hr | hr
            · exact hk.reqs q0 hq0 r hr
            · simp only [List.mem_singleton] at hr
              subst hr
              exact ⟨idx + 1, hpu, hkey⟩
          · simp only [hxu, ↓reduceIte] at hnd
            by_cases hxi : x = idx + 1
            · simp only [hxi, ↓reduceIte, Option.some.injEq] at hnd
              subst hnd; subst hxi
              have hk := h (idx + 1) C0 hC
              refine ⟨by rw [g3]; exact hk.reqs, by rw [g3]; exact hk.clients, by rw [g3]; exact hk.knd, ?_⟩
              intro hin p hp
              by_cases hbh : C0.con.prevId + 1 < P.pub.minSendId
              · rcases (hbehind hbh).2.2.1 with ⟨hh, o, hpe⟩
                rw [hpe] at hp
                simp only [Option.some.injEq] at hp
                rw [← hp]; exact hf (idx + 1) hin _ _
              · rw [(hcaught hbh).2.1] at hp; cases hp
            · simp only [hxi, ↓reduceIte] at hnd
              exact h x nd hnd
  | nodeSend i t =>
    show TreeKeys par (stepSend (treeTopo par) X.st i t).1
    cases hC : X.st.nodes[i]? with
    | none =>
      have : (stepSend (treeTopo par) X.st i t).1 = X.st := by unfold stepSend; simp only [hC]
      rw [this]; exact h
    | some C =>
      cases hpend : C.pending with
      | none =>
        have : (stepSend (treeTopo par) X.st i t).1 = X.st := by unfold stepSend; simp only [hC, hpend]
        rw [this]; exact h
      | some p =>
        by_cases hin : i ∈ par
        · have hk := h i C hC
          have hdict := hk.dict hin p hpend
          have hsh := tree_innersend_shape par hpar X.st i hin C hC t p hpend hdict
          rcases tree_pub_facts proc par X hg ho i hin C hC with ⟨q, hq⟩
          have hout := tree_send_fold proc par X hg i hin C hC t p hpend hdict q hq
          generalize Send.send0 C.pub C.sendState (payloadOf X.st.tbl.length p.res) false [0] t = R at hsh hout
          have hqm : q ∈ C.pub.queues := by rw [hq.idle.queues]; exact List.mem_singleton.mpr rfl
          have hfold : ∀ x ∈ (q.foldl (hstep t) (C.pub.clients, false, false)).1, x.2.eph = 0 ∧ ∃ j, paOf par j = some i ∧ x.1 = fidC j := by
            intro x hx
            rcases fold_prov t q _ x hx with ⟨h1, _⟩ | ⟨r, hr, h1, h2⟩
            · exact hk.clients x h1
            · rcases hk.reqs q hqm r hr with ⟨j, a2, a4⟩
              exact ⟨by rw [h2]; exact (hq.reqs r hr).1, j, a2, by rw [← h1]; exact a4⟩
          have hknd := fold_keysND t q (C.pub.clients, false, false) hk.knd
          intro x nd hnd
          rw [hsh x] at hnd
          by_cases hxi : x = i
          · simp only [hxi, ↓reduceIte, Option.some.injEq] at hnd
            subst hnd; subst hxi
            refine ⟨?_, ?_, ?_, ?_⟩
            · intro q' hq' r hr
              rw [afterSend_pub, hout.1.queues] at hq'
              simp only [List.mem_singleton] at hq'
              subst hq'; cases hr
            · intro y hy
              rw [afterSend_pub] at hy
              rcases hout.2 with ⟨_, _, _, e2, _⟩ | ⟨_, _, e2, _⟩
              · rw [e2] at hy
                rcases clearReq_mem _ y hy with ⟨z, hz, k1, k2, _⟩
                have := hfold z hz
                rw [k1, k2]; exact this
              · rw [e2] at hy; exact hfold y hy
            · rw [afterSend_pub]
              rcases hout.2 with ⟨_, _, _, e2, _⟩ | ⟨_, _, e2, _⟩
              · rw [e2]; exact clearReq_keysND _ hknd
              · rw [e2]; exact hknd
            · intro _ p' hp'
              rcases hout.2 with ⟨_, _, _, _, e3, _⟩ | ⟨_, _, _, e3, _⟩
              · rw [e3] at hp'; cases hp'
              · rw [e3] at hp'; cases hp'
                exact hdict
          · simp only [hxi, ↓reduceIte] at hnd
            by_cases hxu : (treeTopo par).upsOf x = [i]
            · simp only [hxu, ↓reduceIte] at hnd
              cases hxx : X.st.nodes[x]? with
              | none => rw [hxx] at hnd; cases hnd
              | some C2 =>
                rw [hxx] at hnd
                simp only [Option.map_some, Option.some.injEq] at hnd
                subst hnd
                exact tnodeKeys_congr par x C2 _ rfl rfl (h x C2 hxx)
            · simp only [hxu, ↓reduceIte] at hnd
              exact h x nd hnd
        · have hsh := tree_leafsend_shape par X.st i hin t C hC
          intro x nd hnd
          rw [hsh x] at hnd
          by_cases hx : x = i
          · simp only [hx, ↓reduceIte, Option.some.injEq] at hnd
            subst hnd; subst hx
            have hk := h x C hC
            exact ⟨hk.reqs, hk.clients, hk.knd, fun hc => absurd hc hin⟩
          · simp only [hx, ↓reduceIte] at hnd
            exact h x nd hnd

/-! ## control plane: who is tracked has heard -/

/-- every consumer a node tracks, and every consumer that has a request queued that does not say `new`, has heard from that node
(its parent) -/
def TreeHeard (st : St) : Prop :=
  ∀ (u : Nat) (nd : Node), st.nodes[u]? = some nd → ∀ j : Nat,
    (∀ x ∈ nd.pub.clients, x.1 = fidC j → heardAt st j = true) ∧
    (∀ q ∈ nd.pub.queues, ∀ r ∈ q, Pair.fidOf r = fidC j → r.new = false → heardAt st j = true)

theorem treeHeard_init (par : List Nat) : TreeHeard (init (treeTopo par)) := by
  intro u nd hnd j
  have ⟨_, e⟩ := init_get _ _ _ hnd
  subst e
  refine ⟨(by intro x hx; cases hx), ?_⟩
  intro q hq r hr
  simp only [freshNode, Send.mkSt, List.replicate, List.mem_singleton] at hq
  subst hq; cases hr

/-- if what is heard only grows and a node's sender is untouched, the node's part of `TreeHeard` is kept -/
theorem treeHeard_keep (st st' : St) (hmono : ∀ j, heardAt st j = true → heardAt st' j = true) (u : Nat) (nd nd' : Node)
    (hn : st.nodes[u]? = some nd) (hp : nd'.pub = nd.pub) (h : TreeHeard st) (j : Nat) :
    (∀ x ∈ nd'.pub.clients, x.1 = fidC j → heardAt st' j = true) ∧
    (∀ q ∈ nd'.pub.queues, ∀ r ∈ q, Pair.fidOf r = fidC j → r.new = false → heardAt st' j = true) := by
  rw [hp]
  have := h u nd hn j
  exact ⟨fun x hx hk => hmono j (this.1 x hx hk), fun q hq r hr hk hn' => hmono j (this.2 q hq r hr hk hn')⟩

theorem treeHeard_step (par : List Nat) (hpar : ParOK par) (proc : Proc) (X : LSt) (hg : GoodT proc par X)
    (ho : TreeOwn X.st) (hkeys : TreeKeys par X.st) (h : TreeHeard X.st) (e : Ev) (hne : isRestart e = false) :
    TreeHeard (step (treeTopo par) proc X.st e).1 := by
  cases e with
  | restart i g => cases hne
  | nodeRecv i =>
    show TreeHeard (stepRecv (treeTopo par) proc X.st i).1
    cases hC : X.st.nodes[i]? with
    | none =>
      have : (stepRecv (treeTopo par) proc X.st i).1 = X.st := by unfold stepRecv; simp only [hC]
      rw [this]; exact h
    | some C =>
      cases hpend : C.pending with
      | some p =>
        have : (stepRecv (treeTopo par) proc X.st i).1 = X.st := by
          unfold stepRecv; simp only [hC, hpend, Option.isSome_some, ↓reduceIte]
        rw [this]; exact h
      | none =>
        cases hsrc : C.con.srcs.isEmpty with
        | true =>
          have hst : (stepRecv (treeTopo par) proc X.st i).1 = { X.st with nodes := X.st.nodes.set i (processed proc i C []) } := by
            unfold stepRecv; simp only [hC, hpend, Option.isSome_none, Bool.false_eq_true, ↓reduceIte, hsrc, recvSource]
          rw [hst]
          generalize hst' : ({ X.st with nodes := X.st.nodes.set i (processed proc i C []) } : St) = st'
          have hget : ∀ x, st'.nodes[x]? = if x = i then some (processed proc i C []) else X.st.nodes[x]? := by
            intro x; rw [← hst']; exact set_get _ _ _ _ hC x
          have hmono : ∀ j, heardAt X.st j = true → heardAt st' j = true := by
            intro j hj
            by_cases hji : j = i
            · subst hji
              rw [heardAt_congr_con X.st st' j C (processed proc j C []) hC (by rw [hget j]; simp) rfl]; exact hj
            · rw [heardAt_congr X.st st' j (by rw [hget j]; simp only [hji, ↓reduceIte])]; exact hj
          intro x nd hnd j
          rw [hget x] at hnd
          by_cases hx : x = i
          · simp only [hx, ↓reduceIte, Option.some.injEq] at hnd
            subst hnd; subst hx
            exact treeHeard_keep X.st st' hmono x C _ hC rfl h j
          · simp only [hx, ↓reduceIte] at hnd
            exact treeHeard_keep X.st st' hmono x nd nd hnd rfl h j
        | false =>
          have hiL : i < par.length + 1 := by rw [← hg.len]; exact (List.getElem?_eq_some_iff.mp hC).1
          have hi0 : i ≠ 0 := by
            intro h0; subst h0
            rw [((hg.node 0 C hC).src rfl).1] at hsrc; cases hsrc
          obtain ⟨idx, rfl⟩ : ∃ idx, i = idx + 1 := ⟨i - 1, by omega⟩
          have hidx : idx < par.length := by omega
          have hpu : par[idx]? = some par[idx] := List.getElem?_eq_getElem hidx
          generalize par[idx] = u at hpu
          have hule : u ≤ idx := hpar idx u hpu
          rcases tree_edge_facts proc par X hg idx u hpu hpar with ⟨P, C0, s, bsW, hd⟩
          have : C0 = C := by have := hd.nC; rw [hC] at this; exact (Option.some.inj this).symm
          subst this
          obtain ⟨rq, C', s', hsh, r1, r2, _, _, _, r6, g1, hs1, hs2, g3, hconn, _, _⟩ :=
            tree_recv_shape2 par hpar proc X.st idx u hpu P C0 s bsW hd hpend
          generalize (stepRecv (treeTopo par) proc X.st (idx + 1)).1 = st' at hsh
          have hgen := (ho (idx + 1) C0 hC).gen
          have hkey : Pair.fidOf rq = fidC (idx + 1) := by simp only [Pair.fidOf, fidC, r1, r2, hgen]
          have hu' : st'.nodes[u]? = some { P with pub := pushReqs P.pub [rq] } := by rw [hsh u]; simp
          have hi' : st'.nodes[idx + 1]? = some C' := by
            rw [hsh (idx + 1)]
            have : ¬ idx + 1 = u := by omega
            simp only [this, ↓reduceIte]
          have hmono : ∀ j, heardAt X.st j = true → heardAt st' j = true := by
            intro j hj
            by_cases hji : j = idx + 1
            · subst hji
              rw [heardAt_single st' (idx + 1) C' s' hi' hs2, hconn]
              rw [heardAt_single X.st (idx + 1) C0 s hC hs1] at hj
              rw [hj]; rfl
            · by_cases hju : j = u
              · subst hju
                rw [heardAt_congr_con X.st st' j P _ hd.nP hu' rfl]; exact hj
              · rw [heardAt_congr X.st st' j (by rw [hsh j]; simp only [hju, hji, ↓reduceIte])]; exact hj
          intro x nd hnd j
          rw [hsh x] at hnd
          by_cases hxu : x = u
          · simp only [hxu, ↓reduceIte, Option.some.injEq] at hnd
            subst hnd; subst hxu
            have hh := h x P hd.nP j
            refine ⟨fun y hy hk => hmono j (hh.1 y hy hk), ?_⟩
            intro q' hq' r hr hk hnew
            rcases pushReqs_mem P.pub [rq] q' hq' with ⟨q0, hq0, rfl⟩
            rcases List.mem_append.mp hr with hr | hr
            · exact hmono j (hh.2 q0 hq0 r hr hk hnew)
            · simp only [List.mem_singleton] at hr
              subst hr
              have : idx + 1 = j := fidC_inj (idx + 1) j (by rw [← hkey, hk])
              subst this
              rw [heardAt_single st' (idx + 1) C' s' hi' hs2]
              rw [r6] at hnew
              simpa using hnew
          · simp only [hxu, ↓reduceIte] at hnd
            by_cases hxi : x = idx + 1
            · simp only [hxi, ↓reduceIte, Option.some.injEq] at hnd
              subst hnd; subst hxi
              exact treeHeard_keep X.st st' hmono (idx + 1) C0 _ hC g3 h j
            · simp only [hxi, ↓reduceIte] at hnd
              exact treeHeard_keep X.st st' hmono x nd nd hnd rfl h j
  | nodeSend i t =>
    show TreeHeard (stepSend (treeTopo par) X.st i t).1
    cases hC : X.st.nodes[i]? with
    | none =>
      have : (stepSend (treeTopo par) X.st i t).1 = X.st := by unfold stepSend; simp only [hC]
      rw [this]; exact h
    | some C =>
      cases hpend : C.pending with
      | none =>
        have : (stepSend (treeTopo par) X.st i t).1 = X.st := by unfold stepSend; simp only [hC, hpend]
        rw [this]; exact h
      | some p =>
        by_cases hin : i ∈ par
        · have hk := hkeys i C hC
          have hdict := hk.dict hin p hpend
          have hsh := tree_innersend_shape par hpar X.st i hin C hC t p hpend hdict
          rcases tree_pub_facts proc par X hg ho i hin C hC with ⟨q, hq⟩
          have hout := tree_send_fold proc par X hg i hin C hC t p hpend hdict q hq
          generalize (stepSend (treeTopo par) X.st i t).1 = st' at hsh
          generalize Send.send0 C.pub C.sendState (payloadOf X.st.tbl.length p.res) false [0] t = R at hsh hout
          have hqm : q ∈ C.pub.queues := by rw [hq.idle.queues]; exact List.mem_singleton.mpr rfl
          have hi' : st'.nodes[i]? = some (afterSend C p R) := by rw [hsh i]; simp
          have hcon : (afterSend C p R).con = C.con := by unfold afterSend; split <;> rfl
          have hmono : ∀ j, heardAt X.st j = true → heardAt st' j = true := by
            intro j hj
            by_cases hji : j = i
            · subst hji
              rw [heardAt_congr_con X.st st' j C _ hC hi' hcon]; exact hj
            · by_cases hju : (treeTopo par).upsOf j = [i]
              · -- a child: only its queue grows
                obtain ⟨idx, rfl⟩ : ∃ idx, j = idx + 1 := by
                  cases j with
                  | zero => rw [tree_upsOf_zero] at hju; cases hju
                  | succ n => exact ⟨n, rfl⟩
                have hpu : par[idx]? = some i := (tree_ups_iff par idx i).mp hju
                rcases tree_edge_facts proc par X hg idx i hpu hpar with ⟨_, Cj, s, _, hd⟩
                have hj' : st'.nodes[idx + 1]? = some { Cj with con := pushWires Cj.con [i] i (R.2.filterMap (wireOf i)) } := by
                  rw [hsh (idx + 1)]; simp only [hji, ↓reduceIte, hju, hd.nC, Option.map_some]
                rw [pushWires_single Cj.con s i _ hd.rest.idle.srcs] at hj'
                rw [heardAt_single st' (idx + 1) _ _ hj' rfl]
                rw [heardAt_single X.st (idx + 1) Cj s hd.nC hd.rest.idle.srcs] at hj
                exact hj
              · rw [heardAt_congr X.st st' j (by rw [hsh j]; simp only [hji, hju, ↓reduceIte])]; exact hj
          intro x nd hnd j
          rw [hsh x] at hnd
          by_cases hxi : x = i
          · simp only [hxi, ↓reduceIte, Option.some.injEq] at hnd
            subst hnd; subst hxi
            have hh := h x C hC j
            refine ⟨?_, ?_⟩
            · intro y hy hky
              rw [afterSend_pub] at hy
              have hz : ∃ z ∈ (q.foldl (hstep t) (C.pub.clients, false, false)).1, z.1 = y.1 := by
                rcases hout.2 with ⟨_, _, _, e2, _⟩ | ⟨_, _, e2, _⟩
                · rw [e2] at hy
                  rcases clearReq_mem _ y hy with ⟨z, hz, k1, _⟩
                  exact ⟨z, hz, k1.symm⟩
                · rw [e2] at hy; exact ⟨y, hy, rfl⟩
              rcases hz with ⟨z, hz, hzk⟩
              apply hmono j
              rcases fold_keys t q _ z hz with ⟨w, hw, hwk⟩ | ⟨r, hr, hrk, hrn⟩
              · exact hh.1 w hw (by rw [hwk, hzk, hky])
              · exact hh.2 q hqm r hr (by rw [hrk, hzk, hky]) hrn
            · intro q' hq' r hr
              rw [afterSend_pub, hout.1.queues] at hq'
              simp only [List.mem_singleton] at hq'
              subst hq'; cases hr
          · simp only [hxi, ↓reduceIte] at hnd
            by_cases hxu : (treeTopo par).upsOf x = [i]
            · simp only [hxu, ↓reduceIte] at hnd
              cases hxx : X.st.nodes[x]? with
              | none => rw [hxx] at hnd; cases hnd
              | some C2 =>
                rw [hxx] at hnd
                simp only [Option.map_some, Option.some.injEq] at hnd
                subst hnd
                exact treeHeard_keep X.st st' hmono x C2 _ hxx rfl h j
            · simp only [hxu, ↓reduceIte] at hnd
              exact treeHeard_keep X.st st' hmono x nd nd hnd rfl h j
        · have hsh := tree_leafsend_shape par X.st i hin t C hC
          generalize (stepSend (treeTopo par) X.st i t).1 = st' at hsh
          have hmono : ∀ j, heardAt X.st j = true → heardAt st' j = true := by
            intro j hj
            by_cases hji : j = i
            · subst hji
              rw [heardAt_congr_con X.st st' j C { C with pending := none } hC (by rw [hsh j]; simp) rfl]; exact hj
            · rw [heardAt_congr X.st st' j (by rw [hsh j]; simp only [hji, ↓reduceIte])]; exact hj
          intro x nd hnd j
          rw [hsh x] at hnd
          by_cases hx : x = i
          · simp only [hx, ↓reduceIte, Option.some.injEq] at hnd
            subst hnd; subst hx
            exact treeHeard_keep X.st st' hmono x C _ hC rfl h j
          · simp only [hx, ↓reduceIte] at hnd
            exact treeHeard_keep X.st st' hmono x nd nd hnd rfl h j

/-- **all invariants in every state reachable without restarts** -/
theorem tree_inv3 (par : List Nat) (hpar : ParOK par) (proc : Proc) (hp : ProcNames proc) (hf : FwdTree par proc) (st : St)
    (hr : ReachNR (treeTopo par) proc st) :
    TreeOwn st ∧ TreeKeys par st ∧ TreeHeard st ∧ ∃ X : LSt, X.st = st ∧ GoodT proc par X := by
  have hbase := fun st' (hr' : ReachNR (treeTopo par) proc st') => tree_inv par hpar proc hp st' hr'
  have hkeys : ∀ st', ReachNR (treeTopo par) proc st' → TreeKeys par st' := by
    intro st' hr'
    induction hr' with
    | init => exact treeKeys_init par
    | step e hne hr'' ih =>
      rcases hbase _ hr'' with ⟨ho, X, hX, hg⟩
      subst hX
      exact treeKeys_step par hpar proc hf X hg ho ih e hne
  refine ⟨(hbase st hr).1, hkeys st hr, ?_, (hbase st hr).2⟩
  induction hr with
  | init => exact treeHeard_init par
  | step e hne hr' ih =>
    rcases hbase _ hr' with ⟨ho, X, hX, hg⟩
    subst hX
    exact treeHeard_step par hpar proc X hg ho (hkeys _ hr') ih e hne

end OF.Net
