import OFProps.JoinEphCall
/-!
# C05 / C03 stage A1 — a join with EPHEMERAL side sources: they never change or hold up the synchronised stream

Setting (`sp : List ESpec`): a non-balanced receiver with any number of SYNCHRONISED sources (`eph = 0`) and any number of
EPHEMERAL ones (`addr?`: `eph = 1`, `addr??`: `eph = 2`), every subscription form that `C03_join_complete_multi` covers (all
topics, `*`, explicit / remapped subsets with prefix-matched foreign topics blanked).  Synchronised sources are fed by in-order
complete multi-topic block streams (`MStream`, strictly increasing ids).  The network delivers every stream in FIFO order at
arbitrary times; receiver events (`take`, `check`, `request`, `timeout`, `begin none`) are ARBITRARY - every poll order, every
placement of timed-out calls, deliveries in the middle of a block, internal id counter (`state = None`).

* `C05_join_eph_sync_unchanged` - **whatever the ephemeral sources deliver** (their streams are arbitrary lists of wire messages:
  well-formed blocks, partial blocks, stale or repeated ids, CLOSE / OOB / HELLO): every returned id is common to the synchronised
  sources, every returned set holds, for every synchronised source, exactly the subscribed topics of that source's block of the
  returned id (`PartOK`), and every common id below the frontier has been returned.  This is the conclusion of
  `C03_join_complete_multi` for the synchronised part.
* `C05_join_eph_ids_exact`, `C05_join_eph_sync_parts_exact`, `C05_join_eph_same_as_without` - the equality form: the returned ids
  are exactly the ascending common ids between the starting frontier and the final one, and the synchronised part of the set
  returned for an id is a function of the specification and the id alone (`specPart`).  Hence two runs over the same synchronised
  streams - e.g. the same schedule with the ephemeral deliveries REMOVED - return prefix-related sequences of (id, synchronised
  part): an ephemeral source can change WHEN a set is returned (a partly delivered ephemeral block postpones the return: by
  design, `got_any_partial`), never WHICH id comes next nor what the synchronised sources contribute to it.
* `C05_join_eph_blocks_complete` - ephemeral sources fed by complete block streams with STRICTLY increasing ids (first version:
  the weakest well-formedness under which "no block twice" is true - with a repeated id the receiver does return the block
  again; lower ids would be dropped), subscribed to at least one announced topic: every ephemeral contribution to a returned
  set is exactly the subscribed ∩ announced topics of ONE block of that source (never a partial block, never two blocks mixed),
  and per ephemeral source the block ids of successive contributions strictly increase (in order, no block twice).
* `C05_join_eph_no_holdup` - whole `recv(None, timeout=0)` calls (`Recv.call0`, any poll order naming every source) interleaved
  with deliveries in any way: if no ephemeral source has a subscribed topic of a partly delivered block in flight (`EBoundary`:
  the delivered prefix of its stream ends at a block boundary, or only blank messages of the last delivered block - its late
  heartbeat - are missing, whether or not that block was returned already) and every synchronised source has delivered its
  complete block of a common id at or above the frontier, then the next call RETURNS (a set, or the duplicate-topic
  configuration error) - it does not time out.  This is the statement a phantom "partial" report for a late heartbeat breaks.
  `C05_join_eph_no_holdup_set`: with pairwise distinct destination names (`NamesNodup`) what it returns is a set.
  `C05_join_eph_calls`: the first three statements for interleavings of deliveries and whole calls (`crun`).
That with the SAME schedule the run with the ephemeral deliveries is never AHEAD of the run without them is proved in
`C05JoinEphAhead.lean` (`C05_join_eph_never_ahead`).  NOT proved: ephemeral streams with repeated ids or restarts (CLOSE); ephemeral subscriptions that share
no topic with the publisher (`EphOK.keysNe`); balanced receivers; `recv(state)` jumps.  Liveness beyond one call is not claimed.
Helpers: `JoinEphGen.lean` (invariant scheme, effect of a take), `JoinEphSync.lean` (`SInv`), `JoinEphInv.lean` (`EphInv`),
`JoinEphRun.lean`, `JoinEphCall.lean` (calls, fuel, `CInv`).
-/
namespace OF.Recv

/-! ## 1. the synchronised stream, whatever the ephemeral sources deliver -/

/-- **C05 / C03 A1 (the synchronised stream of a join is what it is without the ephemeral sources)**: `sp` describes the
sources; the SYNCHRONISED ones are fed by complete in-order block streams (`SInv`: `MStream` + the two modes of
`C03_join_complete_multi`), the EPHEMERAL ones are unconstrained - arbitrary queued and undelivered wire messages.  Under every
admissible schedule: (S0) every returned set is the concatenation of one part per source in which the part of every synchronised
source is one frame per subscribed topic of that source's block of the returned id; (S1) every returned id was published by
every synchronised source; (S2) every id published by every synchronised source that lies below the frontier has been returned. -/
theorem C05_join_eph_sync_unchanged (sp : List ESpec) (hsp : SyncOK sp) (n0 : NSt) (h0 : SInv sp n0)
    (evs : List NEv) (hadm : ∀ e ∈ evs, NAdm e) :
    let r := nrun n0 evs
    (∀ id bal data, Out.ret id bal data ∈ r.2 → ECommon sp id ∧ ERetOK sp id data) ∧
    (∀ id ∈ retIds r.2, ECommon sp id) ∧
    (r.1.st.dead = false → ∀ c, ECommon sp c → expected n0.st ≤ c → c < expected r.1.st → c ∈ retIds r.2) := by
  have := erunOK_run sp hsp n0 h0 evs hadm
  refine ⟨?_, fun id hid => (this.2.2.1 id hid).1, fun hd => (this.2.2.2.2 hd).2.2⟩
  intro id bal data hmem
  exact ⟨(this.2.2.1 id (mem_retIds _ _ _ _ hmem)).1, this.2.1 id bal data hmem⟩

/-- **the returned ids are exactly the ascending common ids between the two frontiers** -/
theorem C05_join_eph_ids_exact (sp : List ESpec) (hsp : SyncOK sp) (n0 : NSt) (h0 : SInv sp n0)
    (evs : List NEv) (hadm : ∀ e ∈ evs, NAdm e) :
    let r := nrun n0 evs
    (retIds r.2).Pairwise (· < ·) ∧
    (r.1.st.dead = false → ∀ c, c ∈ retIds r.2 ↔ (ECommon sp c ∧ expected n0.st ≤ c ∧ c < expected r.1.st)) := by
  have := erunOK_run sp hsp n0 h0 evs hadm
  refine ⟨this.2.2.2.1, ?_⟩
  intro hd c
  have ⟨_, hlt, hall⟩ := this.2.2.2.2 hd
  constructor
  · intro hc
    exact ⟨(this.2.2.1 c hc).1, (this.2.2.1 c hc).2, hlt c hc⟩
  · rintro ⟨h1, h2, h3⟩
    exact hall c h1 h2 h3

/-! ### the equality form -/

/-- the payload identity of topic `t` in the block of id `id` -/
def PubSpec.bodyOf (p : PubSpec) (id : Int) (t : Topic) : Nat :=
  ((p.wires.find? (fun w => w.mid == id && p.eff w == t)).map (·.body)).getD 0

/-- **the part a synchronised source contributes to the set of id `id`: a function of the specification alone** -/
def specPart (p : PubSpec) (j : Nat) (id : Int) : List (Topic × Msg) :=
  p.keys.map fun t => (p.dst t, { mid := id, topic := t, body := p.bodyOf id t, src := j })

/-- a block carries one payload per subscribed topic (true of every real publisher: the topics of a block are distinct) -/
def BodyDet (p : PubSpec) : Prop :=
  ∀ w ∈ p.wires, ∀ w' ∈ p.wires, w.mid = w'.mid → p.eff w = p.eff w' → w.body = w'.body

theorem partOK_eq_spec (p : PubSpec) (hdet : BodyDet p) (j : Nat) (id : Int) (part : List (Topic × Msg))
    (h : PartOK p j id part) : part = specPart p j id := by
  rcases h with ⟨hk, hx⟩
  have key : ∀ x ∈ part, x = (p.dst x.2.topic, ({ mid := id, topic := x.2.topic, body := p.bodyOf id x.2.topic, src := j } : Msg)) := by
    intro x hxm
    rcases hx x hxm with ⟨h1, h2, h3, w, hw, hw1, hw2, hw3⟩
    have hbody : p.bodyOf id x.2.topic = x.2.body := by
      unfold PubSpec.bodyOf
      cases hf : p.wires.find? (fun w => w.mid == id && p.eff w == x.2.topic) with
      | none =>
        exfalso
        rw [List.find?_eq_none] at hf
        exact hf w hw (by simp [hw1, hw2])
      | some w' =>
        have hw'in := List.mem_of_find?_eq_some hf
        have hw'p := List.find?_some hf
        simp only [Bool.and_eq_true, beq_iff_eq] at hw'p
        simp only [Option.map_some, Option.getD_some]
        rw [← hw3]
        exact hdet w' hw'in w hw (by rw [hw'p.1, hw1]) (by rw [hw'p.2, hw2])
    rcases x with ⟨nm, m⟩
    rcases m with ⟨mid, topic, body, src⟩
    simp only at h1 h2 h3 hbody ⊢
    rw [h1, h2, h3, hbody]
  unfold specPart
  rw [← hk, List.map_map]
  have : part = part.map (fun x => x) := by simp
  conv => lhs; rw [this]
  apply List.map_congr_left
  intro x hxm
  simp only [Function.comp_apply]
  exact key x hxm

/-- a returned set whose synchronised parts are the canonical ones -/
def ERetSpec (sp : List ESpec) (id : Int) (data : List (Topic × Msg)) : Prop :=
  ∃ parts : List (List (Topic × Msg)), data = parts.flatten ∧ parts.length = sp.length ∧
    ∀ (j : Nat) (p : ESpec) (part : List (Topic × Msg)), sp[j]? = some p → parts[j]? = some part → p.eph = 0 →
      part = specPart p.pub j id

/-- every synchronised publisher sends one payload per topic and block -/
def SyncDet (sp : List ESpec) : Prop := ∀ p ∈ sp, p.eph = 0 → BodyDet p.pub

/-- **the synchronised part of every returned set is a function of the specification and the returned id** - the same with any
ephemeral deliveries, with none, under any schedule -/
theorem C05_join_eph_sync_parts_exact (sp : List ESpec) (hsp : SyncOK sp) (hdet : SyncDet sp) (n0 : NSt) (h0 : SInv sp n0)
    (evs : List NEv) (hadm : ∀ e ∈ evs, NAdm e) :
    ∀ id bal data, Out.ret id bal data ∈ (nrun n0 evs).2 → ERetSpec sp id data := by
  intro id bal data hmem
  rcases ((C05_join_eph_sync_unchanged sp hsp n0 h0 evs hadm).1 id bal data hmem).2 with ⟨parts, h1, h2, h3⟩
  refine ⟨parts, h1, h2, ?_⟩
  intro j p part hj hpart hp0
  exact partOK_eq_spec p.pub (hdet p (List.mem_of_getElem? hj) hp0) j id part (h3 j p part hj hpart hp0)

/-- **equality with the run WITHOUT the ephemeral deliveries, modulo when a set is returned**: two runs of receivers over the same
specification `sp` (the same synchronised streams), from the same frontier, under ANY two admissible schedules and with ANY
contents of the ephemeral sources - in particular run 2 = the schedule of run 1 with every ephemeral delivery removed - return
prefix-related id sequences (the run whose frontier is further has returned more), and by `C05_join_eph_sync_parts_exact` the
synchronised part of the set returned for an id is the same in both.  Never a different id, never a different synchronised part. -/
theorem C05_join_eph_same_as_without (sp : List ESpec) (hsp : SyncOK sp) (n1 n2 : NSt) (h1 : SInv sp n1) (h2 : SInv sp n2)
    (hF : expected n1.st = expected n2.st) (evs1 evs2 : List NEv) (hadm1 : ∀ e ∈ evs1, NAdm e) (hadm2 : ∀ e ∈ evs2, NAdm e)
    (hd1 : (nrun n1 evs1).1.st.dead = false) (hd2 : (nrun n2 evs2).1.st.dead = false) :
    (expected (nrun n1 evs1).1.st ≤ expected (nrun n2 evs2).1.st → retIds (nrun n1 evs1).2 <+: retIds (nrun n2 evs2).2) ∧
    (expected (nrun n2 evs2).1.st ≤ expected (nrun n1 evs1).1.st → retIds (nrun n2 evs2).2 <+: retIds (nrun n1 evs1).2) := by
  have a := C05_join_eph_ids_exact sp hsp n1 h1 evs1 hadm1
  have b := C05_join_eph_ids_exact sp hsp n2 h2 evs2 hadm2
  constructor
  · intro hle
    apply sorted_prefix (expected (nrun n1 evs1).1.st) _ _ a.1 b.1
    intro c
    rw [a.2 hd1 c, b.2 hd2 c, hF]
    constructor
    · rintro ⟨x, y, z⟩; exact ⟨⟨x, y, by omega⟩, z⟩
    · rintro ⟨⟨x, y, _⟩, z⟩; exact ⟨x, y, z⟩
  · intro hle
    apply sorted_prefix (expected (nrun n2 evs2).1.st) _ _ b.1 a.1
    intro c
    rw [a.2 hd1 c, b.2 hd2 c, hF]
    constructor
    · rintro ⟨x, y, z⟩; exact ⟨⟨x, y, by omega⟩, z⟩
    · rintro ⟨⟨x, y, _⟩, z⟩; exact ⟨x, y, z⟩

/-! ## 2. what the ephemeral sources contribute -/

/-- the frames of a returned set that came from source `j` (`Msg.src` is the ghost tag set by `recv_once`) -/
def ephPart (j : Nat) (data : List (Topic × Msg)) : List (Topic × Msg) := data.filter (fun x => x.2.src == j)

/-- the block ids of the successive contributions of source `j` (sets without a frame of `j` are skipped) -/
def ephBlockIds (j : Nat) (o : List Out) : List Int :=
  (rets o).filterMap fun r => ((ephPart j r.2).head?).map (·.2.mid)

theorem ephBlockIds_append (j : Nat) (a b : List Out) : ephBlockIds j (a ++ b) = ephBlockIds j a ++ ephBlockIds j b := by
  unfold ephBlockIds; rw [rets_append, List.filterMap_append]

/-- invariant of a whole run (ephemeral part) -/
def EBRunOK (sp : List ESpec) (acc : NSt × List Out) : Prop :=
  SInv sp acc.1 ∧ ∃ fl : Nat → Bool, EphInv fl sp acc.1 ∧
    (∀ r ∈ rets acc.2, ∀ (j : Nat) (p : ESpec), sp[j]? = some p → p.eph ≠ 0 →
      ephPart j r.2 = [] ∨ ∃ μ ∈ p.pub.ids, PartOK p.pub j μ (ephPart j r.2)) ∧
    (∀ (j : Nat) (p : ESpec), sp[j]? = some p → p.eph ≠ 0 → (ephBlockIds j acc.2).Pairwise (· < ·)) ∧
    (∀ (j : Nat) (p : ESpec) (s : Src), sp[j]? = some p → p.eph ≠ 0 → acc.1.st.srcs[j]? = some s →
      ∀ μ ∈ ephBlockIds j acc.2, μ < s.minId ∨ (μ = s.minId ∧ fl j = true))

theorem partOK_ne_nil (p : PubSpec) (hk : p.keys ≠ []) (j : Nat) (F : Int) (part : List (Topic × Msg))
    (h : PartOK p j F part) : ∃ x rest, part = x :: rest ∧ x.2.mid = F := by
  cases part with
  | nil => exact absurd h.1.symm (by simpa using hk)
  | cons x rest => exact ⟨x, rest, rfl, (h.2 x (List.mem_cons_self ..)).1⟩

theorem ebrunOK_step (sp : List ESpec) (hsp : SyncOK sp) (hep : EphSpecOK sp) (acc : NSt × List Out) (e : NEv) (ha : NAdm e)
    (h : EBRunOK sp acc) : EBRunOK sp ((nstep acc.1 e).1, acc.2 ++ (nstep acc.1 e).2) := by
  rcases h with ⟨hS, fl, hE, hC1, hC2, hC3⟩
  have hS' := nstep_SInv sp hsp acc.1 e ha hS
  rcases nstep_EphInv fl sp hep acc.1 e ha hE with ⟨fl', hE', hmono, hflag⟩
  have hlen := nstep_len acc.1 e
  -- the old source behind a new one
  have hold : ∀ (j : Nat) (p : ESpec) (s' : Src), sp[j]? = some p → p.eph ≠ 0 → (nstep acc.1 e).1.st.srcs[j]? = some s' →
      ∃ s, acc.1.st.srcs[j]? = some s ∧ (s.minId < s'.minId ∨ (s.minId = s'.minId ∧ (fl j = true → fl' j = true))) := by
    intro j p s' hj hp0 hs'
    have hj' : j < acc.1.st.srcs.length := by rw [← hlen]; exact (List.getElem?_eq_some_iff.mp hs').1
    rcases hmono j p _ hj hp0 (List.getElem?_eq_getElem hj') with ⟨s'', h1, h2⟩
    rw [hs'] at h1; cases h1
    exact ⟨_, List.getElem?_eq_getElem hj', h2⟩
  refine ⟨hS', fl', hE', ?_⟩
  rcases rets_nstep acc.1 e ha with hr | ⟨_, hd, _, hrc, _, hr⟩
  · -- nothing returned
    have hb : ∀ j, ephBlockIds j (nstep acc.1 e).2 = [] := by
      intro j; unfold ephBlockIds; rw [hr]; rfl
    refine ⟨?_, ?_, ?_⟩
    · intro r hrm
      rw [rets_append, hr, List.append_nil] at hrm
      exact hC1 r hrm
    · intro j p hj hp0
      simp only
      rw [ephBlockIds_append, hb, List.append_nil]
      exact hC2 j p hj hp0
    · intro j p s' hj hp0 hs' μ hμ
      simp only at hμ
      rw [ephBlockIds_append, hb, List.append_nil] at hμ
      rcases hold j p s' hj hp0 hs' with ⟨s, hs, hm⟩
      rcases hC3 j p s hj hp0 hs μ hμ with h1 | ⟨h1, h2⟩
      · rcases hm with hm | ⟨hm, _⟩ <;> (left; omega)
      · rcases hm with hm | ⟨hm, hf⟩
        · left; omega
        · right; exact ⟨by omega, hf h2⟩
  · -- a set is returned: the concatenation of the buffers, each tagged with its source
    have hexp : expected acc.1.st = acc.1.st.minRecvId := by unfold expected; simp [*]
    have hsync := sinv_ret_parts sp hsp acc.1 hS hd hrc
    have heph := ephinv_ret_parts fl sp hep acc.1 hE hd hrc
    have ⟨_, hlen0, hall⟩ := hS hd
    have htag : ∀ (i : Nat) (part : List (Topic × Msg)), (acc.1.st.srcs.map srcFrames)[i]? = some part →
        ∀ x ∈ part, x.2.src = i := by
      intro i part hi x hx
      rw [List.getElem?_map] at hi
      cases hsi : acc.1.st.srcs[i]? with
      | none => rw [hsi] at hi; cases hi
      | some s =>
        rw [hsi] at hi
        simp only [Option.map_some, Option.some.injEq] at hi
        subst hi
        rcases hall i s hsi with ⟨p, _, ep, _, _, _⟩
        by_cases hp0 : p.eph = 0
        · exact ((hsync i p s ep hp0 hsi).2.2 x hx).2.1
        · by_cases hg : got s = .all
          · exact (((heph i p s ep hp0 hsi).1 hg).2.2.2 x hx).2.1
          · rw [(heph i p s ep hp0 hsi).2 hg] at hx; cases hx
    have hpart : ∀ (j : Nat) (s : Src), acc.1.st.srcs[j]? = some s →
        ephPart j (acc.1.st.srcs.map srcFrames).flatten = srcFrames s := by
      intro j s hs
      unfold ephPart
      rw [filter_flatten_tag _ htag j, List.getElem?_map, hs]
      rfl
    -- what source `j` adds to its list of block ids
    have hnew : ∀ (j : Nat) (p : ESpec) (s : Src), sp[j]? = some p → p.eph ≠ 0 → acc.1.st.srcs[j]? = some s →
        (got s = .all ∧ ephBlockIds j (nstep acc.1 e).2 = [s.minId]) ∨ (got s ≠ .all ∧ ephBlockIds j (nstep acc.1 e).2 = []) := by
      intro j p s hj hp0 hs
      unfold ephBlockIds
      rw [hr]
      simp only [List.filterMap_cons, List.filterMap_nil]
      rw [hpart j s hs]
      by_cases hg : got s = .all
      · left
        refine ⟨hg, ?_⟩
        rcases partOK_ne_nil p.pub (hep p (List.mem_of_getElem? hj) hp0).keysNe j s.minId _ ((heph j p s hj hp0 hs).1 hg).2.2
          with ⟨x, rest, e1, e2⟩
        rw [e1]
        simp [e2]
      · right
        refine ⟨hg, ?_⟩
        rw [(heph j p s hj hp0 hs).2 hg]
        rfl
    have hsrcOf : ∀ (j : Nat) (p : ESpec), sp[j]? = some p → ∃ s, acc.1.st.srcs[j]? = some s := by
      intro j p hj
      have : j < acc.1.st.srcs.length := by rw [hlen0]; exact (List.getElem?_eq_some_iff.mp hj).1
      exact ⟨_, List.getElem?_eq_getElem this⟩
    refine ⟨?_, ?_, ?_⟩
    · intro r hrm
      rw [rets_append, hr, List.mem_append] at hrm
      rcases hrm with hrm | hrm
      · exact hC1 r hrm
      · simp only [List.mem_singleton] at hrm
        subst hrm
        intro j p hj hp0
        rcases hsrcOf j p hj with ⟨s, hs⟩
        simp only
        rw [hpart j s hs]
        by_cases hg : got s = .all
        · right
          have := (heph j p s hj hp0 hs).1 hg
          exact ⟨s.minId, this.2.1, this.2.2⟩
        · left; exact (heph j p s hj hp0 hs).2 hg
    · intro j p hj hp0
      rcases hsrcOf j p hj with ⟨s, hs⟩
      simp only
      rw [ephBlockIds_append, List.pairwise_append]
      refine ⟨hC2 j p hj hp0, ?_, ?_⟩
      · rcases hnew j p s hj hp0 hs with ⟨_, h2⟩ | ⟨_, h2⟩ <;> rw [h2]
        · exact List.pairwise_singleton _ _
        · exact List.Pairwise.nil
      · intro a haa b hb
        rcases hnew j p s hj hp0 hs with ⟨hg, h2⟩ | ⟨_, h2⟩
        · rw [h2] at hb
          simp only [List.mem_singleton] at hb
          subst hb
          have hfl := ((heph j p s hj hp0 hs).1 hg).1
          rcases hC3 j p s hj hp0 hs a haa with h1 | ⟨_, h1⟩
          · exact h1
          · rw [hfl] at h1; cases h1
        · rw [h2] at hb; cases hb
    · intro j p s' hj hp0 hs' μ hμ
      simp only at hμ
      rcases hold j p s' hj hp0 hs' with ⟨s, hs, hm⟩
      rw [ephBlockIds_append, List.mem_append] at hμ
      rcases hμ with hμ | hμ
      · rcases hC3 j p s hj hp0 hs μ hμ with h1 | ⟨h1, h2⟩
        · rcases hm with hm | ⟨hm, _⟩ <;> (left; omega)
        · rcases hm with hm | ⟨hm, hf⟩
          · left; omega
          · right; exact ⟨by omega, hf h2⟩
      · rcases hnew j p s hj hp0 hs with ⟨hg, h2⟩ | ⟨_, h2⟩
        · rw [h2] at hμ
          simp only [List.mem_singleton] at hμ
          subst hμ
          have hf' : fl' j = true := hflag (by
            have : (acc.1.st.minRecvId, (acc.1.st.srcs.map srcFrames).flatten) ∈ rets (nstep acc.1 e).2 := by rw [hr]; simp
            rcases (mem_rets _ _ _).mp this with ⟨bal, hb⟩
            exact ⟨_, bal, _, hb⟩) j s hs hg
          rcases hm with hm | ⟨hm, _⟩
          · left; exact hm
          · right; exact ⟨hm, hf'⟩
        · rw [h2] at hμ; cases hμ

/-- **C05 (ephemeral contributions are whole blocks, in order, none twice)**: synchronised sources as in
`C05_join_eph_sync_unchanged`; every EPHEMERAL source is fed by the complete in-order block stream of its publisher (strictly
increasing ids, every subscribed topic once per block: `EStream`) and is subscribed to at least one announced topic (`EphOK`).
Under every admissible schedule, for every ephemeral source `j`:
* the frames of `j` in a returned set (`ephPart j data`) are either none, or exactly one frame per subscribed ∩ announced topic of
  ONE block `μ` of that source - all with id `μ`, each with the payload of that block's wire message of that topic, under the mapped
  name (`PartOK`): never a partial block, never two blocks mixed;
* the block ids of the successive contributions of `j` strictly increase: upstream order, no block twice. -/
theorem C05_join_eph_blocks_complete (sp : List ESpec) (hsp : SyncOK sp) (hep : EphSpecOK sp) (n0 : NSt) (h0 : SInv sp n0)
    (fl0 : Nat → Bool) (h0e : EphInv fl0 sp n0) (evs : List NEv) (hadm : ∀ e ∈ evs, NAdm e) :
    let r := nrun n0 evs
    (∀ id bal data, Out.ret id bal data ∈ r.2 → ∀ (j : Nat) (p : ESpec), sp[j]? = some p → p.eph ≠ 0 →
      ephPart j data = [] ∨ ∃ μ ∈ p.pub.ids, PartOK p.pub j μ (ephPart j data)) ∧
    (∀ (j : Nat) (p : ESpec), sp[j]? = some p → p.eph ≠ 0 → (ephBlockIds j r.2).Pairwise (· < ·)) := by
  have key : ∀ (evs : List NEv) (acc : NSt × List Out), (∀ e ∈ evs, NAdm e) → EBRunOK sp acc →
      EBRunOK sp (evs.foldl (fun (acc : NSt × List Out) e => ((nstep acc.1 e).1, acc.2 ++ (nstep acc.1 e).2)) acc) := by
    intro evs
    induction evs with
    | nil => intro acc _ h; exact h
    | cons e es ih =>
      intro acc hadm h
      simp only [List.foldl_cons]
      exact ih _ (fun x hx => hadm x (List.mem_cons_of_mem _ hx))
        (ebrunOK_step sp hsp hep acc e (hadm e (List.mem_cons_self ..)) h)
  have hinit : EBRunOK sp (n0, []) := by
    refine ⟨h0, fl0, h0e, ?_, ?_, ?_⟩
    · intro r hr; cases hr
    · intro _ _ _ _; exact List.Pairwise.nil
    · intro _ _ _ _ _ _ μ hμ; cases hμ
  rcases key evs (n0, []) hadm hinit with ⟨_, fl, _, h1, h2, _⟩
  refine ⟨?_, h2⟩
  intro id bal data hmem j p hj hp0
  exact h1 (id, data) ((mem_rets _ _ _).mpr ⟨bal, hmem⟩) j p hj hp0

/-! ## 3. no hold-up -/

theorem finish_out (st : St) : ∃ o ∈ (finish st).2, (∃ id bal data, o = Out.ret id bal data) ∨ (∃ t, o = Out.dupTopic t) := by
  unfold finish
  simp only
  split
  · exact ⟨_, List.mem_append_right _ (List.mem_singleton.mpr rfl), Or.inr ⟨_, rfl⟩⟩
  · exact ⟨_, List.mem_append_right _ (List.mem_singleton.mpr rfl), Or.inl ⟨_, _, _, rfl⟩⟩

/-- **C05 (an ephemeral source without a partly delivered block never holds up the synchronised stream)**: `n` is a state between
calls of a run of deliveries and whole `recv(None, 0)` calls (`CInv`: reachable from a fresh receiver, `init_CInv` /
`crun_CInv`); at least one source is synchronised.  If
* (H2) some id `c` at or above the frontier (`expected`: the last returned id + 1, or the id adopted by a timed-out call) is common to
  the synchronised sources and every synchronised source has delivered its complete block `c` (every undelivered message of its stream
  has an id above `c`), and
* (H1) no ephemeral source has a subscribed topic of a partly delivered block in flight (`EBoundary`; this includes "the heartbeat of
  block `k` arrives after block `k` was returned" and "the heartbeat of the last delivered block is still missing"),
then the next call - any poll order naming every source - returns: its outputs contain a returned set (or the duplicate-topic
configuration error `recv` raises instead of returning one); it does not time out. -/
theorem C05_join_eph_no_holdup (sp : List ESpec) (hsp : SyncOK sp) (hep : EphSpecOK sp) (n : NSt) (fl : Nat → Bool)
    (h : CInv sp fl n) (hd : n.st.dead = false) (prio : List Nat) (hcov : Covers sp prio)
    (H0 : ∃ (j : Nat) (p : ESpec), sp[j]? = some p ∧ p.eph = 0)
    (c : Int) (hc : ECommon sp c) (hFc : expected n.st ≤ c)
    (H2 : ∀ (j : Nat) (p : ESpec) (fut : List Wire), sp[j]? = some p → p.eph = 0 → n.future[j]? = some fut → ∀ w ∈ fut, c < w.mid)
    (H1 : ∀ (j : Nat) (p : ESpec) (fut : List Wire), sp[j]? = some p → p.eph ≠ 0 → n.future[j]? = some fut → EBoundary p.pub fut) :
    ∃ o ∈ (cstep n (.call prio)).2, (∃ id bal data, o = Out.ret id bal data) ∨ (∃ t, o = Out.dupTopic t) := by
  have hg : ¬ (n.st.dead = true ∨ n.st.inCall = true) := by rw [hd, h.2.2.1]; simp
  rcases call_analysis sp hsp hep n fl h hd prio hcov with ⟨fl1, hS1, hE1, hfront, hfalse⟩
  rcases call0_cases n.st prio hg with ⟨tk, _, hd1, _, _, ⟨_, _, hout⟩ | ⟨hflag, _⟩⟩
  · rcases finish_out (recvOnce0 (totalQueued (OF.Net.beginSt n.st none) + 1) (OF.Net.beginSt n.st none) prio).1 with ⟨o, ho, hk⟩
    exact ⟨o, hout o ho, hk⟩
  · exfalso
    have ⟨hnr, hnb⟩ := hfalse hflag
    have hrc := ready_of_drained sp hep _ fl1 hS1 hE1 hd1 hnr H0 c hc (hfront c hc hFc) H2 H1
    rw [returnCond_eq] at hrc
    simp only at hrc
    rw [hnb] at hrc
    simp at hrc

/-! ### ... and with distinct destination names what it returns is a set -/

/-- the names under which the sources hand on their subscribed topics are pairwise distinct (across and inside sources): no
`duplicate topic` configuration error -/
def NamesNodup (sp : List ESpec) : Prop := (sp.map fun p => p.pub.keys.map p.pub.dst).flatten.Nodup

theorem assemble_ok : ∀ (l acc : List (Topic × Msg)), ((acc ++ l).map (·.1)).Nodup → ∃ d, assemble l acc = .inr d := by
  intro l
  induction l with
  | nil => intro acc _; exact ⟨acc, rfl⟩
  | cons x rest ih =>
    intro acc h
    rcases x with ⟨t, m⟩
    unfold assemble
    have hnot : acc.any (fun y => y.1 == t) = false := by
      rw [Bool.eq_false_iff]
      intro hc
      rw [List.any_eq_true] at hc
      rcases hc with ⟨y, hy, e⟩
      rw [List.map_append, List.nodup_append] at h
      exact h.2.2 y.1 (List.mem_map_of_mem hy) t (by simp) (by simpa using e)
    simp only [hnot, Bool.false_eq_true, ↓reduceIte]
    apply ih
    simpa using h

theorem flatten_sublist_pointwise {α : Type} : ∀ (L L' : List (List α)), L'.length = L.length →
    (∀ (i : Nat) (a b : List α), L'[i]? = some a → L[i]? = some b → a.Sublist b) → L'.flatten.Sublist L.flatten := by
  intro L
  induction L with
  | nil =>
    intro L' hl _
    cases L' with
    | nil => exact List.Sublist.refl _
    | cons _ _ => cases hl
  | cons b bs ih =>
    intro L' hl h
    cases L' with
    | nil => cases hl
    | cons a as =>
      simp only [List.flatten_cons]
      exact List.Sublist.append (h 0 a b rfl rfl)
        (ih as (by simpa using hl) (fun i x y hx hy => h (i + 1) x y (by simpa using hx) (by simpa using hy)))

theorem partOK_names (p : PubSpec) (j : Nat) (F : Int) (part : List (Topic × Msg)) (h : PartOK p j F part) :
    part.map (·.1) = p.keys.map p.dst := by
  rw [← h.1, List.map_map]
  apply List.map_congr_left
  intro x hx
  exact (h.2 x hx).2.2.1

/-- **C05 (no hold-up), with distinct destination names**: under the hypotheses of `C05_join_eph_no_holdup` and pairwise distinct
names, the next call returns a SET -/
theorem C05_join_eph_no_holdup_set (sp : List ESpec) (hsp : SyncOK sp) (hep : EphSpecOK sp) (hnames : NamesNodup sp) (n : NSt)
    (fl : Nat → Bool) (h : CInv sp fl n) (hd : n.st.dead = false) (prio : List Nat) (hcov : Covers sp prio)
    (H0 : ∃ (j : Nat) (p : ESpec), sp[j]? = some p ∧ p.eph = 0)
    (c : Int) (hc : ECommon sp c) (hFc : expected n.st ≤ c)
    (H2 : ∀ (j : Nat) (p : ESpec) (fut : List Wire), sp[j]? = some p → p.eph = 0 → n.future[j]? = some fut → ∀ w ∈ fut, c < w.mid)
    (H1 : ∀ (j : Nat) (p : ESpec) (fut : List Wire), sp[j]? = some p → p.eph ≠ 0 → n.future[j]? = some fut → EBoundary p.pub fut) :
    ∃ id bal data, Out.ret id bal data ∈ (cstep n (.call prio)).2 := by
  have hg : ¬ (n.st.dead = true ∨ n.st.inCall = true) := by rw [hd, h.2.2.1]; simp
  rcases call_analysis sp hsp hep n fl h hd prio hcov with ⟨fl1, hS1, hE1, hfront, hfalse⟩
  have hrcflag := (OF.Net.recvOnce0_as_run (totalQueued (OF.Net.beginSt n.st none) + 1) (OF.Net.beginSt n.st none) prio)
  rcases call0_cases n.st prio hg with ⟨tk, _, hd1, _, _, ⟨hflag, _, hout⟩ | ⟨hflag, _⟩⟩
  · -- the set is complete: `finish` assembles it without a name clash
    rcases hrcflag with ⟨_, _, hrc⟩
    have hrc := hrc hflag
    generalize (recvOnce0 (totalQueued (OF.Net.beginSt n.st none) + 1) (OF.Net.beginSt n.st none) prio).1 = st1 at *
    have hsync := sinv_ret_parts sp hsp _ hS1 hd1 hrc
    have heph := ephinv_ret_parts fl1 sp hep _ hE1 hd1 hrc
    have ⟨_, hlen, hall⟩ := hS1 hd1
    simp only at hsync heph hlen hall
    have hnd : ((st1.srcs.flatMap srcFrames).map (·.1)).Nodup := by
      rw [List.flatMap_def, List.map_flatten]
      refine List.Sublist.nodup (flatten_sublist_pointwise _ _ (by simp [hlen]) ?_) hnames
      intro i a b ha hb
      rw [List.getElem?_map, List.getElem?_map] at ha
      rw [List.getElem?_map] at hb
      cases hsi : st1.srcs[i]? with
      | none => rw [hsi] at ha; cases ha
      | some s =>
        rw [hsi] at ha
        simp only [Option.map_some, Option.some.injEq] at ha
        subst ha
        rcases hall i s hsi with ⟨p, _, ep, _, _, _⟩
        rw [ep] at hb
        simp only [Option.map_some, Option.some.injEq] at hb
        subst hb
        by_cases hp0 : p.eph = 0
        · rw [partOK_names p.pub i _ _ (hsync i p s ep hp0 hsi).2]; exact List.Sublist.refl _
        · by_cases hgt : got s = .all
          · rw [partOK_names p.pub i _ _ ((heph i p s ep hp0 hsi).1 hgt).2.2]; exact List.Sublist.refl _
          · rw [(heph i p s ep hp0 hsi).2 hgt]; exact List.nil_sublist _
    rcases assemble_ok (st1.srcs.flatMap srcFrames) [] (by simpa using hnd) with ⟨d, hd'⟩
    refine ⟨st1.minRecvId, st1.balanced, d, hout _ ?_⟩
    unfold finish
    simp only [hd']
    exact List.mem_append_right _ (List.mem_singleton.mpr rfl)
  · exfalso
    have ⟨hnr, hnb⟩ := hfalse hflag
    have hrc := ready_of_drained sp hep _ fl1 hS1 hE1 hd1 hnr H0 c hc (hfront c hc hFc) H2 H1
    rw [returnCond_eq] at hrc
    simp only at hrc
    rw [hnb] at hrc
    simp at hrc

/-- a freshly constructed receiver with nothing delivered yet satisfies the call-level invariant -/
theorem init_CInv (sp : List ESpec) (hsp : SyncOK sp) (H0 : ∃ (j : Nat) (p : ESpec), sp[j]? = some p ∧ p.eph = 0)
    (srcs : List Src) (lowLat : Bool) (hlen : srcs.length = sp.length)
    (hsrc : ∀ (j : Nat) (s : Src), srcs[j]? = some s → ∃ p, sp[j]? = some p ∧ s.eph = p.eph ∧
      s.recvd = recvdNew s ∧ s.reg = true ∧ s.queue = [] ∧ s.minId = 0 ∧
      (p.eph = 0 → MStream p.pub p.pub.ids p.pub.wires ∧ MPlain p.pub s) ∧
      (p.eph ≠ 0 → EStream p.pub p.pub.ids p.pub.wires ∧ EPlain p.pub s)) :
    CInv sp (fun _ => false) { st := mkSt srcs false lowLat, future := sp.map (·.pub.wires) } := by
  have hS : SInv sp { st := mkSt srcs false lowLat, future := sp.map (·.pub.wires) } := by
    intro _
    refine ⟨rfl, by simp [mkSt, hlen], ?_⟩
    intro j s hj
    simp only [mkSt] at hj
    rcases hsrc j s hj with ⟨p, e1, he, hr, hg, hq, _, hs0, _⟩
    refine ⟨p, p.pub.wires, e1, by simp [List.getElem?_map, e1], he, ?_⟩
    intro hp0
    have ⟨e2, hp⟩ := hs0 hp0
    refine ⟨hp, ?_⟩
    rw [hq]
    exact ⟨by simp, [], p.pub.ids, p.pub.wires, rfl, e2,
      Or.inl ⟨[], by simp, (by intro w hw; cases hw), hr, hg, (by intro c hc; cases hc)⟩⟩
  refine ⟨hS, ?_, rfl, ?_⟩
  · intro _
    refine ⟨rfl, by simp [mkSt, hlen], ?_⟩
    intro j s hj
    simp only [mkSt] at hj
    rcases hsrc j s hj with ⟨p, e1, he, hr, hg, hq, hm, _, hs1⟩
    refine ⟨p, p.pub.wires, e1, by simp [List.getElem?_map, e1], he, ?_⟩
    intro hp0
    have ⟨e2, hp⟩ := hs1 hp0
    refine ⟨hp, ?_⟩
    rw [hq]
    exact ⟨[], [], p.pub.ids, p.pub.wires, by simp, rfl, e2, Or.inl ⟨rfl, by simp, hm, hr, hg, rfl⟩⟩
  · intro _
    cases hb : bufReady (mkSt srcs false lowLat) with
    | false => rfl
    | true =>
      exfalso
      have hspec := bufReady_spec _ hb
      rcases H0 with ⟨j0, p0, hj0, hp0⟩
      have hj' : j0 < srcs.length := by rw [hlen]; exact (List.getElem?_eq_some_iff.mp hj0).1
      have hs0 : srcs[j0]? = some srcs[j0] := List.getElem?_eq_getElem hj'
      rcases hsrc j0 _ hs0 with ⟨p, e1, he, hr, _, _, _, hsy, _⟩
      rw [hj0] at e1; cases e1
      have hall := (hspec srcs[j0] (List.mem_of_getElem? hs0)).2 (he.trans hp0) rfl
      exact midle_not_all p0.pub (hsp p0 (List.mem_of_getElem? hj0) hp0) _ (hsy hp0).2 hr hall

/-! ### the same statements for interleavings of deliveries and whole calls -/

/-- `C05_join_eph_sync_unchanged` and `C05_join_eph_blocks_complete` for every interleaving of deliveries (any prefix of every
stream between two calls, also in the middle of a block) and whole `recv(None, timeout=0)` calls with any poll orders -/
theorem C05_join_eph_calls (sp : List ESpec) (hsp : SyncOK sp) (hep : EphSpecOK sp) (n0 : NSt) (h0 : SInv sp n0)
    (fl0 : Nat → Bool) (h0e : EphInv fl0 sp n0) (cs : List CEv) :
    let r := crun n0 cs
    (∀ id bal data, Out.ret id bal data ∈ r.2 → ECommon sp id ∧ ERetOK sp id data ∧
      ∀ (j : Nat) (p : ESpec), sp[j]? = some p → p.eph ≠ 0 →
        ephPart j data = [] ∨ ∃ μ ∈ p.pub.ids, PartOK p.pub j μ (ephPart j data)) ∧
    (r.1.st.dead = false → ∀ c, ECommon sp c → expected n0.st ≤ c → c < expected r.1.st → c ∈ retIds r.2) ∧
    (∀ (j : Nat) (p : ESpec), sp[j]? = some p → p.eph ≠ 0 → (ephBlockIds j r.2).Pairwise (· < ·)) := by
  rcases crun_as_nrun cs n0 with ⟨evs, hadm, hrun⟩
  simp only
  rw [hrun]
  have a := C05_join_eph_sync_unchanged sp hsp n0 h0 evs hadm
  have b := C05_join_eph_blocks_complete sp hsp hep n0 h0 fl0 h0e evs hadm
  refine ⟨?_, a.2.2, b.2⟩
  intro id bal data hmem
  exact ⟨(a.1 id bal data hmem).1, (a.1 id bal data hmem).2, b.1 id bal data hmem⟩

/-! ## 4. Non-vacuity: one synchronised + one ephemeral source whose two-topic subscription meets a one-topic publisher

Source 0 (synchronised, all topics) publishes blocks `main` for ids 0, 1, 2.  Source 1 is attached as `addr?;a,b>bb`: the
consumer asks for `a` and `b`, the publisher announces only `a` (ids 0, 1) - the subscribed ∩ announced topics are `[a]`. -/

def exW (ts : List Topic) (f : String) (k : Int) (b : Nat) : Wire :=
  { frame0 := f, sid := "s", mid := k, topics := ts, bal := 0, body := b }

def exSBlk (k : Int) : List Wire := [exW ["main"] "/main/" k 10, exW ["main"] "//" k 0]
def exEBlk (k : Int) : List Wire := [exW ["a"] "/a/" k 20, exW ["a"] "//" k 1]

def exPS : PubSpec :=
  { ts := ["main"], ids := [0, 1, 2], wires := exSBlk 0 ++ (exSBlk 1 ++ (exSBlk 2 ++ [])), subAll := true, star := false, subs := [] }
def exPE : PubSpec :=
  { ts := ["a"], ids := [0, 1], wires := exEBlk 0 ++ (exEBlk 1 ++ []), subAll := false, star := false, subs := [("a", "a"), ("b", "bb")] }

def exSp : List ESpec := [⟨exPS, 0⟩, ⟨exPE, 1⟩]

def exC0 : NSt :=
  { st := mkSt [mkSrc 0 none, mkSrc 1 (some [("a", "a"), ("b", "bb")])] false false, future := exSp.map (·.pub.wires) }

theorem exPS_ok : PubOK exPS :=
  ⟨by decide +kernel, by decide +kernel, by decide +kernel, by decide +kernel, by decide +kernel⟩
theorem exPE_ok : EphOK exPE :=
  ⟨⟨by decide +kernel, by decide +kernel, by decide +kernel, by decide +kernel, by decide +kernel⟩, by decide +kernel⟩

/-- the subscribed ∩ announced topics of the ephemeral source: `b` is asked for but never announced -/
example : exPE.keys = ["a"] ∧ exPE.dst "b" = "bb" := by decide +kernel

theorem exSBlk_ok (k : Int) (hk : k ∈ [0, 1, 2]) : IsBlock exPS k (exSBlk k) := by
  simp only [List.mem_cons, List.not_mem_nil, or_false] at hk
  rcases hk with rfl | rfl | rfl <;>
  exact ⟨⟨[exW ["main"] "/main/" _ 10], exW ["main"] "//" _ 0, rfl,
    by decide +kernel, by decide +kernel, by decide +kernel, by decide +kernel⟩, by decide +kernel⟩

theorem exEBlk_ok (k : Int) (hk : k ∈ [0, 1]) : IsBlock exPE k (exEBlk k) ∧ KeyNodup exPE (exEBlk k) := by
  simp only [List.mem_cons, List.not_mem_nil, or_false] at hk
  rcases hk with rfl | rfl <;>
  exact ⟨⟨⟨[exW ["a"] "/a/" _ 20], exW ["a"] "//" _ 1, rfl,
    by decide +kernel, by decide +kernel, by decide +kernel, by decide +kernel⟩, by decide +kernel⟩, by unfold KeyNodup; decide +kernel⟩

theorem exPS_stream : MStream exPS exPS.ids exPS.wires :=
  .cons (exSBlk_ok 0 (by decide)) (.cons (exSBlk_ok 1 (by decide)) (.cons (exSBlk_ok 2 (by decide)) .nil))
theorem exPE_stream : EStream exPE exPE.ids exPE.wires :=
  .cons (exEBlk_ok 0 (by decide)).1 (exEBlk_ok 0 (by decide)).2 (.cons (exEBlk_ok 1 (by decide)).1 (exEBlk_ok 1 (by decide)).2 .nil)

theorem exSync : SyncOK exSp := by
  intro p hp h0
  simp only [exSp, List.mem_cons, List.not_mem_nil, or_false] at hp
  rcases hp with rfl | rfl
  · exact exPS_ok
  · cases h0

theorem exEph : EphSpecOK exSp := by
  intro p hp h0
  simp only [exSp, List.mem_cons, List.not_mem_nil, or_false] at hp
  rcases hp with rfl | rfl
  · exact absurd rfl h0
  · exact exPE_ok

theorem exH0 : ∃ (j : Nat) (p : ESpec), exSp[j]? = some p ∧ p.eph = 0 := ⟨0, ⟨exPS, 0⟩, rfl, rfl⟩

/-- the hypotheses of all theorems of this file are satisfiable: the fresh receiver satisfies the call-level invariant
(hence `SInv` and `EphInv`) -/
theorem exC0_inv : CInv exSp (fun _ => false) exC0 := by
  refine init_CInv exSp exSync exH0 _ false rfl ?_
  intro j s hj
  match j, hj with
  | 0, hj =>
    simp only [List.getElem?_cons_zero, Option.some.injEq] at hj
    subst hj
    exact ⟨⟨exPS, 0⟩, rfl, rfl, rfl, rfl, rfl, rfl, fun _ => ⟨exPS_stream, rfl, rfl, rfl, rfl⟩, fun h => absurd rfl h⟩
  | 1, hj =>
    simp only [List.getElem?_cons_succ, List.getElem?_cons_zero, Option.some.injEq] at hj
    subst hj
    exact ⟨⟨exPE, 1⟩, rfl, by decide +kernel, by decide +kernel, by decide +kernel, by decide +kernel, by decide +kernel,
      (fun h => by cases h), fun _ => ⟨exPE_stream, by decide +kernel, by decide +kernel, by decide +kernel⟩⟩
  | j + 2, hj => simp at hj

theorem exCovers (prio : List Nat) (h : 0 ∈ prio ∧ 1 ∈ prio) : Covers exSp prio := by
  intro j hj
  match j, hj with
  | 0, _ => exact h.1
  | 1, _ => exact h.2
  | j + 2, hj => simp only [exSp, List.length_cons, List.length_nil] at hj; omega

/-- deliveries up to the point where the heartbeat of ephemeral block 0 arrives AFTER block 0 was returned, and the synchronised
stream goes on (block 1 of source 0 is delivered) -/
def exPre : List CEv :=
  [.deliverNext 0, .deliverNext 0, .deliverNext 1,       -- main/0 + heartbeat, a/0 (its heartbeat is late)
   .call [0, 1],                                         -- returns id 0: main/0 and the COMPLETE ephemeral block a/0
   .deliverNext 1,                                       -- the late heartbeat of ephemeral block 0
   .deliverNext 0, .deliverNext 0]                       -- main/1 + heartbeat

def exPost : List CEv :=
  [.call [1, 0],                                         -- the late heartbeat is blank: id 1 is returned at once, without source 1
   .deliverNext 0, .deliverNext 0, .deliverNext 1,       -- main/2 + heartbeat, a/1
   .call [0, 1]]                                         -- returns id 2 with the next ephemeral block a/1

/-- sets are actually returned: the synchronised stream 0, 1, 2 is never held up; the ephemeral source contributes block 0 to the
first set, nothing to the second (only its late heartbeat arrived), block 1 to the third; under the mapped names -/
example : rets (crun exC0 (exPre ++ exPost)).2 =
    [(0, [("main", { mid := 0, topic := "main", body := 10, src := 0 }), ("a", { mid := 0, topic := "a", body := 20, src := 1 })]),
     (1, [("main", { mid := 1, topic := "main", body := 10, src := 0 })]),
     (2, [("main", { mid := 2, topic := "main", body := 10, src := 0 }), ("a", { mid := 1, topic := "a", body := 20, src := 1 })])] := by
  decide +kernel

/-- the block ids of the ephemeral contributions: 0, then 1 -/
example : ephBlockIds 1 (crun exC0 (exPre ++ exPost)).2 = [0, 1] := by decide +kernel

theorem exPre_covers : ∀ c ∈ exPre, ∀ prio, c = .call prio → Covers exSp prio := by
  intro c hc prio he
  subst he
  simp only [exPre, List.mem_cons, List.not_mem_nil, or_false, reduceCtorEq, CEv.call.injEq, false_or] at hc
  subst hc
  exact exCovers _ (by decide)

theorem exNames : NamesNodup exSp := by unfold NamesNodup; decide +kernel

/-- **`C05_join_eph_no_holdup_set` applied**: after `exPre` - the late heartbeat of the already returned ephemeral block 0 has been
delivered, the synchronised source has delivered block 1 - the next call returns a set -/
example : ∃ id bal data, Out.ret id bal data ∈ (cstep (crun exC0 exPre).1 (.call [1, 0])).2 := by
  rcases crun_CInv exSp exSync exEph exH0 exPre exC0 _ exC0_inv exPre_covers with ⟨fl, hC⟩
  have hf : (crun exC0 exPre).1.future = [exSBlk 2, exEBlk 1] := by decide +kernel
  refine C05_join_eph_no_holdup_set exSp exSync exEph exNames _ fl hC (by decide +kernel) [1, 0] (exCovers _ (by decide)) exH0 1 ?_
    (by decide +kernel) ?_ ?_
  · intro j p hj hp0
    match j, hj with
    | 0, hj => simp only [exSp, List.getElem?_cons_zero, Option.some.injEq] at hj; subst hj; decide +kernel
    | 1, hj => simp only [exSp, List.getElem?_cons_succ, List.getElem?_cons_zero, Option.some.injEq] at hj; subst hj; cases hp0
    | j + 2, hj => simp [exSp] at hj
  · intro j p fut hj hp0 hfj
    rw [hf] at hfj
    match j, hj, hfj with
    | 0, _, hfj => simp only [List.getElem?_cons_zero, Option.some.injEq] at hfj; subst hfj; decide +kernel
    | 1, hj, _ => simp only [exSp, List.getElem?_cons_succ, List.getElem?_cons_zero, Option.some.injEq] at hj; subst hj; cases hp0
    | j + 2, hj, _ => simp [exSp] at hj
  · intro j p fut hj hp0 hfj
    rw [hf] at hfj
    match j, hj, hfj with
    | 0, hj, _ => simp only [exSp, List.getElem?_cons_zero, Option.some.injEq] at hj; subst hj; exact absurd rfl hp0
    | 1, hj, hfj =>
      simp only [exSp, List.getElem?_cons_succ, List.getElem?_cons_zero, Option.some.injEq] at hj hfj
      subst hj; subst hfj
      exact ⟨exEBlk 0, rfl, by decide +kernel⟩
    | j + 2, hj, _ => simp [exSp] at hj

/-- the late-heartbeat boundary from the other side: the topic message `a/0` is delivered, the heartbeat of block 0 is NOT yet -
the undelivered rest starts inside block 0, but holds no subscribed topic of it: `EBoundary` -/
example : EBoundary exPE (exW ["a"] "//" 0 1 :: exEBlk 1) := ⟨[exW ["a"] "/a/" 0 20], rfl, by decide +kernel⟩

/-! ### NEGATIVE witness: a partly delivered ephemeral block DOES hold the return until it completes (by design: `got_any_partial`)

Source 1 now announces two topics `a, b` (all-topics `?` attachment).  `a/0` is delivered, `b/0` is not: the ephemeral block is in
flight, `EBoundary` fails, and although the synchronised block 0 is complete both calls time out; the set is returned - with the
complete ephemeral block - once `b/0` has arrived. -/

def exNBlk (k : Int) : List Wire := [exW ["a", "b"] "/a/" k 20, exW ["a", "b"] "/b/" k 21, exW ["a", "b"] "//" k 1]
def exPN : PubSpec :=
  { ts := ["a", "b"], ids := [0], wires := exNBlk 0 ++ [], subAll := true, star := false, subs := [] }
def exNeg0 : NSt :=
  { st := mkSt [mkSrc 0 none, mkSrc 1 none] false false, future := [exPS.wires, exPN.wires] }

def exNSched : List CEv :=
  [.deliverNext 0, .deliverNext 0, .deliverNext 1,       -- main/0 + heartbeat, a/0
   .call [0, 1], .call [1, 0],                           -- both time out: the ephemeral source is partial
   .deliverNext 1,                                       -- b/0
   .call [0, 1]]                                         -- returns id 0 with the complete ephemeral block

example : (crun exNeg0 exNSched).2.filter (fun o => match o with | .ret .. => true | .retNone => true | _ => false) =
    [.retNone, .retNone,
     .ret 0 0 [("main", { mid := 0, topic := "main", body := 10, src := 0 }), ("a", { mid := 0, topic := "a", body := 20, src := 1 }),
               ("b", { mid := 0, topic := "b", body := 21, src := 1 })]] := by decide +kernel

/-- the hypothesis (H1) of `C05_join_eph_no_holdup` fails in that state: `b/0` is a subscribed topic of the partly delivered block -/
example : ¬ EBoundary exPN [exW ["a", "b"] "/b/" 0 21, exW ["a", "b"] "//" 0 1] := by
  rintro ⟨d, h1, h2⟩
  have hd : d = [exW ["a", "b"] "/a/" 0 20] := by
    have : exPN.wires = [exW ["a", "b"] "/a/" 0 20] ++ [exW ["a", "b"] "/b/" 0 21, exW ["a", "b"] "//" 0 1] := rfl
    rw [this] at h1
    exact (List.append_cancel_right h1).symm
  subst hd
  have := h2 _ (List.mem_cons_self ..) _ (List.mem_cons_self ..)
  revert this
  decide +kernel

end OF.Recv
