import OFProps.SendBalInv
/-!
# Helper lemmas: where the wire messages of the sender automaton come from, and the `requested` flag of one client

* `step_pub_on`: a `.pub` on output `o` among the outputs of an event means: the event is `send_maybe` inside a call, the gate was
  passed, and `o` is one of the outputs the publish goes to (`pubTargets`);
* `flagSel cl fid sel` = 1 iff the entry of client `fid` has `requested` and sits on an output selected by `sel`;
  `step_flagSel`: it only ever rises when a request of `fid` with a normal id is taken from a selected output.
Used by `OFProps/C04OnePublish.lean`.
-/
namespace OF.Send

/-- a wire message (topic message or heartbeat of a publish) on output `o` -/
def isPubOn (o : Nat) : Out → Bool
  | .pub o' _ _ _ _ _ => o' == o
  | _ => false

theorem onReq_nopub (st : St) (j : Nat) (r : Req) (t : Int) (o : Nat) : ∀ x ∈ (onReq st j r t).2.1, isPubOn o x = false := by
  unfold onReq
  simp only
  split
  · split
    · intro x hx; simp only [List.mem_singleton] at hx; subst hx; rfl
    · split <;> (intro x hx; cases hx)
  · split
    · intro x hx; cases hx
    · split <;> (intro x hx; cases hx)

theorem gate_nopub (st : St) (o : Nat) : ∀ x ∈ (gate st).2.2, isPubOn o x = false := by
  unfold gate
  split
  · intro x hx; cases hx
  · split
    · intro x hx; cases hx
    · intro x hx; simp only [List.mem_singleton] at hx; subst hx; rfl
    · intro x hx; simp only [List.mem_singleton] at hx; subst hx; rfl

theorem hello_nopub (st : St) (ret : Option Bool) (o : Nat) : ∀ x ∈ helloOuts st ret, isPubOn o x = false := by
  unfold helloOuts
  split
  · intro x hx; rw [List.mem_map] at hx; rcases hx with ⟨_, _, rfl⟩; rfl
  · intro x hx; cases hx

theorem publish_pub_on (st : St) (ts : List (String × Nat)) (o : Nat) : ∀ x ∈ (publish st ts).2, isPubOn o x = true → o ∈ pubTargets st := by
  intro x hx hp
  unfold publish at hx
  simp only [List.mem_append] at hx
  rcases hx with h | h
  · rw [List.mem_flatMap] at h
    rcases h with ⟨⟨t', b'⟩, _, h2⟩
    rw [List.mem_map] at h2
    rcases h2 with ⟨y, hy, rfl⟩
    simp only [isPubOn, beq_iff_eq] at hp
    rw [← hp]; exact hy
  · rw [List.mem_map] at h
    rcases h with ⟨y, hy, rfl⟩
    simp only [isPubOn, beq_iff_eq] at hp
    rw [← hp]; exact hy

/-- the heartbeat: every output a publish goes to gets at least one wire message -/
theorem publish_hb (st : St) (ts : List (String × Nat)) (o : Nat) (h : o ∈ pubTargets st) :
    ∃ x ∈ (publish st ts).2, isPubOn o x = true := by
  refine ⟨Out.pub o "//" st.msgId (ts.map (·.1)) (envBal st) 0, ?_, by simp [isPubOn]⟩
  unfold publish
  simp only [List.mem_append]
  right
  rw [List.mem_map]
  exact ⟨o, h, rfl⟩

/-- a wire message of `send_maybe` on output `o`: the gate was passed and `o` is a target of the publish -/
theorem sendMaybe_pub_on (st : St) (o : Nat) (x : Out) (hx : x ∈ (sendMaybe st).2.1) (hp : isPubOn o x = true) :
    (gate st).1 = none ∧ o ∈ pubTargets st := by
  unfold sendMaybe at hx
  simp only at hx
  split at hx
  · simp only [List.mem_append] at hx
    rcases hx with h | h
    · rw [gate_nopub st o x h] at hp; cases hp
    · rw [hello_nopub st _ o x h] at hp; cases hp
  · rename_i hg
    simp only [List.mem_append] at hx
    rcases hx with (h | h) | h
    · rw [gate_nopub st o x h] at hp; cases hp
    · rw [hello_nopub st _ o x h] at hp; cases hp
    · exact ⟨hg, publish_pub_on _ _ o x h hp⟩

/-- a wire message on output `o` among the outputs of an event -/
theorem step_pub_on (st : St) (e : Ev) (o : Nat) (x : Out) (hx : x ∈ (step st e).2) (hp : isPubOn o x = true) :
    e = .trySend ∧ st.inCall = true ∧ (gate st).1 = none ∧ o ∈ pubTargets st := by
  cases e with
  | deliver j r =>
    unfold step stepDeliver at hx; simp only at hx
    split at hx <;> cases hx
  | «begin» s p b =>
    unfold step stepBegin at hx; simp only at hx
    split at hx
    · cases hx
    · split at hx
      · cases hx
      · split at hx
        · simp only [List.mem_singleton] at hx; subst hx; cases hp
        · cases hx
  | handle j t =>
    unfold step stepHandle at hx; simp only at hx
    split at hx
    · cases hx
    · split at hx
      · cases hx
      · cases hx
      · split at hx
        · simp only [endCall, List.mem_append, List.mem_singleton] at hx
          rcases hx with h | h
          · rw [onReq_nopub _ _ _ _ o x h] at hp; cases hp
          · subst h; cases hp
        · rw [onReq_nopub _ _ _ _ o x hx] at hp; cases hp
  | trySend =>
    unfold step stepTrySend at hx; simp only at hx
    split at hx
    · cases hx
    · rename_i hin
      have hin' : st.inCall = true := by simpa using hin
      split at hx
      · simp only [endCall, List.mem_append, List.mem_singleton] at hx
        rcases hx with h | h
        · exact ⟨rfl, hin', sendMaybe_pub_on st o x h hp⟩
        · subst h; cases hp
      · exact ⟨rfl, hin', sendMaybe_pub_on st o x hx hp⟩
  | timeout =>
    unfold step stepTimeout at hx; simp only at hx
    split at hx
    · cases hx
    · simp only [List.mem_singleton] at hx; subst hx; cases hp

/-- past the gate outside `push` mode: the sender had decided to send and tracks at least one client -/
theorem gate_none (st : St) (hp : st.push = false) (hg : (gate st).1 = none) : st.doSend = true ∧ st.clients ≠ [] := by
  unfold gate at hg
  split at hg
  · cases hg
  · rename_i hc
    simp only [hp, Bool.not_false, Bool.and_true, Bool.or_eq_true, Bool.not_eq_true', List.isEmpty_iff, not_or] at hc
    exact ⟨by simpa using hc.1, hc.2⟩

/-- the clients whose `requested` a publish clears (`cleared`) are those of the target outputs -/
theorem pubTargets_bal (st : St) (hb : st.balance = true) (o : Nat) (h : o ∈ pubTargets st) :
    pickOutput st.outputs = some o ∧ pubTargets st = [o] := by
  unfold pubTargets at h ⊢
  simp only [hb, ↓reduceIte] at h ⊢
  cases hp : pickOutput st.outputs with
  | none => rw [hp] at h; cases h
  | some o' =>
    rw [hp] at h
    simp only [List.mem_singleton] at h
    subst h
    exact ⟨rfl, rfl⟩

/-! ### the `requested` flag of one client, seen through a selection of outputs -/

def flaggedSel (cl : Clients) (fid : String) (sel : Nat → Bool) : Bool :=
  cl.any (fun p => p.1 == fid && p.2.requested && sel p.2.out)

def flagSel (cl : Clients) (fid : String) (sel : Nat → Bool) : Nat := if flaggedSel cl fid sel then 1 else 0

theorem flaggedSel_iff (cl : Clients) (fid : String) (sel : Nat → Bool) :
    flaggedSel cl fid sel = true ↔ ∃ p ∈ cl, p.1 = fid ∧ p.2.requested = true ∧ sel p.2.out = true := by
  unfold flaggedSel
  rw [List.any_eq_true]
  constructor
  · rintro ⟨p, hp, hc⟩
    simp only [Bool.and_eq_true, beq_iff_eq] at hc
    exact ⟨p, hp, hc.1.1, hc.1.2, hc.2⟩
  · rintro ⟨p, hp, h1, h2, h3⟩
    exact ⟨p, hp, by simp [h1, h2, h3]⟩

theorem flagSel_le_one (cl : Clients) (fid : String) (sel : Nat → Bool) : flagSel cl fid sel ≤ 1 := by
  unfold flagSel; split <;> omega

theorem flagSel_mono (cl cl' : Clients) (fid : String) (sel : Nat → Bool)
    (h : flaggedSel cl' fid sel = true → flaggedSel cl fid sel = true) : flagSel cl' fid sel ≤ flagSel cl fid sel := by
  unfold flagSel
  by_cases h' : flaggedSel cl' fid sel = true
  · simp [h', h h']
  · simp [h']

theorem flaggedSel_sub (cl cl' : Clients) (fid : String) (sel : Nat → Bool) (h : ∀ p ∈ cl', p ∈ cl) :
    flaggedSel cl' fid sel = true → flaggedSel cl fid sel = true := by
  rw [flaggedSel_iff, flaggedSel_iff]
  rintro ⟨p, hp, hc⟩
  exact ⟨p, h p hp, hc⟩

/-- registering a request on output `j`: the flag of `fid` can only come up if the request is `fid`'s and `j` is selected -/
theorem flaggedSel_cset (cl : Clients) (fid k : String) (v : Client) (sel : Nat → Bool)
    (hn : ¬ (k = fid ∧ sel v.out = true)) :
    flaggedSel (cset cl k v) fid sel = true → flaggedSel cl fid sel = true := by
  rw [flaggedSel_iff, flaggedSel_iff]
  rintro ⟨p, hp, h1, h2, h3⟩
  rcases mem_cset cl k v p hp with ⟨hm, _⟩ | rfl
  · exact ⟨p, hm, h1, h2, h3⟩
  · exact absurd ⟨h1, h3⟩ hn

theorem onReq_flagSel (st : St) (j : Nat) (r : Req) (t : Int) (fid : String) (sel : Nat → Bool) :
    flagSel (onReq st j r t).1.clients fid sel ≤
      flagSel st.clients fid sel + (if fidOf r == fid && sel j && decide (OF.Facts.MSG_ID_SPECIAL < r.mid) then 1 else 0) := by
  by_cases hc : (fidOf r == fid && sel j && decide (OF.Facts.MSG_ID_SPECIAL < r.mid)) = true
  · simp only [hc, ↓reduceIte]
    have := flagSel_le_one (onReq st j r t).1.clients fid sel
    omega
  · simp only [hc, Bool.false_eq_true, ↓reduceIte, Nat.add_zero]
    apply flagSel_mono
    have hreg : ¬ r.mid ≤ OF.Facts.MSG_ID_SPECIAL → flaggedSel (regd st j r t) fid sel = true → flaggedSel st.clients fid sel = true := by
      intro hs
      unfold regd
      apply flaggedSel_cset
      intro ⟨h1, h2⟩
      apply hc
      simp only at h2
      have : fidOf r = fid := h1
      simp only [this, beq_self_eq_true, h2, Bool.and_self, Bool.true_and, decide_eq_true_eq]
      omega
    rcases onReq_cases st j r t with ⟨_, _, _, _, hcl | ⟨_, hcl⟩⟩ | ⟨_, _, _, hcl⟩ | ⟨_, hs, hcl⟩ | ⟨_, hs, hcl, _⟩
    · rw [hcl]; exact id
    · rw [hcl]; exact flaggedSel_sub _ _ fid sel (fun p hp => (List.mem_filter.mp hp).1)
    · rw [hcl]; exact id
    · rw [hcl]; exact hreg hs
    · rw [hcl]
      intro h
      apply hreg hs
      exact flaggedSel_sub _ _ fid sel (fun p hp => (evald_live st j r t p hp).1) h

/-- this event takes a request of `fid` with a normal id (`mid ≥ -1`) from a selected output -/
def takes (st : St) (fid : String) (sel : Nat → Bool) : Ev → Bool
  | .handle j _ => st.inCall && (match st.queues[j]? with
      | some (r :: _) => fidOf r == fid && sel j && decide (OF.Facts.MSG_ID_SPECIAL < r.mid)
      | _ => false)
  | _ => false

theorem cleared_flaggedSel (st : St) (fid : String) (sel : Nat → Bool) :
    flaggedSel (cleared st) fid sel = true → flaggedSel st.clients fid sel = true := by
  rw [flaggedSel_iff, flaggedSel_iff]
  rintro ⟨p, hp, h1, h2, h3⟩
  unfold cleared at hp
  rw [List.mem_map] at hp
  rcases hp with ⟨q, hq, rfl⟩
  by_cases hc : (!st.balance || (pubTargets st).contains q.2.out) = true
  · simp only [hc, ↓reduceIte] at h2
    cases h2
  · simp only [hc, Bool.false_eq_true, ↓reduceIte] at h1 h2 h3
    exact ⟨q, hq, h1, h2, h3⟩

/-- **no event but a request of `fid` taken from a selected output raises the flag of `fid`** -/
theorem step_flagSel (st : St) (e : Ev) (fid : String) (sel : Nat → Bool) :
    flagSel (step st e).1.clients fid sel ≤ flagSel st.clients fid sel + (if takes st fid sel e then 1 else 0) := by
  cases e with
  | deliver j r =>
    unfold step stepDeliver; simp only
    split <;> exact Nat.le_add_right _ _
  | «begin» s p b =>
    unfold step stepBegin; simp only
    split
    · exact Nat.le_add_right _ _
    · split
      · exact Nat.le_add_right _ _
      · split <;> exact Nat.le_add_right _ _
  | handle j t =>
    unfold step stepHandle; simp only
    split
    · exact Nat.le_add_right _ _
    · rename_i hin
      have hin' : st.inCall = true := by simpa using hin
      split
      · exact Nat.le_add_right _ _
      · exact Nat.le_add_right _ _
      · rename_i r q hq
        have := onReq_flagSel { st with queues := st.queues.set j q } j r t fid sel
        have htk : takes st fid sel (Ev.handle j t) = (fidOf r == fid && sel j && decide (OF.Facts.MSG_ID_SPECIAL < r.mid)) := by
          unfold takes; simp only [hin', hq, Bool.true_and]
        rw [htk]
        split
        · exact this
        · exact this
  | trySend =>
    unfold step stepTrySend; simp only
    have key : flagSel (sendMaybe st).1.clients fid sel ≤ flagSel st.clients fid sel := by
      rcases sendMaybe_clients st with ⟨_, hc, _⟩ | ⟨_, _, hc⟩
      · rw [hc]; exact Nat.le_refl _
      · rw [hc]; exact flagSel_mono _ _ _ _ (cleared_flaggedSel st fid sel)
    split
    · exact Nat.le_add_right _ _
    · split
      · exact Nat.le_trans key (Nat.le_add_right _ _)
      · exact Nat.le_trans key (Nat.le_add_right _ _)
  | timeout =>
    unfold step stepTimeout; simp only
    split <;> exact Nat.le_add_right _ _

/-! ### the shape of `send(…, timeout=0)` -/

theorem send0_eq (st : St) (state : Option (Int × Nat)) (payload : Payload) (push : Bool) (prio : List Nat) (t : Int) :
    send0 st state payload push prio t =
      (if ¬ (step st (.begin state payload push)).1.inCall then ((step st (.begin state payload push)).1, (step st (.begin state payload push)).2)
       else
        let d := drain (totalQueued (step st (.begin state payload push)).1 + 1) (step st (.begin state payload push)).1 prio t
        if ¬ d.1.inCall then (d.1, (step st (.begin state payload push)).2 ++ d.2)
        else if ¬ (step d.1 .trySend).1.inCall then ((step d.1 .trySend).1, (step st (.begin state payload push)).2 ++ d.2 ++ (step d.1 .trySend).2)
        else ((step (step d.1 .trySend).1 .timeout).1, (step st (.begin state payload push)).2 ++ d.2 ++ (step d.1 .trySend).2 ++ (step (step d.1 .trySend).1 .timeout).2)) := by
  unfold send0
  rfl

theorem drain_succ (fuel : Nat) (st : St) (prio : List Nat) (t : Int) :
    drain (fuel + 1) st prio t =
      if ¬ st.inCall then (st, []) else
      match pollPick st prio with
      | none => (st, [])
      | some j => ((drain fuel (step st (.handle j t)).1 prio t).1, (step st (.handle j t)).2 ++ (drain fuel (step st (.handle j t)).1 prio t).2) := by
  rfl

theorem drain_ind (P : St → Prop) (hstep : ∀ st j t, P st → P (step st (.handle j t)).1) :
    ∀ (fuel : Nat) (st : St) (prio : List Nat) (t : Int), P st → P (drain fuel st prio t).1 := by
  intro fuel
  induction fuel with
  | zero => intro st prio t h; exact h
  | succ n ih =>
    intro st prio t h
    rw [drain_succ]
    split
    · exact h
    · split
      · exact h
      · exact ih _ prio t (hstep st _ t h)

theorem drain_nopub (o : Nat) : ∀ (fuel : Nat) (st : St) (prio : List Nat) (t : Int), ∀ x ∈ (drain fuel st prio t).2, isPubOn o x = false := by
  intro fuel
  induction fuel with
  | zero => intro st prio t x hx; cases hx
  | succ n ih =>
    intro st prio t x hx
    rw [drain_succ] at hx
    split at hx
    · cases hx
    · split at hx
      · cases hx
      · simp only [List.mem_append] at hx
        rcases hx with h | h
        · cases hp : isPubOn o x with
          | false => rfl
          | true => have := (step_pub_on st _ o x h hp).1; cases this
        · exact ih _ prio t x h

theorem nopub_of_ne (st : St) (e : Ev) (o : Nat) (hne : e ≠ .trySend) : ∀ x ∈ (step st e).2, isPubOn o x = false := by
  intro x hx
  cases hp : isPubOn o x with
  | false => rfl
  | true => exact absurd (step_pub_on st e o x hx hp).1 hne

theorem timeout_clients (st : St) : (step st .timeout).1.clients = st.clients := by
  unfold step stepTimeout; simp only; split <;> rfl

theorem run_balance (evs : List Ev) : ∀ (st : St), (run st evs).1.balance = st.balance := by
  induction evs with
  | nil => intro st; rfl
  | cons e es ih => intro st; rw [run_cons_fst, ih, step_balance]

/-! ### counting publishes and requests along a run -/

/-- this event puts a wire message on a selected output on which `fid` is tracked as a synchronised client -/
def pubIncl (st : St) (fid : String) (sel : Nat → Bool) (e : Ev) : Bool :=
  (step st e).2.any fun x => match x with
    | .pub o _ _ _ _ _ => sel o && st.clients.any (fun p => p.1 == fid && p.2.eph == 0 && p.2.out == o)
    | _ => false

theorem pubIncl_spec (st : St) (fid : String) (sel : Nat → Bool) (e : Ev) (h : pubIncl st fid sel e = true) :
    ∃ o x p, x ∈ (step st e).2 ∧ isPubOn o x = true ∧ sel o = true ∧ p ∈ st.clients ∧ p.1 = fid ∧ p.2.eph = 0 ∧ p.2.out = o := by
  unfold pubIncl at h
  rw [List.any_eq_true] at h
  rcases h with ⟨x, hx, hc⟩
  cases x with
  | pub o f m ts b c =>
    simp only [Bool.and_eq_true, List.any_eq_true, beq_iff_eq] at hc
    rcases hc with ⟨hs, p, hp, ⟨h1, h2⟩, h3⟩
    exact ⟨o, _, p, hx, by simp [isPubOn], hs, hp, h1, h2, h3⟩
  | _ => cases hc

theorem step_trySend_clients (st : St) (hin : st.inCall = true) (hg : (gate st).1 = none) :
    (step st .trySend).1.clients = cleared st := by
  rcases sendMaybe_clients st with ⟨hne, _⟩ | ⟨_, hs, hc⟩
  · exact absurd hg hne
  · unfold step stepTrySend
    simp only [hin, not_true_eq_false, ↓reduceIte, hs, endCall]
    exact hc

def pubCountSel (fid : String) (sel : Nat → Bool) : St → List Ev → Nat
  | _, [] => 0
  | st, e :: es => (if pubIncl st fid sel e then 1 else 0) + pubCountSel fid sel (step st e).1 es

def takenSel (fid : String) (sel : Nat → Bool) : St → List Ev → Nat
  | _, [] => 0
  | st, e :: es => (if takes st fid sel e then 1 else 0) + takenSel fid sel (step st e).1 es

theorem sendMaybe_queues (st : St) : (sendMaybe st).1.queues = st.queues := by
  unfold sendMaybe; simp only; split
  · rfl
  · unfold publish; rfl

theorem step_queued (st : St) (e : Ev) (fid : String) (sel : Nat → Bool) (hn : notFrom fid e) :
    queued (step st e).1 fid + (if takes st fid sel e then 1 else 0) ≤ queued st fid := by
  cases e with
  | deliver j r =>
    unfold step stepDeliver takes; simp only
    split
    · exact Nat.le_refl _
    · rename_i q hq
      have hne : (fidOf r == fid) = false := by simpa [notFrom] using hn
      have hs := sum_set (qcount fid) st.queues j q (q ++ [r]) hq
      have hq' : qcount fid (q ++ [r]) = qcount fid q := by
        unfold qcount; rw [List.filter_append]; simp [hne]
      have : queued { st with queues := st.queues.set j (q ++ [r]) } fid = queued st fid := by
        unfold queued; simp only; omega
      simp only [Bool.false_eq_true, ↓reduceIte, Nat.add_zero]
      omega
  | «begin» s p b =>
    unfold step stepBegin takes; simp only
    split
    · exact Nat.le_refl _
    · split
      · exact Nat.le_refl _
      · split <;> exact Nat.le_refl _
  | handle j t =>
    unfold step stepHandle; simp only
    split
    · rename_i hin
      have : takes st fid sel (.handle j t) = false := by
        unfold takes; simp only [Bool.and_eq_false_imp]; intro h; exact absurd h hin
      simp only [this, Bool.false_eq_true, ↓reduceIte]; exact Nat.le_refl _
    · split
      · rename_i hq
        have : takes st fid sel (.handle j t) = false := by unfold takes; simp only [hq, Bool.and_false]
        simp only [this, Bool.false_eq_true, ↓reduceIte]; exact Nat.le_refl _
      · rename_i hq
        have : takes st fid sel (.handle j t) = false := by unfold takes; simp only [hq, Bool.and_false]
        simp only [this, Bool.false_eq_true, ↓reduceIte]; exact Nat.le_refl _
      · rename_i r q hq
        have hs := sum_set (qcount fid) st.queues j (r :: q) q hq
        have hq' : qcount fid (r :: q) = qcount fid q + (if fidOf r == fid then 1 else 0) := by
          unfold qcount; rw [List.filter_cons]; split <;> simp
        have hqs := onReq_queues { st with queues := st.queues.set j q } j r t
        have htk : (if takes st fid sel (.handle j t) then 1 else 0) ≤ (if fidOf r == fid then 1 else 0) := by
          unfold takes
          simp only [hq]
          by_cases hf : (fidOf r == fid) = true
          · simp only [hf, ↓reduceIte]; split <;> omega
          · simp only [hf, Bool.false_and, Bool.and_false, Bool.false_eq_true, ↓reduceIte]; exact Nat.le_refl _
        have key : ∀ st' : St, st'.queues = (onReq { st with queues := st.queues.set j q } j r t).1.queues →
            queued st' fid + (if fidOf r == fid then 1 else 0) ≤ queued st fid := by
          intro st' hq2
          have h2 : queued st' fid = ((st.queues.set j q).map (qcount fid)).sum := by
            unfold queued; rw [hq2, hqs]
          have h3 : queued st fid = (st.queues.map (qcount fid)).sum := rfl
          omega
        split
        · exact Nat.le_trans (Nat.add_le_add_left htk _) (key _ rfl)
        · exact Nat.le_trans (Nat.add_le_add_left htk _) (key _ rfl)
  | trySend =>
    unfold step stepTrySend takes; simp only
    have : queued (sendMaybe st).1 fid = queued st fid := by unfold queued; rw [sendMaybe_queues]
    split
    · exact Nat.le_refl _
    · split
      · have e2 : queued (endCall (sendMaybe st).1).1 fid = queued (sendMaybe st).1 fid := rfl
        simp only [Bool.false_eq_true, ↓reduceIte, Nat.add_zero]
        omega
      · simp only [Bool.false_eq_true, ↓reduceIte, Nat.add_zero]
        omega
  | timeout =>
    unfold step stepTimeout takes; simp only
    split <;> exact Nat.le_refl _

/-- requests taken are requests that were queued or have arrived -/
theorem taken_le_queued (fid : String) (sel : Nat → Bool) (evs : List Ev) : ∀ (st : St), (∀ e ∈ evs, notFrom fid e) →
    takenSel fid sel st evs + queued (run st evs).1 fid ≤ queued st fid := by
  induction evs with
  | nil => intro st _; simp [takenSel, run]
  | cons e es ih =>
    intro st hq
    have := ih (step st e).1 (fun x hx => hq x (List.mem_cons_of_mem _ hx))
    have h1 := step_queued st e fid sel (hq e (List.mem_cons_self ..))
    rw [run_cons_fst]
    unfold takenSel
    omega

/-- with every output selected the flag is the one of `phi` -/
theorem flagSel_all (st : St) (fid : String) : flagSel st.clients fid (fun _ => true) = flag st fid := by
  unfold flagSel flag flaggedSel flagged
  simp only [Bool.and_true]

end OF.Send
