import OFModel.Zmq.NetLossy
import OFProps.ChainSend
import OFProps.NetLossyLog
import OFProps.NetLossySend
set_option linter.unusedSimpArgs false
/-!
# The wire log with the dicts behind it (helper lemmas for `C02_netl_end_to_end`, `C02NetLossy.lean`)

`recsOf tp st e` = for a `nodeSend p @t` that reaches the sender: every wire message the call puts on the PUB socket (as a
subscriber to `/` sees it), each together with the dict `topic ↦ content` that the node's pending `process()` result stands for
(`dictOf pending.res`).  `recLog` = all records along a lossy run; its projection to `(node, message)` is the observation log
`sentLog` (`recLog_proj`).  Invariant `RecOK`: a recorded message is heartbeat-framed, or its payload identity lies inside the ghost
table and `(topic its frame decodes to, content of its payload identity)` is an entry of the recorded dict — the sender puts every
payload under the frame of its own topic (`send0_T`), the ghost table only grows (`recLog_ok`).
-/
namespace OF.Net.Lossy
open OF.Recv (Src Wire Msg Recvd Topic)

/-- publishing node, wire message, the dict the node's `process()` result stood for in that `send` -/
abbrev Rec := Nat × Wire × List (Topic × Nat)

def recsOf (tp : Topo) (st : St) : LEv → List Rec
  | .base (.nodeSend p t) =>
    match st.nodes[p]? with
    | none => []
    | some nd =>
      match nd.pending with
      | none => []
      | some pd =>
        if Loop.reachesSender (tp.hasOut p) pd.res then
          ((Send.send0 nd.pub nd.sendState (payloadOf st.tbl.length pd.res) false [0] t).2.filterMap (wireOf p)).map
            fun w => (p, w, (dictOf pd.res).getD [])
        else []
  | _ => []

def recLog (tp : Topo) (proc : Proc) : St → List LEv → List Rec
  | _, [] => []
  | st, e :: es => recsOf tp st e ++ recLog tp proc (lstep tp proc st e).1 es

/-- what a record is: made by a `nodeSend` of its node that reached the sender, its dict is what the node's pending `process()`
result (normalised by `process_frames`) stands for -/
theorem recsOf_spec (tp : Topo) (st : St) (e : LEv) (r : Rec) (h : r ∈ recsOf tp st e) :
    ∃ t nd pd, e = .base (.nodeSend r.1 t) ∧ st.nodes[r.1]? = some nd ∧ nd.pending = some pd ∧
      r.2.2 = (dictOf pd.res).getD [] ∧
      r.2.1 ∈ (Send.send0 nd.pub nd.sendState (payloadOf st.tbl.length pd.res) false [0] t).2.filterMap (wireOf r.1) := by
  cases e with
  | base e =>
    cases e with
    | nodeSend p t =>
      simp only [recsOf] at h
      cases hn : st.nodes[p]? with
      | none => rw [hn] at h; cases h
      | some nd =>
        rw [hn] at h
        simp only at h
        cases hpend : nd.pending with
        | none => rw [hpend] at h; cases h
        | some pd =>
          rw [hpend] at h
          simp only at h
          split at h
          · rw [List.mem_map] at h
            rcases h with ⟨w, hw, rfl⟩
            exact ⟨t, nd, pd, rfl, hn, hpend, rfl, hw⟩
          · cases h
    | nodeRecv j => cases h
    | restart j g => cases h
  | dropWire a j k => cases h
  | dropReq p k => cases h
  | dupReq p k => cases h

theorem recsOf_proj (tp : Topo) (proc : Proc) (st : St) (e : LEv) :
    (recsOf tp st e).map (fun r => (r.1, r.2.1)) = pubsOf e (lstep tp proc st e).2 := by
  cases e with
  | base e =>
    cases e with
    | nodeRecv j => simp [recsOf, pubsOf]
    | restart j g => simp [recsOf, pubsOf]
    | nodeSend p t =>
      simp only [recsOf, lstep, step, stepSend]
      cases hn : st.nodes[p]? with
      | none => simp [pubsOf]
      | some nd =>
        simp only
        cases hpend : nd.pending with
        | none => simp [pubsOf]
        | some pd =>
          simp only
          split
          · simp only [sendReal, pubsOf, List.map_map]
            rfl
          · simp [sendSkip, pubsOf]
  | dropWire a j k => simp [recsOf, pubsOf, lstep]
  | dropReq p k => simp [recsOf, pubsOf, lstep]
  | dupReq p k => simp [recsOf, pubsOf, lstep]

/-- the record log projects to the observation log -/
theorem recLog_proj (tp : Topo) (proc : Proc) : ∀ (evs : List LEv) (st : St),
    (recLog tp proc st evs).map (fun r => (r.1, r.2.1)) = sentLog tp proc st evs := by
  intro evs
  induction evs with
  | nil => intro st; rfl
  | cons e es ih => intro st; simp only [recLog, sentLog, List.map_append, recsOf_proj tp proc st e, ih]

/-! ## the ghost table only grows -/

theorem contentOf_append (tbl es : List Entry) (b : Nat) (h : b < tbl.length) : contentOf (tbl ++ es) b = contentOf tbl b := by
  unfold contentOf; rw [List.getElem?_append_left h]

theorem lstep_tbl (tp : Topo) (proc : Proc) (st : St) (e : LEv) : ∃ es, (lstep tp proc st e).1.tbl = st.tbl ++ es := by
  cases e with
  | base e =>
    cases e with
    | nodeRecv i =>
      refine ⟨[], ?_⟩
      simp only [lstep, step, stepRecv, List.append_nil]
      cases st.nodes[i]? with
      | none => rfl
      | some nd =>
        simp only
        split
        · rfl
        · split <;> rfl
    | nodeSend i t =>
      simp only [lstep, step, stepSend]
      cases st.nodes[i]? with
      | none => exact ⟨[], by simp⟩
      | some nd =>
        simp only
        cases nd.pending with
        | none => exact ⟨[], by simp⟩
        | some p =>
          simp only
          split
          · exact ⟨_, rfl⟩
          · exact ⟨[], by simp [sendSkip]⟩
    | restart i g =>
      refine ⟨[], ?_⟩
      simp only [lstep, step, stepRestart, List.append_nil]
      cases st.nodes[i]? with
      | none => rfl
      | some nd => rfl
  | dropWire a j k => exact ⟨[], by simp [lstep, dropWire]⟩
  | dropReq p k => exact ⟨[], by simp [lstep, dropReq]⟩
  | dupReq p k => exact ⟨[], by simp [lstep, dupReq]⟩

/-! ## what a record says -/

/-- heartbeat-framed, or: `(topic the frame decodes to, content of the payload identity)` is an entry of the recorded dict -/
def RecOK (tbl : List Entry) (r : Rec) : Prop :=
  r.2.1.frame0 = "//" ∨ (r.2.1.body < tbl.length ∧ (Recv.decodeTopic r.2.1.frame0, contentOf tbl r.2.1.body) ∈ r.2.2)

theorem recOK_append (tbl es : List Entry) (r : Rec) (h : RecOK tbl r) : RecOK (tbl ++ es) r := by
  rcases h with h | ⟨h1, h2⟩
  · left; exact h
  · right
    refine ⟨by rw [List.length_append]; omega, ?_⟩
    rw [contentOf_append tbl es _ h1]; exact h2

theorem relabel_mem : ∀ (d : List (Topic × Nat)) (base : Nat) (t : String) (b : Nat), (t, b) ∈ relabel base d →
    ∃ c, (t, c) ∈ d ∧ base ≤ b ∧ (d[b - base]?).map (·.2) = some c := by
  intro d
  induction d with
  | nil => intro base t b h; cases h
  | cons p rest ih =>
    intro base t b h
    simp only [relabel, List.mem_cons, Prod.mk.injEq] at h
    rcases h with ⟨rfl, rfl⟩ | h
    · exact ⟨p.2, List.mem_cons_self .., Nat.le_refl _, by simp⟩
    · rcases ih (base + 1) t b h with ⟨c, h1, h2, h3⟩
      refine ⟨c, List.mem_cons_of_mem _ h1, by omega, ?_⟩
      have : b - base = (b - (base + 1)) + 1 := by omega
      rw [this, List.getElem?_cons_succ]; exact h3

theorem contentOf_entries (tbl : List Entry) (d : List (Topic × Nat)) (o : List Org) (b c : Nat)
    (h1 : tbl.length ≤ b) (h2 : (d[b - tbl.length]?).map (·.2) = some c) :
    contentOf (tbl ++ d.map fun p => ({ content := p.2, orig := o } : Entry)) b = c := by
  unfold contentOf
  rw [List.getElem?_append_right h1, List.getElem?_map]
  cases hd : d[b - tbl.length]? with
  | none => rw [hd] at h2; cases h2
  | some p =>
    rw [hd] at h2
    simp only [Option.map_some, Option.some.injEq] at h2
    simp only [Option.map_some, Option.getD_some]; exact h2

/-- the records of one event are `RecOK` w.r.t. the ghost table after the event -/
theorem recsOf_ok (tp : Topo) (proc : Proc) (st : St) (e : LEv) (hinv : NetInv tp st) :
    ∀ r ∈ recsOf tp st e, RecOK (lstep tp proc st e).1.tbl r := by
  intro r hr
  rcases recsOf_spec tp st e r hr with ⟨t, nd, pd, he, hn, hpend, hd, hw⟩
  rcases r with ⟨p, w, d⟩
  simp only at he hn hd hw
  subst he
  have hreach : Loop.reachesSender (tp.hasOut p) pd.res = true := by
    simp only [recsOf, hn, hpend] at hr
    by_cases hc : Loop.reachesSender (tp.hasOut p) pd.res = true
    · exact hc
    · simp only [hc, ↓reduceIte] at hr; cases hr
  have htbl : (lstep tp proc st (.base (.nodeSend p t))).1.tbl = st.tbl ++ entriesOf pd.res (sendOrigin p nd pd) := by
    simp only [lstep, step, stepSend, hn, hpend, hreach, ↓reduceIte, sendReal]
  rw [htbl]
  have hnd := hinv.nodes p nd hn
  rw [List.mem_filterMap] at hw
  rcases hw with ⟨o, ho, hwo⟩
  have hT := send0_T nd.pub nd.sendState (payloadOf st.tbl.length pd.res) false [0] t hnd.pubIdle o ho
  cases o with
  | pub out f mid ts bal body =>
    simp only [wireOf] at hwo
    split at hwo
    · rename_i hvis
      simp only [Option.some.injEq] at hwo
      subst hwo
      rcases hT with ⟨_, hf⟩ | ⟨tn, hmem, hf⟩
      · left; exact hf
      · right
        simp only
        cases hdict : dictOf pd.res with
        | none =>
          have hL : plList (payloadOf st.tbl.length pd.res) = [] := by simp only [payloadOf, hdict, Option.map_none, plList]
          rw [hL] at hmem; cases hmem
        | some dd =>
          have hL : plList (payloadOf st.tbl.length pd.res) = relabel st.tbl.length dd := by
            simp only [payloadOf, hdict, Option.map_some, plList]
          rw [hL] at hmem
          rcases relabel_mem dd st.tbl.length tn body hmem with ⟨c, hc1, hc2, hc3⟩
          have hent : entriesOf pd.res (sendOrigin p nd pd) = dd.map fun q => ({ content := q.2, orig := sendOrigin p nd pd } : Entry) := by
            simp only [entriesOf, hdict, Option.getD_some]
          have hlt : body - st.tbl.length < dd.length := by
            cases hx : dd[body - st.tbl.length]? with
            | none => rw [hx] at hc3; cases hc3
            | some x => exact (List.getElem?_eq_some_iff.mp hx).1
          have hnh : tn.startsWith "_" = false := by
            cases hh : tn.startsWith "_" with
            | false => rfl
            | true =>
              have := frame0_hidden tn hh
              rw [← hf, hvis] at this; cases this
          rw [hent, contentOf_entries st.tbl dd _ body c hc2 hc3, hf, decode_frame0 tn hnh, hd, hdict]
          refine ⟨by rw [List.length_append, List.length_map]; omega, ?_⟩
          simpa using hc1
    · cases hwo
  | hello out =>
    simp only [wireOf, Option.some.injEq] at hwo
    subst hwo
    left; rfl
  | oob b => cases hwo
  | evaluated => cases hwo
  | ret n => cases hwo
  | retNone => cases hwo

theorem recLog_ok (tp : Topo) (proc : Proc) (hp : ProcOK proc) : ∀ (evs : List LEv) (st : St) (recs : List Rec), NetInv tp st →
    (∀ r ∈ recs, RecOK st.tbl r) → ∀ r ∈ recs ++ recLog tp proc st evs, RecOK (lrun tp proc st evs).1.tbl r := by
  intro evs
  induction evs with
  | nil => intro st recs _ h r hr; simp only [recLog, List.append_nil] at hr; exact h r hr
  | cons e es ih =>
    intro st recs hinv h r hr
    simp only [recLog, lrun] at hr ⊢
    rw [← List.append_assoc] at hr
    refine ih _ (recs ++ recsOf tp st e) (netInv_lstep tp proc hp st e hinv) ?_ r hr
    intro x hx
    rw [List.mem_append] at hx
    rcases hx with hx | hx
    · rcases lstep_tbl tp proc st e with ⟨es', he⟩
      rw [he]; exact recOK_append _ _ x (h x hx)
    · exact recsOf_ok tp proc st e hinv x hx

/-! ## what the loop holds is what `process()` returned -/

/-- the pending result of node `i` is `process_frames` of a call of ITS process function -/
def PendProc (proc : Proc) (i : Nat) (pend : Option Pending) : Prop :=
  ∀ pd, pend = some pd → ∃ n hd, pd.res = Loop.processFrames (proc i n hd)

def NodesPP (proc : Proc) (nodes : List Node) : Prop := ∀ u nd, nodes[u]? = some nd → PendProc proc u nd.pending

theorem nodesPP_set (proc : Proc) (nodes : List Node) (i : Nat) (nd' : Node) (h : NodesPP proc nodes)
    (hi : PendProc proc i nd'.pending) : NodesPP proc (nodes.set i nd') := by
  intro u nd hu
  rw [List.getElem?_set] at hu
  by_cases hiu : i = u
  · subst hiu
    simp only [↓reduceIte] at hu
    split at hu
    · cases hu; exact hi
    · cases hu
  · simp only [hiu, ↓reduceIte] at hu
    exact h u nd hu

theorem nodesPP_deliverReqs (tp : Topo) (proc : Proc) (nodes : List Node) (i gen : Nat) (outs : List Recv.Out)
    (h : NodesPP proc nodes) : NodesPP proc (deliverReqs tp nodes i gen outs) := by
  intro u nd hu
  rw [deliverReqs_get] at hu
  cases hn : nodes[u]? with
  | none => rw [hn] at hu; cases hu
  | some nd0 => rw [hn] at hu; simp only [Option.map_some, Option.some.injEq] at hu; subst hu; exact h u nd0 hn

theorem nodesPP_deliverWires (tp : Topo) (proc : Proc) (nodes : List Node) (p : Nat) (ws : List Wire)
    (h : NodesPP proc nodes) : NodesPP proc (deliverWires tp nodes p ws) := by
  intro u nd hu
  rw [deliverWires_get] at hu
  cases hn : nodes[u]? with
  | none => rw [hn] at hu; cases hu
  | some nd0 => rw [hn] at hu; simp only [Option.map_some, Option.some.injEq] at hu; subst hu; exact h u nd0 hn

theorem nodesPP_mapAt (proc : Proc) (nodes : List Node) (i : Nat) (f : Node → Node) (h : NodesPP proc nodes)
    (hf : ∀ nd, (f nd).pending = nd.pending) : NodesPP proc (nodes.mapIdx fun a nd => if a = i then f nd else nd) := by
  intro u nd hu
  rw [mapAt_get] at hu
  cases hn : nodes[u]? with
  | none => rw [hn] at hu; cases hu
  | some nd0 =>
    rw [hn] at hu; simp only [Option.map_some, Option.some.injEq] at hu
    by_cases hui : u = i
    · simp only [hui, ↓reduceIte] at hu; subst hu; rw [hf]; exact h u nd0 hn
    · simp only [hui, ↓reduceIte] at hu; subst hu; exact h u nd0 hn

theorem pendProc_none (proc : Proc) (i : Nat) : PendProc proc i none := by intro pd h; cases h

theorem pendProc_processed (proc : Proc) (i : Nat) (nd : Node) (frames : List HFrame) :
    PendProc proc i (processed proc i nd frames).pending := by
  intro pd h
  simp only [processed, Option.some.injEq] at h
  subst h
  exact ⟨_, _, rfl⟩

theorem nodesPP_lstep (tp : Topo) (proc : Proc) (st : St) (e : LEv) (h : NodesPP proc st.nodes) :
    NodesPP proc (lstep tp proc st e).1.nodes := by
  cases e with
  | base e =>
    cases e with
    | nodeRecv i =>
      simp only [lstep, step, stepRecv]
      cases hn : st.nodes[i]? with
      | none => exact h
      | some nd =>
        simp only
        split
        · exact h
        · split
          · simp only [recvSource]
            exact nodesPP_set proc st.nodes i _ h (pendProc_processed proc i nd [])
          · simp only [recvRelay]
            apply nodesPP_deliverReqs
            apply nodesPP_set proc st.nodes i _ h
            unfold afterRecv
            split
            · exact h i nd hn
            · exact pendProc_processed proc i _ _
    | nodeSend i t =>
      simp only [lstep, step, stepSend]
      cases hn : st.nodes[i]? with
      | none => exact h
      | some nd =>
        simp only
        cases hpend : nd.pending with
        | none => exact h
        | some p =>
          simp only
          split
          · simp only [sendReal]
            apply nodesPP_deliverWires
            apply nodesPP_set proc st.nodes i _ h
            unfold afterSend
            split
            · exact pendProc_none proc i
            · exact h i nd hn
          · simp only [sendSkip]
            exact nodesPP_set proc st.nodes i _ h (pendProc_none proc i)
    | restart i g =>
      simp only [lstep, step, stepRestart]
      cases hn : st.nodes[i]? with
      | none => exact h
      | some nd =>
        simp only
        apply nodesPP_deliverWires
        apply nodesPP_deliverReqs
        exact nodesPP_set proc st.nodes i _ h (pendProc_none proc i)
  | dropWire a j k =>
    simp only [lstep, dropWire]
    exact nodesPP_mapAt proc st.nodes a (fun nd => { nd with con := dropWireCon nd.con j k }) h (fun _ => rfl)
  | dropReq p k =>
    simp only [lstep, dropReq]
    exact nodesPP_mapAt proc st.nodes p (fun nd => { nd with pub := dropReqPub nd.pub k }) h (fun _ => rfl)
  | dupReq p k =>
    simp only [lstep, dupReq]
    exact nodesPP_mapAt proc st.nodes p (fun nd => { nd with pub := dupReqPub nd.pub k }) h (fun _ => rfl)

theorem nodesPP_init (tp : Topo) (proc : Proc) : NodesPP proc (init tp).nodes := by
  intro u nd hu
  simp only [init, List.getElem?_map] at hu
  cases hr : (List.range tp.n)[u]? with
  | none => rw [hr] at hu; cases hu
  | some v => rw [hr] at hu; cases hu; exact pendProc_none proc u

theorem nodesPP_lrun (tp : Topo) (proc : Proc) : ∀ (evs : List LEv) (st : St), NodesPP proc st.nodes →
    NodesPP proc (lrun tp proc st evs).1.nodes := by
  intro evs
  induction evs with
  | nil => intro st h; exact h
  | cons e es ih => intro st h; exact ih _ (nodesPP_lstep tp proc st e h)

end OF.Net.Lossy
