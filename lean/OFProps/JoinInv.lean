import OFProps.JoinProof
import OFProps.C01
/-!
# Join completeness (C03 stage A1): the invariant

For a non-balanced receiver whose sources are plain one-topic publishers delivering their streams in FIFO order,
every source is, relative to the frontier `F = expected st`, in one of three modes:
* *idle*: buffer empty, registered, nothing of an id `≥ F` consumed yet;
* *idle with a pending heartbeat* of an id `< F`;
* *complete*: holds exactly the topic message of id `F`, is out of the poller, its heartbeat of `F` is next.
-/
namespace OF.Recv

structure JSpec where
  topics : List Topic
  ids    : List (List Int)

def SpecOK (sp : JSpec) : Prop :=
  ∀ (j : Nat) (t : Topic) (ids : List Int), sp.topics[j]? = some t → sp.ids[j]? = some ids →
    GoodTopic t ∧ ids.Pairwise (· < ·) ∧ ∀ k ∈ ids, 0 ≤ k

/-- mode of one source; `rem` = queued ++ not yet delivered -/
def SrcOK (t : Topic) (ids : List Int) (F : Int) (s : Src) (rem : List Wire) : Prop :=
  ∃ (pre rest : List Int) (ws : List Wire), ids = pre ++ rest ∧ Stream t rest ws ∧
    ( (rem = ws ∧ s.recvd = recvdNew s ∧ s.reg = true ∧ ∀ c ∈ pre, c < F) ∨
      (∃ k h, rem = h :: ws ∧ IsH t k h ∧ k ∈ pre ∧ s.recvd = recvdNew s ∧ s.reg = true ∧ ∀ c ∈ pre, c < F) ∨
      (∃ h m pre', pre = pre' ++ [F] ∧ rem = h :: ws ∧ IsH t F h ∧ s.recvd = some [(t, some m)] ∧ m.mid = F ∧
          s.reg = false ∧ ∀ c ∈ pre', c < F) )

def JInv (sp : JSpec) (n : NSt) : Prop :=
  n.st.dead = false →
  n.st.balance = false ∧ n.st.srcs.length = sp.ids.length ∧
  ∀ (j : Nat) (s : Src), n.st.srcs[j]? = some s →
    ∃ t ids fut, sp.topics[j]? = some t ∧ sp.ids[j]? = some ids ∧ n.future[j]? = some fut ∧
      PlainSrc t s ∧ SrcOK t ids (expected n.st) s (s.queue ++ fut)

/-! ### small facts -/

theorem stream_cons_inv {t : Topic} {k : Int} {ks : List Int} {ws : List Wire} (h : Stream t (k :: ks) ws) :
    ∃ wt wh ws', ws = wt :: wh :: ws' ∧ IsT t k wt ∧ IsH t k wh ∧ Stream t ks ws' := by
  cases h with
  | cons h1 h2 h3 => exact ⟨_, _, _, rfl, h1, h2, h3⟩

theorem stream_nil_inv {t : Topic} {ws : List Wire} (h : Stream t [] ws) : ws = [] := by
  cases h; rfl

/-- in a strictly increasing list, anything below an element sits before it -/
theorem sorted_before (pre rest : List Int) (k c : Int) (hs : (pre ++ k :: rest).Pairwise (· < ·))
    (hc : c ∈ pre ++ k :: rest) (hlt : c < k) : c ∈ pre := by
  rw [List.mem_append] at hc
  rcases hc with h | h
  · exact h
  · rw [List.pairwise_append] at hs
    rcases List.mem_cons.mp h with rfl | h'
    · omega
    · have := (List.pairwise_cons.mp hs.2.1).1 c h'
      omega

/-- SrcOK only reads `recvd`, `reg` of the source -/
theorem SrcOK_congr (t : Topic) (ids : List Int) (F : Int) (s s' : Src) (rem : List Wire)
    (h1 : s'.recvd = s.recvd) (h2 : s'.reg = s.reg) (hn : recvdNew s' = recvdNew s) : SrcOK t ids F s rem → SrcOK t ids F s' rem := by
  rintro ⟨pre, rest, ws, e1, e2, h⟩
  refine ⟨pre, rest, ws, e1, e2, ?_⟩
  rw [h1, h2, hn]; exact h

/-- raising the frontier keeps idle sources idle and turns a complete one into "idle with pending heartbeat" once it is reset -/
theorem SrcOK_reset (t : Topic) (ids : List Int) (F F' : Int) (s s' : Src) (rem : List Wire) (hF : F < F')
    (hr : s'.recvd = recvdNew s') (hg : s'.reg = true) : SrcOK t ids F s rem → SrcOK t ids F' s' rem := by
  rintro ⟨pre, rest, ws, e1, e2, h⟩
  refine ⟨pre, rest, ws, e1, e2, ?_⟩
  rcases h with ⟨h1, _, _, h4⟩ | ⟨k, h, h1, h2, h3, _, _, h6⟩ | ⟨h, m, pre', h1, h2, h3, _, _, _, h7⟩
  · left; exact ⟨h1, hr, hg, fun c hc => by have := h4 c hc; omega⟩
  · right; left; exact ⟨k, h, h1, h2, h3, hr, hg, fun c hc => by have := h6 c hc; omega⟩
  · right; left
    refine ⟨F, h, h2, ?_, by rw [h1]; simp, hr, hg, ?_⟩
    · rcases h3 with ⟨a, b, c, d⟩; exact ⟨a, b, c, d⟩
    · intro c hc
      rw [h1, List.mem_append] at hc
      rcases hc with hc | hc
      · have := h7 c hc; omega
      · simp only [List.mem_singleton] at hc; omega

theorem PlainSrc_congr (t : Topic) (s s' : Src) (h1 : s'.eph = s.eph) (h2 : s'.subAll = s.subAll) (h3 : s'.star = s.star)
    (h4 : s'.subs = s.subs) : PlainSrc t s → PlainSrc t s' := by
  rintro ⟨a, b, c⟩; exact ⟨h1 ▸ a, h3 ▸ b, by rw [h2, h4]; exact c⟩

/-- transfer principle: if every source of the new state comes from the source at the same index and its mode carries over,
the invariant carries over -/
theorem JInv_of (sp : JSpec) (n n' : NSt) (hd : n'.st.dead = n.st.dead) (hb : n'.st.balance = n.st.balance)
    (hlen : n'.st.srcs.length = n.st.srcs.length)
    (hsrc : n.st.dead = false → n.st.balance = false →
      ∀ (j : Nat) (s' : Src), n'.st.srcs[j]? = some s' → ∃ s, n.st.srcs[j]? = some s ∧
        (∀ t, PlainSrc t s → PlainSrc t s') ∧
        ∀ fut, n.future[j]? = some fut → ∃ fut', n'.future[j]? = some fut' ∧
          ∀ t ids, sp.topics[j]? = some t → sp.ids[j]? = some ids → PlainSrc t s →
            SrcOK t ids (expected n.st) s (s.queue ++ fut) → SrcOK t ids (expected n'.st) s' (s'.queue ++ fut')) :
    JInv sp n → JInv sp n' := by
  intro h hd'
  rw [hd] at hd'
  have ⟨h1, h2, h3⟩ := h hd'
  refine ⟨hb ▸ h1, hlen ▸ h2, ?_⟩
  intro j s' hj
  rcases hsrc hd' h1 j s' hj with ⟨s, hs, hp, hf⟩
  rcases h3 j s hs with ⟨t, ids, fut, e1, e2, e3, e4, e5⟩
  rcases hf fut e3 with ⟨fut', e3', hok⟩
  exact ⟨t, ids, fut', e1, e2, e3', hp t e4, hok t ids e1 e2 e4 e5⟩

/-! ### events that do not touch the sources' buffers -/

theorem deliverNext_JInv (sp : JSpec) (n : NSt) (j : Nat) (h : JInv sp n) : JInv sp (nDeliver n j).1 := by
  unfold nDeliver
  cases hf : n.future[j]? with
  | none => exact h
  | some fl =>
    cases fl with
    | nil => exact h
    | cons w rest =>
      simp only
      unfold stepDeliver
      cases hs : n.st.srcs[j]? with
      | none =>
        simp only
        refine JInv_of sp n _ rfl rfl rfl ?_ h
        intro _ _ a s' ha
        refine ⟨s', ha, fun _ h => h, ?_⟩
        intro fut hfut
        have haj : a ≠ j := by intro e; rw [e, hs] at ha; cases ha
        refine ⟨fut, by simp only; rw [List.getElem?_set_ne (fun e => haj e.symm)]; exact hfut, ?_⟩
        intro t ids _ _ _ hok; exact hok
      | some s =>
        simp only
        refine JInv_of sp n _ rfl rfl (by simp) ?_ h
        intro _ _ a s' ha
        simp only [List.getElem?_set] at ha
        by_cases haj : j = a
        · subst haj
          have hlen : j < n.st.srcs.length := (List.getElem?_eq_some_iff.mp hs).1
          simp only [hlen, ↓reduceIte, Option.some.injEq] at ha
          subst ha
          refine ⟨s, hs, fun t hp => PlainSrc_congr t s _ rfl rfl rfl rfl hp, ?_⟩
          intro fut hfut
          rw [hf] at hfut; cases hfut
          have hlen2 : j < n.future.length := (List.getElem?_eq_some_iff.mp hf).1
          refine ⟨rest, by simp only [List.getElem?_set, hlen2, ↓reduceIte], ?_⟩
          intro t ids _ _ _ hok
          have : (s.queue ++ [w]) ++ rest = s.queue ++ (w :: rest) := by simp
          simp only
          rw [this]
          exact SrcOK_congr t ids _ s _ _ rfl rfl rfl hok
        · simp only [haj, ↓reduceIte] at ha
          refine ⟨s', ha, fun _ h => h, ?_⟩
          intro fut hfut
          refine ⟨fut, by simp only; rw [List.getElem?_set_ne haj]; exact hfut, ?_⟩
          intro t ids _ _ _ hok; exact hok

theorem expected_begin_none (st : St) (hd : st.dead = false) :
    expected (stepBegin st none).1 = expected st := by
  unfold stepBegin
  by_cases hc : st.inCall = true
  · simp [hd, hc]
  · have hc' : st.inCall = false := by simpa using hc
    simp only [hd, hc', Bool.false_eq_true, or_self, ↓reduceIte]
    unfold expected beginId; simp [hc']

theorem same_srcs_JInv (sp : JSpec) (n : NSt) (st' : St) (hsr : st'.srcs = n.st.srcs) (hd : st'.dead = n.st.dead)
    (hb : st'.balance = n.st.balance) (he : n.st.dead = false → expected st' = expected n.st) (h : JInv sp n) :
    JInv sp { n with st := st' } := by
  refine JInv_of sp n _ hd hb (by simp only; rw [hsr]) ?_ h
  intro hdd _ a s' ha
  simp only at ha; rw [hsr] at ha
  refine ⟨s', ha, fun _ h => h, ?_⟩
  intro fut hfut
  refine ⟨fut, hfut, ?_⟩
  intro t ids _ _ _ hok
  simp only; rw [he hdd]; exact hok

theorem begin_JInv (sp : JSpec) (n : NSt) (h : JInv sp n) : JInv sp (nRecv n (.begin none)).1 := by
  unfold nRecv step
  simp only
  refine same_srcs_JInv sp n _ ?_ ?_ ?_ ?_ h
  · unfold stepBegin; split <;> rfl
  · unfold stepBegin; split <;> rfl
  · unfold stepBegin; split <;> rfl
  · intro hd; exact expected_begin_none n.st hd

theorem request_JInv (sp : JSpec) (n : NSt) (h : JInv sp n) : JInv sp (nRecv n .request).1 := by
  unfold nRecv step
  simp only
  refine same_srcs_JInv sp n _ ?_ ?_ ?_ ?_ h
  · unfold stepRequest; split <;> rfl
  · unfold stepRequest; split <;> rfl
  · unfold stepRequest; split <;> rfl
  · intro _; unfold stepRequest; split <;> rfl

theorem timeout_JInv (sp : JSpec) (n : NSt) (h : JInv sp n) : JInv sp (nRecv n .timeout).1 := by
  unfold nRecv step
  simp only
  refine same_srcs_JInv sp n _ ?_ ?_ ?_ ?_ h
  · unfold stepTimeout; split <;> rfl
  · unfold stepTimeout; split <;> rfl
  · unfold stepTimeout; split <;> rfl
  · intro hd
    by_cases hc : n.st.inCall = true
    · exact C01_timeout_keeps_id n.st hd hc
    · unfold stepTimeout; simp [hc]

/-! ### what the head of a registered source's remaining stream can be -/

theorem take_src (t : Topic) (ids : List Int) (F : Int) (s : Src) (w : Wire) (r : List Wire)
    (hsorted : ids.Pairwise (· < ·)) (hnn : ∀ k ∈ ids, 0 ≤ k)
    (hok : SrcOK t ids F s (w :: r)) (hreg : s.reg = true) :
    (w.mid < F ∧ 0 ≤ w.mid ∧ w.bal = 0 ∧ s.recvd = recvdNew s ∧
        ∀ s' : Src, s'.recvd = recvdNew s' → s'.reg = true → SrcOK t ids F s' r) ∨
    (F ≤ w.mid ∧ 0 ≤ w.mid ∧ IsT t w.mid w ∧ s.recvd = recvdNew s ∧ w.mid ∈ ids ∧ (∀ c ∈ ids, F ≤ c → c < w.mid → False) ∧
        ∀ (s' : Src) (m : Msg), s'.recvd = some [(t, some m)] → m.mid = w.mid → s'.reg = false → SrcOK t ids w.mid s' r) := by
  rcases hok with ⟨pre, rest, ws, e1, e2, h⟩
  rcases h with ⟨h1, h2, _, h4⟩ | ⟨k, h, h1, h2, h3, h4, _, h6⟩ | ⟨h, m, pre', _, _, _, _, _, h6, _⟩
  · -- idle: the head is the topic message of the next id
    cases rest with
    | nil => rw [stream_nil_inv e2] at h1; cases h1
    | cons k rest' =>
      rcases stream_cons_inv e2 with ⟨wt, wh, ws', e3, ht, hh, hst⟩
      rw [e3] at h1
      simp only [List.cons.injEq] at h1
      rcases h1 with ⟨rfl, rfl⟩
      have hk : w.mid = k := ht.1
      have hkin : k ∈ ids := by rw [e1]; simp
      by_cases hlt : k < F
      · left
        refine ⟨by omega, by rw [hk]; exact hnn k hkin, ht.2.2.2, h2, ?_⟩
        intro s' hr hg
        refine ⟨pre ++ [k], rest', ws', by rw [e1]; simp, hst, Or.inr (Or.inl ⟨k, wh, rfl, hh, by simp, hr, hg, ?_⟩)⟩
        intro c hc
        rw [List.mem_append] at hc
        rcases hc with hc | hc
        · exact h4 c hc
        · simp only [List.mem_singleton] at hc; omega
      · right
        refine ⟨by omega, by rw [hk]; exact hnn k hkin, by rw [hk]; exact ht, h2, by rw [hk]; exact hkin, ?_, ?_⟩
        · intro c hc hFc hck
          rw [hk] at hck
          have : c ∈ pre := sorted_before pre rest' k c (e1 ▸ hsorted) (e1 ▸ hc) hck
          have := h4 c this
          omega
        · intro s' m hr hm hg
          refine ⟨pre ++ [k], rest', ws', by rw [e1]; simp, hst,
            Or.inr (Or.inr ⟨wh, m, pre, by rw [hk], rfl, by rw [hk]; exact hh, hr, hm, hg, ?_⟩)⟩
          intro c hc; have := h4 c hc; omega
  · -- idle with a pending heartbeat of an older id
    simp only [List.cons.injEq] at h1
    rcases h1 with ⟨rfl, rfl⟩
    left
    have hk : w.mid = k := h2.1
    have hkin : k ∈ ids := by rw [e1]; exact List.mem_append_left _ h3
    refine ⟨by have := h6 k h3; omega, by rw [hk]; exact hnn k hkin, h2.2.2.2, h4, ?_⟩
    intro s' hr hg
    exact ⟨pre, rest, r, e1, e2, Or.inl ⟨rfl, hr, hg, h6⟩⟩
  · -- complete: not in the poller
    rw [hreg] at h6; cases h6

theorem onTake_empty (st : St) (i : Nat) (s0 : Src) (hs : st.srcs[i]? = some s0) (hq : s0.queue = []) :
    (onTake st i).1 = st := by
  unfold onTake; rw [hs]; simp [hq]

/-! ### take -/

theorem take_JInv (sp : JSpec) (hsp : SpecOK sp) (n : NSt) (i : Nat) (h : JInv sp n) : JInv sp (nRecv n (.take i)).1 := by
  unfold nRecv step stepTake
  simp only
  by_cases hg : n.st.dead = true ∨ ¬ n.st.inCall = true
  · simp only [hg, ↓reduceIte]; exact h
  · simp only [hg, ↓reduceIte]
    have hd : n.st.dead = false := by
      cases hc : n.st.dead with
      | false => rfl
      | true => exact absurd (Or.inl hc) hg
    have hin : n.st.inCall = true := by
      cases hc : n.st.inCall with
      | true => rfl
      | false => exact absurd (Or.inr (by simp [hc])) hg
    have hexp : expected n.st = n.st.minRecvId := by unfold expected; simp [hin]
    cases hs : n.st.srcs[i]? with
    | none => exact h
    | some s0 =>
      simp only
      cases hreg : s0.reg with
      | false => simp only [Bool.false_eq_true, ↓reduceIte]; exact h
      | true =>
      simp only [↓reduceIte]
      have ⟨hbal, _, hall⟩ := h hd
      rcases hall i s0 hs with ⟨t, ids, fut, et, ei, ef, hp, hok⟩
      have ⟨hgt, hsorted, hnn⟩ := hsp i t ids et ei
      cases hq : s0.queue with
      | nil => rw [onTake_empty n.st i s0 hs hq]; exact h
      | cons w q =>
        rw [hq] at hok
        have hok' : SrcOK t ids (expected n.st) s0 (w :: (q ++ fut)) := by simpa using hok
        rcases take_src t ids (expected n.st) s0 w (q ++ fut) hsorted hnn hok' hreg with
          ⟨hlt, h0, hb0, hr0, hnext⟩ | ⟨hge, h0, hT, hr0, _, _, hnext⟩
        · -- older: dropped
          rw [onTake_older n.st i s0 w q hs hq hp.1 h0 (hexp ▸ hlt) hb0]
          refine JInv_of sp n _ rfl rfl (by simp) ?_ h
          intro _ _ a s' ha
          simp only [List.getElem?_set] at ha
          by_cases hia : i = a
          · subst hia
            have hlen : i < n.st.srcs.length := (List.getElem?_eq_some_iff.mp hs).1
            simp only [hlen, ↓reduceIte, Option.some.injEq] at ha
            subst ha
            refine ⟨s0, hs, fun t hp => PlainSrc_congr t s0 _ rfl rfl rfl rfl hp, ?_⟩
            intro fut' hfut'
            rw [ef] at hfut'; cases hfut'
            refine ⟨fut, ef, ?_⟩
            intro t' ids' et' ei' _ _
            rw [et] at et'; rw [ei] at ei'; cases et'; cases ei'
            simp only
            exact hnext _ hr0 hreg
          · simp only [hia, ↓reduceIte] at ha
            refine ⟨s', ha, fun _ h => h, ?_⟩
            intro fut' hfut'
            exact ⟨fut', hfut', fun t' ids' _ _ _ hok' => hok'⟩
        · -- topic message of an id that is not older: source i becomes complete for that id; a newer id resets the others
          have hge' : n.st.minRecvId ≤ w.mid := hexp ▸ hge
          rw [onTake_topic n.st i s0 w q t hs hq hp hr0 hgt hT h0 hge' hT.2.2.2 hbal]
          have hlen : i < n.st.srcs.length := (List.getElem?_eq_some_iff.mp hs).1
          have hexp' : ∀ srcs, expected { n.st with srcs := srcs, minRecvId := w.mid } = w.mid := by
            intro srcs; unfold expected; simp [hin]
          by_cases hnew : n.st.minRecvId < w.mid
          · -- newer: adoption
            simp only [hnew, ↓reduceIte]
            refine JInv_of sp n _ rfl rfl (by simp [resetOthers]) ?_ h
            intro _ _ a s' ha
            simp only at ha
            rw [resetOthers_get, List.getElem?_set] at ha
            by_cases hia : i = a
            · subst hia
              simp only [hlen, ↓reduceIte, Option.map_some, ne_eq, not_true_eq_false, false_and, Option.some.injEq] at ha
              subst ha
              refine ⟨s0, hs, fun t hp => PlainSrc_congr t s0 _ rfl rfl rfl rfl hp, ?_⟩
              intro fut' hfut'
              rw [ef] at hfut'; cases hfut'
              refine ⟨fut, ef, ?_⟩
              intro t' ids' et' ei' _ _
              rw [et] at et'; rw [ei] at ei'; cases et'; cases ei'
              simp only
              rw [hexp']
              exact hnext _ (frameOf i w t) rfl rfl rfl
            · simp only [hia, ↓reduceIte] at ha
              cases h0a : n.st.srcs[a]? with
              | none => rw [h0a] at ha; cases ha
              | some sa =>
                rw [h0a] at ha
                simp only [Option.map_some, Option.some.injEq] at ha
                refine ⟨sa, rfl, ?_, ?_⟩
                · intro t' hpa
                  subst ha
                  split
                  · exact PlainSrc_congr t' sa _ rfl rfl rfl rfl hpa
                  · exact hpa
                · intro fut' hfut'
                  refine ⟨fut', hfut', ?_⟩
                  intro t' ids' _ _ hpa hoka
                  have hcond : a ≠ i ∧ sa.eph = 0 := ⟨fun e => hia e.symm, hpa.1⟩
                  simp only [hcond, ne_eq, not_false_eq_true, and_self, ↓reduceIte] at ha
                  subst ha
                  simp only
                  rw [hexp']
                  exact SrcOK_reset t' ids' (expected n.st) w.mid sa _ _ (by rw [hexp]; exact hnew) rfl rfl hoka
          · -- same id
            have hsame : w.mid = n.st.minRecvId := by omega
            simp only [hnew, ↓reduceIte]
            refine JInv_of sp n _ rfl rfl (by simp) ?_ h
            intro _ _ a s' ha
            simp only [List.getElem?_set] at ha
            by_cases hia : i = a
            · subst hia
              simp only [hlen, ↓reduceIte, Option.some.injEq] at ha
              subst ha
              refine ⟨s0, hs, fun t hp => PlainSrc_congr t s0 _ rfl rfl rfl rfl hp, ?_⟩
              intro fut' hfut'
              rw [ef] at hfut'; cases hfut'
              refine ⟨fut, ef, ?_⟩
              intro t' ids' et' ei' _ _
              rw [et] at et'; rw [ei] at ei'; cases et'; cases ei'
              simp only
              rw [hexp']
              exact hnext _ (frameOf i w t) rfl rfl rfl
            · simp only [hia, ↓reduceIte] at ha
              refine ⟨s', ha, fun _ h => h, ?_⟩
              intro fut' hfut'
              refine ⟨fut', hfut', ?_⟩
              intro t' ids' _ _ _ hoka
              simp only
              rw [hexp', hsame, ← hexp]
              exact hoka

/-! ### check / finish -/

theorem newRecvAll_get' (srcs : List Src) (j : Nat) :
    (newRecvAll srcs)[j]? = srcs[j]?.map (fun s => { s with recvd := recvdNew s, reg := true }) := by
  unfold newRecvAll; rw [List.getElem?_map]

theorem check_JInv (sp : JSpec) (n : NSt) (h : JInv sp n) : JInv sp (nRecv n .check).1 := by
  unfold nRecv step stepCheck
  simp only
  by_cases hg : n.st.dead = true ∨ ¬ n.st.inCall = true
  · simp only [hg, ↓reduceIte]; exact h
  · simp only [hg, ↓reduceIte]
    have hin : n.st.inCall = true := by
      cases hc : n.st.inCall with
      | true => rfl
      | false => exact absurd (Or.inr (by simp [hc])) hg
    have hexp : expected n.st = n.st.minRecvId := by unfold expected; simp [hin]
    cases hrc : returnCond n.st with
    | false => simp only [Bool.false_eq_true, ↓reduceIte]; exact h
    | true =>
    simp only [↓reduceIte]
    unfold finish
    simp only
    split
    · intro hd'; simp at hd'
    · refine JInv_of sp n _ rfl rfl (by simp [newRecvAll]) ?_ h
      intro _ _ a s' ha
      simp only at ha
      rw [newRecvAll_get'] at ha
      cases h0a : n.st.srcs[a]? with
      | none => rw [h0a] at ha; cases ha
      | some sa =>
        rw [h0a] at ha
        simp only [Option.map_some, Option.some.injEq] at ha
        subst ha
        refine ⟨sa, rfl, fun t hp => PlainSrc_congr t sa _ rfl rfl rfl rfl hp, ?_⟩
        intro fut' hfut'
        refine ⟨fut', hfut', ?_⟩
        intro t' ids' _ _ hpa hoka
        have hexp' : expected { n.st with prevId := n.st.minRecvId, srcs := newRecvAll n.st.srcs, inCall := false } = n.st.minRecvId + 1 := by
          unfold expected; simp
        simp only
        rw [hexp']
        exact SrcOK_reset t' ids' (expected n.st) _ sa _ _ (by rw [hexp]; omega) rfl rfl hoka

/-- **the join invariant is preserved by every admissible network/receiver event** -/
theorem nstep_JInv (sp : JSpec) (hsp : SpecOK sp) (n : NSt) (e : NEv) (ha : NAdm e) (h : JInv sp n) : JInv sp (nstep n e).1 := by
  cases e with
  | deliverNext j => exact deliverNext_JInv sp n j h
  | recv e =>
    unfold nstep
    cases e with
    | deliver i w => exact absurd ha (by simp [NAdm])
    | «begin» state =>
      cases state with
      | none => exact begin_JInv sp n h
      | some k => exact absurd ha (by simp [NAdm])
    | take i => exact take_JInv sp hsp n i h
    | check => exact check_JInv sp n h
    | request => exact request_JInv sp n h
    | timeout => exact timeout_JInv sp n h

end OF.Recv
