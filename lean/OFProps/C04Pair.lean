import OFProps.C06Live
set_option linter.unusedSimpArgs false
/-!
# C04 on the closed pair — a stalled consumer stalls its publisher (`OFModel/Zmq/Pair.lean`)

The sender-level counting theorem (`C04Potential.lean`, `C04_bounded_publishes`) bounds publishes by a potential that
includes the requests still to arrive.  Here the loop is closed: the requests come from the consumer of the pair, and a
stalled consumer (one that makes no `recv` call) pushes none.  For EVERY reachable state (any history, restarts anywhere):
* `C04_pair_stall_bounded` — over any continuation of `send` calls only (any number, any payloads, any clock readings,
  before or after ZMQ_CONN_TIMEOUT) at most ONE more frame set is published; what reaches the consumer's inbound channel
  is that one block (one id) and at most HELLOs; if a frame set not yet taken is already in flight, nothing is published.
  The constant is 1, not `1 + #queued requests`: a `send` evaluates "have all asked?" only while it drains requests, it
  drains them all (or is ended, publishing nothing, by a fast-forward), and a publish clears every `requested` flag.
* `C04_pair_one_block_in_flight`, `C04_pair_stall_one_block` — bounded buffering as an invariant (`Tight.one`): at any
  moment all adoptable wire messages in flight belong to one frame set.
* `C04_pair_resumes` — after a stall of any length the 12-event continuation of `C06_pair_recovers_const` delivers a new
  frame set; `C04_pair_resumes_at_once_partial` — with one regular request of a tracked client queued and every other
  client stale, the very next `send` publishes.
A "publish" is counted on the wire as the consumer's subscription sees it (`isPublish`): every publish includes the `//`
heartbeat carrying the id, which always passes the subscription.  Not in this model: several consumers / outputs,
balanced mode, `push` mode, HWM.
-/
namespace OF.Pair
open OF

/-- a continuation in which the consumer is stalled: only `send` calls happen (any payloads, any clock readings) -/
def SendsOnly (evs : List Ev) : Prop := ∀ e ∈ evs, ∃ p t, e = .sendCall p t

/-- a wire message that belongs to a published frame set (topic message or heartbeat), as opposed to HELLO / CLOSE -/
def isData (w : Recv.Wire) : Bool := decide (0 ≤ w.mid)

/-- did this event put a frame set on the wire towards the consumer? (every publish includes the `//` heartbeat, which
the consumer's subscription lets through) -/
def isPublish : Obs → Bool
  | .sent outs => (outs.filterMap wireOf).any isData
  | _ => false

/-- number of publishes along a run -/
def publishes (obs : List Obs) : Nat := (obs.filter isPublish).length

theorem pushWires_pushWires (c : Recv.St) (a b : List Recv.Wire) : pushWires (pushWires c a) b = pushWires c (a ++ b) := by
  simp [pushWires, List.map_map, Function.comp, List.append_assoc]

theorem hello_not_data : isData helloWire = false := by decide

theorem wires_data_id (p : Send.St) (ws : List Recv.Wire)
    (h : ∀ w ∈ ws, w.mid = p.minSendId ∨ w.mid = OF.Facts.MSG_ID_HELLO) :
    ∀ w ∈ ws, isData w = true → w.mid = p.minSendId := by
  intro w hw hd
  rcases h w hw with e | e
  · exact e
  · exfalso
    have : OF.Facts.MSG_ID_HELLO = -4 := rfl
    simp only [isData, decide_eq_true_eq] at hd
    omega


/-- what a stalled consumer sees happen: everything a sends-only continuation does -/
structure Stalled (st st' : St) (obs : List Obs) (ws : List Recv.Wire) : Prop where
  con : st'.con = pushWires st.con ws
  gen : st'.gen = st.gen
  le : publishes obs ≤ 1
  none : publishes obs = 0 → ∀ w ∈ ws, isData w = false
  one : ∀ w1 ∈ ws, ∀ w2 ∈ ws, isData w1 = true → isData w2 = true → w1.mid = w2.mid
  ge : ∀ w ∈ ws, isData w = true → st.pub.minSendId ≤ w.mid
  ret : returned obs = []

theorem publishes_cons (o : Obs) (os : List Obs) : publishes (o :: os) = (if isPublish o then 1 else 0) + publishes os := by
  unfold publishes
  rw [List.filter_cons]
  split <;> simp <;> omega

theorem stall_spec : ∀ (evs : List Ev) (st : St) (q : List Send.Req) (s : Recv.Src), PubIdle st.pub q → Idle st.con s →
    SendsOnly evs →
    ∃ ws, Stalled st (run st evs).1 (run st evs).2 ws ∧ (∃ q', PubIdle (run st evs).1.pub q') ∧
      (q = [] → ws = [] ∧ publishes (run st evs).2 = 0) := by
  intro evs
  induction evs with
  | nil =>
    intro st q s hp hc _
    refine ⟨[], ⟨by simp [run, pushWires_nil], rfl, by simp [run, publishes], (fun _ w hw => by cases hw),
      (fun w hw => by cases hw), (fun w hw => by cases hw), rfl⟩, ⟨q, hp⟩, fun _ => ⟨rfl, rfl⟩⟩
  | cons e es ih =>
    intro st q s hp hc hso
    have ⟨payload, t, he⟩ := hso e (List.mem_cons_self ..)
    subst he
    have hso' : SendsOnly es := fun x hx => hso x (List.mem_cons_of_mem _ hx)
    have hc1 := idle_pushWires st.con s ((Send.send0 st.pub none payload false [0] t).2.filterMap wireOf) hc
    have hrun : run st (.sendCall payload t :: es) =
        ((run (step st (.sendCall payload t)).1 es).1, (step st (.sendCall payload t)).2 :: (run (step st (.sendCall payload t)).1 es).2) := rfl
    have hobs : isPublish (step st (.sendCall payload t)).2 =
        ((Send.send0 st.pub none payload false [0] t).2.filterMap wireOf).any isData := rfl
    have hn1 : (step st (.sendCall payload t)).1.pub.minSendId = (Send.send0 st.pub none payload false [0] t).1.minSendId := rfl
    rw [hrun]
    dsimp only
    cases hq : q with
    | nil =>
      subst hq
      have ⟨i1, _, _, i4⟩ := send0_idle st.pub payload t hp
      have ⟨ws, hst, hq', hz⟩ := ih (step st (.sendCall payload t)).1 [] _ i1 hc1 hso'
      have ⟨z1, z2⟩ := hz rfl
      subst z1
      have hnp : isPublish (step st (.sendCall payload t)).2 = false := by rw [hobs, i4]; rfl
      have hp0 : publishes ((step st (.sendCall payload t)).2 :: (run (step st (.sendCall payload t)).1 es).2) = 0 := by
        rw [publishes_cons, hnp, z2]; rfl
      refine ⟨[], ⟨?_, hst.gen, (by rw [hp0]; omega), (fun _ w hw => by cases hw), (fun w hw => by cases hw), (fun w hw => by cases hw), ?_⟩,
        hq', fun _ => ⟨rfl, hp0⟩⟩
      · rw [hst.con]
        show pushWires (pushWires st.con _) [] = pushWires st.con []
        rw [i4, pushWires_pushWires]; rfl
      · simp only [returned, List.flatMap_cons]
        have := hst.ret; simp only [returned] at this
        rw [this]; rfl
    | cons r0 q0 =>
      have ⟨T, hT, ht⟩ := exists_stale st.pub.clients t
      have ⟨q', f1, _, f3, _, f5, f6⟩ := send0_facts st.pub q payload t T hp hT ht
      have ⟨ws, hst, hq'', hz⟩ := ih (step st (.sendCall payload t)).1 q' _ f1 hc1 hso'
      have hdid := wires_data_id st.pub _ f5
      have hret : returned ((step st (.sendCall payload t)).2 :: (run (step st (.sendCall payload t)).1 es).2) = [] := by
        simp only [returned, List.flatMap_cons]
        have := hst.ret; simp only [returned] at this
        rw [this]; rfl
      refine ⟨(Send.send0 st.pub none payload false [0] t).2.filterMap wireOf ++ ws, ?_, hq'', fun h => by cases h⟩
      rcases f6 with ⟨e, _⟩ | ⟨_, _, _, _, _, e⟩
      · -- the queue was emptied: this call may publish, nothing afterwards does
        have ⟨z1, z2⟩ := hz e
        subst z1
        refine ⟨(by rw [hst.con, pushWires_nil, List.append_nil]; rfl), hst.gen, (by rw [publishes_cons, z2]; split <;> omega),
          ?_, ?_, ?_, hret⟩
        · intro h0 w hw
          rw [publishes_cons, z2] at h0
          have hnp : isPublish (step st (.sendCall payload t)).2 = false := by
            cases hb : isPublish (step st (.sendCall payload t)).2 with
            | false => rfl
            | true => rw [hb] at h0; simp at h0
          rw [hobs, List.any_eq_false] at hnp
          simp only [List.append_nil] at hw
          simpa using hnp w hw
        · intro w1 hw1 w2 hw2 d1 d2
          simp only [List.append_nil] at hw1 hw2
          rw [hdid w1 hw1 d1, hdid w2 hw2 d2]
        · intro w hw d
          simp only [List.append_nil] at hw
          rw [hdid w hw d]; exact Int.le_refl _
      · -- a fast-forward ended the call: nothing was published by it
        have hnp : isPublish (step st (.sendCall payload t)).2 = false := by rw [hobs, e]; rfl
        rw [e, List.nil_append]
        refine ⟨?_, hst.gen, (by rw [publishes_cons, hnp]; have := hst.le; simpa using this), ?_, hst.one, ?_, hret⟩
        · rw [hst.con]
          show pushWires (pushWires st.con _) ws = pushWires st.con ws
          rw [e, pushWires_pushWires]; rfl
        · intro h0; rw [publishes_cons, hnp] at h0; exact hst.none (by simpa using h0)
        · intro w hw d; have := hst.ge w hw d; rw [hn1] at this; omega


theorem reachable_run (st : St) (hr : Reachable st) : ∀ evs, Reachable (run st evs).1 := by
  intro evs
  induction evs generalizing st with
  | nil => exact hr
  | cons e es ih => exact ih _ (Reachable.step st e hr)

theorem wireChan_idle (c : St) (s : Recv.Src) (h : c.con.srcs = [s]) : wireChan c = s.queue := by
  simp [wireChan, h]

/-- **C04 (a stalled consumer stalls its publisher)**: from EVERY reachable state, over EVERY continuation in which the
consumer makes no `recv` call — any number of `send` calls, any payloads, any clock readings (before or after the
connection time-out) — the publisher puts AT MOST ONE more frame set on the wire, however long the stall lasts; what is
appended to the consumer's inbound channel is that one block (all its messages carry one id) plus at most HELLOs; and if
a frame set the consumer has not taken yet is already in flight, NOTHING more is published. -/
theorem C04_pair_stall_bounded (st : St) (hr : Reachable st) (evs : List Ev) (hs : SendsOnly evs) :
    publishes (run st evs).2 ≤ 1 ∧ returned (run st evs).2 = [] ∧
    ∃ ws, wireChan (run st evs).1 = wireChan st ++ ws ∧
      (∀ w1 ∈ ws, ∀ w2 ∈ ws, isData w1 = true → isData w2 = true → w1.mid = w2.mid) ∧
      (publishes (run st evs).2 = 0 → ∀ w ∈ ws, isData w = false) ∧
      ((∃ w ∈ wireChan st, st.con.prevId < w.mid) → publishes (run st evs).2 = 0 ∧ ws = []) := by
  rcases tight_reachable st hr with ⟨s, q, ht⟩
  have ⟨ws, hst, _, hz⟩ := stall_spec evs st q s ht.pub ht.con hs
  have hw0 : wireChan st = s.queue := wireChan_idle st s ht.con.srcs
  have hw1 : wireChan (run st evs).1 = s.queue ++ ws := by
    have := idle_pushWires st.con s ws ht.con
    rw [← hst.con] at this
    rw [wireChan_idle _ _ this.srcs]
  refine ⟨hst.le, hst.ret, ws, by rw [hw1, hw0], hst.one, hst.none, ?_⟩
  intro hu
  rw [hw0] at hu
  have := hz (ht.quiet hu)
  exact ⟨this.2, this.1⟩

/-- **C04 (bounded buffering, as an invariant)**: in every reachable state all wire messages in flight that the consumer
could still adopt (id above its `prev_id`) belong to ONE frame set — the number of frame sets queued towards the consumer
never grows with the length of the run, stalls included -/
theorem C04_pair_one_block_in_flight (st : St) (hr : Reachable st) :
    ∀ w1 ∈ wireChan st, ∀ w2 ∈ wireChan st, st.con.prevId < w1.mid → st.con.prevId < w2.mid → w1.mid = w2.mid := by
  rcases tight_reachable st hr with ⟨s, q, ht⟩
  rw [wireChan_idle st s ht.con.srcs]
  exact ht.one

/-- … in particular at every moment of a stall of any length -/
theorem C04_pair_stall_one_block (st : St) (hr : Reachable st) (evs : List Ev) :
    ∀ w1 ∈ wireChan (run st evs).1, ∀ w2 ∈ wireChan (run st evs).1,
      (run st evs).1.con.prevId < w1.mid → (run st evs).1.con.prevId < w2.mid → w1.mid = w2.mid :=
  C04_pair_one_block_in_flight _ (reachable_run st hr evs)

/-- **C04 (the stall ends when the consumer takes frames again)**: after a stall of any length, the fixed 12-event
continuation of `C06_pair_recovers_const` (in which the consumer polls again) delivers a new frame set -/
theorem C04_pair_resumes (st : St) (hr : Reachable st) (evs : List Ev) (t1 t2 : Int) (b : Nat)
    (h1 : t1 + OF.Facts.ZMQ_CONN_TIMEOUT < t2)
    (h2 : ∀ x ∈ (run st evs).1.pub.clients, x.2.tLast + OF.Facts.ZMQ_CONN_TIMEOUT < t2) :
    ∃ id ∈ returned (run (run st evs).1 (healConst t1 t2 b)).2, (run st evs).1.con.prevId < id :=
  C06_pair_recovers_const _ (reachable_run st hr evs) t1 t2 b h1 h2

/-- **C04 (… at once, when only this consumer is tracked)**: if exactly one regular request `r` of a tracked client is
queued (what the `recv` that takes the waiting frame set pushes), it asks for an id below the publisher's next one, and
every OTHER tracked client is past the connection time-out at clock reading `t`, the very next `send` publishes the
next id -/
theorem C04_pair_resumes_at_once_partial (st : St) (hr : Reachable st) (r : Send.Req) (b : Nat) (t : Int)
    (hq : reqChan st = [r]) (hd : ¬ r.mid ≤ OF.Facts.MSG_ID_SPECIAL) (hn : needsHello st.pub r = false)
    (hlt : r.mid < st.pub.minSendId) (hs : OthersStale (fidOf r) t st.pub.clients) :
    isPublish (step st (.sendCall (mainPayload b) t)).2 = true ∧
    wireChan (step st (.sendCall (mainPayload b) t)).1 = wireChan st ++ [mainWire st.pub.minSendId b, hbWire st.pub.minSendId] ∧
    (step st (.sendCall (mainPayload b) t)).1.pub.minSendId = st.pub.minSendId + 1 := by
  rcases shape_reachable st hr with ⟨⟨s, hc⟩, ⟨q, hp⟩⟩
  have hq' : q = [r] := by rw [← reqChan_single st q hp.queues]; exact hq
  subst hq'
  have ⟨_, _, _, p4, p5⟩ := send0_publish st.pub r b t hp hd hn hlt hs
  refine ⟨?_, ?_, p4⟩
  · show ((Send.send0 st.pub none (mainPayload b) false [0] t).2.filterMap wireOf).any isData = true
    rw [mainPayload, p5]
    have := hp.minpos
    simp [isData, mainWire, this]
  · have hi := idle_pushWires st.con s ((Send.send0 st.pub none (mainPayload b) false [0] t).2.filterMap wireOf) hc
    have : (step st (.sendCall (mainPayload b) t)).1.con = pushWires st.con ((Send.send0 st.pub none (mainPayload b) false [0] t).2.filterMap wireOf) := rfl
    rw [← this] at hi
    rw [wireChan_idle _ _ hi.srcs, wireChan_idle st s hc.srcs]
    show s.queue ++ _ = _
    rw [mainPayload, p5]

/-! ### non-vacuity (kernel-evaluated) -/

def stallSends (n : Nat) : List Ev := List.replicate n (.sendCall (exPayload 7) 2000)

/-- the consumer has asked once and then stalls: the first `send` publishes id 0, the next 39 publish nothing — also
long after the connection time-out -/
example : publishes (run (run init [.recvCall, .sendCall (exPayload 1) 1000, .recvCall]).1
      (stallSends 20 ++ List.replicate 20 (.sendCall (exPayload 8) 9000))).2 = 1 := by decide +kernel

/-- frame set 0 is in flight and the consumer stalls: nothing more is published; when it takes the set (and thereby
asks for the next) the very next `send` publishes id 1 -/
example : publishes (run (run init [.recvCall, .sendCall (exPayload 1) 1000, .recvCall, .sendCall (exPayload 2) 1100]).1
      (stallSends 30)).2 = 0 ∧
    publishes (run (run init ([.recvCall, .sendCall (exPayload 1) 1000, .recvCall, .sendCall (exPayload 2) 1100] ++ stallSends 30)).1
      [.recvCall, .sendCall (exPayload 3) 2100]).2 = 1 := by decide +kernel

end OF.Pair
