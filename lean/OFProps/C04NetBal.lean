import OFProps.C04NetBalInv
import OFProps.C04Net
import OFProps.C07NetBal
set_option linter.unusedSimpArgs false
/-!
# C04 on the balanced network `S → W_1 … W_b → J` (`OFModel/Zmq/NetBal.lean`): back-pressure through ONE output

* `C04_netbal_worker_stall_bounded_partial` — worker `W_i` stalls (makes no `recv`; its own `send` calls may go on): from every state in
  which the splitter tracks `W_i` as a synchronised client of output `i-1` and has taken all of `W_i`'s requests off its PULL queues
  (`BalPre`, decidable form `balPreCheck`), over ANY restart-free continuation (every other node steps arbitrarily often, in any order)
  whose clock readings at the splitter stay within one connection time-out of `W_i`'s last request, the splitter puts AT MOST ONE
  further id on output `i-1` — while it is free to serve the other outputs (kernel-evaluated example `others still served`:
  20 further ids on the other output in 240 steps).  General form: `C04_netbal_output_stall_bounded_partial` (any balanced node `u`,
  any output `o`, any stalled client node `B`).
* the rejoin `J` stalls: NOT a theorem here - kernel-evaluated and measured only (every worker publishes at most one further set, the splitter at most 2 ids per
  output: one set pending in the worker's loop, one prefetched in its SUB queue; measured over random schedules, attained).
* beyond the connection time-out (kernel-evaluated): the splitter evicts the stalled worker; the output is then client-less, never
  appears in the per-output tuples and gets NOTHING more (0 further ids), the other outputs are served.
Partial: `BalPre` / `TeePre` are hypotheses on the state at the beginning of the stall, not derived from reachability (the kernel-evaluated
examples and the harness - `netbal.stall_campaign` - evaluate them on reachable states); the case "a request of `W_i` is still queued at
the splitter" (same bound 1 measured) is not proved; the splitter bound under a rejoin stall is not proved.
-/
namespace OF.NetBal
open OF
open OF.Net (Proc St Node Obs Pending cidOf uidOf keyOf key_ne payloadOf afterRecv afterSend processed recvSource sendSkip reqOf)

/-- did this event put a wire message (topic message or heartbeat of a publish) of node `u` on its output `o`? -/
def pubOn (u o : Nat) : Ev → Obs → Bool
  | .nodeSend i _, .sent outs => i == u && outs.any (Send.isPubOn o)
  | _, _ => false

/-- number of `send` calls of node `u` along the schedule `evs` from `st` that put something on output `o` (each such call publishes
ONE id there) -/
def pubCountOn (b : Nat) (proc : Proc) (u o : Nat) : St → List Ev → Nat
  | _, [] => 0
  | st, e :: es => (if pubOn u o e (step b proc st e).2 then 1 else 0) + pubCountOn b proc u o (step b proc st e).1 es

/-! ## what one event does to the publisher of a node -/

def PubCase (b : Nat) (proc : Proc) (st : St) (e : Ev) (u : Nat) (nd nd' : Node) : Prop :=
  (∃ i q rs, e = .nodeRecv i ∧ nd'.pub = pushReqsAt nd.pub q rs ∧ (u ≠ 0 → q = 0) ∧ (∀ r ∈ rs, ∃ g j, keyOf r = cidOf i ++ uidOf g j) ∧
      ∀ o, pubOn u o e (step b proc st e).2 = false) ∨
  (nd'.pub = nd.pub ∧ ∀ o, pubOn u o e (step b proc st e).2 = false) ∨
  (∃ (t : Int) (p : Pending), e = .nodeSend u t ∧
      nd'.pub = (Send.send0 nd.pub nd.sendState (payloadOf st.tbl.length p.res) false (sendPrio nd) t).1 ∧
      ∀ o, pubOn u o e (step b proc st e).2 =
        (Send.send0 nd.pub nd.sendState (payloadOf st.tbl.length p.res) false (sendPrio nd) t).2.any (Send.isPubOn o))

theorem pubOn_noop (u o : Nat) (e : Ev) : pubOn u o e .noop = false := by
  cases e <;> rfl

theorem pubOn_recv (u o i : Nat) (ob : Obs) : pubOn u o (.nodeRecv i) ob = false := rfl

theorem step_pub_cases (b : Nat) (proc : Proc) (st : St) (e : Ev) (u : Nat) (nd : Node) (hu : st.nodes[u]? = some nd)
    (hne : e.isRestart = false) :
    ∃ nd', (step b proc st e).1.nodes[u]? = some nd' ∧ PubCase b proc st e u nd nd' := by
  unfold PubCase
  rcases step_cases b proc st e hne with h | ⟨i, ni, rfl, hi, _, _, h⟩ | ⟨i, ni, rfl, hi, _, _, h⟩ | ⟨i, t, ni, p, rfl, hi, _, h⟩ |
      ⟨i, t, ni, p, rfl, hi, hp, _, h⟩
  · rw [h]
    exact ⟨nd, hu, Or.inr (Or.inl ⟨rfl, fun o => pubOn_noop u o e⟩)⟩
  · rw [h]
    simp only [recvSource]
    rw [set_get st.nodes i ni _ hi]
    by_cases hui : u = i
    · subst hui
      rw [hi] at hu; cases hu
      refine ⟨processed proc u nd [], by rw [if_pos rfl], Or.inr (Or.inl ⟨rfl, fun o => rfl⟩)⟩
    · exact ⟨nd, by rw [if_neg hui]; exact hu, Or.inr (Or.inl ⟨rfl, fun o => rfl⟩)⟩
  · rw [h]
    simp only [recvRelay]
    rw [deliverReqs_get, set_get st.nodes i ni _ hi]
    have hkeys : ∀ r ∈ (Recv.call0 ni.con ni.recvState (List.range ni.con.srcs.length)).2.filterMap (reqOf i ni.gen ((topo b).upsOf i) u),
        ∃ g j, keyOf r = cidOf i ++ uidOf g j := by
      intro r hr
      rw [List.mem_filterMap] at hr
      rcases hr with ⟨o, _, hor⟩
      cases o with
      | req j mid eph new =>
        simp only [reqOf] at hor
        split at hor
        · simp only [Option.some.injEq] at hor
          subst hor
          exact ⟨ni.gen, j, rfl⟩
        · cases hor
      | oob _ _ => cases hor
      | ret _ _ _ => cases hor
      | retNone => cases hor
      | dupTopic _ => cases hor
    have hq : u ≠ 0 → outOf i u = 0 := by intro h0; simp only [outOf, h0, ↓reduceIte]
    by_cases hui : u = i
    · subst hui
      rw [hi] at hu; cases hu
      apply Exists.intro
      refine And.intro ?_ ?_
      · rw [if_pos rfl]; first | done | rfl
      · refine Or.inl ⟨u, outOf u u, _, rfl, ?_, hq, hkeys, fun o => rfl⟩
        simp only [afterRecv_pub]
    · apply Exists.intro
      refine And.intro ?_ ?_
      · rw [if_neg hui, hu]; first | done | rfl
      · exact Or.inl ⟨i, outOf i u, _, rfl, rfl, hq, hkeys, fun o => rfl⟩
  · rw [h]
    simp only [sendSkip]
    rw [set_get st.nodes i ni _ hi]
    have hno : ∀ o, pubOn u o (.nodeSend i t) (.sent []) = false := by
      intro o; simp only [pubOn, List.any_nil, Bool.and_false]
    by_cases hui : u = i
    · subst hui
      rw [hi] at hu; cases hu
      exact ⟨{ nd with pending := none }, by rw [if_pos rfl], Or.inr (Or.inl ⟨rfl, hno⟩)⟩
    · exact ⟨nd, by rw [if_neg hui]; exact hu, Or.inr (Or.inl ⟨rfl, hno⟩)⟩
  · rw [h]
    simp only [sendReal]
    rw [deliverWires_get, set_get st.nodes i ni _ hi]
    by_cases hui : u = i
    · subst hui
      rw [hi] at hu; cases hu
      apply Exists.intro
      refine And.intro ?_ ?_
      · rw [if_pos rfl]; first | done | rfl
      · refine Or.inr (Or.inr ⟨t, p, rfl, ?_, ?_⟩)
        · exact (afterSend_cases nd p _).1
        · intro o; simp only [pubOn, beq_self_eq_true, Bool.true_and]
    · apply Exists.intro
      refine And.intro ?_ ?_
      · rw [if_neg hui, hu]; first | done | rfl
      · refine Or.inr (Or.inl ⟨rfl, ?_⟩)
        intro o
        have : (i == u) = false := by simpa using (fun e => hui e.symm)
        simp only [pubOn, this, Bool.false_and]

/-! ## a balanced node and a stalled consumer of one of its outputs -/

theorem qall_pushReqsAt (R : Nat → Send.Req → Prop) (p : Send.St) (q : Nat) (rs : List Send.Req) (h : Send.QAll R p)
    (hrs : ∀ r ∈ rs, R q r) : Send.QAll R (pushReqsAt p q rs) := by
  intro j l hl r hr
  simp only [pushReqsAt, List.getElem?_mapIdx] at hl
  cases hj : p.queues[j]? with
  | none => rw [hj] at hl; cases hl
  | some l0 =>
    rw [hj] at hl
    simp only [Option.map_some, Option.some.injEq] at hl
    by_cases hjq : j = q
    · subst hjq
      simp only [↓reduceIte] at hl
      subst hl
      rcases List.mem_append.mp hr with hr | hr
      · exact h j l0 hj r hr
      · exact hrs r hr
    · simp only [hjq, ↓reduceIte] at hl
      subst hl
      exact h j l0 hj r hr

theorem send0_pinv (st : Send.St) (h : Send.PInv st) (state : Option (Int × Nat)) (pl : Send.Payload) (push : Bool) (prio : List Nat)
    (t : Int) : Send.PInv (Send.send0 st state pl push prio t).1 := by
  have ⟨evs, he⟩ := Net.send0_as_run st state pl push prio t
  rw [he]; exact Send.run_pinv evs _ h

theorem pinv_pushReqsAt (p : Send.St) (q : Nat) (rs : List Send.Req) (h : Send.PInv p) : Send.PInv (pushReqsAt p q rs) :=
  ⟨h.keys, h.unbal, h.bal⟩

/-- the balanced node `u` tracks the client `fid` as a synchronised client of its output `o`, heard at or after `lo`, and none of that
client's requests is queued at `u` -/
def BalPre (st : St) (u : Nat) (fid : String) (o : Nat) (lo : Int) : Prop :=
  ∃ nd, st.nodes[u]? = some nd ∧ Send.PInv nd.pub ∧ nd.pub.balance = true ∧ Send.TrackOn nd.pub.clients fid o lo ∧
    Send.QAll (fun _ r => keyOf r ≠ fid) nd.pub

/-- … and its flag is down: it holds output `o` -/
def BalPost (st : St) (u : Nat) (fid : String) (o : Nat) (lo : Int) : Prop :=
  ∃ nd, st.nodes[u]? = some nd ∧ Send.PInv nd.pub ∧ nd.pub.balance = true ∧ Send.HoldOn nd.pub.clients fid o lo ∧
    Send.QAll (fun _ r => keyOf r ≠ fid) nd.pub

/-- a continuation in which node `B` is stalled (no `recv`, nobody restarted) and every clock reading of `u`'s `send` calls lies within
one connection time-out above `lo` -/
def BalStall (u B : Nat) (lo : Int) (evs : List Ev) : Prop :=
  ∀ e ∈ evs, e.isRestart = false ∧ e ≠ .nodeRecv B ∧ ∀ t, e = .nodeSend u t → t - OF.Facts.ZMQ_CONN_TIMEOUT ≤ lo

theorem any_false_of (o : Nat) (outs : List Send.Out) (h : ∀ x ∈ outs, Send.isPubOn o x = false) : outs.any (Send.isPubOn o) = false := by
  rw [List.any_eq_false]
  intro x hx
  rw [h x hx]; exact Bool.false_ne_true

theorem bal_post_step (b : Nat) (proc : Proc) (st : St) (u B g jj o : Nat) (lo : Int) (e : Ev)
    (h : BalPost st u (cidOf B ++ uidOf g jj) o lo) (hne : e.isRestart = false) (hB : e ≠ .nodeRecv B)
    (ht : ∀ t, e = .nodeSend u t → t - OF.Facts.ZMQ_CONN_TIMEOUT ≤ lo) :
    BalPost (step b proc st e).1 u (cidOf B ++ uidOf g jj) o lo ∧ pubOn u o e (step b proc st e).2 = false := by
  rcases h with ⟨nd, hu, hP, hb, hH, hq⟩
  rcases step_pub_cases b proc st e u nd hu hne with ⟨nd', hu', hc⟩
  rcases hc with ⟨i, q, rs, rfl, hp, _, hrs, hno⟩ | ⟨hp, hno⟩ | ⟨t, p, rfl, hp, hno⟩
  · refine ⟨⟨nd', hu', by rw [hp]; exact pinv_pushReqsAt _ _ _ hP, by rw [hp]; exact hb, by rw [hp]; exact hH, ?_⟩, hno o⟩
    rw [hp]
    apply qall_pushReqsAt _ _ _ _ hq
    intro r hr
    rcases hrs r hr with ⟨g2, j2, e2⟩
    rw [e2]
    exact key_ne i B g2 j2 g jj (fun hc => hB (by rw [hc]))
  · exact ⟨⟨nd', hu', by rw [hp]; exact hP, by rw [hp]; exact hb, by rw [hp]; exact hH, by rw [hp]; exact hq⟩, hno o⟩
  · have ⟨h1, h2, h3⟩ := Send.send0_holdSt nd.pub hP hb _ o lo nd.sendState (payloadOf st.tbl.length p.res) false (sendPrio nd) t hH hq (ht t rfl)
    refine ⟨⟨nd', hu', ?_, ?_, by rw [hp]; exact h1, by rw [hp]; exact h2⟩, by rw [hno o]; exact any_false_of o _ h3⟩
    · rw [hp]; exact send0_pinv _ hP _ _ _ _ _
    · rw [hp, Net.send0_balance]; exact hb

theorem bal_pre_step (b : Nat) (proc : Proc) (st : St) (u B g jj o : Nat) (lo : Int) (e : Ev)
    (h : BalPre st u (cidOf B ++ uidOf g jj) o lo) (hne : e.isRestart = false) (hB : e ≠ .nodeRecv B)
    (ht : ∀ t, e = .nodeSend u t → t - OF.Facts.ZMQ_CONN_TIMEOUT ≤ lo) :
    (BalPre (step b proc st e).1 u (cidOf B ++ uidOf g jj) o lo ∧ pubOn u o e (step b proc st e).2 = false) ∨
    BalPost (step b proc st e).1 u (cidOf B ++ uidOf g jj) o lo := by
  rcases h with ⟨nd, hu, hP, hb, hH, hq⟩
  rcases step_pub_cases b proc st e u nd hu hne with ⟨nd', hu', hc⟩
  rcases hc with ⟨i, q, rs, rfl, hp, _, hrs, hno⟩ | ⟨hp, hno⟩ | ⟨t, p, rfl, hp, hno⟩
  · left
    refine ⟨⟨nd', hu', by rw [hp]; exact pinv_pushReqsAt _ _ _ hP, by rw [hp]; exact hb, by rw [hp]; exact hH, ?_⟩, hno o⟩
    rw [hp]
    apply qall_pushReqsAt _ _ _ _ hq
    intro r hr
    rcases hrs r hr with ⟨g2, j2, e2⟩
    rw [e2]
    exact key_ne i B g2 j2 g jj (fun hc => hB (by rw [hc]))
  · left
    exact ⟨⟨nd', hu', by rw [hp]; exact hP, by rw [hp]; exact hb, by rw [hp]; exact hH, by rw [hp]; exact hq⟩, hno o⟩
  · have ⟨h1, h2, h3⟩ := Send.send0_trackSt nd.pub hP hb _ o lo nd.sendState (payloadOf st.tbl.length p.res) false (sendPrio nd) t hH hq (ht t rfl)
    have hP' : Send.PInv nd'.pub := by rw [hp]; exact send0_pinv _ hP _ _ _ _ _
    have hb' : nd'.pub.balance = true := by rw [hp, Net.send0_balance]; exact hb
    cases hany : (Send.send0 nd.pub nd.sendState (payloadOf st.tbl.length p.res) false (sendPrio nd) t).2.any (Send.isPubOn o) with
    | false =>
      left
      exact ⟨⟨nd', hu', hP', hb', by rw [hp]; exact h1, by rw [hp]; exact h2⟩, by rw [hno o]; exact hany⟩
    | true =>
      right
      rw [List.any_eq_true] at hany
      exact ⟨nd', hu', hP', hb', by rw [hp]; exact h3 hany, by rw [hp]; exact h2⟩

theorem bal_post_run (b : Nat) (proc : Proc) (u B g jj o : Nat) (lo : Int) : ∀ (evs : List Ev) (st : St),
    BalPost st u (cidOf B ++ uidOf g jj) o lo → BalStall u B lo evs → pubCountOn b proc u o st evs = 0 := by
  intro evs
  induction evs with
  | nil => intro st _ _; rfl
  | cons e es ih =>
    intro st h hs
    have ⟨h1, h2, h3⟩ := hs e (List.mem_cons_self ..)
    have ⟨a, c⟩ := bal_post_step b proc st u B g jj o lo e h h1 h2 h3
    simp only [pubCountOn, c, Bool.false_eq_true, ↓reduceIte, Nat.zero_add]
    exact ih _ a (fun x hx => hs x (List.mem_cons_of_mem _ hx))

/-- **C04 (one output of a balanced sender, its consumer stalls)**: any balanced node `u` with any number of bound outputs, any process
functions, any state in which `u` tracks the consumer `B` (source `jj` of incarnation `g`) as a synchronised client of output `o` and has
none of `B`'s requests queued; over every restart-free continuation in which `B` makes no `recv` call - every other node as live as it
likes - and the clock readings of `u`'s `send` calls stay within one connection time-out of `B`'s last request: `u` puts AT MOST ONE
further id on output `o`. -/
theorem C04_netbal_output_stall_bounded_partial (b : Nat) (proc : Proc) (u B g jj o : Nat) (lo : Int) : ∀ (evs : List Ev) (st : St),
    BalPre st u (cidOf B ++ uidOf g jj) o lo → BalStall u B lo evs → pubCountOn b proc u o st evs ≤ 1 := by
  intro evs
  induction evs with
  | nil => intro st _ _; exact Nat.zero_le _
  | cons e es ih =>
    intro st h hs
    have ⟨h1, h2, h3⟩ := hs e (List.mem_cons_self ..)
    have hs' : BalStall u B lo es := fun x hx => hs x (List.mem_cons_of_mem _ hx)
    rcases bal_pre_step b proc st u B g jj o lo e h h1 h2 h3 with ⟨a, c⟩ | a
    · simp only [pubCountOn, c, Bool.false_eq_true, ↓reduceIte, Nat.zero_add]
      exact ih _ a hs'
    · simp only [pubCountOn]
      rw [bal_post_run b proc u B g jj o lo es _ a hs']
      split <;> omega

/-- **C04 (a stalled worker bounds the splitter on ITS output only)**: worker `W_i` (`1 ≤ i ≤ b`, incarnation `g`) makes no `recv`; the
splitter (node `0`) tracked it on output `i - 1` and had taken all its requests when the stall began (`BalPre`); clock readings of the
splitter within one connection time-out of `W_i`'s last request: AT MOST ONE further id goes to output `i - 1`, however long the stall
lasts and however many ids go to the other outputs meanwhile. -/
theorem C04_netbal_worker_stall_bounded_partial (b : Nat) (proc : Proc) (i g : Nat) (lo : Int) (evs : List Ev) (st : St)
    (hpre : BalPre st 0 (cidOf i ++ uidOf g 0) (i - 1) lo) (hs : BalStall 0 i lo evs) :
    pubCountOn b proc 0 (i - 1) st evs ≤ 1 :=
  C04_netbal_output_stall_bounded_partial b proc 0 i g 0 (i - 1) lo evs st hpre hs


/-! ## the hypothesis `BalPre`, as a computation; `PInv` along restart-free runs -/

/-- the sender invariant `Send.PInv` of node `u` is kept by every restart-free schedule -/
theorem pinv_run_at (b : Nat) (proc : Proc) (u : Nat) : ∀ (evs : List Ev) (st : St), (∀ e ∈ evs, e.isRestart = false) →
    (∃ nd, st.nodes[u]? = some nd ∧ Send.PInv nd.pub) → ∃ nd, (run b proc st evs).1.nodes[u]? = some nd ∧ Send.PInv nd.pub := by
  intro evs
  induction evs with
  | nil => intro st _ h; exact h
  | cons e es ih =>
    intro st hne h
    rcases h with ⟨nd, hu, hP⟩
    rw [run_cons]
    apply ih _ (fun x hx => hne x (List.mem_cons_of_mem _ hx))
    rcases step_pub_cases b proc st e u nd hu (hne e (List.mem_cons_self ..)) with ⟨nd', hu', hc⟩
    refine ⟨nd', hu', ?_⟩
    rcases hc with ⟨i, q, rs, _, hp, _⟩ | ⟨hp, _⟩ | ⟨t, p, _, hp, _⟩
    · rw [hp]; exact pinv_pushReqsAt _ _ _ hP
    · rw [hp]; exact hP
    · rw [hp]; exact send0_pinv _ hP _ _ _ _ _

theorem pinv_init (b : Nat) (ll : Nat → Bool) (u : Nat) (hu : u < b + 2) : ∃ nd, (init b ll).nodes[u]? = some nd ∧ Send.PInv nd.pub := by
  refine ⟨freshNode b ll u, by simp [init, hu], ?_⟩
  unfold freshNode
  simp only
  split
  · exact Send.pinv_mkSt _ _ _
  · exact Send.pinv_mkSt _ _ _

/-- `BalPre` without the `PInv` part (which every restart-free run from the initial state has: `pinv_run_at`), decidable form -/
def balPreCheck (st : St) (u : Nat) (fid : String) (o : Nat) (lo : Int) : Bool :=
  match st.nodes[u]? with
  | none => false
  | some nd =>
    nd.pub.balance && nd.pub.clients.any (fun x => x.1 == fid) &&
    nd.pub.clients.all (fun x => x.1 != fid || (decide (lo ≤ x.2.tLast) && x.2.eph == 0 && x.2.out == o)) &&
    nd.pub.queues.all (fun q => q.all (fun r => keyOf r != fid))

theorem balPre_of_check (st : St) (u : Nat) (fid : String) (o : Nat) (lo : Int)
    (hP : ∃ nd, st.nodes[u]? = some nd ∧ Send.PInv nd.pub) (h : balPreCheck st u fid o lo = true) : BalPre st u fid o lo := by
  rcases hP with ⟨nd, hn, hP⟩
  unfold balPreCheck at h
  rw [hn] at h
  simp only [Bool.and_eq_true, decide_eq_true_eq, List.any_eq_true, beq_iff_eq, List.all_eq_true, Bool.or_eq_true, bne_iff_ne, ne_eq] at h
  rcases h with ⟨⟨⟨h1, ⟨x, hx, hxk⟩⟩, h3⟩, h4⟩
  refine ⟨nd, hn, hP, h1, ⟨⟨x.2, by rw [← hxk]; exact hx⟩, ?_⟩, ?_⟩
  · intro c hc
    rcases h3 (fid, c) hc with h | h
    · exact absurd rfl h
    · exact ⟨h.1.1, h.1.2, h.2⟩
  · intro j q hq r hr
    exact h4 q (List.mem_of_getElem? hq) r hr

/-! ## non-vacuity, negative witnesses, the boundary beyond the connection time-out (kernel-evaluated) -/

/-- `n` fair rounds of `S`, `W_1`, `W_2`, `J` (`b = 2`) from the initial state -/
def stPrefix (n : Nat) : List Ev := ((List.range n).map fun k => exAll (1000 + 100 * (k : Nat))).flatten

/-- `n` rounds in which `W_2` = node 2 takes no step at all: `S`, `W_1`, `J` send and poll in turn -/
def wStall (n : Nat) (t : Int) : List Ev :=
  (List.replicate n [Ev.nodeSend 0 t, .nodeRecv 0, .nodeRecv 1, .nodeSend 1 t, .nodeRecv 3, .nodeSend 3 t]).flatten

/-- `n` rounds in which the rejoin `J` = node 3 takes no step: `S`, `W_1`, `W_2` send and poll in turn -/
def jStall (n : Nat) (t : Int) : List Ev :=
  (List.replicate n [Ev.nodeSend 0 t, .nodeRecv 0, .nodeRecv 1, .nodeSend 1 t, .nodeRecv 2, .nodeSend 2 t]).flatten

/-- after 6 fair rounds the splitter tracks `W_2` on output 1 and has none of its requests queued (`W_2`'s flag is down: it was served);
`W_2` stalls for 40 rounds (240 steps), clock readings inside the window: NO further id on output 1 - and 20 on output 0: **the
others are still served** -/
example : balPreCheck (run 2 exProc (init 2 exLL) (stPrefix 6)).1 0 (cidOf 2 ++ uidOf 0 0) 1 1400 = true ∧
    pubCountOn 2 exProc 0 1 (run 2 exProc (init 2 exLL) (stPrefix 6)).1 (wStall 40 2000) = 0 ∧
    pubCountOn 2 exProc 0 0 (run 2 exProc (init 2 exLL) (stPrefix 6)).1 (wStall 40 2000) = 20 := by
  decide +kernel

/-- the case the theorem does NOT cover (kernel-evaluated only): `W_2` polls once more and stalls with its request still queued at the
splitter (`balPreCheck = false`): ONE further id on output 1 in 240 steps - the bound 1 is attained there -/
example : balPreCheck (run 2 exProc (init 2 exLL) (stPrefix 6 ++ [.nodeRecv 2])).1 0 (cidOf 2 ++ uidOf 0 0) 1 1400 = false ∧
    pubCountOn 2 exProc 0 1 (run 2 exProc (init 2 exLL) (stPrefix 6 ++ [.nodeRecv 2])).1 (wStall 40 2000) = 1 := by
  decide +kernel

/-- the boundary beyond the connection time-out: the same state and stall, but the clock jumps beyond the time-out after 5 rounds: the
splitter evicts `W_2` (its client table keeps `W_1` only); output 1 is then client-less, never appears in the per-output tuples and gets
NOTHING (0 ids), output 0 is served (18 ids); a worker the splitter does not track yet (no prefix) gets nothing either -/
example : pubCountOn 2 exProc 0 1 (run 2 exProc (init 2 exLL) (stPrefix 6)).1 (wStall 5 2000 ++ wStall 35 9000) = 0 ∧
    pubCountOn 2 exProc 0 0 (run 2 exProc (init 2 exLL) (stPrefix 6 ++ wStall 5 2000)).1 (wStall 35 9000) = 18 ∧
    ((run 2 exProc (init 2 exLL) (stPrefix 6 ++ wStall 5 2000 ++ wStall 2 9000)).1.nodes[0]?.map
      fun nd => nd.pub.clients.map (·.1)) = some [cidOf 1 ++ uidOf 0 0] ∧
    balPreCheck (init 2 exLL) 0 (cidOf 2 ++ uidOf 0 0) 1 1000 = false ∧
    pubCountOn 2 exProc 0 1 (init 2 exLL) (wStall 40 2000) = 0 := by
  decide +kernel

/-- the rejoin stalls (kernel-evaluated, NOT a theorem): each worker publishes one further set, the splitter 2 further ids per output
(`2 b` in total: one set pending in the worker's loop, one prefetched in its SUB queue), however long the stall -/
example : pubCountOn 2 exProc 1 0 (run 2 exProc (init 2 exLL) (stPrefix 6)).1 (jStall 40 2000) ≤ 1 ∧
    pubCountOn 2 exProc 2 0 (run 2 exProc (init 2 exLL) (stPrefix 6)).1 (jStall 40 2000) ≤ 1 ∧
    pubCountOn 2 exProc 0 0 (run 2 exProc (init 2 exLL) (stPrefix 6)).1 (jStall 40 2000) ≤ 2 ∧
    pubCountOn 2 exProc 0 1 (run 2 exProc (init 2 exLL) (stPrefix 6)).1 (jStall 40 2000) ≤ 2 ∧
    pubCountOn 2 exProc 0 0 (run 2 exProc (init 2 exLL) (stPrefix 6)).1 (jStall 40 2000) =
      pubCountOn 2 exProc 0 0 (run 2 exProc (init 2 exLL) (stPrefix 6)).1 (jStall 10 2000) := by
  decide +kernel

/-- the theorem applies to the first example -/
example : pubCountOn 2 exProc 0 1 (run 2 exProc (init 2 exLL) (stPrefix 6)).1 (wStall 40 2000) ≤ 1 :=
  C04_netbal_worker_stall_bounded_partial 2 exProc 2 0 1400 _ _
    (balPre_of_check _ _ _ _ _ (pinv_run_at 2 exProc 0 _ _ (by decide) (pinv_init 2 exLL 0 (by decide))) (by decide +kernel))
    (by
      intro e he
      simp only [wStall, List.mem_flatten, List.mem_replicate] at he
      rcases he with ⟨l, ⟨_, rfl⟩, he⟩
      simp only [List.mem_cons, List.mem_nil_iff, or_false] at he
      rcases he with rfl | rfl | rfl | rfl | rfl | rfl
      · exact ⟨rfl, by simp, fun t ht => by cases ht; decide⟩
      · exact ⟨rfl, by simp, fun t ht => by cases ht⟩
      · exact ⟨rfl, by simp, fun t ht => by cases ht⟩
      · exact ⟨rfl, by simp, fun t ht => by cases ht⟩
      · exact ⟨rfl, by simp, fun t ht => by cases ht⟩
      · exact ⟨rfl, by simp, fun t ht => by cases ht⟩)

end OF.NetBal
