import OFProps.C04NetBalReqs
import OFProps.C04NetBalQueued
import OFProps.C04NetBalRejoin
import OFProps.C04TreeInv
set_option linter.unusedSimpArgs false
/-!
# What the splitter of the balanced network holds in every restart-free reachable state (helper lemmas for `OFProps/C04NetBalReach.lean`)

`NetK b st`:
* every receiver's `prev_id` is at least `-1` (so every request ever pushed carries an id `≥ -1`: never a CLOSE / special id);
* the splitter's sender is well formed (`SplitWF`): every queued request on PULL queue `j` is an ordinary request (`eph = 0`, id `≥ -1`) of
  node `j + 1` (key `cidOf i ++ uidOf g jj` with `j = i - 1`), and every entry of the client table filed under a key of node `i` is a
  synchronised client of output `i - 1`.
`netK_step` / `netK_run`: kept by every event but a restart (uses `Inv` of `OFProps/NetBalInv.lean` for the shape of the receivers).
-/
namespace OF.NetBal
open OF
open OF.Net (Proc St Node Obs Pending cidOf uidOf keyOf key_ne payloadOf ProcOK afterRecv afterSend processed recvSource sendSkip reqOf)

/-- a queued request on PULL queue `j` is an ordinary request of node `j + 1` -/
def ReqWF (j : Nat) (r : Send.Req) : Prop :=
  ∃ i g jj, keyOf r = cidOf i ++ uidOf g jj ∧ j = i - 1 ∧ r.eph = 0 ∧ ¬ r.mid ≤ OF.Facts.MSG_ID_SPECIAL

/-- a client entry filed under a key of node `i` is a synchronised client of output `i - 1` -/
def CliWF (k : String) (c : Send.Client) : Prop := ∃ i g jj, k = cidOf i ++ uidOf g jj ∧ c.out = i - 1 ∧ c.eph = 0

def SplitWF (p : Send.St) : Prop := (∀ k c, (k, c) ∈ p.clients → CliWF k c) ∧ Send.QAll ReqWF p

theorem splitWF_send0 (p : Send.St) (h : SplitWF p) (state : Option (Int × Nat)) (pl : Send.Payload) (push : Bool) (prio : List Nat)
    (t : Int) : SplitWF (Send.send0 p state pl push prio t).1 := by
  have hg := Send.send0_gen (fun cl => ∀ k c, (k, c) ∈ cl → CliWF k c) ReqWF (fun _ => True)
    (by
      intro s j r t' _ hc hR k c hm
      have hreg : ∀ k c, (k, c) ∈ Send.regd s j r t' → CliWF k c := by
        intro k c hm
        unfold Send.regd at hm
        rcases Pair.mem_cset _ _ _ _ hm with h1 | h1
        · exact hc k c h1
        · rcases hR with ⟨i, g, jj, hk, hj, he, _⟩
          have e1 : k = r.cid ++ r.uid := (Prod.mk.inj h1).1
          have e2 := (Prod.mk.inj h1).2
          subst e2
          exact ⟨i, g, jj, by rw [e1]; exact hk, hj, he⟩
      rcases Send.onReq_cases s j r t' with ⟨_, _, _, _, h1 | ⟨_, h1⟩⟩ | ⟨_, _, _, h1⟩ | ⟨_, _, h1⟩ | ⟨_, _, h1, _⟩
      · rw [h1] at hm; exact hc k c hm
      · rw [h1] at hm; exact hc k c ((Net.mem_cdel _ _ _).mp hm).1
      · rw [h1] at hm; exact hc k c hm
      · rw [h1] at hm; exact hreg k c hm
      · rw [h1] at hm; exact hreg k c (Send.evald_live s j r t' _ hm).1)
    (by
      intro s hc k c hm
      rcases Send.mem_cleared s k c hm with ⟨c0, h0, he | he⟩
      · rw [he]; exact hc k c0 h0
      · rcases hc k c0 h0 with ⟨i, g, jj, h1, h2, h3⟩
        rw [he]; exact ⟨i, g, jj, h1, h2, h3⟩)
    p state pl push prio t trivial h.1 h.2
  exact hg.2

structure NetK (b : Nat) (st : St) : Prop where
  prev : ∀ (i : Nat) (nd : Node), st.nodes[i]? = some nd → -1 ≤ nd.con.prevId
  split : ∃ nd : Node, st.nodes[0]? = some nd ∧ SplitWF nd.pub

theorem afterRecv_con (proc : Proc) (tbl : List Net.Entry) (i : Nat) (nd : Node) (r : Recv.St × List Recv.Out) :
    (afterRecv proc tbl i nd r).con = r.1 := by
  unfold afterRecv; split <;> rfl

theorem netK_init (b : Nat) (ll : Nat → Bool) : NetK b (init b ll) := by
  constructor
  · intro i nd hn
    simp only [init, List.getElem?_map] at hn
    cases hr : (List.range (b + 2))[i]? with
    | none => rw [hr] at hn; cases hn
    | some x =>
      rw [hr] at hn
      simp only [Option.map_some, Option.some.injEq] at hn
      subst hn
      show -1 ≤ OF.Facts.MSG_ID_INITIAL_PREV
      decide
  · refine ⟨freshNode b ll 0, by simp [init], ?_, ?_⟩
    · intro k c hm
      unfold freshNode at hm
      simp only [↓reduceIte, Send.mkSt] at hm
      cases hm
    · intro j q hq r hr
      unfold freshNode at hq
      simp only [↓reduceIte, Send.mkSt] at hq
      have : q ∈ List.replicate b ([] : List Send.Req) := List.mem_of_getElem? hq
      rw [List.mem_replicate] at this
      rw [this.2] at hr
      cases hr

theorem reqs_wf (b : Nat) (i : Nat) (ni : Node) (hprev : -1 ≤ ni.con.prevId)
    (hshape : ∀ e ∈ Net.ephs ni.con.srcs, e = (0, true, [])) :
    ∀ r ∈ (Recv.call0 ni.con ni.recvState (List.range ni.con.srcs.length)).2.filterMap (reqOf i ni.gen ((topo b).upsOf i) 0),
      ReqWF (outOf i 0) r := by
  intro r hr
  rw [List.mem_filterMap] at hr
  rcases hr with ⟨o, ho, hor⟩
  have hok := Net.call0_reqOK ni.con ni.recvState (List.range ni.con.srcs.length) hshape o ho
  cases o with
  | req j mid eph new =>
    simp only [reqOf] at hor
    split at hor
    · simp only [Option.some.injEq] at hor
      subst hor
      have ⟨h1, h2⟩ : eph = 0 ∧ ni.con.prevId ≤ mid := hok
      refine ⟨i, ni.gen, j, rfl, by simp [outOf], h1, ?_⟩
      show ¬ mid ≤ OF.Facts.MSG_ID_SPECIAL
      have : OF.Facts.MSG_ID_SPECIAL = -2 := rfl
      rw [this]; omega
    · cases hor
  | oob _ _ => cases hor
  | ret _ _ _ => cases hor
  | retNone => cases hor
  | dupTopic _ => cases hor

theorem netK_step (b : Nat) (proc : Proc) (st : St) (L : Log) (e : Ev) (hne : e.isRestart = false) (hinv : Inv b proc st L)
    (hK : NetK b st) : NetK b (step b proc st e).1 := by
  rcases hK with ⟨hprev, nd0, h0, hwf⟩
  rcases step_cases b proc st e hne with h | ⟨i, ni, rfl, hi, _, _, h⟩ | ⟨i, ni, rfl, hi, _, _, h⟩ | ⟨i, t, ni, p, rfl, hi, _, h⟩ |
      ⟨i, t, ni, p, rfl, hi, hp, _, h⟩
  · rw [h]; exact ⟨hprev, nd0, h0, hwf⟩
  · rw [h]
    simp only [recvSource]
    constructor
    · intro u nd hu
      rw [set_get st.nodes i ni _ hi] at hu
      by_cases hui : u = i
      · rw [if_pos hui] at hu
        cases hu
        exact hprev i ni hi
      · rw [if_neg hui] at hu; exact hprev u nd hu
    · rw [set_get st.nodes i ni _ hi]
      by_cases hui : 0 = i
      · subst hui
        rw [hi] at h0; cases h0
        exact ⟨processed proc 0 nd0 [], by rw [if_pos rfl], hwf⟩
      · exact ⟨nd0, by rw [if_neg hui]; exact h0, hwf⟩
  · rw [h]
    simp only [recvRelay]
    have hnode := hinv.base.nodes i ni hi
    have hshape : ∀ x ∈ Net.ephs ni.con.srcs, x = (0, true, []) := by
      intro x hx
      rw [hnode.shape] at hx
      rcases List.mem_map.mp hx with ⟨_, _, rfl⟩
      rfl
    have hmono := (Net.Lossy.call0_ids ni.con ni.recvState (List.range ni.con.srcs.length) hnode.conIdle).1
    constructor
    · intro u nd hu
      rw [deliverReqs_get, set_get st.nodes i ni _ hi] at hu
      by_cases hui : u = i
      · rw [if_pos hui] at hu
        simp only [Option.map_some, Option.some.injEq] at hu
        subst hu
        show -1 ≤ (afterRecv proc st.tbl i ni _).con.prevId
        rw [afterRecv_con]
        have := hprev i ni hi
        omega
      · rw [if_neg hui] at hu
        cases hn : st.nodes[u]? with
        | none => rw [hn] at hu; cases hu
        | some x =>
          rw [hn] at hu
          simp only [Option.map_some, Option.some.injEq] at hu
          subst hu
          exact hprev u x hn
    · rw [deliverReqs_get, set_get st.nodes i ni _ hi]
      have hrs := reqs_wf b i ni (hprev i ni hi) hshape
      by_cases hui : 0 = i
      · subst hui
        rw [hi] at h0; cases h0
        rw [if_pos rfl]
        refine ⟨_, rfl, ?_⟩
        simp only [afterRecv_pub]
        exact ⟨hwf.1, qall_pushReqsAt _ _ _ _ hwf.2 hrs⟩
      · rw [if_neg hui, h0]
        refine ⟨_, rfl, ?_⟩
        exact ⟨hwf.1, qall_pushReqsAt _ _ _ _ hwf.2 hrs⟩
  · rw [h]
    simp only [sendSkip]
    constructor
    · intro u nd hu
      rw [set_get st.nodes i ni _ hi] at hu
      by_cases hui : u = i
      · rw [if_pos hui] at hu
        cases hu
        exact hprev i ni hi
      · rw [if_neg hui] at hu; exact hprev u nd hu
    · rw [set_get st.nodes i ni _ hi]
      by_cases hui : 0 = i
      · subst hui
        rw [hi] at h0; cases h0
        exact ⟨{ nd0 with pending := none }, by rw [if_pos rfl], hwf⟩
      · exact ⟨nd0, by rw [if_neg hui]; exact h0, hwf⟩
  · rw [h]
    simp only [sendReal]
    constructor
    · intro u nd hu
      rw [deliverWires_get, set_get st.nodes i ni _ hi] at hu
      by_cases hui : u = i
      · rw [if_pos hui] at hu
        simp only [Option.map_some, Option.some.injEq] at hu
        subst hu
        show -1 ≤ (afterSend ni p _).con.prevId
        rw [(afterSend_cases ni p _).2.1]
        exact hprev i ni hi
      · rw [if_neg hui] at hu
        cases hn : st.nodes[u]? with
        | none => rw [hn] at hu; cases hu
        | some x =>
          rw [hn] at hu
          simp only [Option.map_some, Option.some.injEq] at hu
          subst hu
          exact hprev u x hn
    · rw [deliverWires_get, set_get st.nodes i ni _ hi]
      by_cases hui : 0 = i
      · subst hui
        rw [hi] at h0; cases h0
        rw [if_pos rfl]
        refine ⟨_, rfl, ?_⟩
        show SplitWF (afterSend nd0 p _).pub
        rw [(afterSend_cases nd0 p _).1]
        exact splitWF_send0 _ hwf _ _ _ _ _
      · rw [if_neg hui, h0]
        exact ⟨_, rfl, hwf⟩

/-- `NetK` along every restart-free schedule -/
theorem netK_run (b : Nat) (proc : Proc) (hp : ProcOK proc) : ∀ (evs : List Ev) (st : St) (L : Log),
    (∀ e ∈ evs, e.isRestart = false) → Inv b proc st L → NetK b st → NetK b (run b proc st evs).1 := by
  intro evs
  induction evs with
  | nil => intro st L _ _ h; exact h
  | cons e es ih =>
    intro st L hnr hinv hK
    rw [run_cons]
    have hne := hnr e (List.mem_cons_self ..)
    exact ih _ _ (fun x hx => hnr x (List.mem_cons_of_mem _ hx)) (inv_step b proc hp st L e hne hinv) (netK_step b proc st L e hne hinv hK)

/-! ## the other nodes (workers, rejoin): idle one-output non-balanced senders with ordinary requests and synchronised clients -/

/-- a request is ordinary: not ephemeral, no special id -/
def ReqOrd (_ : Nat) (r : Send.Req) : Prop := r.eph = 0 ∧ ¬ r.mid ≤ OF.Facts.MSG_ID_SPECIAL

/-- the sender of a node other than the splitter: idle between calls (one PULL queue, not balanced, nothing required), every client entry
synchronised, every queued request ordinary -/
def NodeWF (nd : Node) : Prop :=
  (∃ q, Pair.PubIdle nd.pub q) ∧ (∀ k c, (k, c) ∈ nd.pub.clients → c.eph = 0) ∧ Send.QAll ReqOrd nd.pub

theorem ord_send0 (p : Send.St) (h1 : ∀ k c, (k, c) ∈ p.clients → c.eph = 0) (h2 : Send.QAll ReqOrd p) (state : Option (Int × Nat))
    (pl : Send.Payload) (push : Bool) (prio : List Nat) (t : Int) :
    (∀ k c, (k, c) ∈ (Send.send0 p state pl push prio t).1.clients → c.eph = 0) ∧ Send.QAll ReqOrd (Send.send0 p state pl push prio t).1 := by
  have hg := Send.send0_gen (fun cl => ∀ k c, (k, c) ∈ cl → c.eph = 0) ReqOrd (fun _ => True)
    (by
      intro s j r t' _ hc hR k c hm
      have hreg : ∀ k c, (k, c) ∈ Send.regd s j r t' → c.eph = 0 := by
        intro k c hm
        unfold Send.regd at hm
        rcases Pair.mem_cset _ _ _ _ hm with h1 | h1
        · exact hc k c h1
        · have e2 := (Prod.mk.inj h1).2
          subst e2
          exact hR.1
      rcases Send.onReq_cases s j r t' with ⟨_, _, _, _, h1 | ⟨_, h1⟩⟩ | ⟨_, _, _, h1⟩ | ⟨_, _, h1⟩ | ⟨_, _, h1, _⟩
      · rw [h1] at hm; exact hc k c hm
      · rw [h1] at hm; exact hc k c ((Net.mem_cdel _ _ _).mp hm).1
      · rw [h1] at hm; exact hc k c hm
      · rw [h1] at hm; exact hreg k c hm
      · rw [h1] at hm; exact hreg k c (Send.evald_live s j r t' _ hm).1)
    (by
      intro s hc k c hm
      rcases Send.mem_cleared s k c hm with ⟨c0, h0, he | he⟩
      · rw [he]; exact hc k c0 h0
      · rw [he]; exact hc k c0 h0)
    p state pl push prio t trivial h1 h2
  exact hg.2

theorem nodeWF_send0 (nd : Node) (h : NodeWF nd) (state : Option (Int × Nat)) (pl : Send.Payload) (t : Int) :
    (∃ q, Pair.PubIdle (Send.send0 nd.pub state pl false (sendPrio nd) t).1 q) ∧
    (∀ k c, (k, c) ∈ (Send.send0 nd.pub state pl false (sendPrio nd) t).1.clients → c.eph = 0) ∧
    Send.QAll ReqOrd (Send.send0 nd.pub state pl false (sendPrio nd) t).1 := by
  rcases h with ⟨⟨q, hq⟩, h1, h2⟩
  have ⟨a, c⟩ := ord_send0 nd.pub h1 h2 state pl false (sendPrio nd) t
  refine ⟨?_, a, c⟩
  rw [sendPrio_idle nd q hq]
  have ⟨q', hq', _⟩ := Net.send0_idle nd.pub q state pl t hq
  exact ⟨q', hq'⟩

theorem reqs_ord (b : Nat) (i u : Nat) (ni : Node) (hprev : -1 ≤ ni.con.prevId)
    (hshape : ∀ e ∈ Net.ephs ni.con.srcs, e = (0, true, [])) :
    ∀ r ∈ (Recv.call0 ni.con ni.recvState (List.range ni.con.srcs.length)).2.filterMap (reqOf i ni.gen ((topo b).upsOf i) u),
      ReqOrd (outOf i u) r := by
  intro r hr
  rw [List.mem_filterMap] at hr
  rcases hr with ⟨o, ho, hor⟩
  have hok := Net.call0_reqOK ni.con ni.recvState (List.range ni.con.srcs.length) hshape o ho
  cases o with
  | req j mid eph new =>
    simp only [reqOf] at hor
    split at hor
    · simp only [Option.some.injEq] at hor
      subst hor
      have ⟨h1, h2⟩ : eph = 0 ∧ ni.con.prevId ≤ mid := hok
      refine ⟨h1, ?_⟩
      show ¬ mid ≤ OF.Facts.MSG_ID_SPECIAL
      have : OF.Facts.MSG_ID_SPECIAL = -2 := rfl
      rw [this]; omega
    · cases hor
  | oob _ _ => cases hor
  | ret _ _ _ => cases hor
  | retNone => cases hor
  | dupTopic _ => cases hor

theorem nodeWF_pushReqsAt (nd nd' : Node) (q0 : Nat) (rs : List Send.Req) (h : NodeWF nd) (hp : nd'.pub = pushReqsAt nd.pub q0 rs)
    (hrs : ∀ r ∈ rs, ReqOrd q0 r) : NodeWF nd' := by
  rcases h with ⟨⟨q, hq⟩, h1, h2⟩
  refine ⟨⟨_, by rw [hp]; exact pubIdle_pushReqsAt nd.pub q q0 rs hq⟩, by rw [hp]; exact h1, ?_⟩
  rw [hp]
  exact qall_pushReqsAt _ _ _ _ h2 hrs

/-- every node but the splitter -/
def NetK2 (st : St) : Prop := ∀ (u : Nat) (nd : Node), u ≠ 0 → st.nodes[u]? = some nd → NodeWF nd

theorem netK2_init (b : Nat) (ll : Nat → Bool) : NetK2 (init b ll) := by
  intro u nd hu0 hn
  simp only [init, List.getElem?_map] at hn
  cases hr : (List.range (b + 2))[u]? with
  | none => rw [hr] at hn; cases hn
  | some x =>
    rw [hr] at hn
    simp only [Option.map_some, Option.some.injEq] at hn
    have hx : x = u := by
      have := List.getElem?_eq_some_iff.mp hr
      rcases this with ⟨hlt, he⟩
      simp only [List.getElem_range] at he
      exact he.symm
    subst hx
    subst hn
    have hpub : (freshNode b ll x).pub = Send.mkSt 1 false [] := by
      unfold freshNode; simp only [hu0, ↓reduceIte]
    refine ⟨⟨[], ?_⟩, ?_, ?_⟩
    · rw [hpub]; exact ⟨rfl, rfl, rfl, rfl, by decide⟩
    · rw [hpub]; intro k c hm; cases hm
    · rw [hpub]
      intro j q hq r hr
      have : q ∈ List.replicate 1 ([] : List Send.Req) := List.mem_of_getElem? hq
      rw [List.mem_replicate] at this
      rw [this.2] at hr
      cases hr

theorem netK2_step (b : Nat) (proc : Proc) (st : St) (L : Log) (e : Ev) (hne : e.isRestart = false) (hinv : Inv b proc st L)
    (hK : NetK b st) (hK2 : NetK2 st) : NetK2 (step b proc st e).1 := by
  have hprev := hK.prev
  rcases step_cases b proc st e hne with h | ⟨i, ni, rfl, hi, _, _, h⟩ | ⟨i, ni, rfl, hi, _, _, h⟩ | ⟨i, t, ni, p, rfl, hi, _, h⟩ |
      ⟨i, t, ni, p, rfl, hi, hp, _, h⟩
  · rw [h]; exact hK2
  · rw [h]
    simp only [recvSource]
    intro u nd hu0 hu
    rw [set_get st.nodes i ni _ hi] at hu
    by_cases hui : u = i
    · rw [if_pos hui] at hu
      cases hu
      subst hui
      exact hK2 u ni hu0 hi
    · rw [if_neg hui] at hu; exact hK2 u nd hu0 hu
  · rw [h]
    simp only [recvRelay]
    have hnode := hinv.base.nodes i ni hi
    have hshape : ∀ x ∈ Net.ephs ni.con.srcs, x = (0, true, []) := by
      intro x hx
      rw [hnode.shape] at hx
      rcases List.mem_map.mp hx with ⟨_, _, rfl⟩
      rfl
    intro u nd hu0 hu
    rw [deliverReqs_get, set_get st.nodes i ni _ hi] at hu
    have hrs := reqs_ord b i u ni (hprev i ni hi) hshape
    by_cases hui : u = i
    · rw [if_pos hui] at hu
      simp only [Option.map_some, Option.some.injEq] at hu
      subst hui
      refine nodeWF_pushReqsAt ni nd _ _ (hK2 u ni hu0 hi) ?_ hrs
      rw [← hu]
      simp only [afterRecv_pub]
    · rw [if_neg hui] at hu
      cases hn : st.nodes[u]? with
      | none => rw [hn] at hu; cases hu
      | some x =>
        rw [hn] at hu
        simp only [Option.map_some, Option.some.injEq] at hu
        refine nodeWF_pushReqsAt x nd _ _ (hK2 u x hu0 hn) ?_ hrs
        rw [← hu]
  · rw [h]
    simp only [sendSkip]
    intro u nd hu0 hu
    rw [set_get st.nodes i ni _ hi] at hu
    by_cases hui : u = i
    · rw [if_pos hui] at hu
      cases hu
      subst hui
      exact hK2 u ni hu0 hi
    · rw [if_neg hui] at hu; exact hK2 u nd hu0 hu
  · rw [h]
    simp only [sendReal]
    intro u nd hu0 hu
    rw [deliverWires_get, set_get st.nodes i ni _ hi] at hu
    by_cases hui : u = i
    · rw [if_pos hui] at hu
      simp only [Option.map_some, Option.some.injEq] at hu
      subst hui
      have hw := nodeWF_send0 ni (hK2 u ni hu0 hi) ni.sendState (payloadOf st.tbl.length p.res) t
      have hpub : nd.pub = (Send.send0 ni.pub ni.sendState (payloadOf st.tbl.length p.res) false (sendPrio ni) t).1 := by
        rw [← hu]
        exact (afterSend_cases ni p _).1
      unfold NodeWF
      rw [hpub]
      exact hw
    · rw [if_neg hui] at hu
      cases hn : st.nodes[u]? with
      | none => rw [hn] at hu; cases hu
      | some x =>
        rw [hn] at hu
        simp only [Option.map_some, Option.some.injEq] at hu
        have := hK2 u x hu0 hn
        rw [← hu]
        exact this

/-- `NetK` and `NetK2` along every restart-free schedule -/
theorem netK2_run (b : Nat) (proc : Proc) (hp : ProcOK proc) : ∀ (evs : List Ev) (st : St) (L : Log),
    (∀ e ∈ evs, e.isRestart = false) → Inv b proc st L → NetK b st → NetK2 st → NetK2 (run b proc st evs).1 := by
  intro evs
  induction evs with
  | nil => intro st L _ _ _ h; exact h
  | cons e es ih =>
    intro st L hnr hinv hK hK2
    rw [run_cons]
    have hne := hnr e (List.mem_cons_self ..)
    exact ih _ _ (fun x hx => hnr x (List.mem_cons_of_mem _ hx)) (inv_step b proc hp st L e hne hinv) (netK_step b proc st L e hne hinv hK)
      (netK2_step b proc st L e hne hinv hK hK2)

end OF.NetBal
