import OFModel.Zmq.NetEph
import OFProps.C03Net
set_option linter.unusedSimpArgs false
/-!
# Erasing the listener requests from a network state (helper lemmas for `OFProps/C05Net.lean`, `C05NetTree.lean`)

`stripSt st` removes every queued LISTENER request (`isListenerReq`) from every PULL queue; everything else (client tables, every
other field of every node, the ghost table) stays.  The invariants `Good` / `GoodT` of C03 stage C speak about queued requests only
through "every queued request names an id at or below the last published one"; with listeners the invariant is
`Good (stripX X)`: "every queued NON-LISTENER request …".  This file shows, for EVERY topology:
* the arrival of a listener request does not change the stripped state (`stripSt_ephPush`);
* `nodeRecv` commutes with stripping (`stepRecv_strip`): it never reads a PULL queue, and what it appends are requests of node ids
  (`"N<i>"`), never listener requests (`cidOf_not_listener`);
* `deliverWires`, `sendSkip` commute with stripping.
`nodeSend` does NOT commute (the publisher reads its queue): that step is re-proved from `send0_chain_eph` in `C05Net.lean`.
-/
namespace OF.Net.Eph
open OF.Net
open OF.Recv (Wire)

/-! ## node ids are not listener ids -/

theorem cidOf_not_listener (i : Nat) : isListenerCid (cidOf i) = false := by
  unfold isListenerCid cidOf
  rw [String.startsWith_string_eq_false_iff]
  simp only [String.toList_append]
  intro hc
  rcases hc with ⟨rest, hr⟩
  have e1 : ("N" : String).toList = ['N'] := by decide
  have e2 : ("E" : String).toList = ['E'] := by decide
  rw [e1, e2] at hr
  simp at hr

theorem isListenerReq_iff (r : Send.Req) : isListenerReq r = true ↔ IsListenerReq r := by
  unfold isListenerReq IsListenerReq
  simp

/-! ## stripping -/

def keepReq (r : Send.Req) : Bool := !isListenerReq r

def stripPub (p : Send.St) : Send.St := { p with queues := p.queues.map fun q => q.filter keepReq }

def stripNode (nd : Node) : Node := { nd with pub := stripPub nd.pub }

def stripSt (st : St) : St := { st with nodes := st.nodes.map stripNode }

def stripX (X : LSt) : LSt := { st := stripSt X.st, log := X.log }

theorem reqOf_keep (i gen : Nat) (ups : List Nat) (u : Nat) (o : Recv.Out) (r : Send.Req) (h : reqOf i gen ups u o = some r) :
    keepReq r = true := by
  cases o with
  | req j mid eph new =>
    simp only [reqOf] at h
    split at h
    · simp only [Option.some.injEq] at h
      subst h
      simp [keepReq, isListenerReq, cidOf_not_listener]
    · cases h
  | oob a b => cases h
  | ret a b c => cases h
  | retNone => cases h
  | dupTopic t => cases h

theorem stripPub_pushReqs_keep (p : Send.St) (rs : List Send.Req) (h : ∀ r ∈ rs, keepReq r = true) :
    stripPub (pushReqs p rs) = pushReqs (stripPub p) rs := by
  have : rs.filter keepReq = rs := List.filter_eq_self.mpr h
  simp only [stripPub, pushReqs, List.map_map, Function.comp_def, List.filter_append, this]

theorem stripPub_pushReqs_listener (p : Send.St) (r : Send.Req) (h : IsListenerReq r) :
    stripPub (pushReqs p [r]) = stripPub p := by
  have hk : keepReq r = false := by
    unfold keepReq; rw [(isListenerReq_iff r).mpr h]; rfl
  simp only [stripPub, pushReqs, List.map_map, Function.comp_def, List.filter_append, List.filter_cons, hk, List.filter_nil,
    Bool.false_eq_true, ↓reduceIte, List.append_nil]

theorem stripSt_get (st : St) (u : Nat) : (stripSt st).nodes[u]? = (st.nodes[u]?).map stripNode := by
  simp only [stripSt, List.getElem?_map]

/-- **the arrival of a listener request is invisible after stripping** -/
theorem stripSt_ephPush (tp : Topo) (st : St) (p : Nat) (r : Send.Req) (h : IsListenerReq r) :
    stripSt (ephPush tp st p r) = stripSt st := by
  unfold stripSt ephPush
  simp only
  congr 1
  apply List.ext_getElem?
  intro u
  rw [List.getElem?_map, List.getElem?_map, List.getElem?_mapIdx]
  cases st.nodes[u]? with
  | none => rfl
  | some nd =>
    simp only [Option.map_some, Option.some.injEq]
    split
    · simp only [stripNode, stripPub_pushReqs_listener nd.pub r h]
    · rfl

theorem deliverReqs_strip (tp : Topo) (nodes : List Node) (i gen : Nat) (outs : List Recv.Out) :
    (deliverReqs tp nodes i gen outs).map stripNode = deliverReqs tp (nodes.map stripNode) i gen outs := by
  apply List.ext_getElem?
  intro u
  rw [List.getElem?_map, deliverReqs_get, deliverReqs_get, List.getElem?_map]
  cases nodes[u]? with
  | none => rfl
  | some nd =>
    simp only [Option.map_some, Option.some.injEq, stripNode]
    rw [stripPub_pushReqs_keep]
    intro r hr
    rw [List.mem_filterMap] at hr
    rcases hr with ⟨o, _, ho⟩
    exact reqOf_keep i gen _ u o r ho

theorem deliverWires_strip (tp : Topo) (nodes : List Node) (p : Nat) (ws : List Wire) :
    (deliverWires tp nodes p ws).map stripNode = deliverWires tp (nodes.map stripNode) p ws := by
  apply List.ext_getElem?
  intro u
  rw [List.getElem?_map, deliverWires_get, deliverWires_get, List.getElem?_map]
  cases nodes[u]? with
  | none => rfl
  | some nd => rfl

theorem afterRecv_strip (proc : Proc) (tbl : List Entry) (i : Nat) (nd : Node) (r : Recv.St × List Recv.Out) :
    afterRecv proc tbl i (stripNode nd) r = stripNode (afterRecv proc tbl i nd r) := by
  unfold afterRecv
  cases retOf r.2 with
  | none => rfl
  | some x => rfl

/-- **`nodeRecv` commutes with stripping** (any topology) -/
theorem stepRecv_strip (tp : Topo) (proc : Proc) (st : St) (i : Nat) :
    stepRecv tp proc (stripSt st) i = (stripSt (stepRecv tp proc st i).1, (stepRecv tp proc st i).2) := by
  unfold stepRecv
  rw [stripSt_get]
  cases hn : st.nodes[i]? with
  | none => rfl
  | some nd =>
    simp only [Option.map_some]
    have e1 : (stripNode nd).pending = nd.pending := rfl
    have e2 : (stripNode nd).con = nd.con := rfl
    rw [e1, e2]
    split
    · rfl
    · split
      · simp only [recvSource, stripSt, List.map_set]
        rfl
      · simp only [recvRelay, stripSt]
        have e3 : (stripNode nd).recvState = nd.recvState := rfl
        have e4 : (stripNode nd).gen = nd.gen := rfl
        rw [e2, e3, e4, deliverReqs_strip, List.map_set, afterRecv_strip]

theorem lstep_recv_strip (tp : Topo) (proc : Proc) (X : LSt) (i : Nat) :
    lstep tp proc (stripX X) (.nodeRecv i) = stripX (lstep tp proc X (.nodeRecv i)) := by
  simp only [lstep, step, stripX, stepRecv_strip]

theorem sendSkip_strip (st : St) (i : Nat) (nd : Node) :
    sendSkip (stripSt st) i (stripNode nd) = (stripSt (sendSkip st i nd).1, (sendSkip st i nd).2) := by
  simp only [sendSkip, stripSt, List.map_set]
  rfl

/-- the node after its `send`, stripped: what `send_lookup` / `send_lookupT` need -/
theorem sendReal_strip_nodes (tp : Topo) (st : St) (j : Nat) (nd' : Node) (ws : List Wire) :
    (deliverWires tp (st.nodes.set j nd') j ws).map stripNode =
      deliverWires tp ((stripSt st).nodes.set j (stripNode nd')) j ws := by
  rw [deliverWires_strip, List.map_set]
  rfl

end OF.Net.Eph
