import OFProps.C01
import OFProps.C02
import OFProps.NetRecv
/-!
# C02 — "at most once", frame by frame

`C02_strict_order` says the ids of the returned sets increase strictly (no *set* twice).  This file adds the frame-level
statement for a receiver whose sources are all synchronised: along any admissible event sequence, every frame of every
returned set carries the id its set is returned under (run-level form of `C01_same_id`), hence two different returned sets
never share a frame: each upstream message is handed over at most once.
-/
namespace OF.Recv
open OF.Net (ephs ephs_step kindOf)

/-- the returned sets of an output list, in order: (id, frames) -/
def rets (os : List Out) : List (Int × List (Topic × Msg)) :=
  os.filterMap fun o => match o with | .ret id _ d => some (id, d) | _ => none

theorem rets_append (a b : List Out) : rets (a ++ b) = rets a ++ rets b := by
  unfold rets; rw [List.filterMap_append]

theorem rets_ids (os : List Out) : (rets os).map (·.1) = retIds os := by
  unfold rets retIds
  rw [List.map_filterMap]
  congr 1
  funext o
  cases o <;> rfl

/-- every event of the list is admissible in the state it meets (`Adm`: the `state` discipline of `MQ`, non-empty topic names) -/
def AdmRun : St → List Ev → Prop
  | _, [] => True
  | st, e :: es => Adm st e ∧ AdmRun (step st e).1 es

def AllSync (st : St) : Prop := ∀ s ∈ st.srcs, s.eph = 0

theorem allSync_step (st : St) (e : Ev) (h : AllSync st) : AllSync (step st e).1 := by
  have hk := ephs_step st e
  intro s hs
  have : kindOf s ∈ ephs (step st e).1.srcs := List.mem_map_of_mem hs
  rw [hk] at this
  rcases List.mem_map.mp this with ⟨s0, hs0, hk0⟩
  have := h s0 hs0
  have h1 : (kindOf s0).1 = (kindOf s).1 := by rw [hk0]
  simpa [kindOf, this] using h1.symm

/-- the frames of every set returned along the run carry the id of their set -/
def OwnId (R : List (Int × List (Topic × Msg))) : Prop := ∀ r ∈ R, ∀ p ∈ r.2, p.2.mid = r.1

theorem step_ownId (st : St) (e : Ev) (hi : Inv st) (hs : AllSync st) : OwnId (rets (step st e).2) := by
  intro r hr p hp
  unfold rets at hr
  rcases List.mem_filterMap.mp hr with ⟨o, ho, hro⟩
  have hok := C01_same_id st st hi Reach.init e o ho
  cases o with
  | ret id bal data =>
    simp only [Option.some.injEq] at hro
    subst hro
    rcases hok p hp with ⟨s, hsm, _, hmid⟩
    exact hmid (hs s hsm)
  | _ => cases hro

theorem run_ownId : ∀ (evs : List Ev) (st : St), Inv st → AllSync st → AdmRun st evs → OwnId (rets (run st evs).2) := by
  intro evs
  induction evs with
  | nil => intro st _ _ _ r hr; simp [run, rets] at hr
  | cons e es ih =>
    intro st hi hs ha
    rw [OF.Net.rrun_cons]
    simp only
    rw [rets_append]
    intro r hr
    rcases List.mem_append.mp hr with h | h
    · exact step_ownId st e hi hs r h
    · exact ih _ (step_inv st e hi ha.1) (allSync_step st e hs) ha.2 r h

/-- **C02 (at most once, frame by frame)**: receiver with synchronised sources only, any admissible event sequence: of two
returned sets the earlier one holds only frames with strictly smaller ids than the later one - so no upstream message is
ever handed to the filter twice, and every frame sits in the set of its own id. -/
theorem C02_at_most_once (st0 : St) (hi : Inv st0) (hm : MonoInv st0) (hs : AllSync st0) (evs : List Ev) (ha : AdmRun st0 evs) :
    OwnId (rets (run st0 evs).2) ∧
    (rets (run st0 evs).2).Pairwise (fun a b => a.1 < b.1 ∧ ∀ p ∈ a.2, ∀ q ∈ b.2, p.2.mid < q.2.mid ∧ p.2 ≠ q.2) := by
  have hown := run_ownId evs st0 hi hs ha
  refine ⟨hown, ?_⟩
  have hord := (C02_strict_order st0 hm evs).1
  rw [← rets_ids, List.pairwise_map] at hord
  refine List.Pairwise.imp_of_mem ?_ hord
  intro a b hma hmb hab
  refine ⟨hab, fun p hp q hq => ?_⟩
  have h1 := hown a hma p hp
  have h2 := hown b hmb q hq
  refine ⟨by omega, fun heq => ?_⟩
  rw [heq] at h1; omega

/-- non-vacuity: two sets are returned; their frames differ -/
example : (rets (run (mkSt [mkSrc 0 none] false false)
    [.deliver 0 ⟨"/main/", "A", 1, ["main"], 0, 11⟩, .begin none, .take 0, .check,
     .deliver 0 ⟨"/main/", "A", 3, ["main"], 0, 13⟩, .begin none, .take 0, .check]).2).map (·.1) = [1, 3] := by decide +kernel

end OF.Recv
