import OFProps.C04Net
import OFProps.PairFair
set_option linter.unusedSimpArgs false
/-!
# One edge of a chain, liveness side (helper lemmas for `OFProps/C06Net.lean`)

What `send` and `recv` DO on an edge in lock-step (`ChainLock`), beyond keeping the invariant:
* `send0_live` — a publisher with a dict to send whose queued requests all come from its one consumer and ask for ids below
  its next one: if some request gets past the handshake test (`Pair.effB`: the consumer is already tracked, or the request
  does not say `new`) the frame set IS published; otherwise (and something is queued) HELLO goes out.
* `call0_live` — the consumer's `recv`: a complete frame set queued ⇒ returned; otherwise the queue is drained and ONE request
  is pushed, which says `new` only if nothing was queued and nothing had been heard before.
-/
namespace OF.Net
open OF OF.Send
open OF.Pair (PubIdle PubBusy popped OthersStale effB)

/-- all queued requests are regular requests of client `fid` for ids below `m` -/
def OwnLow (fid : String) (m : Int) (q : List Req) : Prop := ∀ r ∈ q, Pair.fidOf r = fid ∧ ReqLow m r ∧ r.eph = 0

/-- the drain when every queued request is the consumer's own and asks for an id below the id being sent (the version of
`Pair.drain_own_lt` for requests with different ids) -/
theorem drain_own_low : ∀ (q : List Req) (stb : Send.St) (t : Int) (fid : String),
    PubBusy stb q → OwnLow fid stb.msgId q → OthersStale fid t stb.clients →
    PubBusy (drain (q.length + 1) stb [0] t).1 [] ∧ (drain (q.length + 1) stb [0] t).1.payload = stb.payload ∧
    (drain (q.length + 1) stb [0] t).1.msgId = stb.msgId ∧ (drain (q.length + 1) stb [0] t).1.minSendId = stb.minSendId ∧
    (drain (q.length + 1) stb [0] t).2 = [] ∧ (drain (q.length + 1) stb [0] t).1.balanced = stb.balanced ∧
    (if effB stb.clients fid q = true then Pair.Good fid (drain (q.length + 1) stb [0] t).1
     else ((drain (q.length + 1) stb [0] t).1.clients = stb.clients ∧ (drain (q.length + 1) stb [0] t).1.doSend = stb.doSend ∧
           (drain (q.length + 1) stb [0] t).1.doHello = (stb.doHello || !q.isEmpty))) := by
  intro q
  induction q with
  | nil =>
    intro stb t fid hb _ _
    simp only [List.length_nil, Nat.zero_add]
    rw [Pair.drain_nil 0 stb t hb]
    exact ⟨hb, rfl, rfl, rfl, rfl, rfl, by simp [effB]⟩
  | cons r q' ih =>
    intro stb t fid hb ho hs
    have ⟨hf, hlow, he⟩ := ho r (List.mem_cons_self ..)
    have ho' : OwnLow fid stb.msgId q' := fun x hx => ho x (List.mem_cons_of_mem _ hx)
    have hp := Pair.popped_busy stb r q' hb
    have hdr : ¬ r.mid ≤ OF.Facts.MSG_ID_SPECIAL := by
      have : OF.Facts.MSG_ID_SPECIAL = -2 := rfl
      have := hlow.1; omega
    have hlk := onReq_lock (popped stb q') q' r t hp hlow
    rw [List.length_cons, Pair.drain_cons (q'.length + 1) stb r q' t hb, Pair.stepHandle_cons stb r q' t hb]
    simp only [hlk.2.2.2.2.2.2, ↓reduceIte, hlk.2.2.2.2.2.1, List.nil_append]
    by_cases hne : Pair.needsHello (popped stb q') r = true
    · have hor := Pair.onReq_newconn (popped stb q') r t hdr hne
      rw [hor]
      have hb1 : PubBusy { popped stb q' with doHello := true } q' :=
        ⟨rfl, hb.balance, hb.required, hb.inCall, hb.push, hb.minpos, hb.msgpos⟩
      have := ih { popped stb q' with doHello := true } t fid hb1 ho' hs
      refine ⟨this.1, this.2.1, this.2.2.1, this.2.2.2.1, this.2.2.2.2.1, this.2.2.2.2.2.1, ?_⟩
      have hnot : (stb.clients.any (·.1 == fid) || !r.new) = false := by
        have := Pair.needsHello_eq (popped stb q') r
        have hcl : (popped stb q').clients = stb.clients := rfl
        rw [hne, hf, hcl] at this
        simpa using this.symm
      have heff : effB stb.clients fid (r :: q') = effB stb.clients fid q' := by
        simp only [effB, List.any_cons, hnot, Bool.false_or]
      rw [heff]
      have h6 := this.2.2.2.2.2.2
      simp only [popped] at h6 ⊢
      by_cases hc : effB stb.clients fid q' = true
      · simp only [hc, ↓reduceIte] at h6 ⊢; exact h6
      · simp only [hc, Bool.false_eq_true, ↓reduceIte] at h6 ⊢
        exact ⟨h6.1, h6.2.1, by rw [h6.2.2]; simp⟩
    · have hne' : Pair.needsHello (popped stb q') r = false := by simpa using hne
      have ⟨_, hgood⟩ := Pair.onReq_own_normal (popped stb q') r t q' hp hdr hne' hlow.2 (by rw [hf]; exact hs)
      rw [hf] at hgood
      have hs1 : OthersStale fid t (onReq (popped stb q') 0 r t).1.clients := Pair.othersStale_of_all _ _ _ hgood.2.1
      have ho1 : OwnLow fid (onReq (popped stb q') 0 r t).1.msgId q' := by rw [hlk.2.2.1]; exact ho'
      have := ih _ t fid hlk.1 ho1 hs1
      refine ⟨this.1, by rw [this.2.1, hlk.2.1]; rfl, by rw [this.2.2.1, hlk.2.2.1]; rfl, by rw [this.2.2.2.1, hlk.2.2.2.1]; rfl,
        this.2.2.2.2.1, by rw [this.2.2.2.2.2.1, hlk.2.2.2.2.1]; rfl, ?_⟩
      have heff : effB stb.clients fid (r :: q') = true := by
        have hcl : (popped stb q').clients = stb.clients := rfl
        have h1 := Pair.needsHello_eq (popped stb q') r
        rw [hne', hf, hcl] at h1
        simp only [effB, List.any_cons]
        have : (stb.clients.any (·.1 == fid) || !r.new) = true := by
          cases hx : (stb.clients.any (·.1 == fid) || !r.new) with
          | true => rfl
          | false => rw [hx] at h1; cases h1
        rw [this]; rfl
      rw [if_pos heff]
      have h6 := this.2.2.2.2.2.2
      split at h6
      · exact h6
      · exact ⟨by rw [h6.2.1]; exact hgood.1, by rw [h6.1]; exact hgood.2.1, by rw [h6.1]; exact hgood.2.2⟩

theorem keys_publish (st : Send.St) (ts : List (String × Nat)) (fid : String) (h : ∀ x ∈ st.clients, x.1 = fid) :
    ∀ x ∈ (publish st ts).1.clients, x.1 = fid := by
  intro x hx
  unfold publish at hx
  simp only [List.mem_map] at hx
  rcases hx with ⟨y, hy, rfl⟩
  have := h y hy
  split <;> exact this

/-- **what a `send` of a dict does when only the one consumer's requests (for ids below the next one) are queued**:
some request past the handshake test ⇒ `min_send_id` moves (the set is published); none, but something queued ⇒ HELLO goes
out and nothing else changes; in both cases nobody but the consumer is in the client table afterwards -/
theorem send0_live (u : Nat) (p : Send.St) (q : List Req) (ts : List (String × Nat)) (t : Int) (fid : String)
    (h : PubIdle p q) (ho : OwnLow fid p.minSendId q) (hcl : ∀ x ∈ p.clients, x.1 = fid) :
    (∀ x ∈ (send0 p none (.deferred (some ts)) false [0] t).1.clients, x.1 = fid) ∧
    (effB p.clients fid q = true → (send0 p none (.deferred (some ts)) false [0] t).1.minSendId = p.minSendId + 1) ∧
    (effB p.clients fid q = false → q ≠ [] → helloW u ∈ (send0 p none (.deferred (some ts)) false [0] t).2.filterMap (wireOf u)) := by
  have hb := Pair.beginPub_busy p q (.deferred (some ts)) h
  have hs : OthersStale fid t (Pair.beginPub p (.deferred (some ts))).clients := Pair.othersStale_of_all _ _ _ hcl
  have hd := drain_own_low q (Pair.beginPub p (.deferred (some ts))) t fid hb ho hs
  have hclb : (Pair.beginPub p (.deferred (some ts))).clients = p.clients := rfl
  rw [hclb] at hd
  rw [Pair.send0_unfold p q _ t h]
  generalize drain (q.length + 1) (Pair.beginPub p (.deferred (some ts))) [0] t = d at hd ⊢
  rcases hd with ⟨k1, kpay, kmsg, kmin, kout, _, kcase⟩
  have kpay' : d.1.payload = .deferred (some ts) := kpay
  have kmsg' : d.1.msgId = p.minSendId := kmsg
  have kmin' : d.1.minSendId = p.minSendId := kmin
  simp only [k1.inCall, Bool.true_eq_false, ↓reduceIte]
  cases he : effB p.clients fid q with
  | true =>
    rw [he] at kcase
    simp only [↓reduceIte] at kcase
    rcases kcase with ⟨kdo, kall, kany⟩
    have hne : d.1.clients.isEmpty = false := by
      cases hc : d.1.clients with
      | nil => rw [hc] at kany; cases kany
      | cons _ _ => rfl
    have hg : gate d.1 = (none, .topics ts, [.evaluated]) := by
      unfold gate
      simp only [kdo, hne, Bool.not_true, Bool.or_self, Bool.false_and, Bool.false_eq_true, ↓reduceIte, kpay']
    have hsm : sendMaybe d.1 = ((publish { d.1 with doHello := false, payload := .topics ts } ts).1,
        [.evaluated] ++ helloOuts d.1 none ++ (publish { d.1 with doHello := false, payload := .topics ts } ts).2, true) := by
      unfold sendMaybe
      simp only [hg, payloadTopics]
    rw [hsm]
    simp only [↓reduceIte]
    refine ⟨keys_publish _ ts fid kall, fun _ => ?_, fun hc => by cases hc⟩
    show (publish { d.1 with doHello := false, payload := .topics ts } ts).1.minSendId = p.minSendId + 1
    unfold publish; simp only; rw [kmsg']
  | false =>
    rw [he] at kcase
    simp only [Bool.false_eq_true, ↓reduceIte] at kcase
    rcases kcase with ⟨kcl, kdo, khello⟩
    have kdo' : d.1.doSend = false := kdo
    rw [Pair.sendMaybe_nosend d.1 kdo' k1.push]
    simp only [Bool.false_eq_true, ↓reduceIte]
    refine ⟨(by rw [kcl]; exact hcl), (fun hc => hc.elim), (fun _ hq => ?_)⟩
    have hh : d.1.doHello = true := by
      rw [khello]
      cases q with
      | nil => exact absurd rfl hq
      | cons _ _ => simp
    rw [List.mem_filterMap]
    refine ⟨.hello 0, ?_, rfl⟩
    rw [List.mem_append, List.mem_append]
    left; right
    simp [helloOuts, hh, Pair.allOuts_single _ [] k1.queues]

/-! ### the consumer -/

open OF.Recv in
/-- **`recv` with nothing but ignored messages queued, with the `new` flag of the request it pushes**: the request says `new`
exactly if nothing was queued and nothing had been heard before -/
theorem call0_live_none (c : Recv.St) (s : Recv.Src) (state : Option Int) (old : List Recv.Wire) (h : CRest c s)
    (hbeg : beginId c state = c.prevId + 1) (hq : s.queue = old) (hold : ∀ w ∈ old, OldW c.prevId w) :
    ∃ s', CRest (call0 c state [0]).1 s' ∧ s'.queue = [] ∧ (call0 c state [0]).1.prevId = c.prevId ∧
      (call0 c state [0]).2 = [.req 0 c.prevId 0 (!s'.conn), .retNone] ∧ s'.conn = (if old = [] then s.conn else true) := by
  have hq' : s.queue = old ++ [] := by rw [hq, List.append_nil]
  have hb0 := beginSt_busy c s state h.idle
  have hm0 : (beginSt c state).minRecvId = c.prevId + 1 := hbeg
  have hold1 : ∀ w ∈ old, w.bal = 0 ∧ (w.mid = OF.Facts.MSG_ID_HELLO ∨ (0 ≤ w.mid ∧ w.mid < (beginSt c state).minRecvId)) := by
    intro w hw
    rcases hold w hw with ⟨h1, h2 | ⟨h2, h3⟩⟩
    · exact ⟨h1, Or.inl h2⟩
    · exact ⟨h1, Or.inr ⟨h2, by rw [hm0]; omega⟩⟩
  have hlen : s.queue.length + 1 = old.length + (([] : List Recv.Wire).length + 1) := by rw [hq]; simp
  have holds := recvOnce0_olds old (([] : List Recv.Wire).length + 1) (beginSt c state) s [] hb0 hq' hold1
  have ⟨hb1, hq1, hr1, hm1, _, _⟩ := heardN_busy (beginSt c state) s old [] hb0 hq'
  rw [h.empty] at hr1
  rw [call0_unfold_state c s state h.idle, hlen, holds]
  have hn := Pair.recvOnce0_nil 0 _ _ hb1 hq1
  simp only [List.length_nil]
  rw [hn]
  simp only [Bool.false_eq_true, ↓reduceIte, List.nil_append]
  rw [Pair.requests_single _ _ hb1.srcs hb1.shape.eph]
  have hprev : (heardN (beginSt c state) s old []).minRecvId - 1 = c.prevId := by rw [hm1, hm0]; omega
  refine ⟨heardSrc s old [], crest_of _ _ hb1.srcs hb1.shape ⟨hb1.static.dead, hb1.static.balance, hb1.static.lowLat⟩
    hb1.reg hr1 rfl ?_, hq1, hprev, by rw [hprev]; rfl, ?_⟩
  · show -1 ≤ (heardN (beginSt c state) s old []).minRecvId - 1
    rw [hprev]; exact h.idle.prev
  · unfold heardSrc
    by_cases ho : old = []
    · rw [if_pos ho, if_pos ho]
    · rw [if_neg ho, if_neg ho]
