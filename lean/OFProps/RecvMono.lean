import OFProps.RecvLemmas
/-! Monotonicity of the receiver's ids (C02, C07): `prev_id` never decreases, returned ids strictly increase. -/
namespace OF.Recv

/-- inside a call the id being assembled is above everything returned so far -/
def MonoInv (st : St) : Prop := st.inCall = true → st.prevId + 1 ≤ st.minRecvId

def retIds (os : List Out) : List Int :=
  os.filterMap fun o => match o with | .ret id _ _ => some id | _ => none

theorem retIds_append (a b : List Out) : retIds (a ++ b) = retIds a ++ retIds b := by
  unfold retIds; rw [List.filterMap_append]

theorem retIds_requests (st : St) (k : Int) : retIds (requests st k) = [] := by
  unfold retIds requests
  rw [List.filterMap_eq_nil_iff]
  intro o ho
  rw [List.mem_filterMap] at ho
  rcases ho with ⟨⟨j, s⟩, _, hv⟩
  simp only at hv
  split at hv
  · cases hv; rfl
  · cases hv

theorem processMsg_not_older (s : Src) (m : Msg) (topics : List Topic) (k : Int)
    (h : (processMsg s m topics k).1 ≠ .older) : k ≤ m.mid := by
  unfold processMsg at h
  split at h
  · exact absurd rfl h
  · omega

theorem balUpd_fields (st : St) (c : Prop) [Decidable c] (b : Nat) :
    (if c then { st with balanced := b } else st).prevId = st.prevId ∧
    (if c then { st with balanced := b } else st).inCall = st.inCall ∧
    (if c then { st with balanced := b } else st).dead = st.dead ∧
    (if c then { st with balanced := b } else st).minRecvId = st.minRecvId := by
  by_cases h : c <;> simp [h]

/-- a take leaves `prev_id`, `inCall`, `dead` alone and never lowers `min_recv_id` -/
theorem onTake_mono (st : St) (i : Nat) :
    (onTake st i).1.prevId = st.prevId ∧ (onTake st i).1.inCall = st.inCall ∧
    (onTake st i).1.dead = st.dead ∧ st.minRecvId ≤ (onTake st i).1.minRecvId ∧ retIds (onTake st i).2.1 = [] := by
  unfold onTake
  cases hs : st.srcs[i]? with
  | none => exact ⟨rfl, rfl, rfl, Int.le_refl _, rfl⟩
  | some s0 =>
    simp only
    cases hq : s0.queue with
    | nil => exact ⟨rfl, rfl, rfl, Int.le_refl _, rfl⟩
    | cons w q =>
      simp only
      generalize hst1 : (if (if s0.eph = 0 then w.bal else 0) ≠ 0 then
          { st with balanced := if s0.eph = 0 then w.bal else 0 } else st) = st1
      have ⟨e1, e2, e3, e4⟩ : st1.prevId = st.prevId ∧ st1.inCall = st.inCall ∧ st1.dead = st.dead ∧
          st1.minRecvId = st.minRecvId := by
        subst hst1; exact balUpd_fields st _ _
      split
      · unfold takeSpecial
        split
        · exact ⟨e1, e2, e3, by simp only; omega, rfl⟩
        · split <;> exact ⟨e1, e2, e3, by simp only; omega, rfl⟩
      · split
        · unfold takeEph
          split <;> exact ⟨e1, e2, e3, by simp only; omega, rfl⟩
        · unfold takeSync
          split
          · exact ⟨e1, e2, e3, by simp only; omega, rfl⟩
          · rename_i x res r hno heq
            have : st1.minRecvId ≤ w.mid :=
              processMsg_not_older _ _ _ _ (by rw [heq]; exact fun h => hno h)
            unfold syncApply
            exact ⟨e1, e2, e3, by simp only; omega, rfl⟩

theorem noRet (o : List Out) (P : Int → Prop) (h : retIds o = []) :
    (∀ id ∈ retIds o, P id) ∧ (retIds o).length ≤ 1 := by
  rw [h]
  constructor
  · intro id hid; cases hid
  · simp

/-- one event: `MonoInv` is kept, `prev_id` does not decrease, and an id returned by this event is above the
old `prev_id` and not above the new one -/
theorem step_mono (st : St) (e : Ev) (h : MonoInv st) :
    MonoInv (step st e).1 ∧ st.prevId ≤ (step st e).1.prevId ∧
    (∀ id ∈ retIds (step st e).2, st.prevId < id ∧ id ≤ (step st e).1.prevId) ∧
    (retIds (step st e).2).length ≤ 1 := by
  cases e with
  | deliver i w =>
    unfold step stepDeliver; simp only
    split
    · exact ⟨h, Int.le_refl _, noRet _ _ rfl⟩
    · exact ⟨h, Int.le_refl _, noRet _ _ rfl⟩
  | «begin» state =>
    unfold step stepBegin; simp only
    split
    · exact ⟨h, Int.le_refl _, noRet _ _ rfl⟩
    · refine ⟨?_, Int.le_refl _, noRet _ _ rfl⟩
      intro _
      simp only
      cases state with
      | none => simp only [beginId]; omega
      | some k => simp only [beginId]; omega
  | take i =>
    unfold step stepTake; simp only
    split
    · exact ⟨h, Int.le_refl _, noRet _ _ rfl⟩
    · split
      · exact ⟨h, Int.le_refl _, noRet _ _ rfl⟩
      · split
        · have ⟨a, b, _, d, f⟩ := onTake_mono st i
          refine ⟨?_, (by simp only; omega), noRet _ _ f⟩
          intro hc
          simp only at hc ⊢
          rw [b] at hc
          have := h hc
          omega
        · exact ⟨h, Int.le_refl _, noRet _ _ rfl⟩
  | check =>
    unfold step stepCheck; simp only
    split
    · exact ⟨h, Int.le_refl _, noRet _ _ rfl⟩
    · rename_i hg
      have hin : st.inCall = true := by
        cases hc : st.inCall with
        | true => rfl
        | false => exact absurd (Or.inr (by simp [hc])) hg
      have hm := h hin
      split
      · unfold finish
        simp only
        split
        · refine ⟨(by intro hc; simp at hc), (by simp only; omega), noRet _ _ ?_⟩
          rw [retIds_append]
          have : retIds (if (!st.lowLat && decide (st.balanced ≠ 1)) = true then requests st st.minRecvId else []) = [] := by
            split
            · exact retIds_requests _ _
            · rfl
          rw [this]; rfl
        · refine ⟨(by intro hc; simp at hc), (by simp only; omega), ?_, ?_⟩
          · intro id hid
            rw [retIds_append] at hid
            have : retIds (if (!st.lowLat && decide (st.balanced ≠ 1)) = true then requests st st.minRecvId else []) = [] := by
              split
              · exact retIds_requests _ _
              · rfl
            rw [this] at hid
            simp only [retIds, List.filterMap_cons, List.filterMap_nil, List.nil_append, List.mem_singleton] at hid
            subst hid
            simp only; omega
          · rw [retIds_append]
            have : retIds (if (!st.lowLat && decide (st.balanced ≠ 1)) = true then requests st st.minRecvId else []) = [] := by
              split
              · exact retIds_requests _ _
              · rfl
            rw [this]; simp [retIds]
      · exact ⟨h, Int.le_refl _, noRet _ _ rfl⟩
  | request =>
    unfold step stepRequest; simp only
    split
    · exact ⟨h, Int.le_refl _, noRet _ _ rfl⟩
    · exact ⟨h, Int.le_refl _, noRet _ _ (retIds_requests _ _)⟩
  | timeout =>
    unfold step stepTimeout; simp only
    split
    · exact ⟨h, Int.le_refl _, noRet _ _ rfl⟩
    · rename_i hg
      have hin : st.inCall = true := by
        cases hc : st.inCall with
        | true => rfl
        | false => exact absurd (Or.inr (by simp [hc])) hg
      have hm := h hin
      exact ⟨(by intro hc; simp at hc), (by simp only; omega), noRet _ _ rfl⟩

end OF.Recv
