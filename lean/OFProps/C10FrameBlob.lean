import OFProps.C10
import OFModel.FrameBlob
/-!
# C10 — `from_blob` / `from_jpg`, lazy frames with WRONG declared dimensions, failing pixel accesses

Quantifier: every pixel algebra, every state reachable from the empty state by ANY sequence of `BOp`s: all the old
operations of `Frame.lean` (`BOp.old`), `fromBlob` with any blob (jpg / not, padded / not, any true shape), with or
without dims, right or wrong, and `touchImage` on any frame, the accesses that raise included (the state after a raised
`AssertionError` is a state of the sequence like any other).
-/
namespace OF.Frame

variable {A : PixAlg}

/-! ## helpers -/

theorem touches_lt {h : Heap A} {op : Op A} {i : Nat} (ht : touches h op = some i) : i < h.nFrm := by
  cases op <;> simp only [touches] at ht
  case view v j =>
    split at ht
    · rename_i hc; cases ht; exact hc.1
    · cases ht
  case image j =>
    split at ht
    · rename_i hc; cases ht; exact hc
    · cases ht
  case fromImage j x =>
    split at ht
    · rename_i hc
      split at ht
      · split at ht
        · cases ht; exact hc
        · cases ht
      · cases ht
    · cases ht
  all_goals cases ht

theorem eagerBlob_ok {s : BState A} (inv : Inv s.heap) (b : Blob A) (fmt : Fmt) (w : Bool)
    (hw : b.isJpg = true → w = false) :
    Inv (eagerBlob s b fmt w).1.heap ∧ Ext s.heap (eagerBlob s b fmt w).1.heap := by
  refine ⟨inv_alloc2 (inv_newData inv) _ _ _ (frameOK_newArr s.heap.newData _ w _ _ _ ?_),
    (ext_newData s.heap).trans ((ext_allocArr _ _ _).trans (ext_allocFrm _ _))⟩
  intro e he
  cases hb : b.isJpg with
  | false => simp [hb] at he
  | true =>
    simp only [hb, if_true] at he
    cases he
    refine ⟨hw hb, Or.inr ?_⟩
    cases fmt <;> rfl

theorem fromBlob_ok {s : BState A} (inv : Inv s.heap) (b : Blob A) (dims : Option (Nat × Nat)) (fmt : Fmt) :
    Inv (fromBlob .fixed s b dims fmt).1.heap ∧ Ext s.heap (fromBlob .fixed s b dims fmt).1.heap := by
  unfold fromBlob
  dsimp only
  split
  · rename_i hb
    split
    · refine ⟨inv_alloc1 (inv_newData inv) _ ⟨?_, ?_, ?_, ?_⟩, (ext_newData s.heap).trans (ext_allocFrm _ _)⟩
      · intro a ha; cases ha
      · intro _; exact ⟨b.e, rfl⟩
      · intro a e' ha; cases ha
      · intro y g hc; cases y <;> simp [Frm.cache] at hc
    · exact eagerBlob_ok inv b fmt _ (fun _ => by decide)
  · rename_i hb
    have hw : b.isJpg = true → true = false := fun h => absurd h hb
    split
    · split
      · exact ⟨inv, Ext.refl _⟩
      · exact eagerBlob_ok inv b fmt true hw
    · exact eagerBlob_ok inv b fmt true hw

theorem normalOld_ok {s : BState A} (inv : Inv s.heap) (op : Op A) :
    Inv (normalOld s op).1.heap ∧ Ext s.heap (normalOld s op).1.heap := step_ok inv op

theorem failTouch_ok {s : BState A} (inv : Inv s.heap) {i : Nat} (hi : i < s.heap.nFrm) :
    Inv (failTouch .fixed s i).heap ∧ Ext s.heap (failTouch .fixed s i).heap :=
  ⟨(loadImage_ok inv i hi).inv, (loadImage_ok inv i hi).ext⟩

/-- **every operation, raising or not, keeps the invariant and only evolves the heap** -/
theorem bstep_ok {s : BState A} (inv : Inv s.heap) (op : BOp A) :
    Inv (bstep .fixed s op).1.heap ∧ Ext s.heap (bstep .fixed s op).1.heap := by
  cases op with
  | old op =>
    simp only [bstep]
    split
    · rename_i i ht
      split
      · exact failTouch_ok inv (touches_lt ht)
      · exact normalOld_ok inv op
    · exact normalOld_ok inv op
  | fromBlob b dims fmt => exact fromBlob_ok inv b dims fmt
  | touchImage i =>
    simp only [bstep]
    split
    · rename_i hi
      split
      · exact failTouch_ok inv hi
      · exact ⟨(loadImage_ok inv i hi).inv, (loadImage_ok inv i hi).ext⟩
    · exact ⟨inv, Ext.refl _⟩

theorem brun_ok {s : BState A} (inv : Inv s.heap) (ops : List (BOp A)) :
    Inv (brun .fixed s ops).heap ∧ Ext s.heap (brun .fixed s ops).heap := by
  induction ops generalizing s with
  | nil => exact ⟨inv, Ext.refl _⟩
  | cons op ops ih =>
    have st := bstep_ok inv op
    have r := ih st.1
    exact ⟨r.1, st.2.trans r.2⟩

/-- a state reachable from nothing by some sequence of old and new operations (raising accesses included) -/
def BReachable (s : BState A) : Prop := ∃ ops, s = brun .fixed BState.empty ops

/-- "a frame with a cached jpg and an image has a read-only image" -/
def JpgFrozen (h : Heap A) : Prop :=
  ∀ i, i < h.nFrm → ∀ a e, (h.frm i).img = .ref a → (h.frm i).jpg = .cached e → h.wr a = false

/-! ## the theorems -/

/-- **C10 (from_blob, invariant)**: the heap invariant of `C10_inv` holds after ANY sequence of old operations, `fromBlob`
calls (jpg or not, padded or not, with right / wrong / no dims) and pixel accesses, the raising ones included. -/
theorem C10_blob_inv (ops : List (BOp A)) : Inv (brun .fixed (BState.empty : BState A) ops).heap :=
  (brun_ok (s := (BState.empty : BState A)) inv_empty ops).1

theorem BReachable.inv {s : BState A} (r : BReachable s) : Inv s.heap := by
  obtain ⟨ops, rfl⟩ := r; exact C10_blob_inv ops

/-- **C10 (from_blob, the failing access)**: in a reachable state, a `touchImage` of a lazy frame whose declared dims are
wrong raises, returns nothing, and leaves a state that satisfies the invariant in which the frame has a decoded image on a
NEW array that is read-only and shows the decoding of the jpg, which is still attached; a second access does not raise
and changes nothing. -/
theorem C10_blob_inv_failed_touch {s : BState A} (r : BReachable s) {i : Nat} (hi : i < s.heap.nFrm)
    (hbad : s.pendingBad i = true) :
    let res := bstep .fixed s (.touchImage i)
    res.2.2 = true ∧ res.2.1 = none ∧ Inv res.1.heap ∧
    (∃ a e, (res.1.heap.frm i).img = .ref a ∧ s.heap.nArr ≤ a ∧ res.1.heap.wr a = false ∧
      (res.1.heap.frm i).jpg = .cached e ∧ (s.heap.frm i).jpg = .cached e ∧
      res.1.heap.pix a = A.dec e (s.heap.frm i).isGray) ∧
    res.1.pendingBad i = false ∧
    bstep .fixed res.1 (.touchImage i) = (res.1, none, false) := by
  have inv := r.inv
  have himg : (s.heap.frm i).img = .jpgOnly := by
    simp only [BState.pendingBad, Bool.and_eq_true, beq_iff_eq] at hbad
    exact hbad.1
  obtain ⟨e, he⟩ := (inv i hi).jpgOnly_jpg himg
  have hload : (loadImage s.heap i).1 =
      (s.heap.allocArr (A.dec e (s.heap.frm i).isGray) false).setFrm i { s.heap.frm i with img := .ref s.heap.nArr } := by
    simp only [loadImage, himg, he]
  have hres : bstep .fixed s (.touchImage i) = (failTouch .fixed s i, none, true) := by
    simp only [bstep, hi, hbad, if_true]
  have hheap : (failTouch .fixed s i).heap = (loadImage s.heap i).1 := rfl
  have himg2 : ((failTouch .fixed s i).heap.frm i).img = .ref s.heap.nArr := by
    rw [hheap, hload]; simp [Heap.setFrm]
  have hpb : (failTouch .fixed s i).pendingBad i = false := by
    simp [BState.pendingBad, himg2]
  have hn : (failTouch .fixed s i).heap.nFrm = s.heap.nFrm := by rw [hheap, hload]; rfl
  dsimp only
  rw [hres]
  refine ⟨rfl, rfl, (failTouch_ok inv hi).1, ⟨s.heap.nArr, e, himg2, Nat.le_refl _, ?_, ?_, he, ?_⟩, hpb, ?_⟩
  · rw [hheap, hload]; simp [Heap.setFrm, Heap.allocArr]
  · rw [hheap, hload]; simp [Heap.setFrm, he]
  · rw [hheap, hload]; simp [Heap.setFrm, Heap.allocArr]
  · have hi2 : i < (failTouch .fixed s i).heap.nFrm := by rw [hn]; exact hi
    simp only [bstep, hi2, hpb, if_true]
    have : (loadImage (failTouch .fixed s i).heap i).1 = (failTouch .fixed s i).heap := by
      simp only [loadImage, himg2]
    simp [this]

/-- **C10 (from_blob, cached jpg)**: in every reachable state (padded / unpadded jpgs, right and wrong dims, after failed
accesses) a frame with a cached jpg and an image has a READ-ONLY image, the jpg is the encoding of its pixels or the pixels
are its decoding; and whatever happens afterwards (any further operations, raising ones included) that array keeps its flag
and its pixels. -/
theorem C10_blob_cached_jpg_frozen {s : BState A} (r : BReachable s) {i : Nat} (hi : i < s.heap.nFrm) {a : Nat} {e : A.E}
    (himg : (s.heap.frm i).img = .ref a) (hj : (s.heap.frm i).jpg = .cached e) (ops : List (BOp A)) :
    s.heap.wr a = false ∧ (e = A.enc (s.heap.pix a) ∨ s.heap.pix a = A.dec e (s.heap.frm i).isGray) ∧
    (brun .fixed s ops).heap.wr a = false ∧ (brun .fixed s ops).heap.pix a = s.heap.pix a := by
  have ok := r.inv i hi
  have j := ok.jpg_ok a e himg hj
  have f := (brun_ok r.inv ops).2.ro_frozen a (ok.ref_lt a himg) j.1
  exact ⟨j.1, j.2, f.1, f.2⟩

/-- the same as a state predicate -/
theorem C10_blob_jpgFrozen {s : BState A} (r : BReachable s) : JpgFrozen s.heap :=
  fun i hi a e himg hj => ((r.inv i hi).jpg_ok a e himg hj).1

/-! ## `.rw` of a frame that came from a jpg -/

theorem loadImage_jpg (h : Heap A) (i : Nat) : ((loadImage h i).1.frm i).jpg = (h.frm i).jpg := by
  unfold loadImage
  dsimp only
  split
  · rfl
  · rfl
  · split
    · simp [Heap.setFrm]
    · rfl

theorem viewRw_jpg {h : Heap A} (inv : Inv h) {i : Nat} (hi : i < h.nFrm) :
    ((viewRw h i).1.frm i).jpg = (h.frm i).jpg := by
  have hj := loadImage_jpg h i
  have hn := (loadImage_ok inv i hi).nFrm
  unfold viewRw
  generalize loadImage h i = l at hj hn
  obtain ⟨h1, o⟩ := l
  cases o with
  | none => exact hj
  | some a =>
    dsimp only at hj hn ⊢
    split
    · exact hj
    · rw [frm_newArrFrame_old _ _ _ _ _ (by omega)]; exact hj

/-- **C10 (from_blob, `.rw` copies)**: in a reachable state take a frame that has an image and a cached jpg (it came from a
jpg, lazily or eagerly, or cached its own encoding).  `.rw` either raises (the frame is lazy with wrong dims; nothing is
returned) or returns a NEW frame (`g` did not exist) on NEW memory (`b` did not exist, different from the source's array `a`)
that is writable and has NO cached jpg, while the source keeps its jpg on its read-only array; and a pixel write through
the new frame changes `b` only: the source's array keeps flag and pixels, so its cached jpg can not become stale. -/
theorem C10_blob_rw_copies {s : BState A} (r : BReachable s) {i : Nat} (hi : i < s.heap.nFrm) {e : A.E}
    (hj : (s.heap.frm i).jpg = .cached e) (himg : (s.heap.frm i).img ≠ .none) :
    let res := bstep .fixed s (.old (.view .rw i))
    (res.2.2 = true ∧ res.2.1 = none ∧ s.pendingBad i = true) ∨
    (res.2.2 = false ∧ ∃ g a b, res.2.1 = some g ∧ s.heap.nFrm ≤ g ∧
      (res.1.heap.frm i).img = .ref a ∧ (res.1.heap.frm i).jpg = .cached e ∧ res.1.heap.wr a = false ∧
      (res.1.heap.frm g).img = .ref b ∧ s.heap.nArr ≤ b ∧ a ≠ b ∧ res.1.heap.wr b = true ∧
      (∀ e2, (res.1.heap.frm g).jpg ≠ .cached e2) ∧
      ∀ p, let s2 := (bstep .fixed res.1 (.old (.write g p))).1
        s2.heap.pix b = p ∧ s2.heap.wr a = false ∧ s2.heap.pix a = res.1.heap.pix a) := by
  have inv := r.inv
  have hro : isRw s.heap (s.heap.frm i) = false := by
    unfold isRw
    split
    · rename_i a ha; exact ((inv i hi).jpg_ok a e ha hj).1
    · rfl
  have hnorm : (normalOld s (.view .rw i)) = (⟨(viewRw s.heap i).1, s.shp⟩, some (viewRw s.heap i).2, false) := by
    simp [normalOld, step, hi, applyView, srcOf]
  have key : (normalOld s (.view .rw i)).2.2 = false ∧ ∃ g a b, (normalOld s (.view .rw i)).2.1 = some g ∧ s.heap.nFrm ≤ g ∧
      ((normalOld s (.view .rw i)).1.heap.frm i).img = .ref a ∧ ((normalOld s (.view .rw i)).1.heap.frm i).jpg = .cached e ∧
      (normalOld s (.view .rw i)).1.heap.wr a = false ∧
      ((normalOld s (.view .rw i)).1.heap.frm g).img = .ref b ∧ s.heap.nArr ≤ b ∧ a ≠ b ∧ (normalOld s (.view .rw i)).1.heap.wr b = true ∧
      (∀ e2, ((normalOld s (.view .rw i)).1.heap.frm g).jpg ≠ .cached e2) ∧
      ∀ p, let s2 := (bstep .fixed (normalOld s (.view .rw i)).1 (.old (.write g p))).1
        s2.heap.pix b = p ∧ s2.heap.wr a = false ∧ s2.heap.pix a = (normalOld s (.view .rw i)).1.heap.pix a := by
    rw [hnorm]
    dsimp only
    have vok := viewRw_ok inv hi
    obtain ⟨a, b, hia, hgb, hab, hb, hwb, hg⟩ := (viewRw_res inv hi himg).2 hro
    have hi1 : i < (viewRw s.heap i).1.nFrm := Nat.lt_of_lt_of_le hi vok.ext.nFrm_le
    have hj1 : ((viewRw s.heap i).1.frm i).jpg = .cached e := (viewRw_jpg inv hi).trans hj
    have hwa := ((vok.inv i hi1).jpg_ok a e hia hj1).1
    refine ⟨rfl, (viewRw s.heap i).2, a, b, rfl, hg, hia, hj1, hwa, hgb, hb, Nat.ne_of_lt hab, hwb, ?_, ?_⟩
    · intro e2 he2
      have := ((vok.inv _ vok.lt).jpg_ok b e2 hgb he2).1
      rw [hwb] at this; cases this
    · intro p
      have hw : (bstep .fixed (⟨(viewRw s.heap i).1, s.shp⟩ : BState A) (.old (.write (viewRw s.heap i).2 p))).1.heap
          = (viewRw s.heap i).1.setPix b p := by
        simp [bstep, touches, normalOld, step, vok.lt, opWrite, hgb, hwb]
      rw [hw]
      have hne : a ≠ b := Nat.ne_of_lt hab
      refine ⟨by simp [Heap.setPix], by simpa [Heap.setPix] using hwa, by simp [Heap.setPix, upd_ne, hne]⟩
  cases ht : touches s.heap (Op.view View.rw i) with
  | none =>
    have hb : bstep .fixed s (.old (.view .rw i)) = normalOld s (.view .rw i) := by simp only [bstep, ht]
    rw [hb]; exact Or.inr key
  | some j =>
    have hji : j = i := by
      simp only [touches] at ht
      split at ht
      · cases ht; rfl
      · cases ht
    subst hji
    cases hb : s.pendingBad j with
    | true =>
      have hs : bstep .fixed s (.old (.view .rw j)) = (failTouch .fixed s j, none, true) := by
        simp only [bstep, ht, hb, if_true]
      rw [hs]; exact Or.inl ⟨rfl, rfl, rfl⟩
    | false =>
      have hs : bstep .fixed s (.old (.view .rw j)) = normalOld s (.view .rw j) := by
        simp [bstep, ht, hb]
      rw [hs]; exact Or.inr key

/-! ## non-vacuity and NEGATIVE witnesses (kernel-evaluated, free term algebra) -/

section Witness
open T

private abbrev jpgBlob (n : Nat) (padded : Bool) (shape : Nat × Nat) : Blob termAlg :=
  { e := .blob n, isJpg := true, padded := padded, shape := shape }

private abbrev pngBlob (n : Nat) (shape : Nat × Nat) : Blob termAlg :=
  { e := .blob n, isJpg := false, padded := false, shape := shape }

/-- a lazy frame for a 2x3 jpg declared as 3x2, first access, second access, `.rw`, a write through the `.rw` frame -/
def badDimsOps : List (BOp termAlg) :=
  [.fromBlob (jpgBlob 0 false (2, 3)) (some (3, 2)) .bgr, .touchImage 0, .touchImage 0, .old (.view .rw 0), .old (.write 1 (.base 1 false))]

/-- TEST (non-vacuity of `C10_blob_inv_failed_touch`): the first access raises, the second does not -/
example :
    let s1 := brun .fixed (BState.empty : BState termAlg) (badDimsOps.take 1)
    s1.pendingBad 0 = true ∧ (bstep .fixed s1 (.touchImage 0)).2.2 = true ∧
    (bstep .fixed (bstep .fixed s1 (.touchImage 0)).1 (.touchImage 0)).2.2 = false := by decide +kernel

/-- TEST (non-vacuity of `C10_blob_cached_jpg_frozen` / `C10_blob_rw_copies`): after the failed access frame 0 sits on the
read-only array 0 with its jpg; `.rw` returns the new frame 1 on the new writable array 1 without jpg; the write goes to array 1 only -/
example :
    let s := brun .fixed (BState.empty : BState termAlg) badDimsOps
    (s.heap.frm 0).img = .ref 0 ∧ (s.heap.frm 0).jpg = .cached (.blob 0) ∧ s.heap.wr 0 = false ∧
    s.heap.pix 0 = .dec 0 false false ∧
    (s.heap.frm 1).img = .ref 1 ∧ (s.heap.frm 1).jpg = .notYet ∧ s.heap.wr 1 = true ∧ s.heap.pix 1 = .base 1 false := by decide +kernel

/-- TEST: a padded jpg without dims is decoded eagerly and frozen; a png is writable and carries no jpg; a png with wrong
dims raises and returns nothing -/
example :
    let r1 := bstep .fixed (BState.empty : BState termAlg) (.fromBlob (jpgBlob 0 true (2, 3)) none .rgb)
    let r2 := bstep .fixed r1.1 (.fromBlob (pngBlob 1 (2, 3)) (some (2, 3)) .gray)
    let r3 := bstep .fixed r2.1 (.fromBlob (pngBlob 2 (2, 3)) (some (3, 2)) .bgr)
    r1.2 = (some 0, false) ∧ (r1.1.heap.frm 0).jpg = .cached (.blob 0) ∧ r1.1.heap.wr 0 = false ∧
    r2.2 = (some 1, false) ∧ (r2.1.heap.frm 1).jpg = .notYet ∧ r2.1.heap.wr 1 = true ∧
    r3.2 = (none, true) ∧ r3.1.heap.nFrm = 2 := by decide +kernel

/-- NEGATIVE (variant "freeze after the assertion"): the failed access of a lazy frame with wrong dims leaves a reachable
state in which the cached jpg is attached to a WRITABLE image -/
theorem C10_blob_neg_freezeAfterAssert :
    ¬ JpgFrozen (brun .freezeAfterAssert (BState.empty : BState termAlg) (badDimsOps.take 2)).heap := by
  intro hf
  have := hf 0 (by decide +kernel) 0 (.blob 0) (by decide +kernel) (by decide +kernel)
  revert this
  decide +kernel

/-- NEGATIVE, continued: a write through that frame then makes the cached jpg STALE (the pixels are neither its decoding
nor is it their encoding), so the invariant is broken -/
theorem C10_blob_neg_freezeAfterAssert_stale :
    let s := brun .freezeAfterAssert (BState.empty : BState termAlg) (badDimsOps.take 2 ++ [.old (.write 0 (.base 1 false))])
    (s.heap.frm 0).img = .ref 0 ∧ (s.heap.frm 0).jpg = .cached (.blob 0) ∧ s.heap.pix 0 = .base 1 false ∧
    TE.blob 0 ≠ termAlg.enc (s.heap.pix 0) ∧ s.heap.pix 0 ≠ termAlg.dec (.blob 0) false := by decide +kernel

/-- with the right dims the variant is harmless (the witness needs the WRONG dims) -/
example :
    JpgFrozen (brun .freezeAfterAssert (BState.empty : BState termAlg)
      [.fromBlob (jpgBlob 0 false (2, 3)) (some (2, 3)) .bgr, .touchImage 0]).heap := by
  intro i hi a e himg hj
  have h1 : i < 1 := hi
  have h0 : i = 0 := by omega
  subst h0
  have ha : a = 0 := by
    have : ((brun .freezeAfterAssert (BState.empty : BState termAlg)
      [.fromBlob (jpgBlob 0 false (2, 3)) (some (2, 3)) .bgr, .touchImage 0]).heap.frm 0).img = .ref 0 := by decide +kernel
    rw [this] at himg; cases himg; rfl
  subst ha
  decide +kernel

/-- NEGATIVE (variant "the eager path does not freeze a jpg"): `from_blob(jpg)` without dims (padded or not) yields a
reachable state in which the cached jpg is attached to a WRITABLE image -/
theorem C10_blob_neg_eagerKeepsWritable :
    ¬ JpgFrozen (brun .eagerKeepsWritable (BState.empty : BState termAlg) [.fromBlob (jpgBlob 0 true (2, 3)) none .bgr]).heap := by
  intro hf
  have := hf 0 (by decide +kernel) 0 (.blob 0) (by decide +kernel) (by decide +kernel)
  revert this
  decide +kernel

/-- the same two sequences under the real step function: frozen -/
example :
    (brun .fixed (BState.empty : BState termAlg) (badDimsOps.take 2)).heap.wr 0 = false ∧
    (brun .fixed (BState.empty : BState termAlg) [.fromBlob (jpgBlob 0 true (2, 3)) none .bgr]).heap.wr 0 = false := by decide +kernel

end Witness

end OF.Frame
