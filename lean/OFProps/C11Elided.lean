import OFProps.C11
/-!
# C11 — the ELIDED spelling of the default topic

`Filter.parse_topics` reads `t.strip() or default` for every `;` piece: an empty (or blank) piece is the default topic.  The
round trip `C11_topics_roundtrip` only covers the renderer's spelling (every topic written out); here the elided spelling:

* `C11_topics_elided_general` — a piece list `raw` that spells a valid plain topic list `l` piecewise, each piece either the
  topic itself or - where the topic IS the default - any blank string, parses to `l` (any position, any number of elisions);
* `C11_topics_elided_default` — the rendering with the last topic (= the default) elided, `"addr;a;"`, also with trailing
  blanks, parses to the same list as the full rendering;
* `C11_topics_elided_first` — the elided spelling in the first position: `"addr;;a"` = `[main, a]`.

Quantifier: every text, `max_topics`, `mapping` mode (False / None), default topic, topic list satisfying `validTopics`.
-/
namespace OF.Config

/-- `r` spells the topic `t`: literally, or - only where `t` is the default - as a blank piece -/
def SpellsTopic (dflt : Str) (r t : Str) : Prop := r = t ∨ (t = dflt ∧ strip r = [] ∧ ';' ∉ r)

/-- `raw` spells the topic list `l` piece by piece -/
inductive SpellsTopics (dflt : Str) : List Str → List Str → Prop where
  | nil : SpellsTopics dflt [] []
  | cons {r t : Str} {raw l : List Str} : SpellsTopic dflt r t → SpellsTopics dflt raw l → SpellsTopics dflt (r :: raw) (t :: l)

theorem lstrip_blank : ∀ (b : Str), (∀ c ∈ b, isSpace c = true) → lstrip b = []
  | [], _ => rfl
  | c :: r, h => by
    have hc := h c (List.mem_cons_self ..)
    have := lstrip_blank r (fun x hx => h x (List.mem_cons_of_mem _ hx))
    unfold lstrip at this ⊢
    rw [List.dropWhile_cons, hc]; exact this

theorem strip_blank (b : Str) (hb : ∀ c ∈ b, isSpace c = true) : strip b = [] := by
  unfold strip; rw [lstrip_blank b hb]; rfl

theorem noSemi_blank (b : Str) (hb : ∀ c ∈ b, isSpace c = true) : ';' ∉ b := by
  intro h; have := hb _ h; revert this; decide

/-- **C11** (elided default topic, general form): every piece either the valid topic itself or, where the topic is the
default, a blank piece - the text parses to exactly the topic list. -/
theorem C11_topics_elided_general (text : Str) (mx : Option Nat) (mode : MapMode) (dflt : Str) (l raw : List Str)
    (hv : validTopics text mx mode (.names l) = true) (hraw : SpellsTopics dflt raw l) :
    parseTopics (joinHT ';' text raw) mx mode dflt = .ok (text, .names l) := by
  simp only [validTopics, validTopicText, Bool.and_eq_true, decide_eq_true_eq, Bool.not_eq_true',
    List.all_eq_true, ne_eq, decide_not] at hv
  obtain ⟨⟨⟨⟨⟨⟨hst, hsemi⟩, hmode⟩, hne⟩, hall⟩, hd⟩, hmax⟩ := hv
  have hsemi := mem_of_contains_false hsemi
  have hname : ∀ x ∈ l, x ≠ [] ∧ strip x = x ∧ ';' ∉ x ∧ (mode = .no → '>' ∉ x) := by
    intro x hx
    have := hall x hx
    simp only [validPlainTopic, Bool.and_eq_true, decide_eq_true_eq, Bool.not_eq_true', Bool.or_eq_true,
      bne_iff_ne, ne_eq] at this
    refine ⟨this.1.1.1, this.1.1.2, mem_of_contains_false this.1.2, ?_⟩
    intro hm
    rcases this.2 with h | h
    · exact absurd hm h
    · exact mem_of_contains_false h
  have hgt : mode = .no → l.any (fun t => t.contains '>') = false := by
    intro hm
    rw [List.any_eq_false]
    intro x hx
    simpa using (hname x hx).2.2.2 hm
  have hboth : (∀ x ∈ raw, ';' ∉ x) ∧ (raw.map strip).map (fun s => orDefault dflt (strip s)) = l := by
    clear hgt hd hmax hne hall
    induction hraw with
    | nil => exact ⟨(by intro x hx; cases hx), rfl⟩
    | @cons r t raw' l' hrt _ ih =>
      have ih' := ih (fun x hx => hname x (List.mem_cons_of_mem _ hx))
      have ht := hname t (List.mem_cons_self ..)
      rcases hrt with rfl | ⟨rfl, hblank, hns⟩
      · refine ⟨?_, ?_⟩
        · intro x hx
          rcases List.mem_cons.1 hx with rfl | hx
          · exact ht.2.2.1
          · exact ih'.1 x hx
        · have ho : orDefault dflt r = r := by simp [orDefault, ht.1]
          simp only [List.map_cons, ih'.2, ht.2.1, ho]
      · refine ⟨?_, ?_⟩
        · intro x hx
          rcases List.mem_cons.1 hx with rfl | hx
          · exact hns
          · exact ih'.1 x hx
        · have ho : orDefault t [] = t := by simp [orDefault]
          simp only [List.map_cons, ih'.2, hblank, strip_nil, ho]
  obtain ⟨hparts, hmap⟩ := hboth
  cases raw with
  | nil => cases hraw; simp at hne
  | cons a raw' =>
    simp only [parseTopics, splitHT_joinHT ';' _ text hsemi hparts, hst]
    simp only [List.map_cons] at hmap ⊢
    cases mode with
    | yes => simp at hmode
    | no => simp only [hmap, hgt rfl, hd, hmax]; simp
    | none => simp only [hmap, hd, hmax]; simp

theorem spells_refl (dflt : Str) : ∀ (l : List Str), SpellsTopics dflt l l
  | [] => .nil
  | _ :: r => .cons (Or.inl rfl) (spells_refl dflt r)

theorem spells_append_singleton {dflt : Str} {l₁ l₂ : List Str} {a b : Str}
    (h : SpellsTopics dflt l₁ l₂) (hab : SpellsTopic dflt a b) : SpellsTopics dflt (l₁ ++ [a]) (l₂ ++ [b]) := by
  induction h with
  | nil => exact .cons hab .nil
  | cons h _ ih => exact .cons h ih

/-- **C11** (elided default topic, last position): for a valid plain (non-mapping) topic list `init ++ [dflt]` whose last
topic is the default topic, the rendering of `init` followed by `;` and any blanks - i.e. the rendering of the whole list
with the last topic ELIDED (`"addr;a;"`, `"addr;a; "`) - parses to the whole list, exactly as the full rendering
`"addr;a;main"` does (`C11_topics_roundtrip`).  (`init` may even be empty: `"addr;"` = `[main]`.) -/
theorem C11_topics_elided_default (text : Str) (mx : Option Nat) (mode : MapMode) (dflt : Str) (init : List Str)
    (blanks : Str) (hb : ∀ c ∈ blanks, isSpace c = true)
    (hv : validTopics text mx mode (.names (init ++ [dflt])) = true) :
    parseTopics (renderTopics text (if init = [] then .absent else .names init) ++ ';' :: blanks) mx mode dflt
      = .ok (text, .names (init ++ [dflt])) ∧
    parseTopics (renderTopics text (.names (init ++ [dflt]))) mx mode dflt = .ok (text, .names (init ++ [dflt])) := by
  refine ⟨?_, C11_topics_roundtrip text mx mode dflt _ hv⟩
  have hj : renderTopics text (if init = [] then .absent else .names init) ++ ';' :: blanks
      = joinHT ';' text (init ++ [blanks]) := by
    by_cases hi : init = []
    · subst hi; simp [renderTopics, joinHT]
    · simp [hi, renderTopics, joinHT]
  rw [hj]
  exact C11_topics_elided_general text mx mode dflt _ _ hv
    (spells_append_singleton (spells_refl dflt init) (Or.inr ⟨rfl, strip_blank blanks hb, noSemi_blank blanks hb⟩))

/-- **C11** (elided default topic, first position): `"addr;;a;b"` = `[main, a, b]` -/
theorem C11_topics_elided_first (text : Str) (mx : Option Nat) (mode : MapMode) (dflt : Str) (rest : List Str)
    (blanks : Str) (hb : ∀ c ∈ blanks, isSpace c = true)
    (hv : validTopics text mx mode (.names (dflt :: rest)) = true) :
    parseTopics (joinHT ';' text (blanks :: rest)) mx mode dflt = .ok (text, .names (dflt :: rest)) :=
  C11_topics_elided_general text mx mode dflt _ _ hv
    (.cons (Or.inr ⟨rfl, strip_blank blanks hb, noSemi_blank blanks hb⟩) (spells_refl dflt rest))

/-! ## non-vacuity and boundaries (kernel-evaluated) -/

/-- non-vacuity of `C11_topics_elided_default`: `"tcp://h;a;"`, `"tcp://h;a; \t"` and `"tcp://h;a;main"` all parse to `[a, main]` -/
example : validTopics "tcp://h".toList none .no (.names (["a".toList] ++ [kMain])) = true ∧
    (∀ c ∈ " \t".toList, isSpace c = true) ∧
    parseTopics "tcp://h;a;".toList none .no kMain = .ok ("tcp://h".toList, .names ["a".toList, kMain]) ∧
    parseTopics "tcp://h;a; \t".toList none .no kMain = .ok ("tcp://h".toList, .names ["a".toList, kMain]) ∧
    parseTopics "tcp://h;a;main".toList none .no kMain = .ok ("tcp://h".toList, .names ["a".toList, kMain]) := by
  decide +kernel

/-- non-vacuity of `C11_topics_elided_first` / `_general`: `"tcp://h;;a"` = `[main, a]`, `"tcp://h;a;;b"` = `[a, main, b]` -/
example : validTopics "tcp://h".toList none .none (.names [kMain, "a".toList]) = true ∧
    parseTopics "tcp://h;;a".toList none .none kMain = .ok ("tcp://h".toList, .names [kMain, "a".toList]) ∧
    parseTopics "tcp://h;a;;b".toList none .none kMain = .ok ("tcp://h".toList, .names ["a".toList, kMain, "b".toList]) := by
  decide +kernel

/-- boundary (the validity hypothesis is needed): the elided spelling of a list that ALSO names the default topic is a
duplicate - `"tcp://h;main;"` is rejected (ValueError); and with `max_topics=1` the elided topic counts: `"tcp://h;a;"` is rejected -/
example : parseTopics "tcp://h;main;".toList none .no kMain = .error .valueError ∧
    parseTopics "tcp://h;a;".toList (some 1) .no kMain = .error .valueError ∧
    validTopics "tcp://h".toList none .no (.names [kMain, kMain]) = false := by decide +kernel

/-- NEGATIVE witness of a seeded variant that drops an empty last piece instead of reading it as the default topic: the
result would be `[a]`, not `[a, main]` -/
example : parseTopics "tcp://h;a;".toList none .no kMain ≠ .ok ("tcp://h".toList, .names ["a".toList]) := by decide +kernel

end OF.Config
