import OFModel.Cli
/-!
# C12 — property theorems for the model of `parse_filters` (`OFModel/Cli.lean`)

Quantifier: every token list, every `--ipc` flag, every `json_getval` (`jv`), every class table (`cls`), every
`PARAM_ORDER` (`order`).  `wire` is `parse_filters` up to (excluding) the final key re-ordering, `parseFilters`
the whole function; `pre` is the filter list after scanning, id assignment, duplicate check and auto-chaining.
-/
namespace OF.Cli

/-! ## dict lemmas -/

theorem cget_cset_self (c : Config) (k : Str) (v : Val) : cget (cset c k v) k = some v := by
  induction c with
  | nil => simp [cset, cget]
  | cons p r ih =>
    obtain ⟨k', v'⟩ := p
    unfold cset
    split
    · simp [cget]
    · rename_i h; simp [cget, h, ih]

theorem cget_cset_ne (c : Config) (k k' : Str) (v : Val) (h : k' ≠ k) : cget (cset c k v) k' = cget c k' := by
  induction c with
  | nil => simp [cset, cget, Ne.symm h]
  | cons p r ih =>
    obtain ⟨k'', v''⟩ := p
    unfold cset
    split
    · rename_i h2; subst h2; simp [cget, Ne.symm h]
    · simp only [cget, ih]

theorem cget_cdel_ne (c : Config) (k k' : Str) (h : k' ≠ k) : cget (cdel c k) k' = cget c k' := by
  induction c with
  | nil => simp [cdel]
  | cons p r ih =>
    obtain ⟨k'', v''⟩ := p
    unfold cdel
    split
    · rename_i h2; subst h2; simp [cget, Ne.symm h]
    · simp only [cget, ih]

theorem attr_cset_ne (c : Config) (k k' : Str) (v : Val) (h : k' ≠ k) : attr (cset c k v) k' = attr c k' := by
  simp [attr, cget_cset_ne c k k' v h]

theorem attr_cset_self (c : Config) (k : Str) (v : Val) : attr (cset c k v) k = v := by
  simp [attr, cget_cset_self]

theorem attr_cdel_ne (c : Config) (k k' : Str) (h : k' ≠ k) : attr (cdel c k) k' = attr c k' := by
  simp [attr, cget_cdel_ne c k k' h]

theorem kId_ne_kSources : kId ≠ kSources := by decide
theorem kId_ne_kOutputs : kId ≠ kOutputs := by decide
theorem kSources_ne_kOutputs : kSources ≠ kOutputs := by decide

/-- the ids of a filter list, in order -/
def ids (fs : List Flt) : List Val := fs.map fun f => attr f.cfg kId

/-! ## stage `prep`: ids are present and pairwise distinct, everything else is kept -/

theorem cget_ite_cset (b : Bool) (c : Config) (k k' : Str) (v : Val) (h : k' ≠ k) :
    cget (if b then cset c k v else c) k' = cget c k' := by
  cases b <;> simp [cget_cset_ne _ _ _ _ h]

theorem cget_ite_cdel (b : Bool) (c : Config) (k k' : Str) (h : k' ≠ k) :
    cget (if b then cdel c k else c) k' = cget c k' := by
  cases b <;> simp [cget_cdel_ne _ _ _ h]

theorem chainStep_cget (last : Val) (f : Flt) (k : Str) (h1 : k ≠ kSources) (h2 : k ≠ kOutputs) :
    cget (chainStep last f).1.cfg k = cget f.cfg k := by
  simp only [chainStep]
  rw [cget_ite_cdel _ _ _ _ h2, cget_ite_cdel _ _ _ _ h1, cget_ite_cset _ _ _ _ _ h1]

theorem chainStep_meta (last : Val) (f : Flt) :
    (chainStep last f).1.cls = f.cls ∧ (chainStep last f).1.name = f.name ∧ (chainStep last f).1.canOut = f.canOut := by
  simp [chainStep]

theorem chain_length (fs : List Flt) (last : Val) : (chain fs last).length = fs.length := by
  induction fs generalizing last with
  | nil => rfl
  | cons f r ih => simp [chain, ih]

theorem chain_ids (fs : List Flt) (last : Val) : ids (chain fs last) = ids fs := by
  induction fs generalizing last with
  | nil => rfl
  | cons f r ih =>
    simp only [chain, ids, List.map_cons] at *
    rw [ih]
    simp [attr, chainStep_cget last f kId kId_ne_kSources kId_ne_kOutputs]

/-- `R old new`: the later id is not dict-equal to the earlier one -/
def DistinctId (a b : Val) : Prop := keyEq b a = false

theorem dupCheck_ok (fs : List Flt) (seen : List Val) (h : dupCheck fs seen = .ok ()) :
    (∀ x ∈ ids fs, ∀ s ∈ seen, DistinctId s x) ∧ (ids fs).Pairwise DistinctId := by
  induction fs generalizing seen with
  | nil => simp [ids]
  | cons f r ih =>
    unfold dupCheck at h
    split at h
    · cases h
    · rename_i hany
      have hany' : ∀ s ∈ seen, keyEq (attr f.cfg kId) s = false := by
        intro s hs
        cases hk : keyEq (attr f.cfg kId) s with
        | false => rfl
        | true => exact absurd (List.any_eq_true.mpr ⟨s, hs, hk⟩) hany
      obtain ⟨h1, h2⟩ := ih _ h
      constructor
      · intro x hx s hs
        simp only [ids, List.map_cons, List.mem_cons] at hx
        rcases hx with rfl | hx
        · exact hany' s hs
        · exact h1 x hx s (List.mem_append_left _ hs)
      · simp only [ids, List.map_cons, List.pairwise_cons]
        refine ⟨?_, h2⟩
        intro x hx
        exact h1 x hx _ (List.mem_append_right _ (List.mem_singleton.mpr rfl))

theorem assignIds_nonnull (all fs before : List Flt) : ∀ x ∈ ids (assignIds all fs before), x ≠ .null := by
  induction fs generalizing before with
  | nil => simp [assignIds, ids]
  | cons f r ih =>
    intro x hx
    simp only [assignIds, ids, List.map_cons, List.mem_cons] at hx
    rcases hx with rfl | hx
    · split
      · simp [attr_cset_self]
      · rename_i h; simpa [noId] using h
    · exact ih _ x hx

/-- what `prep` guarantees about ids -/
theorem prep_ids (fs0 pre : List Flt) (h : prep fs0 = .ok pre) :
    (ids pre).Pairwise DistinctId ∧ ∀ x ∈ ids pre, x ≠ .null := by
  unfold prep at h
  simp only at h
  split at h
  · cases h
  · cases hd : dupCheck (assignIds _ _ []) [] with
    | error e => rw [hd] at h; cases h
    | ok u =>
      rw [hd] at h
      simp only [Except.bind, pure, Except.pure] at h
      cases h
      rw [chain_ids]
      exact ⟨(dupCheck_ok _ _ hd).2, assignIds_nonnull _ _ _⟩

/-! ## lookups -/

theorem lookupSrc_mem (l : List (Val × Str)) (id a : Str) (h : lookupSrc l id = some a) : (Val.str id, a) ∈ l := by
  induction l with
  | nil => simp [lookupSrc] at h
  | cons p r ih =>
    obtain ⟨k, b⟩ := p
    unfold lookupSrc at h
    split at h
    · rename_i hk; cases h; subst hk; exact List.mem_cons_self ..
    · exact List.mem_cons_of_mem _ (ih h)

theorem lookupSrc_append_of_some (l x : List (Val × Str)) (id a : Str) (h : lookupSrc l id = some a) :
    lookupSrc (l ++ x) id = some a := by
  induction l with
  | nil => simp [lookupSrc] at h
  | cons p r ih =>
    obtain ⟨k, b⟩ := p
    simp only [List.cons_append, lookupSrc] at *
    split
    · rename_i hk; simpa [hk] using h
    · rename_i hk; simp only [hk, ↓reduceIte] at h; exact ih h

theorem lookupSrc_append_new (l : List (Val × Str)) (id a : Str) (h : lookupSrc l id = none) :
    lookupSrc (l ++ [(Val.str id, a)]) id = some a := by
  induction l with
  | nil => simp [lookupSrc]
  | cons p r ih =>
    obtain ⟨k, b⟩ := p
    simp only [List.cons_append, lookupSrc] at *
    split
    · rename_i hk; simp [hk] at h
    · rename_i hk; simp only [hk, ↓reduceIte] at h; exact ih h

theorem lookupSrc_append_other (l : List (Val × Str)) (id id' a : Str) (hne : id' ≠ id) :
    lookupSrc (l ++ [(Val.str id, a)]) id' = lookupSrc l id' := by
  induction l with
  | nil => simp [lookupSrc]; intro h; exact absurd h.symm hne
  | cons p r ih =>
    obtain ⟨k, b⟩ := p
    simp only [List.cons_append, lookupSrc]
    split
    · rfl
    · exact ih

theorem findById_some (fs : List Flt) (id : Str) (g : Flt) (h : findById fs id = some g) :
    g ∈ fs ∧ attr g.cfg kId = .str id := by
  induction fs with
  | nil => simp [findById] at h
  | cons f r ih =>
    unfold findById at h
    split at h
    · rename_i hf; cases h; exact ⟨List.mem_cons_self .., hf⟩
    · exact ⟨List.mem_cons_of_mem _ (ih h).1, (ih h).2⟩

theorem findById_none_iff (fs : List Flt) (id : Str) : findById fs id = none ↔ Val.str id ∉ ids fs := by
  induction fs with
  | nil => simp [findById, ids]
  | cons f r ih =>
    unfold findById
    split
    · rename_i hf; simp [ids, hf]
    · rename_i hf
      rw [ih]
      simp only [ids, List.map_cons, List.mem_cons, not_or]
      constructor
      · intro h; exact ⟨fun e => hf e.symm, h⟩
      · intro h; exact h.2

theorem keyEq_str_self (a : Str) : keyEq (.str a) (.str a) = true := by simp [keyEq]

/-- with pairwise distinct ids the filter carrying a string id is unique -/
theorem findById_unique (fs : List Flt) (id : Str) (g : Flt) (hp : (ids fs).Pairwise DistinctId)
    (h : findById fs id = some g) : ∀ f ∈ fs, attr f.cfg kId = .str id → f = g := by
  induction fs with
  | nil => simp [findById] at h
  | cons f0 r ih =>
    simp only [ids, List.map_cons, List.pairwise_cons] at hp
    intro f hf hid
    unfold findById at h
    split at h
    · rename_i h0
      cases h
      rcases List.mem_cons.mp hf with rfl | hf
      · rfl
      · exfalso
        have := hp.1 (attr f.cfg kId) (List.mem_map.mpr ⟨f, hf, rfl⟩)
        rw [h0, hid] at this
        simp [DistinctId, keyEq] at this
    · rename_i h0
      rcases List.mem_cons.mp hf with rfl | hf
      · exact absurd hid h0
      · exact ih hp.2 h f hf hid

/-! ## the two updates -/

theorem setOutputs_ids (fs : List Flt) (id o : Str) : ids (setOutputs fs id o) = ids fs := by
  simp only [ids, setOutputs, List.map_map]
  apply List.map_congr_left
  intro f _
  simp only [Function.comp]
  split
  · simp [attr_cset_ne _ _ _ _ kId_ne_kOutputs]
  · rfl

theorem setOutputs_get (fs : List Flt) (id o : Str) (i : Nat) :
    (setOutputs fs id o)[i]? = (fs[i]?).map fun f =>
      if attr f.cfg kId = .str id then { f with cfg := cset f.cfg kOutputs (.str o) } else f := by
  simp [setOutputs]

theorem setSources_ids (fs : List Flt) (i : Nat) (es : List Str) : ids (setSources fs i es) = ids fs := by
  induction fs generalizing i with
  | nil => simp [setSources]
  | cons f r ih =>
    cases i with
    | zero => simp [setSources, ids, attr_cset_ne _ _ _ _ kId_ne_kSources]
    | succ i => simp only [setSources, ids, List.map_cons] at *; rw [ih]

theorem setSources_get_ne (fs : List Flt) (i j : Nat) (es : List Str) (h : j ≠ i) :
    (setSources fs i es)[j]? = fs[j]? := by
  induction fs generalizing i j with
  | nil => simp [setSources]
  | cons f r ih =>
    cases i with
    | zero =>
      cases j with
      | zero => exact absurd rfl h
      | succ j => simp [setSources]
    | succ i =>
      cases j with
      | zero => simp [setSources]
      | succ j => simp only [setSources, List.getElem?_cons_succ]; exact ih i j (by omega)

theorem setSources_get_self (fs : List Flt) (i : Nat) (es : List Str) :
    (setSources fs i es)[i]? = (fs[i]?).map fun f =>
      { f with cfg := cset f.cfg kSources (.str (joinWith sepCommaSpace es)) } := by
  induction fs generalizing i with
  | nil => simp [setSources]
  | cons f r ih =>
    cases i with
    | zero => simp [setSources]
    | succ i => simp only [setSources, List.getElem?_cons_succ]; exact ih i

/-- every old member survives `setSources`, possibly with new `sources` -/
theorem setSources_mem (fs : List Flt) (i : Nat) (es : List Str) (f : Flt) (h : f ∈ fs) :
    ∃ f' ∈ setSources fs i es, attr f'.cfg kId = attr f.cfg kId ∧ attr f'.cfg kOutputs = attr f.cfg kOutputs := by
  induction fs generalizing i with
  | nil => cases h
  | cons f0 r ih =>
    cases i with
    | zero =>
      rcases List.mem_cons.mp h with rfl | h
      · exact ⟨_, List.mem_cons_self .., by simp [attr_cset_ne _ _ _ _ kId_ne_kSources],
          by simp [attr_cset_ne _ _ _ _ (Ne.symm kSources_ne_kOutputs)]⟩
      · exact ⟨f, List.mem_cons_of_mem _ h, rfl, rfl⟩
    | succ i =>
      rcases List.mem_cons.mp h with rfl | h
      · exact ⟨f, List.mem_cons_self .., rfl, rfl⟩
      · obtain ⟨f', hf', h1, h2⟩ := ih i h
        exact ⟨f', List.mem_cons_of_mem _ hf', h1, h2⟩

/-! ## one source entry -/

/-- the suffix Python keeps: `source[len(id):]` -/
def suffixOf (src : Str) : Str := src.drop (onlyMq src).length

/-- the four ways `resolveEntry` can succeed -/
inductive EntryCase (ipc : Bool) (nonMq : List Val) (self : Val) (st : RS) (src : Str) (st' : RS) (e : Str) : Prop where
  | keep (h : isMq src = true ∨ findById st.fs (onlyMq src) = none) (hst : st' = st) (he : e = src)
  | known (g : Flt) (a : Str) (hmq : isMq src = false) (hf : findById st.fs (onlyMq src) = some g)
      (hself : self ≠ .str (onlyMq src)) (hnm : nonMq.contains (.str (onlyMq src)) = false)
      (hl : lookupSrc st.srcById (onlyMq src) = some a) (hst : st' = st) (he : e = a ++ suffixOf src)
  | allocIpc (g : Flt) (hmq : isMq src = false) (hf : findById st.fs (onlyMq src) = some g)
      (hself : self ≠ .str (onlyMq src)) (hnm : nonMq.contains (.str (onlyMq src)) = false)
      (hl : lookupSrc st.srcById (onlyMq src) = none) (hout : truthy (attr g.cfg kOutputs) = false) (hipc : ipc = true)
      (hst : st' = { st with fs := setOutputs st.fs (onlyMq src) (ipcName st.ipcUsed (onlyMq src)),
                             srcById := st.srcById ++ [(.str (onlyMq src), ipcName st.ipcUsed (onlyMq src))],
                             ipcUsed := st.ipcUsed.map (ipcName st.ipcUsed (onlyMq src) :: ·),
                             ipcAllocs := (onlyMq src, ipcName st.ipcUsed (onlyMq src)) :: st.ipcAllocs })
      (he : e = ipcName st.ipcUsed (onlyMq src) ++ suffixOf src)
  | allocTcp (g : Flt) (hmq : isMq src = false) (hf : findById st.fs (onlyMq src) = some g)
      (hself : self ≠ .str (onlyMq src)) (hnm : nonMq.contains (.str (onlyMq src)) = false)
      (hl : lookupSrc st.srcById (onlyMq src) = none) (hout : truthy (attr g.cfg kOutputs) = false) (hipc : ipc = false)
      (hst : st' = { st with fs := setOutputs st.fs (onlyMq src) (tcpOut (st.maxPort + OF.Facts.CLI_PORT_STRIDE)),
                             maxPort := st.maxPort + OF.Facts.CLI_PORT_STRIDE,
                             srcById := st.srcById ++ [(.str (onlyMq src), tcpConn (st.maxPort + OF.Facts.CLI_PORT_STRIDE))],
                             allocs := (onlyMq src, st.maxPort + OF.Facts.CLI_PORT_STRIDE) :: st.allocs })
      (he : e = tcpConn (st.maxPort + OF.Facts.CLI_PORT_STRIDE) ++ suffixOf src)

theorem resolveEntry_cases (ipc : Bool) (nonMq : List Val) (self : Val) (st : RS) (src : Str) (st' : RS) (e : Str)
    (h : resolveEntry ipc nonMq self st src = .ok (st', e)) : EntryCase ipc nonMq self st src st' e := by
  unfold resolveEntry at h
  split at h
  · rename_i hmq
    simp only [pure, Except.pure, Except.ok.injEq, Prod.mk.injEq] at h
    exact .keep (Or.inl hmq) h.1.symm h.2.symm
  · rename_i hmq
    have hmq' : isMq src = false := by simpa using hmq
    simp only at h
    split at h
    · rename_i hf
      simp only [pure, Except.pure, Except.ok.injEq, Prod.mk.injEq] at h
      exact .keep (Or.inr hf) h.1.symm h.2.symm
    · rename_i g hf
      split at h
      · cases h
      · rename_i hnm
        have hnm' : nonMq.contains (.str (onlyMq src)) = false := by simpa using hnm
        split at h
        · cases h
        · rename_i hself
          split at h
          · rename_i a hl
            simp only [pure, Except.pure, Except.ok.injEq, Prod.mk.injEq] at h
            exact .known g a hmq' hf hself hnm' hl h.1.symm h.2.symm
          · rename_i hl
            split at h
            · cases h
            · rename_i hout
              have hout' : truthy (attr g.cfg kOutputs) = false := by simpa using hout
              split at h
              · rename_i hipc
                simp only [pure, Except.pure, Except.ok.injEq, Prod.mk.injEq] at h
                exact .allocIpc g hmq' hf hself hnm' hl hout' hipc h.1.symm h.2.symm
              · rename_i hipc
                have hipc' : ipc = false := by simpa using hipc
                simp only [pure, Except.pure, Except.ok.injEq, Prod.mk.injEq] at h
                exact .allocTcp g hmq' hf hself hnm' hl hout' hipc' h.1.symm h.2.symm

/-- **C12_suffix (shape)**: an entry is its id part followed by the suffix that is carried over -/
theorem onlyMq_append_suffix (src : Str) : onlyMq src ++ suffixOf src = src := by
  have : ∀ (p : Char → Bool) (l : Str), l.takeWhile p ++ l.drop (l.takeWhile p).length = l := by
    intro p l
    induction l with
    | nil => rfl
    | cons c r ih =>
      simp only [List.takeWhile]
      split
      · simp only [List.cons_append, List.length_cons, List.drop_succ_cons, ih]
      · simp
  exact this _ src

/-! ## the `--ipc` name search (`pending_fixes/C12-ipc-name-clash.diff`) -/

/-- the candidate names `ipc://id`, `ipc://id-2`, `ipc://id-3`, … are pairwise different -/
theorem ipcCand_inj (id : Str) (a b : Nat) (h : ipcCand id a = ipcCand id b) : a = b := by
  have hlen : ∀ k, (ipcCand id (k + 1)).length ≠ (ipcCand id 0).length := by
    intro k; simp only [ipcCand, List.length_append, List.length_cons]; omega
  cases a with
  | zero =>
    cases b with
    | zero => rfl
    | succ b => exact absurd (congrArg List.length h).symm (hlen b)
  | succ a =>
    cases b with
    | zero => exact absurd (congrArg List.length h) (hlen a)
    | succ b =>
      simp only [ipcCand] at h
      have h2 : Nat.toDigits 10 (a + 2) = Nat.toDigits 10 (b + 2) := by
        have := List.append_cancel_left h
        simpa using this
      have := congrArg (fun l => Nat.ofDigitChars 10 l 0) h2
      simp only [Nat.ofDigitChars_ten_toDigits] at this
      omega

/-- pigeonhole: among the first `l.length + 1` values of an injective sequence one is not in `l` -/
theorem exists_not_mem_of_inj (l : List Str) :
    ∀ (f : Nat → Str), (∀ a b, f a = f b → a = b) → ∃ k, k ≤ l.length ∧ f k ∉ l := by
  induction l with
  | nil => intro f _; exact ⟨0, Nat.le_refl _, by simp⟩
  | cons x r ih =>
    intro f hf
    by_cases hx : ∃ j, f j = x
    · obtain ⟨j, hj⟩ := hx
      have hg : ∀ a b, (if a < j then f a else f (a + 1)) = (if b < j then f b else f (b + 1)) → a = b := by
        intro a b hab
        split at hab <;> split at hab <;> have := hf _ _ hab <;> omega
      obtain ⟨k, hk, hkr⟩ := ih (fun n => if n < j then f n else f (n + 1)) hg
      by_cases hkj : k < j
      · simp only [hkj, ↓reduceIte] at hkr
        refine ⟨k, by simp only [List.length_cons]; omega, fun hm => ?_⟩
        rcases List.mem_cons.mp hm with h | h
        · have := hf _ _ (h.trans hj.symm); omega
        · exact hkr h
      · simp only [hkj, ↓reduceIte] at hkr
        refine ⟨k + 1, by simp only [List.length_cons]; omega, fun hm => ?_⟩
        rcases List.mem_cons.mp hm with h | h
        · have := hf _ _ (h.trans hj.symm); omega
        · exact hkr h
    · obtain ⟨k, hk, hkr⟩ := ih f hf
      refine ⟨k, by simp only [List.length_cons]; omega, fun hm => ?_⟩
      rcases List.mem_cons.mp hm with h | h
      · exact hx ⟨k, h⟩
      · exact hkr h

/-- the search started at candidate `k0` with enough fuel to reach a free candidate returns the FIRST free one -/
theorem pickIpcFrom_spec (used : List Str) (id : Str) :
    ∀ (fuel k0 : Nat), (∃ k, k0 ≤ k ∧ k < k0 + fuel ∧ ipcCand id k ∉ used) →
      ∃ k, k0 ≤ k ∧ pickIpcFrom used id fuel k0 = ipcCand id k ∧ ipcCand id k ∉ used ∧
        ∀ j, k0 ≤ j → j < k → ipcCand id j ∈ used := by
  intro fuel
  induction fuel with
  | zero => intro k0 ⟨k, h1, h2, _⟩; omega
  | succ n ih =>
    intro k0 ⟨k, h1, h2, h3⟩
    unfold pickIpcFrom
    split
    · rename_i hc
      have hm : ipcCand id k0 ∈ used := List.contains_iff_mem.mp hc
      have hne : k ≠ k0 := by intro e; subst e; exact h3 hm
      obtain ⟨k', a1, a2, a3, a4⟩ := ih (k0 + 1) ⟨k, by omega, by omega, h3⟩
      refine ⟨k', by omega, a2, a3, fun j hj1 hj2 => ?_⟩
      by_cases hj : j = k0
      · subst hj; exact hm
      · exact a4 j (by omega) hj2
    · rename_i hc
      exact ⟨k0, Nat.le_refl _, rfl, fun hm => hc (List.contains_iff_mem.mpr hm), fun j h1 h2 => by omega⟩

/-- **the `while new_source in ipc_addrs` loop**: the fuel `used.length + 1` of the model is never exhausted; the name
chosen is the first of `ipc://id`, `ipc://id-2`, `ipc://id-3`, … that is not in `used` -/
theorem pickIpc_spec (used : List Str) (id : Str) :
    ∃ k, pickIpc used id = ipcCand id k ∧ ipcCand id k ∉ used ∧ ∀ j, j < k → ipcCand id j ∈ used := by
  obtain ⟨k, hk, hfree⟩ := exists_not_mem_of_inj used (ipcCand id) (ipcCand_inj id)
  obtain ⟨k', _, a2, a3, a4⟩ := pickIpcFrom_spec used id (used.length + 1) 0 ⟨k, Nat.zero_le _, by omega, hfree⟩
  exact ⟨k', a2, a3, fun j hj => a4 j (Nat.zero_le _) hj⟩

theorem pickIpc_not_mem (used : List Str) (id : Str) : pickIpc used id ∉ used := by
  obtain ⟨k, h1, h2, _⟩ := pickIpc_spec used id
  rw [h1]; exact h2

/-- no clash, no change: when `ipc://id` is free it is the name chosen -/
theorem pickIpc_free (used : List Str) (id : Str) (h : sIpc ++ id ∉ used) : pickIpc used id = sIpc ++ id := by
  obtain ⟨k, h1, _, h3⟩ := pickIpc_spec used id
  cases k with
  | zero => exact h1
  | succ k => exact absurd (h3 0 (Nat.succ_pos _)) h

/-- pinned and repaired allocator alike hand out one of the candidate names of the id -/
theorem ipcName_cand (u : Option (List Str)) (id : Str) : ∃ k, ipcName u id = ipcCand id k := by
  cases u with
  | none => exact ⟨0, rfl⟩
  | some used =>
    obtain ⟨k, h1, _⟩ := pickIpc_spec used id
    exact ⟨k, h1⟩

/-! ## the invariant of the resolution loop -/

local notation "stride" => OF.Facts.CLI_PORT_STRIDE

/-- how a filter's `outputs` value binds the address `a` handed out for its id -/
def Binds (ipc : Bool) (outs : Val) (id a : Str) : Prop :=
  (∃ s first more, outs = .str s ∧ splitCommas s = first :: more ∧ (first :: more).any (fun o => !isMq o) = false ∧ a = connAddr first)
  ∨ (∃ p, outs = .str (tcpOut p) ∧ a = tcpConn p ∧ ipc = false)
  ∨ (∃ k, outs = .str (ipcCand id k) ∧ a = ipcCand id k ∧ ipc = true)

/-- element-wise relation between two lists of the same length -/
inductive All₂ {α β : Type} (R : α → β → Prop) : List α → List β → Prop where
  | nil : All₂ R [] []
  | cons {a b l l'} : R a b → All₂ R l l' → All₂ R (a :: l) (b :: l')

/-- what became of one `sources` entry -/
def EntryOK (pre : List Flt) (srcById : List (Val × Str)) (e e' : Str) : Prop :=
  ((isMq e = true ∨ findById pre (onlyMq e) = none) → e' = e) ∧
  (isMq e = false → findById pre (onlyMq e) ≠ none → ∃ a, lookupSrc srcById (onlyMq e) = some a ∧ e' = a ++ suffixOf e)

/-- what became of a filter's `sources` -/
def SrcOK (pre : List Flt) (srcById : List (Val × Str)) (f f' : Flt) : Prop :=
  match attr f.cfg kSources with
  | .str s =>
    match splitCommas s with
    | [] => cget f'.cfg kSources = cget f.cfg kSources
    | e :: es => ∃ es', cget f'.cfg kSources = some (.str (joinWith sepCommaSpace es')) ∧
        All₂ (EntryOK pre srcById) (e :: es) es'
  | _ => cget f'.cfg kSources = cget f.cfg kSources

def Grows (s s' : List (Val × Str)) : Prop := ∀ id a, lookupSrc s id = some a → lookupSrc s' id = some a

theorem forall₂_imp {α β : Type} {R S : α → β → Prop} (h : ∀ a b, R a b → S a b) :
    ∀ {l : List α} {l' : List β}, All₂ R l l' → All₂ S l l'
  | _, _, .nil => .nil
  | _, _, .cons hab t => .cons (h _ _ hab) (forall₂_imp h t)

theorem EntryOK_mono (pre : List Flt) (s s' : List (Val × Str)) (hg : Grows s s') (e e' : Str)
    (h : EntryOK pre s e e') : EntryOK pre s' e e' := by
  refine ⟨h.1, fun h1 h2 => ?_⟩
  obtain ⟨a, ha, he⟩ := h.2 h1 h2
  exact ⟨a, hg _ _ ha, he⟩

theorem SrcOK_mono (pre : List Flt) (s s' : List (Val × Str)) (hg : Grows s s') (f f1 f2 : Flt)
    (hc : cget f2.cfg kSources = cget f1.cfg kSources) (h : SrcOK pre s f f1) : SrcOK pre s' f f2 := by
  unfold SrcOK at *
  split
  · rename_i sv hsv
    rw [hsv] at h
    simp only at h
    split
    · rename_i hsp; rw [hsp] at h; simp only at h; rw [hc]; exact h
    · rename_i e es hsp
      rw [hsp] at h
      simp only at h
      obtain ⟨es', h1, h2⟩ := h
      exact ⟨es', by rw [hc]; exact h1, forall₂_imp (EntryOK_mono pre s s' hg) h2⟩
  · rename_i hns
    split at h
    · rename_i sv hsv; exact absurd hsv (hns sv)
    · rw [hc]; exact h

structure Inv (ipc : Bool) (pre : List Flt) (m0 : Int) (done : List Nat) (st : RS) : Prop where
  ids : ids st.fs = ids pre
  same : ∀ (i : Nat) (f f' : Flt), pre[i]? = some f → st.fs[i]? = some f' →
    f'.cls = f.cls ∧ f'.name = f.name ∧ f'.canOut = f.canOut ∧
    ∀ k, k ≠ kSources → k ≠ kOutputs → cget f'.cfg k = cget f.cfg k
  outs : ∀ (i : Nat) (f f' : Flt), pre[i]? = some f → st.fs[i]? = some f' →
    cget f'.cfg kOutputs = cget f.cfg kOutputs ∨
    ∃ id, attr f.cfg kId = .str id ∧
      ((∃ p, (id, p) ∈ st.allocs ∧ ipc = false ∧ cget f'.cfg kOutputs = some (.str (tcpOut p))) ∨
       (∃ nm, (id, nm) ∈ st.ipcAllocs ∧ ipc = true ∧ cget f'.cfg kOutputs = some (.str nm)))
  keep : ∀ (i : Nat) (f f' : Flt), pre[i]? = some f → st.fs[i]? = some f' → truthy (attr f.cfg kOutputs) = true →
    cget f'.cfg kOutputs = cget f.cfg kOutputs
  bound : ∀ x ∈ st.allocs, m0 + stride ≤ x.2 ∧ x.2 ≤ st.maxPort
  apart : st.allocs.Pairwise (fun a b => b.2 + stride ≤ a.2)
  floor : m0 ≤ st.maxPort
  owners : st.allocs.Pairwise (fun a b => a.1 ≠ b.1)
  ownersIn : ∀ x ∈ st.allocs, lookupSrc st.srcById x.1 ≠ none
  binds : ∀ id a, lookupSrc st.srcById id = some a →
    ∃ f' ∈ st.fs, attr f'.cfg kId = .str id ∧ Binds ipc (attr f'.cfg kOutputs) id a
  todo : ∀ (i : Nat) (f f' : Flt), i ∉ done → pre[i]? = some f → st.fs[i]? = some f' → cget f'.cfg kSources = cget f.cfg kSources
  did : ∀ (i : Nat) (f f' : Flt), i ∈ done → pre[i]? = some f → st.fs[i]? = some f' → SrcOK pre st.srcById f f'
  ipcOwners : st.ipcAllocs.Pairwise (fun a b => a.1 ≠ b.1)
  ipcOwnersIn : ∀ x ∈ st.ipcAllocs, lookupSrc st.srcById x.1 ≠ none
  ipcShape : ∀ x ∈ st.ipcAllocs, ∃ k, x.2 = ipcCand x.1 k

theorem findById_none_congr (fs fs' : List Flt) (h : ids fs = ids fs') (id : Str) :
    findById fs id = none ↔ findById fs' id = none := by
  rw [findById_none_iff, findById_none_iff, h]

/-- giving the filter `id` (which has no address yet) the outputs `o` and the address `a` keeps the invariant -/
theorem alloc_inv (ipc : Bool) (pre : List Flt) (m0 : Int) (done : List Nat) (st st' : RS) (id o a : Str) (g : Flt)
    (hp : (ids pre).Pairwise DistinctId) (hinv : Inv ipc pre m0 done st)
    (hf : findById st.fs id = some g) (hl : lookupSrc st.srcById id = none) (hout : truthy (attr g.cfg kOutputs) = false)
    (hfs : st'.fs = setOutputs st.fs id o) (hsrc : st'.srcById = st.srcById ++ [(.str id, a)])
    (hb : Binds ipc (.str o) id a)
    (ho : (∃ p, (id, p) ∈ st'.allocs ∧ ipc = false ∧ o = tcpOut p) ∨ ((id, o) ∈ st'.ipcAllocs ∧ ipc = true))
    (hsub : ∀ x ∈ st.allocs, x ∈ st'.allocs) (hsubI : ∀ x ∈ st.ipcAllocs, x ∈ st'.ipcAllocs)
    (hbound : ∀ x ∈ st'.allocs, m0 + stride ≤ x.2 ∧ x.2 ≤ st'.maxPort)
    (hapart : st'.allocs.Pairwise (fun a b => b.2 + stride ≤ a.2))
    (hfloor : m0 ≤ st'.maxPort)
    (howners : st'.allocs.Pairwise (fun a b => a.1 ≠ b.1))
    (hnew : ∀ x ∈ st'.allocs, x ∈ st.allocs ∨ x.1 = id)
    (hIowners : st'.ipcAllocs.Pairwise (fun a b => a.1 ≠ b.1))
    (hInew : ∀ x ∈ st'.ipcAllocs, x ∈ st.ipcAllocs ∨ x.1 = id)
    (hIshape : ∀ x ∈ st'.ipcAllocs, ∃ k, x.2 = ipcCand x.1 k) :
    Inv ipc pre m0 done st' := by
  have hgrow : Grows st.srcById st'.srcById := by
    intro id' a' h; rw [hsrc]; exact lookupSrc_append_of_some _ _ _ _ h
  have hpw : (ids st.fs).Pairwise DistinctId := by rw [hinv.ids]; exact hp
  -- the element of the new list at position i
  have hget : ∀ (i : Nat) (f' : Flt), st'.fs[i]? = some f' → ∃ f'' : Flt, st.fs[i]? = some f'' ∧
      f' = if attr f''.cfg kId = .str id then { f'' with cfg := cset f''.cfg kOutputs (.str o) } else f'' := by
    intro i f' h
    rw [hfs, setOutputs_get] at h
    cases hh : st.fs[i]? with
    | none => rw [hh] at h; cases h
    | some f'' => rw [hh] at h; simp only [Option.map_some, Option.some.injEq] at h; exact ⟨f'', rfl, h.symm⟩
  have hsrcs : ∀ (i : Nat) (f' : Flt), st'.fs[i]? = some f' → ∃ f'' : Flt, st.fs[i]? = some f'' ∧ cget f'.cfg kSources = cget f''.cfg kSources := by
    intro i f' h
    obtain ⟨f'', h1, h2⟩ := hget i f' h
    refine ⟨f'', h1, ?_⟩
    rw [h2]; split
    · exact cget_cset_ne _ _ _ _ kSources_ne_kOutputs
    · rfl
  have hlook : ∀ x : Str, lookupSrc st.srcById x ≠ none ∨ x = id → lookupSrc st'.srcById x ≠ none := by
    intro x hx
    rcases hx with h | h
    · cases hh : lookupSrc st.srcById x with
      | none => exact absurd hh h
      | some a' => rw [hgrow _ _ hh]; simp
    · rw [h, hsrc, lookupSrc_append_new _ _ _ hl]; simp
  refine ⟨?_, ?_, ?_, ?_, hbound, hapart, hfloor, howners, ?_, ?_, ?_, ?_, hIowners, ?_, hIshape⟩
  · rw [hfs, setOutputs_ids]; exact hinv.ids
  · intro i f f' hpre h
    obtain ⟨f'', h1, h2⟩ := hget i f' h
    obtain ⟨m1, m2, m3, m4⟩ := hinv.same i f f'' hpre h1
    rw [h2]; split
    · exact ⟨m1, m2, m3, fun k hk1 hk2 => by rw [cget_cset_ne _ _ _ _ hk2]; exact m4 k hk1 hk2⟩
    · exact ⟨m1, m2, m3, m4⟩
  · intro i f f' hpre h
    obtain ⟨f'', h1, h2⟩ := hget i f' h
    rw [h2]; split
    · rename_i hid
      right
      have hidf : attr f.cfg kId = .str id := by
        have := (hinv.same i f f'' hpre h1).2.2.2 kId kId_ne_kSources kId_ne_kOutputs
        simp only [attr, ← this]; exact hid
      refine ⟨id, hidf, ?_⟩
      rcases ho with ⟨p, hp1, hp2, hp3⟩ | ⟨ho', hi⟩
      · left; exact ⟨p, hp1, hp2, by rw [cget_cset_self, hp3]⟩
      · right; exact ⟨o, ho', hi, cget_cset_self _ _ _⟩
    · rcases hinv.outs i f f'' hpre h1 with h3 | ⟨id', hid', h3⟩
      · left; exact h3
      · right
        refine ⟨id', hid', ?_⟩
        rcases h3 with ⟨p, hp1, hp2⟩ | ⟨nm, hn1, hn2⟩
        · left; exact ⟨p, hsub _ hp1, hp2⟩
        · right; exact ⟨nm, hsubI _ hn1, hn2⟩
  · intro i f f' hpre h htr
    obtain ⟨f'', h1, h2⟩ := hget i f' h
    have hk := hinv.keep i f f'' hpre h1 htr
    rw [h2]; split
    · rename_i hid
      exfalso
      have hmem : f'' ∈ st.fs := List.mem_of_getElem? h1
      have heq := findById_unique st.fs id g hpw hf f'' hmem hid
      subst heq
      have : attr f''.cfg kOutputs = attr f.cfg kOutputs := by simp [attr, hk]
      rw [this, htr] at hout
      cases hout
    · exact hk
  · intro x hx
    rcases hnew x hx with h | h
    · exact hlook _ (Or.inl (hinv.ownersIn x h))
    · exact hlook _ (Or.inr h)
  · intro id' a' h
    by_cases hid : id' = id
    · subst hid
      rw [hsrc, lookupSrc_append_new _ _ _ hl] at h
      cases h
      obtain ⟨hg1, hg2⟩ := findById_some _ _ _ hf
      refine ⟨{ g with cfg := cset g.cfg kOutputs (.str o) }, ?_, ?_, ?_⟩
      · rw [hfs, setOutputs]; exact List.mem_map.mpr ⟨g, hg1, by simp [hg2]⟩
      · simp only [attr_cset_ne _ _ _ _ kId_ne_kOutputs]; exact hg2
      · simp only [attr_cset_self]; exact hb
    · rw [hsrc, lookupSrc_append_other _ _ _ _ hid] at h
      obtain ⟨f', hf', h1, h2⟩ := hinv.binds id' a' h
      refine ⟨f', ?_, h1, h2⟩
      rw [hfs, setOutputs]
      refine List.mem_map.mpr ⟨f', hf', ?_⟩
      have : attr f'.cfg kId ≠ .str id := by rw [h1]; intro e; cases e; exact hid rfl
      simp [this]
  · intro i f f' hnd hpre h
    obtain ⟨f'', h1, h2⟩ := hsrcs i f' h
    rw [h2]; exact hinv.todo i f f'' hnd hpre h1
  · intro i f f' hd hpre h
    obtain ⟨f'', h1, h2⟩ := hsrcs i f' h
    exact SrcOK_mono pre _ _ hgrow f f'' f' h2 (hinv.did i f f'' hd hpre h1)
  · intro x hx
    rcases hInew x hx with h | h
    · exact hlook _ (Or.inl (hinv.ipcOwnersIn x h))
    · exact hlook _ (Or.inr h)

theorem Grows.refl (s : List (Val × Str)) : Grows s s := fun _ _ h => h
theorem Grows.trans {a b c : List (Val × Str)} (h1 : Grows a b) (h2 : Grows b c) : Grows a c :=
  fun id x h => h2 id x (h1 id x h)

/-- one entry: the invariant is kept, addresses already handed out stay, the entry is resolved as specified -/
theorem resolveEntry_inv (ipc : Bool) (pre : List Flt) (m0 : Int) (done : List Nat) (nonMq : List Val) (self : Val)
    (st st' : RS) (src e : Str) (hs : 0 ≤ stride) (hp : (ids pre).Pairwise DistinctId)
    (hinv : Inv ipc pre m0 done st) (h : resolveEntry ipc nonMq self st src = .ok (st', e)) :
    Inv ipc pre m0 done st' ∧ Grows st.srcById st'.srcById ∧ EntryOK pre st'.srcById src e := by
  have hcong := findById_none_congr st.fs pre hinv.ids (onlyMq src)
  rcases resolveEntry_cases _ _ _ _ _ _ _ h with ⟨hk, hst, he⟩ | ⟨g, a, hmq, hf, _, _, hl, hst, he⟩ |
      ⟨g, hmq, hf, _, _, hl, hout, hipc, hst, he⟩ | ⟨g, hmq, hf, _, _, hl, hout, hipc, hst, he⟩
  · subst hst he
    refine ⟨hinv, Grows.refl _, fun _ => rfl, fun h1 h2 => ?_⟩
    rcases hk with hk | hk
    · rw [hk] at h1; cases h1
    · exact absurd (hcong.mp hk) h2
  · subst hst he
    refine ⟨hinv, Grows.refl _, fun hk => ?_, fun _ _ => ⟨a, hl, rfl⟩⟩
    rcases hk with hk | hk
    · rw [hk] at hmq; cases hmq
    · rw [hcong.mpr hk] at hf; cases hf
  · obtain ⟨k, hk⟩ := ipcName_cand st.ipcUsed (onlyMq src)
    have hinv' : Inv ipc pre m0 done st' := by
      apply alloc_inv ipc pre m0 done st st' (onlyMq src) (ipcName st.ipcUsed (onlyMq src))
        (ipcName st.ipcUsed (onlyMq src)) g hp hinv hf hl hout
      · rw [hst]
      · rw [hst]
      · exact Or.inr (Or.inr ⟨k, by rw [hk], hk, hipc⟩)
      · exact Or.inr ⟨by rw [hst]; exact List.mem_cons_self .., hipc⟩
      · intro x hx; rw [hst]; exact hx
      · intro x hx; rw [hst]; exact List.mem_cons_of_mem _ hx
      · intro x hx; rw [hst] at hx ⊢; exact hinv.bound x hx
      · rw [hst]; exact hinv.apart
      · rw [hst]; exact hinv.floor
      · rw [hst]; exact hinv.owners
      · intro x hx; rw [hst] at hx; exact Or.inl hx
      · rw [hst]
        simp only [List.pairwise_cons]
        refine ⟨fun b hb heq => ?_, hinv.ipcOwners⟩
        have := hinv.ipcOwnersIn b hb
        rw [← heq] at this
        exact this hl
      · intro x hx
        rw [hst] at hx
        rcases List.mem_cons.mp hx with rfl | hx
        · exact Or.inr rfl
        · exact Or.inl hx
      · intro x hx
        rw [hst] at hx
        rcases List.mem_cons.mp hx with rfl | hx
        · exact ⟨k, hk⟩
        · exact hinv.ipcShape x hx
    refine ⟨hinv', ?_, fun hk => ?_, fun _ _ => ⟨ipcName st.ipcUsed (onlyMq src), ?_, he⟩⟩
    · intro id' a' h'; rw [hst]; exact lookupSrc_append_of_some _ _ _ _ h'
    · rcases hk with hk | hk
      · rw [hk] at hmq; cases hmq
      · rw [hcong.mpr hk] at hf; cases hf
    · rw [hst]; exact lookupSrc_append_new _ _ _ hl
  · have hinv' : Inv ipc pre m0 done st' := by
      apply alloc_inv ipc pre m0 done st st' (onlyMq src) (tcpOut (st.maxPort + stride)) (tcpConn (st.maxPort + stride)) g hp hinv hf hl hout
      · rw [hst]
      · rw [hst]
      · exact Or.inr (Or.inl ⟨_, rfl, rfl, hipc⟩)
      · exact Or.inl ⟨st.maxPort + stride, by rw [hst]; exact List.mem_cons_self .., hipc, rfl⟩
      · intro x hx; rw [hst]; exact List.mem_cons_of_mem _ hx
      · intro x hx; rw [hst]; exact hx
      · intro x hx
        rw [hst] at hx ⊢
        simp only at hx ⊢
        rcases List.mem_cons.mp hx with rfl | hx
        · have := hinv.floor; simp only; omega
        · have := hinv.bound x hx; omega
      · rw [hst]
        simp only [List.pairwise_cons]
        refine ⟨fun b hb => ?_, hinv.apart⟩
        have := hinv.bound b hb; omega
      · rw [hst]; have := hinv.floor; simp only; omega
      · rw [hst]
        simp only [List.pairwise_cons]
        refine ⟨fun b hb heq => ?_, hinv.owners⟩
        have := hinv.ownersIn b hb
        rw [← heq] at this
        exact this hl
      · intro x hx
        rw [hst] at hx
        rcases List.mem_cons.mp hx with rfl | hx
        · exact Or.inr rfl
        · exact Or.inl hx
      · rw [hst]; exact hinv.ipcOwners
      · intro x hx; rw [hst] at hx; exact Or.inl hx
      · intro x hx; rw [hst] at hx; exact hinv.ipcShape x hx
    refine ⟨hinv', ?_, fun hk => ?_, fun _ _ => ⟨tcpConn (st.maxPort + stride), ?_, he⟩⟩
    · intro id' a' h'; rw [hst]; exact lookupSrc_append_of_some _ _ _ _ h'
    · rcases hk with hk | hk
      · rw [hk] at hmq; cases hmq
      · rw [hcong.mpr hk] at hf; cases hf
    · rw [hst]; exact lookupSrc_append_new _ _ _ hl

/-- all entries of one filter -/
theorem resolveEntries_inv (ipc : Bool) (pre : List Flt) (m0 : Int) (done : List Nat) (nonMq : List Val) (self : Val)
    (hs : 0 ≤ stride) (hp : (ids pre).Pairwise DistinctId) :
    ∀ (srcs : List Str) (st st' : RS) (es : List Str), Inv ipc pre m0 done st →
      resolveEntries ipc nonMq self st srcs = .ok (st', es) →
      Inv ipc pre m0 done st' ∧ Grows st.srcById st'.srcById ∧ All₂ (EntryOK pre st'.srcById) srcs es := by
  intro srcs
  induction srcs with
  | nil =>
    intro st st' es hinv h
    simp only [resolveEntries, pure, Except.pure, Except.ok.injEq, Prod.mk.injEq] at h
    obtain ⟨rfl, rfl⟩ := h
    exact ⟨hinv, Grows.refl _, .nil⟩
  | cons s r ih =>
    intro st st' es hinv h
    unfold resolveEntries at h
    cases h1 : resolveEntry ipc nonMq self st s with
    | error x => rw [h1] at h; cases h
    | ok p1 =>
      obtain ⟨st1, e⟩ := p1
      rw [h1] at h
      simp only [Except.bind] at h
      cases h2 : resolveEntries ipc nonMq self st1 r with
      | error x => rw [h2] at h; cases h
      | ok p2 =>
        obtain ⟨st2, es2⟩ := p2
        rw [h2] at h
        simp only [pure, Except.pure, Except.ok.injEq, Prod.mk.injEq] at h
        obtain ⟨rfl, rfl⟩ := h
        obtain ⟨i1, g1, e1⟩ := resolveEntry_inv ipc pre m0 done nonMq self st st1 s e hs hp hinv h1
        obtain ⟨i2, g2, e2⟩ := ih st1 st2 es2 i1 h2
        exact ⟨i2, g1.trans g2, .cons (EntryOK_mono pre _ _ g2 _ _ e1) e2⟩

theorem ids_length (fs fs' : List Flt) (h : ids fs = ids fs') : fs.length = fs'.length := by
  have := congrArg List.length h
  simpa [ids] using this

theorem inv_pre_get (ipc : Bool) (pre : List Flt) (m0 : Int) (done : List Nat) (st : RS) (hinv : Inv ipc pre m0 done st)
    (i : Nat) (f' : Flt) (h : st.fs[i]? = some f') : ∃ f, pre[i]? = some f := by
  have hl := ids_length _ _ hinv.ids
  have : i < st.fs.length := by
    rcases List.getElem?_eq_some_iff.mp h with ⟨hlt, _⟩; exact hlt
  exact ⟨pre[i]'(by omega), List.getElem?_eq_getElem (by omega)⟩

theorem Inv.weaken_done (ipc : Bool) (pre : List Flt) (m0 : Int) (done : List Nat) (st : RS) (i : Nat)
    (hinv : Inv ipc pre m0 done st)
    (hi : ∀ f f', pre[i]? = some f → st.fs[i]? = some f' → SrcOK pre st.srcById f f') :
    Inv ipc pre m0 (i :: done) st := by
  refine { hinv with todo := ?_, did := ?_ }
  · intro j f f' hj; exact hinv.todo j f f' (fun h => hj (List.mem_cons_of_mem _ h))
  · intro j f f' hj hpre h
    rcases List.mem_cons.mp hj with rfl | hj
    · exact hi f f' hpre h
    · exact hinv.did j f f' hj hpre h

/-- writing the joined entries back into the `i`-th filter -/
theorem setSources_inv (ipc : Bool) (pre : List Flt) (m0 : Int) (done : List Nat) (st : RS) (i : Nat) (es' : List Str)
    (hinv : Inv ipc pre m0 done st)
    (hi : ∀ f f1, pre[i]? = some f → st.fs[i]? = some f1 →
      SrcOK pre st.srcById f { f1 with cfg := cset f1.cfg kSources (.str (joinWith sepCommaSpace es')) }) :
    Inv ipc pre m0 (i :: done) { st with fs := setSources st.fs i es' } := by
  have hget : ∀ (j : Nat) (f' : Flt), (setSources st.fs i es')[j]? = some f' →
      ∃ f1 : Flt, st.fs[j]? = some f1 ∧
        ((j ≠ i ∧ f' = f1) ∨ (j = i ∧ f' = { f1 with cfg := cset f1.cfg kSources (.str (joinWith sepCommaSpace es')) })) := by
    intro j f' h
    by_cases hj : j = i
    · subst hj
      rw [setSources_get_self] at h
      cases hh : st.fs[j]? with
      | none => rw [hh] at h; cases h
      | some f1 => rw [hh] at h; simp only [Option.map_some, Option.some.injEq] at h; exact ⟨f1, rfl, Or.inr ⟨rfl, h.symm⟩⟩
    · rw [setSources_get_ne _ _ _ _ hj] at h
      exact ⟨f', h, Or.inl ⟨hj, rfl⟩⟩
  refine ⟨?_, ?_, ?_, ?_, hinv.bound, hinv.apart, hinv.floor, hinv.owners, hinv.ownersIn, ?_, ?_, ?_,
    hinv.ipcOwners, hinv.ipcOwnersIn, hinv.ipcShape⟩
  · simp only [setSources_ids]; exact hinv.ids
  · intro j f f' hpre h
    obtain ⟨f1, h1, h2⟩ := hget j f' h
    obtain ⟨m1, m2, m3, m4⟩ := hinv.same j f f1 hpre h1
    rcases h2 with ⟨_, rfl⟩ | ⟨_, rfl⟩
    · exact ⟨m1, m2, m3, m4⟩
    · exact ⟨m1, m2, m3, fun k hk1 hk2 => by simp only [cget_cset_ne _ _ _ _ hk1]; exact m4 k hk1 hk2⟩
  · intro j f f' hpre h
    obtain ⟨f1, h1, h2⟩ := hget j f' h
    have := hinv.outs j f f1 hpre h1
    rcases h2 with ⟨_, rfl⟩ | ⟨_, rfl⟩
    · exact this
    · simpa only [cget_cset_ne _ _ _ _ (Ne.symm kSources_ne_kOutputs)] using this
  · intro j f f' hpre h htr
    obtain ⟨f1, h1, h2⟩ := hget j f' h
    have := hinv.keep j f f1 hpre h1 htr
    rcases h2 with ⟨_, rfl⟩ | ⟨_, rfl⟩
    · exact this
    · simpa only [cget_cset_ne _ _ _ _ (Ne.symm kSources_ne_kOutputs)] using this
  · intro id a h
    obtain ⟨f', hf', h1, h2⟩ := hinv.binds id a h
    obtain ⟨f'', hf'', h3, h4⟩ := setSources_mem st.fs i es' f' hf'
    exact ⟨f'', hf'', by rw [h3]; exact h1, by rw [h4]; exact h2⟩
  · intro j f f' hj hpre h
    obtain ⟨f1, h1, h2⟩ := hget j f' h
    rcases h2 with ⟨_, rfl⟩ | ⟨hji, _⟩
    · exact hinv.todo j f f' (fun hh => hj (List.mem_cons_of_mem _ hh)) hpre h1
    · exact absurd (hji ▸ List.mem_cons_self ..) hj
  · intro j f f' hj hpre h
    obtain ⟨f1, h1, h2⟩ := hget j f' h
    rcases h2 with ⟨hne, rfl⟩ | ⟨rfl, rfl⟩
    · rcases List.mem_cons.mp hj with rfl | hj
      · exact absurd rfl hne
      · exact hinv.did j f f' hj hpre h1
    · exact hi f f1 hpre h1

/-- one filter of the last loop -/
theorem resolveFilter_inv (ipc : Bool) (pre : List Flt) (m0 : Int) (done : List Nat) (nonMq : List Val)
    (st st' : RS) (i : Nat) (hs : 0 ≤ stride) (hp : (ids pre).Pairwise DistinctId) (hi : i ∉ done)
    (hinv : Inv ipc pre m0 done st) (h : resolveFilter ipc nonMq st i = .ok st') :
    Inv ipc pre m0 (i :: done) st' := by
  unfold resolveFilter at h
  split at h
  · rename_i hnone
    simp only [pure, Except.pure, Except.ok.injEq] at h
    subst h
    exact Inv.weaken_done _ _ _ _ _ _ hinv (fun f f' _ h' => by rw [hnone] at h'; cases h')
  · rename_i fc hfc
    obtain ⟨f, hpre⟩ := inv_pre_get _ _ _ _ _ hinv i fc hfc
    have hsame : cget fc.cfg kSources = cget f.cfg kSources := hinv.todo i f fc hi hpre hfc
    have hattr : attr fc.cfg kSources = attr f.cfg kSources := by simp [attr, hsame]
    split at h
    · rename_i s hs'
      split at h
      · rename_i hsp
        simp only [pure, Except.pure, Except.ok.injEq] at h
        subst h
        refine Inv.weaken_done _ _ _ _ _ _ hinv (fun f2 f' hp2 h' => ?_)
        rw [hpre] at hp2; cases hp2
        rw [hfc] at h'; cases h'
        unfold SrcOK
        rw [← hattr, hs']; simp only; rw [hsp]; exact hsame
      · rename_i e es hsp
        cases h1 : resolveEntries ipc nonMq (attr fc.cfg kId) st (e :: es) with
        | error x => rw [h1] at h; cases h
        | ok p1 =>
          obtain ⟨st1, es'⟩ := p1
          rw [h1] at h
          simp only [Except.bind, pure, Except.pure, Except.ok.injEq] at h
          subst h
          obtain ⟨i1, _, e1⟩ := resolveEntries_inv ipc pre m0 done nonMq _ hs hp (e :: es) st st1 es' hinv h1
          refine setSources_inv _ _ _ _ _ _ _ i1 (fun f2 f1 hp2 _ => ?_)
          rw [hpre] at hp2; cases hp2
          unfold SrcOK
          rw [← hattr, hs']; simp only; rw [hsp]
          exact ⟨es', by simp [cget_cset_self], e1⟩
    · rename_i hns
      split at h
      · cases h
      · simp only [pure, Except.pure, Except.ok.injEq] at h
        subst h
        refine Inv.weaken_done _ _ _ _ _ _ hinv (fun f2 f' hp2 h' => ?_)
        rw [hpre] at hp2; cases hp2
        rw [hfc] at h'; cases h'
        unfold SrcOK
        split
        · rename_i sv hsv; rw [← hattr] at hsv; exact absurd hsv (hns sv)
        · exact hsame

/-- the whole last loop -/
theorem resolveFrom_inv (ipc : Bool) (pre : List Flt) (m0 : Int) (nonMq : List Val)
    (hs : 0 ≤ stride) (hp : (ids pre).Pairwise DistinctId) :
    ∀ (l : List Nat) (done : List Nat) (st st' : RS), l.Nodup → (∀ i ∈ l, i ∉ done) → Inv ipc pre m0 done st →
      resolveFrom ipc nonMq l st = .ok st' → Inv ipc pre m0 (l.reverse ++ done) st' := by
  intro l
  induction l with
  | nil =>
    intro done st st' _ _ hinv h
    simp only [resolveFrom, pure, Except.pure, Except.ok.injEq] at h
    subst h; simpa using hinv
  | cons i r ih =>
    intro done st st' hnd hdis hinv h
    unfold resolveFrom at h
    cases h1 : resolveFilter ipc nonMq st i with
    | error x => rw [h1] at h; cases h
    | ok st1 =>
      rw [h1] at h
      simp only [Except.bind] at h
      have hnd' := List.nodup_cons.mp hnd
      have i1 := resolveFilter_inv ipc pre m0 done nonMq st st1 i hs hp (hdis i (List.mem_cons_self ..)) hinv h1
      have := ih (i :: done) st1 st' hnd'.2 (fun j hj hmem => by
        rcases List.mem_cons.mp hmem with rfl | hmem
        · exact hnd'.1 hj
        · exact hdis j (List.mem_cons_of_mem _ hj) hmem) i1 h
      simpa [List.reverse_cons, List.append_assoc] using this

/-! ## what the repaired `--ipc` allocator maintains about `ipc_addrs` -/

/-- `u0` = `ipc_addrs` after the scan (the endpoints the user named).  The set only grows, by exactly the allocated
names; an allocated name was in the set neither before its allocation nor at the start; an allocated name that is
not plain `ipc://<id>` was forced: `ipc://<id>` was named by the user or allocated earlier. -/
structure IpcInv (u0 : List Str) (st : RS) : Prop where
  used : ∃ used, st.ipcUsed = some used ∧ (∀ u, u ∈ used ↔ u ∈ u0 ∨ ∃ x ∈ st.ipcAllocs, x.2 = u)
  fresh : ∀ x ∈ st.ipcAllocs, x.2 ∉ u0
  distinct : st.ipcAllocs.Pairwise (fun a b => a.2 ≠ b.2)
  forced : ∀ x ∈ st.ipcAllocs, x.2 = sIpc ++ x.1 ∨ sIpc ++ x.1 ∈ u0 ∨ ∃ y ∈ st.ipcAllocs, y.2 = sIpc ++ x.1

theorem IpcInv.congr (u0 : List Str) (st st' : RS) (h : IpcInv u0 st) (h1 : st'.ipcUsed = st.ipcUsed)
    (h2 : st'.ipcAllocs = st.ipcAllocs) : IpcInv u0 st' := by
  obtain ⟨a, b, c, d⟩ := h
  exact ⟨by rw [h1, h2]; exact a, by rw [h2]; exact b, by rw [h2]; exact c, by rw [h2]; exact d⟩

theorem resolveEntry_ipcInv (ipc : Bool) (nonMq : List Val) (self : Val) (u0 : List Str) (st st' : RS) (src e : Str)
    (hinv : IpcInv u0 st) (h : resolveEntry ipc nonMq self st src = .ok (st', e)) : IpcInv u0 st' := by
  rcases resolveEntry_cases _ _ _ _ _ _ _ h with ⟨_, hst, _⟩ | ⟨_, _, _, _, _, _, _, hst, _⟩ |
      ⟨_, _, _, _, _, _, _, _, hst, _⟩ | ⟨_, _, _, _, _, _, _, _, hst, _⟩
  · rw [hst]; exact hinv
  · rw [hst]; exact hinv
  · obtain ⟨used, hu, hmem⟩ := hinv.used
    have hname : ipcName st.ipcUsed (onlyMq src) = pickIpc used (onlyMq src) := by rw [hu]; rfl
    have hnot : pickIpc used (onlyMq src) ∉ used := pickIpc_not_mem used (onlyMq src)
    rw [hst, hname]
    refine ⟨⟨pickIpc used (onlyMq src) :: used, by simp [hu], fun u => ?_⟩, ?_, ?_, ?_⟩
    · simp only [List.mem_cons, hmem u, exists_eq_or_imp]
      constructor
      · rintro (h1 | h1 | h1)
        · exact Or.inr (Or.inl h1.symm)
        · exact Or.inl h1
        · exact Or.inr (Or.inr h1)
      · rintro (h1 | h1 | h1)
        · exact Or.inr (Or.inl h1)
        · exact Or.inl h1.symm
        · exact Or.inr (Or.inr h1)
    · intro x hx
      rcases List.mem_cons.mp hx with rfl | hx
      · exact fun hin => hnot ((hmem _).mpr (Or.inl hin))
      · exact hinv.fresh x hx
    · simp only [List.pairwise_cons]
      refine ⟨fun b hb heq => hnot ((hmem _).mpr (Or.inr ⟨b, hb, heq.symm⟩)), hinv.distinct⟩
    · intro x hx
      rcases List.mem_cons.mp hx with rfl | hx
      · by_cases hfree : sIpc ++ onlyMq src ∈ used
        · rcases (hmem _).mp hfree with h1 | ⟨y, hy, h1⟩
          · exact Or.inr (Or.inl h1)
          · exact Or.inr (Or.inr ⟨y, List.mem_cons_of_mem _ hy, h1⟩)
        · exact Or.inl (pickIpc_free used (onlyMq src) hfree)
      · rcases hinv.forced x hx with h1 | h1 | ⟨y, hy, h1⟩
        · exact Or.inl h1
        · exact Or.inr (Or.inl h1)
        · exact Or.inr (Or.inr ⟨y, List.mem_cons_of_mem _ hy, h1⟩)
  · exact hinv.congr u0 st st' (by rw [hst]) (by rw [hst])

theorem resolveEntries_ipcInv (ipc : Bool) (nonMq : List Val) (self : Val) (u0 : List Str) :
    ∀ (srcs : List Str) (st st' : RS) (es : List Str), IpcInv u0 st →
      resolveEntries ipc nonMq self st srcs = .ok (st', es) → IpcInv u0 st' := by
  intro srcs
  induction srcs with
  | nil =>
    intro st st' es hinv h
    simp only [resolveEntries, pure, Except.pure, Except.ok.injEq, Prod.mk.injEq] at h
    rw [← h.1]; exact hinv
  | cons s r ih =>
    intro st st' es hinv h
    unfold resolveEntries at h
    cases h1 : resolveEntry ipc nonMq self st s with
    | error x => rw [h1] at h; cases h
    | ok p1 =>
      obtain ⟨st1, e⟩ := p1
      rw [h1] at h
      simp only [Except.bind] at h
      cases h2 : resolveEntries ipc nonMq self st1 r with
      | error x => rw [h2] at h; cases h
      | ok p2 =>
        obtain ⟨st2, es2⟩ := p2
        rw [h2] at h
        simp only [pure, Except.pure, Except.ok.injEq, Prod.mk.injEq] at h
        rw [← h.1]
        exact ih st1 st2 es2 (resolveEntry_ipcInv ipc nonMq self u0 st st1 s e hinv h1) h2

theorem resolveFilter_ipcInv (ipc : Bool) (nonMq : List Val) (u0 : List Str) (st st' : RS) (i : Nat)
    (hinv : IpcInv u0 st) (h : resolveFilter ipc nonMq st i = .ok st') : IpcInv u0 st' := by
  unfold resolveFilter at h
  split at h
  · simp only [pure, Except.pure, Except.ok.injEq] at h
    rw [← h]; exact hinv
  · rename_i fc _
    split at h
    · split at h
      · simp only [pure, Except.pure, Except.ok.injEq] at h
        rw [← h]; exact hinv
      · rename_i e es _
        cases h1 : resolveEntries ipc nonMq (attr fc.cfg kId) st (e :: es) with
        | error x => rw [h1] at h; cases h
        | ok p1 =>
          obtain ⟨st1, es'⟩ := p1
          rw [h1] at h
          simp only [Except.bind, pure, Except.pure, Except.ok.injEq] at h
          rw [← h]
          exact (resolveEntries_ipcInv ipc nonMq _ u0 (e :: es) st st1 es' hinv h1).congr u0 _ _ rfl rfl
    · split at h
      · cases h
      · simp only [pure, Except.pure, Except.ok.injEq] at h
        rw [← h]; exact hinv

theorem resolveFrom_ipcInv (ipc : Bool) (nonMq : List Val) (u0 : List Str) :
    ∀ (l : List Nat) (st st' : RS), IpcInv u0 st → resolveFrom ipc nonMq l st = .ok st' → IpcInv u0 st' := by
  intro l
  induction l with
  | nil =>
    intro st st' hinv h
    simp only [resolveFrom, pure, Except.pure, Except.ok.injEq] at h
    rw [← h]; exact hinv
  | cons i r ih =>
    intro st st' hinv h
    unfold resolveFrom at h
    cases h1 : resolveFilter ipc nonMq st i with
    | error x => rw [h1] at h; cases h
    | ok st1 =>
      rw [h1] at h
      simp only [Except.bind] at h
      exact ih st1 st' (resolveFilter_ipcInv ipc nonMq u0 st st1 i hinv h1) h

theorem resolveAll_ipcInv (ipc : Bool) (pre : List Flt) (sr : ScanRes) (st : RS)
    (h : resolveAll true ipc pre sr = .ok st) : IpcInv sr.ipcUsed st := by
  unfold resolveAll at h
  refine resolveFrom_ipcInv ipc sr.nonMq sr.ipcUsed _ _ st ?_ h
  exact ⟨⟨sr.ipcUsed, rfl, fun u => by simp⟩, (fun x hx => by cases hx), List.Pairwise.nil, (fun x hx => by cases hx)⟩

/-! ## the port scan -/

theorem le_maxList (m : Int) (l : List Int) : m ≤ maxList m l := by
  unfold maxList
  induction l generalizing m with
  | nil => simp
  | cons x r ih => simp only [List.foldl_cons]; have := ih (max m x); omega

theorem mem_le_maxList (m : Int) (l : List Int) (x : Int) (h : x ∈ l) : x ≤ maxList m l := by
  unfold maxList
  induction l generalizing m with
  | nil => cases h
  | cons y r ih =>
    simp only [List.foldl_cons]
    rcases List.mem_cons.mp h with rfl | h
    · have := le_maxList (max m x) r; unfold maxList at this; omega
    · exact ih _ h

/-- an address recorded by the port scan comes from the first entry of an explicit all-MQ `outputs` -/
def UserBinds (outs : Val) (a : Str) : Prop :=
  ∃ s first more, outs = .str s ∧ splitCommas s = first :: more ∧
    (first :: more).any (fun o => !isMq o) = false ∧ a = connAddr first

theorem scanStep_spec (patched : Bool) (sr sr' : ScanRes) (f : Flt) (h : scanStep patched sr f = .ok sr') :
    sr.maxPort ≤ sr'.maxPort ∧ (patched = true → ∀ u ∈ seenPorts f, u ≤ sr'.maxPort) ∧
    (sr'.srcById = sr.srcById ∨
      ∃ a, UserBinds (attr f.cfg kOutputs) a ∧ sr'.srcById = sr.srcById ++ [(attr f.cfg kId, a)]) := by
  have hm1 : sr.maxPort ≤ (if patched then maxList sr.maxPort (seenPorts f) else sr.maxPort) := by
    split
    · exact le_maxList _ _
    · exact Int.le_refl _
  have hm2 : patched = true → ∀ u ∈ seenPorts f, u ≤ (if patched then maxList sr.maxPort (seenPorts f) else sr.maxPort) := by
    intro hp u hu; simp only [hp, ↓reduceIte]; exact mem_le_maxList _ _ _ hu
  unfold scanStep at h
  simp only at h
  split at h
  · rename_i s hs
    split at h
    · simp only [pure, Except.pure, Except.ok.injEq] at h
      subst h; exact ⟨hm1, hm2, Or.inl rfl⟩
    · rename_i first more hsp
      split at h
      · simp only [pure, Except.pure, Except.ok.injEq] at h
        subst h; exact ⟨hm1, hm2, Or.inl rfl⟩
      · rename_i hall
        cases ht : tcpPorts (first :: more).reverse with
        | error x => rw [ht] at h; cases h
        | ok ps =>
          rw [ht] at h
          simp only [Except.bind, pure, Except.pure, Except.ok.injEq] at h
          subst h
          have := le_maxList (if patched then maxList sr.maxPort (seenPorts f) else sr.maxPort) ps
          refine ⟨by simp only; omega, fun hp u hu => by have := hm2 hp u hu; simp only; omega, Or.inr ⟨connAddr first, ?_, rfl⟩⟩
          exact ⟨s, first, more, hs, hsp, by simpa using hall, rfl⟩
  · split at h
    · cases h
    · simp only [pure, Except.pure, Except.ok.injEq] at h
      subst h; exact ⟨hm1, hm2, Or.inl rfl⟩

theorem scanPorts_spec (patched : Bool) :
    ∀ (l : List Flt) (sr sr' : ScanRes), scanPorts patched l sr = .ok sr' →
      sr.maxPort ≤ sr'.maxPort ∧ (patched = true → ∀ f ∈ l, ∀ u ∈ seenPorts f, u ≤ sr'.maxPort) ∧
      (∀ k a, (k, a) ∈ sr'.srcById → (k, a) ∈ sr.srcById ∨
        ∃ f ∈ l, attr f.cfg kId = k ∧ UserBinds (attr f.cfg kOutputs) a) := by
  intro l
  induction l with
  | nil =>
    intro sr sr' h
    simp only [scanPorts, pure, Except.pure, Except.ok.injEq] at h
    subst h
    exact ⟨Int.le_refl _, (fun _ f hf => by cases hf), (fun k a h => Or.inl h)⟩
  | cons f r ih =>
    intro sr sr' h
    unfold scanPorts at h
    cases h1 : scanStep patched sr f with
    | error x => rw [h1] at h; cases h
    | ok sr1 =>
      rw [h1] at h
      simp only [Except.bind] at h
      obtain ⟨a1, a2, a3⟩ := scanStep_spec patched sr sr1 f h1
      obtain ⟨b1, b2, b3⟩ := ih sr1 sr' h
      refine ⟨by omega, fun hp g hg u hu => ?_, fun k a hka => ?_⟩
      · rcases List.mem_cons.mp hg with rfl | hg
        · have := a2 hp u hu; omega
        · exact b2 hp g hg u hu
      · rcases b3 k a hka with h2 | ⟨g, hg, h2⟩
        · rcases a3 with a3 | ⟨a', hu, a3⟩
          · rw [a3] at h2; exact Or.inl h2
          · rw [a3] at h2
            rcases List.mem_append.mp h2 with h2 | h2
            · exact Or.inl h2
            · simp only [List.mem_singleton, Prod.mk.injEq] at h2
              obtain ⟨rfl, rfl⟩ := h2
              exact Or.inr ⟨f, List.mem_cons_self .., rfl, hu⟩
        · exact Or.inr ⟨g, List.mem_cons_of_mem _ hg, h2⟩

/-- what the scan collects into `ipc_addrs`: exactly the `ipc://` endpoints named by this filter -/
theorem scanStep_ipcUsed (patched : Bool) (sr sr' : ScanRes) (f : Flt) (h : scanStep patched sr f = .ok sr') :
    sr'.ipcUsed = if patched then sr.ipcUsed ++ userIpc f else sr.ipcUsed := by
  unfold scanStep at h
  simp only at h
  split at h
  · split at h
    · simp only [pure, Except.pure, Except.ok.injEq] at h
      subst h; rfl
    · split at h
      · simp only [pure, Except.pure, Except.ok.injEq] at h
        subst h; rfl
      · rename_i first more _ _
        cases ht : tcpPorts (first :: more).reverse with
        | error x => rw [ht] at h; cases h
        | ok ps =>
          rw [ht] at h
          simp only [Except.bind, pure, Except.pure, Except.ok.injEq] at h
          subst h; rfl
  · split at h
    · cases h
    · simp only [pure, Except.pure, Except.ok.injEq] at h
      subst h; rfl

theorem scanPorts_ipcUsed :
    ∀ (l : List Flt) (sr sr' : ScanRes), scanPorts true l sr = .ok sr' →
      ∀ u, u ∈ sr'.ipcUsed ↔ u ∈ sr.ipcUsed ∨ ∃ f ∈ l, u ∈ userIpc f := by
  intro l
  induction l with
  | nil =>
    intro sr sr' h u
    simp only [scanPorts, pure, Except.pure, Except.ok.injEq] at h
    subst h
    simp
  | cons f r ih =>
    intro sr sr' h u
    unfold scanPorts at h
    cases h1 : scanStep true sr f with
    | error x => rw [h1] at h; cases h
    | ok sr1 =>
      rw [h1] at h
      simp only [Except.bind] at h
      have a1 := scanStep_ipcUsed true sr sr1 f h1
      simp only [↓reduceIte] at a1
      rw [ih sr1 sr' h u, a1, List.mem_append]
      simp only [List.mem_cons, exists_eq_or_imp]
      constructor
      · rintro ((h2 | h2) | h2)
        · exact Or.inl h2
        · exact Or.inr (Or.inl h2)
        · exact Or.inr (Or.inr h2)
      · rintro (h2 | h2 | h2)
        · exact Or.inl (Or.inl h2)
        · exact Or.inl (Or.inr h2)
        · exact Or.inr h2

/-! ## the final re-ordering keeps every key's value -/

theorem cget_append (l1 l2 : Config) (k : Str) :
    cget (l1 ++ l2) k = match cget l1 k with | some v => some v | none => cget l2 k := by
  induction l1 with
  | nil => simp [cget]
  | cons p r ih =>
    obtain ⟨k', v'⟩ := p
    simp only [List.cons_append, cget]
    split
    · rfl
    · exact ih

theorem cget_finish_head (order : List Str) (c : Config) (k : Str) :
    cget (order.filterMap fun k' => (cget c k').map fun v => (k', v)) k = if k ∈ order then cget c k else none := by
  induction order with
  | nil => simp [cget]
  | cons k' r ih =>
    simp only [List.filterMap_cons]
    cases hc : cget c k' with
    | none =>
      simp only [Option.map_none]
      rw [ih]
      by_cases hk : k' = k
      · subst hk; simp [hc]
      · have : (k ∈ k' :: r) ↔ k ∈ r := by simp [List.mem_cons, Ne.symm hk]
        simp [this]
    | some v =>
      simp only [Option.map_some, cget]
      by_cases hk : k' = k
      · subst hk; simp [hc]
      · have : (k ∈ k' :: r) ↔ k ∈ r := by simp [List.mem_cons, Ne.symm hk]
        simp only [hk, ↓reduceIte, ih, this]

theorem cget_finish_tail (order : List Str) (c : Config) (k : Str) :
    cget (c.filter fun p => !order.contains p.1) k = if k ∈ order then none else cget c k := by
  induction c with
  | nil => simp [cget]
  | cons p r ih =>
    obtain ⟨k', v'⟩ := p
    simp only [List.filter_cons]
    by_cases hin : k' ∈ order
    · have : order.contains k' = true := List.contains_iff_mem.mpr hin
      simp only [this, Bool.not_true, Bool.false_eq_true, ↓reduceIte, ih, cget]
      by_cases hk : k' = k
      · subst hk; simp [hin]
      · simp [hk]
    · have : order.contains k' = false := by
        cases h : order.contains k' with
        | false => rfl
        | true => exact absurd (List.contains_iff_mem.mp h) hin
      simp only [this, Bool.not_false, ↓reduceIte, cget]
      by_cases hk : k' = k
      · subst hk; simp [hin]
      · simp only [hk, ↓reduceIte, ih]

theorem cget_finish (order : List Str) (c : Config) (k : Str) : cget (finish order c) k = cget c k := by
  unfold finish
  rw [cget_append, cget_finish_head, cget_finish_tail]
  by_cases hin : k ∈ order
  · simp only [hin, ↓reduceIte]
    cases cget c k <;> rfl
  · simp [hin]

/-! ## the stages of `wire` -/

theorem stride_nonneg : 0 ≤ OF.Facts.CLI_PORT_STRIDE := by decide

/-- the ports one bound output occupies fit in one allocation step (generated facts) -/
theorem C12_stride_covers : portsPerOutput ≤ OF.Facts.CLI_PORT_STRIDE := by decide

theorem wire_stages (patched : Bool) (jv : Str → Val) (cls : Str → ClsInfo) (toks : List Str) (ipc : Bool) (st : RS)
    (h : wire patched jv cls toks ipc = .ok st) :
    ∃ fs0 pre sr, scan jv cls toks [] none = .ok fs0 ∧ prep fs0 = .ok pre ∧
      scanPorts patched pre initScan = .ok sr ∧ resolveAll patched ipc pre sr = .ok st := by
  unfold wire at h
  split at h
  · cases h
  · cases h1 : scan jv cls toks [] none with
    | error x => rw [h1] at h; cases h
    | ok fs0 =>
      rw [h1] at h; simp only [Except.bind] at h
      cases h2 : prep fs0 with
      | error x => rw [h2] at h; cases h
      | ok pre =>
        rw [h2] at h; simp only at h
        cases h3 : scanPorts patched pre initScan with
        | error x => rw [h3] at h; cases h
        | ok sr =>
          rw [h3] at h; simp only at h
          exact ⟨fs0, pre, sr, rfl, h2, h3, h⟩

/-- everything the loop invariant says about the result of `resolveAll` -/
theorem resolveAll_inv (patched ipc : Bool) (pre : List Flt) (sr : ScanRes) (st : RS)
    (hp : (ids pre).Pairwise DistinctId) (hscan : scanPorts patched pre initScan = .ok sr)
    (h : resolveAll patched ipc pre sr = .ok st) :
    Inv ipc pre sr.maxPort ((List.range pre.length).reverse ++ []) st := by
  unfold resolveAll at h
  refine resolveFrom_inv ipc pre sr.maxPort sr.nonMq stride_nonneg hp _ [] _ st List.nodup_range
    (fun _ _ hm => by cases hm) ?_ h
  refine ⟨rfl, ?_, ?_, ?_, ?_, List.Pairwise.nil, Int.le_refl _, List.Pairwise.nil, ?_, ?_, ?_, ?_,
    List.Pairwise.nil, (fun x hx => by cases hx), (fun x hx => by cases hx)⟩
  · intro i f f' h1 h2; rw [h1] at h2; cases h2; exact ⟨rfl, rfl, rfl, fun _ _ _ => rfl⟩
  · intro i f f' h1 h2; rw [h1] at h2; cases h2; exact Or.inl rfl
  · intro i f f' h1 h2 _; rw [h1] at h2; cases h2; rfl
  · intro x hx; cases hx
  · intro x hx; cases hx
  · intro id a hl
    have hmem := lookupSrc_mem _ _ _ hl
    rcases (scanPorts_spec patched pre initScan sr hscan).2.2 _ _ hmem with h0 | ⟨f, hf, h1, h2⟩
    · simp [initScan] at h0
    · exact ⟨f, hf, h1, Or.inl h2⟩
  · intro i f f' _ h1 h2; rw [h1] at h2; cases h2; rfl
  · intro i f f' hd; cases hd

theorem mem_done_range (n i : Nat) (h : i < n) : i ∈ (List.range n).reverse ++ [] := by
  simp [h]

/-! ## C12 — the property theorems -/

local notation "ppo" => portsPerOutput

theorem parseFilters_ok (patched : Bool) (jv : Str → Val) (cls : Str → ClsInfo) (order toks : List Str) (ipc : Bool)
    (r : List Flt) (h : parseFilters patched jv cls order toks ipc = .ok r) :
    ∃ st, wire patched jv cls toks ipc = .ok st ∧ r = st.fs.map fun f => { f with cfg := finish order f.cfg } := by
  unfold parseFilters at h
  cases h1 : wire patched jv cls toks ipc with
  | error x => rw [h1] at h; cases h
  | ok st =>
    rw [h1] at h
    simp only [Except.bind, pure, Except.pure, Except.ok.injEq] at h
    exact ⟨st, rfl, h.symm⟩

theorem ids_finish (order : List Str) (fs : List Flt) :
    ids (fs.map fun f => { f with cfg := finish order f.cfg }) = ids fs := by
  simp only [ids, List.map_map]
  apply List.map_congr_left
  intro f _
  simp [attr, cget_finish]

/-- the invariant for the result of `wire`, with the stages it went through -/
theorem wire_inv (patched : Bool) (jv : Str → Val) (cls : Str → ClsInfo) (toks : List Str) (ipc : Bool) (st : RS)
    (h : wire patched jv cls toks ipc = .ok st) :
    ∃ fs0 pre sr, scan jv cls toks [] none = .ok fs0 ∧ prep fs0 = .ok pre ∧
      scanPorts patched pre initScan = .ok sr ∧ (ids pre).Pairwise DistinctId ∧ (∀ x ∈ ids pre, x ≠ .null) ∧
      Inv ipc pre sr.maxPort ((List.range pre.length).reverse ++ []) st := by
  obtain ⟨fs0, pre, sr, h1, h2, h3, h4⟩ := wire_stages patched jv cls toks ipc st h
  obtain ⟨p1, p2⟩ := prep_ids fs0 pre h2
  exact ⟨fs0, pre, sr, h1, h2, h3, p1, p2, resolveAll_inv patched ipc pre sr st p1 h3 h4⟩

/-- **C12_ids_nodup**: for every argument list `parse_filters` fails or every returned config has an id (not
`None`) and no two ids are equal as Python `dict` keys. -/
theorem C12_ids_nodup (patched : Bool) (jv : Str → Val) (cls : Str → ClsInfo) (order toks : List Str) (ipc : Bool)
    (r : List Flt) (h : parseFilters patched jv cls order toks ipc = .ok r) :
    (ids r).Pairwise DistinctId ∧ ∀ x ∈ ids r, x ≠ .null := by
  obtain ⟨st, hw, rfl⟩ := parseFilters_ok _ _ _ _ _ _ _ h
  obtain ⟨fs0, pre, sr, _, _, _, p1, p2, hinv⟩ := wire_inv _ _ _ _ _ _ hw
  rw [ids_finish, hinv.ids]
  exact ⟨p1, p2⟩

/-- string ids that are distinct as `dict` keys are different strings, so `Pairwise DistinctId` is `Nodup` on them -/
theorem DistinctId_str (a b : Str) (h : DistinctId (.str a) (.str b)) : a ≠ b := by
  intro e; subst e; simp [DistinctId, keyEq] at h

/-- **C12_ports_disjoint** (behaviour with `pending_fixes/C12-port-scan.diff`): every automatically allocated port
`p` (the output occupies `p … p + portsPerOutput - 1`) is clear of every other allocated output and of every port
`u … u + portsPerOutput - 1` where `u` is named by ANY entry of ANY filter's `sources` or `outputs`
(`seenPorts`: `addr_port` of the entry — any scheme, `tcp://host` counts as 5550), and of the allocator's start.
Every allocation has a distinct owner id, and a filter's `outputs` is either what it was before the loop or the
allocated `tcp://*:p` of its own id (or, with `--ipc`, the ipc name allocated to its own id, see `C12_ipc_fresh`).
Uses `portsPerOutput ≤ CLI_PORT_STRIDE`
(`C12_stride_covers`, decided on the generated facts). -/
theorem C12_ports_disjoint (jv : Str → Val) (cls : Str → ClsInfo) (toks : List Str) (ipc : Bool) (st : RS)
    (h : wire true jv cls toks ipc = .ok st) :
    ∃ fs0 pre, scan jv cls toks [] none = .ok fs0 ∧ prep fs0 = .ok pre ∧
      (∀ x ∈ st.allocs, ∀ d d', 0 ≤ d → d < ppo → 0 ≤ d' → d' < ppo →
        (∀ f ∈ pre, ∀ u ∈ seenPorts f, x.2 + d ≠ u + d') ∧ x.2 + d ≠ OF.Facts.CLI_MAX_PORT_INIT + d') ∧
      st.allocs.Pairwise (fun a b => ∀ d d', 0 ≤ d → d < ppo → 0 ≤ d' → d' < ppo → a.2 + d ≠ b.2 + d') ∧
      st.allocs.Pairwise (fun a b => a.1 ≠ b.1) ∧
      (∀ (i : Nat) (f f' : Flt), pre[i]? = some f → st.fs[i]? = some f' →
        cget f'.cfg kOutputs = cget f.cfg kOutputs ∨
        ∃ id, attr f.cfg kId = .str id ∧
          ((∃ p, (id, p) ∈ st.allocs ∧ ipc = false ∧ cget f'.cfg kOutputs = some (.str (tcpOut p))) ∨
           (∃ nm, (id, nm) ∈ st.ipcAllocs ∧ ipc = true ∧ cget f'.cfg kOutputs = some (.str nm)))) := by
  obtain ⟨fs0, pre, sr, h1, h2, h3, _, _, hinv⟩ := wire_inv _ _ _ _ _ _ h
  obtain ⟨s1, s2, _⟩ := scanPorts_spec true pre initScan sr h3
  have hc := C12_stride_covers
  refine ⟨fs0, pre, h1, h2, ?_, ?_, hinv.owners, hinv.outs⟩
  · intro x hx d d' hd0 hd hd0' hd'
    have hb := hinv.bound x hx
    refine ⟨fun f hf u hu => ?_, ?_⟩
    · have := s2 rfl f hf u hu; omega
    · have : OF.Facts.CLI_MAX_PORT_INIT ≤ sr.maxPort := s1
      omega
  · exact hinv.apart.imp (fun {a b} hab d d' hd0 hd hd0' hd' => by omega)

/-- **C12_suffix**: whatever `resolveEntry` does to an entry, the result is the entry itself or an address followed
by exactly the entry's `?` / `;topic` / `!opt` suffix; the entry is its id part followed by that suffix. -/
theorem C12_suffix (ipc : Bool) (nonMq : List Val) (self : Val) (st st' : RS) (src e : Str)
    (h : resolveEntry ipc nonMq self st src = .ok (st', e)) :
    (e = src ∨ ∃ a, e = a ++ suffixOf src) ∧ src = onlyMq src ++ suffixOf src := by
  refine ⟨?_, (onlyMq_append_suffix src).symm⟩
  rcases resolveEntry_cases _ _ _ _ _ _ _ h with ⟨_, _, he⟩ | ⟨_, a, _, _, _, _, _, _, he⟩ |
      ⟨_, _, _, _, _, _, _, _, _, he⟩ | ⟨_, _, _, _, _, _, _, _, _, he⟩
  · exact Or.inl he
  · exact Or.inr ⟨a, he⟩
  · exact Or.inr ⟨_, he⟩
  · exact Or.inr ⟨_, he⟩

theorem unique_by_id (fs : List Flt) (hp : (ids fs).Pairwise DistinctId) (id : Str) (f g : Flt) (hf : f ∈ fs) (hg : g ∈ fs)
    (h1 : attr f.cfg kId = .str id) (h2 : attr g.cfg kId = .str id) : f = g := by
  cases hfind : findById fs id with
  | none =>
    exfalso
    exact (findById_none_iff fs id).mp hfind (List.mem_map.mpr ⟨f, hf, h1⟩)
  | some g0 =>
    rw [findById_unique fs id g0 hp hfind f hf h1, findById_unique fs id g0 hp hfind g hg h2]

/-- **C12_resolved**: for every filter, every entry of its `sources` (explicit or auto-chained) that is not an MQ
address and names a filter of the list has become `a ++ suffix` where `a` is the address recorded for that id
(`SrcOK`/`EntryOK`, entries that are addresses or name no filter are unchanged); and every recorded address `a` of
an id is bound (`Binds`: first entry of its explicit all-MQ `outputs` with wildcard hosts → `localhost`, or the
allocated `tcp://*:p` ↔ `tcp://localhost:p`, or one of the ipc names `ipc://id`, `ipc://id-2`, `ipc://id-3`, … of
that id) by the filter carrying that id, which is the only filter with that id. -/
theorem C12_resolved (patched : Bool) (jv : Str → Val) (cls : Str → ClsInfo) (toks : List Str) (ipc : Bool) (st : RS)
    (h : wire patched jv cls toks ipc = .ok st) :
    ∃ fs0 pre, scan jv cls toks [] none = .ok fs0 ∧ prep fs0 = .ok pre ∧ st.fs.length = pre.length ∧
      (∀ (i : Nat) (f f' : Flt), pre[i]? = some f → st.fs[i]? = some f' → SrcOK pre st.srcById f f') ∧
      (∀ id a, lookupSrc st.srcById id = some a →
        ∃ g ∈ st.fs, attr g.cfg kId = .str id ∧ Binds ipc (attr g.cfg kOutputs) id a ∧
          ∀ g' ∈ st.fs, attr g'.cfg kId = .str id → g' = g) := by
  obtain ⟨fs0, pre, sr, h1, h2, _, p1, _, hinv⟩ := wire_inv _ _ _ _ _ _ h
  refine ⟨fs0, pre, h1, h2, ids_length _ _ hinv.ids, ?_, ?_⟩
  · intro i f f' hpre hst
    have hlt : i < pre.length := (List.getElem?_eq_some_iff.mp hpre).1
    exact hinv.did i f f' (mem_done_range _ _ hlt) hpre hst
  · intro id a hl
    obtain ⟨g, hg, hid, hb⟩ := hinv.binds id a hl
    have hp' : (ids st.fs).Pairwise DistinctId := by rw [hinv.ids]; exact p1
    exact ⟨g, hg, hid, hb, fun g' hg' hid' => unique_by_id st.fs hp' id g' g hg' hg hid' hid⟩

theorem pairwise_mem {α : Type} {R : α → α → Prop} : ∀ {l : List α}, l.Pairwise R → ∀ a ∈ l, ∀ b ∈ l, a = b ∨ R a b ∨ R b a := by
  intro l h
  induction h with
  | nil => intro a ha; cases ha
  | cons hx _ ih =>
    intro a ha b hb
    rcases List.mem_cons.mp ha with ha1 | ha1
    · rcases List.mem_cons.mp hb with hb1 | hb1
      · exact Or.inl (ha1.trans hb1.symm)
      · exact Or.inr (Or.inl (ha1 ▸ hx b hb1))
    · rcases List.mem_cons.mp hb with hb1 | hb1
      · exact Or.inr (Or.inr (hb1 ▸ hx a ha1))
      · exact ih a ha1 b hb1

/-- the repaired behaviour (`wire true`): the stages, the loop invariant and the `ipc_addrs` invariant, with
`ipc_addrs` after the scan characterised as the `ipc://` endpoints named in any `sources`/`outputs` entry -/
theorem wire_ipc_inv (jv : Str → Val) (cls : Str → ClsInfo) (toks : List Str) (ipc : Bool) (st : RS)
    (h : wire true jv cls toks ipc = .ok st) :
    ∃ (fs0 pre : List Flt) (sr : ScanRes), scan jv cls toks [] none = .ok fs0 ∧ prep fs0 = .ok pre ∧
      Inv ipc pre sr.maxPort ((List.range pre.length).reverse ++ []) st ∧ IpcInv sr.ipcUsed st ∧
      ∀ u, u ∈ sr.ipcUsed ↔ ∃ f ∈ pre, u ∈ userIpc f := by
  obtain ⟨fs0, pre, sr, h1, h2, h3, h4⟩ := wire_stages true jv cls toks ipc st h
  obtain ⟨p1, _⟩ := prep_ids fs0 pre h2
  refine ⟨fs0, pre, sr, h1, h2, resolveAll_inv true ipc pre sr st p1 h3 h4, resolveAll_ipcInv ipc pre sr st h4, fun u => ?_⟩
  rw [scanPorts_ipcUsed pre initScan sr h3 u]
  simp [initScan]

/-- **C12_ipc_fresh** (behaviour with `pending_fixes/C12-ipc-name-clash.diff`; every command line, `--ipc` or not):
every ipc name the CLI allocates (`st.ipcAllocs`: `(id, name)`, newest first) differs from every `ipc://` endpoint the
user named — `userIpc f`: every entry of any filter's `sources` or `outputs` that starts with `ipc://`, topic/option
suffix stripped by `only_mq_addr` — and from every name allocated earlier; every allocation has a distinct owner id;
the name is one of `ipc://id`, `ipc://id-2`, `ipc://id-3`, … of its owner's id, and it is plain `ipc://id` (the pinned
behaviour) unless that very name was named by the user or already allocated; and a filter's `outputs` after the loop
is what it was before, or the address allocated to its own id. -/
theorem C12_ipc_fresh (jv : Str → Val) (cls : Str → ClsInfo) (toks : List Str) (ipc : Bool) (st : RS)
    (h : wire true jv cls toks ipc = .ok st) :
    ∃ fs0 pre, scan jv cls toks [] none = .ok fs0 ∧ prep fs0 = .ok pre ∧
      (∀ x ∈ st.ipcAllocs, ∀ f ∈ pre, x.2 ∉ userIpc f) ∧
      st.ipcAllocs.Pairwise (fun a b => a.2 ≠ b.2) ∧
      st.ipcAllocs.Pairwise (fun a b => a.1 ≠ b.1) ∧
      (∀ x ∈ st.ipcAllocs, ∃ k, x.2 = ipcCand x.1 k) ∧
      (∀ x ∈ st.ipcAllocs, x.2 = sIpc ++ x.1 ∨ (∃ f ∈ pre, sIpc ++ x.1 ∈ userIpc f) ∨ ∃ y ∈ st.ipcAllocs, y.2 = sIpc ++ x.1) ∧
      (∀ (i : Nat) (f f' : Flt), pre[i]? = some f → st.fs[i]? = some f' →
        cget f'.cfg kOutputs = cget f.cfg kOutputs ∨
        ∃ id, attr f.cfg kId = .str id ∧
          ((∃ p, (id, p) ∈ st.allocs ∧ ipc = false ∧ cget f'.cfg kOutputs = some (.str (tcpOut p))) ∨
           (∃ nm, (id, nm) ∈ st.ipcAllocs ∧ ipc = true ∧ cget f'.cfg kOutputs = some (.str nm)))) := by
  obtain ⟨fs0, pre, sr, h1, h2, hinv, hipc, hu⟩ := wire_ipc_inv _ _ _ _ _ h
  refine ⟨fs0, pre, h1, h2, ?_, hipc.distinct, hinv.ipcOwners, hinv.ipcShape, ?_, hinv.outs⟩
  · intro x hx f hf hm
    exact hipc.fresh x hx ((hu _).mpr ⟨f, hf, hm⟩)
  · intro x hx
    rcases hipc.forced x hx with h3 | h3 | h3
    · exact Or.inl h3
    · exact Or.inr (Or.inl ((hu _).mp h3))
    · exact Or.inr (Or.inr h3)

theorem ipcCand_ne_tcpOut (id : Str) (k : Nat) (p : Int) : tcpOut p ≠ ipcCand id k := by
  cases k <;> simp [ipcCand, tcpOut, sTcp, sIpc]

/-- **C12_bound_once_partial** ("exactly one filter binds the address", as far as it holds).
For both scans: an id owns at most one allocated tcp port and at most one allocated ipc name, and the ports
allocated to different ids are at least `CLI_PORT_STRIDE ≥ portsPerOutput` apart, so no two filters are *given*
overlapping tcp outputs (and by `C12_ports_disjoint` none overlaps a port the user named).
With `pending_fixes/C12-ipc-name-clash.diff` (`patched = true`) the `--ipc` case is proved as well: names allocated to
different ids differ, no allocated name is an `ipc://` endpoint the user named anywhere (`C12_ipc_fresh`), hence for
the filter `fi` that was given the name `nm` every filter carrying another id either kept the `outputs` it had before
the loop, none of whose `ipc://` endpoints is `nm`, or was itself allocated a different address.
EXCLUDED, explicitly: (i) the binder is required to be of a class that can feed filters (`fi.canOut = true`): a source
naming an output-only filter (Webvis, VideoOut, …) still makes the CLI give it `outputs`, which the class rejects at
start-up — known finding `bound-by-output-only-filter`, witness below; (ii) the user can give the same explicit
address to two filters himself, which is passed through verbatim (`C12_passthrough`).  The pinned allocator
(`patched = false`) had the ipc clash: witness below. -/
theorem C12_bound_once_partial (patched : Bool) (jv : Str → Val) (cls : Str → ClsInfo) (toks : List Str) (ipc : Bool) (st : RS)
    (h : wire patched jv cls toks ipc = .ok st) :
    (∀ x ∈ st.allocs, ∀ y ∈ st.allocs,
      (x.1 = y.1 → x = y) ∧ (x.1 ≠ y.1 → x.2 + OF.Facts.CLI_PORT_STRIDE ≤ y.2 ∨ y.2 + OF.Facts.CLI_PORT_STRIDE ≤ x.2)) ∧
    (∀ x ∈ st.ipcAllocs, ∀ y ∈ st.ipcAllocs, x.1 = y.1 → x = y) ∧
    (patched = true → ∃ fs0 pre, scan jv cls toks [] none = .ok fs0 ∧ prep fs0 = .ok pre ∧
      (∀ x ∈ st.ipcAllocs, ∀ y ∈ st.ipcAllocs, x.1 ≠ y.1 → x.2 ≠ y.2) ∧
      (∀ x ∈ st.ipcAllocs, ∀ f ∈ pre, x.2 ∉ userIpc f) ∧
      ∀ (i j : Nat) (fi fi' fj fj' : Flt) (id nm : Str),
        pre[i]? = some fi → st.fs[i]? = some fi' → pre[j]? = some fj → st.fs[j]? = some fj' →
        fi.canOut = true → attr fi.cfg kId = .str id → (id, nm) ∈ st.ipcAllocs →
        cget fi'.cfg kOutputs = some (.str nm) → attr fj.cfg kId ≠ .str id →
        (cget fj'.cfg kOutputs = cget fj.cfg kOutputs ∧ nm ∉ userIpc fj) ∨
        ∃ a, cget fj'.cfg kOutputs = some (.str a) ∧ a ≠ nm) := by
  obtain ⟨_, _, _, _, _, _, _, _, hinv⟩ := wire_inv _ _ _ _ _ _ h
  have hone : ∀ x ∈ st.ipcAllocs, ∀ y ∈ st.ipcAllocs, x.1 = y.1 → x = y := by
    intro x hx y hy he
    rcases pairwise_mem hinv.ipcOwners x hx y hy with h1 | h1 | h1
    · exact h1
    · exact absurd he h1
    · exact absurd he.symm h1
  refine ⟨?_, hone, ?_⟩
  · intro x hx y hy
    constructor
    · intro he
      rcases pairwise_mem hinv.owners x hx y hy with h1 | h1 | h1
      · exact h1
      · exact absurd he h1
      · exact absurd he.symm h1
    · intro hne
      rcases pairwise_mem hinv.apart x hx y hy with h1 | h1 | h1
      · exact absurd (congrArg Prod.fst h1) hne
      · exact Or.inr h1
      · exact Or.inl h1
  · intro hpt
    subst hpt
    obtain ⟨fs0, pre, h1, h2, hfresh, hdist, _, hshape, _, houts⟩ := C12_ipc_fresh _ _ _ _ _ h
    have hdiff : ∀ x ∈ st.ipcAllocs, ∀ y ∈ st.ipcAllocs, x.1 ≠ y.1 → x.2 ≠ y.2 := by
      intro x hx y hy hne
      rcases pairwise_mem hdist x hx y hy with h3 | h3 | h3
      · exact absurd (congrArg Prod.fst h3) hne
      · exact h3
      · exact fun e => h3 e.symm
    refine ⟨fs0, pre, h1, h2, hdiff, hfresh, ?_⟩
    intro i j fi fi' fj fj' id nm hpi _ hpj hsj _ _ hmem _ hne
    rcases houts j fj fj' hpj hsj with h3 | ⟨id', hid', h3⟩
    · exact Or.inl ⟨h3, hfresh _ hmem fj (List.mem_of_getElem? hpj)⟩
    · right
      rcases h3 with ⟨p, _, _, h4⟩ | ⟨nm', hm', _, h4⟩
      · obtain ⟨k, hk⟩ := hshape _ hmem
        have hk' : nm = ipcCand id k := hk
        exact ⟨_, h4, by rw [hk']; exact ipcCand_ne_tcpOut _ _ _⟩
      · refine ⟨nm', h4, ?_⟩
        have := hdiff _ hm' _ hmem (by
          intro e
          apply hne
          rw [hid']
          exact congrArg Val.str e)
        exact this

/-! ## passthrough: what survives from the scanned options -/

/-- what a later stage keeps of a filter `f0` -/
structure Kept (f0 f : Flt) : Prop where
  cls : f.cls = f0.cls
  name : f.name = f0.name
  canOut : f.canOut = f0.canOut
  other : ∀ k, k ≠ kId → k ≠ kSources → k ≠ kOutputs → cget f.cfg k = cget f0.cfg k
  id : ∀ v, cget f0.cfg kId = some v → v ≠ .null → cget f.cfg kId = some v
  outputs : ∀ v, cget f0.cfg kOutputs = some v → v ≠ .bool true → truthy v = true → cget f.cfg kOutputs = some v
  sources : ∀ v, cget f0.cfg kSources = some v → v ≠ .bool true → truthy v = true → cget f.cfg kSources = some v

theorem Kept.refl (f : Flt) : Kept f f :=
  ⟨rfl, rfl, rfl, fun _ _ _ _ => rfl, fun _ h _ => h, fun _ h _ _ => h, fun _ h _ _ => h⟩

theorem Kept.trans {a b c : Flt} (h1 : Kept a b) (h2 : Kept b c) : Kept a c :=
  ⟨h2.cls.trans h1.cls, h2.name.trans h1.name, h2.canOut.trans h1.canOut,
   fun k x y z => (h2.other k x y z).trans (h1.other k x y z),
   fun v h n => h2.id v (h1.id v h n) n,
   fun v h n t => h2.outputs v (h1.outputs v h n t) n t,
   fun v h n t => h2.sources v (h1.sources v h n t) n t⟩

theorem cget_fixTrue_ne (c : Config) (k k' : Str) (h : k' ≠ k) : cget (fixTrue c k) k' = cget c k' := by
  unfold fixTrue; split
  · exact cget_cset_ne _ _ _ _ h
  · rfl

theorem cget_fixTrue_self (c : Config) (k : Str) (v : Val) (h : cget c k = some v) (hv : v ≠ .bool true) :
    cget (fixTrue c k) k = some v := by
  unfold fixTrue; split
  · rename_i h'; rw [h] at h'; cases h'; exact absurd rfl hv
  · exact h

theorem fix_kept (f : Flt) : Kept f { f with cfg := fixTrue (fixTrue f.cfg kSources) kOutputs } := by
  refine ⟨rfl, rfl, rfl, ?_, ?_, ?_, ?_⟩
  · intro k _ h2 h3; simp only [cget_fixTrue_ne _ _ _ h3, cget_fixTrue_ne _ _ _ h2]
  · intro v h _; simp only [cget_fixTrue_ne _ _ _ kId_ne_kOutputs, cget_fixTrue_ne _ _ _ kId_ne_kSources]; exact h
  · intro v h hv _
    exact cget_fixTrue_self _ _ v (by rw [cget_fixTrue_ne _ _ _ (Ne.symm kSources_ne_kOutputs)]; exact h) hv
  · intro v h hv _
    rw [cget_fixTrue_ne _ _ _ kSources_ne_kOutputs]
    exact cget_fixTrue_self _ _ v h hv

theorem setId_kept (f : Flt) (nid : Str) (h : noId f = true) : Kept f { f with cfg := cset f.cfg kId (.str nid) } := by
  refine ⟨rfl, rfl, rfl, ?_, ?_, ?_, ?_⟩
  · intro k h1 _ _; exact cget_cset_ne _ _ _ _ h1
  · intro v hv hn
    exfalso
    have : attr f.cfg kId = .null := by simpa [noId] using h
    simp only [attr, hv, Option.getD_some] at this
    exact hn this
  · intro v hv _ _; simp only [cget_cset_ne _ _ _ _ (Ne.symm kId_ne_kOutputs)]; exact hv
  · intro v hv _ _; simp only [cget_cset_ne _ _ _ _ (Ne.symm kId_ne_kSources)]; exact hv

theorem assignIds_get (all : List Flt) : ∀ (fs before : List Flt) (i : Nat) (f' : Flt),
    (assignIds all fs before)[i]? = some f' → ∃ f, fs[i]? = some f ∧ Kept f f' := by
  intro fs
  induction fs with
  | nil => intro before i f' h; simp [assignIds] at h
  | cons f r ih =>
    intro before i f' h
    cases i with
    | zero =>
      simp only [assignIds, List.getElem?_cons_zero, Option.some.injEq] at h
      refine ⟨f, rfl, ?_⟩
      rw [← h]
      split
      · rename_i hn; exact setId_kept f _ hn
      · exact Kept.refl f
    | succ i =>
      simp only [assignIds, List.getElem?_cons_succ] at h
      exact ih _ i f' h

theorem assignIds_length (all : List Flt) : ∀ (fs before : List Flt), (assignIds all fs before).length = fs.length := by
  intro fs
  induction fs with
  | nil => intro _; rfl
  | cons f r ih => intro before; simp [assignIds, ih]

theorem chainStep_kept (last : Val) (f : Flt) : Kept f (chainStep last f).1 := by
  refine ⟨(chainStep_meta last f).1, (chainStep_meta last f).2.1, (chainStep_meta last f).2.2, ?_, ?_, ?_, ?_⟩
  · intro k _ h2 h3; exact chainStep_cget last f k h2 h3
  · intro v h _; rw [chainStep_cget last f kId kId_ne_kSources kId_ne_kOutputs]; exact h
  · intro v h _ ht
    simp only [chainStep]
    have h1 : cget (if (truthy last && !chas f.cfg kSources) = true then cset f.cfg kSources last else f.cfg) kOutputs = some v := by
      rw [cget_ite_cset _ _ _ _ _ (Ne.symm kSources_ne_kOutputs)]; exact h
    generalize (if (truthy last && !chas f.cfg kSources) = true then cset f.cfg kSources last else f.cfg) = c1 at h1 ⊢
    have h2 : cget (if (chas c1 kSources && !truthy (attr c1 kSources)) = true then cdel c1 kSources else c1) kOutputs = some v := by
      rw [cget_ite_cdel _ _ _ _ (Ne.symm kSources_ne_kOutputs)]; exact h1
    generalize (if (chas c1 kSources && !truthy (attr c1 kSources)) = true then cdel c1 kSources else c1) = c2 at h2 ⊢
    have : truthy (attr c2 kOutputs) = true := by simp [attr, h2, ht]
    simp [this, h2]
  · intro v h _ ht
    simp only [chainStep]
    have hc : chas f.cfg kSources = true := by simp [chas, h]
    simp only [hc, Bool.not_true, Bool.and_false, Bool.false_eq_true, ↓reduceIte]
    have : truthy (attr f.cfg kSources) = true := by simp [attr, h, ht]
    simp only [this, Bool.not_true, Bool.and_false, Bool.false_eq_true, ↓reduceIte]
    rw [cget_ite_cdel _ _ _ _ kSources_ne_kOutputs]; exact h

theorem chain_get : ∀ (fs : List Flt) (last : Val) (i : Nat) (f' : Flt),
    (chain fs last)[i]? = some f' → ∃ f, fs[i]? = some f ∧ Kept f f' := by
  intro fs
  induction fs with
  | nil => intro last i f' h; simp [chain] at h
  | cons f r ih =>
    intro last i f' h
    cases i with
    | zero =>
      simp only [chain, List.getElem?_cons_zero, Option.some.injEq] at h
      exact ⟨f, rfl, h ▸ chainStep_kept last f⟩
    | succ i =>
      simp only [chain, List.getElem?_cons_succ] at h
      exact ih _ i f' h

theorem prep_kept (fs0 pre : List Flt) (h : prep fs0 = .ok pre) :
    pre.length = fs0.length ∧ ∀ (i : Nat) (f : Flt), pre[i]? = some f → ∃ f0, fs0[i]? = some f0 ∧ Kept f0 f := by
  unfold prep at h
  simp only at h
  split at h
  · cases h
  · cases hd : dupCheck (assignIds _ _ []) [] with
    | error e => rw [hd] at h; cases h
    | ok u =>
      rw [hd] at h
      simp only [Except.bind, pure, Except.pure, Except.ok.injEq] at h
      subst h
      refine ⟨by simp [chain_length, assignIds_length], fun i f hf => ?_⟩
      obtain ⟨f2, h2, k2⟩ := chain_get _ _ i f hf
      obtain ⟨f1, h1, k1⟩ := assignIds_get _ _ _ i f2 h2
      rw [List.getElem?_map] at h1
      cases h0 : fs0[i]? with
      | none => rw [h0] at h1; cases h1
      | some f0 =>
        rw [h0] at h1
        simp only [Option.map_some, Option.some.injEq] at h1
        exact ⟨f0, rfl, ((h1 ▸ fix_kept f0).trans k1).trans k2⟩

/-- **C12_passthrough**: relative to the options as scanned from the command line (`scan`), the returned configs keep
the class and name, every option other than `id`/`sources`/`outputs` with its value, an explicit `id`, explicit
non-empty `outputs` verbatim, and of explicit non-empty `sources` every entry that is an MQ address or names no
filter of the list verbatim (a `sources` with no entries is returned as written; otherwise the entries are re-joined
with `", "`). -/
theorem C12_passthrough (patched : Bool) (jv : Str → Val) (cls : Str → ClsInfo) (order toks : List Str) (ipc : Bool)
    (r : List Flt) (h : parseFilters patched jv cls order toks ipc = .ok r) :
    ∃ fs0, scan jv cls toks [] none = .ok fs0 ∧ r.length = fs0.length ∧
      ∀ (i : Nat) (f' : Flt), r[i]? = some f' → ∃ f0, fs0[i]? = some f0 ∧
        f'.cls = f0.cls ∧ f'.name = f0.name ∧
        (∀ k, k ≠ kId → k ≠ kSources → k ≠ kOutputs → cget f'.cfg k = cget f0.cfg k) ∧
        (∀ v, cget f0.cfg kId = some v → v ≠ .null → cget f'.cfg kId = some v) ∧
        (∀ v, cget f0.cfg kOutputs = some v → v ≠ .bool true → truthy v = true → cget f'.cfg kOutputs = some v) ∧
        (∀ s, cget f0.cfg kSources = some (.str s) → s ≠ [] →
          match splitCommas s with
          | [] => cget f'.cfg kSources = some (.str s)
          | e :: es => ∃ es', cget f'.cfg kSources = some (.str (joinWith sepCommaSpace es')) ∧
              All₂ (fun e e' => (isMq e = true ∨ Val.str (onlyMq e) ∉ ids r) → e' = e) (e :: es) es') := by
  obtain ⟨st, hw, rfl⟩ := parseFilters_ok _ _ _ _ _ _ _ h
  obtain ⟨fs0, pre, sr, h1, h2, _, _, _, hinv⟩ := wire_inv _ _ _ _ _ _ hw
  obtain ⟨hlen, hk⟩ := prep_kept fs0 pre h2
  have hl2 := ids_length _ _ hinv.ids
  refine ⟨fs0, h1, by simp only [List.length_map]; omega, fun i f' hf' => ?_⟩
  rw [List.getElem?_map] at hf'
  cases hs : st.fs[i]? with
  | none => rw [hs] at hf'; cases hf'
  | some f1 =>
    rw [hs] at hf'
    simp only [Option.map_some, Option.some.injEq] at hf'
    subst hf'
    obtain ⟨f, hpre⟩ := inv_pre_get _ _ _ _ _ hinv i f1 hs
    obtain ⟨f0, h0, kept⟩ := hk i f hpre
    obtain ⟨m1, m2, _, m4⟩ := hinv.same i f f1 hpre hs
    have hlt : i < pre.length := (List.getElem?_eq_some_iff.mp hpre).1
    refine ⟨f0, h0, m1.trans kept.cls, m2.trans kept.name, ?_, ?_, ?_, ?_⟩
    · intro k a b c; simp only [cget_finish]; rw [m4 k b c]; exact kept.other k a b c
    · intro v hv hn; simp only [cget_finish]; rw [m4 kId kId_ne_kSources kId_ne_kOutputs]; exact kept.id v hv hn
    · intro v hv hn ht
      simp only [cget_finish]
      have hp := kept.outputs v hv hn ht
      have : truthy (attr f.cfg kOutputs) = true := by simp [attr, hp, ht]
      rw [hinv.keep i f f1 hpre hs this]; exact hp
    · intro s hv hne
      have hp := kept.sources (.str s) hv (by intro e; cases e) (by simp [truthy, hne])
      have hsrc := hinv.did i f f1 (mem_done_range _ _ hlt) hpre hs
      unfold SrcOK at hsrc
      have ha : attr f.cfg kSources = .str s := by simp [attr, hp]
      rw [ha] at hsrc
      simp only at hsrc
      simp only [cget_finish]
      split
      · rename_i hsp; rw [hsp] at hsrc; simp only at hsrc; rw [hsrc]; exact hp
      · rename_i e es hsp
        rw [hsp] at hsrc
        simp only at hsrc
        obtain ⟨es', e1, e2⟩ := hsrc
        refine ⟨es', e1, forall₂_imp (fun a b hab hcond => hab.1 ?_) e2⟩
        rcases hcond with hc | hc
        · exact Or.inl hc
        · right
          rw [findById_none_iff, ← hinv.ids]
          rw [ids_finish] at hc
          exact hc

/-! ## non-vacuity and negative witnesses (concrete command lines, checked by kernel evaluation) -/

section Witness

def T (s : String) : Str := s.toList
def jv0 : Str → Val := fun s => .str s
def cls0 (t : Str) : ClsInfo := if t = T "Webvis" then .ok t false else .ok t true
def order0 : List Str := [kId, kSources, kOutputs]

/-- `openfilter run - VideoIn --sources file://a.mp4 - Util - Webvis --outputs http://0.0.0.0:5552` -/
def demo : List Str :=
  ["VideoIn", "--sources", "file://a.mp4", "-", "Util", "-", "Webvis", "--outputs", "http://0.0.0.0:5552"].map T

def view (r : Except Exn (List Flt)) : Option (List (Val × Val × Val)) :=
  r.toOption.map fun fs => fs.map fun f => (attr f.cfg kId, attr f.cfg kSources, attr f.cfg kOutputs)

/-- non-vacuity of all theorems: the patched behaviour on the defect's command line — two allocations, both above
the user's 5552/5553, sources resolved to the allocated addresses, explicit values verbatim -/
example : view (parseFilters true jv0 cls0 order0 demo false) = some
    [(.str (T "VideoIn"), .str (T "file://a.mp4"), .str (T "tcp://*:5554")),
     (.str (T "Util"), .str (T "tcp://localhost:5554"), .str (T "tcp://*:5556")),
     (.str (T "Webvis"), .str (T "tcp://localhost:5556"), .str (T "http://0.0.0.0:5552"))] := by decide +kernel

example : (wire true jv0 cls0 demo false).toOption.map (·.allocs) = some [(T "Util", 5556), (T "VideoIn", 5554)] := by
  decide +kernel

/-- NEGATIVE WITNESS (pinned behaviour, `patched = false`): the scan skips the port of the non-MQ output, Util is
given `tcp://*:5552` — the very port `addr_port` reads from the user's `http://0.0.0.0:5552`.  So the conclusion of
`C12_ports_disjoint` is false for the pinned scan. -/
example : view (parseFilters false jv0 cls0 order0 demo false) = some
    [(.str (T "VideoIn"), .str (T "file://a.mp4"), .str (T "tcp://*:5550")),
     (.str (T "Util"), .str (T "tcp://localhost:5550"), .str (T "tcp://*:5552")),
     (.str (T "Webvis"), .str (T "tcp://localhost:5552"), .str (T "http://0.0.0.0:5552"))] := by decide +kernel

example : addrPort (T "http://0.0.0.0:5552") = some 5552 ∧
    (wire false jv0 cls0 demo false).toOption.map (fun st => st.allocs.map (·.2)) = some [5552, 5550] := by decide +kernel

/-- suffixes are carried over: `- VideoIn - Util --sources VideoIn;main?,VideoIn!opt` -/
example : view (parseFilters true jv0 cls0 order0 (["VideoIn", "-", "Util", "--sources", "VideoIn;main?,VideoIn!opt"].map T) false) = some
    [(.str (T "VideoIn"), .null, .str (T "tcp://*:5550")),
     (.str (T "Util"), .str (T "tcp://localhost:5550;main?, tcp://localhost:5550!opt"), .null)] := by decide +kernel

/-- wildcard hosts map to `localhost`, same port; explicit outputs verbatim -/
example : view (parseFilters true jv0 cls0 order0 (["VideoIn", "--outputs=tcp://0.0.0.0:6000", "-", "Util"].map T) false) = some
    [(.str (T "VideoIn"), .null, .str (T "tcp://0.0.0.0:6000")),
     (.str (T "Util"), .str (T "tcp://localhost:6000"), .null)] := by decide +kernel

/-- duplicate ids are rejected -/
example : (match parseFilters true jv0 cls0 order0 (["Util", "--id", "a", "-", "Util", "--id=a"].map T) false with
    | .error e => some e | .ok _ => none) = some .valueError := by
  decide +kernel

/-- FINDING `bound-by-output-only-filter` (unchanged by the patches; the exclusion `fi.canOut = true` of
`C12_bound_once_partial`): a source naming an output-only filter (`cls0`: Webvis has `canOut = false`) makes the CLI
give that filter a `tcp://` output which its class rejects at start-up -/
example : view (parseFilters true jv0 cls0 order0
    (["VideoIn", "--sources", "file://a", "-", "Webvis", "-", "Util", "--sources", "Webvis"].map T) false) = some
    [(.str (T "VideoIn"), .str (T "file://a"), .str (T "tcp://*:5550")),
     (.str (T "Webvis"), .str (T "tcp://localhost:5550"), .str (T "tcp://*:5552")),
     (.str (T "Util"), .str (T "tcp://localhost:5552"), .null)] := by decide +kernel

/-- `openfilter run --ipc - VideoIn --outputs ipc://Util - Util - Webvis` -/
def ipcDemo : List Str := ["VideoIn", "--outputs", "ipc://Util", "-", "Util", "-", "Webvis"].map T

/-- FIXED FINDING (`--ipc`, was `auto-ipc-clashes-user-ipc`), both behaviours on the same command line.
NEGATIVE WITNESS (pinned behaviour, `patched = false`): the allocator hands out `ipc://Util` although VideoIn binds it
by the user's own `--outputs` — two filters bind `ipc://Util` and Util is wired to itself; the conclusions of
`C12_ipc_fresh` and of the ipc part of `C12_bound_once_partial` are false for the pinned allocator. -/
example : view (parseFilters false jv0 cls0 order0 ipcDemo true) = some
    [(.str (T "VideoIn"), .null, .str (T "ipc://Util")),
     (.str (T "Util"), .str (T "ipc://Util"), .str (T "ipc://Util")),
     (.str (T "Webvis"), .str (T "ipc://Util"), .null)] := by decide +kernel

example : (wire false jv0 cls0 ipcDemo true).toOption.map (fun st => (st.ipcAllocs, st.ipcUsed)) =
    some ([(T "Util", T "ipc://Util")], none) ∧
    ((scan jv0 cls0 ipcDemo [] none).bind prep).toOption.map (fun pre => pre.map userIpc) =
      some [[T "ipc://Util"], [], []] := by decide +kernel

/-- … and the repaired behaviour (`patched = true`): `ipc://Util` is in `ipc_addrs`, Util gets `ipc://Util-2`, every
address has one binder (non-vacuity of `C12_ipc_fresh` and of the ipc part of `C12_bound_once_partial`) -/
example : view (parseFilters true jv0 cls0 order0 ipcDemo true) = some
    [(.str (T "VideoIn"), .null, .str (T "ipc://Util")),
     (.str (T "Util"), .str (T "ipc://Util"), .str (T "ipc://Util-2")),
     (.str (T "Webvis"), .str (T "ipc://Util-2"), .null)] := by decide +kernel

example : (wire true jv0 cls0 ipcDemo true).toOption.map (fun st => (st.ipcAllocs, st.ipcUsed)) =
    some ([(T "Util", T "ipc://Util-2")], some [T "ipc://Util-2", T "ipc://Util"]) := by decide +kernel

/-- the search: suffixes are stripped before the comparison, `-2` taken by the user → `-3`; an allocated name is
taken for later allocations (`Util-2` is a filter id here); without a clash the names are the pinned `ipc://<id>` -/
example : view (parseFilters true jv0 cls0 order0
    (["VideoIn", "--outputs", "ipc://Util;t,ipc://Util-2", "-", "Util", "-", "Webvis"].map T) true) = some
    [(.str (T "VideoIn"), .null, .str (T "ipc://Util;t,ipc://Util-2")),
     (.str (T "Util"), .str (T "ipc://Util"), .str (T "ipc://Util-3")),
     (.str (T "Webvis"), .str (T "ipc://Util-3"), .null)] := by decide +kernel

example : view (parseFilters true jv0 cls0 order0
    (["VideoIn", "--sources", "ipc://Util!x", "-", "Util", "-", "Util", "--id", "Util-2", "-", "Webvis", "--sources", "Util-2,Util"].map T) true) = some
    [(.str (T "VideoIn"), .str (T "ipc://Util!x"), .str (T "ipc://VideoIn")),
     (.str (T "Util"), .str (T "ipc://VideoIn"), .str (T "ipc://Util-2")),
     (.str (T "Util-2"), .str (T "ipc://Util-2"), .str (T "ipc://Util-2-2")),
     (.str (T "Webvis"), .str (T "ipc://Util-2-2, ipc://Util-2"), .null)] := by decide +kernel

example : view (parseFilters true jv0 cls0 order0 (["VideoIn", "-", "Util", "-", "Webvis"].map T) true) =
    view (parseFilters false jv0 cls0 order0 (["VideoIn", "-", "Util", "-", "Webvis"].map T) true) ∧
    view (parseFilters true jv0 cls0 order0 (["VideoIn", "-", "Util", "-", "Webvis"].map T) true) = some
    [(.str (T "VideoIn"), .null, .str (T "ipc://VideoIn")),
     (.str (T "Util"), .str (T "ipc://VideoIn"), .str (T "ipc://Util")),
     (.str (T "Webvis"), .str (T "ipc://Util"), .null)] := by decide +kernel

/-- the loop's candidates and its result on a set where the first three are taken -/
example : ipcCand (T "Util") 0 = T "ipc://Util" ∧ ipcCand (T "Util") 1 = T "ipc://Util-2" ∧ ipcCand (T "Util") 9 = T "ipc://Util-10" ∧
    pickIpc [T "ipc://Util-3", T "ipc://Util", T "ipc://q", T "ipc://Util-2"] (T "Util") = T "ipc://Util-4" := by decide +kernel

/-- the option forms of `parse_param_value` -/
example : parseParam jv0 (T "fps=15") (some (T "-")) = .set (T "fps") (.str (T "15")) ∧
    parseParam jv0 (T "fps") (some (T "15")) = .setNext (T "fps") ∧
    parseParam jv0 (T "no-sync") (some (T "--x")) = .set (T "sync") (.bool false) ∧
    parseParam jv0 (T "loop") none = .set (T "loop") (.bool true) ∧
    parseParam jv0 (T "sources=") (some (T "x")) = .nothing := by decide +kernel

end Witness

end OF.Cli
