import OFProps.JoinInv
/-!
# Join completeness for MULTI-TOPIC blocks (C03 stage A1, general form) — definitions and receiver lemmas

A publisher emits, for each id `k` of a strictly increasing id list, one *block*: the topic messages of its topic list
`ts` (distinct, non-empty names; `ZMQSender.send_maybe` sends them in dict order, hidden `_x` topics with frame `_x/`
instead of `/x/`), each carrying `topics = ts` in its envelope, followed by the heartbeat `//` with `topics = ts`.
What reaches the SUB queue of a subscriber is the block filtered by the ZeroMQ prefix subscriptions:
* all topics (`addr`):        every non-hidden topic message and the heartbeat (prefix `/`);
* everything (`addr;*`):      every message (prefix ``);
* explicit (`addr;a,b>x`):    the heartbeat (prefix `//`), every subscribed topic, and possibly topic messages that were
                              NOT asked for but match a subscribed prefix (`/a/` matches the frame of topic `a/b`) —
                              the receiver blanks those (`effTopic`) and they must neither complete nor spoil the set.
`IsBlock` states exactly this (it does not even need the send order or the absence of duplicates inside a block).
-/
namespace OF.Recv

/-- one publisher and the way the consumer subscribes to it -/
structure PubSpec where
  ts     : List Topic              -- topics of every block, in send order
  ids    : List Int                -- ids published
  wires  : List Wire               -- the complete wire stream as it reaches this subscriber
  subAll : Bool                    -- `Sender.recvd_new is None`
  star   : Bool                    -- `*`
  subs   : List (Topic × Topic)    -- explicit (src, dst) mappings

namespace PubSpec

/-- the topic `recv_once` works with after the "never deliver a topic which was not asked for" blanking -/
def eff (p : PubSpec) (w : Wire) : Topic := effTopic p.subAll p.subs (decodeTopic w.frame0)

/-- the subscription asks for topic `t` -/
def wanted (p : PubSpec) (t : Topic) : Bool :=
  if p.subAll then (p.star || !t.startsWith "_") else p.subs.any (fun q => q.1 == t)

/-- the keys of the source's `recvd` dict while it assembles a block (after `init_recvd` / pruning), in dict order:
**the subscribed topics of a block** -/
def keys (p : PubSpec) : List Topic :=
  if p.subAll then p.ts.filter (fun t => p.star || !t.startsWith "_")
  else (p.subs.map (·.1)).filter (fun t => p.ts.contains t)

/-- name under which topic `t` is handed on (`topic_map.get(topic, topic)`) -/
def dst (p : PubSpec) (t : Topic) : Topic := ((p.subs.find? (fun q => q.1 == t)).map (·.2)).getD t

theorem mem_keys (p : PubSpec) (t : Topic) : t ∈ p.keys ↔ t ∈ p.ts ∧ p.wanted t = true := by
  unfold keys wanted
  by_cases h : p.subAll = true
  · simp [h]
  · have h' : p.subAll = false := by simpa using h
    simp only [h', Bool.false_eq_true, ↓reduceIte, List.mem_filter, List.mem_map, List.contains_iff_mem,
      List.any_eq_true, beq_iff_eq]
    constructor
    · rintro ⟨⟨q, hq, rfl⟩, h2⟩; exact ⟨h2, q, hq, rfl⟩
    · rintro ⟨h2, q, hq, rfl⟩; exact ⟨⟨q, hq, rfl⟩, h2⟩

end PubSpec

/-- block of id `k` as delivered to the subscriber described by `p` -/
structure IsBlock (p : PubSpec) (k : Int) (b : List Wire) : Prop where
  /-- topic messages, then the heartbeat; every topic message is one of the block's topics, every wanted topic of the
  block is there, and an all-topics / `*` subscription receives nothing it does not want -/
  shape : ∃ tm h, b = tm ++ [h] ∧ decodeTopic h.frame0 = "" ∧
      (∀ w ∈ tm, decodeTopic w.frame0 ∈ p.ts) ∧
      (∀ t ∈ p.ts, p.wanted t = true → ∃ w ∈ tm, decodeTopic w.frame0 = t) ∧
      (p.subAll = true → ∀ w ∈ tm, p.wanted (decodeTopic w.frame0) = true)
  /-- envelope: every message of the block carries the id and the topic list, none is load-balanced -/
  env : ∀ w ∈ b, w.mid = k ∧ w.topics = p.ts ∧ w.bal = 0

/-- the wire stream of a multi-topic publisher for the id list `ids` -/
inductive MStream (p : PubSpec) : List Int → List Wire → Prop
  | nil : MStream p [] []
  | cons {k : Int} {ks : List Int} {b ws : List Wire} :
      IsBlock p k b → MStream p ks ws → MStream p (k :: ks) (b ++ ws)

/-- static well-formedness of a publisher / subscription pair -/
structure PubOK (p : PubSpec) : Prop where
  names  : ∀ t ∈ p.ts, t ≠ ""
  nodup  : p.ts.Nodup
  subsNe : p.subAll = false → p.subs ≠ []    -- an explicit subscription names at least one topic (`addr;` with an empty
                                             -- list would make the source "always complete": it is never waited for)
  sorted : p.ids.Pairwise (· < ·)
  nonneg : ∀ k ∈ p.ids, 0 ≤ k

/-- the source is a synchronised subscription of the form recorded in `p` -/
def MPlain (p : PubSpec) (s : Src) : Prop :=
  s.eph = 0 ∧ s.subAll = p.subAll ∧ s.star = p.star ∧ s.subs = p.subs

theorem MPlain_congr (p : PubSpec) (s s' : Src) (h1 : s'.eph = s.eph) (h2 : s'.subAll = s.subAll) (h3 : s'.star = s.star)
    (h4 : s'.subs = s.subs) : MPlain p s → MPlain p s' := by
  rintro ⟨a, b, c, d⟩; exact ⟨h1 ▸ a, h2 ▸ b, h3 ▸ c, h4 ▸ d⟩

/-! ### `effTopic` -/

theorem effTopic_empty (sa : Bool) (subs : List (Topic × Topic)) : effTopic sa subs "" = "" := by
  unfold effTopic; simp

theorem effTopic_keep (sa : Bool) (subs : List (Topic × Topic)) (t : Topic)
    (h : sa = true ∨ ∃ q ∈ subs, q.1 = t) : effTopic sa subs t = t := by
  unfold effTopic
  rcases h with h | ⟨q, hq, rfl⟩
  · simp [h]
  · have : ¬ (subs.all (fun p => p.1 != q.1) = true) := by
      intro h
      rw [List.all_eq_true] at h
      have := h q hq
      simp at this
    simp [this]

theorem effTopic_cases (sa : Bool) (subs : List (Topic × Topic)) (t : Topic) :
    effTopic sa subs t = "" ∨ (effTopic sa subs t = t ∧ (sa = true ∨ ∃ q ∈ subs, q.1 = t)) := by
  unfold effTopic
  split
  · left; rfl
  · rename_i hc
    by_cases ht : t = ""
    · left; exact ht
    · right
      refine ⟨rfl, ?_⟩
      cases sa with
      | true => left; rfl
      | false =>
        right
        have hall : ¬ (subs.all (fun p => p.1 != t) = true) := fun h => hc ⟨ht, rfl, h⟩
        by_cases hex : ∃ q ∈ subs, q.1 = t
        · exact hex
        · exfalso
          apply hall
          rw [List.all_eq_true]
          intro x hx
          simp only [bne_iff_ne, ne_eq]
          intro e
          exact hex ⟨x, hx, e⟩

/-! ### the abstract content of a delivered block -/

/-- what the join proof needs of a block: the envelope, every message is blank or a key, every key arrives -/
def BlkAbs (p : PubSpec) (k : Int) (b : List Wire) : Prop :=
  (∀ w ∈ b, w.mid = k ∧ w.topics = p.ts ∧ w.bal = 0) ∧
  (∀ w ∈ b, p.eff w = "" ∨ p.eff w ∈ p.keys) ∧
  (∀ t ∈ p.keys, ∃ w ∈ b, p.eff w = t)

theorem IsBlock.abs {p : PubSpec} {k : Int} {b : List Wire} (h : IsBlock p k b) : BlkAbs p k b := by
  rcases h with ⟨⟨tm, hb, rfl, hh, h1, h2, h3⟩, henv⟩
  refine ⟨henv, ?_, ?_⟩
  · intro w hw
    rw [List.mem_append] at hw
    rcases hw with hw | hw
    · rcases effTopic_cases p.subAll p.subs (decodeTopic w.frame0) with e | ⟨e, hc⟩
      · left; exact e
      · right
        unfold PubSpec.eff
        rw [e, PubSpec.mem_keys]
        refine ⟨h1 w hw, ?_⟩
        rcases hc with hc | ⟨q, hq, e2⟩
        · exact h3 hc w hw
        · unfold PubSpec.wanted
          by_cases hsa : p.subAll = true
          · exact h3 hsa w hw
          · simp only [hsa, Bool.false_eq_true, ↓reduceIte, List.any_eq_true, beq_iff_eq]
            exact ⟨q, hq, e2⟩
    · simp only [List.mem_singleton] at hw
      subst hw
      left
      unfold PubSpec.eff
      rw [hh]; exact effTopic_empty _ _
  · intro t ht
    rw [PubSpec.mem_keys] at ht
    rcases h2 t ht.1 ht.2 with ⟨w, hw, e⟩
    refine ⟨w, List.mem_append_left _ hw, ?_⟩
    unfold PubSpec.eff
    rw [e]
    apply effTopic_keep
    by_cases hsa : p.subAll = true
    · left; exact hsa
    · right
      have := ht.2
      unfold PubSpec.wanted at this
      simp only [hsa, Bool.false_eq_true, ↓reduceIte, List.any_eq_true, beq_iff_eq] at this
      exact this

theorem keys_no_empty (p : PubSpec) (hp : PubOK p) : "" ∉ p.keys := by
  intro h
  rw [PubSpec.mem_keys] at h
  exact hp.names "" h.1 rfl

theorem keys_sub_ts (p : PubSpec) : ∀ t ∈ p.keys, t ∈ p.ts := by
  intro t h; rw [PubSpec.mem_keys] at h; exact h.1

/-! ### `dset`, `init_recvd`, pruning on dicts written as `keys.map (t ↦ (t, g t))` -/

theorem dset_map_keys (ks : List Topic) (g : Topic → Option Msg) (t0 : Topic) (v : Option Msg) (h : t0 ∈ ks) :
    dset (ks.map fun t => (t, g t)) t0 v = ks.map fun t => (t, if t = t0 then v else g t) := by
  unfold dset
  have hany : (ks.map fun t => (t, g t)).any (fun x => x.1 == t0) = true := by
    simp only [List.any_map, List.any_eq_true, Function.comp_apply, beq_iff_eq]
    exact ⟨t0, h, rfl⟩
  simp only [hany, ↓reduceIte, List.map_map]
  apply List.map_congr_left
  intro t _
  by_cases e : t = t0
  · simp [e]
  · simp [e]

theorem foldl_dset_fresh (h : Topic → Option Msg) : ∀ (ts : List Topic) (acc : Recvd), ts.Nodup →
    (∀ t ∈ ts, ∀ x ∈ acc, x.1 ≠ t) →
    ts.foldl (fun d t => dset d t (h t)) acc = acc ++ ts.map fun t => (t, h t) := by
  intro ts
  induction ts with
  | nil => intro acc _ _; simp
  | cons t ts ih =>
    intro acc hnd hfresh
    rw [List.nodup_cons] at hnd
    simp only [List.foldl_cons]
    have hnot : acc.any (fun x => x.1 == t) = false := by
      rw [Bool.eq_false_iff]
      intro hc
      rw [List.any_eq_true] at hc
      rcases hc with ⟨x, hx, e⟩
      exact hfresh t (List.mem_cons_self ..) x hx (by simpa using e)
    have hd : dset acc t (h t) = acc ++ [(t, h t)] := by
      unfold dset; simp [hnot]
    rw [hd, ih _ hnd.2]
    · simp
    · intro t' ht' x hx
      rw [List.mem_append] at hx
      rcases hx with hx | hx
      · exact hfresh t' (List.mem_cons_of_mem _ ht') x hx
      · simp only [List.mem_singleton] at hx
        subst hx
        intro e
        simp only at e
        exact hnd.1 (e ▸ ht')

theorem initRecvd_map (s : Src) (m : Msg) (ts : List Topic) (hnd : ts.Nodup) :
    initRecvd s m ts = (ts.filter (fun t => s.star || !t.startsWith "_")).map
      fun t => (t, if t = m.topic then some m else none) := by
  unfold initRecvd
  have := foldl_dset_fresh (fun t => if t == m.topic then some m else none)
    (ts.filter (fun t => s.star || !t.startsWith "_")) [] (hnd.filter _) (by intro _ _ x hx; cases hx)
  rw [this]
  simp only [List.nil_append]
  apply List.map_congr_left
  intro t _
  by_cases e : t = m.topic <;> simp [e]

theorem prune_explicit (s : Src) (r : Recvd) (ts : List Topic) (h1 : s.subAll = false) (h2 : s.eph = 0) :
    prune s r ts = r.filter (fun x => ts.contains x.1) := by
  unfold prune
  simp only [h1, Bool.false_eq_true, ↓reduceIte, h2, decide_true, Bool.true_or]
  split
  · rename_i hd
    symm
    rw [List.filter_eq_self]
    intro x hx
    rw [List.isEmpty_iff] at hd
    have : x ∉ r.filter (fun p => !ts.contains p.1) := by rw [hd]; simp
    rw [List.mem_filter] at this
    cases hc : ts.contains x.1 with
    | true => rfl
    | false => exact absurd ⟨hx, by rw [hc]; rfl⟩ this
  · rfl

/-- pruning a dict over `ks` keeps exactly the keys that are topics of the block -/
theorem prune_map (p : PubSpec) (s : Src) (hp : MPlain p s) (ks : List Topic) (f : Topic → Option Msg)
    (hks : p.subAll = true ∨ ks.filter (fun t => p.ts.contains t) = p.keys) (hks' : p.subAll = true → ks = p.keys) :
    prune s (ks.map fun t => (t, f t)) p.ts = p.keys.map fun t => (t, f t) := by
  rcases hp with ⟨he, hsa, _, _⟩
  by_cases h : p.subAll = true
  · unfold prune
    simp only [hsa, h, ↓reduceIte]
    rw [hks' h]
  · have h' : s.subAll = false := by rw [hsa]; simpa using h
    rw [prune_explicit s _ _ h' he, List.filter_map]
    rcases hks with hks | hks
    · exact absurd hks h
    · have : ((fun x : Topic × Option Msg => p.ts.contains x.1) ∘ fun t => (t, f t)) = fun t => p.ts.contains t := by
        funext t; rfl
      rw [this, hks]

theorem keys_filter_self (p : PubSpec) : p.keys.filter (fun t => p.ts.contains t) = p.keys := by
  rw [List.filter_eq_self]
  intro t ht
  rw [List.contains_iff_mem]
  exact keys_sub_ts p t ht

/-! ### what a non-older message does to the buffer of a source -/

/-- first message of a block (blank or a key) taken by an idle source -/
theorem first_recvd (p : PubSpec) (hp : PubOK p) (s : Src) (hs : MPlain p s) (hr : s.recvd = recvdNew s) (m : Msg) (k : Int)
    (hk : k ≤ m.mid) (hm : m.topic = "" ∨ m.topic ∈ p.keys) :
    ((processMsg s m p.ts k).2).map (fun r => prune s r p.ts) =
      some (p.keys.map fun t => (t, if t = m.topic then some m else none)) := by
  have hno : ¬ m.mid < k := by omega
  have hs' := hs
  rcases hs with ⟨he, hsa, hst, hsu⟩
  by_cases h : p.subAll = true
  · -- all topics / `*`
    have hrn : s.recvd = none := by rw [hr]; unfold recvdNew; simp [hsa, h]
    unfold processMsg
    simp only [hno, ↓reduceIte, hrn, Option.map_some, Option.some.injEq]
    rw [initRecvd_map s m p.ts hp.nodup]
    apply prune_map p s hs' _ _ (Or.inl h)
    intro _
    unfold PubSpec.keys
    simp [h, hst]
  · have h' : p.subAll = false := by simpa using h
    have hrn : recvdNew s = some ((p.subs.map (·.1)).map fun t => (t, (none : Option Msg))) := by
      unfold recvdNew; simp [hsa, h', hsu]
    have hkeys : (p.subs.map (·.1)).filter (fun t => p.ts.contains t) = p.keys := by
      unfold PubSpec.keys; simp [h']
    -- in both the "same id" and the "newer id" branch the new dict is `recvd_new` with the topic stored
    have hval : (processMsg s m p.ts k).2 =
        some (if m.topic ≠ "" then dset ((p.subs.map (·.1)).map fun t => (t, (none : Option Msg))) m.topic (some m)
              else (p.subs.map (·.1)).map fun t => (t, (none : Option Msg))) := by
      unfold processMsg
      simp only [hno, ↓reduceIte, hr, hrn]
      by_cases e : m.mid = k
      · simp only [e, ↓reduceIte]
      · simp only [e, ↓reduceIte]
        unfold newRecvWith
        simp only [hrn]
    rw [hval]
    simp only [Option.map_some, Option.some.injEq]
    rcases hm with hm | hm
    · simp only [hm, ne_eq, not_true_eq_false, ↓reduceIte]
      rw [prune_map p s hs' _ (fun _ => none) (Or.inr hkeys) (fun e => absurd e h)]
      apply List.map_congr_left
      intro t ht
      have : t ≠ "" := fun e => keys_no_empty p hp (e ▸ ht)
      simp [this]
    · have hne : m.topic ≠ "" := fun e => keys_no_empty p hp (e ▸ hm)
      have hin : m.topic ∈ p.subs.map (·.1) := by
        rw [← hkeys] at hm; exact (List.mem_filter.mp hm).1
      simp only [hne, ne_eq, not_false_eq_true, ↓reduceIte]
      rw [dset_map_keys _ _ _ _ hin]
      exact prune_map p s hs' _ (fun t => if t = m.topic then some m else none) (Or.inr hkeys) (fun e => absurd e h)

/-- a further message of the block being assembled -/
theorem next_recvd (p : PubSpec) (hp : PubOK p) (s : Src) (hs : MPlain p s) (g : Topic → Option Msg)
    (hr : s.recvd = some (p.keys.map fun t => (t, g t))) (m : Msg) (k : Int)
    (hk : m.mid = k) (hm : m.topic = "" ∨ m.topic ∈ p.keys) :
    ((processMsg s m p.ts k).2).map (fun r => prune s r p.ts) =
      some (p.keys.map fun t => (t, if t = m.topic then some m else g t)) := by
  subst hk
  unfold processMsg
  simp only [Int.lt_irrefl, ↓reduceIte, hr, Option.map_some, Option.some.injEq]
  rcases hm with hm | hm
  · simp only [hm, ne_eq, not_true_eq_false, ↓reduceIte]
    rw [prune_map p s hs _ g (Or.inr (keys_filter_self p)) (fun _ => rfl)]
    apply List.map_congr_left
    intro t ht
    have : t ≠ "" := fun e => keys_no_empty p hp (e ▸ ht)
    simp [this]
  · have hne : m.topic ≠ "" := fun e => keys_no_empty p hp (e ▸ hm)
    simp only [hne, ne_eq, not_false_eq_true, ↓reduceIte]
    rw [dset_map_keys _ _ _ _ hm]
    exact prune_map p s hs _ (fun t => if t = m.topic then some m else g t) (Or.inr (keys_filter_self p)) (fun _ => rfl)

/-! ### one `take` of a synchronised source in a non-balanced receiver, message not older than expected -/

theorem processMsg_fst (s : Src) (m : Msg) (ts : List Topic) (k : Int) (h : k ≤ m.mid) :
    (processMsg s m ts k).1 = if k < m.mid then .newer else .same := by
  have hno : ¬ m.mid < k := by omega
  unfold processMsg
  simp only [hno, ↓reduceIte]
  cases s.recvd with
  | none => simp only
  | some l =>
    simp only
    by_cases e : m.mid = k
    · have : ¬ k < m.mid := by omega
      simp [e]
    · have : k < m.mid := by omega
      simp [e, this]

/-- the message that `recv_once` builds from wire `w` taken from source `i` -/
def takenMsg (s : Src) (i : Nat) (w : Wire) : Msg :=
  { mid := w.mid, topic := effTopic s.subAll s.subs (decodeTopic w.frame0), body := w.body, src := i }

theorem onTake_sync (st : St) (i : Nat) (s0 : Src) (w : Wire) (q : List Wire)
    (hs : st.srcs[i]? = some s0) (hq : s0.queue = w :: q) (heph : s0.eph = 0) (hid : 0 ≤ w.mid)
    (hnew : st.minRecvId ≤ w.mid) (hb : w.bal = 0) (hbal : st.balance = false) :
    (onTake st i).1 =
      { st with
        srcs :=
          if st.minRecvId < w.mid then
            resetOthers (st.srcs.set i (storeRecvd { s0 with queue := q, conn := true }
              (processMsg { s0 with queue := q, conn := true } (takenMsg s0 i w) w.topics st.minRecvId).2 w.topics)) i
          else st.srcs.set i (storeRecvd { s0 with queue := q, conn := true }
              (processMsg { s0 with queue := q, conn := true } (takenMsg s0 i w) w.topics st.minRecvId).2 w.topics),
        minRecvId := w.mid } := by
  have hsp : ¬ w.mid ≤ OF.Facts.MSG_ID_SPECIAL := by unfold OF.Facts.MSG_ID_SPECIAL; omega
  rcases s0 with ⟨eph, subAll, star, subs, recvd, minId, conn, reg, queue⟩
  simp only at heph hq
  subst heph hq
  unfold onTake
  rw [hs]
  simp only [↓reduceIte, hb, ne_eq, not_true_eq_false, hsp]
  unfold takeSync
  have hfst := processMsg_fst { eph := 0, subAll, star, subs, recvd, minId, conn := true, reg, queue := q }
    (takenMsg { eph := 0, subAll, star, subs, recvd, minId, conn, reg, queue := w :: q } i w) w.topics st.minRecvId hnew
  unfold takenMsg at hfst ⊢
  simp only at hfst ⊢
  generalize hpm : processMsg { eph := 0, subAll, star, subs, recvd, minId, conn := true, reg, queue := q }
    { mid := w.mid, topic := effTopic subAll subs (decodeTopic w.frame0), body := w.body, src := i } w.topics st.minRecvId = pm at hfst ⊢
  rcases pm with ⟨res, r⟩
  simp only at hfst
  subst hfst
  by_cases hlt : st.minRecvId < w.mid
  · simp only [hlt, ↓reduceIte]
    unfold syncApply
    simp [hbal]
  · simp only [hlt, ↓reduceIte]
    unfold syncApply
    simp [hbal]

end OF.Recv
