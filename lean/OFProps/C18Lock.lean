import OFModel.LineageLock
import OFProps.C18
/-!
# C18 — the atomicity of `OFModel/Lineage.lean` derived from the lock discipline

`OFModel/LineageLock.lean` runs the emitter statement by statement: heartbeat thread, main thread and exporter thread, one lock,
any scheduler.  This file proves a forward simulation into the atomic model (`Lineage.beat` / `Lineage.mainOp`, `.patched`):

* the abstraction `absEm` reads the atomic state off a fine-grained state; an event whose emission is already decided inside a
  critical section (`pendM`, `pendH`) counts as emitted;
* every fine-grained step is a stutter, one atomic heartbeat step, or the atomic effect of the call the main thread is in
  (`step_sim`), given the invariant `Inv` (the lock is held exactly inside the `with` blocks - mutual exclusion);
* hence `C18_lock_refines_atomic`, and through it `C18_history` / `C18_terminal` for EVERY fine-grained schedule
  (`C18_lock_language`, `C18_lock_terminal`);
* with the RUNNING post moved behind the lock release (`postInsideLock = false`) a schedule emits RUNNING after the terminal
  event (`C18_lock_post_outside_lock_breaks`).
-/
set_option linter.unusedSimpArgs false
set_option linter.unusedVariables false
namespace OF.LineageLock
open OF.Life OF.Lineage

/-! ## atomic executions as explicit action lists -/

/-- an action of the atomic model: a heartbeat step or a call of the main thread -/
inductive AAct where
  | beat
  | call (op : EOp)
deriving Repr, DecidableEq

def astep (m : Em) : AAct → Em
  | .beat => beat .patched m
  | .call op => mainOp .patched m op

def arun : List AAct → Em → Em
  | [], m => m
  | a :: r, m => arun r (astep m a)

def callsOf : List AAct → List EOp
  | [] => []
  | .beat :: r => callsOf r
  | .call op :: r => op :: callsOf r

theorem arun_append (a b : List AAct) (m : Em) : arun (a ++ b) m = arun b (arun a m) := by
  induction a generalizing m with
  | nil => rfl
  | cons x a ih => simp only [List.cons_append, arun, ih]

theorem callsOf_append (a b : List AAct) : callsOf (a ++ b) = callsOf a ++ callsOf b := by
  induction a with
  | nil => rfl
  | cons x a ih => cases x <;> simp [callsOf, ih]

theorem callsOf_map_call (l : List EOp) : callsOf (l.map AAct.call) = l := by
  induction l with
  | nil => rfl
  | cons x l ih => simp [callsOf, ih]

theorem beats_succ_right (n : Nat) (m : Em) : beats .patched (n + 1) m = beat .patched (beats .patched n m) := by
  induction n generalizing m with
  | zero => rfl
  | succ n ih => rw [beats, ih (beat .patched m)]; rfl

/-- every action list, followed by one more heartbeat step, is an execution of `Lineage.interleave` -/
theorem interleave_of_acts (acts : List AAct) : ∀ (n : Nat) (m : Em),
    ∃ sched, interleave .patched (callsOf acts) sched m = beat .patched (arun acts (beats .patched n m)) := by
  induction acts with
  | nil => intro n m; exact ⟨[n], by simp only [callsOf, interleave, List.headD_cons, arun, beats_succ_right]⟩
  | cons a acts ih =>
    intro n m
    cases a with
    | beat =>
      obtain ⟨sched, h⟩ := ih (n + 1) m
      exact ⟨sched, by simp only [callsOf, arun, astep, h, beats_succ_right]⟩
    | call op =>
      obtain ⟨sched, h⟩ := ih 0 (mainOp .patched (beats .patched n m) op)
      exact ⟨n :: sched, by simp only [callsOf, interleave, List.headD_cons, List.tail_cons, arun, astep, h, beats]⟩

theorem beat_out_prefix (m : Em) : m.out <+: (beat .patched m).out := by
  unfold beat
  split
  · exact List.prefix_refl _
  · split
    · exact List.prefix_refl _
    · exact List.prefix_append _ _

theorem mainOp_out_prefix (m : Em) (op : EOp) : m.out <+: (mainOp .patched m op).out := by
  cases op with
  | emitStart => exact List.prefix_append _ _
  | hbStart => simp only [mainOp]; split <;> exact List.prefix_refl _
  | hbStop => exact List.prefix_refl _
  | emitStop c =>
    simp only [mainOp]
    split
    · exact List.prefix_append _ _
    · exact List.prefix_refl _

theorem arun_out_prefix (acts : List AAct) : ∀ m : Em, m.out <+: (arun acts m).out := by
  induction acts with
  | nil => intro m; exact List.prefix_refl _
  | cons a acts ih =>
    intro m
    refine List.IsPrefix.trans ?_ (ih _)
    cases a
    · exact beat_out_prefix m
    · exact mainOp_out_prefix m _

/-! ## abstraction and invariant -/

/-- the heartbeat thread is inside its `with self._lock` block -/
def holdsH : HPc → Bool
  | .innerTest | .readFacets | .build | .post | .release | .breakRelease => true
  | _ => false

/-- the main thread is inside a `with self._lock` block -/
def holdsM : MPc → Bool
  | .esFlags | .esPost | .esRel | .epSet _ | .epTest _ | .epFlag _ | .epPost _ | .epRel => true
  | _ => false

def holdsU : UPc → Bool
  | .write | .release => true
  | _ => false

/-- the main thread is between `_stop_event.clear()` and `Thread.start()` -/
def spawning : MPc → Bool
  | .hsSpawn => true
  | _ => false

/-- `start_lineage_heart_beat` has found no thread alive -/
def starting : MPc → Bool
  | .hsClear | .hsSpawn => true
  | _ => false

/-- event the main thread is committed to post (it is inside the critical section that posts it) -/
def pendM (s : St) : List LEvent :=
  match s.mpc with
  | .esPost => [⟨.start, s.rid⟩]
  | .epTest c => if s.started && !s.stopped then [⟨term c, s.rid⟩] else []
  | .epFlag c => [⟨term c, s.rid⟩]
  | .epPost c => [⟨term c, s.rid⟩]
  | _ => []

/-- RUNNING event the heartbeat thread is committed to post (it has passed its stop check under the lock) -/
def pendH (s : St) : List LEvent :=
  match s.hpc with
  | .readFacets | .build | .post => [⟨.running, s.rid⟩]
  | _ => []

def absStopped (s : St) : Bool :=
  match s.mpc with
  | .epTest _ => if s.started && !s.stopped then true else s.stopped
  | .epFlag _ => true
  | _ => s.stopped

/-- the state of the atomic model a fine-grained state stands for -/
def absEm (s : St) : Em :=
  { rid := s.rid, started := s.started, stopped := absStopped s, stopEv := s.stopEv,
    alive := s.hpc.alive || spawning s.mpc, out := s.out ++ pendM s ++ pendH s }

/-- call the main thread is in and whose atomic effect has not happened yet -/
def cur : MPc → List EOp
  | .esAcq | .esFlags => [.emitStart]
  | .epAcq c | .epSet c => [.emitStop c]
  | .hsTest | .hsClear => [.hbStart]
  | .hpSet => [.hbStop]
  | _ => []

/-- calls whose atomic effect is still to come -/
def todo (s : St) : List EOp := cur s.mpc ++ s.ops

/-- the lock is held exactly inside the `with` blocks (hence mutual exclusion); a thread that leaves through `break` has seen the
stop event, which stays set until it is gone; `start_lineage_heart_beat` only goes on when no thread is alive -/
structure Inv (s : St) : Prop where
  lockH : s.lock = some .hb ↔ holdsH s.hpc = true
  lockM : s.lock = some .main ↔ holdsM s.mpc = true
  lockU : s.lock = some .upd ↔ holdsU s.upc = true
  brk   : s.hpc = .breakRelease → s.stopEv = true
  spawn : starting s.mpc = true → s.hpc = .idle

theorem inv_init (ops : List EOp) (rid : Nat) : Inv (init ops rid) := by
  constructor <;> simp [init, holdsH, holdsM, holdsU, starting]

theorem absEm_init (ops : List EOp) (rid : Nat) : absEm (init ops rid) = Em.fresh rid := by
  simp [absEm, init, absStopped, pendM, pendH, HPc.alive, spawning, Em.fresh]

theorem todo_init (ops : List EOp) (rid : Nat) : todo (init ops rid) = ops := by
  simp [todo, init, cur]

/-! ## the heartbeat thread -/

theorem hb_inv (s : St) (h : Inv s) : Inv (hbStep true s) := by
  rcases s with ⟨rid, st, sp, ev, lock, hpc, mpc, upc, ops, out⟩
  rcases h with ⟨h1, h2, h3, h4, h5⟩
  simp only at h1 h2 h3 h4 h5
  cases hpc <;> cases ev <;> rcases lock with _ | (_ | _ | _) <;>
    (constructor <;> simp_all [hbStep, holdsH])

theorem hb_todo (s : St) : todo (hbStep true s) = todo s := by
  rcases s with ⟨rid, st, sp, ev, lock, hpc, mpc, upc, ops, out⟩
  cases hpc <;> simp only [hbStep, todo] <;> (repeat' split) <;> rfl

theorem spawning_le_starting {m : MPc} (h : starting m = false) : spawning m = false := by
  cases m <;> simp_all [starting, spawning]

theorem pendM_nil_of_not_holds (s : St) (h : holdsM s.mpc = false) : pendM s = [] ∧ absStopped s = s.stopped := by
  rcases s with ⟨rid, st, sp, ev, lock, hpc, mpc, upc, ops, out⟩
  cases mpc <;> simp_all [holdsM, pendM, absStopped]

theorem pendH_nil_of_not_holds (s : St) (h : holdsH s.hpc = false) : pendH s = [] := by
  rcases s with ⟨rid, st, sp, ev, lock, hpc, mpc, upc, ops, out⟩
  cases hpc <;> simp_all [holdsH, pendH]

theorem not_starting_of_alive (s : St) (h : Inv s) (ha : s.hpc.alive = true) : starting s.mpc = false := by
  cases hs : starting s.mpc
  · rfl
  · rw [h.spawn hs] at ha; cases ha

theorem not_holdsM_of_holdsH (s : St) (h : Inv s) (hh : holdsH s.hpc = true) : holdsM s.mpc = false := by
  cases hm : holdsM s.mpc
  · rfl
  · have a := h.lockH.mpr hh
    have b := h.lockM.mpr hm
    rw [a] at b; cases b

theorem not_holdsH_of_holdsM (s : St) (h : Inv s) (hm : holdsM s.mpc = true) : holdsH s.hpc = false := by
  cases hh : holdsH s.hpc
  · rfl
  · rw [not_holdsM_of_holdsH s h hh] at hm; cases hm

/-- a step of the heartbeat thread is a stutter or one atomic heartbeat step -/
theorem hb_sim (s : St) (h : Inv s) :
    absEm (hbStep true s) = absEm s ∨ absEm (hbStep true s) = beat .patched (absEm s) := by
  cases hp : s.hpc with
  | idle => left; simp only [hbStep, hp]
  | loopTest =>
    have hsp := spawning_le_starting (not_starting_of_alive s h (by rw [hp]; rfl))
    cases he : s.stopEv
    · left; simp [hbStep, hp, he, absEm, HPc.alive, pendH, pendM, absStopped]
    · right; simp [hbStep, hp, he, absEm, HPc.alive, pendH, pendM, absStopped, beat, hsp]
  | acquire =>
    left
    cases hl : s.lock <;> simp [hbStep, hp, hl, absEm, HPc.alive, pendH, pendM, absStopped]
  | innerTest =>
    cases he : s.stopEv
    · right; simp [hbStep, hp, he, absEm, HPc.alive, pendH, pendM, absStopped, beat, Em.push]
    · left; simp [hbStep, hp, he, absEm, HPc.alive, pendH, pendM, absStopped]
  | readFacets => left; simp [hbStep, hp, absEm, HPc.alive, pendH, pendM, absStopped]
  | build => left; simp [hbStep, hp, absEm, HPc.alive, pendH, pendM, absStopped]
  | post =>
    left
    obtain ⟨h1, h2⟩ := pendM_nil_of_not_holds s (not_holdsM_of_holdsH s h (by rw [hp]; rfl))
    have h1' : pendM { s with out := s.out ++ [⟨.running, s.rid⟩], hpc := .release } = [] := h1
    simp only [hbStep, hp, absEm, if_true, h1, h1']
    simp [HPc.alive, pendH, hp, absStopped]
  | release => left; simp [hbStep, hp, absEm, HPc.alive, pendH, pendM, absStopped]
  | breakRelease =>
    right
    have hsp := spawning_le_starting (not_starting_of_alive s h (by rw [hp]; rfl))
    have he := h.brk hp
    simp [hbStep, hp, he, absEm, HPc.alive, pendH, pendM, absStopped, beat, hsp]
  | wait => left; simp [hbStep, hp, absEm, HPc.alive, pendH, pendM, absStopped]

/-! ## the exporter thread -/

theorem upd_inv (s : St) (h : Inv s) : Inv (updStep s) := by
  rcases s with ⟨rid, st, sp, ev, lock, hpc, mpc, upc, ops, out⟩
  rcases h with ⟨h1, h2, h3, h4, h5⟩
  simp only at h1 h2 h3 h4 h5
  cases upc <;> rcases lock with _ | (_ | _ | _) <;>
    (constructor <;> simp_all [updStep, holdsU])

theorem upd_sim (s : St) : absEm (updStep s) = absEm s ∧ todo (updStep s) = todo s := by
  rcases s with ⟨rid, st, sp, ev, lock, hpc, mpc, upc, ops, out⟩
  cases upc <;> simp only [updStep] <;> (repeat' split) <;> exact ⟨rfl, rfl⟩

/-! ## the main thread -/

theorem alive_false_iff (p : HPc) : p.alive = false ↔ p = .idle := by
  cases p <;> simp [HPc.alive]

theorem main_inv (s : St) (h : Inv s) : Inv (mainStep s) := by
  rcases s with ⟨rid, st, sp, ev, lock, hpc, mpc, upc, ops, out⟩
  rcases h with ⟨h1, h2, h3, h4, h5⟩
  simp only at h1 h2 h3 h4 h5
  cases mpc
  case idle =>
    cases ops with
    | nil => exact ⟨h1, h2, h3, h4, h5⟩
    | cons op r => cases op <;> (constructor <;> simp_all [mainStep, entry, holdsM, starting])
  case hsTest =>
    cases ha : hpc.alive
    · have hi := (alive_false_iff hpc).mp ha
      simp only [mainStep, ha, ↓reduceIte, Bool.false_eq_true]
      constructor <;> simp_all [holdsM, starting]
    · simp only [mainStep, ha, ↓reduceIte]
      constructor <;> simp_all [holdsM, starting]
  case epTest c =>
    cases st <;> cases sp <;> (constructor <;> simp_all [mainStep, holdsM, starting])
  all_goals
    rcases lock with _ | (_ | _ | _) <;>
      (constructor <;> simp_all [mainStep, holdsM, holdsH, starting])

/-- a step of the main thread is a stutter or the atomic effect of the call it is in -/
theorem main_sim (s : St) (h : Inv s) :
    (absEm (mainStep s) = absEm s ∧ todo (mainStep s) = todo s) ∨
    ∃ op, todo s = op :: todo (mainStep s) ∧ absEm (mainStep s) = mainOp .patched (absEm s) op := by
  cases hm : s.mpc with
  | idle =>
    left
    cases ho : s.ops with
    | nil => simp only [mainStep, hm, ho, and_self]
    | cons op r =>
      cases op <;> simp [mainStep, hm, ho, entry, absEm, todo, cur, pendM, pendH, absStopped, spawning]
  | esAcq =>
    left
    cases hl : s.lock <;> simp [mainStep, hm, hl, absEm, todo, cur, pendM, pendH, absStopped, spawning]
  | esFlags =>
    right
    have hH := pendH_nil_of_not_holds s (not_holdsH_of_holdsM s h (by rw [hm]; rfl))
    have hH2 : pendH { s with started := true, stopped := false, mpc := .esPost } = [] := hH
    refine ⟨.emitStart, ?_, ?_⟩
    · simp [mainStep, hm, todo, cur]
    · simp only [mainStep, hm, absEm, hH, hH2]
      simp [pendM, hm, absStopped, spawning, mainOp, Em.push]
  | esPost => left; simp [mainStep, hm, absEm, todo, cur, pendM, pendH, absStopped, spawning]
  | esRel => left; simp [mainStep, hm, absEm, todo, cur, pendM, pendH, absStopped, spawning]
  | epAcq c =>
    left
    cases hl : s.lock <;> simp [mainStep, hm, hl, absEm, todo, cur, pendM, pendH, absStopped, spawning]
  | epSet c =>
    right
    have hH := pendH_nil_of_not_holds s (not_holdsH_of_holdsM s h (by rw [hm]; rfl))
    have hH2 : pendH { s with stopEv := true, mpc := .epTest c } = [] := hH
    refine ⟨.emitStop c, ?_, ?_⟩
    · simp [mainStep, hm, todo, cur]
    · simp only [mainStep, hm, absEm, hH, hH2]
      cases h1 : s.started <;> cases h2 : s.stopped <;> simp [pendM, hm, h1, h2, absStopped, spawning, mainOp, Em.push, term]
  | epTest c =>
    left
    cases h1 : s.started <;> cases h2 : s.stopped <;>
      simp [mainStep, hm, h1, h2, absEm, todo, cur, pendM, pendH, absStopped, spawning]
  | epFlag c => left; simp [mainStep, hm, absEm, todo, cur, pendM, pendH, absStopped, spawning]
  | epPost c => left; simp [mainStep, hm, absEm, todo, cur, pendM, pendH, absStopped, spawning]
  | epRel => left; simp [mainStep, hm, absEm, todo, cur, pendM, pendH, absStopped, spawning]
  | hsTest =>
    cases ha : s.hpc.alive
    · left; simp [mainStep, hm, ha, absEm, todo, cur, pendM, pendH, absStopped, spawning]
    · right
      refine ⟨.hbStart, ?_, ?_⟩
      · simp [mainStep, hm, ha, todo, cur]
      · simp [mainStep, hm, ha, absEm, pendM, pendH, absStopped, spawning, mainOp]
  | hsClear =>
    right
    have hi := h.spawn (by rw [hm]; rfl)
    refine ⟨.hbStart, ?_, ?_⟩
    · simp [mainStep, hm, todo, cur]
    · simp [mainStep, hm, hi, absEm, pendM, pendH, absStopped, spawning, mainOp, HPc.alive]
  | hsSpawn =>
    left
    have hi := h.spawn (by rw [hm]; rfl)
    simp [mainStep, hm, hi, absEm, todo, cur, pendM, pendH, absStopped, spawning, HPc.alive]
  | hpSet =>
    right
    refine ⟨.hbStop, ?_, ?_⟩
    · simp [mainStep, hm, todo, cur]
    · simp [mainStep, hm, absEm, pendM, pendH, absStopped, spawning, mainOp]

/-! ## forward simulation -/

theorem step_inv (t : Tid) (s : St) (h : Inv s) : Inv (step true t s) := by
  cases t
  · exact main_inv s h
  · exact hb_inv s h
  · exact upd_inv s h

/-- one fine-grained step = at most one action of the atomic model, and it consumes exactly the calls it performs -/
theorem step_sim (t : Tid) (s : St) (h : Inv s) :
    ∃ acts, arun acts (absEm s) = absEm (step true t s) ∧ callsOf acts ++ todo (step true t s) = todo s := by
  cases t with
  | main =>
    rcases main_sim s h with ⟨h1, h2⟩ | ⟨op, h1, h2⟩
    · exact ⟨[], h1.symm, h2⟩
    · exact ⟨[.call op], h2.symm, h1.symm⟩
  | hb =>
    rcases hb_sim s h with h1 | h1
    · exact ⟨[], h1.symm, hb_todo s⟩
    · exact ⟨[.beat], h1.symm, hb_todo s⟩
  | upd => exact ⟨[], (upd_sim s).1.symm, (upd_sim s).2⟩

theorem exec_inv (sch : List Tid) : ∀ (s : St), Inv s → Inv (exec true sch s) := by
  induction sch with
  | nil => intro s h; exact h
  | cons t r ih => intro s h; exact ih _ (step_inv t s h)

theorem exec_sim (sch : List Tid) : ∀ (s : St), Inv s →
    ∃ acts, arun acts (absEm s) = absEm (exec true sch s) ∧ callsOf acts ++ todo (exec true sch s) = todo s := by
  induction sch with
  | nil => intro s _; exact ⟨[], rfl, rfl⟩
  | cons t r ih =>
    intro s h
    obtain ⟨a1, h1, h2⟩ := step_sim t s h
    obtain ⟨a2, h3, h4⟩ := ih _ (step_inv t s h)
    refine ⟨a1 ++ a2, ?_, ?_⟩
    · rw [arun_append, h1]; exact h3
    · rw [callsOf_append, List.append_assoc]; simp only [exec]; rw [h4, h2]

/-- what the fine-grained state has emitted is a prefix of what its abstraction has (the rest is committed, inside a lock) -/
theorem out_prefix_abs (s : St) : s.out <+: (absEm s).out := by
  simp only [absEm, List.append_assoc]; exact List.prefix_append _ _

/-- the system is at rest: the main thread has returned from its last call and the heartbeat thread is gone -/
def quiescent (s : St) : Prop := s.mpc = .idle ∧ s.ops = [] ∧ s.hpc = .idle

/-! ## (a) refinement -/

/-- **C18 (lock discipline ⇒ atomicity), step form**: every execution of the fine-grained system - any schedule of the three
threads, any sequence of calls - is matched by a sequence of ATOMIC heartbeat steps and calls that performs exactly the calls
whose effect has happened (`callsOf acts ++ todo s = ops`) and ends in the state the fine-grained state stands for -/
theorem C18_lock_simulation (ops : List EOp) (sch : List Tid) (rid : Nat) :
    ∃ acts, arun acts (Em.fresh rid) = absEm (exec true sch (init ops rid)) ∧
      callsOf acts ++ todo (exec true sch (init ops rid)) = ops := by
  obtain ⟨acts, h1, h2⟩ := exec_sim sch (init ops rid) (inv_init ops rid)
  rw [absEm_init] at h1; rw [todo_init] at h2
  exact ⟨acts, h1, h2⟩

/-- **C18 (a)**: every execution of the fine-grained system is an execution of the atomic model `Lineage.interleave .patched`
for the calls whose effect has happened: some heartbeat schedule `sched` of the atomic model reaches the abstraction of the
fine-grained state (up to the one heartbeat step with which `interleave` always ends) -/
theorem C18_lock_refines_atomic (ops : List EOp) (sch : List Tid) (rid : Nat) :
    ∃ done sched, done ++ todo (exec true sch (init ops rid)) = ops ∧
      interleave .patched done sched (Em.fresh rid) = beat .patched (absEm (exec true sch (init ops rid))) := by
  obtain ⟨acts, h1, h2⟩ := C18_lock_simulation ops sch rid
  obtain ⟨sched, h3⟩ := interleave_of_acts acts 0 (Em.fresh rid)
  exact ⟨callsOf acts, sched, h2, by rw [h3]; simp only [beats, h1]⟩

/-- **C18 (a), complete executions**: when the system has come to rest, the emitted event list IS the event list of an execution
of `Lineage.interleave .patched` for the same calls -/
theorem C18_lock_refines_atomic_quiescent (ops : List EOp) (sch : List Tid) (rid : Nat)
    (hq : quiescent (exec true sch (init ops rid))) :
    ∃ sched, events true ops sch rid = (interleave .patched ops sched (Em.fresh rid)).out := by
  obtain ⟨done, sched, h1, h2⟩ := C18_lock_refines_atomic ops sch rid
  obtain ⟨q1, q2, q3⟩ := hq
  refine ⟨sched, ?_⟩
  have hd : done = ops := by simpa [todo, q1, q2, cur] using h1
  subst hd
  rw [h2]
  simp [events, beat, absEm, q1, q3, HPc.alive, spawning, pendM, pendH]

/-- **C18 (a), every execution**: the emitted event list is a prefix of the event list of an execution of the atomic model for
ALL the calls (the atomic execution goes on with the calls still to come) -/
theorem C18_lock_prefix_of_atomic (ops : List EOp) (sch : List Tid) (rid : Nat) :
    ∃ sched, events true ops sch rid <+: (interleave .patched ops sched (Em.fresh rid)).out := by
  obtain ⟨acts, h1, h2⟩ := C18_lock_simulation ops sch rid
  obtain ⟨sched, h3⟩ := interleave_of_acts (acts ++ (todo (exec true sch (init ops rid))).map .call) 0 (Em.fresh rid)
  rw [callsOf_append, callsOf_map_call, h2] at h3
  refine ⟨sched, ?_⟩
  rw [h3]
  simp only [beats, arun_append, h1]
  exact (out_prefix_abs _).trans ((arun_out_prefix _ _).trans (beat_out_prefix _))

/-- **C18 (mutual exclusion)**: in every reachable state at most one of the three threads is inside a `with self._lock` block,
and it is the owner of the lock -/
theorem C18_lock_mutual_exclusion (ops : List EOp) (sch : List Tid) (rid : Nat) :
    (holdsH (exec true sch (init ops rid)).hpc = true → (exec true sch (init ops rid)).lock = some .hb) ∧
    (holdsM (exec true sch (init ops rid)).mpc = true → (exec true sch (init ops rid)).lock = some .main) ∧
    (holdsU (exec true sch (init ops rid)).upc = true → (exec true sch (init ops rid)).lock = some .upd) := by
  have h := exec_inv sch (init ops rid) (inv_init ops rid)
  exact ⟨h.lockH.mpr, h.lockM.mpr, h.lockU.mpr⟩

/-! ## (b) the language of a run, for every fine-grained schedule -/

theorem beat_out_cases (m : Em) :
    (beat .patched m).out = m.out ∨ (beat .patched m).out = m.out ++ [⟨.running, m.rid⟩] := by
  unfold beat
  split
  · left; rfl
  · split
    · left; rfl
    · right; rfl

theorem pendH_cases (s : St) : pendH s = [] ∨ pendH s = [⟨.running, s.rid⟩] := by
  unfold pendH; split <;> simp

theorem running_not_last (l pre : List LEvent) (r rid : Nat) (c : Bool) :
    l ++ [(⟨.running, r⟩ : LEvent)] ≠ pre ++ [ev rid (terminal c)] := by
  intro h
  have h2 := List.append_inj_right' h rfl
  cases c <;> simp [ev, terminal] at h2

theorem mainDone_iff (s : St) : s.mainDone = true ↔ s.mpc = .idle ∧ s.ops = [] := by
  simp [St.mainDone, List.isEmpty_iff]

/-- the calls of a run under a fine-grained schedule -/
def runState (P : Policy) (s : Script) (sch : List Tid) (rid : Nat) : St :=
  exec true sch (init (opsOf (run P s).evs) rid)

/-- **C18 (b), safety at every moment**: for the calls `Filter.run` makes and EVERY fine-grained schedule (heartbeat, main and
exporter thread interleaved statement by statement), what has been emitted so far is a prefix of `START · RUNNING* · t`, `t` the
terminal event of the run: nothing is ever emitted after the terminal event, and no second terminal event -/
theorem C18_lock_language_prefix (P : Policy) (s : Script) (sch : List Tid) (rid : Nat) :
    ∃ n, (runState P s sch rid).out <+:
      ev rid .start :: List.replicate n (ev rid .running) ++ [ev rid (terminal (cleanEnd P s))] := by
  obtain ⟨sched, h⟩ := C18_lock_prefix_of_atomic (opsOf (run P s).evs) sch rid
  have hh : (interleave .patched (opsOf (run P s).evs) sched (Em.fresh rid)).out = history .patched P s sched rid := rfl
  rw [hh] at h
  rcases C18_history P s sched rid with h0 | ⟨n, h0⟩
  · rw [h0] at h
    exact ⟨0, by rw [show (runState P s sch rid).out = [] from List.prefix_nil.mp h]; exact List.nil_prefix⟩
  · exact ⟨n, by rw [h0] at h; exact h⟩

/-- **C18 (b)**: for the calls `Filter.run` makes and EVERY fine-grained schedule, once the main thread has returned from its
last call (wherever the heartbeat thread is) the emitted events are `START · RUNNING* · t` with exactly one terminal event `t`,
last, `t = COMPLETE` iff `run()` returned normally - or nothing at all when START was never reached -/
theorem C18_lock_language (P : Policy) (s : Script) (sch : List Tid) (rid : Nat)
    (hd : (runState P s sch rid).mainDone = true) :
    (runState P s sch rid).out = [] ∨
    ∃ n, (runState P s sch rid).out =
      ev rid .start :: List.replicate n (ev rid .running) ++ [ev rid (terminal (cleanEnd P s))] := by
  obtain ⟨done, sched, h1, h2⟩ := C18_lock_refines_atomic (opsOf (run P s).evs) sch rid
  obtain ⟨q1, q2⟩ := (mainDone_iff _).mp hd
  change (exec true sch (init (opsOf (run P s).evs) rid)).mpc = .idle at q1
  change (exec true sch (init (opsOf (run P s).evs) rid)).ops = [] at q2
  have hdone : done = opsOf (run P s).evs := by simpa [todo, q1, q2, cur] using h1
  subst hdone
  have hh : (interleave .patched (opsOf (run P s).evs) sched (Em.fresh rid)).out = history .patched P s sched rid := rfl
  rw [h2] at hh
  have habs : (absEm (runState P s sch rid)).out = (runState P s sch rid).out ++ pendH (runState P s sch rid) := by
    simp [absEm, runState, pendM, q1]
  rcases C18_history P s sched rid with h0 | ⟨n, h0⟩
  · left
    rw [h0] at hh
    have := (out_prefix_abs (runState P s sch rid)).trans (beat_out_prefix _)
    rw [show absEm (runState P s sch rid) = absEm (exec true sch (init (opsOf (run P s).evs) rid)) from rfl, hh] at this
    exact List.prefix_nil.mp this
  · right
    refine ⟨n, ?_⟩
    rw [h0] at hh
    rcases beat_out_cases (absEm (exec true sch (init (opsOf (run P s).evs) rid))) with hb | hb
    · rw [hb] at hh
      change (absEm (runState P s sch rid)).out = _ at hh
      rw [habs] at hh
      rcases pendH_cases (runState P s sch rid) with hp | hp
      · rw [hp, List.append_nil] at hh; exact hh
      · rw [hp] at hh; exact absurd hh (running_not_last _ _ _ _ _)
    · rw [hb] at hh; exact absurd hh (running_not_last _ _ _ _ _)

/-- **C18 (b), terminal**: for every fine-grained schedule, once `emit_stop` has returned the last event is COMPLETE iff the run
ended cleanly (`run()` returned), ABORT otherwise -/
theorem C18_lock_terminal (P : Policy) (s : Script) (sch : List Tid) (rid : Nat) (e : LEvent)
    (hd : (runState P s sch rid).mainDone = true)
    (h : (runState P s sch rid).out.getLast? = some e) :
    (e.typ = .complete ↔ (run P s).outcome = .returns) ∧ (e.typ = .abort ↔ (run P s).outcome ≠ .returns) := by
  rcases C18_lock_language P s sch rid hd with h0 | ⟨n, h0⟩
  · rw [h0] at h; cases h
  · rw [h0] at h
    have : e = ev rid (terminal (cleanEnd P s)) := by
      simp only [List.getLast?_append, List.getLast?_singleton, Option.some_or] at h
      simpa using h.symm
    subst this
    unfold terminal cleanEnd ev
    cases ho : (run P s).outcome <;> simp

/-! ## (c) the lock is what makes it true: RUNNING posted behind the lock release -/

def M (n : Nat) : List Tid := List.replicate n .main
def H (n : Nat) : List Tid := List.replicate n .hb
def U (n : Nat) : List Tid := List.replicate n .upd

/-- `emit_start` (5 steps), `start_lineage_heart_beat` (4 steps); the heartbeat thread passes both stop checks (and, in the seeded
variant, leaves the `with` block: 4 steps); the main thread runs `emit_stop(clean=True)` (7 steps); the heartbeat thread goes on
(3 steps) -/
def overtake : List Tid := M 9 ++ H 4 ++ M 7 ++ H 3

/-- **C18 (c), negative witness**: same step function, `postInsideLock = false` (the seeded change that moves
`self._emit_event(RunState.RUNNING)` behind the `with self._lock` block): a schedule emits RUNNING after the terminal event -/
theorem C18_lock_post_outside_lock_breaks :
    (events false [.emitStart, .hbStart, .emitStop true] overtake 7).map (·.typ) = [.start, .complete, .running] := by
  decide +kernel

/-- … and there is a schedule, so the universally quantified theorems do not hold for that variant -/
theorem C18_lock_post_outside_lock_not_safe :
    ∃ ops sch rid n t, events false ops sch rid =
      ev rid .start :: List.replicate n (ev rid .running) ++ [ev rid t, ev rid .running] ∧ (t = .complete ∨ t = .abort) :=
  ⟨[.emitStart, .hbStart, .emitStop true], overtake, 7, 0, .complete, by decide +kernel, Or.inl rfl⟩

/-- the same schedule on the real discipline: `emit_stop` stays blocked on the lock (7 no-op steps) while the heartbeat thread
posts; given more steps it then ends the run, and the heartbeat thread leaves -/
example : (events true [.emitStart, .hbStart, .emitStop true] overtake 7).map (·.typ) = [.start, .running] ∧
    (exec true overtake (init [.emitStart, .hbStart, .emitStop true] 7)).mpc = .epAcq true ∧
    (events true [.emitStart, .hbStart, .emitStop true] (overtake ++ M 7 ++ H 3) 7).map (·.typ) = [.start, .running, .complete] ∧
    quiescent (exec true (overtake ++ M 7 ++ H 3) (init [.emitStart, .hbStart, .emitStop true] 7)) := by
  refine ⟨by decide +kernel, by decide +kernel, by decide +kernel, by decide +kernel, by decide +kernel, by decide +kernel⟩

/-! non-vacuity: `stop_lineage_heart_beat` (no lock) lands while the heartbeat thread is committed to post; the exporter thread
competes for the lock; a real run of `Filter.run` -/

example : (events true [.emitStart, .hbStart, .hbStop, .emitStop false] (M 9 ++ H 4 ++ M 2 ++ H 9 ++ M 7) 7).map (·.typ) =
    [.start, .running, .abort] := by decide +kernel
example : (events true [.emitStart, .hbStart, .emitStop true]
    (U 2 ++ M 3 ++ U 2 ++ M 8 ++ H 2 ++ U 3 ++ H 6 ++ U 1 ++ H 3 ++ M 3 ++ U 2 ++ M 6 ++ H 3) 7).map (·.typ) =
    [.start, .running, .complete] := by decide +kernel
example : (runState P0 { sBase with iters := [⟨.ret, .exitCall .exit, .ret, 0⟩] } (M 9 ++ H 12 ++ M 3 ++ H 4 ++ M 7 ++ H 2) 7).mainDone = true ∧
    (runState P0 { sBase with iters := [⟨.ret, .exitCall .exit, .ret, 0⟩] } (M 9 ++ H 12 ++ M 3 ++ H 4 ++ M 7 ++ H 2) 7).out.map (·.typ) =
      [.start, .running, .running, .complete] := by decide +kernel

end OF.LineageLock
