import OFProps.C13
/-!
# C14 — the saved reader position survives crashes: property theorems

`write_head` is four file-system steps (`headStep`: create/truncate temp, write, close, rename); `Op.save who (some k)`
performs the first `k` of them and then the process is gone.  Quantifier: arbitrary op sequences (writes, reads, saves
with a crash after any number of steps, restarts, deletions …) from any well-formed directory and any well-formed head
file; all theorems are for both policies where the policy does not matter.
-/
namespace OF.RollLog

/-- the head file is absent or holds a complete position -/
def HeadOk (h : HeadFS) : Prop := h.head = none ∨ ∃ p, h.head = some (.full p)

theorem headSteps_head (p : Pos) (h : HeadFS) (k : Nat) (hk : k ≤ 4) :
    (headSteps p h k).head = if k = 4 then some (.full p) else h.head := by
  have : k = 0 ∨ k = 1 ∨ k = 2 ∨ k = 3 ∨ k = 4 := by omega
  rcases this with rfl | rfl | rfl | rfl | rfl <;> rfl

/-- one save, interrupted anywhere or not at all: the head file afterwards holds the old content or the new position -/
theorem writeHead_head (l : Log) (h : HeadFS) (c : Option Nat) :
    (writeHead l h c).2.1.head = h.head ∨ (writeHead l h c).2.1.head = some (.full (tellPos l)) := by
  unfold writeHead
  split
  · split <;> exact Or.inl rfl
  · split
    · exact Or.inl rfl
    · simp only
      split
      · right; exact (headSteps_head _ _ 4 (Nat.le_refl _)).trans (by simp)
      · rename_i k
        rw [headSteps_head _ _ (min k 4) (Nat.min_le_right _ _)]
        split
        · right; rfl
        · left; rfl

theorem close_head (l : Log) (h : HeadFS) :
    (close l h).2.1.head = h.head ∨ (close l h).2.1.head = some (.full (tellPos l)) := by
  have := writeHead_head l h none
  unfold close
  simp only
  split <;> exact this

/-- what a step does to the head file -/
theorem step_head (p : Policy) (s : Sys) (op : Op) :
    (step p s op).1.hd.head = s.hd.head ∨ ∃ who, (step p s op).1.hd.head = some (.full (tellPos (s.get who))) := by
  cases op with
  | save who crash =>
    rcases writeHead_head (s.get who) s.hd crash with h | h
    · left; exact h
    · right; exact ⟨who, h⟩
  | close who =>
    rcases close_head (s.get who) s.hd with h | h
    · left; exact h
    · right; exact ⟨who, h⟩
  | write recs us => left; rfl
  | read who block => left; cases who <;> rfl
  | seekStart who => left; cases who <;> rfl
  | seekEnd who => left; cases who <;> rfl
  | seek who name off => left; cases who <;> rfl
  | seekInvalid who => left; cases who <;> rfl
  | seekBlock who us => left; cases who <;> rfl
  | tell who => left; rfl
  | refresh who => left; cases who <;> rfl
  | reopen who ar => left; cases who <;> rfl
  | delete name => left; rfl

theorem HeadOk.step {s : Sys} (p : Policy) (h : HeadOk s.hd) (op : Op) : HeadOk (step p s op).1.hd := by
  rcases step_head p s op with e | ⟨who, e⟩
  · unfold HeadOk; rw [e]; exact h
  · right; exact ⟨_, e⟩

theorem HeadOk.run {s : Sys} (p : Policy) (h : HeadOk s.hd) (ops : List Op) : HeadOk (run p s ops).hd := by
  induction ops generalizing s with
  | nil => exact h
  | cons op ops ih => exact ih (h.step p op)

/-- **C14 (head atomic)**: along ANY op sequence - saves interrupted after 0, 1, 2, 3 or 4 of their file-system steps
included, any number of times - the head file is absent or holds a complete position: never an empty or partial one. -/
theorem C14_head_atomic (p : Policy) (fs0 : FS) (hd0 : HeadFS) (fsz tot : Nat) (hh ra : Bool) (h0 : HeadOk hd0) (ops : List Op) :
    HeadOk (run p (boot fs0 hd0 fsz tot hh ra) ops).hd :=
  HeadOk.run p (by unfold boot; exact h0) ops

/-- **C14 (old or new)**: a single save with a crash after `k` steps (any `k`; `none` = no crash) leaves the previous
content or exactly the position `tell()` gave; the new content is there iff the rename happened (`k ≥ 4` or no crash). -/
theorem C14_save_old_or_new (l : Log) (h : HeadFS) (hl : l.hasHead = true) (hc : l.readFile ≠ .closed) (k : Option Nat) :
    (writeHead l h k).2.1.head = (match k with
      | none => some (.full (tellPos l))
      | some k => if k ≥ 4 then some (.full (tellPos l)) else h.head) := by
  have hw : ∀ c, writeHead l h c = (match c with
      | none => (l, headSteps (tellPos l) h 4, Res.ok)
      | some k => (kill l, headSteps (tellPos l) h (min k 4), Res.ok)) := by
    intro c
    unfold writeHead
    simp only [hl, Bool.not_true, Bool.false_eq_true, ↓reduceIte]
    cases hrf : l.readFile with
    | closed => exact absurd hrf hc
    | none => rfl
    | opened a b => rfl
  rw [hw]
  cases k with
  | none => exact (headSteps_head _ _ 4 (Nat.le_refl _)).trans (by simp)
  | some k =>
    simp only
    rw [headSteps_head _ _ (min k 4) (Nat.min_le_right _ _)]
    by_cases hk : k ≥ 4
    · simp [hk, Nat.min_eq_right hk]
    · have : min k 4 ≠ 4 := by omega
      simp [hk, this]

/-- **C14 (restart succeeds)**: with a head file that is absent or complete the constructor does not raise -/
theorem C14_restart_ok (l : Log) (ar : Bool) (fs : FS) (h : HeadFS) (hh : HeadOk h) : (construct l ar fs h).2.2 = .ok := by
  unfold construct restoreHead
  simp only
  split
  · rfl
  · rcases hh with e | ⟨p, e⟩ <;> rw [e]

/-- … hence every restart in every reachable state succeeds -/
theorem C14_restart_ok_run (p : Policy) (fs0 : FS) (hd0 : HeadFS) (fsz tot : Nat) (hh ra : Bool) (h0 : HeadOk hd0)
    (ops : List Op) (who : Who) (ar : Bool) :
    (step p (run p (boot fs0 hd0 fsz tot hh ra) ops) (.reopen who ar)).2 = .ok := by
  have h := C14_head_atomic p fs0 hd0 fsz tot hh ra h0 ops
  simp only [step]
  exact C14_restart_ok _ _ _ _ h

/-- a corrupt head would make the constructor raise: the negative witness for what `C14_head_atomic` excludes -/
example : (construct (blankLog true true 10 100) true [] ⟨some (.part ⟨some 5, 3⟩), none⟩).2.2 = .err .value := by decide

/-- crash after the partial write (k = 2): temp file partial, head untouched -/
example : headSteps ⟨some 7, 3⟩ ⟨some (.full ⟨some 5, 0⟩), none⟩ 2 = ⟨some (.full ⟨some 5, 0⟩), some (.part ⟨some 7, 3⟩)⟩ := by decide

/-- all four steps: head replaced, temp gone -/
example : headSteps ⟨some 7, 3⟩ ⟨some (.full ⟨some 5, 0⟩), none⟩ 4 = ⟨some (.full ⟨some 7, 3⟩), none⟩ := by decide

/-! ## restart position -/

theorem lookup_some_of_mem {fs : FS} {e : LF} (h : e ∈ dirEntries fs) : ∃ ino, lookup fs e.ts = some ino := by
  obtain ⟨f, hf, hl, rfl⟩ := mem_dirEntries.mp h
  cases hlk : lookup fs f.name with
  | some ino => exact ⟨ino, rfl⟩
  | none =>
    exfalso
    unfold lookup at hlk
    rw [List.findIdx?_eq_none_iff] at hlk
    have := hlk f hf
    simp [hl] at this

/-- in a sorted list, the first entry with `ts ≥ n`: everything before is below `n`, everything after it is above `n`;
the entry itself is `n` exactly when `n` is in the list -/
theorem findIdx_ge_spec {l : List LF} (hs : Sorted l) (n : Nat) :
    (∀ j lf, l[j]? = some lf → j < l.findIdx (fun lf => lf.ts ≥ n) → lf.ts < n) ∧
    (∀ j lf, l[j]? = some lf → l.findIdx (fun lf => lf.ts ≥ n) < j → n < lf.ts) ∧
    (∀ lf, l[l.findIdx (fun lf => lf.ts ≥ n)]? = some lf → n ≤ lf.ts) := by
  induction l with
  | nil => exact ⟨by intro j lf h; simp at h, by intro j lf h; simp at h, by intro lf h; simp at h⟩
  | cons x xs ih =>
    rw [sorted_cons] at hs
    obtain ⟨i1, i2, i3⟩ := ih hs.2
    by_cases hx : x.ts ≥ n
    · have e : (x :: xs).findIdx (fun lf => lf.ts ≥ n) = 0 := by simp [List.findIdx_cons, hx]
      rw [e]
      refine ⟨by intro j lf _ hj; omega, ?_, ?_⟩
      · intro j lf h hj
        cases j with
        | zero => omega
        | succ j =>
          simp only [List.getElem?_cons_succ] at h
          have := hs.1 lf (List.mem_of_getElem? h)
          omega
      · intro lf h; simp at h; subst h; exact hx
    · have e : (x :: xs).findIdx (fun lf => lf.ts ≥ n) = xs.findIdx (fun lf => lf.ts ≥ n) + 1 := by
        simp [List.findIdx_cons, hx]
      rw [e]
      refine ⟨?_, ?_, ?_⟩
      · intro j lf h hj
        cases j with
        | zero => simp at h; subst h; omega
        | succ j => simp only [List.getElem?_cons_succ] at h; exact i1 j lf h (by omega)
      · intro j lf h hj
        cases j with
        | zero => omega
        | succ j => simp only [List.getElem?_cons_succ] at h; exact i2 j lf h (by omega)
      · intro lf h; simp only [List.getElem?_cons_succ] at h; exact i3 lf h

/-- **C14 (no skip at restart)**: a new `RollLog(head=…)` whose head file holds `(n, off)` - by `C14_save_old_or_new`
the `tell()` of the last completed save - continues exactly at byte `off` of file `n` if that file is still in the
directory; otherwise at the beginning of the first file after `n`, and then every file of the directory before the new
position has a name below `n`.  So no record at or after the saved position that is still on disk is skipped; what was
read after that save is delivered again (at worst).  With `'start'` it begins at the first file. -/
theorem C14_no_skip (l : Log) (ar : Bool) (fs : FS) (h : HeadFS) (p : Pos) (hl : l.hasHead = true) (hr : l.rdonly = true)
    (hs : Sorted (dirEntries fs)) (hh : h.head = some (.full p)) :
    let l' := (construct l ar fs h).1
    l'.logfiles = dirEntries fs ∧
    match p.name with
    | none => l'.readIdx = 0 ∧ l'.readFile = .none
    | some n =>
      (∃ ino lf, lookup fs n = some ino ∧ l'.logfiles[l'.readIdx]? = some lf ∧ lf.ts = n ∧ l'.readFile = .opened ino p.off) ∨
      ((∀ e ∈ dirEntries fs, e.ts ≠ n) ∧ l'.readFile = .none ∧
        (∀ j lf, l'.logfiles[j]? = some lf → j < l'.readIdx → lf.ts < n) ∧
        (∀ j lf, l'.logfiles[j]? = some lf → l'.readIdx ≤ j → n < lf.ts)) := by
  have hscan : scan fs = dirEntries fs := sortLF_of_sorted _ hs
  have e1 : (constructScan l ar fs).1 = { constructBase l ar fs with readIdx := (dirEntries fs).length } := by
    simp [constructScan, constructBase, hr, hscan]
  have e0 : construct l ar fs h = ((seekPos (constructScan l ar fs).1 fs p).1, fs, .ok) := by
    have : (constructScan l ar fs).1.hasHead = true := by rw [(constructScan_cfg _ _ _).hasHead]; exact hl
    have e2 : (constructScan l ar fs).2 = fs := by simp [constructScan, constructBase, hr]
    simp [construct, restoreHead, this, hh, e2]
  simp only [e0, e1]
  cases hn : p.name with
  | none =>
    simp [seekPos, hn, seekStart, constructBase, hr, closeRead, hscan]
  | some n =>
    simp only [seekPos, hn, seekName, constructBase, hr, ↓reduceIte, closeRead, hscan]
    obtain ⟨i1, i2, i3⟩ := findIdx_ge_spec hs n
    generalize hidx : (dirEntries fs).findIdx (fun lf => lf.ts ≥ n) = idx at i1 i2 i3
    cases hget : (dirEntries fs)[idx]? with
    | none =>
      simp only
      refine ⟨by first | rfl | trivial, Or.inr ⟨?_, by first | rfl | trivial, ?_, ?_⟩⟩
      · intro e he hen
        obtain ⟨j, hj⟩ := List.getElem?_of_mem he
        have hlt : ¬ j < idx := fun hlt => by have := i1 j e hj hlt; omega
        have hgt : ¬ idx < j := fun hgt => by have := i2 j e hj hgt; omega
        have : j = idx := by omega
        rw [this, hget] at hj; cases hj
      · intro j lf hj hlt; exact i1 j lf hj hlt
      · intro j lf hj hge
        have hne : j ≠ idx := by intro e; rw [e, hget] at hj; cases hj
        exact i2 j lf hj (by omega)
    | some lf0 =>
      simp only
      by_cases heq : lf0.ts = n
      · have hmem : lf0 ∈ dirEntries fs := List.mem_of_getElem? hget
        obtain ⟨ino, hino⟩ := lookup_some_of_mem hmem
        rw [heq] at hino
        simp only [heq, beq_self_eq_true, ↓reduceIte, hino]
        exact ⟨by first | rfl | trivial, Or.inl ⟨ino, lf0, by first | rfl | trivial, hget, heq, by first | rfl | trivial⟩⟩
      · have hne : (lf0.ts == n) = false := by simpa using heq
        simp only [hne, Bool.false_eq_true, ↓reduceIte]
        have hgt0 : n < lf0.ts := by have := i3 lf0 hget; omega
        refine ⟨by first | rfl | trivial, Or.inr ⟨?_, by first | rfl | trivial, ?_, ?_⟩⟩
        · intro e he hen
          obtain ⟨j, hj⟩ := List.getElem?_of_mem he
          have hlt : ¬ j < idx := fun hlt => by have := i1 j e hj hlt; omega
          have hgt : ¬ idx < j := fun hgt => by have := i2 j e hj hgt; omega
          have : j = idx := by omega
          rw [this, hget] at hj; cases hj; omega
        · intro j lf hj hlt; exact i1 j lf hj hlt
        · intro j lf hj hge
          by_cases hji : j = idx
          · rw [hji, hget] at hj; cases hj; exact hgt0
          · exact i2 j lf hj (by omega)

/-- `C14_no_skip` holds at every restart of the reader in every reachable state -/
theorem C14_no_skip_reachable (fs0 : FS) (hd0 : HeadFS) (fsz tot : Nat) (ra : Bool) (hfs : DirOk fs0) (ops : List Op)
    (ar : Bool) (p : Pos) :
    let s := run patched (boot fs0 hd0 fsz tot true ra) ops
    s.hd.head = some (.full p) →
    let l' := (step patched s (.reopen .r ar)).1.r
    l'.logfiles = dirEntries s.fs ∧
    match p.name with
    | none => l'.readIdx = 0 ∧ l'.readFile = .none
    | some n =>
      (∃ ino lf, lookup s.fs n = some ino ∧ l'.logfiles[l'.readIdx]? = some lf ∧ lf.ts = n ∧ l'.readFile = .opened ino p.off) ∨
      ((∀ e ∈ dirEntries s.fs, e.ts ≠ n) ∧ l'.readFile = .none ∧
        (∀ j lf, l'.logfiles[j]? = some lf → j < l'.readIdx → lf.ts < n) ∧
        (∀ j lf, l'.logfiles[j]? = some lf → l'.readIdx ≤ j → n < lf.ts)) := by
  intro s hh
  have hS := (SInv.boot hfs hd0 fsz tot true ra).run ops
  have hc := run_r_cfg patched (boot fs0 hd0 fsz tot true ra) ops
  have hb := boot_r_cfg fs0 hd0 fsz tot true ra
  exact C14_no_skip s.r ar s.fs s.hd p (hc.hasHead.trans hb.1) (hc.rdonly.trans hb.2) hS.w.sortedD hh

/-- non-vacuity: head `(1001, 6)`, files 1000/1001/1002: restart is in file 1001 at byte 6 -/
example : let fs : FS := [⟨1000, [⟨0, 5⟩], true⟩, ⟨1001, [⟨1, 5⟩, ⟨2, 5⟩], true⟩, ⟨1002, [⟨3, 5⟩], true⟩]
    let l := (construct (blankLog true true 5 100) true fs ⟨some (.full ⟨some 1001, 6⟩), none⟩).1
    (l.readIdx, l.readFile, (read patched l fs false).2) = (1, .opened 1 6, .recs [⟨2, 5⟩]) := by decide +kernel

/-- … and with file 1001 gone it is at the start of 1002 -/
example : let fs : FS := [⟨1000, [⟨0, 5⟩], true⟩, ⟨1001, [⟨1, 5⟩, ⟨2, 5⟩], false⟩, ⟨1002, [⟨3, 5⟩], true⟩]
    let l := (construct (blankLog true true 5 100) true fs ⟨some (.full ⟨some 1001, 6⟩), none⟩).1
    (l.readIdx, l.readFile, (read patched l fs false).2) = (1, .none, .recs [⟨3, 5⟩]) := by decide +kernel

end OF.RollLog
