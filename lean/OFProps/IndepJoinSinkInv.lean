import OFProps.IndepJoinInv
set_option linter.unusedSimpArgs false
set_option linter.unusedVariables false
/-!
# The independent join with a sink below it (helper file for `OFProps/C03IndepJoinSink.lean`)

Topology `joinSinkTopo b` (`b ≥ 1`): sources `0 … b-1`, the join `J = b` subscribed to all of them, the sink `K = b + 1` subscribed to
the join only.  The join now HAS a `ZMQSender`: its results go on the wire under the id of the set they were computed from
(`send_state`), the sink's requests reach the join's PULL queue.

Invariant `GoodK` = the invariant of `IndepJoinInv.lean` for sources and join (`PubInv` per source through `srcProc`, `JInvS`),
plus: every block queued at the join is a dict of distinct non-empty names (`blkok` — with topic ownership this makes the handed
set a dict, which `ProcNames` needs for the join's `process()`), `PubInv proc X b J pubJ` for the join as publisher of the edge
`J → K` and `ConInv X b K pubJ …` for the sink (both from `C03Net.lean`, as in chains).
-/
namespace OF.Net
open OF.Chain (Blk ChanQ BlkOK Rest visData vis KInv Mode ConsecFrom headTs visDataJ)
open OF.Recv (Src Wire Msg Topic)

/-! ## the topology -/

def joinSinkTopo (b : Nat) : Topo := { ups := List.replicate b [] ++ [List.range b, [b]] }

theorem ik_n (b : Nat) : (joinSinkTopo b).n = b + 2 := by simp [joinSinkTopo, Topo.n]

theorem ik_upsSrc (b i : Nat) (h : i < b) : (joinSinkTopo b).upsOf i = [] := by
  simp only [joinSinkTopo, Topo.upsOf]
  rw [List.getElem?_append_left (by simp; omega)]
  simp [List.getElem?_replicate, h]

theorem ik_upsJ (b : Nat) : (joinSinkTopo b).upsOf b = List.range b := by
  simp only [joinSinkTopo, Topo.upsOf]
  rw [List.getElem?_append_right (by simp)]
  simp

theorem ik_upsK (b : Nat) : (joinSinkTopo b).upsOf (b + 1) = [b] := by
  simp only [joinSinkTopo, Topo.upsOf]
  rw [List.getElem?_append_right (by simp)]
  simp

theorem ik_upsGe (b u : Nat) (h : b + 2 ≤ u) : (joinSinkTopo b).upsOf u = [] := by
  have : (joinSinkTopo b).ups[u]? = none := by
    rw [List.getElem?_eq_none_iff]; simp [joinSinkTopo]; omega
  simp [Topo.upsOf, this]

theorem ik_hasOut (b j : Nat) : (joinSinkTopo b).hasOut j = decide (j ≤ b) := by
  unfold Topo.hasOut joinSinkTopo
  simp only [List.any_append, List.any_replicate, List.contains_nil, Bool.and_false, List.any_cons, List.any_nil, Bool.or_false,
    Bool.false_or]
  have h0 : (if b = 0 then false else false) = false := by split <;> rfl
  rw [h0, Bool.false_or]
  by_cases hj : j < b
  · have h1 : (List.range b).contains j = true := by rw [List.contains_iff_mem, List.mem_range]; exact hj
    have h2 : j ≤ b := by omega
    simp only [h1, Bool.true_or, h2, decide_true]
  · have h1 : (List.range b).contains j = false := by
      rw [Bool.eq_false_iff]; intro hc
      rw [List.contains_iff_mem, List.mem_range] at hc; exact hj hc
    rw [h1, Bool.false_or]
    by_cases hjb : j = b
    · subst hjb; simp
    · have h2 : ¬ j ≤ b := by omega
      simp only [h2, decide_false]
      simp only [List.contains_cons, List.contains_nil, Bool.or_false, beq_eq_false_iff_ne, ne_eq]
      exact hjb

theorem ik_noself (b j : Nat) (k : Nat) : ((joinSinkTopo b).upsOf j)[k]? ≠ some j := by
  by_cases h1 : j < b
  · rw [ik_upsSrc b j h1]; simp
  · by_cases h2 : j = b
    · subst h2
      rw [ik_upsJ]
      intro hc
      have := ij_range_some j k j hc
      omega
    · by_cases h3 : j = b + 1
      · subst h3
        rw [ik_upsK]
        cases k with
        | zero => simp
        | succ k => simp
      · rw [ik_upsGe b j (by omega)]; simp

/-! ## the handed set of a join is a dict -/

theorem nodup_flatMap_range (owner : Topic → Nat) (g : Nat → List Topic) : ∀ (b : Nat),
    (∀ j, j < b → (g j).Nodup ∧ ∀ t ∈ g j, owner t = j) → ((List.range b).flatMap g).Nodup := by
  intro b
  induction b with
  | zero => intro _; simp
  | succ b ih =>
    intro h
    rw [List.range_succ, List.flatMap_append, List.nodup_append]
    refine ⟨ih (fun j hj => h j (by omega)), by simpa using (h b (by omega)).1, ?_⟩
    intro a ha c hc
    rw [List.mem_flatMap] at ha
    rcases ha with ⟨j, hj, haj⟩
    rw [List.mem_range] at hj
    simp only [List.flatMap_cons, List.flatMap_nil, List.append_nil] at hc
    have h1 := (h j (by omega)).2 a haj
    have h2 := (h b (by omega)).2 c hc
    intro e; subst e
    omega

/-- the visible topics of one block per source, topic names owned by their source: distinct non-empty names -/
theorem namesOK_joined (owner : Topic → Nat) (tbl : List Entry) (b : Nat) (blk : Nat → Blk)
    (hok : ∀ jj, jj < b → BlkOK (blk jj).2) (hown : ∀ jj, jj < b → ∀ x ∈ (blk jj).2, owner x.1 = jj) :
    NamesOK ((List.range b).flatMap fun jj => (visB (cblk tbl (blk jj))).2) := by
  refine ⟨?_, ?_⟩
  · rw [List.map_flatMap]
    apply nodup_flatMap_range owner
    intro j hj
    have hn := namesOK_handed tbl (blk j).1 (blk j).2 (hok j hj)
    refine ⟨hn.1, ?_⟩
    intro t ht
    rw [List.mem_map] at ht
    rcases ht with ⟨x, hx, rfl⟩
    simp only [visB, cblk, List.mem_filter, List.mem_map] at hx
    rcases hx with ⟨⟨y, hy, rfl⟩, _⟩
    exact hown j hj y hy
  · intro x hx
    rw [List.mem_flatMap] at hx
    rcases hx with ⟨j, hj, hxj⟩
    rw [List.mem_range] at hj
    exact (namesOK_handed tbl (blk j).1 (blk j).2 (hok j hj)).2 x hxj

/-! ## the invariant -/

structure GoodKW (proc : Proc) (b : Nat) (owner : Topic → Nat) (X : LSt) (pubF : Nat → List HSet) (bss : Nat → List Blk)
    (pubJ : List HSet) : Prop where
  len : X.st.nodes.length = b + 2
  tbl : 0 < X.st.tbl.length
  nodeS : ∀ (i : Nat) (nd : Node), i < b → X.st.nodes[i]? = some nd → NodeG 0 nd
  nodeJ : ∀ (nd : Node), X.st.nodes[b]? = some nd → NodeG b nd
  nodeK : ∀ (nd : Node), X.st.nodes[b + 1]? = some nd → NodeG (b + 1) nd
  pubs : ∀ (u : Nat) (P : Node), u < b → X.st.nodes[u]? = some P → PubInv (srcProc proc u) X 0 P (pubF u)
  join : ∀ (J : Node), X.st.nodes[b]? = some J → JInvS b owner X J pubF bss
  blkok : ∀ jj, jj < b → ∀ blk ∈ bss jj, BlkOK blk.2
  pj : ∀ (J : Node), X.st.nodes[b]? = some J → PubInv proc X b J pubJ
  ck : ∀ (K : Node), X.st.nodes[b + 1]? = some K → ∃ bsW s, ConInv X b K pubJ bsW s

def GoodK (proc : Proc) (b : Nat) (owner : Topic → Nat) (X : LSt) : Prop := ∃ pubF bss pubJ, GoodKW proc b owner X pubF bss pubJ

theorem ik_init_get (b : Nat) (i : Nat) (nd : Node) (h : (linit (joinSinkTopo b)).st.nodes[i]? = some nd) :
    i < b + 2 ∧ nd = freshNode (joinSinkTopo b) i 0 := by
  simp only [linit, init, List.getElem?_map, ik_n] at h
  cases hr : (List.range (b + 2))[i]? with
  | none => rw [hr] at h; cases h
  | some v =>
    rw [hr] at h
    have := List.getElem?_eq_some_iff.mp hr
    rcases this with ⟨hl, he⟩
    simp only [List.getElem_range] at he
    simp only [List.length_range] at hl
    subst he
    simp only [Option.map_some, Option.some.injEq] at h
    exact ⟨hl, h.symm⟩

theorem goodK_init (proc : Proc) (b : Nat) (hb : 1 ≤ b) (owner : Topic → Nat) :
    GoodKW proc b owner (linit (joinSinkTopo b)) (fun _ => []) (fun _ => []) [] := by
  have hpub0 : ∀ (pr : Proc) (i u : Nat), PubInv pr (linit (joinSinkTopo b)) i (freshNode (joinSinkTopo b) u 0) [] := by
    intro pr i u
    refine ⟨?_, idsInc_nil, rfl, rfl, rfl, rfl, ?_, (by intro hc; cases hc), (by intro p d hp; cases hp)⟩
    · simp only [prodOf, freshNode, pendOf, List.append_nil]
      split
      · rfl
      · rfl
    · intro q hq r hr
      simp [freshNode, Send.mkSt] at hq
      subst hq; cases hr
  refine ⟨by simp [linit, init, ik_n], by simp [linit, init], ?_, ?_, ?_, ?_, ?_, (by intro jj _ blk hb; cases hb), ?_, ?_⟩
  · intro i nd hib hi
    rcases ik_init_get b i nd hi with ⟨hl, rfl⟩
    refine ⟨?_, (by intro hc; omega), (by intro hc; omega)⟩
    intro _
    simp [freshNode, ik_upsSrc b i hib, Recv.mkSt]
  · intro nd hi
    rcases ik_init_get b b nd hi with ⟨hl, rfl⟩
    exact ⟨fun hc => absurd hc (by omega), (by intro _ hc; cases hc), (by intro _ k hk; cases hk)⟩
  · intro nd hi
    rcases ik_init_get b (b + 1) nd hi with ⟨hl, rfl⟩
    exact ⟨fun hc => absurd hc (by omega), (by intro _ hc; cases hc), (by intro _ k hk; cases hk)⟩
  · intro u P _ hP
    rcases ik_init_get b u P hP with ⟨_, rfl⟩
    exact hpub0 _ 0 u
  · intro J hJ
    rcases ik_init_get b b J hJ with ⟨_, rfl⟩
    have hsrcs : (freshNode (joinSinkTopo b) b 0).con.srcs = (List.range b).map fun _ => Recv.mkSrc 0 none := by
      simp [freshNode, ik_upsJ, Recv.mkSt]
    have hget : ∀ (j : Nat) (s : Src), (freshNode (joinSinkTopo b) b 0).con.srcs[j]? = some s → j < b ∧ s = Recv.mkSrc 0 none := by
      intro j s hs
      rw [hsrcs, List.getElem?_map] at hs
      cases hr : (List.range b)[j]? with
      | none => rw [hr] at hs; cases hs
      | some v =>
        rw [hr] at hs
        have := (List.getElem?_eq_some_iff.mp hr).1
        simp only [List.length_range] at this
        simp only [Option.map_some, Option.some.injEq] at hs
        exact ⟨this, hs.symm⟩
    refine ⟨⟨⟨rfl, rfl, rfl, ?_⟩, by rw [hsrcs]; simp, by simp [freshNode, Recv.mkSt, OF.Facts.MSG_ID_INITIAL_PREV], ?_,
      (by intro j blk hb; cases hb)⟩, rfl, by simp [freshNode, Recv.mkSt, OF.Facts.MSG_ID_INITIAL_PREV], ?_,
      (by intro jj _ blk hb; cases hb), (by intro jj _; exact Nat.le_refl _), rfl⟩
    · intro j s hs
      rcases hget j s hs with ⟨_, rfl⟩
      exact ⟨rfl, rfl, rfl, rfl⟩
    · intro j s hs
      rcases hget j s hs with ⟨hjb, rfl⟩
      refine ⟨j, by simp [hjb], (by intro n blk hb; simp at hb), Mode.idle rfl rfl (ChanQ.nil _)⟩
    · intro jj _; rfl
  · intro J hJ
    rcases ik_init_get b b J hJ with ⟨_, rfl⟩
    exact hpub0 _ b b
  · intro K hK
    rcases ik_init_get b (b + 1) K hK with ⟨_, rfl⟩
    refine ⟨[], Recv.mkSrc 0 none, ⟨⟨?_, ⟨rfl, rfl, rfl, rfl⟩, ⟨rfl, rfl, rfl⟩, rfl, rfl, (by intro l hl; cases hl), rfl,
      (by simp [freshNode, Recv.mkSt, OF.Facts.MSG_ID_INITIAL_PREV])⟩, rfl⟩,
      ChanQ.nil _, (by intro b hb; cases hb), rfl, rfl, Nat.le_refl _, rfl⟩
    simp [freshNode, ik_upsK, Recv.mkSt]

/-! ## generic re-assembly after a `nodeRecv` (or a `send` that stays inside its node) -/

theorem goodK_recv_gen (proc : Proc) (b : Nat) (hb : 1 ≤ b) (owner : Topic → Nat) (X : LSt) (c : Nat) (nd' : Node)
    (rs : Nat → List Send.Req) (log' : Nat → List HSet) (nodes' : List Node) (pubF : Nat → List HSet) (bss bss' : Nat → List Blk)
    (pubJ : List HSet)
    (h : GoodKW proc b owner X pubF bss pubJ) (hlen : nodes'.length = b + 2)
    (hlook : ∀ (x : Nat), nodes'[x]? = if x = c then some nd'
        else (X.st.nodes[x]?).map fun P => { P with pub := pushReqs P.pub (rs x) })
    (hrs : ∀ x, x < b → ∀ r ∈ rs x, r.mid ≤ lastId (pubF x))
    (hrsJ : ∀ r ∈ rs b, r.mid ≤ lastId pubJ)
    (hlog : ∀ x, x ≠ c → log' x = X.log x) (hlog0 : log' 0 = X.log 0)
    (hGS : c < b → NodeG 0 nd')
    (hGJ : c = b → NodeG b nd')
    (hGK : c = b + 1 → NodeG (b + 1) nd')
    (hpubC : c < b → PubInv (srcProc proc c) { st := { X.st with nodes := nodes' }, log := log' } 0 nd' (pubF c))
    (hJ : c = b → JInvS b owner { st := { X.st with nodes := nodes' }, log := log' } nd' pubF bss' ∧
        PubInv proc { st := { X.st with nodes := nodes' }, log := log' } b nd' pubJ)
    (hblk : ∀ jj, jj < b → ∀ blk ∈ bss' jj, BlkOK blk.2)
    (hK : c = b + 1 → ∃ bsW s, ConInv { st := { X.st with nodes := nodes' }, log := log' } b nd' pubJ bsW s)
    (hbss : c ≠ b → bss' = bss) :
    GoodKW proc b owner { st := { X.st with nodes := nodes' }, log := log' } pubF bss' pubJ := by
  have hother : ∀ (x : Nat) (n' : Node), x ≠ c → nodes'[x]? = some n' →
      ∃ P, X.st.nodes[x]? = some P ∧ n' = { P with pub := pushReqs P.pub (rs x) } := by
    intro x n' hx hn
    rw [hlook] at hn
    simp only [hx, ↓reduceIte] at hn
    cases hP : X.st.nodes[x]? with
    | none => rw [hP] at hn; cases hn
    | some P =>
      rw [hP] at hn
      simp only [Option.map_some, Option.some.injEq] at hn
      exact ⟨P, rfl, hn.symm⟩
  have hself : ∀ (n' : Node), nodes'[c]? = some n' → n' = nd' := by
    intro n' hn
    rw [hlook] at hn
    simp only [↓reduceIte, Option.some.injEq] at hn
    exact hn.symm
  refine ⟨hlen, h.tbl, ?_, ?_, ?_, ?_, ?_, hblk, ?_, ?_⟩
  · intro x n' hxb hx
    by_cases hxc : x = c
    · subst hxc; rw [hself n' hx]; exact hGS hxb
    · rcases hother x n' hxc hx with ⟨P, hP, rfl⟩
      exact nodeG_frame 0 P _ (h.nodeS x P hxb hP) rfl rfl rfl rfl
  · intro n' hx
    by_cases hxc : b = c
    · subst hxc; rw [hself n' hx]; exact hGJ rfl
    · rcases hother b n' hxc hx with ⟨P, hP, rfl⟩
      exact nodeG_frame b P _ (h.nodeJ P hP) rfl rfl rfl rfl
  · intro n' hx
    by_cases hxc : b + 1 = c
    · subst hxc; rw [hself n' hx]; exact hGK rfl
    · rcases hother (b + 1) n' hxc hx with ⟨P, hP, rfl⟩
      exact nodeG_frame (b + 1) P _ (h.nodeK P hP) rfl rfl rfl rfl
  · intro u P' hub hu
    by_cases hxc : u = c
    · subst hxc; rw [hself P' hu]; exact hpubC hub
    · rcases hother u P' hxc hu with ⟨P, hP, rfl⟩
      exact pubInv_pushReqs (srcProc proc u) X _ 0 P (pubF u) (rs u) (h.pubs u P hub hP) hlog0 (hrs u hub)
  · intro J' hJ'
    by_cases hxc : b = c
    · subst hxc; rw [hself J' hJ']; exact (hJ rfl).1
    · rcases hother b J' hxc hJ' with ⟨P, hP, rfl⟩
      rw [hbss (fun e => hxc e.symm)]
      exact jinvS_frame b owner X _ P _ pubF bss [] (h.join P hP) (by simp) (hlog b hxc) rfl rfl
  · intro J' hJ'
    by_cases hxc : b = c
    · subst hxc; rw [hself J' hJ']; exact (hJ rfl).2
    · rcases hother b J' hxc hJ' with ⟨P, hP, rfl⟩
      exact pubInv_pushReqs proc X _ b P pubJ (rs b) (h.pj P hP) (hlog b hxc) hrsJ
  · intro K' hK'
    by_cases hxc : b + 1 = c
    · subst hxc; rw [hself K' hK']; exact hK rfl
    · rcases hother (b + 1) K' hxc hK' with ⟨P, hP, rfl⟩
      rcases h.ck P hP with ⟨bsW, s, hc⟩
      exact ⟨bsW, s, conInv_frame _ _ b P _ pubJ bsW s [] hc (by simp) (hlog (b + 1) hxc) rfl rfl⟩

theorem goodK_eta (proc : Proc) (b : Nat) (owner : Topic → Nat) (X : LSt) (h : GoodK proc b owner X) :
    GoodK proc b owner { st := X.st, log := X.log } := by
  cases X; exact h

theorem set_lookup_nil (nodes : List Node) (i : Nat) (nd' : Node) (hi : i < nodes.length) (x : Nat) :
    (nodes.set i nd')[x]? = if x = i then some nd' else (nodes[x]?).map fun P => { P with pub := pushReqs P.pub [] } := by
  rw [List.getElem?_set]
  by_cases hx : x = i
  · subst hx; simp [hi]
  · have : ¬ i = x := fun e => hx e.symm
    simp only [this, hx, ↓reduceIte]
    cases nodes[x]? with
    | none => rfl
    | some P => simp only [Option.map_some, pushReqs_nil]

/-! ## `nodeRecv` of a source -/

theorem goodK_recvSource (proc : Proc) (hp : ProcNames proc) (b : Nat) (hb : 1 ≤ b) (owner : Topic → Nat) (X : LSt) (i : Nat)
    (nd : Node) (pubF : Nat → List HSet) (bss : Nat → List Blk) (pubJ : List HSet) (h : GoodKW proc b owner X pubF bss pubJ)
    (hib : i < b) (hn : X.st.nodes[i]? = some nd) (hpend : nd.pending = none) :
    GoodKW proc b owner { st := { X.st with nodes := X.st.nodes.set i (processed proc i nd []) }, log := X.log } pubF bss pubJ := by
  have hG := h.nodeS i nd hib hn
  have hproc : processed proc i nd [] = processed (srcProc proc i) 0 nd [] := rfl
  have h0 : i < X.st.nodes.length := (List.getElem?_eq_some_iff.mp hn).1
  refine goodK_recv_gen proc b hb owner X i (processed proc i nd []) (fun _ => []) X.log _ pubF bss bss pubJ h
    (by simp only [List.length_set]; exact h.len) (set_lookup_nil X.st.nodes i _ h0) (by intro x _ r hr; cases hr)
    (by intro r hr; cases hr) (fun _ _ => rfl) rfl ?_ (by intro hc; omega) (by intro hc; omega) ?_
    (by intro hc; omega) h.blkok (by intro hc; omega) (fun _ => rfl)
  · intro _
    exact ⟨fun _ => hG.src rfl, fun hc => absurd hc (by omega), fun hc => absurd hc (by omega)⟩
  · intro _
    rw [hproc]
    exact pubInv_after_src (srcProc proc i) (srcProc_names proc hp i) X _ nd (pubF i) (h.pubs i nd hib hn) hpend (hG.src rfl).2

/-! ## `nodeRecv` of the join -/

/-- a relay after `recv` returned the set `frames` under id `k` (any number of sources): its publisher side -/
theorem pubInv_after_join (proc : Proc) (hp : ProcNames proc) (X X' : LSt) (c : Nat) (nd : Node) (c1 : Recv.St) (k : Int)
    (frames : List HFrame) (pubc : List HSet) (hc0 : c ≠ 0) (hpend : nd.pending = none)
    (hpub : PubInv proc X c nd pubc) (hnames : NamesOK (frames.map fun f => (f.topic, f.content)))
    (hlog : X'.log c = X.log c ++ [(k, frames.map fun f => (f.topic, f.content))]) (hllen : (X.log c).length = nd.count)
    (hlt : ∀ y ∈ X.log c, y.1 < k) :
    PubInv proc X' c (processed proc c { nd with con := c1, sendState := some (k, 0), recvState := none } frames) pubc := by
  have hprod2 : throughFrom proc c 0 (X.log c) = pubc := by
    have := hpub.prod
    simp only [prodOf, pendOf_none nd hpend, List.append_nil, hc0, ↓reduceIte] at this
    exact this
  have hstrict : ∀ b ∈ pubc, b.1 < k := by
    intro b hb
    rw [← hprod2] at hb
    rcases throughFrom_ids proc c _ 0 b hb with ⟨y, hy, e⟩
    have := hlt y hy
    omega
  refine ⟨?_, hpub.inc, hpub.idle, hpub.bal, hpub.nq, hpub.minSend, hpub.reqs, ?_, ?_⟩
  · rw [pendOf_processed]
    simp only [prodOf, hc0, ↓reduceIte, processed]
    rw [hlog, throughFrom_snoc, hprod2, hllen]
    rfl
  · intro _ b hb
    rw [sendId_processed]
    exact hstrict b hb
  · intro p d hpd hd
    simp only [processed, Option.some.injEq] at hpd
    subst hpd
    exact hp c nd.count _ d hnames hd

theorem joinLogS_ids (b : Nat) (pubF : Nat → List HSet) (c : Nat) : ∀ y ∈ joinLogS b pubF c, y.1 < (c : Int) := by
  intro y hy
  simp only [joinLogS, List.mem_map, List.mem_range] at hy
  rcases hy with ⟨n, hn, rfl⟩
  simp only; omega

theorem goodK_recvJoin (proc : Proc) (hp : ProcNames proc) (b : Nat) (hb : 1 ≤ b) (owner : Topic → Nat) (X : LSt) (nd : Node)
    (pubF : Nat → List HSet) (bss : Nat → List Blk) (pubJ : List HSet) (h : GoodKW proc b owner X pubF bss pubJ)
    (hn : X.st.nodes[b]? = some nd) (hpn : nd.pending = none) :
    ∃ bss', GoodKW proc b owner (LSt.mk (recvRelay (joinSinkTopo b) proc X.st b nd).1
      (logUpd X.log (.nodeRecv b) (recvRelay (joinSinkTopo b) proc X.st b nd).2)) pubF bss' pubJ := by
  have hJ := h.join nd hn
  have hG := h.nodeJ nd hn
  have hpj := h.pj nd hn
  have hst : ∀ k, nd.recvState = some k → k ≤ nd.con.prevId + 1 := hG.recvSt (by omega)
  have hjlen : b < X.st.nodes.length := (List.getElem?_eq_some_iff.mp hn).1
  have hslen : nd.con.srcs.length = b := by rw [hJ.kinv.len]; simp
  have hlast : ∀ x, x < b → lastId (pubF x) + 1 = ((pubF x).length : Int) := by
    intro x hx
    have hxL : x < X.st.nodes.length := by rw [h.len]; omega
    exact lastId_idx _ (idsIdx_pub _ X _ _ (h.pubs x _ hx (List.getElem?_eq_getElem hxL)))
  have hmid : ∀ (outs : List Recv.Out) (m : Int), (∀ x, x < b → m ≤ lastId (pubF x)) →
      (∀ o ∈ outs, o = .retNone ∨ (∃ k' bal data, o = .ret k' bal data) ∨ ∃ i e n, o = .req i m e n) →
      ∀ x, x < b → ∀ r ∈ outs.filterMap (reqOf b nd.gen ((joinSinkTopo b).upsOf b) x), r.mid ≤ lastId (pubF x) := by
    intro outs m hm ho x hxb r hr
    rw [List.mem_filterMap] at hr
    rcases hr with ⟨o, hoo, hro⟩
    rcases reqOf_some _ _ _ _ _ _ hro with ⟨k', e, n, rfl, hk'⟩
    rcases ho _ hoo with hc | ⟨_, _, _, hc⟩ | ⟨_, _, _, hc⟩
    · cases hc
    · cases hc
    · cases hc; exact hm x hxb
  have hnoJ : ∀ (outs : List Recv.Out), ∀ r ∈ outs.filterMap (reqOf b nd.gen ((joinSinkTopo b).upsOf b) b), r.mid ≤ lastId pubJ := by
    intro outs r hr
    rw [List.mem_filterMap] at hr
    rcases hr with ⟨o, hoo, hro⟩
    rcases reqOf_some _ _ _ _ _ _ hro with ⟨k', e, n, rfl, hk'⟩
    rw [ik_upsJ] at hk'
    have := ij_range_some b k' b hk'
    omega
  unfold recvRelay
  have hcase := OF.Chain.call0_join (List.range b) owner nd.con nd.recvState (List.range nd.con.srcs.length) bss
    hJ.kinv hJ.idle hst
  generalize hr : Recv.call0 nd.con nd.recvState (List.range nd.con.srcs.length) = r at hcase
  rcases hcase with ⟨hret, hk, hin, hprev, houts⟩ | ⟨reqs, houts, hreqs, hne, hk, hin, hprev⟩
  · refine ⟨bss, ?_⟩
    simp only [afterRecv, recvObs, hret, logUpd]
    refine goodK_recv_gen proc b hb owner X b { nd with con := r.1 } _ X.log _ pubF bss bss pubJ h
      (by simp only [deliverReqs, List.length_mapIdx, List.length_set]; exact h.len)
      (fun x => recv_lookupR (joinSinkTopo b) X.st.nodes b nd.gen _ _ (ik_noself b b) hjlen x)
      ?_ (hnoJ _) (fun _ _ => rfl) rfl (by intro hc; omega) ?_ (by intro hc; omega) (by intro hc; omega) ?_ h.blkok
      (by intro hc; omega) (fun hc => absurd rfl hc)
    · refine hmid _ nd.con.prevId ?_ ?_
      · intro x hx
        have := hlast x hx
        have h3 := hJ.le x hx
        have h4 := hJ.cnt
        omega
      · intro o ho
        rcases houts o ho with rfl | hc
        · exact Or.inl rfl
        · exact Or.inr (Or.inr hc)
    · intro _
      refine ⟨fun hc => absurd hc (by omega), ?_, ?_⟩
      · intro _ hc; simp only [hpn] at hc; cases hc
      · intro h0 k hk'
        simp only at hk' ⊢
        rw [hprev]; exact hG.recvSt h0 k hk'
    · intro _
      refine ⟨⟨?_, hin, ?_, hJ.link, hJ.bodies, hJ.le, hJ.log⟩, ?_⟩
      · show KInv _ owner r.1 (r.1.prevId + 1) bss
        rw [hprev]; exact hk
      · show r.1.prevId + 1 = (nd.count : Int)
        rw [hprev]; exact hJ.cnt
      · exact pubInv_frame proc X _ b nd _ pubJ hpj rfl rfl rfl rfl rfl rfl rfl hpj.nq hpj.reqs
  · refine ⟨fun j => (bss j).tail, ?_⟩
    have hret : retOf r.2 = some (nd.con.prevId + 1, 0,
        (List.range nd.con.srcs.length).flatMap fun j => visDataJ j (nd.con.prevId + 1) (headTs (bss j))) := by
      rw [houts]; exact retOf_reqs _ _ _ _ reqs hreqs
    have hlt : ∀ jj, jj < b → nd.count < (pubF jj).length ∧
        ∃ blk bs', bss jj = blk :: bs' ∧ (pubF jj)[nd.count]? = some (cblk X.st.tbl blk) := by
      intro jj hjj
      rcases hne jj (by omega) with ⟨blk, bs', e⟩
      have hl := hJ.link jj hjj
      rw [e, List.map_cons] at hl
      have hget : (pubF jj)[nd.count]? = some (cblk X.st.tbl blk) := by
        have := congrArg List.head? hl
        rw [List.head?_drop] at this
        simpa using this
      exact ⟨(List.getElem?_eq_some_iff.mp hget).1, blk, bs', e, hget⟩
    have hcontents : (((List.range nd.con.srcs.length).flatMap fun j => visDataJ j (nd.con.prevId + 1) (headTs (bss j))).map
        (hframe X.st.tbl)).map (fun f => (f.topic, f.content)) =
        (List.range b).flatMap fun jj => (visB (((pubF jj)[nd.count]?).getD (0, []))).2 := by
      rw [hslen, List.map_flatMap, List.map_flatMap]
      apply flatMap_congr_mem
      intro jj hjj
      rw [List.mem_range] at hjj
      rcases hlt jj hjj with ⟨_, blk, bs', e, hget⟩
      rw [hget, e, handed_contentsJ]
      rfl
    have hnames : NamesOK ((List.range b).flatMap fun jj => (visB (((pubF jj)[nd.count]?).getD (0, []))).2) := by
      have e : ((List.range b).flatMap fun jj => (visB (((pubF jj)[nd.count]?).getD (0, []))).2) =
          (List.range b).flatMap fun jj => (visB (cblk X.st.tbl (((bss jj).head?).getD (0, [])))).2 := by
        apply flatMap_congr_mem
        intro jj hjj
        rw [List.mem_range] at hjj
        rcases hlt jj hjj with ⟨_, blk, bs', e, hget⟩
        rw [hget, e]; rfl
      rw [e]
      apply namesOK_joined owner
      · intro jj hjj
        rcases hlt jj hjj with ⟨_, blk, bs', e, _⟩
        rw [e]; exact h.blkok jj hjj blk (by rw [e]; exact List.mem_cons_self ..)
      · intro jj hjj x hx
        rcases hlt jj hjj with ⟨_, blk, bs', e, _⟩
        rw [e] at hx
        exact hJ.kinv.own jj blk (by rw [e]; exact List.mem_cons_self ..) x hx
    simp only [afterRecv, recvObs, hret, logUpd]
    refine goodK_recv_gen proc b hb owner X b _ _ _ _ pubF bss (fun j => (bss j).tail) pubJ h
      (by simp only [deliverReqs, List.length_mapIdx, List.length_set]; exact h.len)
      (fun x => recv_lookupR (joinSinkTopo b) X.st.nodes b nd.gen _ _ (ik_noself b b) hjlen x)
      ?_ (hnoJ _) (fun x hx => by simp only [hx, ↓reduceIte]) ?_
      (by intro hc; omega) ?_ (by intro hc; omega) (by intro hc; omega) ?_ ?_ (by intro hc; omega) (fun hc => absurd rfl hc)
    · refine hmid _ (nd.con.prevId + 1) ?_ ?_
      · intro x hx
        have := hlast x hx
        have h3 := (hlt x hx).1
        have h4 := hJ.cnt
        omega
      · intro o ho
        rw [houts, List.mem_append] at ho
        rcases ho with ho | ho
        · exact Or.inr (Or.inr (hreqs o ho))
        · simp only [List.mem_singleton] at ho
          exact Or.inr (Or.inl ⟨_, _, _, ho⟩)
    · have h0b : ¬ 0 = b := by omega
      simp only [h0b, ↓reduceIte]
    · intro _
      refine ⟨fun hc => absurd hc (by omega), ?_, ?_⟩
      · intro _ _
        have := hJ.kinv.nonneg
        exact ⟨by simp only [processed, hprev], by simp only [processed, hprev]; exact this⟩
      · intro _ k' hk'
        simp only [processed] at hk'; cases hk'
    · intro _
      refine ⟨⟨?_, hin, ?_, ?_, ?_, ?_, ?_⟩, ?_⟩
      · show KInv _ owner r.1 (r.1.prevId + 1) _
        rw [hprev]; exact hk
      · show r.1.prevId + 1 = ((nd.count + 1 : Nat) : Int)
        rw [hprev]; have := hJ.cnt; omega
      · intro jj hjj
        show (pubF jj).drop (nd.count + 1) = _
        rw [← List.tail_drop, hJ.link jj hjj, List.map_tail]
      · intro jj hjj blk hblk
        exact hJ.bodies jj hjj blk (List.mem_of_mem_tail hblk)
      · intro jj hjj
        show nd.count + 1 ≤ _
        have := (hlt jj hjj).1; omega
      · show (if b = b then _ else _) = joinLogS b pubF (nd.count + 1)
        simp only [↓reduceIte]
        rw [joinLogS_succ, hJ.log, hcontents]
        congr 3
        have := hJ.cnt; omega
      · refine pubInv_after_join proc hp X _ b nd r.1 (nd.con.prevId + 1) _ pubJ (by omega) hpn hpj ?_ ?_ ?_ ?_
        · rw [hcontents]; exact hnames
        · show (if b = b then _ else _) = _
          simp only [↓reduceIte]
        · rw [hJ.log]; simp [joinLogS]
        · intro y hy
          rw [hJ.log] at hy
          have := joinLogS_ids b pubF nd.count y hy
          have := hJ.cnt; omega
    · intro jj hjj blk hblk
      exact h.blkok jj hjj blk (List.mem_of_mem_tail hblk)

/-! ## `nodeRecv` of the sink -/

theorem goodK_recvSink (proc : Proc) (b : Nat) (hb : 1 ≤ b) (owner : Topic → Nat) (X : LSt) (nd : Node)
    (pubF : Nat → List HSet) (bss : Nat → List Blk) (pubJ : List HSet) (h : GoodKW proc b owner X pubF bss pubJ)
    (hn : X.st.nodes[b + 1]? = some nd) (hpn : nd.pending = none) :
    GoodKW proc b owner (LSt.mk (recvRelay (joinSinkTopo b) proc X.st (b + 1) nd).1
      (logUpd X.log (.nodeRecv (b + 1)) (recvRelay (joinSinkTopo b) proc X.st (b + 1) nd).2)) pubF bss pubJ := by
  have hbL : b < X.st.nodes.length := by rw [h.len]; omega
  have hP : X.st.nodes[b]? = some X.st.nodes[b] := List.getElem?_eq_getElem hbL
  generalize X.st.nodes[b] = P at hP
  have hpubU := h.pj P hP
  rcases h.ck nd hn with ⟨bsW, s, hcon⟩
  have hups : (joinSinkTopo b).upsOf (b + 1) = [b] := ik_upsK b
  have hsrcs : nd.con.srcs = [s] := hcon.rest.idle.srcs
  have hprio : List.range nd.con.srcs.length = [0] := by rw [hsrcs]; rfl
  have hG := h.nodeK nd hn
  have hst : ∀ k, nd.recvState = some k → k ≤ nd.con.prevId + 1 := hG.recvSt (by omega)
  have ⟨hlinc, hllen, hle⟩ := con_log_inc X b nd pubJ bsW s hcon hpubU.inc
  have hjlen : b + 1 < X.st.nodes.length := (List.getElem?_eq_some_iff.mp hn).1
  have hmidS : ∀ (outs : List Recv.Out), ∀ x, x < b → ∀ r ∈ outs.filterMap (reqOf (b + 1) nd.gen [b] x), r.mid ≤ lastId (pubF x) := by
    intro outs x hx r hr
    rw [List.mem_filterMap] at hr
    rcases hr with ⟨o, hoo, hro⟩
    rw [reqOf_other (b + 1) nd.gen b x (by omega) o] at hro
    cases hro
  have hmidJ : ∀ (outs : List Recv.Out) (m : Int), m ≤ lastId pubJ →
      (∀ o ∈ outs, o = .retNone ∨ (∃ k' bal data, o = .ret k' bal data) ∨ ∃ i e n, o = .req i m e n) →
      ∀ r ∈ outs.filterMap (reqOf (b + 1) nd.gen [b] b), r.mid ≤ lastId pubJ := by
    intro outs m hm ho r hr
    rw [List.mem_filterMap] at hr
    rcases hr with ⟨o, hoo, hro⟩
    rcases reqOf_some _ _ _ _ _ _ hro with ⟨k', e, n, rfl, hk'⟩
    rcases ho _ hoo with hc | ⟨_, _, _, hc⟩ | ⟨_, _, _, hc⟩
    · cases hc
    · cases hc
    · cases hc; exact hm
  unfold recvRelay
  rw [hprio]
  rcases OF.Chain.call0_chain b nd.con s nd.recvState s.queue bsW hcon.rest rfl hcon.chan hst with
    ⟨hb0, c1, s1, e1, hrest, hprev, hq1, _⟩ | ⟨k, ts, bs', c1, s1, q', hb0, hbk, hlt, e1, hrest, hprev, hq1, hch, _⟩
  · rw [e1]
    have hret : retOf [Recv.Out.req 0 nd.con.prevId 0 (!s1.conn), Recv.Out.retNone] = none := rfl
    simp only [afterRecv, recvObs, hret, logUpd]
    subst hb0
    refine goodK_recv_gen proc b hb owner X (b + 1) { nd with con := c1 } _ X.log _ pubF bss bss pubJ h
      (by simp only [deliverReqs, List.length_mapIdx, List.length_set]; exact h.len)
      (fun x => recv_lookupR (joinSinkTopo b) X.st.nodes (b + 1) nd.gen _ _ (ik_noself b (b + 1)) hjlen x)
      ?_ ?_ (fun _ _ => rfl) rfl (by intro hc; omega) (by intro hc; omega) ?_ (by intro hc; omega) (by intro hc; omega) h.blkok ?_
      (fun _ => rfl)
    · rw [hups]; exact hmidS _
    · rw [hups]
      refine hmidJ _ nd.con.prevId hle ?_
      intro o ho
      simp only [List.mem_cons, List.mem_nil_iff, or_false] at ho
      rcases ho with rfl | rfl
      · exact Or.inr (Or.inr ⟨_, _, _, rfl⟩)
      · exact Or.inl rfl
    · intro _
      refine ⟨fun hc => absurd hc (by omega), ?_, ?_⟩
      · intro _ hc; simp only [hpn] at hc; cases hc
      · intro h0 k hk
        simp only at hk ⊢
        rw [hprev]; exact hG.recvSt h0 k hk
    · intro _
      refine ⟨[], s1, hrest, ?_, (by intro b hb; cases hb), hcon.queued, hcon.handed, hcon.cnt,
        (by show c1.prevId = _; rw [hprev]; exact hcon.prev)⟩
      simp only; rw [hq1]; exact ChanQ.nil _
  · rw [e1]
    have hret : retOf [Recv.Out.req 0 k 0 false, Recv.Out.ret k 0 (visData k ts)] = some (k, 0, visData k ts) := rfl
    subst hb0
    simp only [afterRecv, recvObs, hret, logUpd]
    have hlogeq : (fun x => if x = b + 1 then X.log x ++ [(k, ((visData k ts).map (hframe X.st.tbl)).map fun f => (f.topic, f.content))] else X.log x) =
        fun x => if x = b + 1 then X.log (b + 1) ++ [visB (cblk X.st.tbl (k, ts))] else X.log x := by
      funext x
      by_cases hx : x = b + 1
      · subst hx; simp only [↓reduceIte]; rw [handed_contents]; rfl
      · simp only [hx, ↓reduceIte]
    rw [hlogeq]
    have hkpub : cblk X.st.tbl (k, ts) ∈ pubJ := by
      have : cblk X.st.tbl (k, ts) ∈ pubJ.drop nd.count := by
        rw [hcon.queued]; exact List.mem_map_of_mem (f := cblk X.st.tbl) (List.mem_cons_self ..)
      exact List.mem_of_mem_drop this
    have hk0 : 0 ≤ k := by have := hcon.rest.idle.prev; omega
    refine goodK_recv_gen proc b hb owner X (b + 1)
      (processed proc (b + 1) { nd with con := c1, sendState := some (k, 0), recvState := none } ((visData k ts).map (hframe X.st.tbl)))
      _ (fun x => if x = b + 1 then X.log (b + 1) ++ [visB (cblk X.st.tbl (k, ts))] else X.log x) _ pubF bss bss pubJ h
      (by simp only [deliverReqs, List.length_mapIdx, List.length_set]; exact h.len)
      (fun x => recv_lookupR (joinSinkTopo b) X.st.nodes (b + 1) nd.gen _ _ (ik_noself b (b + 1)) hjlen x)
      ?_ ?_ (fun x hx => by simp only [hx, ↓reduceIte]) (by simp only [show ¬ 0 = b + 1 by omega, ↓reduceIte])
      (by intro hc; omega) (by intro hc; omega) ?_ (by intro hc; omega) (by intro hc; omega) h.blkok ?_ (fun _ => rfl)
    · rw [hups]; exact hmidS _
    · rw [hups]
      refine hmidJ _ k (lastId_ge pubJ hpubU.inc _ hkpub) ?_
      intro o ho
      simp only [List.mem_cons, List.mem_nil_iff, or_false] at ho
      rcases ho with rfl | rfl
      · exact Or.inr (Or.inr ⟨_, _, _, rfl⟩)
      · exact Or.inr (Or.inl ⟨_, _, _, rfl⟩)
    · intro _
      refine ⟨fun hc => absurd hc (by omega), ?_, ?_⟩
      · intro _ _
        exact ⟨by simp only [processed, hprev], by simp only [processed, hprev]; exact hk0⟩
      · intro _ k' hk'
        simp only [processed] at hk'; cases hk'
    · intro _
      exact ⟨bs', s1, conInv_after_set proc X _ b (b + 1) nd c1 s1 k ts bs' q' pubJ s _ hcon hrest hprev hq1 hch rfl
        (by simp only [↓reduceIte])⟩

theorem goodK_stepRecv (proc : Proc) (hp : ProcNames proc) (b : Nat) (hb : 1 ≤ b) (owner : Topic → Nat) (X : LSt) (j : Nat)
    (h : GoodK proc b owner X) : GoodK proc b owner (lstep (joinSinkTopo b) proc X (.nodeRecv j)) := by
  rcases h with ⟨pubF, bss, pubJ, hw⟩
  unfold lstep
  simp only [step, stepRecv]
  cases hn : X.st.nodes[j]? with
  | none => exact goodK_eta proc b owner X ⟨pubF, bss, pubJ, hw⟩
  | some nd =>
    simp only
    have hjL : j < b + 2 := by rw [← hw.len]; exact (List.getElem?_eq_some_iff.mp hn).1
    by_cases hpend : nd.pending.isSome = true
    · simp only [hpend, ↓reduceIte]
      exact goodK_eta proc b owner X ⟨pubF, bss, pubJ, hw⟩
    · have hpn : nd.pending = none := by
        cases hc : nd.pending with
        | none => rfl
        | some x => rw [hc] at hpend; simp at hpend
      simp only [hpend, Bool.false_eq_true, ↓reduceIte]
      by_cases hjb : j < b
      · have hsrc : nd.con.srcs.isEmpty = true := by rw [((hw.nodeS j nd hjb hn).src rfl).1]; rfl
        simp only [hsrc, ↓reduceIte, recvSource, logUpd]
        exact ⟨pubF, bss, pubJ, goodK_recvSource proc hp b hb owner X j nd pubF bss pubJ hw hjb hn hpn⟩
      · by_cases hjJ : j = b
        · subst hjJ
          have hlen : nd.con.srcs.length = j := by rw [(hw.join nd hn).kinv.len]; simp
          have hne : nd.con.srcs.isEmpty = false := by
            cases hs : nd.con.srcs with
            | nil => rw [hs] at hlen; simp at hlen; omega
            | cons a l => rfl
          simp only [hne, Bool.false_eq_true, ↓reduceIte]
          rcases goodK_recvJoin proc hp j hb owner X nd pubF bss pubJ hw hn hpn with ⟨bss', hw'⟩
          exact ⟨pubF, bss', pubJ, hw'⟩
        · have hjK : j = b + 1 := by omega
          subst hjK
          rcases hw.ck nd hn with ⟨bsW, s, hcon⟩
          have hne : nd.con.srcs.isEmpty = false := by rw [hcon.rest.idle.srcs]; rfl
          simp only [hne, Bool.false_eq_true, ↓reduceIte]
          exact ⟨pubF, bss, pubJ, goodK_recvSink proc b hb owner X nd pubF bss pubJ hw hn hpn⟩

/-! ## `nodeSend` -/

/-- generic re-assembly after publisher `j ≤ b` (a source or the join) ran `send` -/
theorem goodK_send_gen (proc : Proc) (b : Nat) (hb : 1 ≤ b) (owner : Topic → Nat) (X : LSt) (j : Nat) (nd nd' : Node)
    (es : List Entry) (ws : List Wire) (nodes' : List Node) (pubF pubF' : Nat → List HSet) (bss bss' : Nat → List Blk)
    (pubJ pubJ' : List HSet)
    (h : GoodKW proc b owner X pubF bss pubJ) (hn : X.st.nodes[j]? = some nd) (hjb : j ≤ b) (hlen : nodes'.length = b + 2)
    (hlook : ∀ (x : Nat), nodes'[x]? = if x = j then some nd'
        else (X.st.nodes[x]?).map fun C => { C with con := pushWires C.con ((joinSinkTopo b).upsOf x) j ws })
    (hGS : j < b → NodeG 0 nd') (hGJ : j = b → NodeG b nd')
    (hpubF : ∀ u, u ≠ j → pubF' u = pubF u)
    (hpubS : j < b → PubInv (srcProc proc j) { st := { nodes := nodes', tbl := X.st.tbl ++ es }, log := X.log } 0 nd' (pubF' j))
    (hjoinS : j < b → ∀ (J : Node), X.st.nodes[b]? = some J →
      JInvS b owner { st := { nodes := nodes', tbl := X.st.tbl ++ es }, log := X.log }
        { J with con := pushWires J.con (List.range b) j ws } pubF' bss')
    (hblk : ∀ jj, jj < b → ∀ blk ∈ bss' jj, BlkOK blk.2)
    (hpjS : j < b → pubJ' = pubJ)
    (hbssJ : j = b → bss' = bss)
    (hconJ : j = b → nd'.con = nd.con ∧ nd'.count = nd.count)
    (hpjJ : j = b → PubInv proc { st := { nodes := nodes', tbl := X.st.tbl ++ es }, log := X.log } b nd' pubJ')
    (hckJ : j = b → ∀ (K : Node), X.st.nodes[b + 1]? = some K →
      ∃ bsW s, ConInv { st := { nodes := nodes', tbl := X.st.tbl ++ es }, log := X.log } b
        { K with con := pushWires K.con [b] b ws } pubJ' bsW s) :
    GoodKW proc b owner { st := { nodes := nodes', tbl := X.st.tbl ++ es }, log := X.log } pubF' bss' pubJ' := by
  have hother : ∀ (x : Nat) (n' : Node), x ≠ j → nodes'[x]? = some n' →
      ∃ C, X.st.nodes[x]? = some C ∧ n' = { C with con := pushWires C.con ((joinSinkTopo b).upsOf x) j ws } := by
    intro x n' hx hn'
    rw [hlook] at hn'
    simp only [hx, ↓reduceIte] at hn'
    cases hP : X.st.nodes[x]? with
    | none => rw [hP] at hn'; cases hn'
    | some P =>
      rw [hP] at hn'
      simp only [Option.map_some, Option.some.injEq] at hn'
      exact ⟨P, rfl, hn'.symm⟩
  have hself : ∀ (n' : Node), nodes'[j]? = some n' → n' = nd' := by
    intro n' hn'
    rw [hlook] at hn'
    simp only [↓reduceIte, Option.some.injEq] at hn'
    exact hn'.symm
  refine ⟨hlen, by simp only [List.length_append]; have := h.tbl; omega, ?_, ?_, ?_, ?_, ?_, hblk, ?_, ?_⟩
  · intro x n' hxb hx
    by_cases hxj : x = j
    · subst hxj; rw [hself n' hx]; exact hGS hxb
    · rcases hother x n' hxj hx with ⟨C, hC, rfl⟩
      rw [ik_upsSrc b x hxb, pushWires_noop C.con [] j ws (by intro k; simp)]
      exact h.nodeS x C hxb hC
  · intro n' hx
    by_cases hxj : b = j
    · subst hxj; rw [hself n' hx]; exact hGJ rfl
    · rcases hother b n' hxj hx with ⟨C, hC, rfl⟩
      exact nodeG_push b C _ _ _ (h.nodeJ C hC) (by omega)
  · intro n' hx
    rcases hother (b + 1) n' (by omega) hx with ⟨C, hC, rfl⟩
    exact nodeG_push (b + 1) C _ _ _ (h.nodeK C hC) (by omega)
  · intro u P' hub hu
    by_cases hxj : u = j
    · subst hxj; rw [hself P' hu]; exact hpubS hub
    · rcases hother u P' hxj hu with ⟨C, hC, rfl⟩
      rw [hpubF u hxj]
      have hp := h.pubs u C hub hC
      exact pubInv_frame (srcProc proc u) X _ 0 C _ (pubF u) hp rfl rfl rfl rfl rfl rfl rfl hp.nq hp.reqs
  · intro J' hJ'
    by_cases hxj : b = j
    · subst hxj
      rw [hself J' hJ', hbssJ rfl]
      have hpe : ∀ jj, jj < b → pubF' jj = pubF jj := fun jj hjj => hpubF jj (by omega)
      have hJ0 := h.join nd hn
      have hJ1 : JInvS b owner { st := { nodes := nodes', tbl := X.st.tbl ++ es }, log := X.log } nd' pubF bss :=
        jinvS_frame b owner X _ nd nd' pubF bss es hJ0 rfl rfl (hconJ rfl).1 (hconJ rfl).2
      exact ⟨hJ1.kinv, hJ1.idle, hJ1.cnt, fun jj hjj => by rw [hpe jj hjj]; exact hJ1.link jj hjj, hJ1.bodies,
        fun jj hjj => by rw [hpe jj hjj]; exact hJ1.le jj hjj,
        by rw [joinLogS_congr_lt b pubF pubF' nd'.count (fun jj hjj n _ => by rw [hpe jj hjj])]; exact hJ1.log⟩
    · rcases hother b J' hxj hJ' with ⟨J, hJ, rfl⟩
      rw [ik_upsJ]
      exact hjoinS (by omega) J hJ
  · intro J' hJ'
    by_cases hxj : b = j
    · subst hxj; rw [hself J' hJ']; exact hpjJ rfl
    · rcases hother b J' hxj hJ' with ⟨J, hJ, rfl⟩
      rw [hpjS (by omega)]
      have hp := h.pj J hJ
      exact pubInv_frame proc X _ b J _ pubJ hp rfl rfl rfl rfl rfl rfl rfl hp.nq hp.reqs
  · intro K' hK'
    rcases hother (b + 1) K' (by omega) hK' with ⟨K, hK, rfl⟩
    rw [ik_upsK]
    by_cases hxj : j = b
    · subst hxj; exact hckJ rfl K hK
    · rw [hpjS (by omega), pushWires_noop K.con [b] j ws (by
        intro k
        cases k with
        | zero => simp; omega
        | succ k => simp)]
      rcases h.ck K hK with ⟨bsW, s, hc⟩
      exact ⟨bsW, s, conInv_frame _ _ b K K pubJ bsW s es hc rfl rfl rfl rfl⟩

/-- `send` of a source below which there is a join with a sink -/
theorem goodK_sendSource (proc : Proc) (b : Nat) (hb : 1 ≤ b) (owner : Topic → Nat) (hown : OwnedSrc proc b owner) (X : LSt)
    (j : Nat) (t : Int) (nd : Node) (p : Pending) (pubF : Nat → List HSet) (bss : Nat → List Blk) (pubJ : List HSet)
    (h : GoodKW proc b owner X pubF bss pubJ) (hn : X.st.nodes[j]? = some nd) (hpend : nd.pending = some p) (hjb : j < b) :
    ∃ pubF' bss', GoodKW proc b owner (LSt.mk (sendReal (joinSinkTopo b) X.st j nd p t).1 X.log) pubF' bss' pubJ := by
  have hjL : j < X.st.nodes.length := (List.getElem?_eq_some_iff.mp hn).1
  have hpub := h.pubs j nd hjb hn
  have hG := h.nodeS j nd hjb hn
  have hpis : nd.pending.isSome = true := by rw [hpend]; rfl
  have ⟨hout, hsid0⟩ := send_outcome_src (srcProc proc j) X j t nd p (pubF j) hpub hG hpend
  have hpay : payloadOf X.st.tbl.length p.res = .deferred ((dictOf p.res).map (relabel X.st.tbl.length)) := rfl
  unfold sendReal
  simp only [hpay]
  generalize hr : Send.send0 nd.pub nd.sendState (.deferred ((dictOf p.res).map (relabel X.st.tbl.length))) false [0] t = r at hout
  rcases hout with ⟨o1, o2, o3, o4, hcase⟩
  have hlen' : ∀ (nd' : Node) (ws : List Wire), (deliverWires (joinSinkTopo b) (X.st.nodes.set j nd') j ws).length = b + 2 := by
    intro nd' ws; simp only [deliverWires, List.length_mapIdx, List.length_set]; exact h.len
  have hlook := fun nd' ws => send_lookupJ (joinSinkTopo b) X.st.nodes j nd' ws (ik_noself b j) hjL
  have hne : ¬ j = b := by omega
  rcases hcase with ⟨m1, m2, m3, m4⟩ | ⟨hrn, m1, m2, m3, m4⟩ | ⟨ts, hrs, m1, m2, m3, m4⟩
  · -- time-out
    have haft : afterSend nd p r = { nd with pub := r.1 } := by unfold afterSend; rw [m2]
    rw [haft]
    refine ⟨pubF, bss, goodK_send_gen proc b hb owner X j nd _ _ _ _ pubF pubF bss bss pubJ pubJ h hn (by omega) (hlen' _ _) (hlook _ _)
      (fun _ => nodeG_frame 0 nd _ hG rfl rfl rfl rfl) (fun hc => absurd hc hne) (fun _ _ => rfl) ?_ ?_ h.blkok (fun _ => rfl)
      (fun hc => absurd hc hne) (fun hc => absurd hc hne) (fun hc => absurd hc hne) (fun hc => absurd hc hne)⟩
    · intro _
      exact pubInv_frame (srcProc proc j) X _ 0 nd { nd with pub := r.1 } (pubF j) hpub rfl rfl rfl rfl (o1.trans hpub.idle.symm)
        (o2.trans hpub.bal.symm) m1 o3 (fun q hq x hx => (o4 q hq x hx).2)
    · intro _ J hJ
      exact jinvS_hellos b owner X J pubF bss j _ _ _ (h.join J hJ) hjb m4
  · -- the callable returned None
    have hd : dictOf p.res = none := by
      cases hdd : dictOf p.res with
      | none => rfl
      | some d => rw [hdd] at hrn; cases hrn
    have haft : afterSend nd p r = { nd with pub := r.1, pending := none, sendState := none, recvState := none } := by
      unfold afterSend; rw [m2]; simp only [m3, hd, Option.isNone_none, Bool.and_self, ↓reduceIte]
    rw [haft]
    refine ⟨pubF, bss, goodK_send_gen proc b hb owner X j nd _ _ _ _ pubF pubF bss bss pubJ pubJ h hn (by omega) (hlen' _ _) (hlook _ _)
      (fun _ => ⟨fun h0 => ⟨(hG.src h0).1, rfl⟩, (by intro _ hc; cases hc), (by intro _ k hk; cases hk)⟩) (fun hc => absurd hc hne)
      (fun _ _ => rfl) ?_ ?_ h.blkok (fun _ => rfl)
      (fun hc => absurd hc hne) (fun hc => absurd hc hne) (fun hc => absurd hc hne) (fun hc => absurd hc hne)⟩
    · intro _
      refine ⟨?_, hpub.inc, o1, o2, o3, m1.trans hpub.minSend, fun q hq x hx => (o4 q hq x hx).2, (by intro hc; cases hc),
        (by intro q d hq; cases hq)⟩
      have := hpub.prod
      rw [pendOf_nodict nd p hpend hd] at this
      simp only [prodOf] at this ⊢
      rw [this]; rfl
    · intro _ J hJ
      exact jinvS_hellos b owner X J pubF bss j _ _ _ (h.join J hJ) hjb m4
  · -- the block is published
    have hd : ∃ d, dictOf p.res = some d ∧ ts = relabel X.st.tbl.length d := by
      cases hdd : dictOf p.res with
      | none => rw [hdd] at hrs; cases hrs
      | some d => rw [hdd] at hrs; simp only [Option.map_some, Option.some.injEq] at hrs; exact ⟨d, rfl, hrs.symm⟩
    rcases hd with ⟨d, hd, rfl⟩
    have haft : afterSend nd p r = { nd with pub := r.1, pending := none, sendState := none, recvState := some (sendId nd + 1) } := by
      unfold afterSend; rw [m2]; simp only [m3, hd, Option.isNone_some, Bool.and_false, Bool.false_eq_true, ↓reduceIte]
    have hent : entriesOf p.res (sendOrigin j nd p) = d.map fun q => ({ content := q.2, orig := sendOrigin j nd p } : Entry) := by
      simp only [entriesOf, hd, Option.getD_some]
    rw [haft, m4, hent]
    have hnames := hpub.names p d hpend hd
    have hGn : NodeG 0 { nd with pub := r.1, pending := none, sendState := none, recvState := some (sendId nd + 1) } :=
      ⟨fun h0 => ⟨(hG.src h0).1, rfl⟩, (by intro _ hc; cases hc), (by intro hc; omega)⟩
    have hpubN : ∀ (nodes' : List Node), PubInv (srcProc proc j)
        { st := { nodes := nodes', tbl := X.st.tbl ++ d.map fun q => ({ content := q.2, orig := sendOrigin j nd p } : Entry) }, log := X.log }
        0 { nd with pub := r.1, pending := none, sendState := none, recvState := some (sendId nd + 1) } (pubF j ++ [(sendId nd, d)]) := by
      intro nodes'
      refine ⟨?_, idsInc_snoc (pubF j) _ hpub.inc (hpub.strict hpis) hsid0, o1, o2, o3, (by rw [m1, lastId_snoc]), ?_,
        (by intro hc; cases hc), (by intro q d' hq; cases hq)⟩
      · have := hpub.prod
        rw [pendOf_some nd p d hpend hd] at this
        simp only [prodOf] at this ⊢
        rw [this]; simp [pendOf]
      · intro q hq x hx
        rw [lastId_snoc]
        have := (o4 q hq x hx).1; simp only; omega
    have hprodI : IdsIdx (pubF j ++ pendOf nd) := by
      have := hpub.prod
      simp only [prodOf, ↓reduceIte] at this
      rw [← this]; exact srcBlocks_idx _ nd.count
    have hsid : sendId nd = ((pubF j).length : Int) := pendOf_sendId nd p d (pubF j) hpend hd hprodI
    have hdp : ∃ n, dictOf (Loop.processFrames (proc j n [])) = some d := by
      have hpr := hpub.prod
      rw [pendOf_some nd p d hpend hd] at hpr
      have hmem : (sendId nd, d) ∈ prodOf (srcProc proc j) X 0 nd := by rw [hpr]; simp
      simp only [prodOf, ↓reduceIte] at hmem
      exact srcBlocks_dict (srcProc proc j) _ _ hmem
    rcases hdp with ⟨n, hdn⟩
    refine ⟨fun u => if u = j then pubF j ++ [(sendId nd, d)] else pubF u,
      fun jj => if jj = j then bss j ++ [(sendId nd, relabel X.st.tbl.length d)] else bss jj,
      goodK_send_gen proc b hb owner X j nd _ _ _ _ pubF _ bss _ pubJ pubJ h hn (by omega) (hlen' _ _) (hlook _ _) (fun _ => hGn)
        (fun hc => absurd hc hne) (fun u hu => by simp only [hu, ↓reduceIte]) (by intro _; simp only [↓reduceIte]; exact hpubN _) ?_ ?_
        (fun _ => rfl) (fun hc => absurd hc hne) (fun hc => absurd hc hne) (fun hc => absurd hc hne) (fun hc => absurd hc hne)⟩
    · intro _ J hJ
      exact jinvS_block b owner X J pubF bss j (sendId nd) d _ _ (h.join J hJ) hjb hsid hnames (hown j n d hjb hdn)
    · intro jj hjj blk hblk
      by_cases hjj' : jj = j
      · simp only [hjj', ↓reduceIte] at hblk
        rw [List.mem_append] at hblk
        rcases hblk with hblk | hblk
        · exact h.blkok j hjb blk hblk
        · simp only [List.mem_singleton] at hblk
          subst hblk
          exact blkOK_relabel d _ hnames
      · simp only [hjj', ↓reduceIte] at hblk
        exact h.blkok jj hjj blk hblk

/-- `send` of the join: its result goes to the sink under the id of the set it was computed from -/
theorem goodK_sendJoin (proc : Proc) (b : Nat) (hb : 1 ≤ b) (owner : Topic → Nat) (X : LSt)
    (t : Int) (nd : Node) (p : Pending) (pubF : Nat → List HSet) (bss : Nat → List Blk) (pubJ : List HSet)
    (h : GoodKW proc b owner X pubF bss pubJ) (hn : X.st.nodes[b]? = some nd) (hpend : nd.pending = some p) :
    ∃ pubJ', GoodKW proc b owner (LSt.mk (sendReal (joinSinkTopo b) X.st b nd p t).1 X.log) pubF bss pubJ' := by
  have hjL : b < X.st.nodes.length := (List.getElem?_eq_some_iff.mp hn).1
  have hpub := h.pj nd hn
  have hG := h.nodeJ nd hn
  have hpis : nd.pending.isSome = true := by rw [hpend]; rfl
  have ⟨hout, hsid0⟩ := send_outcome_gen proc X b t nd p pubJ hpub hG hpend
  have hpay : payloadOf X.st.tbl.length p.res = .deferred ((dictOf p.res).map (relabel X.st.tbl.length)) := rfl
  unfold sendReal
  simp only [hpay]
  generalize hr : Send.send0 nd.pub nd.sendState (.deferred ((dictOf p.res).map (relabel X.st.tbl.length))) false [0] t = r at hout
  rcases hout with ⟨o1, o2, o3, o4, hcase⟩
  have hlen' : ∀ (nd' : Node) (ws : List Wire), (deliverWires (joinSinkTopo b) (X.st.nodes.set b nd') b ws).length = b + 2 := by
    intro nd' ws; simp only [deliverWires, List.length_mapIdx, List.length_set]; exact h.len
  have hlook := fun nd' ws => send_lookupJ (joinSinkTopo b) X.st.nodes b nd' ws (ik_noself b b) hjL
  have hnlt : ¬ b < b := by omega
  rcases hcase with ⟨m1, m2, m3, m4⟩ | ⟨hrn, m1, m2, m3, m4⟩ | ⟨ts, hrs, m1, m2, m3, m4⟩
  · -- time-out
    have haft : afterSend nd p r = { nd with pub := r.1 } := by unfold afterSend; rw [m2]
    rw [haft]
    refine ⟨pubJ, goodK_send_gen proc b hb owner X b nd _ _ _ _ pubF pubF bss bss pubJ pubJ h hn (by omega) (hlen' _ _) (hlook _ _)
      (fun hc => absurd hc hnlt) (fun _ => nodeG_frame b nd _ hG rfl rfl rfl rfl) (fun _ _ => rfl) (fun hc => absurd hc hnlt)
      (fun hc => absurd hc hnlt) h.blkok (fun hc => absurd hc hnlt) (fun _ => rfl) (fun _ => ⟨rfl, rfl⟩) ?_ ?_⟩
    · intro _
      exact pubInv_frame proc X _ b nd { nd with pub := r.1 } pubJ hpub rfl rfl rfl rfl (o1.trans hpub.idle.symm)
        (o2.trans hpub.bal.symm) m1 o3 (fun q hq x hx => (o4 q hq x hx).2)
    · intro _ K hK
      rcases h.ck K hK with ⟨bsW, s, hc⟩
      exact ⟨bsW, _, conInv_hellos X b K pubJ bsW s _ _ _ hc m4⟩
  · -- the callable returned None
    have hd : dictOf p.res = none := by
      cases hdd : dictOf p.res with
      | none => rfl
      | some d => rw [hdd] at hrn; cases hrn
    have haft : afterSend nd p r = { nd with pub := r.1, pending := none, sendState := none, recvState := none } := by
      unfold afterSend; rw [m2]; simp only [m3, hd, Option.isNone_none, Bool.and_self, ↓reduceIte]
    rw [haft]
    refine ⟨pubJ, goodK_send_gen proc b hb owner X b nd _ _ _ _ pubF pubF bss bss pubJ pubJ h hn (by omega) (hlen' _ _) (hlook _ _)
      (fun hc => absurd hc hnlt)
      (fun _ => ⟨fun h0 => absurd h0 (by omega), (by intro _ hc; cases hc), (by intro _ k hk; cases hk)⟩) (fun _ _ => rfl)
      (fun hc => absurd hc hnlt) (fun hc => absurd hc hnlt) h.blkok (fun hc => absurd hc hnlt) (fun _ => rfl) (fun _ => ⟨rfl, rfl⟩) ?_ ?_⟩
    · intro _
      refine ⟨?_, hpub.inc, o1, o2, o3, m1.trans hpub.minSend, fun q hq x hx => (o4 q hq x hx).2, (by intro hc; cases hc),
        (by intro q d hq; cases hq)⟩
      have := hpub.prod
      rw [pendOf_nodict nd p hpend hd] at this
      simp only [prodOf] at this ⊢
      rw [this]; rfl
    · intro _ K hK
      rcases h.ck K hK with ⟨bsW, s, hc⟩
      exact ⟨bsW, _, conInv_hellos X b K pubJ bsW s _ _ _ hc m4⟩
  · -- the block is published
    have hd : ∃ d, dictOf p.res = some d ∧ ts = relabel X.st.tbl.length d := by
      cases hdd : dictOf p.res with
      | none => rw [hdd] at hrs; cases hrs
      | some d => rw [hdd] at hrs; simp only [Option.map_some, Option.some.injEq] at hrs; exact ⟨d, rfl, hrs.symm⟩
    rcases hd with ⟨d, hd, rfl⟩
    have haft : afterSend nd p r = { nd with pub := r.1, pending := none, sendState := none, recvState := some (sendId nd + 1) } := by
      unfold afterSend; rw [m2]; simp only [m3, hd, Option.isNone_some, Bool.and_false, Bool.false_eq_true, ↓reduceIte]
    have hent : entriesOf p.res (sendOrigin b nd p) = d.map fun q => ({ content := q.2, orig := sendOrigin b nd p } : Entry) := by
      simp only [entriesOf, hd, Option.getD_some]
    rw [haft, m4, hent]
    have hnames := hpub.names p d hpend hd
    have hGn : NodeG b { nd with pub := r.1, pending := none, sendState := none, recvState := some (sendId nd + 1) } := by
      refine ⟨fun h0 => absurd h0 (by omega), (by intro _ hc; cases hc), ?_⟩
      intro h0 k hk
      simp only [Option.some.injEq] at hk
      have ⟨e, _⟩ := hG.relay h0 hpis
      have : sendId nd = nd.con.prevId := by unfold sendId; rw [e]
      simp only; omega
    refine ⟨pubJ ++ [(sendId nd, d)], goodK_send_gen proc b hb owner X b nd _ _ _ _ pubF pubF bss bss pubJ _ h hn (by omega)
      (hlen' _ _) (hlook _ _) (fun hc => absurd hc hnlt) (fun _ => hGn) (fun _ _ => rfl) (fun hc => absurd hc hnlt)
      (fun hc => absurd hc hnlt) h.blkok (fun hc => absurd hc hnlt) (fun _ => rfl) (fun _ => ⟨rfl, rfl⟩) ?_ ?_⟩
    · intro _
      refine ⟨?_, idsInc_snoc pubJ _ hpub.inc (hpub.strict hpis) hsid0, o1, o2, o3, (by rw [m1, lastId_snoc]), ?_,
        (by intro hc; cases hc), (by intro q d' hq; cases hq)⟩
      · have := hpub.prod
        rw [pendOf_some nd p d hpend hd] at this
        simp only [prodOf] at this ⊢
        rw [this]; simp [pendOf]
      · intro q hq x hx
        rw [lastId_snoc]
        have := (o4 q hq x hx).1; simp only; omega
    · intro _ K hK
      rcases h.ck K hK with ⟨bsW, s, hc⟩
      exact ⟨_, _, conInv_block X b K pubJ bsW s (sendId nd) d _ _ hc hpub.inc (hpub.strict hpis) hsid0 hnames⟩

theorem goodK_sendSkip (proc : Proc) (b : Nat) (hb : 1 ≤ b) (owner : Topic → Nat) (X : LSt) (j : Nat) (nd : Node) (p : Pending)
    (pubF : Nat → List HSet) (bss : Nat → List Blk) (pubJ : List HSet) (h : GoodKW proc b owner X pubF bss pubJ)
    (hn : X.st.nodes[j]? = some nd) (hpend : nd.pending = some p)
    (hno : Loop.reachesSender ((joinSinkTopo b).hasOut j) p.res = false) :
    GoodKW proc b owner { st := { X.st with nodes := X.st.nodes.set j { nd with pending := none } }, log := X.log } pubF bss pubJ := by
  have hjL : j < X.st.nodes.length := (List.getElem?_eq_some_iff.mp hn).1
  have hdn : j ≤ b → dictOf p.res = none := by
    intro hjb
    rw [ik_hasOut b j] at hno
    simp only [hjb, decide_true] at hno
    cases hres : p.res with
    | none => rfl
    | dict d => rw [hres] at hno; simp [Loop.reachesSender] at hno
    | deferred r => rw [hres] at hno; simp [Loop.reachesSender] at hno
  refine goodK_recv_gen proc b hb owner X j { nd with pending := none } (fun _ => []) X.log _ pubF bss bss pubJ h
    (by simp only [List.length_set]; exact h.len) (set_lookup_nil X.st.nodes j _ hjL) (by intro x _ r hr; cases hr)
    (by intro r hr; cases hr) (fun _ _ => rfl) rfl ?_ ?_ ?_ ?_ ?_ h.blkok ?_ (fun _ => rfl)
  · intro hjb
    have hG := h.nodeS j nd hjb hn
    exact ⟨hG.src, (by intro _ hc; cases hc), hG.recvSt⟩
  · intro hjb
    subst hjb
    have hG := h.nodeJ nd hn
    exact ⟨hG.src, (by intro _ hc; cases hc), hG.recvSt⟩
  · intro hjb
    subst hjb
    have hG := h.nodeK nd hn
    exact ⟨hG.src, (by intro _ hc; cases hc), hG.recvSt⟩
  · intro hjb
    have hpub := h.pubs j nd hjb hn
    have hd := hdn (by omega)
    refine ⟨?_, hpub.inc, hpub.idle, hpub.bal, hpub.nq, hpub.minSend, hpub.reqs, (by intro hc; cases hc), (by intro q d hq; cases hq)⟩
    have := hpub.prod
    rw [pendOf_nodict nd p hpend hd] at this
    simp only [prodOf] at this ⊢
    rw [this]; rfl
  · intro hjJ
    subst hjJ
    refine ⟨jinvS_frame j owner X _ nd _ pubF bss [] (h.join nd hn) (by simp) rfl rfl rfl, ?_⟩
    have hpub := h.pj nd hn
    have hd := hdn (Nat.le_refl _)
    refine ⟨?_, hpub.inc, hpub.idle, hpub.bal, hpub.nq, hpub.minSend, hpub.reqs, (by intro hc; cases hc), (by intro q d hq; cases hq)⟩
    have := hpub.prod
    rw [pendOf_nodict nd p hpend hd] at this
    simp only [prodOf] at this ⊢
    rw [this]; rfl
  · intro hjK
    subst hjK
    rcases h.ck nd hn with ⟨bsW, s, hc⟩
    exact ⟨bsW, s, conInv_frame _ _ b nd _ pubJ bsW s [] hc (by simp) rfl rfl rfl⟩

theorem goodK_stepSend (proc : Proc) (b : Nat) (hb : 1 ≤ b) (owner : Topic → Nat) (hown : OwnedSrc proc b owner)
    (X : LSt) (j : Nat) (t : Int) (h : GoodK proc b owner X) : GoodK proc b owner (lstep (joinSinkTopo b) proc X (.nodeSend j t)) := by
  rcases h with ⟨pubF, bss, pubJ, hw⟩
  unfold lstep
  simp only [step, stepSend, logUpd]
  cases hn : X.st.nodes[j]? with
  | none => exact goodK_eta proc b owner X ⟨pubF, bss, pubJ, hw⟩
  | some nd =>
    simp only
    cases hpend : nd.pending with
    | none => exact goodK_eta proc b owner X ⟨pubF, bss, pubJ, hw⟩
    | some p =>
      simp only
      by_cases hr : Loop.reachesSender ((joinSinkTopo b).hasOut j) p.res = true
      · simp only [hr, ↓reduceIte]
        have hout : (joinSinkTopo b).hasOut j = true := by
          cases hres : p.res with
          | none => rw [hres] at hr; simp [Loop.reachesSender] at hr
          | dict d => rw [hres] at hr; simpa [Loop.reachesSender] using hr
          | deferred r => rw [hres] at hr; simpa [Loop.reachesSender] using hr
        rw [ik_hasOut b j] at hout
        have hjb : j ≤ b := by simpa using hout
        by_cases hjs : j < b
        · rcases goodK_sendSource proc b hb owner hown X j t nd p pubF bss pubJ hw hn hpend hjs with ⟨pubF', bss', hw'⟩
          exact ⟨pubF', bss', pubJ, hw'⟩
        · have : j = b := by omega
          subst this
          rcases goodK_sendJoin proc j hb owner X t nd p pubF bss pubJ hw hn hpend with ⟨pubJ', hw'⟩
          exact ⟨pubF, bss, pubJ', hw'⟩
      · have hr' : Loop.reachesSender ((joinSinkTopo b).hasOut j) p.res = false := by simpa using hr
        simp only [hr', Bool.false_eq_true, ↓reduceIte, sendSkip]
        exact ⟨pubF, bss, pubJ, goodK_sendSkip proc b hb owner X j nd p pubF bss pubJ hw hn hpend hr'⟩

theorem goodK_lrun (proc : Proc) (hp : ProcNames proc) (b : Nat) (hb : 1 ≤ b) (owner : Topic → Nat)
    (hown : OwnedSrc proc b owner) : ∀ (evs : List Ev) (X : LSt),
    GoodK proc b owner X → (∀ e ∈ evs, isRestart e = false) → GoodK proc b owner (lrun (joinSinkTopo b) proc X evs) := by
  intro evs
  induction evs with
  | nil => intro X h _; exact h
  | cons e es ih =>
    intro X h hnr
    apply ih _ _ (fun x hx => hnr x (List.mem_cons_of_mem _ hx))
    cases e with
    | nodeRecv j => exact goodK_stepRecv proc hp b hb owner X j h
    | nodeSend j t => exact goodK_stepSend proc b hb owner hown X j t h
    | restart j g => have := hnr _ (List.mem_cons_self ..); simp [isRestart] at this

end OF.Net
