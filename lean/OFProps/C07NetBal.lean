import OFProps.NetBalInv
set_option linter.unusedSimpArgs false
/-!
# C07 at NETWORK level — splitter → workers → rejoin

Model: `OFModel/Zmq/NetBal.lean` — the closed network `S → W_1 … W_b → J` built from the endpoint automata themselves (`S`: a source
whose `ZMQSender` has `b` bound outputs and `outs_balance`; `W_i`: a relay on output `i-1` of `S` that hands the received id on;
`J`: a consumer with `srcs_balance` subscribed to all workers), tied event by event to the REAL `MQ` objects by
`harness/ofverif/netbal.py` (driver op `netb.run`).

Quantifier reached: every number of workers `b`, every family of process functions `proc` that returns no empty topic name
(`ProcOK`: the standing assumption of C01; arbitrary otherwise — `None`, `{}`, callables, renaming, any contents, for the splitter, the
workers and the rejoin), every choice `ll` of low-latency receivers (`sources_low_latency`),
EVERY restart-free schedule `evs` of `nodeRecv i | nodeSend i @t` events from the initial state (no bound, no fairness; the
model has a `restart` event for the tie, the theorems assume `isRestart = false` of every event).  All statements are about the LOG
of the run (`runLog`, a function of the observations: every wire message put on a PUB socket, every set handed to a `process()`).

* `C07_netbal_one_branch` — (1) the wire messages `S` publishes under one id all go to ONE output; (2) the id of every set a worker
  `W_i` is handed is the id of a wire message `S` put on output `i-1` (also for a set without frames), and every frame of the set is
  the payload of a data message that `S` put on output `i-1` under that id (same topic, same content); (3) two different workers are
  never handed the same id.
* `C07_netbal_worker_relays_ids` — every wire message of worker `W_i` is sent under the id of a set `W_i` was handed (its `n`-th) and,
  unless it is the heartbeat, is one topic of what `proc i n` made of that set; the ids `W_i` publishes never go down, the ids it is
  handed strictly increase; `C07_netbal_worker_relays_sublist`: the ids of the blocks it published are a SUBLIST of the ids it was
  handed.  (A worker does NOT publish every id it is handed: `J`'s requests fast-forward it — see `exSched`.)
* `C07_netbal_rejoin` — the ids of the sets handed to `J` strictly increase; every set comes from ONE worker `W_w` under ONE id `k`:
  every frame is the payload of a data message `W_w` published under id `k`, which is one topic of what `proc w n` made of the set
  `W_w` was handed under id `k`, whose frames `S` had published on output `w-1` under id `k`; the ghost origin of every frame
  consists of frames of `S` published under id `k`.  `C07_netbal_no_frame_twice`: two different sets handed to `J` never share an
  origin — no source frame reaches `J` twice.
* NOT claimed (and false): completeness.  `exSched` (kernel-evaluated, and the real objects do the same: `netbal.two_speed_witness`):
  `b = 2`, worker 2 and `J` half as fast as `S` and worker 1; `J` is handed ids 0, 2, 3, 4 from worker 1 and 5 from worker 2; id 1
  (handed to worker 2) never reaches `J`: `J` had already asked for a newer id, worker 2's sender was fast-forwarded.
-/
namespace OF.NetBal
open OF.Net
open OF.Recv (Src Wire Msg Recvd Topic)

/-- **C07 (network): one branch per id.**  Along every schedule: (1) all wire messages the splitter publishes under one id go to one
output; (2) the id of every set handed to worker `W_i` is the id of a wire message the splitter put on output `i-1`, and every frame of
the set is the payload of a data message the splitter put on output `i-1` under that id (same topic, same content); (3) no id is
handed to two different workers. -/
theorem C07_netbal_one_branch (b : Nat) (ll : Nat → Bool) (proc : Proc) (hp : ProcOK proc) (evs : List Ev)
    (hnr : ∀ e ∈ evs, e.isRestart = false) :
    (∀ r1 ∈ (runLog b proc (init b ll) evs).pubs, ∀ r2 ∈ (runLog b proc (init b ll) evs).pubs,
        r1.node = 0 → r2.node = 0 → r1.mid = r2.mid → r1.out = r2.out) ∧
    (∀ h ∈ (runLog b proc (init b ll) evs).hands, 1 ≤ h.node → h.node ≤ b →
        (∃ r ∈ (runLog b proc (init b ll) evs).pubs, r.node = 0 ∧ r.out = h.node - 1 ∧ r.mid = h.id) ∧
        ∀ f ∈ h.frames, f.mid = h.id ∧
          ∃ r ∈ (runLog b proc (init b ll) evs).pubs, r.node = 0 ∧ r.out = h.node - 1 ∧ r.mid = h.id ∧ r.frame0 ≠ "//" ∧
            Recv.decodeTopic r.frame0 = f.topic ∧ r.content = f.content) ∧
    (∀ h1 ∈ (runLog b proc (init b ll) evs).hands, ∀ h2 ∈ (runLog b proc (init b ll) evs).hands,
        1 ≤ h1.node → h1.node ≤ b → 1 ≤ h2.node → h2.node ≤ b → h1.id = h2.id → h1.node = h2.node) := by
  have hinv := inv_of_run b ll proc hp evs hnr
  generalize runLog b proc (init b ll) evs = L at hinv
  have h2 : ∀ h ∈ L.hands, 1 ≤ h.node → h.node ≤ b →
      (∃ r ∈ L.pubs, r.node = 0 ∧ r.out = h.node - 1 ∧ r.mid = h.id) ∧
      ∀ f ∈ h.frames, f.mid = h.id ∧
        ∃ r ∈ L.pubs, r.node = 0 ∧ r.out = h.node - 1 ∧ r.mid = h.id ∧ r.frame0 ≠ "//" ∧
          Recv.decodeTopic r.frame0 = f.topic ∧ r.content = f.content := by
    intro h hh h1 h2
    rcases hinv.log.handOK h hh with ⟨⟨j0, u0, r0, b1, b2, b3, b4, b5⟩, j, hall⟩
    refine ⟨?_, ?_⟩
    · rcases upsOf_get b h.node j0 u0 b1 with ⟨_, _, _, hu⟩ | ⟨hc, _, _⟩
      · subst hu
        exact ⟨r0, b2, b3, by rw [b4]; simp [outOf], b5⟩
      · omega
    · intro f hf
      have ⟨a1, _, _, u, r, a4, a5, a6, a7, a8, a9, a10, a11⟩ := hall f hf
      rcases upsOf_get b h.node j u a4 with ⟨_, _, _, hu⟩ | ⟨hc, _, _⟩
      · subst hu
        refine ⟨a1, r, a5, a6, ?_, a8, a9, a10, a11⟩
        rw [a7]; simp [outOf]
      · omega
  refine ⟨hinv.log.sOne, h2, ?_⟩
  intro h1 hh1 g2 hg2 a1 a2 c1 c2 hid
  have ⟨r1, m1, e1, e2, e3⟩ := (h2 h1 hh1 a1 a2).1
  have ⟨r2, m2, e4, e5, e6⟩ := (h2 g2 hg2 c1 c2).1
  have := hinv.log.sOne r1 m1 r2 m2 e1 e4 (by rw [e3, e6, hid])
  rw [e2, e5] at this
  omega

/-- **C07 (network): a worker relays under the ids it was handed.**  Along every schedule, for every worker `W_i`: every wire message
it publishes carries the id of a set it was handed (the `n`-th) and is the heartbeat or one topic of what `proc i n` made of that
set (same content); the ids it publishes never go down; the ids it is handed strictly increase. -/
theorem C07_netbal_worker_relays_ids (b : Nat) (ll : Nat → Bool) (proc : Proc) (hp : ProcOK proc) (evs : List Ev)
    (hnr : ∀ e ∈ evs, e.isRestart = false) (i : Nat) (h1 : 1 ≤ i) (h2 : i ≤ b) :
    (∀ r ∈ (runLog b proc (init b ll) evs).pubs, r.node = i →
      ∃ n h, (handsOf i (runLog b proc (init b ll) evs))[n]? = some h ∧ h.id = r.mid ∧
        (r.frame0 = "//" ∨
          ∃ d, dictOf (Loop.processFrames (proc i n (h.frames.map fun f => (f.topic, f.content)))) = some d ∧
            ∃ tc ∈ d, r.frame0 = Send.frame0 tc.1 ∧ r.content = tc.2)) ∧
    ((pubsOf i (runLog b proc (init b ll) evs)).map (·.mid)).Pairwise (· ≤ ·) ∧
    ((handsOf i (runLog b proc (init b ll) evs)).map (·.id)).Pairwise (· < ·) := by
  have hinv := inv_of_run b ll proc hp evs hnr
  generalize runLog b proc (init b ll) evs = L at hinv
  refine ⟨?_, hinv.log.pubsMono i, hinv.log.handsInc i⟩
  intro r hr hri
  have := hinv.log.pubOK r hr (by omega) (by omega)
  unfold PubOK at this
  rw [hri] at this
  exact this

/-- a list of ids with runs of equal neighbours contracted (the ids of the blocks a node published: one block = several wire messages
under one id) -/
def squash : List Int → List Int
  | [] => []
  | [x] => [x]
  | x :: y :: rest => if x = y then squash (y :: rest) else x :: squash (y :: rest)

theorem mem_squash : ∀ (l : List Int) (x : Int), x ∈ squash l → x ∈ l := by
  intro l
  induction l with
  | nil => intro x hx; cases hx
  | cons a rest ih =>
    intro x hx
    cases rest with
    | nil => exact hx
    | cons c rest' =>
      simp only [squash] at hx
      split at hx
      · exact List.mem_cons_of_mem _ (ih x hx)
      · rw [List.mem_cons] at hx
        rcases hx with hx | hx
        · subst hx; exact List.mem_cons_self ..
        · exact List.mem_cons_of_mem _ (ih x hx)

theorem squash_strict : ∀ (l : List Int), l.Pairwise (· ≤ ·) → (squash l).Pairwise (· < ·) := by
  intro l
  induction l with
  | nil => intro _; exact List.Pairwise.nil
  | cons a rest ih =>
    intro h
    cases rest with
    | nil => exact List.pairwise_singleton _ _
    | cons c rest' =>
      have h' : (c :: rest').Pairwise (· ≤ ·) := (List.pairwise_cons.mp h).2
      have ha : ∀ y ∈ c :: rest', a ≤ y := (List.pairwise_cons.mp h).1
      simp only [squash]
      split
      · exact ih h'
      · rename_i hne
        refine List.Pairwise.cons ?_ (ih h')
        intro y hy
        have hy' := mem_squash _ y hy
        have hc : c ≤ y := by
          rw [List.mem_cons] at hy'
          rcases hy' with rfl | hy'
          · exact Int.le_refl _
          · exact (List.pairwise_cons.mp h').1 y hy'
        have hac := ha c (List.mem_cons_self ..)
        omega

theorem sublist_of_strict : ∀ (H D : List Int), H.Pairwise (· < ·) → D.Pairwise (· < ·) → (∀ x ∈ D, x ∈ H) → D.Sublist H := by
  intro H
  induction H with
  | nil =>
    intro D _ _ hsub
    cases D with
    | nil => exact List.Sublist.slnil
    | cons d _ => exact absurd (hsub d (List.mem_cons_self ..)) (by simp)
  | cons x H' ih =>
    intro D hH hD hsub
    cases D with
    | nil => exact List.nil_sublist _
    | cons d D' =>
      have hH' := (List.pairwise_cons.mp hH).2
      have hx := (List.pairwise_cons.mp hH).1
      have hD' := (List.pairwise_cons.mp hD).2
      have hd := (List.pairwise_cons.mp hD).1
      by_cases hdx : d = x
      · subst hdx
        apply List.Sublist.cons_cons
        apply ih D' hH' hD'
        intro y hy
        have := hsub y (List.mem_cons_of_mem _ hy)
        rw [List.mem_cons] at this
        rcases this with rfl | this
        · have := hd y hy; omega
        · exact this
      · apply List.Sublist.cons
        apply ih (d :: D') hH' hD
        intro y hy
        have hyH := hsub y hy
        rw [List.mem_cons] at hyH
        rcases hyH with rfl | hyH
        · -- y = x: but d ∈ H' so x < d ≤ y
          exfalso
          have hdH := hsub d (List.mem_cons_self ..)
          rw [List.mem_cons] at hdH
          rcases hdH with rfl | hdH
          · exact hdx rfl
          · have h1 := hx d hdH
            rw [List.mem_cons] at hy
            rcases hy with rfl | hy
            · omega
            · have := hd y hy; omega
        · exact hyH

/-- **C07 (network): a worker relays a sub-sequence of the ids it is handed, in order.**  The ids of the blocks worker `W_i` published
(runs of wire messages under one id contracted) form a SUBLIST of the ids of the sets it was handed. -/
theorem C07_netbal_worker_relays_sublist (b : Nat) (ll : Nat → Bool) (proc : Proc) (hp : ProcOK proc) (evs : List Ev)
    (hnr : ∀ e ∈ evs, e.isRestart = false) (i : Nat) (h1 : 1 ≤ i) (h2 : i ≤ b) :
    (squash ((pubsOf i (runLog b proc (init b ll) evs)).map (·.mid))).Sublist
      ((handsOf i (runLog b proc (init b ll) evs)).map (·.id)) := by
  have ⟨a1, a2, a3⟩ := C07_netbal_worker_relays_ids b ll proc hp evs hnr i h1 h2
  generalize runLog b proc (init b ll) evs = L at a1 a2 a3
  apply sublist_of_strict _ _ a3 (squash_strict _ a2)
  intro x hx
  have hx' := mem_squash _ x hx
  rw [List.mem_map] at hx'
  rcases hx' with ⟨r, hr, rfl⟩
  have hr' : r ∈ L.pubs ∧ r.node = i := by simp only [pubsOf, List.mem_filter, beq_iff_eq] at hr; exact hr
  rcases a1 r hr'.1 hr'.2 with ⟨n, h, k1, k2, _⟩
  rw [List.mem_map]
  exact ⟨h, List.mem_of_getElem? k1, k2⟩

/-- what `C07_netbal_rejoin` says of one set handed to the rejoin node -/
def RejoinOK (b : Nat) (proc : Proc) (L : Log) (h : HandRec) : Prop :=
  ∃ w, 1 ≤ w ∧ w ≤ b ∧ ∀ f ∈ h.frames,
    f.mid = h.id ∧ (∀ o ∈ f.orig, o.node = 0 ∧ o.mid = h.id) ∧
    -- the frame is the payload of a data message worker `w` published under this id
    ∃ r ∈ L.pubs, r.node = w ∧ r.mid = h.id ∧ r.frame0 ≠ "//" ∧ Recv.decodeTopic r.frame0 = f.topic ∧ r.content = f.content ∧
      -- which is one topic of what `proc w n` made of the set worker `w` was handed under this id (its `n`-th set)
      ∃ n hw, (handsOf w L)[n]? = some hw ∧ hw.id = h.id ∧
        (∃ d, dictOf (Loop.processFrames (proc w n (hw.frames.map fun g => (g.topic, g.content)))) = some d ∧
          ∃ tc ∈ d, r.frame0 = Send.frame0 tc.1 ∧ f.content = tc.2) ∧
        -- whose frames the splitter had published on output `w-1` under this id
        ∀ g ∈ hw.frames, g.mid = h.id ∧ ∃ rs ∈ L.pubs, rs.node = 0 ∧ rs.out = w - 1 ∧ rs.mid = h.id ∧ rs.frame0 ≠ "//" ∧
          Recv.decodeTopic rs.frame0 = g.topic ∧ rs.content = g.content

/-- **C07 (network): the rejoined stream.**  Along every schedule (at least one worker): the ids of the sets handed to `J` strictly
increase, and every set handed to `J` comes from ONE worker under ONE id, with provenance down to the splitter (`RejoinOK`). -/
theorem C07_netbal_rejoin (b : Nat) (ll : Nat → Bool) (proc : Proc) (hp : ProcOK proc) (hb : 1 ≤ b) (evs : List Ev)
    (hnr : ∀ e ∈ evs, e.isRestart = false) :
    ((handsOf (b + 1) (runLog b proc (init b ll) evs)).map (·.id)).Pairwise (· < ·) ∧
    ∀ h ∈ (runLog b proc (init b ll) evs).hands, h.node = b + 1 → RejoinOK b proc (runLog b proc (init b ll) evs) h := by
  have hone := C07_netbal_one_branch b ll proc hp evs hnr
  have hinv := inv_of_run b ll proc hp evs hnr
  generalize runLog b proc (init b ll) evs = L at hinv hone
  refine ⟨hinv.log.handsInc (b + 1), ?_⟩
  intro h hh hnode
  rcases hinv.log.handOK h hh with ⟨_, j, hall⟩
  -- the worker: source `j` of `J` is worker `j + 1` (for a set without frames any worker will do)
  have hw : h.frames = [] ∨ (1 ≤ j + 1 ∧ j + 1 ≤ b) := by
    cases hf : h.frames with
    | nil => left; rfl
    | cons f _ =>
      right
      have ⟨_, _, _, u, r, a4, _⟩ := hall f (by rw [hf]; exact List.mem_cons_self ..)
      rw [hnode] at a4
      rcases upsOf_get b (b + 1) j u a4 with ⟨_, hc, _, _⟩ | ⟨_, hj, _⟩ <;> omega
  rcases hw with hw | hw
  · exact ⟨1, Nat.le_refl _, hb, by intro f hf; rw [hw] at hf; cases hf⟩
  · refine ⟨j + 1, hw.1, hw.2, ?_⟩
    intro f hf
    have ⟨a1, _, a3, u, r, a4, a5, a6, _, a8, a9, a10, a11⟩ := hall f hf
    rw [hnode] at a4
    have hu : u = j + 1 := by
      rcases upsOf_get b (b + 1) j u a4 with ⟨_, hc, _, _⟩ | ⟨_, _, hu⟩
      · omega
      · exact hu
    subst hu
    refine ⟨a1, ?_, r, a5, a6, a8, a9, a10, a11, ?_⟩
    · intro o ho
      have ⟨o1, o2, o3⟩ := a3 o ho
      exact ⟨upsOf_nil b o.node hb o2 o3, o1⟩
    · rcases hinv.log.pubOK r a5 (by omega) (by omega) with ⟨n, hwk, k1, k2, k3⟩
      rw [a6] at k1
      have hmem : hwk ∈ L.hands ∧ hwk.node = j + 1 := by
        have := List.mem_of_getElem? k1
        simp only [handsOf, List.mem_filter, beq_iff_eq] at this
        exact this
      refine ⟨n, hwk, k1, by rw [k2, a8], ?_, ?_⟩
      · rcases k3 with k3 | ⟨d, d1, tc, d2, d3, d4⟩
        · exact absurd k3 a9
        · rw [a6] at d1
          exact ⟨d, d1, tc, d2, d3, by rw [← a11]; exact d4⟩
      · intro g hg
        have ⟨g1, rs, g2, g3, g4, g5, g6⟩ := (hone.2.1 hwk hmem.1 (by omega) (by omega)).2 g hg
        rw [hmem.2] at g4
        rw [k2, a8] at g1 g5
        exact ⟨g1, rs, g2, g3, by simpa using g4, g5, g6⟩

/-- **C07 (network): no source frame reaches the rejoin twice.**  Two sets handed to `J` at different times carry different ids, and
no frame of the one shares a ghost origin (a frame of the splitter) with a frame of the other. -/
theorem C07_netbal_no_frame_twice (b : Nat) (ll : Nat → Bool) (proc : Proc) (hp : ProcOK proc) (hb : 1 ≤ b) (evs : List Ev)
    (hnr : ∀ e ∈ evs, e.isRestart = false) :
    (handsOf (b + 1) (runLog b proc (init b ll) evs)).Pairwise fun h1 h2 =>
      h1.id < h2.id ∧ ∀ f1 ∈ h1.frames, ∀ f2 ∈ h2.frames, ∀ o1 ∈ f1.orig, ∀ o2 ∈ f2.orig, o1 ≠ o2 := by
  have ⟨hinc, hall⟩ := C07_netbal_rejoin b ll proc hp hb evs hnr
  generalize runLog b proc (init b ll) evs = L at hinc hall
  rw [List.pairwise_map] at hinc
  have hsub : ∀ x ∈ handsOf (b + 1) L, x ∈ L.hands ∧ x.node = b + 1 := by
    intro x hx; simp only [handsOf, List.mem_filter, beq_iff_eq] at hx; exact hx
  refine List.Pairwise.imp_of_mem ?_ hinc
  intro h1 h2 m1 m2 hlt
  refine ⟨hlt, ?_⟩
  intro f1 hf1 f2 hf2 o1 ho1 o2 ho2 heq
  rcases hall h1 (hsub h1 m1).1 (hsub h1 m1).2 with ⟨_, _, _, k1⟩
  rcases hall h2 (hsub h2 m2).1 (hsub h2 m2).2 with ⟨_, _, _, k2⟩
  have e1 := ((k1 f1 hf1).2.1 o1 ho1).2
  have e2 := ((k2 f2 hf2).2.1 o2 ho2).2
  rw [heq] at e1
  omega

/-! ## non-vacuity: two workers of different speeds, `J` is handed ids from both; the rejoined stream is NOT complete -/

/-- splitter: `{'main': frame n}` (content `10 n`); worker 1 renames to `b1`, worker 2 to `b2`; the rejoin passes on -/
def exProc : Proc := fun i n h =>
  match i with
  | 0 => .now (.dict [("main", n * 10)])
  | 1 => .now (.dict (h.map fun p => ("b1", p.2)))
  | 2 => .now (.dict (h.map fun p => ("b2", p.2)))
  | _ => .now (.dict h)

theorem exProc_ok : ProcOK exProc := by
  intro i n h d hh hd p hp
  unfold exProc at hd
  split at hd
  · simp only [Loop.processFrames, Loop.normPlain, dictOf, Option.some.injEq] at hd
    subst hd; simp only [List.mem_singleton] at hp; subst hp; exact (by decide : ("main" : String) ≠ "")
  · simp only [Loop.processFrames, Loop.normPlain, dictOf, Option.some.injEq] at hd
    subst hd; rw [List.mem_map] at hp; rcases hp with ⟨_, _, rfl⟩; exact (by decide : ("b1" : String) ≠ "")
  · simp only [Loop.processFrames, Loop.normPlain, dictOf, Option.some.injEq] at hd
    subst hd; rw [List.mem_map] at hp; rcases hp with ⟨_, _, rfl⟩; exact (by decide : ("b2" : String) ≠ "")
  · simp only [Loop.processFrames, Loop.normPlain, dictOf, Option.some.injEq] at hd
    subst hd; exact hh p hp

/-- no low-latency receiver -/
def exLL : Nat → Bool := fun _ => false

/-- a round of the fast nodes (splitter, worker 1) -/
def exFast (t : Int) : List Ev := [.nodeRecv 0, .nodeSend 0 t, .nodeRecv 1, .nodeSend 1 t]
/-- a round of all nodes -/
def exAll (t : Int) : List Ev := exFast t ++ [.nodeRecv 2, .nodeSend 2 t, .nodeRecv 3, .nodeSend 3 t]

/-- 80 events: the splitter and worker 1 take part in every round, worker 2 and the rejoin in every second round
(`netbal.two_speed_witness` runs the same schedule on the real `MQ` objects) -/
def exSched : List Ev :=
  exAll 1100 ++ exFast 1200 ++ exAll 1300 ++ exFast 1400 ++ exAll 1500 ++ exFast 1600 ++ exAll 1700 ++ exFast 1800 ++
  exAll 1900 ++ exFast 2000 ++ exAll 2100 ++ exFast 2200 ++ exAll 2300

/-- the splitter publishes ids 0 … 6, each on ONE output (data messages: `(output, id)`): ids 1 and 5 go to worker 2 -/
example : ((pubsOf 0 (runLog 2 exProc (init 2 exLL) exSched)).filter (·.frame0 != "//")).map (fun r => (r.out, r.mid)) =
    [(0, 0), (1, 1), (0, 2), (0, 3), (0, 4), (1, 5), (0, 6)] := by decide +kernel

/-- worker 1 is handed ids 0, 2, 3, 4, 6; worker 2 is handed ids 1, 5 — disjoint -/
example : (handsOf 1 (runLog 2 exProc (init 2 exLL) exSched)).map (·.id) = [0, 2, 3, 4, 6] ∧
    (handsOf 2 (runLog 2 exProc (init 2 exLL) exSched)).map (·.id) = [1, 5] := by decide +kernel

/-- worker 2 publishes id 5 only: its result for id 1 is never sent (`J` had asked for a newer id: worker 2's sender was
fast-forwarded) — a worker relays a SUB-sequence of the ids it is handed -/
example : ((pubsOf 2 (runLog 2 exProc (init 2 exLL) exSched)).filter (·.frame0 != "//")).map (fun r => (r.mid, r.frame0, r.content)) =
    [(5, "/b2/", 50)] := by decide +kernel

example : squash ((pubsOf 2 (runLog 2 exProc (init 2 exLL) exSched)).map (·.mid)) = [5] := by decide +kernel

/-- **`J` is handed ids from BOTH workers**: 0, 2, 3, 4 from worker 1 (`b1`), 5 from worker 2 (`b2`); every frame descends from the
splitter's frame of that id (origin `(node 0, incarnation 0, id)`), content = `10 · id` -/
example : (handsOf 3 (runLog 2 exProc (init 2 exLL) exSched)).map (fun h => (h.id, h.frames)) =
    [(0, [⟨"b1", 0, 0, [⟨0, 0, 0⟩]⟩]), (2, [⟨"b1", 2, 20, [⟨0, 0, 2⟩]⟩]), (3, [⟨"b1", 3, 30, [⟨0, 0, 3⟩]⟩]),
     (4, [⟨"b1", 4, 40, [⟨0, 0, 4⟩]⟩]), (5, [⟨"b2", 5, 50, [⟨0, 0, 5⟩]⟩])] := by decide +kernel

/-- **NOT complete** (no completeness is claimed): id 1 was published by the splitter and handed to worker 2, but never reaches `J` -/
example : (1 : Int) ∈ (pubsOf 0 (runLog 2 exProc (init 2 exLL) exSched)).map (·.mid) ∧
    (1 : Int) ∈ (handsOf 2 (runLog 2 exProc (init 2 exLL) exSched)).map (·.id) ∧
    (1 : Int) ∉ (handsOf 3 (runLog 2 exProc (init 2 exLL) exSched)).map (·.id) := by decide +kernel

/-- the theorems instantiated on this run: the set `J` is handed under id 5 comes from worker 2, with provenance down to output 1 of
the splitter -/
example : ∀ h ∈ (runLog 2 exProc (init 2 exLL) exSched).hands, h.node = 3 → RejoinOK 2 exProc (runLog 2 exProc (init 2 exLL) exSched) h :=
  (C07_netbal_rejoin 2 exLL exProc exProc_ok (by decide) exSched (by decide)).2

/-- the initial state with a splitter that is NOT balanced (`outs_balance = False`) -/
def initUnbal : St := { (init 2 exLL) with nodes := (init 2 exLL).nodes.set 0 { (freshNode 2 exLL 0) with pub := Send.mkSt 2 false [] } }

/-- **NEGATIVE witness: the balance flag of the splitter is what the theorem rests on.**  The same schedule from `initUnbal`: every id
is published on BOTH outputs and BOTH workers are handed ids 0 … 4 — conclusions (1) and (3) of `C07_netbal_one_branch` fail -/
example : ((pubsOf 0 (runLog 2 exProc initUnbal exSched)).filter (·.frame0 != "//")).map (fun r => (r.out, r.mid)) =
      [(0, 0), (1, 0), (0, 1), (1, 1), (0, 2), (1, 2), (0, 3), (1, 3), (0, 4), (1, 4)] ∧
    (handsOf 1 (runLog 2 exProc initUnbal exSched)).map (·.id) = [0, 1, 2, 3, 4] ∧
    (handsOf 2 (runLog 2 exProc initUnbal exSched)).map (·.id) = [0, 1, 2, 3, 4] := by decide +kernel

/-- the splitter crashes after five rounds and comes back (its counter starts at 0 again, the workers' requests fast-forward it) -/
def exRestart : List Ev :=
  exAll 1100 ++ exFast 1200 ++ exAll 1300 ++ exFast 1400 ++ exAll 1500 ++ [.restart 0 false] ++ exAll 1600 ++ exAll 1700 ++ exAll 1800

/-- **NEGATIVE witness: the theorems are about restart-free runs.**  With a crash-restart of the splitter, id 1 is published on output 1
(by the first incarnation) AND on output 0 (by the second), and BOTH workers are handed id 1 — conclusions (1) and (3) of
`C07_netbal_one_branch` fail (the same re-use of ids after a restart of the source is the known finding `net-mixed-incarnation` of C01) -/
example : ((pubsOf 0 (runLog 2 exProc (init 2 exLL) exRestart)).filter (·.frame0 != "//")).map (fun r => (r.out, r.mid)) =
      [(0, 0), (1, 1), (0, 1)] ∧
    (handsOf 1 (runLog 2 exProc (init 2 exLL) exRestart)).map (·.id) = [0, 1] ∧
    (handsOf 2 (runLog 2 exProc (init 2 exLL) exRestart)).map (·.id) = [1] := by decide +kernel

end OF.NetBal
