import OFProps.C06Live
set_option linter.unusedSimpArgs false
/-!
# Helper lemmas for `OFProps/C06Fair.lean`: one `send` of the pair's publisher when every queued request comes from the
current consumer incarnation and carries its `prev_id` (any number of copies, any `new` flags)
-/
namespace OF.Pair
open OF OF.Send

/-- all queued requests are regular requests of client `fid` for id `m` -/
def OwnReqs (fid : String) (m : Int) (q : List Req) : Prop := ∀ r ∈ q, fidOf r = fid ∧ r.mid = m ∧ r.eph = 0

/-- some queued request will get past the handshake test: the client is tracked, or the request does not say `new` -/
def effB (cl : Clients) (fid : String) (q : List Req) : Bool := q.any (fun r => cl.any (·.1 == fid) || !r.new)

/-- the publisher has decided to send and tracks nobody but `fid` -/
def Good (fid : String) (st : Send.St) : Prop :=
  st.doSend = true ∧ (∀ x ∈ st.clients, x.1 = fid) ∧ st.clients.any (·.1 == fid) = true

theorem othersStale_of_all (fid : String) (t : Int) (cl : Clients) (h : ∀ x ∈ cl, x.1 = fid) : OthersStale fid t cl :=
  fun x hx hne => absurd (h x hx) hne

theorem othersStale_mono (fid : String) (t t' : Int) (cl : Clients) (h : OthersStale fid t cl) (ht : t ≤ t') :
    OthersStale fid t' cl := fun x hx hne => by have := h x hx hne; omega

theorem othersStale_cset (fid : String) (t : Int) (cl : Clients) (c : Client) (h : OthersStale fid t cl) :
    OthersStale fid t (cset cl fid c) := by
  intro x hx hne
  rcases mem_cset _ _ _ x hx with h1 | h1
  · exact h x h1 hne
  · rw [h1] at hne; exact absurd rfl hne

/-- a regular request below the id being sent, past the handshake test, with everybody else stale: `Good` afterwards -/
theorem onReq_own_normal (st : Send.St) (r : Req) (t : Int) (q : List Req) (hb : PubBusy st q)
    (hd : ¬ r.mid ≤ OF.Facts.MSG_ID_SPECIAL) (hn : needsHello st r = false) (hlt : r.mid < st.msgId)
    (hs : OthersStale (fidOf r) t st.clients) :
    (onReq st 0 r t).2.2 = .normal ∧ Good (fidOf r) (onReq st 0 r t).1 := by
  have ho := onReq_normal st r t hd hn hlt hb.balance hb.required
  have hev := evalClients_stale st.clients r t hs
  rw [ho]
  refine ⟨rfl, hev.1, ?_, ?_⟩
  · intro x hx; rw [hev.2.2.2 x hx]
  · rw [List.any_eq_true]; exact ⟨_, hev.2.2.1, by simp⟩


theorem needsHello_eq (st : Send.St) (r : Req) : needsHello st r = !(st.clients.any (·.1 == fidOf r) || !r.new) := by
  unfold needsHello; cases st.clients.any (·.1 == fidOf r) <;> cases r.new <;> rfl

theorem onReq_balanced (st : Send.St) (j : Nat) (r : Req) (t : Int) : (onReq st j r t).1.balanced = st.balanced := by
  unfold onReq
  simp only
  split
  · split
    · rfl
    · split <;> rfl
  · split
    · rfl
    · split <;> rfl

/-- the drain when the id asked for is below the id being sent: no fast-forward can happen -/
theorem drain_own_lt : ∀ (q : List Req) (stb : Send.St) (t : Int) (fid : String) (m : Int),
    PubBusy stb q → OwnReqs fid m q → ¬ m ≤ OF.Facts.MSG_ID_SPECIAL → m < stb.msgId → OthersStale fid t stb.clients →
    PubBusy (drain (q.length + 1) stb [0] t).1 [] ∧ (drain (q.length + 1) stb [0] t).1.payload = stb.payload ∧
    (drain (q.length + 1) stb [0] t).1.msgId = stb.msgId ∧ (drain (q.length + 1) stb [0] t).1.minSendId = stb.minSendId ∧
    (drain (q.length + 1) stb [0] t).2.filterMap wireOf = [] ∧ (drain (q.length + 1) stb [0] t).1.balanced = stb.balanced ∧
    (if effB stb.clients fid q = true then Good fid (drain (q.length + 1) stb [0] t).1
     else ((drain (q.length + 1) stb [0] t).1.clients = stb.clients ∧ (drain (q.length + 1) stb [0] t).1.doSend = stb.doSend ∧
           (drain (q.length + 1) stb [0] t).1.doHello = (stb.doHello || !q.isEmpty))) := by
  intro q
  induction q with
  | nil =>
    intro stb t fid m hb _ _ _ _
    simp only [List.length_nil, Nat.zero_add]
    rw [drain_nil 0 stb t hb]
    exact ⟨hb, rfl, rfl, rfl, rfl, rfl, by simp [effB]⟩
  | cons r q' ih =>
    intro stb t fid m hb ho hd hlt hs
    have ⟨hf, hm, he⟩ := ho r (List.mem_cons_self ..)
    have ho' : OwnReqs fid m q' := fun x hx => ho x (List.mem_cons_of_mem _ hx)
    have hp := popped_busy stb r q' hb
    have hdr : ¬ r.mid ≤ OF.Facts.MSG_ID_SPECIAL := by rw [hm]; exact hd
    rw [List.length_cons, drain_cons (q'.length + 1) stb r q' t hb, stepHandle_cons stb r q' t hb]
    by_cases hne : needsHello (popped stb q') r = true
    · -- handshake branch: nothing but `do_hello`
      have hor := onReq_newconn (popped stb q') r t hdr hne
      rw [hor]
      simp only [reduceCtorEq, ↓reduceIte, List.nil_append]
      have hb1 : PubBusy { popped stb q' with doHello := true } q' :=
        ⟨rfl, hb.balance, hb.required, hb.inCall, hb.push, hb.minpos, hb.msgpos⟩
      have := ih { popped stb q' with doHello := true } t fid m hb1 ho' hd hlt hs
      refine ⟨this.1, this.2.1, this.2.2.1, this.2.2.2.1, this.2.2.2.2.1, this.2.2.2.2.2.1, ?_⟩
      have hnot : (stb.clients.any (·.1 == fid) || !r.new) = false := by
        have := needsHello_eq (popped stb q') r
        have hcl : (popped stb q').clients = stb.clients := rfl
        rw [hne, hf, hcl] at this
        simpa using this.symm
      have heff : effB stb.clients fid (r :: q') = effB stb.clients fid q' := by
        simp only [effB, List.any_cons, hnot, Bool.false_or]
      rw [heff]
      have h6 := this.2.2.2.2.2.2
      simp only [popped] at h6 ⊢
      by_cases hc : effB stb.clients fid q' = true
      · simp only [hc, ↓reduceIte] at h6 ⊢; exact h6
      · simp only [hc, Bool.false_eq_true, ↓reduceIte] at h6 ⊢
        exact ⟨h6.1, h6.2.1, by rw [h6.2.2]; simp⟩
    · -- regular branch: everybody else is evicted, `do_send`
      have hne' : needsHello (popped stb q') r = false := by simpa using hne
      have ⟨hnorm, hgood⟩ := onReq_own_normal (popped stb q') r t q' hp hdr hne' (by rw [hm]; exact hlt) (by rw [hf]; exact hs)
      rw [hf] at hgood
      have hnf : (onReq (popped stb q') 0 r t).2.2 ≠ .ffwd := by rw [hnorm]; simp
      simp only [hnf, ↓reduceIte]
      have ⟨T, hT, ht⟩ := exists_stale (popped stb q').clients t
      have ⟨g1, _, g3, g4, g5⟩ := onReq_general (popped stb q') q' r t T hp hT ht
      have hmin : (onReq (popped stb q') 0 r t).1.minSendId = stb.minSendId := by
        rcases onReq_min (popped stb q') 0 r t with ⟨_, e⟩ | ⟨e, _⟩
        · exact e
        · exact absurd e hnf
      have hs1 : OthersStale fid t (onReq (popped stb q') 0 r t).1.clients := othersStale_of_all _ _ _ hgood.2.1
      have := ih _ t fid m g1 ho' hd (by rw [g4]; exact hlt) hs1
      refine ⟨this.1, by rw [this.2.1, g3]; rfl, by rw [this.2.2.1, g4]; rfl, by rw [this.2.2.2.1, hmin],
        by rw [List.filterMap_append, g5, this.2.2.2.2.1]; rfl, by rw [this.2.2.2.2.2.1]; exact onReq_balanced _ _ _ _, ?_⟩
      have heff : effB stb.clients fid (r :: q') = true := by
        have hcl : (popped stb q').clients = stb.clients := rfl
        have h1 := needsHello_eq (popped stb q') r
        rw [hne', hf, hcl] at h1
        simp only [effB, List.any_cons]
        have : (stb.clients.any (·.1 == fid) || !r.new) = true := by
          cases hx : (stb.clients.any (·.1 == fid) || !r.new) with
          | true => rfl
          | false => rw [hx] at h1; cases h1
        rw [this]; rfl
      rw [if_pos heff]
      have h6 := this.2.2.2.2.2.2
      split at h6
      · exact h6
      · exact ⟨by rw [h6.2.1]; exact hgood.1, by rw [h6.1]; exact hgood.2.1, by rw [h6.1]; exact hgood.2.2⟩


/-- the drain when the id asked for is at or beyond the id being sent: the first request past the handshake test
fast-forwards and ends the call -/
theorem drain_own_ge : ∀ (q : List Req) (stb : Send.St) (t : Int) (fid : String) (m : Int),
    PubBusy stb q → OwnReqs fid m q → ¬ m ≤ OF.Facts.MSG_ID_SPECIAL → stb.msgId ≤ m →
    (drain (q.length + 1) stb [0] t).2.filterMap wireOf = [] ∧
    (if effB stb.clients fid q = true then
       ∃ q' c, PubIdle (drain (q.length + 1) stb [0] t).1 q' ∧ (∃ pre, q = pre ++ q') ∧ q'.length < q.length ∧
         (drain (q.length + 1) stb [0] t).1.minSendId = m + 1 ∧
         (drain (q.length + 1) stb [0] t).1.clients = cset stb.clients fid c
     else (PubBusy (drain (q.length + 1) stb [0] t).1 [] ∧ (drain (q.length + 1) stb [0] t).1.payload = stb.payload ∧
           (drain (q.length + 1) stb [0] t).1.msgId = stb.msgId ∧ (drain (q.length + 1) stb [0] t).1.minSendId = stb.minSendId ∧
           (drain (q.length + 1) stb [0] t).1.clients = stb.clients ∧ (drain (q.length + 1) stb [0] t).1.doSend = stb.doSend ∧
           (drain (q.length + 1) stb [0] t).1.doHello = (stb.doHello || !q.isEmpty))) := by
  intro q
  induction q with
  | nil =>
    intro stb t fid m hb _ _ _
    simp only [List.length_nil, Nat.zero_add]
    rw [drain_nil 0 stb t hb]
    refine ⟨rfl, ?_⟩
    have : effB stb.clients fid [] = false := rfl
    rw [this]
    simp only [Bool.false_eq_true, ↓reduceIte]
    exact ⟨hb, trivial, trivial, trivial, trivial, trivial, by simp⟩
  | cons r q' ih =>
    intro stb t fid m hb ho hd hge
    have ⟨hf, hm, he⟩ := ho r (List.mem_cons_self ..)
    have ho' : OwnReqs fid m q' := fun x hx => ho x (List.mem_cons_of_mem _ hx)
    have hp := popped_busy stb r q' hb
    have hdr : ¬ r.mid ≤ OF.Facts.MSG_ID_SPECIAL := by rw [hm]; exact hd
    have hcl : (popped stb q').clients = stb.clients := rfl
    rw [List.length_cons, drain_cons (q'.length + 1) stb r q' t hb, stepHandle_cons stb r q' t hb]
    by_cases hne : needsHello (popped stb q') r = true
    · have hor := onReq_newconn (popped stb q') r t hdr hne
      rw [hor]
      simp only [reduceCtorEq, ↓reduceIte, List.nil_append]
      have hb1 : PubBusy { popped stb q' with doHello := true } q' :=
        ⟨rfl, hb.balance, hb.required, hb.inCall, hb.push, hb.minpos, hb.msgpos⟩
      have := ih { popped stb q' with doHello := true } t fid m hb1 ho' hd hge
      refine ⟨this.1, ?_⟩
      have hnot : (stb.clients.any (·.1 == fid) || !r.new) = false := by
        have := needsHello_eq (popped stb q') r
        rw [hne, hf, hcl] at this
        simpa using this.symm
      have heff : effB stb.clients fid (r :: q') = effB stb.clients fid q' := by
        simp only [effB, List.any_cons, hnot, Bool.false_or]
      rw [heff]
      have h6 := this.2
      simp only [popped] at h6 ⊢
      by_cases hc : effB stb.clients fid q' = true
      · simp only [hc, ↓reduceIte] at h6 ⊢
        rcases h6 with ⟨q'', c, i1, ⟨pre, i2⟩, i3, i4, i5⟩
        exact ⟨q'', c, i1, ⟨r :: pre, by rw [i2]; rfl⟩, by omega, i4, i5⟩
      · simp only [hc, Bool.false_eq_true, ↓reduceIte] at h6 ⊢
        exact ⟨h6.1, h6.2.1, h6.2.2.1, h6.2.2.2.1, h6.2.2.2.2.1, h6.2.2.2.2.2.1, by rw [h6.2.2.2.2.2.2]; simp⟩
    · have hne' : needsHello (popped stb q') r = false := by simpa using hne
      have hor := onReq_ffwd (popped stb q') r t hdr hne' he (by rw [hm]; exact hge)
      rw [hor]
      simp only [↓reduceIte, endCall, List.nil_append]
      rw [drain_ended _ _ _ rfl]
      have heff : effB stb.clients fid (r :: q') = true := by
        have h1 := needsHello_eq (popped stb q') r
        rw [hne', hf, hcl] at h1
        simp only [effB, List.any_cons]
        have : (stb.clients.any (·.1 == fid) || !r.new) = true := by
          cases hx : (stb.clients.any (·.1 == fid) || !r.new) with
          | true => rfl
          | false => rw [hx] at h1; cases h1
        rw [this]; rfl
      rw [if_pos heff]
      refine ⟨by simp [wireOf], q', entryOf r t, ⟨rfl, hb.balance, hb.required, rfl, ?_⟩, ⟨[r], rfl⟩, by simp, by simp only; rw [hm], ?_⟩
      · have : OF.Facts.MSG_ID_SPECIAL = -2 := rfl
        simp only; omega
      · simp only [popped]; rw [hf]


theorem effB_nil (cl : Clients) (fid : String) : effB cl fid [] = false := rfl

/-- **one `send` when only the current consumer's requests are queued — nobody past the handshake test**: HELLO (if
anything is queued), nothing else changes -/
theorem send0_own_hello (p : Send.St) (q : List Req) (b : Nat) (t : Int) (fid : String) (m : Int) (h : PubIdle p q)
    (ho : OwnReqs fid m q) (hd : ¬ m ≤ OF.Facts.MSG_ID_SPECIAL) (hs : OthersStale fid t p.clients)
    (he : effB p.clients fid q = false) :
    PubIdle (send0 p none (mainPayload b) false [0] t).1 [] ∧
    (send0 p none (mainPayload b) false [0] t).1.clients = p.clients ∧
    (send0 p none (mainPayload b) false [0] t).1.minSendId = p.minSendId ∧
    (send0 p none (mainPayload b) false [0] t).2.filterMap wireOf = (if q = [] then [] else [helloWire]) := by
  have hb := beginPub_busy p q (mainPayload b) h
  have hcl : (beginPub p (mainPayload b)).clients = p.clients := rfl
  -- the drain leaves everything but `do_hello`
  have key : PubBusy (drain (q.length + 1) (beginPub p (mainPayload b)) [0] t).1 [] ∧
      (drain (q.length + 1) (beginPub p (mainPayload b)) [0] t).1.minSendId = p.minSendId ∧
      (drain (q.length + 1) (beginPub p (mainPayload b)) [0] t).2.filterMap wireOf = [] ∧
      (drain (q.length + 1) (beginPub p (mainPayload b)) [0] t).1.clients = p.clients ∧
      (drain (q.length + 1) (beginPub p (mainPayload b)) [0] t).1.doSend = false ∧
      (drain (q.length + 1) (beginPub p (mainPayload b)) [0] t).1.doHello = !q.isEmpty := by
    by_cases hlt : m < (beginPub p (mainPayload b)).msgId
    · have := drain_own_lt q (beginPub p (mainPayload b)) t fid m hb ho hd hlt hs
      rw [hcl, he] at this
      simp only [Bool.false_eq_true, ↓reduceIte] at this
      exact ⟨this.1, this.2.2.2.1, this.2.2.2.2.1, this.2.2.2.2.2.2.1, this.2.2.2.2.2.2.2.1, by rw [this.2.2.2.2.2.2.2.2]; rfl⟩
    · have := drain_own_ge q (beginPub p (mainPayload b)) t fid m hb ho hd (by omega)
      rw [hcl, he] at this
      simp only [Bool.false_eq_true, ↓reduceIte] at this
      exact ⟨this.2.1, this.2.2.2.2.1, this.1, this.2.2.2.2.2.1, this.2.2.2.2.2.2.1, by rw [this.2.2.2.2.2.2.2]; rfl⟩
  rcases key with ⟨k1, k2, k3, k4, k5, k6⟩
  rw [send0_unfold p q (mainPayload b) t h]
  simp only [k1.inCall, Bool.true_eq_false, ↓reduceIte]
  rw [sendMaybe_nosend _ k5 k1.push]
  simp only [Bool.false_eq_true, ↓reduceIte]
  refine ⟨⟨k1.queues, k1.balance, k1.required, rfl, k1.minpos⟩, k4, k2, ?_⟩
  rw [List.filterMap_append, List.filterMap_append, k3]
  simp only [helloOuts, k6, Option.isSome_some, Bool.or_true, Bool.and_true, allOuts_single _ [] k1.queues]
  cases q with
  | nil => simp [wireOf]
  | cons r q' => simp [wireOf, helloWire]

/-- **… some request past the handshake test, asking for an id at or beyond the next one**: fast-forward, nothing published -/
theorem send0_own_ffwd (p : Send.St) (q : List Req) (b : Nat) (t : Int) (fid : String) (m : Int) (h : PubIdle p q)
    (ho : OwnReqs fid m q) (hd : ¬ m ≤ OF.Facts.MSG_ID_SPECIAL) (he : effB p.clients fid q = true) (hge : p.minSendId ≤ m) :
    ∃ q' c, PubIdle (send0 p none (mainPayload b) false [0] t).1 q' ∧ (∃ pre, q = pre ++ q') ∧ q'.length < q.length ∧
      (send0 p none (mainPayload b) false [0] t).1.minSendId = m + 1 ∧
      (send0 p none (mainPayload b) false [0] t).1.clients = cset p.clients fid c ∧
      (send0 p none (mainPayload b) false [0] t).2.filterMap wireOf = [] := by
  have hb := beginPub_busy p q (mainPayload b) h
  have hcl : (beginPub p (mainPayload b)).clients = p.clients := rfl
  have := drain_own_ge q (beginPub p (mainPayload b)) t fid m hb ho hd hge
  rw [hcl, he] at this
  simp only [↓reduceIte] at this
  rcases this with ⟨w0, q', c, i1, i2, i3, i4, i5⟩
  rw [send0_unfold p q (mainPayload b) t h]
  simp only [i1.inCall, ↓reduceIte]
  exact ⟨q', c, i1, i2, i3, i4, i5, w0⟩

/-- **… some request past the handshake test, asking for an id below the next one, everybody else stale**: the next id is
published and only this client stays tracked -/
theorem send0_own_publish (p : Send.St) (q : List Req) (b : Nat) (t : Int) (fid : String) (m : Int) (h : PubIdle p q)
    (ho : OwnReqs fid m q) (hd : ¬ m ≤ OF.Facts.MSG_ID_SPECIAL) (hs : OthersStale fid t p.clients)
    (he : effB p.clients fid q = true) (hlt : m < p.minSendId) :
    PubIdle (send0 p none (mainPayload b) false [0] t).1 [] ∧
    (∀ x ∈ (send0 p none (mainPayload b) false [0] t).1.clients, x.1 = fid) ∧
    (send0 p none (mainPayload b) false [0] t).1.clients.any (·.1 == fid) = true ∧
    (send0 p none (mainPayload b) false [0] t).1.minSendId = p.minSendId + 1 ∧
    (send0 p none (mainPayload b) false [0] t).2.filterMap wireOf = [mainWire p.minSendId b, hbWire p.minSendId] := by
  have hb := beginPub_busy p q (mainPayload b) h
  have hcl : (beginPub p (mainPayload b)).clients = p.clients := rfl
  have := drain_own_lt q (beginPub p (mainPayload b)) t fid m hb ho hd hlt hs
  rw [hcl, he] at this
  simp only [↓reduceIte] at this
  rcases this with ⟨k1, kpay, kmsg, _, k3, kbal, kdo, kall, kany⟩
  have kpay' : (drain (q.length + 1) (beginPub p (mainPayload b)) [0] t).1.payload = .topics [("main", b)] := kpay
  have kmsg' : (drain (q.length + 1) (beginPub p (mainPayload b)) [0] t).1.msgId = p.minSendId := kmsg
  have kbal' : (drain (q.length + 1) (beginPub p (mainPayload b)) [0] t).1.balanced = 0 := kbal
  have hne : (drain (q.length + 1) (beginPub p (mainPayload b)) [0] t).1.clients.isEmpty = false := by
    cases hc : (drain (q.length + 1) (beginPub p (mainPayload b)) [0] t).1.clients with
    | nil => rw [hc] at kany; cases kany
    | cons _ _ => rfl
  rw [send0_unfold p q (mainPayload b) t h]
  generalize drain (q.length + 1) (beginPub p (mainPayload b)) [0] t = d at k1 kpay' kmsg' kbal' kdo kall kany hne k3
  rcases d with ⟨d1, o1⟩
  simp only at k1 kpay' kmsg' kbal' kdo kall kany hne k3 ⊢
  simp only [k1.inCall, Bool.true_eq_false, ↓reduceIte]
  rw [sendMaybe_publish _ [("main", b)] kdo hne kpay']
  simp only [↓reduceIte, helloOuts, Option.isSome_none, Bool.false_or, k1.balance, Bool.and_false, Bool.false_eq_true,
    List.nil_append, publish, pubTargets, allOuts, k1.queues, List.length_cons, List.length_nil, Nat.zero_add, List.range_one,
    Bool.not_false, Bool.true_or, envBal, kbal', kmsg',
    List.flatMap_cons, List.flatMap_nil, List.map_cons, List.map_nil, List.append_nil, frame0_main, ne_eq, not_true_eq_false]
  refine ⟨⟨rfl, rfl, k1.required, rfl, by simp only; have := h.minpos; omega⟩, ?_, ?_, trivial, ?_⟩
  · intro x hx
    simp only [List.mem_map] at hx
    rcases hx with ⟨y, hy, rfl⟩
    exact kall y hy
  · rw [List.any_eq_true] at kany ⊢
    rcases kany with ⟨y, hy, hk⟩
    exact ⟨_, List.mem_map.mpr ⟨y, hy, rfl⟩, hk⟩
  · rw [List.filterMap_append, List.filterMap_append, k3]
    simp [wireOf, slash_main, slash_hb, mainWire, hbWire]

/-! ### the invariant `Base` of fair healing and what one call does to it -/

/-- client-table key of the current consumer incarnation -/
def ownFid (st : St) : String := CID ++ uidOf st.gen

/-- the fair-healing invariant: reachable; every queued request comes from the current consumer incarnation and carries
its current `prev_id`; every other tracked client is past the connection time-out at `t2` -/
structure Base (st : St) (t2 : Int) (s : Recv.Src) (q : List Send.Req) : Prop where
  reach : Reachable st
  con : Idle st.con s
  pub : PubIdle st.pub q
  own : ∀ r ∈ q, ∃ nw, r = reqFor (uidOf st.gen) st.con.prevId nw
  stale : OthersStale (ownFid st) t2 st.pub.clients

theorem base_ownReqs (st : St) (t2 : Int) (s : Recv.Src) (q : List Send.Req) (h : Base st t2 s q) :
    OwnReqs (ownFid st) st.con.prevId q ∧ ¬ st.con.prevId ≤ OF.Facts.MSG_ID_SPECIAL := by
  refine ⟨?_, ?_⟩
  · intro r hr
    rcases h.own r hr with ⟨nw, rfl⟩
    exact ⟨rfl, rfl, rfl⟩
  · have := h.con.prev
    have : OF.Facts.MSG_ID_SPECIAL = -2 := rfl
    omega

theorem tight_align (st : St) (s s1 : Recv.Src) (q q1 : List Send.Req) (ht : TightAt st s1 q1) (hc : Idle st.con s)
    (hp : PubIdle st.pub q) : s1 = s ∧ q1 = q := by
  have h1 : [s1] = [s] := by rw [← ht.con.srcs, hc.srcs]
  have h2 : [q1] = [q] := by rw [← ht.pub.queues, hp.queues]
  exact ⟨by simpa using h1, by simpa using h2⟩

/-- some queued request (or the table) lets the consumer past the publisher's handshake test -/
def effP (st : St) : Bool := effB st.pub.clients (ownFid st) (reqChan st)

def knownP (st : St) : Bool := st.pub.clients.any (·.1 == ownFid st)

/-- **a `recv` from a `Base` state**: a new frame set, or `Base` again with an empty wire channel and one more request -/
theorem base_recv (st : St) (t2 : Int) (s : Recv.Src) (q : List Send.Req) (h : Base st t2 s q) :
    st.con.prevId ≤ (step st .recvCall).1.con.prevId ∧
    ((∃ id ∈ obsRets (step st .recvCall).2, st.con.prevId < id) ∨
     (∃ s', Base (step st .recvCall).1 t2 s' (q ++ [curReq (step st .recvCall).1 s']) ∧ s'.queue = [] ∧
        (step st .recvCall).1.pub.clients = st.pub.clients ∧ (step st .recvCall).1.pub.minSendId = st.pub.minSendId ∧
        ((∀ w ∈ s.queue, w.mid ≠ OF.Facts.MSG_ID_CLOSE) → s.queue ≠ [] → s'.conn = true) ∧
        ((step st .recvCall).1.con.prevId = st.con.prevId ∨ ∃ w ∈ s.queue, (step st .recvCall).1.con.prevId = w.mid - 1))) := by
  have ⟨g1, g2, g3, g4, g5⟩ := recvStep_spec st s q h.con h.pub
  refine ⟨g4, ?_⟩
  rcases g5 with hs | ⟨s', i1, i2, i3, i4, i5⟩
  · exact Or.inl hs
  · right
    refine ⟨s', ⟨Reachable.step st _ h.reach, i1, i3, ?_, ?_⟩, i2, g2, g3, i4, i5⟩
    · intro r hr
      rw [List.mem_append] at hr
      rcases hr with hr | hr
      · rcases h.own r hr with ⟨nw, rfl⟩
        rcases i5 with e | ⟨w, hw, e⟩
        · exact ⟨nw, by rw [g1, e]⟩
        · by_cases hpe : (step st .recvCall).1.con.prevId = st.con.prevId
          · exact ⟨nw, by rw [g1, hpe]⟩
          · exfalso
            rcases tight_reachable st h.reach with ⟨s1, q1, ht⟩
            have ⟨e1, e2⟩ := tight_align st s s1 q q1 ht h.con h.pub
            subst e1 e2
            have := ht.quiet ⟨w, hw, by omega⟩
            rw [this] at hr; cases hr
      · simp only [List.mem_singleton] at hr
        exact ⟨_, by rw [hr]; rfl⟩
    · show OthersStale (CID ++ uidOf (step st .recvCall).1.gen) t2 (step st .recvCall).1.pub.clients
      rw [g1, g2]; exact h.stale


theorem send_con (st : St) (payload : Send.Payload) (t : Int) (s : Recv.Src) (ws : List Recv.Wire) (hc : Idle st.con s)
    (hw : (Send.send0 st.pub none payload false [0] t).2.filterMap wireOf = ws) :
    Idle (step st (.sendCall payload t)).1.con { s with queue := s.queue ++ ws } := by
  have : (step st (.sendCall payload t)).1.con = pushWires st.con ws := by
    show pushWires st.con _ = _
    rw [hw]
  rw [this]; exact idle_pushWires st.con s ws hc

theorem effP_eq (st : St) (q : List Send.Req) (hp : PubIdle st.pub q) : effP st = effB st.pub.clients (ownFid st) q := by
  unfold effP; rw [reqChan_single st q hp.queues]

/-- a `send` from a `Base` state, nobody past the handshake test: HELLO if a request is queued -/
theorem base_send_hello (st : St) (t2 t : Int) (b : Nat) (s : Recv.Src) (q : List Send.Req) (h : Base st t2 s q)
    (ht : t2 ≤ t) (he : effP st = false) :
    Base (step st (.sendCall (mainPayload b) t)).1 t2 { s with queue := s.queue ++ (if q = [] then [] else [helloWire]) } [] ∧
    (step st (.sendCall (mainPayload b) t)).1.pub.clients = st.pub.clients ∧
    (step st (.sendCall (mainPayload b) t)).1.pub.minSendId = st.pub.minSendId := by
  have ⟨ho, hd⟩ := base_ownReqs st t2 s q h
  rw [effP_eq st q h.pub] at he
  have ⟨p1, p2, p3, p4⟩ := send0_own_hello st.pub q b t (ownFid st) st.con.prevId h.pub ho hd
    (othersStale_mono _ _ _ _ h.stale ht) he
  refine ⟨⟨Reachable.step st _ h.reach, send_con st _ t s _ h.con p4, p1, (fun r hr => by cases hr), ?_⟩, p2, p3⟩
  show OthersStale (ownFid st) t2 (Send.send0 st.pub none (mainPayload b) false [0] t).1.clients
  rw [p2]; exact h.stale

/-- … some request past the handshake test and the consumer at or ahead of the publisher: fast-forward -/
theorem base_send_ffwd (st : St) (t2 t : Int) (b : Nat) (s : Recv.Src) (q : List Send.Req) (h : Base st t2 s q)
    (he : effP st = true) (hge : st.pub.minSendId ≤ st.con.prevId) :
    ∃ q', Base (step st (.sendCall (mainPayload b) t)).1 t2 { s with queue := s.queue ++ [] } q' ∧
      (step st (.sendCall (mainPayload b) t)).1.pub.minSendId = st.con.prevId + 1 ∧
      knownP (step st (.sendCall (mainPayload b) t)).1 = true := by
  have ⟨ho, hd⟩ := base_ownReqs st t2 s q h
  rw [effP_eq st q h.pub] at he
  have ⟨q', c, p1, ⟨pre, p2⟩, _, p4, p5, p6⟩ := send0_own_ffwd st.pub q b t (ownFid st) st.con.prevId h.pub ho hd he hge
  refine ⟨q', ⟨Reachable.step st _ h.reach, send_con st _ t s _ h.con p6, p1, ?_, ?_⟩, p4, ?_⟩
  · intro r hr; exact h.own r (by rw [p2]; exact List.mem_append_right _ hr)
  · show OthersStale (ownFid st) t2 (Send.send0 st.pub none (mainPayload b) false [0] t).1.clients
    rw [p5]; exact othersStale_cset _ _ _ _ h.stale
  · show (Send.send0 st.pub none (mainPayload b) false [0] t).1.clients.any (·.1 == ownFid st) = true
    rw [p5]; exact cset_any _ _ _

/-- … some request past the handshake test and the publisher ahead: the next id is published -/
theorem base_send_publish (st : St) (t2 t : Int) (b : Nat) (s : Recv.Src) (q : List Send.Req) (h : Base st t2 s q)
    (ht : t2 ≤ t) (he : effP st = true) (hlt : st.con.prevId < st.pub.minSendId) :
    Base (step st (.sendCall (mainPayload b) t)).1 t2
      { s with queue := s.queue ++ [mainWire st.pub.minSendId b, hbWire st.pub.minSendId] } [] ∧
    (step st (.sendCall (mainPayload b) t)).1.pub.minSendId = st.pub.minSendId + 1 ∧
    knownP (step st (.sendCall (mainPayload b) t)).1 = true := by
  have ⟨ho, hd⟩ := base_ownReqs st t2 s q h
  rw [effP_eq st q h.pub] at he
  have ⟨p1, p2, p3, p4, p5⟩ := send0_own_publish st.pub q b t (ownFid st) st.con.prevId h.pub ho hd
    (othersStale_mono _ _ _ _ h.stale ht) he hlt
  refine ⟨⟨Reachable.step st _ h.reach, send_con st _ t s _ h.con p5, p1, (fun r hr => by cases hr), ?_⟩, p4, p3⟩
  exact othersStale_of_all _ _ _ p2

/-! ### the two modes of fair healing and their transitions -/

/-- how far the handshake has got, read off a state in which the consumer has just polled -/
def stageR (st : St) : Nat :=
  if effP st = false then 3
  else if st.pub.minSendId ≤ st.con.prevId then 2
  else if st.pub.minSendId = st.con.prevId + 1 then 1 else 0

/-- the consumer has polled (and not returned): nothing in flight towards it, at least one request queued -/
def AfterR (st : St) (t2 : Int) : Prop := ∃ s q, Base st t2 s q ∧ s.queue = [] ∧ q ≠ []

/-- the publisher has been called since: what is in flight towards the consumer (`k` = stage it was called at) -/
def AfterS (st : St) (t2 : Int) (k : Nat) : Prop := ∃ s q, Base st t2 s q ∧
  ((s.queue = [helloWire] ∧ q = [] ∧ k = 3) ∨
   (s.queue = [] ∧ knownP st = true ∧ st.pub.minSendId = st.con.prevId + 1 ∧ k = 2) ∨
   (∃ n0 b, s.queue = [mainWire n0 b, hbWire n0] ∧ st.con.prevId < n0 ∧ st.pub.minSendId = n0 + 1 ∧ knownP st = true ∧
      q = [] ∧ (n0 = st.con.prevId + 1 → 1 ≤ k)))

theorem effB_append (cl : Send.Clients) (fid : String) (a b : List Send.Req) :
    effB cl fid (a ++ b) = (effB cl fid a || effB cl fid b) := by simp [effB, List.any_append]

theorem effB_known (cl : Send.Clients) (fid : String) (q : List Send.Req) (hk : cl.any (·.1 == fid) = true) (hq : q ≠ []) :
    effB cl fid q = true := by
  cases q with
  | nil => exact absurd rfl hq
  | cons r q' => simp [effB, hk]

/-- the effect of a non-returning `recv` on `effP`, `knownP`, ids -/
theorem after_recv_facts (st : St) (t2 : Int) (s' : Recv.Src) (q : List Send.Req)
    (hb : Base (step st .recvCall).1 t2 s' (q ++ [curReq (step st .recvCall).1 s']))
    (hcl : (step st .recvCall).1.pub.clients = st.pub.clients) (hp : PubIdle st.pub q) :
    knownP (step st .recvCall).1 = knownP st ∧
    effP (step st .recvCall).1 = (effP st || knownP st || s'.conn) := by
  have hg : ownFid (step st .recvCall).1 = ownFid st := rfl
  refine ⟨by unfold knownP; rw [hcl, hg], ?_⟩
  rw [effP_eq _ _ hb.pub, effP_eq st q hp, hcl, hg, effB_append]
  simp only [effB, List.any_cons, List.any_nil, Bool.or_false, curReq, reqFor, knownP, Bool.not_not, Bool.or_assoc]


theorem stageR_le (st : St) : stageR st ≤ 3 := by
  unfold stageR; split
  · omega
  · split
    · omega
    · split <;> omega

/-- T2: the publisher is called after the consumer has polled -/
theorem afterR_send (st : St) (t2 t : Int) (b : Nat) (h : AfterR st t2) (ht : t2 ≤ t) :
    AfterS (step st (.sendCall (mainPayload b) t)).1 t2 (stageR st) := by
  rcases h with ⟨s, q, hb, hq0, hqn⟩
  by_cases he : effP st = false
  · have ⟨b1, _, _⟩ := base_send_hello st t2 t b s q hb ht he
    refine ⟨_, _, b1, Or.inl ⟨by simp [hq0, hqn], rfl, by simp [stageR, he]⟩⟩
  · have he' : effP st = true := by simpa using he
    by_cases hge : st.pub.minSendId ≤ st.con.prevId
    · have ⟨q', b1, b2, b3⟩ := base_send_ffwd st t2 t b s q hb he' hge
      refine ⟨_, _, b1, Or.inr (Or.inl ⟨by simp [hq0], b3, b2, by simp [stageR, he', hge]⟩)⟩
    · have ⟨b1, b2, b3⟩ := base_send_publish st t2 t b s q hb ht he' (by omega)
      refine ⟨_, _, b1, Or.inr (Or.inr ⟨st.pub.minSendId, b, by simp [hq0], by show st.con.prevId < _; omega, b2, b3, rfl, ?_⟩)⟩
      intro hn
      have hn' : st.pub.minSendId = st.con.prevId + 1 := hn
      unfold stageR
      rw [if_neg (by simp [he']), if_neg hge, if_pos hn']
      exact Nat.le_refl 1

/-- T3: the publisher is called again before the consumer polls -/
theorem afterS_send (st : St) (t2 t : Int) (b : Nat) (k : Nat) (h : AfterS st t2 k) (ht : t2 ≤ t) :
    AfterS (step st (.sendCall (mainPayload b) t)).1 t2 k := by
  rcases h with ⟨s, q, hb, hk⟩
  have hidle : q = [] → effP st = false := by
    intro hq; rw [effP_eq st q hb.pub, hq]; rfl
  have hkn : ∀ st' : St, st'.pub.clients = st.pub.clients → st'.gen = st.gen → knownP st' = knownP st := by
    intro st' h1 h2; unfold knownP ownFid; rw [h1, h2]
  rcases hk with ⟨h1, h2, h3⟩ | ⟨h1, h2, h3, h4⟩ | ⟨n0, b0, h1, h2, h3, h4, h5, h6⟩
  · have ⟨b1, _, _⟩ := base_send_hello st t2 t b s q hb ht (hidle h2)
    exact ⟨_, _, b1, Or.inl ⟨by simp [h1, h2], rfl, h3⟩⟩
  · by_cases hq : q = []
    · have ⟨b1, b2, b3⟩ := base_send_hello st t2 t b s q hb ht (hidle hq)
      refine ⟨_, _, b1, Or.inr (Or.inl ⟨by simp [h1, hq], ?_, by rw [b3]; exact h3, h4⟩)⟩
      rw [hkn _ b2 rfl]; exact h2
    · have he : effP st = true := by rw [effP_eq st q hb.pub]; exact effB_known _ _ _ h2 hq
      have ⟨b1, b2, b3⟩ := base_send_publish st t2 t b s q hb ht he (by omega)
      refine ⟨_, _, b1, Or.inr (Or.inr ⟨st.pub.minSendId, b, by simp [h1], by show st.con.prevId < _; omega, b2, b3, rfl,
        fun _ => by omega⟩)⟩
  · have ⟨b1, b2, b3⟩ := base_send_hello st t2 t b s q hb ht (hidle h5)
    refine ⟨_, _, b1, Or.inr (Or.inr ⟨n0, b0, by simp [h1, h5], h2, by rw [b3]; exact h3, ?_, rfl, h6⟩)⟩
    rw [hkn _ b2 rfl]; exact h4


/-- T6: a poll from a `Base` state: a new frame set, or the consumer has polled -/
theorem base_recv_afterR (st : St) (t2 : Int) (s : Recv.Src) (q : List Send.Req) (h : Base st t2 s q) :
    st.con.prevId ≤ (step st .recvCall).1.con.prevId ∧
    ((∃ id ∈ obsRets (step st .recvCall).2, st.con.prevId < id) ∨ AfterR (step st .recvCall).1 t2) := by
  have ⟨h1, h2⟩ := base_recv st t2 s q h
  refine ⟨h1, ?_⟩
  rcases h2 with hs | ⟨s', b1, b2, _⟩
  · exact Or.inl hs
  · exact Or.inr ⟨s', _, b1, b2, by simp⟩

/-- T5: a `send` from a `Base` state keeps it -/
theorem base_send (st : St) (t2 t : Int) (b : Nat) (s : Recv.Src) (q : List Send.Req) (h : Base st t2 s q) (ht : t2 ≤ t) :
    ∃ s' q', Base (step st (.sendCall (mainPayload b) t)).1 t2 s' q' := by
  by_cases he : effP st = false
  · exact ⟨_, _, (base_send_hello st t2 t b s q h ht he).1⟩
  · have he' : effP st = true := by simpa using he
    by_cases hge : st.pub.minSendId ≤ st.con.prevId
    · have ⟨q', b1, _⟩ := base_send_ffwd st t2 t b s q h he' hge
      exact ⟨_, _, b1⟩
    · exact ⟨_, _, (base_send_publish st t2 t b s q h ht he' (by omega)).1⟩

/-- T1: the consumer polls again before the publisher is called: nothing gets worse -/
theorem afterR_recv (st : St) (t2 : Int) (h : AfterR st t2) :
    st.con.prevId ≤ (step st .recvCall).1.con.prevId ∧
    ((∃ id ∈ obsRets (step st .recvCall).2, st.con.prevId < id) ∨
     (AfterR (step st .recvCall).1 t2 ∧ stageR (step st .recvCall).1 ≤ stageR st)) := by
  rcases h with ⟨s, q, hb, hq0, _⟩
  have ⟨h1, h2⟩ := base_recv st t2 s q hb
  refine ⟨h1, ?_⟩
  rcases h2 with hs | ⟨s', b1, b2, b3, b4, _, b6⟩
  · exact Or.inl hs
  · right
    refine ⟨⟨s', _, b1, b2, by simp⟩, ?_⟩
    have hp : (step st .recvCall).1.con.prevId = st.con.prevId := by
      rcases b6 with e | ⟨w, hw, _⟩
      · exact e
      · rw [hq0] at hw; cases hw
    have ⟨_, f2⟩ := after_recv_facts st t2 s' q b1 b3 hb.pub
    unfold stageR
    rw [b4, hp, f2]
    cases he : effP st with
    | false =>
      simp only [Bool.false_or, ↓reduceIte]
      split
      · exact Nat.le_refl _
      · split
        · omega
        · split <;> omega
    | true => simp

/-- T4: the consumer polls after the publisher was called at stage `k`: a new frame set, or a strictly lower stage -/
theorem afterS_recv (st : St) (t2 : Int) (k : Nat) (h : AfterS st t2 k) :
    st.con.prevId ≤ (step st .recvCall).1.con.prevId ∧
    ((∃ id ∈ obsRets (step st .recvCall).2, st.con.prevId < id) ∨
     (AfterR (step st .recvCall).1 t2 ∧ stageR (step st .recvCall).1 < k)) := by
  rcases h with ⟨s, q, hb, hk⟩
  have ⟨h1, h2⟩ := base_recv st t2 s q hb
  refine ⟨h1, ?_⟩
  rcases h2 with hs | ⟨s', b1, b2, b3, b4, b5, b6⟩
  · exact Or.inl hs
  · have ⟨f1, f2⟩ := after_recv_facts st t2 s' q b1 b3 hb.pub
    have hAR : AfterR (step st .recvCall).1 t2 := ⟨s', _, b1, b2, by simp⟩
    rcases hk with ⟨k1, _, k3⟩ | ⟨k1, k2, k3, k4⟩ | ⟨n0, b0, k1, k2, k3, k4, _, k6⟩
    · -- HELLO was in flight: the consumer has heard
      right
      have hconn : s'.conn = true := by
        apply b5
        · intro w hw; rw [k1] at hw; simp only [List.mem_singleton] at hw; rw [hw]; exact hello_not_close
        · rw [k1]; simp
      refine ⟨hAR, ?_⟩
      unfold stageR
      rw [f2, hconn, k3]
      simp only [Bool.or_true, Bool.true_eq_false, ↓reduceIte]
      split
      · omega
      · split <;> omega
    · -- fast-forwarded: nothing in flight
      right
      have hp : (step st .recvCall).1.con.prevId = st.con.prevId := by
        rcases b6 with e | ⟨w, hw, _⟩
        · exact e
        · rw [k1] at hw; cases hw
      refine ⟨hAR, ?_⟩
      unfold stageR
      rw [f2, k2, b4, hp, k3, k4]
      simp only [Bool.or_true, Bool.true_or, Bool.true_eq_false, ↓reduceIte]
      have : ¬ (st.con.prevId + 1 ≤ st.con.prevId) := by omega
      simp [this]
    · -- a frame set was in flight
      by_cases hnew : st.con.prevId + 1 < n0
      · left
        have ⟨r1, _⟩ := call0_newer st.con s n0 b0 [hbWire n0] hb.con k1 hnew
        refine ⟨n0, ?_, k2⟩
        show n0 ∈ Recv.retIds (Recv.call0 st.con none [0]).2
        rw [r1]; simp
      · right
        have hn0 : n0 = st.con.prevId + 1 := by omega
        have hp : (step st .recvCall).1.con.prevId = st.con.prevId := by
          rcases b6 with e | ⟨w, hw, e⟩
          · exact e
          · rw [k1] at hw
            have hm : w.mid = n0 := by
              simp only [List.mem_cons, List.mem_singleton, List.not_mem_nil, or_false] at hw
              rcases hw with rfl | rfl <;> rfl
            rw [e, hm]; omega
        refine ⟨hAR, ?_⟩
        have := k6 hn0
        unfold stageR
        rw [f2, k4, b4, hp, k3]
        simp only [Bool.or_true, Bool.true_or, Bool.true_eq_false, ↓reduceIte]
        have h1' : ¬ (n0 + 1 ≤ st.con.prevId) := by omega
        have h2' : ¬ (n0 + 1 = st.con.prevId + 1) := by omega
        simp only [h1', h2', ↓reduceIte]
        omega

end OF.Pair
