import OFProps.C03Net
set_option linter.unusedSimpArgs false
/-!
# C03, stage C on the network model — tees and trees (a publisher may have several consumers)

Topology `treeTopo par`: node 0 is the source, node `idx + 1` subscribes to node `par[idx]` only (`ParOK`: `par[idx] ≤ idx`, i.e.
nodes are listed parents first).  A node may have ANY number of consumers (tee, tree); `chainTopo L` is the case `par = [0, 1, …]`.
Everything else as in `C03Net.lean`: arbitrary `proc` (`ProcNames`), every restart-free schedule, no bound.

`C03_net_tree_edge` — for every node `c ≥ 1` with parent `u`, along every run: what `process()` of `c` has been called with is a
PREFIX of the visible part of what `u` has produced from what IT was handed (`prodOf` = `proc u` applied, set by set, with the
normalisation of `process_frames`, ids handed on) — nothing lost from the first set on, nothing duplicated, reordered or altered,
for EVERY consumer of a tee independently of how late it shows up or how slow it is.
`C03_net_tree_composition` — hence, by transitivity along the path `0 = p₀ → p₁ → … → c`, a prefix of the composition
`pathSpec` of the process functions on the source's frames.

NOTE on `outs_required`: in `Net` the PUB/SUB connection of every consumer is up from the start and delivery is immediate, so a
publisher that runs ahead with the consumers it already tracks loses nothing for a consumer it does not track yet (the blocks
wait in that consumer's SUB queue); the theorem therefore needs NO `required` list.  `outs_required` matters exactly when a
consumer's SUB connection can come up later than another's (libzmq slow joiner) — that is modelled at edge level only
(`OFModel/Zmq/PairReq.lean`, `C03_edge_no_loss` with the kernel-checked witness `C03_edge_needs_required`).
-/
namespace OF.Net
open OF.Chain (Blk ChanQ BlkOK Rest visData vis)
open OF.Recv (Src Wire Msg Topic)

/-! ## the tree topology -/

def treeTopo (par : List Nat) : Topo := { ups := [] :: par.map fun p => [p] }

/-- parents are listed before their children -/
def ParOK (par : List Nat) : Prop := ∀ (idx p : Nat), par[idx]? = some p → p ≤ idx

theorem tree_n (par : List Nat) : (treeTopo par).n = par.length + 1 := by simp [treeTopo, Topo.n]

theorem tree_upsOf_zero (par : List Nat) : (treeTopo par).upsOf 0 = [] := by simp [treeTopo, Topo.upsOf]

theorem tree_upsOf_succ (par : List Nat) (idx : Nat) : (treeTopo par).upsOf (idx + 1) = ((par[idx]?).map fun p => [p]).getD [] := by
  simp [treeTopo, Topo.upsOf, List.getElem?_map]

theorem tree_hasOut (par : List Nat) (u : Nat) : (treeTopo par).hasOut u = par.contains u := by
  unfold Topo.hasOut treeTopo
  simp only [List.any_cons, List.contains_nil, Bool.false_or, List.any_map, Function.comp_def, List.contains_cons, Bool.or_false]
  rw [List.contains_eq_any_beq]

/-- the consumer-side invariant of `C03Net.lean`, for the edge `u → c`: only `log c` is read -/
def atC (X : LSt) (c : Nat) : LSt := { st := X.st, log := fun _ => X.log c }

structure GoodT (proc : Proc) (par : List Nat) (X : LSt) : Prop where
  len : X.st.nodes.length = par.length + 1
  tbl : 0 < X.st.tbl.length
  node : ∀ (i : Nat) (nd : Node), X.st.nodes[i]? = some nd → NodeG i nd
  pubs : ∀ (u : Nat) (P : Node), X.st.nodes[u]? = some P → u ∈ par →
    ∃ pub, PubInv proc X u P pub ∧
      ∀ (idx : Nat) (C : Node), par[idx]? = some u → X.st.nodes[idx + 1]? = some C → ∃ bsW s, ConInv (atC X (idx + 1)) u C pub bsW s

theorem goodT_init (proc : Proc) (par : List Nat) : GoodT proc par (linit (treeTopo par)) := by
  have hget : ∀ (i : Nat) (nd : Node), (linit (treeTopo par)).st.nodes[i]? = some nd → i < par.length + 1 ∧ nd = freshNode (treeTopo par) i 0 := by
    intro i nd hi
    simp only [linit, init, List.getElem?_map, tree_n] at hi
    cases hr : (List.range (par.length + 1))[i]? with
    | none => rw [hr] at hi; cases hi
    | some v =>
      rw [hr] at hi
      have := List.getElem?_eq_some_iff.mp hr
      rcases this with ⟨hl, he⟩
      simp only [List.getElem_range] at he
      simp only [List.length_range] at hl
      subst he
      simp only [Option.map_some, Option.some.injEq] at hi
      exact ⟨hl, hi.symm⟩
  refine ⟨by simp [linit, init, tree_n], by simp [linit, init], ?_, ?_⟩
  · intro i nd hi
    rcases hget i nd hi with ⟨hl, rfl⟩
    refine ⟨?_, (by intro _ hc; cases hc), (by intro _ k hk; cases hk)⟩
    intro h0; subst h0
    simp [freshNode, tree_upsOf_zero, Recv.mkSt]
  · intro u P hP _
    rcases hget u P hP with ⟨_, rfl⟩
    refine ⟨[], ?_, ?_⟩
    · refine ⟨?_, idsInc_nil, rfl, rfl, rfl, rfl, ?_, (by intro hc; cases hc), (by intro p d hp; cases hp)⟩
      · simp only [prodOf, freshNode, pendOf, List.append_nil]
        split
        · rfl
        · rfl
      · intro q hq r hr
        simp [freshNode, Send.mkSt] at hq
        subst hq; cases hr
    · intro idx C hidx hC
      rcases hget (idx + 1) C hC with ⟨_, rfl⟩
      have hups : (treeTopo par).upsOf (idx + 1) = [u] := by rw [tree_upsOf_succ, hidx]; rfl
      refine ⟨[], Recv.mkSrc 0 none, ⟨⟨?_, ⟨rfl, rfl, rfl, rfl⟩, ⟨rfl, rfl, rfl⟩, rfl, rfl, (by intro l hl; cases hl), rfl,
        (by simp [freshNode, Recv.mkSt, OF.Facts.MSG_ID_INITIAL_PREV])⟩, rfl⟩,
        ChanQ.nil _, (by intro b hb; cases hb), rfl, rfl, Nat.le_refl _, rfl⟩
      simp [freshNode, hups, Recv.mkSt]

/-! ## delivery in a tree -/

theorem deliverReqs_one_get (tp : Topo) (nodes : List Node) (j gen u : Nat) (outs : List Recv.Out) (hups : tp.upsOf j = [u]) (x : Nat) :
    (deliverReqs tp nodes j gen outs)[x]? =
      if x = u then (nodes[x]?).map fun nd => { nd with pub := pushReqs nd.pub (outs.filterMap (reqOf j gen [u] u)) }
      else nodes[x]? := by
  rw [deliverReqs_get, hups]
  by_cases hx : x = u
  · subst hx; simp only [↓reduceIte]
  · simp only [hx, ↓reduceIte]
    have : outs.filterMap (reqOf j gen [u] x) = [] := by
      rw [List.filterMap_eq_nil_iff]
      intro o _
      exact reqOf_other j gen u x hx o
    rw [this]
    cases nodes[x]? with
    | none => rfl
    | some nd => simp only [Option.map_some, pushReqs_nil]

theorem tree_upsOf_cases (par : List Nat) (x : Nat) : (treeTopo par).upsOf x = [] ∨ ∃ p, (treeTopo par).upsOf x = [p] := by
  cases x with
  | zero => left; exact tree_upsOf_zero par
  | succ idx =>
    rw [tree_upsOf_succ]
    cases par[idx]? with
    | none => left; rfl
    | some p => right; exact ⟨p, rfl⟩

theorem deliverWires_tree_get (par : List Nat) (nodes : List Node) (j : Nat) (ws : List Wire) (x : Nat) :
    (deliverWires (treeTopo par) nodes j ws)[x]? =
      if (treeTopo par).upsOf x = [j] then (nodes[x]?).map fun nd => { nd with con := pushWires nd.con [j] j ws }
      else nodes[x]? := by
  rw [deliverWires_get]
  by_cases hx : (treeTopo par).upsOf x = [j]
  · simp only [hx, ↓reduceIte]
  · simp only [hx, ↓reduceIte]
    cases hn : nodes[x]? with
    | none => rfl
    | some nd =>
      simp only [Option.map_some, Option.some.injEq]
      have : pushWires nd.con ((treeTopo par).upsOf x) j ws = nd.con := by
        apply pushWires_noop
        intro k
        rcases tree_upsOf_cases par x with e | ⟨p, e⟩
        · rw [e]; simp
        · rw [e] at hx ⊢
          cases k with
          | zero => simp; intro hc; exact hx (by rw [hc])
          | succ k => simp
      rw [this]

/-- node `idx + 1` of a tree has exactly the parent `par[idx]` -/
theorem tree_ups_iff (par : List Nat) (idx j : Nat) : (treeTopo par).upsOf (idx + 1) = [j] ↔ par[idx]? = some j := by
  rw [tree_upsOf_succ]
  cases par[idx]? with
  | none => simp
  | some p => simp

/-! ## `nodeRecv` in a tree: generic re-assembly -/

theorem goodT_recv_gen (proc : Proc) (par : List Nat) (hpar : ParOK par) (X : LSt) (idxc u : Nat) (P nd nd' : Node) (rq : Send.Req)
    (log' : Nat → List HSet) (nodes' : List Node) (pub : List HSet)
    (h : GoodT proc par X) (hpu : par[idxc]? = some u) (hP : X.st.nodes[u]? = some P) (hn : X.st.nodes[idxc + 1]? = some nd)
    (hlen : nodes'.length = par.length + 1)
    (hlook : ∀ (x : Nat), nodes'[x]? = if x = u then some { P with pub := pushReqs P.pub [rq] }
        else if x = idxc + 1 then some nd' else X.st.nodes[x]?)
    (hlog : ∀ x, x ≠ idxc + 1 → log' x = X.log x)
    (hG : NodeG (idxc + 1) nd')
    (hpubU : PubInv proc X u P pub)
    (hconsU : ∀ (idx : Nat) (C : Node), par[idx]? = some u → X.st.nodes[idx + 1]? = some C → ∃ bsW s, ConInv (atC X (idx + 1)) u C pub bsW s)
    (hrq : rq.mid ≤ lastId pub)
    (hconC : ∃ bsW' s', ConInv (atC { st := { X.st with nodes := nodes' }, log := log' } (idxc + 1)) u nd' pub bsW' s')
    (hpubC : ∀ pubc, PubInv proc X (idxc + 1) nd pubc → PubInv proc { st := { X.st with nodes := nodes' }, log := log' } (idxc + 1) nd' pubc)
    (hcount : ∀ x, x ≠ idxc + 1 → True) :
    GoodT proc par { st := { X.st with nodes := nodes' }, log := log' } := by
  have huc : u ≠ idxc + 1 := by have := hpar idxc u hpu; omega
  refine ⟨hlen, h.tbl, ?_, ?_⟩
  · intro x n' hx
    simp only at hx
    rw [hlook] at hx
    by_cases hx1 : x = u
    · subst hx1
      simp only [↓reduceIte, Option.some.injEq] at hx
      subst hx
      exact nodeG_frame x P _ (h.node x P hP) rfl rfl rfl rfl
    · simp only [hx1, ↓reduceIte] at hx
      by_cases hx2 : x = idxc + 1
      · subst hx2
        simp only [↓reduceIte, Option.some.injEq] at hx
        subst hx; exact hG
      · simp only [hx2, ↓reduceIte] at hx
        exact h.node x n' hx
  · intro v P' hv hvpar
    simp only at hv
    rw [hlook] at hv
    -- the consumers of `v`, given the old clause with the same `pub`
    have cons : ∀ (pubv : List HSet), (v = u → pubv = pub) →
        (∀ (idx : Nat) (C : Node), par[idx]? = some v → X.st.nodes[idx + 1]? = some C → ∃ bsW s, ConInv (atC X (idx + 1)) v C pubv bsW s) →
        ∀ (idx : Nat) (C' : Node), par[idx]? = some v → nodes'[idx + 1]? = some C' →
          ∃ bsW s, ConInv (atC { st := { X.st with nodes := nodes' }, log := log' } (idx + 1)) v C' pubv bsW s := by
      intro pubv hpv hold idx C' hidx hC'
      rw [hlook] at hC'
      by_cases hx1 : idx + 1 = u
      · simp only [hx1, ↓reduceIte, Option.some.injEq] at hC'
        subst hC'
        rcases hold idx P hidx (by rw [hx1]; exact hP) with ⟨bsW, s, hc⟩
        exact ⟨bsW, s, conInv_frame _ _ v P _ pubv bsW s [] hc (by simp [atC]) (by simp only [atC]; exact hlog _ (by omega)) rfl rfl⟩
      · simp only [hx1, ↓reduceIte] at hC'
        by_cases hx2 : idx + 1 = idxc + 1
        · simp only [hx2, ↓reduceIte, Option.some.injEq] at hC'
          subst hC'
          have hidx' : idx = idxc := by omega
          subst hidx'
          have hvu : v = u := by rw [hpu] at hidx; exact (Option.some.inj hidx).symm
          subst hvu
          rw [hpv rfl]
          exact hconC
        · simp only [hx2, ↓reduceIte] at hC'
          rcases hold idx C' hidx hC' with ⟨bsW, s, hc⟩
          exact ⟨bsW, s, conInv_frame _ _ v C' C' pubv bsW s [] hc (by simp [atC]) (by simp only [atC]; exact hlog _ hx2) rfl rfl⟩
    by_cases hv1 : v = u
    · subst hv1
      simp only [↓reduceIte, Option.some.injEq] at hv
      subst hv
      refine ⟨pub, ?_, cons pub (fun _ => rfl) hconsU⟩
      refine pubInv_frame proc X _ v P _ pub hpubU (hlog v huc) rfl rfl rfl rfl rfl rfl (by simp [pushReqs, hpubU.nq]) ?_
      intro q hq r hr
      rcases pushReqs_mem P.pub [rq] q hq with ⟨q0, hq0, rfl⟩
      rw [List.mem_append] at hr
      rcases hr with hr | hr
      · exact hpubU.reqs q0 hq0 r hr
      · simp only [List.mem_singleton] at hr; subst hr; exact hrq
    · simp only [hv1, ↓reduceIte] at hv
      by_cases hv2 : v = idxc + 1
      · subst hv2
        simp only [↓reduceIte, Option.some.injEq] at hv
        subst hv
        rcases h.pubs (idxc + 1) nd hn hvpar with ⟨pubc, hpc, hcc⟩
        exact ⟨pubc, hpubC pubc hpc, cons pubc (fun e => absurd e.symm huc) hcc⟩
      · simp only [hv2, ↓reduceIte] at hv
        rcases h.pubs v P' hv hvpar with ⟨pubv, hpv, hcv⟩
        exact ⟨pubv, pubInv_frame proc X _ v P' P' pubv hpv (hlog v hv2) rfl rfl rfl rfl rfl rfl hpv.nq hpv.reqs,
          cons pubv (fun e => absurd e hv1) hcv⟩

/-! ## the acting consumer after `recv` returned a set -/

theorem conInv_after_set (proc : Proc) (X X' : LSt) (u c : Nat) (nd : Node) (c1 : Recv.St) (s1 : Src) (k : Int)
    (ts : List (String × Nat)) (bs' : List Blk) (q' : List Wire) (pub : List HSet) (s : Src) (frames : List HFrame)
    (hcon : ConInv X u nd pub ((k, ts) :: bs') s) (hrest : Rest c1 s1) (hprev : c1.prevId = k) (hq1 : s1.queue = q')
    (hch : ChanQ u k q' bs') (htbl : X'.st.tbl = X.st.tbl)
    (hlog : X'.log (u + 1) = X.log (u + 1) ++ [visB (cblk X.st.tbl (k, ts))]) :
    ConInv X' u (processed proc c { nd with con := c1, sendState := some (k, 0), recvState := none } frames) pub bs' s1 := by
  have hhead : pub[nd.count]? = some (cblk X.st.tbl (k, ts)) := by
    have := congrArg List.head? hcon.queued
    rw [List.head?_drop] at this
    simpa using this
  have hcl : nd.count < pub.length := (List.getElem?_eq_some_iff.mp hhead).1
  refine ⟨hrest, (by show ChanQ u c1.prevId s1.queue bs'; rw [hprev, hq1]; exact hch), ?_, ?_, ?_, ?_, ?_⟩
  · intro b hb; rw [htbl]; exact hcon.bodies b (List.mem_cons_of_mem _ hb)
  · show pub.drop (nd.count + 1) = _
    rw [← List.tail_drop, hcon.queued, htbl]; rfl
  · show X'.log (u + 1) = (pub.take (nd.count + 1)).map visB
    rw [hlog, List.take_succ, hhead, hcon.handed]
    simp
  · show nd.count + 1 ≤ pub.length
    omega
  · show c1.prevId = lastId (X'.log (u + 1))
    rw [hlog, lastId_snoc, hprev]; rfl

theorem pubInv_after_set (proc : Proc) (hp : ProcNames proc) (X X' : LSt) (c : Nat) (nd : Node) (c1 : Recv.St) (k : Int)
    (ts : List (String × Nat)) (pubc : List HSet) (hc0 : c ≠ 0) (hpend : nd.pending = none)
    (hpub : PubInv proc X c nd pubc) (hbk : BlkOK ts)
    (hlog : X'.log c = X.log c ++ [visB (cblk X.st.tbl (k, ts))]) (hllen : (X.log c).length = nd.count)
    (hlinc : IdsInc (X.log c)) (hlast : lastId (X.log c) < k) :
    PubInv proc X' c (processed proc c { nd with con := c1, sendState := some (k, 0), recvState := none }
      ((visData k ts).map (hframe X.st.tbl))) pubc := by
  have hprod2 : throughFrom proc c 0 (X.log c) = pubc := by
    have := hpub.prod
    simp only [prodOf, pendOf_none nd hpend, List.append_nil, hc0, ↓reduceIte] at this
    exact this
  have hstrict : ∀ b ∈ pubc, b.1 < k := by
    intro b hb
    rw [← hprod2] at hb
    rcases throughFrom_ids proc c _ 0 b hb with ⟨y, hy, e⟩
    have := lastId_ge _ hlinc y hy
    omega
  refine ⟨?_, hpub.inc, hpub.idle, hpub.bal, hpub.nq, hpub.minSend, hpub.reqs, ?_, ?_⟩
  · rw [pendOf_processed]
    simp only [prodOf, hc0, ↓reduceIte, processed]
    rw [hlog, throughFrom_snoc, hprod2, hllen, handed_contents]
    rfl
  · intro _ b hb
    rw [sendId_processed]
    exact hstrict b hb
  · intro p d hpd hd
    simp only [processed, Option.some.injEq] at hpd
    subst hpd
    refine hp c nd.count _ d ?_ hd
    rw [handed_contents]
    exact namesOK_handed X.st.tbl k ts hbk

/-! ## `nodeRecv` of the source in a tree -/

theorem pubInv_after_src (proc : Proc) (hp : ProcNames proc) (X X' : LSt) (nd : Node) (pub : List HSet)
    (hpub : PubInv proc X 0 nd pub) (hpend : nd.pending = none) (hss : nd.sendState = none) :
    PubInv proc X' 0 (processed proc 0 nd []) pub := by
  have hpubeq : srcBlocks proc nd.count = pub := by
    have := hpub.prod
    simp only [prodOf, ↓reduceIte, pendOf_none nd hpend, List.append_nil] at this
    exact this
  have hsid : sendId (processed proc 0 nd []) = (pub.length : Int) := by
    simp only [sendId, processed, hss]
    rw [hpub.minSend, ← hpubeq, srcBlocks_ids]
  refine ⟨?_, hpub.inc, hpub.idle, hpub.bal, hpub.nq, hpub.minSend, hpub.reqs, ?_, ?_⟩
  · rw [pendOf_processed]
    simp only [prodOf, ↓reduceIte, processed, srcBlocks, hpubeq]
    congr 2
    rw [← sendId_processed proc 0 nd [], hsid]
    rfl
  · intro _ b hb
    rw [hsid]
    have := lastId_ge pub hpub.inc b hb
    have h2 : lastId pub + 1 = (pub.length : Int) := by rw [← hpubeq]; exact srcBlocks_ids proc nd.count
    omega
  · intro p d hpd hd
    simp only [processed, Option.some.injEq] at hpd
    subst hpd
    exact hp 0 nd.count _ d (by simpa using namesOK_nil) hd

theorem goodT_eta (proc : Proc) (par : List Nat) (X : LSt) (h : GoodT proc par X) : GoodT proc par { st := X.st, log := X.log } := by
  cases X; exact h

theorem goodT_recvSource (proc : Proc) (hp : ProcNames proc) (par : List Nat) (X : LSt) (nd : Node) (h : GoodT proc par X)
    (hn : X.st.nodes[0]? = some nd) (hpend : nd.pending = none) :
    GoodT proc par { st := { X.st with nodes := X.st.nodes.set 0 (processed proc 0 nd []) }, log := X.log } := by
  have hget : ∀ (u : Nat), (X.st.nodes.set 0 (processed proc 0 nd []))[u]? = if u = 0 then some (processed proc 0 nd []) else X.st.nodes[u]? := by
    intro u
    rw [List.getElem?_set]
    by_cases hu : 0 = u
    · subst hu
      have : 0 < X.st.nodes.length := (List.getElem?_eq_some_iff.mp hn).1
      simp [this]
    · have : ¬ u = 0 := fun e => hu e.symm
      simp [hu, this]
  have hG := h.node 0 nd hn
  refine ⟨by simp only [List.length_set]; exact h.len, h.tbl, ?_, ?_⟩
  · intro u nd' hu
    simp only at hu
    rw [hget] at hu
    by_cases hu0 : u = 0
    · subst hu0
      simp only [↓reduceIte, Option.some.injEq] at hu
      subst hu
      exact ⟨fun _ => hG.src rfl, fun hc => absurd hc (by omega), fun hc => absurd hc (by omega)⟩
    · simp only [hu0, ↓reduceIte] at hu
      exact h.node u nd' hu
  · intro v P' hv hvpar
    simp only at hv
    rw [hget] at hv
    have cons : ∀ (pubv : List HSet) (hold : ∀ (idx : Nat) (C : Node), par[idx]? = some v → X.st.nodes[idx + 1]? = some C →
          ∃ bsW s, ConInv (atC X (idx + 1)) v C pubv bsW s) (idx : Nat) (C' : Node), par[idx]? = some v →
        (X.st.nodes.set 0 (processed proc 0 nd []))[idx + 1]? = some C' →
        ∃ bsW s, ConInv (atC { st := { X.st with nodes := X.st.nodes.set 0 (processed proc 0 nd []) }, log := X.log } (idx + 1)) v C' pubv bsW s := by
      intro pubv hold idx C' hidx hC'
      rw [hget] at hC'
      simp only [Nat.add_eq_zero, Nat.succ_ne_zero, and_false, ↓reduceIte] at hC'
      rcases hold idx C' hidx hC' with ⟨bsW, s, hc⟩
      exact ⟨bsW, s, conInv_frame _ _ v C' C' pubv bsW s [] hc (by simp [atC]) rfl rfl rfl⟩
    by_cases hv0 : v = 0
    · subst hv0
      simp only [↓reduceIte, Option.some.injEq] at hv
      subst hv
      rcases h.pubs 0 nd hn hvpar with ⟨pub, hpub, hcons⟩
      exact ⟨pub, pubInv_after_src proc hp X _ nd pub hpub hpend (hG.src rfl).2, cons pub hcons⟩
    · simp only [hv0, ↓reduceIte] at hv
      rcases h.pubs v P' hv hvpar with ⟨pub, hpub, hcons⟩
      exact ⟨pub, pubInv_frame proc X _ v P' P' pub hpub rfl rfl rfl rfl rfl rfl rfl hpub.nq hpub.reqs, cons pub hcons⟩

/-! ## `nodeRecv` in a tree, assembled -/

theorem relay_lookupT (tp : Topo) (nodes : List Node) (j gen u : Nat) (P nd' : Node) (outs : List Recv.Out) (rq : Send.Req)
    (hups : tp.upsOf j = [u]) (huj : u ≠ j) (hP : nodes[u]? = some P) (hj : j < nodes.length)
    (hrq : outs.filterMap (reqOf j gen [u] u) = [rq]) (x : Nat) :
    (deliverReqs tp (nodes.set j nd') j gen outs)[x]? =
      if x = u then some { P with pub := pushReqs P.pub [rq] } else if x = j then some nd' else nodes[x]? := by
  rw [deliverReqs_one_get tp _ j gen u outs hups x, List.getElem?_set]
  by_cases hx : x = u
  · subst hx
    have : ¬ j = x := fun e => huj e.symm
    simp only [↓reduceIte, this, hP, Option.map_some, hrq]
  · simp only [hx, ↓reduceIte]
    by_cases hx2 : x = j
    · subst hx2; simp [hj]
    · have : ¬ j = x := fun e => hx2 e.symm
      simp only [this, ↓reduceIte, hx2]

theorem goodT_stepRecv (proc : Proc) (hp : ProcNames proc) (par : List Nat) (hpar : ParOK par) (X : LSt) (j : Nat)
    (h : GoodT proc par X) : GoodT proc par (lstep (treeTopo par) proc X (.nodeRecv j)) := by
  unfold lstep
  simp only [step, stepRecv]
  cases hn : X.st.nodes[j]? with
  | none => exact goodT_eta proc par X h
  | some nd =>
    simp only
    have hjL : j < par.length + 1 := by rw [← h.len]; exact (List.getElem?_eq_some_iff.mp hn).1
    by_cases hpend : nd.pending.isSome = true
    · simp only [hpend, ↓reduceIte]
      exact goodT_eta proc par X h
    · have hpn : nd.pending = none := by
        cases hc : nd.pending with
        | none => rfl
        | some x => rw [hc] at hpend; simp at hpend
      simp only [hpend, Bool.false_eq_true, ↓reduceIte]
      cases j with
      | zero =>
        have hsrc : nd.con.srcs.isEmpty = true := by rw [((h.node 0 nd hn).src rfl).1]; rfl
        simp only [hsrc, ↓reduceIte, recvSource]
        exact goodT_recvSource proc hp par X nd h hn hpn
      | succ idxc =>
        have hidx : idxc < par.length := by omega
        have hpu : par[idxc]? = some par[idxc] := List.getElem?_eq_getElem hidx
        generalize par[idxc] = u at hpu
        have hule : u ≤ idxc := hpar idxc u hpu
        have hupar : u ∈ par := List.mem_of_getElem? hpu
        have huL : u < X.st.nodes.length := by rw [h.len]; omega
        have hP : X.st.nodes[u]? = some X.st.nodes[u] := List.getElem?_eq_getElem huL
        generalize X.st.nodes[u] = P at hP
        rcases h.pubs u P hP hupar with ⟨pub, hpubU, hconsU⟩
        rcases hconsU idxc nd hpu hn with ⟨bsW, s, hcon⟩
        have hups : (treeTopo par).upsOf (idxc + 1) = [u] := (tree_ups_iff par idxc u).mpr hpu
        have hsrcs : nd.con.srcs = [s] := hcon.rest.idle.srcs
        have hne : nd.con.srcs.isEmpty = false := by rw [hsrcs]; rfl
        simp only [hne, Bool.false_eq_true, ↓reduceIte, recvRelay]
        have hprio : List.range nd.con.srcs.length = [0] := by rw [hsrcs]; rfl
        rw [hprio]
        have hst : ∀ k, nd.recvState = some k → k ≤ nd.con.prevId + 1 := (h.node (idxc + 1) nd hn).recvSt (by omega)
        have ⟨hlinc, hllen, hle⟩ := con_log_inc (atC X (idxc + 1)) u nd pub bsW s hcon hpubU.inc
        have hjlen : idxc + 1 < X.st.nodes.length := by rw [h.len]; exact hjL
        rcases OF.Chain.call0_chain u nd.con s nd.recvState s.queue bsW hcon.rest rfl hcon.chan hst with
          ⟨hb0, c1, s1, e1, hrest, hprev, hq1, _⟩ | ⟨k, ts, bs', c1, s1, q', hb0, hbk, hlt, e1, hrest, hprev, hq1, hch, _⟩
        · rw [e1]
          have hret : retOf [Recv.Out.req 0 nd.con.prevId 0 (!s1.conn), Recv.Out.retNone] = none := rfl
          simp only [afterRecv, recvObs, hret, logUpd]
          subst hb0
          refine goodT_recv_gen proc par hpar X idxc u P nd { nd with con := c1 }
            { cid := cidOf (idxc + 1), uid := uidOf nd.gen 0, mid := nd.con.prevId, eph := 0, new := !s1.conn, body := 0 }
            X.log _ pub h hpu hP hn (by simp only [deliverReqs, List.length_mapIdx, List.length_set]; exact h.len) ?_
            (fun _ _ => rfl) ?_ hpubU hconsU hle ?_ ?_ (fun _ _ => trivial)
          · intro x
            exact relay_lookupT (treeTopo par) X.st.nodes (idxc + 1) nd.gen u P _ _ _ hups (by omega) hP hjlen (by simp [reqOf]) x
          · have hG := h.node (idxc + 1) nd hn
            refine ⟨fun hc => absurd hc (by omega), ?_, ?_⟩
            · intro _ hc; simp only [hpn] at hc; cases hc
            · intro h0 k hk
              simp only at hk ⊢
              rw [hprev]; exact hG.recvSt h0 k hk
          · refine ⟨[], s1, hrest, ?_, (by intro b hb; cases hb), hcon.queued, hcon.handed, hcon.cnt,
              (by show c1.prevId = _; rw [hprev]; exact hcon.prev)⟩
            simp only; rw [hq1]; exact ChanQ.nil _
          · intro pubc hpc
            exact pubInv_frame proc X _ (idxc + 1) nd _ pubc hpc rfl rfl rfl rfl rfl rfl rfl hpc.nq hpc.reqs
        · rw [e1]
          have hret : retOf [Recv.Out.req 0 k 0 false, Recv.Out.ret k 0 (visData k ts)] = some (k, 0, visData k ts) := rfl
          subst hb0
          simp only [afterRecv, recvObs, hret, logUpd]
          have hlogeq : (fun x => if x = idxc + 1 then X.log x ++ [(k, ((visData k ts).map (hframe X.st.tbl)).map fun f => (f.topic, f.content))] else X.log x) =
              fun x => if x = idxc + 1 then X.log (idxc + 1) ++ [visB (cblk X.st.tbl (k, ts))] else X.log x := by
            funext x
            by_cases hx : x = idxc + 1
            · subst hx; simp only [↓reduceIte]; rw [handed_contents]; rfl
            · simp only [hx, ↓reduceIte]
          rw [hlogeq]
          have hkpub : cblk X.st.tbl (k, ts) ∈ pub := by
            have : cblk X.st.tbl (k, ts) ∈ pub.drop nd.count := by
              rw [hcon.queued]; exact List.mem_map_of_mem (f := cblk X.st.tbl) (List.mem_cons_self ..)
            exact List.mem_of_mem_drop this
          have hk0 : 0 ≤ k := by have := hcon.rest.idle.prev; omega
          refine goodT_recv_gen proc par hpar X idxc u P nd
            (processed proc (idxc + 1) { nd with con := c1, sendState := some (k, 0), recvState := none } ((visData k ts).map (hframe X.st.tbl)))
            { cid := cidOf (idxc + 1), uid := uidOf nd.gen 0, mid := k, eph := 0, new := false, body := 0 }
            (fun x => if x = idxc + 1 then X.log (idxc + 1) ++ [visB (cblk X.st.tbl (k, ts))] else X.log x) _ pub h hpu hP hn (by simp only [deliverReqs, List.length_mapIdx, List.length_set]; exact h.len) ?_
            (fun x hx => by simp only [hx, ↓reduceIte]) ?_ hpubU hconsU (lastId_ge pub hpubU.inc _ hkpub) ?_ ?_ (fun _ _ => trivial)
          · intro x
            exact relay_lookupT (treeTopo par) X.st.nodes (idxc + 1) nd.gen u P _ _ _ hups (by omega) hP hjlen (by simp [reqOf]) x
          · refine ⟨fun hc => absurd hc (by omega), ?_, ?_⟩
            · intro _ _
              exact ⟨by simp only [processed, hprev], by simp only [processed, hprev]; exact hk0⟩
            · intro _ k' hk'
              simp only [processed] at hk'; cases hk'
          · exact ⟨bs', s1, conInv_after_set proc (atC X (idxc + 1)) _ u (idxc + 1) nd c1 s1 k ts bs' q' pub s _ hcon hrest hprev hq1 hch rfl
              (by simp only [atC, ↓reduceIte])⟩
          · intro pubc hpc
            exact pubInv_after_set proc hp X _ (idxc + 1) nd c1 k ts pubc (by omega) hpn hpc hbk (by simp only [↓reduceIte])
              hllen hlinc (by have := hcon.prev; simp only [atC] at this; omega)

/-! ## `nodeSend` in a tree -/

theorem nodeG_push (i : Nat) (C : Node) (ups : List Nat) (p : Nat) (ws : List Wire) (h : NodeG i C) (hi : 0 < i) :
    NodeG i { C with con := pushWires C.con ups p ws } :=
  ⟨fun hc => absurd hc (by omega), fun h0 hp => h.relay h0 hp, fun h0 k hk => h.recvSt h0 k hk⟩

/-- generic re-assembly after node `j` acted as a publisher: its own state changed, every consumer of `j` got `ws`, the table grew -/
theorem goodT_send_gen (proc : Proc) (par : List Nat) (hpar : ParOK par) (X : LSt) (j : Nat) (nd nd' : Node) (es : List Entry)
    (ws : List Wire) (nodes' : List Node) (h : GoodT proc par X) (hn : X.st.nodes[j]? = some nd)
    (hlen : nodes'.length = par.length + 1)
    (hlook : ∀ (x : Nat), nodes'[x]? = if x = j then some nd' else if (treeTopo par).upsOf x = [j] then
        (X.st.nodes[x]?).map fun C => { C with con := pushWires C.con [j] j ws } else X.st.nodes[x]?)
    (hG : NodeG j nd') (hcon_nd : nd'.con = nd.con) (hcount_nd : nd'.count = nd.count)
    (hnew : j ∈ par → ∃ pub', PubInv proc { st := { nodes := nodes', tbl := X.st.tbl ++ es }, log := X.log } j nd' pub' ∧
      ∀ (idx : Nat) (C : Node), par[idx]? = some j → X.st.nodes[idx + 1]? = some C →
        ∃ bsW s, ConInv (atC { st := { nodes := nodes', tbl := X.st.tbl ++ es }, log := X.log } (idx + 1)) j
          { C with con := pushWires C.con [j] j ws } pub' bsW s) :
    GoodT proc par { st := { nodes := nodes', tbl := X.st.tbl ++ es }, log := X.log } := by
  refine ⟨hlen, by simp only [List.length_append]; have := h.tbl; omega, ?_, ?_⟩
  · intro x n' hx
    simp only at hx
    rw [hlook] at hx
    by_cases hx1 : x = j
    · subst hx1
      simp only [↓reduceIte, Option.some.injEq] at hx
      subst hx; exact hG
    · simp only [hx1, ↓reduceIte] at hx
      by_cases hx2 : (treeTopo par).upsOf x = [j]
      · simp only [hx2, ↓reduceIte] at hx
        cases hxx : X.st.nodes[x]? with
        | none => rw [hxx] at hx; cases hx
        | some C =>
          rw [hxx] at hx
          simp only [Option.map_some, Option.some.injEq] at hx
          subst hx
          have hx0 : 0 < x := by
            cases x with
            | zero => rw [tree_upsOf_zero] at hx2; cases hx2
            | succ n => omega
          exact nodeG_push x C _ _ _ (h.node x C hxx) hx0
      · simp only [hx2, ↓reduceIte] at hx
        exact h.node x n' hx
  · intro v P' hv hvpar
    simp only at hv
    rw [hlook] at hv
    by_cases hv1 : v = j
    · subst hv1
      simp only [↓reduceIte, Option.some.injEq] at hv
      subst hv
      rcases hnew hvpar with ⟨pub', hp', hc'⟩
      refine ⟨pub', hp', ?_⟩
      intro idx C' hidx hC'
      simp only at hC'
      rw [hlook] at hC'
      have hne : ¬ idx + 1 = v := by have := hpar idx v hidx; omega
      have hups : (treeTopo par).upsOf (idx + 1) = [v] := (tree_ups_iff par idx v).mpr hidx
      simp only [hne, hups, ↓reduceIte] at hC'
      cases hxx : X.st.nodes[idx + 1]? with
      | none => rw [hxx] at hC'; cases hC'
      | some C =>
        rw [hxx] at hC'
        simp only [Option.map_some, Option.some.injEq] at hC'
        subst hC'
        exact hc' idx C hidx hxx
    · simp only [hv1, ↓reduceIte] at hv
      -- the old node at `v`, and its relation to the new one
      have hold : ∃ P, X.st.nodes[v]? = some P ∧ P'.pub = P.pub ∧ P'.pending = P.pending ∧ P'.count = P.count ∧
          P'.sendState = P.sendState := by
        by_cases hv2 : (treeTopo par).upsOf v = [j]
        · simp only [hv2, ↓reduceIte] at hv
          cases hxx : X.st.nodes[v]? with
          | none => rw [hxx] at hv; cases hv
          | some P =>
            rw [hxx] at hv
            simp only [Option.map_some, Option.some.injEq] at hv
            subst hv
            exact ⟨P, rfl, rfl, rfl, rfl, rfl⟩
        · simp only [hv2, ↓reduceIte] at hv
          exact ⟨P', hv, rfl, rfl, rfl, rfl⟩
      rcases hold with ⟨P, hPv, e1, e2, e3, e4⟩
      rcases h.pubs v P hPv hvpar with ⟨pubv, hpv, hcv⟩
      refine ⟨pubv, pubInv_frame proc X _ v P P' pubv hpv rfl e3 e2 e4 (by rw [e1]) (by rw [e1]) (by rw [e1])
        (by rw [e1]; exact hpv.nq) (by rw [e1]; exact hpv.reqs), ?_⟩
      intro idx C' hidx hC'
      simp only at hC'
      rw [hlook] at hC'
      have hupsx : (treeTopo par).upsOf (idx + 1) = [v] := (tree_ups_iff par idx v).mpr hidx
      have hnj : ¬ (treeTopo par).upsOf (idx + 1) = [j] := by
        rw [hupsx]; intro hc; exact hv1 (by simpa using hc)
      by_cases hx1 : idx + 1 = j
      · simp only [hx1, ↓reduceIte, Option.some.injEq] at hC'
        subst hC'
        rcases hcv idx nd hidx (by rw [hx1]; exact hn) with ⟨bsW, s, hc⟩
        exact ⟨bsW, s, conInv_frame _ _ v nd _ pubv bsW s es hc rfl rfl hcon_nd hcount_nd⟩
      · simp only [hx1, hnj, ↓reduceIte] at hC'
        rcases hcv idx C' hidx hC' with ⟨bsW, s, hc⟩
        exact ⟨bsW, s, conInv_frame _ _ v C' C' pubv bsW s es hc rfl rfl rfl rfl⟩

theorem send_outcome_gen (proc : Proc) (X : LSt) (j : Nat) (t : Int) (nd : Node) (p : Pending) (pub : List HSet)
    (hpub : PubInv proc X j nd pub) (hG : NodeG j nd) (hpend : nd.pending = some p) :
    SendOut (fun r => r.mid ≤ lastId pub) j nd.pub (sendId nd) ((dictOf p.res).map (relabel X.st.tbl.length))
      (Send.send0 nd.pub nd.sendState (.deferred ((dictOf p.res).map (relabel X.st.tbl.length))) false [0] t) ∧ 0 ≤ sendId nd := by
  have hpis : nd.pending.isSome = true := by rw [hpend]; rfl
  have hs : nd.sendState = none ∨ ∃ k', nd.sendState = some (k', 0) := by
    by_cases hj0 : j = 0
    · left; exact (hG.src hj0).2
    · right; exact ⟨_, (hG.relay (by omega) hpis).1⟩
  have hsid0 : 0 ≤ sendId nd := by
    by_cases hj0 : j = 0
    · have : sendId nd = nd.pub.minSendId := by unfold sendId; rw [(hG.src hj0).2]
      rw [this, hpub.minSend]; have := lastId_ge_neg1 pub hpub.inc; omega
    · have ⟨e, h0⟩ := hG.relay (by omega) hpis
      have : sendId nd = nd.con.prevId := by unfold sendId; rw [e]
      rw [this]; exact h0
  have hlast : lastId pub < sendId nd := by
    rcases lastId_mem_or pub with e | ⟨b, hb, e⟩
    · omega
    · rw [e]; exact hpub.strict hpis b hb
  have hout := send0_chain (fun r => r.mid ≤ lastId pub) j nd.pub nd.sendState ((dictOf p.res).map (relabel X.st.tbl.length)) t
    hpub.idle hpub.bal hpub.nq hs (by rw [callId_sendId, hpub.minSend]; omega)
    (by intro q hq x hx; rw [callId_sendId]; have := hpub.reqs q hq x hx; exact ⟨by omega, this⟩)
  rw [callId_sendId] at hout
  exact ⟨hout, hsid0⟩

theorem send_lookupT (par : List Nat) (hpar : ParOK par) (nodes : List Node) (j : Nat) (nd' : Node) (ws : List Wire)
    (hj : j < nodes.length) (x : Nat) :
    (deliverWires (treeTopo par) (nodes.set j nd') j ws)[x]? =
      if x = j then some nd' else if (treeTopo par).upsOf x = [j] then
        (nodes[x]?).map fun C => { C with con := pushWires C.con [j] j ws } else nodes[x]? := by
  rw [deliverWires_tree_get, List.getElem?_set]
  have hjj : ¬ (treeTopo par).upsOf j = [j] := by
    cases j with
    | zero => rw [tree_upsOf_zero]; intro hc; cases hc
    | succ n =>
      rw [tree_ups_iff]
      intro hc
      have := hpar n (n + 1) hc; omega
  by_cases hx : x = j
  · subst hx
    simp [hjj, hj]
  · have : ¬ j = x := fun e => hx e.symm
    simp only [hx, this, ↓reduceIte]

theorem goodT_sendReal (proc : Proc) (par : List Nat) (hpar : ParOK par) (X : LSt) (j : Nat) (t : Int) (nd : Node) (p : Pending)
    (h : GoodT proc par X) (hn : X.st.nodes[j]? = some nd) (hpend : nd.pending = some p) (hjpar : j ∈ par) :
    GoodT proc par { st := (sendReal (treeTopo par) X.st j nd p t).1, log := X.log } := by
  have hjL : j < X.st.nodes.length := (List.getElem?_eq_some_iff.mp hn).1
  rcases h.pubs j nd hn hjpar with ⟨pub, hpub, hcons⟩
  have hG := h.node j nd hn
  have hpis : nd.pending.isSome = true := by rw [hpend]; rfl
  have ⟨hout, hsid0⟩ := send_outcome_gen proc X j t nd p pub hpub hG hpend
  have hpay : payloadOf X.st.tbl.length p.res = .deferred ((dictOf p.res).map (relabel X.st.tbl.length)) := rfl
  unfold sendReal
  simp only [hpay]
  generalize hr : Send.send0 nd.pub nd.sendState (.deferred ((dictOf p.res).map (relabel X.st.tbl.length))) false [0] t = r at hout
  rcases hout with ⟨o1, o2, o3, o4, hcase⟩
  have hlen' : ∀ (nd' : Node) (ws : List Wire), (deliverWires (treeTopo par) (X.st.nodes.set j nd') j ws).length = par.length + 1 := by
    intro nd' ws; simp only [deliverWires, List.length_mapIdx, List.length_set]; exact h.len
  have hlook := fun nd' ws => send_lookupT par hpar X.st.nodes j nd' ws hjL
  rcases hcase with ⟨m1, m2, m3, m4⟩ | ⟨hrn, m1, m2, m3, m4⟩ | ⟨ts, hrs, m1, m2, m3, m4⟩
  · -- time-out
    have haft : afterSend nd p r = { nd with pub := r.1 } := by unfold afterSend; rw [m2]
    rw [haft]
    refine goodT_send_gen proc par hpar X j nd _ _ _ _ h hn (hlen' _ _) (hlook _ _) (nodeG_frame j nd _ hG rfl rfl rfl rfl) rfl rfl ?_
    intro _
    refine ⟨pub, pubInv_frame proc X _ j nd { nd with pub := r.1 } pub hpub rfl rfl rfl rfl (o1.trans hpub.idle.symm) (o2.trans hpub.bal.symm) m1 o3
      (fun q hq x hx => (o4 q hq x hx).2), ?_⟩
    intro idx C hidx hC
    rcases hcons idx C hidx hC with ⟨bsW, s, hc⟩
    exact ⟨bsW, _, conInv_hellos (atC X (idx + 1)) j C pub bsW s _ _ _ hc m4⟩
  · -- the callable returned None
    have hd : dictOf p.res = none := by
      cases hdd : dictOf p.res with
      | none => rfl
      | some d => rw [hdd] at hrn; cases hrn
    have haft : afterSend nd p r = { nd with pub := r.1, pending := none, sendState := none, recvState := none } := by
      unfold afterSend; rw [m2]; simp only [m3, hd, Option.isNone_none, Bool.and_self, ↓reduceIte]
    rw [haft]
    refine goodT_send_gen proc par hpar X j nd _ _ _ _ h hn (hlen' _ _) (hlook _ _)
      ⟨fun h0 => ⟨(hG.src h0).1, rfl⟩, (by intro _ hc; cases hc), (by intro _ k hk; cases hk)⟩ rfl rfl ?_
    intro _
    refine ⟨pub, ?_, ?_⟩
    · refine ⟨?_, hpub.inc, o1, o2, o3, m1.trans hpub.minSend, fun q hq x hx => (o4 q hq x hx).2, (by intro hc; cases hc),
        (by intro q d hq; cases hq)⟩
      have := hpub.prod
      rw [pendOf_nodict nd p hpend hd] at this
      simp only [prodOf] at this ⊢
      rw [this]; rfl
    · intro idx C hidx hC
      rcases hcons idx C hidx hC with ⟨bsW, s, hc⟩
      exact ⟨bsW, _, conInv_hellos (atC X (idx + 1)) j C pub bsW s _ _ _ hc m4⟩
  · -- the block is published
    have hd : ∃ d, dictOf p.res = some d ∧ ts = relabel X.st.tbl.length d := by
      cases hdd : dictOf p.res with
      | none => rw [hdd] at hrs; cases hrs
      | some d => rw [hdd] at hrs; simp only [Option.map_some, Option.some.injEq] at hrs; exact ⟨d, rfl, hrs.symm⟩
    rcases hd with ⟨d, hd, rfl⟩
    have haft : afterSend nd p r = { nd with pub := r.1, pending := none, sendState := none, recvState := some (sendId nd + 1) } := by
      unfold afterSend; rw [m2]; simp only [m3, hd, Option.isNone_some, Bool.and_false, Bool.false_eq_true, ↓reduceIte]
    have hent : entriesOf p.res (sendOrigin j nd p) = d.map fun q => ({ content := q.2, orig := sendOrigin j nd p } : Entry) := by
      simp only [entriesOf, hd, Option.getD_some]
    rw [haft, m4, hent]
    have hnames := hpub.names p d hpend hd
    refine goodT_send_gen proc par hpar X j nd _ _ _ _ h hn (hlen' _ _) (hlook _ _) ?_ rfl rfl ?_
    · refine ⟨fun h0 => ⟨(hG.src h0).1, rfl⟩, (by intro _ hc; cases hc), ?_⟩
      intro h0 k hk
      simp only [Option.some.injEq] at hk
      have ⟨e, _⟩ := hG.relay h0 hpis
      have : sendId nd = nd.con.prevId := by unfold sendId; rw [e]
      simp only; omega
    · intro _
      refine ⟨pub ++ [(sendId nd, d)], ?_, ?_⟩
      · refine ⟨?_, idsInc_snoc pub _ hpub.inc (hpub.strict hpis) hsid0, o1, o2, o3, (by rw [m1, lastId_snoc]), ?_,
          (by intro hc; cases hc), (by intro q d' hq; cases hq)⟩
        · have := hpub.prod
          rw [pendOf_some nd p d hpend hd] at this
          simp only [prodOf] at this ⊢
          rw [this]; simp [pendOf]
        · intro q hq x hx
          rw [lastId_snoc]
          have := (o4 q hq x hx).1; simp only; omega
      · intro idx C hidx hC
        rcases hcons idx C hidx hC with ⟨bsW, s, hc⟩
        exact ⟨_, _, conInv_block (atC X (idx + 1)) j C pub bsW s (sendId nd) d _ _ hc hpub.inc (hpub.strict hpis) hsid0 hnames⟩

theorem goodT_sendSkip (proc : Proc) (par : List Nat) (hpar : ParOK par) (X : LSt) (j : Nat) (nd : Node) (p : Pending)
    (h : GoodT proc par X) (hn : X.st.nodes[j]? = some nd) (hpend : nd.pending = some p)
    (hno : Loop.reachesSender ((treeTopo par).hasOut j) p.res = false) :
    GoodT proc par { st := { X.st with nodes := X.st.nodes.set j { nd with pending := none } }, log := X.log } := by
  have hjL : j < X.st.nodes.length := (List.getElem?_eq_some_iff.mp hn).1
  have hget : ∀ (u : Nat), (X.st.nodes.set j { nd with pending := none })[u]? =
      if u = j then some { nd with pending := none } else X.st.nodes[u]? := by
    intro u
    rw [List.getElem?_set]
    by_cases hu : j = u
    · subst hu; simp [hjL]
    · have : ¬ u = j := fun e => hu e.symm
      simp [hu, this]
  have hG := h.node j nd hn
  refine ⟨by simp only [List.length_set]; exact h.len, h.tbl, ?_, ?_⟩
  · intro u n' hu
    simp only at hu
    rw [hget] at hu
    by_cases hu1 : u = j
    · subst hu1
      simp only [↓reduceIte, Option.some.injEq] at hu
      subst hu
      exact ⟨hG.src, (by intro _ hc; cases hc), hG.recvSt⟩
    · simp only [hu1, ↓reduceIte] at hu
      exact h.node u n' hu
  · intro v P' hv hvpar
    simp only at hv
    rw [hget] at hv
    have cons : ∀ (pubv : List HSet) (hold : ∀ (idx : Nat) (C : Node), par[idx]? = some v → X.st.nodes[idx + 1]? = some C →
          ∃ bsW s, ConInv (atC X (idx + 1)) v C pubv bsW s) (idx : Nat) (C' : Node), par[idx]? = some v →
        (X.st.nodes.set j { nd with pending := none })[idx + 1]? = some C' →
        ∃ bsW s, ConInv (atC { st := { X.st with nodes := X.st.nodes.set j { nd with pending := none } }, log := X.log } (idx + 1)) v C' pubv bsW s := by
      intro pubv hold idx C' hidx hC'
      rw [hget] at hC'
      by_cases hx : idx + 1 = j
      · simp only [hx, ↓reduceIte, Option.some.injEq] at hC'
        subst hC'
        rcases hold idx nd hidx (by rw [hx]; exact hn) with ⟨bsW, s, hc⟩
        exact ⟨bsW, s, conInv_frame _ _ v nd _ pubv bsW s [] hc (by simp [atC]) rfl rfl rfl⟩
      · simp only [hx, ↓reduceIte] at hC'
        rcases hold idx C' hidx hC' with ⟨bsW, s, hc⟩
        exact ⟨bsW, s, conInv_frame _ _ v C' C' pubv bsW s [] hc (by simp [atC]) rfl rfl rfl⟩
    by_cases hv1 : v = j
    · subst hv1
      simp only [↓reduceIte, Option.some.injEq] at hv
      subst hv
      rcases h.pubs v nd hn hvpar with ⟨pub, hpub, hcons⟩
      have hd : dictOf p.res = none := by
        have hc : par.contains v = true := by simpa using hvpar
        rw [tree_hasOut, hc] at hno
        cases hres : p.res with
        | none => rfl
        | dict d => rw [hres] at hno; simp [Loop.reachesSender] at hno
        | deferred r => rw [hres] at hno; simp [Loop.reachesSender] at hno
      refine ⟨pub, ?_, cons pub hcons⟩
      refine ⟨?_, hpub.inc, hpub.idle, hpub.bal, hpub.nq, hpub.minSend, hpub.reqs, (by intro hc; cases hc), (by intro q d hq; cases hq)⟩
      have := hpub.prod
      rw [pendOf_nodict nd p hpend hd] at this
      simp only [prodOf] at this ⊢
      rw [this]; rfl
    · simp only [hv1, ↓reduceIte] at hv
      rcases h.pubs v P' hv hvpar with ⟨pub, hpub, hcons⟩
      exact ⟨pub, pubInv_frame proc X _ v P' P' pub hpub rfl rfl rfl rfl rfl rfl rfl hpub.nq hpub.reqs, cons pub hcons⟩

theorem goodT_stepSend (proc : Proc) (par : List Nat) (hpar : ParOK par) (X : LSt) (j : Nat) (t : Int) (h : GoodT proc par X) :
    GoodT proc par (lstep (treeTopo par) proc X (.nodeSend j t)) := by
  unfold lstep
  simp only [step, stepSend, logUpd]
  cases hn : X.st.nodes[j]? with
  | none => exact goodT_eta proc par X h
  | some nd =>
    simp only
    cases hpend : nd.pending with
    | none => exact goodT_eta proc par X h
    | some p =>
      simp only
      by_cases hr : Loop.reachesSender ((treeTopo par).hasOut j) p.res = true
      · simp only [hr, ↓reduceIte]
        have hout : (treeTopo par).hasOut j = true := by
          cases hres : p.res with
          | none => rw [hres] at hr; simp [Loop.reachesSender] at hr
          | dict d => rw [hres] at hr; simpa [Loop.reachesSender] using hr
          | deferred r => rw [hres] at hr; simpa [Loop.reachesSender] using hr
        rw [tree_hasOut] at hout
        exact goodT_sendReal proc par hpar X j t nd p h hn hpend (by simpa using hout)
      · have hr' : Loop.reachesSender ((treeTopo par).hasOut j) p.res = false := by simpa using hr
        simp only [hr', Bool.false_eq_true, ↓reduceIte, sendSkip]
        exact goodT_sendSkip proc par hpar X j nd p h hn hpend hr'

theorem goodT_lrun (proc : Proc) (hp : ProcNames proc) (par : List Nat) (hpar : ParOK par) : ∀ (evs : List Ev) (X : LSt),
    GoodT proc par X → (∀ e ∈ evs, isRestart e = false) → GoodT proc par (lrun (treeTopo par) proc X evs) := by
  intro evs
  induction evs with
  | nil => intro X h _; exact h
  | cons e es ih =>
    intro X h hnr
    apply ih _ _ (fun x hx => hnr x (List.mem_cons_of_mem _ hx))
    cases e with
    | nodeRecv j => exact goodT_stepRecv proc hp par hpar X j h
    | nodeSend j t => exact goodT_stepSend proc par hpar X j t h
    | restart j g => have := hnr _ (List.mem_cons_self ..); simp [isRestart] at this

/-! ## the theorems -/

/-- **C03, stage C, every edge of a tee / tree**: along every restart-free run, for every node `c = idx + 1` with parent `u`:
what `process()` of `c` has been called with is a PREFIX of the visible part of what `u` has produced so far from what `u` itself
was handed (`prodOf`: `proc u` applied set by set with the normalisation of `process_frames`, ids handed on; for the source its
surviving frames under consecutive ids).  Nothing lost from the first set on, for EVERY consumer of `u`, however late or slow. -/
theorem C03_net_tree_edge (proc : Proc) (hp : ProcNames proc) (par : List Nat) (hpar : ParOK par) (evs : List Ev)
    (hnr : ∀ e ∈ evs, isRestart e = false) (idx u : Nat) (hpu : par[idx]? = some u) (P : Node)
    (hP : (lrun (treeTopo par) proc (linit (treeTopo par)) evs).st.nodes[u]? = some P) :
    (lrun (treeTopo par) proc (linit (treeTopo par)) evs).log (idx + 1) <+:
      (prodOf proc (lrun (treeTopo par) proc (linit (treeTopo par)) evs) u P).map visB := by
  have hg := goodT_lrun proc hp par hpar evs _ (goodT_init proc par) hnr
  generalize lrun (treeTopo par) proc (linit (treeTopo par)) evs = X at hg hP ⊢
  rcases hg.pubs u P hP (List.mem_of_getElem? hpu) with ⟨pub, hpub, hcons⟩
  have hcl : idx + 1 < X.st.nodes.length := by
    rw [hg.len]; have := (List.getElem?_eq_some_iff.mp hpu).1; omega
  rcases hcons idx _ hpu (List.getElem?_eq_getElem hcl) with ⟨bsW, s, hc⟩
  have := hc.handed
  simp only [atC] at this
  rw [this]
  apply prefix_map_visB
  refine List.IsPrefix.trans (List.take_prefix _ _) ?_
  rw [hpub.prod]; exact List.prefix_append _ _

/-! ### composition along the path from the source -/

/-- `ps` is a path of the tree that starts below `u` -/
def IsPath (par : List Nat) : Nat → List Nat → Prop
  | _, [] => True
  | u, c :: rest => (∃ idx, c = idx + 1 ∧ par[idx]? = some u) ∧ IsPath par c rest

/-- what the last node of the path `ps` is handed when the node above the path produces `acc`: thread `acc` through the
process functions of the nodes on the way -/
def handedAlong (proc : Proc) : List HSet → List Nat → List HSet
  | _, [] => []
  | acc, c :: rest =>
    match rest with
    | [] => acc.map visB
    | _ :: _ => handedAlong proc (throughFrom proc c 0 (acc.map visB)) rest

theorem goodT_edge (proc : Proc) (par : List Nat) (X : LSt) (hg : GoodT proc par X) (idx u : Nat) (hpu : par[idx]? = some u)
    (P : Node) (hP : X.st.nodes[u]? = some P) : X.log (idx + 1) <+: (prodOf proc X u P).map visB := by
  rcases hg.pubs u P hP (List.mem_of_getElem? hpu) with ⟨pub, hpub, hcons⟩
  have hcl : idx + 1 < X.st.nodes.length := by
    rw [hg.len]; have := (List.getElem?_eq_some_iff.mp hpu).1; omega
  rcases hcons idx _ hpu (List.getElem?_eq_getElem hcl) with ⟨bsW, s, hc⟩
  have := hc.handed
  simp only [atC] at this
  rw [this]
  apply prefix_map_visB
  refine List.IsPrefix.trans (List.take_prefix _ _) ?_
  rw [hpub.prod]; exact List.prefix_append _ _

theorem goodT_path (proc : Proc) (par : List Nat) (X : LSt) (hg : GoodT proc par X) :
    ∀ (ps : List Nat) (u : Nat) (P : Node) (acc : List HSet), X.st.nodes[u]? = some P → prodOf proc X u P <+: acc →
      IsPath par u ps → ∀ c, ps.getLast? = some c → X.log c <+: handedAlong proc acc ps := by
  intro ps
  induction ps with
  | nil => intro u P acc _ _ _ c hc; cases hc
  | cons c rest ih =>
    intro u P acc hP hacc hpath c' hc'
    rcases hpath with ⟨⟨idx, rfl, hpu⟩, hrest⟩
    have hedge := goodT_edge proc par X hg idx u hpu P hP
    have hlog : X.log (idx + 1) <+: acc.map visB := List.IsPrefix.trans hedge (prefix_map_visB _ _ hacc)
    cases rest with
    | nil =>
      simp only [List.getLast?_singleton, Option.some.injEq] at hc'
      subst hc'
      simpa [handedAlong] using hlog
    | cons c2 rest2 =>
      simp only [handedAlong]
      have hcl : idx + 1 < X.st.nodes.length := by
        rw [hg.len]; have := (List.getElem?_eq_some_iff.mp hpu).1; omega
      refine ih (idx + 1) _ _ (List.getElem?_eq_getElem hcl) ?_ hrest c' (by simpa using hc')
      have hne : ¬ idx + 1 = 0 := by omega
      simp only [prodOf, hne, ↓reduceIte]
      exact throughFrom_prefix proc (idx + 1) _ _ hlog

/-- **C03, stage C, tees and trees (`C03_net_tree_composition`)**: for every tree `par` (node 0 the source, every other node
subscribed to one earlier node, ANY number of consumers per publisher), every process-function family with dict-like results,
every restart-free schedule, and every path `0 → p₁ → … → c` of the tree: the sequence of `(id, content)` sets `process()` of `c`
has been called with along the run is a PREFIX of the source's frames `0 … N-1` threaded through `proc 0, proc p₁, …` up to the
parent of `c` (`handedAlong`): no frame is lost starting with the very first one, for every branch of every tee.  No `required`
list is needed in `Net` (see the header). -/
theorem C03_net_tree_composition (proc : Proc) (hp : ProcNames proc) (par : List Nat) (hpar : ParOK par) (evs : List Ev)
    (hnr : ∀ e ∈ evs, isRestart e = false) (ps : List Nat) (hpath : IsPath par 0 ps) (c : Nat) (hc : ps.getLast? = some c) :
    (lrun (treeTopo par) proc (linit (treeTopo par)) evs).log c <+:
      handedAlong proc (srcBlocks proc (srcCount (lrun (treeTopo par) proc (linit (treeTopo par)) evs))) ps := by
  have hg := goodT_lrun proc hp par hpar evs _ (goodT_init proc par) hnr
  generalize lrun (treeTopo par) proc (linit (treeTopo par)) evs = X at hg ⊢
  have h0 : 0 < X.st.nodes.length := by rw [hg.len]; omega
  refine goodT_path proc par X hg ps 0 _ _ (List.getElem?_eq_getElem h0) ?_ hpath c hc
  have : srcCount X = (X.st.nodes[0]).count := by unfold srcCount; rw [List.getElem?_eq_getElem h0]; rfl
  simp only [prodOf, ↓reduceIte, this]
  exact List.prefix_refl _

/-! ### non-vacuity: a tee whose second branch shows up late -/

/-- source 0 → branches 1 and 2 (a tee) → 3 below branch 1 -/
def tPar : List Nat := [0, 0, 1]

theorem tPar_ok : ParOK tPar := by
  intro idx p h
  match idx, h with
  | 0, h => simp [tPar] at h; omega
  | 1, h => simp [tPar] at h; omega
  | 2, h => simp [tPar] at h; omega
  | n + 3, h => simp [tPar] at h

def tRound (t : Int) : List Ev := [.nodeRecv 0, .nodeSend 0 t, .nodeRecv 1, .nodeSend 1 t, .nodeRecv 3, .nodeSend 3 t]
def tLate (t : Int) : List Ev := [.nodeRecv 2, .nodeSend 2 t]

/-- the source, branch 1 and node 3 below it run for seven rounds while branch 2 does NOTHING (it has not even said hello);
then branch 2 alone makes five rounds -/
def tSched : List Ev :=
  tRound 1100 ++ tRound 1200 ++ tRound 1300 ++ tRound 1400 ++ tRound 1500 ++ tRound 1600 ++ tRound 1700 ++
  tLate 1800 ++ tLate 1900 ++ tLate 2000 ++ tLate 2100 ++ tLate 2200

/-- the late branch 2 is handed every frame from 0 on — the very sets branch 1 was handed — although the source published them
while it tracked branch 1 only; node 3 (below the relay 1, which drops its second set and defers its third) gets ids 0, 2, 3 -/
example : (lrun (treeTopo tPar) cProc (linit (treeTopo tPar)) tSched).log 2 =
      [(0, [("main", 0)]), (1, [("main", 10)]), (2, [("main", 20)]), (3, [("main", 30)])] ∧
    (lrun (treeTopo tPar) cProc (linit (treeTopo tPar)) tSched).log 1 = (lrun (treeTopo tPar) cProc (linit (treeTopo tPar)) tSched).log 2 ∧
    (lrun (treeTopo tPar) cProc (linit (treeTopo tPar)) tSched).log 3 = [(0, [("main", 0)]), (2, [("main", 21)]), (3, [("main", 30)])] := by
  decide +kernel

end OF.Net
