import OFModel.Allow
/-!
# C16 — property theorems

Quantifier: every allow-list (absent / empty / names / patterns), every list of metrics with arbitrary
names and points.  The theorems are stated for an arbitrary decision function `allowed`, hence for
every allow-list and every matcher; `allowFn` instantiates it with the transcribed `_is_allowed`.
-/
namespace OF.Allow

theorem dictSet_keys (d : Facet) (k : String) (v : FVal) (x : String × FVal)
    (hx : x ∈ dictSet d k v) : x ∈ d ∨ x = (k, v) := by
  unfold dictSet at hx
  split at hx
  · rw [List.mem_map] at hx
    rcases hx with ⟨p, hp, rfl⟩
    split
    · right; rfl
    · left; exact hp
  · rw [List.mem_append] at hx
    rcases hx with h | h
    · left; exact h
    · right; simpa using h

/-- invariant of the fold: every facet entry was produced by an allowed metric, and histograms are well shaped -/
def Good (allowed : String → Bool) (ms : List Metric) (e : String × FVal) : Prop :=
  (∃ m ∈ ms, allowed m.name = true ∧ (e.1 = m.name ∨ e.1 = m.name ++ "_histogram")) ∧
  (∀ b c n t, e.2 = .hist b c n t → c.length = b.length + 1) ∧ e.2 ≠ .raw

theorem fixCounts_length (c : List Int) (nb : Nat) : (fixCounts c nb).length = nb + 1 := by
  unfold fixCounts
  split
  · assumption
  · split
    · rw [List.length_take]; omega
    · rw [List.length_append, List.length_replicate]; omega

theorem addMetric_good (allowed : String → Bool) (ms : List Metric) (f : Facet) (m : Metric)
    (hm : m ∈ ms) (hf : ∀ e ∈ f, Good allowed ms e) : ∀ e ∈ addMetric allowed f m, Good allowed ms e := by
  intro e he
  unfold addMetric at he
  split at he
  · exact hf e he
  · rename_i hal
    have hal' : allowed m.name = true := by simpa using hal
    split at he
    · exact hf e he
    all_goals first
      | exact hf e he
      | (rcases dictSet_keys _ _ _ _ he with h | h
         · exact hf e h
         · subst h
           refine ⟨⟨m, hm, hal', ?_⟩, ?_, ?_⟩
           · first | (left; rfl) | (right; rfl)
           · intro b c n t hh
             first
               | (cases hh; exact fixCounts_length _ _)
               | (cases hh)
           · intro hh; cases hh)

theorem foldl_good (allowed : String → Bool) (all : List Metric) :
    ∀ (ms : List Metric) (f : Facet), (∀ m ∈ ms, m ∈ all) → (∀ e ∈ f, Good allowed all e) →
      ∀ e ∈ ms.foldl (addMetric allowed) f, Good allowed all e := by
  intro ms
  induction ms with
  | nil => intro f _ hf; simpa using hf
  | cons m ms ih =>
    intro f hsub hf
    simp only [List.foldl_cons]
    apply ih
    · intro x hx; exact hsub x (List.mem_cons_of_mem _ hx)
    · exact addMetric_good allowed all f m (hsub m (List.mem_cons_self ..)) hf

/-- **C16 (only allowed)**: with raw-data export off, every key handed to the lineage backend is `n` or
`n ++ "_histogram"` for a metric `n` of the batch that the allow decision accepts. -/
theorem C16_only_allowed (allowed : String → Bool) (ms : List Metric) (facet : Facet)
    (h : exportFacet allowed false ms = some facet) :
    ∀ e ∈ facet, ∃ m ∈ ms, allowed m.name = true ∧ (e.1 = m.name ∨ e.1 = m.name ++ "_histogram") := by
  intro e he
  unfold exportFacet at h
  simp only [Bool.false_eq_true, ↓reduceIte] at h
  split at h
  · cases h
  · cases h
    exact (foldl_good allowed ms ms [] (fun _ h => h) (by simp) e he).1

/-- the same with the opt-in raw subject data: the only other key is `raw_subject_data`. -/
theorem C16_only_allowed_raw (allowed : String → Bool) (ms : List Metric) (facet : Facet)
    (h : exportFacet allowed true ms = some facet) :
    ∀ e ∈ facet, e = ("raw_subject_data", .raw) ∨
      ∃ m ∈ ms, allowed m.name = true ∧ (e.1 = m.name ∨ e.1 = m.name ++ "_histogram") := by
  intro e he
  unfold exportFacet at h
  simp only [↓reduceIte] at h
  split at h
  · cases h
  · cases h
    rcases dictSet_keys _ _ _ _ he with h1 | h1
    · right; exact (foldl_good allowed ms ms [] (fun _ h => h) (by simp) e h1).1
    · left; exact h1

/-- **C16 (lock-down)**: if the decision rejects every name nothing is handed over at all. -/
theorem C16_lockdown (allowed : String → Bool) (ms : List Metric) (h : ∀ n, allowed n = false) :
    exportFacet allowed false ms = none := by
  have hstep : ∀ f m, addMetric allowed f m = f := by
    intro f m; unfold addMetric; simp [h m.name]
  have : ms.foldl (addMetric allowed) [] = [] := by
    induction ms with
    | nil => rfl
    | cons m ms ih => simp only [List.foldl_cons, hstep]; exact ih
  unfold exportFacet
  simp [this]

/-- an empty configured allow-list (the default returned by `read_allowlist`) rejects every name -/
theorem C16_empty_allowlist_rejects (n : String) : allowFn (some []) n = false := by
  simp [allowFn, isAllowed]

theorem C16_default_lockdown (ms : List Metric) : exportFacet (allowFn (some (readAllowEnv none))) false ms = none :=
  C16_lockdown _ ms (by intro n; simp [readAllowEnv, allowFn, isAllowed])

/-- **C16 (the file takes precedence, also when its list is empty)**: a readable `OF_SAFE_METRICS_FILE` decides the allow-list
whatever `OF_SAFE_METRICS` holds -/
theorem C16_file_precedence (l : List String) (env : Option String) : readAllowlist (some l) env = l := rfl

/-- **C16 (lock-down by file)**: an empty `safe_metrics` list in the file exports nothing, even with `OF_SAFE_METRICS` set -/
theorem C16_file_lockdown (env : Option String) (ms : List Metric) :
    exportFacet (allowFn (some (readAllowlist (some []) env))) false ms = none :=
  C16_lockdown _ ms (by intro n; simp [readAllowlist, allowFn, isAllowed])

theorem C16_no_file_is_env (env : Option String) : readAllowlist none env = readAllowEnv env := rfl

/-- a name is accepted only through an entry of the list: exact or wildcard -/
theorem C16_allowed_has_entry (l : List String) (n : String) (h : allowFn (some l) n = true) :
    n ∈ l ∨ ∃ p ∈ l, globMatch p n = true := by
  simp only [allowFn, isAllowed, Bool.or_eq_true, List.any_eq_true] at h
  rcases h with h | h
  · left; simpa using h
  · right; exact h

/-- **C16 (histogram shape)**: every exported histogram has one more count than bucket bounds. -/
theorem C16_histogram_shape (allowed : String → Bool) (raw : Bool) (ms : List Metric) (facet : Facet)
    (h : exportFacet allowed raw ms = some facet) :
    ∀ e ∈ facet, ∀ b c n t, e.2 = .hist b c n t → c.length = b.length + 1 := by
  intro e he b c n t hh
  cases raw
  · unfold exportFacet at h
    simp only [Bool.false_eq_true, ↓reduceIte] at h
    split at h
    · cases h
    · cases h
      exact (foldl_good allowed ms ms [] (fun _ h => h) (by simp) e he).2.1 b c n t hh
  · unfold exportFacet at h
    simp only [↓reduceIte] at h
    split at h
    · cases h
    · cases h
      rcases dictSet_keys _ _ _ _ he with h1 | h1
      · exact (foldl_good allowed ms ms [] (fun _ h => h) (by simp) e h1).2.1 b c n t hh
      · subst h1; cases hh

/-! Non-vacuity and negative witness. -/

/-- the hypotheses are satisfiable: an allowed counter and histogram are exported, the rest dropped -/
example : exportFacet (allowFn (some ["frames_*"])) false
    [⟨"frames_processed", .sum true 7⟩, ⟨"secret", .gauge 3⟩, ⟨"frames_h", .hist [1, 2] [10, 20, 30] 3 9⟩]
    = some [("frames_processed", .int 7), ("frames_h_histogram", .hist [10, 20, 30] [1, 2, 0, 0] 3 9)] := by
  decide +kernel

/-- the defect of the pinned commit (`if self._allow and …`): an empty list behaved like `none`
and exported everything; kept as a witness that `allowFn none` is *not* lock-down. -/
example : exportFacet (allowFn none) false [⟨"secret", .gauge 3⟩] = some [("secret", .float 3)] := by
  decide +kernel

end OF.Allow
